(* parser.go: the scanning helpers and the expression parser, as programs. *)
From InfluxQL Require Import Base.Prelude Base.Oracles Lex.Token Ast.Ast Val.Duration Parse.Instr Parse.ExprTree.

Section Parser.
Variable orc : oracles.

Definition fail_at {A} (t : tokinfo) : prog A := Fail (EPos (ti_serial t)).
Definition is_tok (t : tokinfo) (k : token) : bool := tok_eqb (ti_tok t) k.

(* Parser.ScanIgnoreWhitespace; the bound on consecutive skipped tokens is the shared fuel *)
Fixpoint scan_iw (fuel : nat) : prog tokinfo :=
  match fuel with
  | O => Fail EFuel
  | S f =>
      t <- scan_p ;;
      match ti_tok t with
      | WS | COMMENT => scan_iw f
      | _ => Ret t
      end
  end.

(* Parser.consumeWhitespace *)
Definition consume_ws : prog unit :=
  t <- scan_p ;; match ti_tok t with WS => Ret tt | _ => unscan_p end.

(* if tok, pos, lit := p.ScanIgnoreWhitespace(); tok != K { return nil, newParseError(...) } *)
Definition expect (fuel : nat) (k : token) : prog unit :=
  t <- scan_iw fuel ;; if is_tok t k then Ret tt else fail_at t.

(* Parser.parseTokens *)
Fixpoint parse_tokens (fuel : nat) (ks : list token) : prog unit :=
  match ks with
  | [] => Ret tt
  | k :: ks' => expect fuel k ;;; parse_tokens fuel ks'
  end.

(* Parser.ParseIdent / parseString *)
Definition parse_ident (fuel : nat) : prog text :=
  t <- scan_iw fuel ;; match ti_tok t with IDENT => Ret (ti_lit t) | _ => fail_at t end.
Definition parse_string (fuel : nat) : prog text :=
  t <- scan_iw fuel ;; match ti_tok t with STRING => Ret (ti_lit t) | _ => fail_at t end.

(* strconv.ParseInt / ParseUint / Atoi on a literal: optional sign, digits *)
Definition all_digits (s : text) : bool := match s with [] => false | _ => forallb is_digit s end.
Definition parse_int_lit (s : text) : option Z :=
  match s with
  | c :: s' =>
      if (c =? 45) then (if all_digits s' then Some (- digits_val s') else None)
      else if (c =? 43) then (if all_digits s' then Some (digits_val s') else None)
      else if all_digits s then Some (digits_val s) else None
  | [] => None
  end.
Definition parse_i64 (s : text) : option Z :=
  match parse_int_lit s with Some v => if fits64 v then Some v else None | None => None end.
Definition parse_u64 (s : text) : option Z :=
  if all_digits s then (let v := digits_val s in if v <=? max_u64 then Some v else None)
  else match s with c :: s' => if (c =? 43) && all_digits s' then
                                 (let v := digits_val s' in if v <=? max_u64 then Some v else None) else None
                  | [] => None end.

(* Parser.ParseInt(min, max) *)
Definition parse_int (fuel : nat) (lo hi : Z) : prog Z :=
  t <- scan_iw fuel ;;
  match ti_tok t with
  | INTEGER =>
      match parse_i64 (ti_lit t) with
      | None => fail_at t
      | Some n => if (lo >? n) || (n >? hi) then fail_at t else Ret n
      end
  | _ => fail_at t
  end.

(* Parser.ParseUInt64 *)
Definition parse_uint64 (fuel : nat) : prog Z :=
  t <- scan_iw fuel ;;
  match ti_tok t with
  | INTEGER => match parse_u64 (ti_lit t) with Some n => Ret n | None => fail_at t end
  | _ => fail_at t
  end.

(* Parser.ParseDuration *)
Definition parse_duration_p (fuel : nat) : prog Z :=
  t <- scan_iw fuel ;;
  match ti_tok t with
  | INF => Ret 0
  | DURATIONVAL => match parse_duration (ti_lit t) with Ok d => Ret d | _ => fail_at t end
  | _ => fail_at t
  end.

(* Parser.ParseOptionalTokenAndInt: n, _ := strconv.ParseInt(lit, 10, 64) drops the
   error, so an out-of-range literal saturates; n < 0 is an error *)
Definition opt_token_int (fuel : nat) (k : token) : prog Z :=
  t <- scan_iw fuel ;;
  if negb (is_tok t k) then unscan_p ;;; Ret 0
  else
    t2 <- scan_iw fuel ;;
    match ti_tok t2 with
    | INTEGER =>
        match parse_i64 (ti_lit t2) with
        | None => fail_at t2                 (* strconv.ParseInt: syntax or range error, reported at the number *)
        | Some n => if n <? 0 then fail_at t2 else Ret n
        end
    | _ => fail_at t2
    end.

(* Parser.ParseIdentList *)
Fixpoint ident_list_loop (fuel : nat) (acc : list text) : prog (list text) :=
  match fuel with
  | O => Fail EFuel
  | S f =>
      t <- scan_iw fuel ;;
      match ti_tok t with
      | COMMA => i <- parse_ident fuel ;; ident_list_loop f (acc ++ [i])
      | _ => unscan_p ;;; Ret acc
      end
  end.
Definition parse_ident_list (fuel : nat) : prog (list text) :=
  i <- parse_ident fuel ;; ident_list_loop fuel [i].

(* Parser.parseStringList *)
Fixpoint string_list_loop (fuel : nat) (acc : list text) : prog (list text) :=
  match fuel with
  | O => Fail EFuel
  | S f =>
      t <- scan_iw fuel ;;
      match ti_tok t with
      | COMMA => i <- parse_string fuel ;; string_list_loop f (acc ++ [i])
      | _ => unscan_p ;;; Ret acc
      end
  end.
Definition parse_string_list (fuel : nat) : prog (list text) :=
  i <- parse_string fuel ;; string_list_loop fuel [i].

(* Parser.parseSegmentedIdents *)
Fixpoint segmented_loop (fuel : nat) (acc : list text) : prog (list text) :=
  match fuel with
  | O => Fail EFuel
  | S f =>
      t <- scan_p ;;
      match ti_tok t with
      | DOT =>
          c <- peek_p ;;
          match c with
          | RSlash => Ret acc
          | RColon => Ret acc
          | RDot => segmented_loop f (acc ++ [[]])
          | _ => i <- parse_ident fuel ;; segmented_loop f (acc ++ [i])
          end
      | _ => unscan_p ;;; Ret acc
      end
  end.
Definition parse_segmented_idents (fuel : nat) : prog (list text) :=
  i <- parse_ident fuel ;;
  idents <- segmented_loop fuel [i] ;;
  if (3 <? length idents)%nat then Fail EZero else Ret idents.

(* strings.Join(segments, ".") *)
Fixpoint join_dot (l : list text) : text :=
  match l with
  | [] => []
  | [x] => x
  | x :: l' => x ++ 46 :: join_dot l'
  end.

(* Parser.parseRegex: None = (nil, nil) *)
Definition parse_regex : prog (option text) :=
  c0 <- peek_p ;;
  (match c0 with RWs => consume_ws | _ => Ret tt end) ;;;
  c <- peek_p ;;
  let lex :=
    t <- scan_regex_p ;;
    match ti_tok t with
    | REGEX => if o_re_ok orc (ti_lit t) then Ret (Some (ti_lit t)) else fail_at t
    | _ => fail_at t          (* BADESCAPE, BADREGEX, anything else: a ParseError at its position *)
    end in
  match c with
  | RDollar =>
      t <- scan_p ;; unscan_p ;;;
      match ti_tok t with REGEX => lex | _ => Ret None end
  | RSlash => lex
  | _ => Ret None
  end.

(* the cast after "::" in ParseVarRef *)
Definition cast_type (lit : text) : option datatype :=
  let l := to_lower (o_ulower orc) lit in
  if text_eqb l (ts "float") then Some DFloat
  else if text_eqb l (ts "integer") then Some DInteger
  else if text_eqb l (ts "unsigned") then Some DUnsigned
  else if text_eqb l (ts "string") then Some DString
  else if text_eqb l (ts "boolean") then Some DBoolean
  else None.

(* Parser.ParseVarRef *)
Definition parse_var_ref (fuel : nat) : prog expr :=
  segs <- parse_segmented_idents fuel ;;
  t <- scan_p ;;
  match ti_tok t with
  | DOUBLECOLON =>
      t2 <- scan_p ;;
      match ti_tok t2 with
      | IDENT => match cast_type (ti_lit t2) with
                 | Some d => Ret (VarRef (join_dot segs) d)
                 | None => fail_at t2
                 end
      | FIELD => Ret (VarRef (join_dot segs) DAnyField)
      | TAG => Ret (VarRef (join_dot segs) DTag)
      | _ => fail_at t2
      end
  | _ => unscan_p ;;; Ret (VarRef (join_dot segs) DUnknown)
  end.

Definition panic_unexpected_literal : Z := 1.

(* ParseExpr, parseUnaryExpr, parseCall: one shared, structurally decreasing fuel *)
Fixpoint parse_expr (fuel : nat) : prog expr :=
  match fuel with
  | O => Fail EFuel
  | S f => e0 <- parse_unary f ;; expr_loop f e0
  end
with expr_loop (fuel : nat) (root : expr) : prog expr :=
  match fuel with
  | O => Fail EFuel
  | S f =>
      t <- scan_iw fuel ;;
      if negb (is_operator (ti_tok t)) then unscan_p ;;; Ret root
      else if is_regex_op (ti_tok t) then
        re <- parse_regex ;;
        match re with
        | Some r => expr_loop f (insert root (ti_tok t) (RegexLit r))
        | None => t2 <- scan_iw fuel ;; fail_at t2
        end
      else
        rhs <- parse_unary f ;; expr_loop f (insert root (ti_tok t) rhs)
  end
with parse_unary (fuel : nat) : prog expr :=
  match fuel with
  | O => Fail EFuel
  | S f =>
      t0 <- scan_iw fuel ;;
      if is_tok t0 LPAREN then
          e <- parse_expr f ;;
          expect fuel RPAREN ;;;
          Ret (ParenExpr e)
      else
          unscan_p ;;;
          t <- scan_iw fuel ;;
          match ti_tok t with
          | IDENT =>
              t1 <- scan_p ;;
              match ti_tok t1 with
              | LPAREN => parse_call f (ti_lit t)
              | _ => unscan_p ;;; unscan_p ;;; parse_var_ref fuel
              end
          | DISTINCT =>
              t1 <- scan_p ;;
              match ti_tok t1 with
              | LPAREN => parse_call f (ts "distinct")
              | WS =>
                  t2 <- scan_iw fuel ;;
                  match ti_tok t2 with
                  | IDENT => Ret (Distinct (ti_lit t2))
                  | _ => fail_at t2
                  end
              | _ => fail_at t1
              end
          | STRING => Ret (StringLit (ti_lit t))
          | NUMBER =>
              match o_parse_float orc (ti_lit t) with
              | Some v => Ret (NumberLit (f_canon v))
              | None => fail_at t
              end
          | INTEGER =>
              match parse_i64 (ti_lit t) with
              | Some v => Ret (IntegerLit v)
              | None => match parse_u64 (ti_lit t) with
                        | Some u => Ret (UnsignedLit u)
                        | None => fail_at t
                        end
              end
          | TRUE => Ret (BooleanLit true)
          | FALSE => Ret (BooleanLit false)
          | DURATIONVAL =>
              match parse_duration (ti_lit t) with
              | Ok d => Ret (DurationLit d)
              | _ => Fail ENoPos
              end
          | MUL =>
              t1 <- scan_p ;;
              match ti_tok t1 with
              | DOUBLECOLON =>
                  t2 <- scan_p ;;
                  match ti_tok t2 with
                  | FIELD => Ret (Wildcard FIELD)
                  | TAG => Ret (Wildcard TAG)
                  | _ => fail_at t2
                  end
              | _ => unscan_p ;;; Ret (Wildcard ILLEGAL)
              end
          | REGEX => if o_re_ok orc (ti_lit t) then Ret (RegexLit (ti_lit t)) else fail_at t
          | BOUNDPARAM => Fail ENoPos
          | ADD | SUB =>
              let neg := is_tok t SUB in
              let mul := if neg then -1 else 1 in
              t1 <- scan_iw fuel ;;
              match ti_tok t1 with
              | NUMBER | INTEGER | DURATIONVAL | LPAREN | IDENT =>
                  unscan_p ;;;
                  lit <- parse_unary f ;;
                  match lit with
                  | NumberLit v => Ret (NumberLit (if neg then f_neg v else f_canon v))
                  | IntegerLit v => Ret (IntegerLit (wrap64 (v * mul)))
                  | UnsignedLit u =>
                      if neg then (if u =? two63 then Ret (IntegerLit min_i64) else Fail ENoPos)
                      else Ret lit
                  | DurationLit d => Ret (DurationLit (wrap64 (d * mul)))
                  | VarRef _ _ | Call _ _ | ParenExpr _ => Ret (BinaryExpr MUL (IntegerLit mul) lit)
                  | _ => Panic panic_unexpected_literal
                  end
              | _ => fail_at t1
              end
          | _ => fail_at t
          end
  end
with parse_call (fuel : nat) (name : text) : prog expr :=
  match fuel with
  | O => Fail EFuel
  | S f =>
      let name := to_lower (o_ulower orc) name in
      re <- parse_regex ;;
      first <-
        match re with
        | Some r => Ret (Some [RegexLit r])
        | None =>
            t <- scan_p ;;
            match ti_tok t with
            | RPAREN => Ret None
            | _ => unscan_p ;;; a <- parse_expr f ;; Ret (Some [a])
            end
        end ;;
      match first with
      | None => Ret (Call name [])
      | Some args0 =>
          args <- call_args f args0 ;;
          t <- scan_p ;;
          match ti_tok t with
          | RPAREN => Ret (Call name args)
          | _ => fail_at t
          end
      end
  end
with call_args (fuel : nat) (acc : list expr) : prog (list expr) :=
  match fuel with
  | O => Fail EFuel
  | S f =>
      t <- scan_iw fuel ;;
      match ti_tok t with
      | COMMA =>
          re <- parse_regex ;;
          match re with
          | Some r => call_args f (acc ++ [RegexLit r])
          | None => a <- parse_expr f ;; call_args f (acc ++ [a])
          end
      | _ => unscan_p ;;; Ret acc
      end
  end.

End Parser.
