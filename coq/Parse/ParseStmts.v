(* parser.go: every statement-level parser function, and parse_tree.go: the
   dispatch tree of Language, as programs over the instruction set of Instr.v.
   Transliterated function by function, in the order of the scans and unscans
   of the Go code; nothing is tidied. *)
From InfluxQL Require Import Base.Prelude Base.Oracles Lex.Token Ast.Ast Ast.Printer Val.Duration Parse.Instr Parse.ExprTree Parse.ParseExpr.

Section Stmts.
Variable orc : oracles.

(* ------------------------------------------------------------------ *)
(* ast.go: the few pure functions the parser calls                      *)
(* ------------------------------------------------------------------ *)

(* &Measurement{} *)
Definition measurement0 : measurement := mkMeasurement [] [] [] None false [].

(* membership in a token list: found[tok], tok == A || tok == B *)
Definition tok_in (k : token) (l : list token) : bool := existsb (tok_eqb k) l.

(* parseSelectStatement:
     stmt.IsRawQuery = true
     WalkFunc(stmt.Fields, func(n Node) { if _, ok := n.( *Call); ok { stmt.IsRawQuery = false } })
   Walk descends from Fields into each Field's Expr and, among expressions,
   only into BinaryExpr (LHS, RHS), Call (Args) and ParenExpr (Expr).
   [walk_has_call e]: the function is called on some *Call node below e. *)
Fixpoint walk_has_call (e : expr) : bool :=
  match e with
  | BinaryExpr _ l r => walk_has_call l || walk_has_call r
  | Call _ _ => true
  | ParenExpr e' => walk_has_call e'
  | _ => false
  end.
Definition is_raw_query (fields : list field) : bool :=
  negb (existsb (fun f => walk_has_call (f_expr f)) fields).

(* validateField.Visit: the operators that make a field invalid *)
Definition validate_field_bad_op (op : token) : bool :=
  match op with
  | EQ | NEQ | EQREGEX | NEQREGEX | LT | LTE | GT | GTE | AND | OR => true
  | _ => false
  end.
(* var c validateField; Walk(&c, expr); c.foundInvalid.  Visit returns nil on
   a bad BinaryExpr (no descent below it, the flag is set), c otherwise. *)
Fixpoint validate_field (e : expr) : bool :=
  match e with
  | BinaryExpr op l r =>
      if validate_field_bad_op op then true else validate_field l || validate_field r
  | Call _ args => existsb validate_field args
  | ParenExpr e' => validate_field e'
  | _ => false
  end.

(* SelectStatement.GroupByInterval (the memo field is not modelled) *)
Fixpoint group_by_interval_loop (ds : list expr) : res Z :=
  match ds with
  | [] => Ok 0
  | d :: ds' =>
      match d with
      | Call name args =>
          if text_eqb name (ts "time") then
            let got := length args in
            if ((got <? 1) || (2 <? got))%nat then Err (ts "time dimension expected 1 or 2 arguments")
            else
              match args with
              | DurationLit v :: _ => Ok v
              | _ => Err (ts "time dimension must have duration argument")
              end
          else group_by_interval_loop ds'
      | _ => group_by_interval_loop ds'
      end
  end.
Definition group_by_interval (s : select) : res Z :=
  match s_dims s with
  | [] => Ok 0                                    (* len(s.Dimensions) == 0 *)
  | ds => group_by_interval_loop ds
  end.

(* CreateContinuousQueryStatement.validate: true = nil, false = an error
   (errors.New from GroupByInterval or fmt.Errorf: never a ParseError) *)
Definition cq_validate (src : select) (every for_ : Z) : bool :=
  match group_by_interval src with
  | Ok interval =>
      if negb (for_ =? 0) then
        let interval' := if negb (every =? 0) && (every >? interval) then every else interval in
        if interval' >? for_ then false else true
      else true
  | _ => false
  end.

(* WalkFunc(stmt.Sources, fn) as far as *Measurement nodes go, in visit order:
   Sources -> each Source; a Measurement is visited itself; a SubQuery walks its
   SelectStatement: Fields, Target (-> its Measurement), Dimensions, Sources,
   Condition, SortFields, of which only Target and Sources contain Measurements. *)
Fixpoint walk_source_measurements (s : source) : list measurement :=
  match s with
  | SMeasurement m => [m]
  | SSubQuery q =>
      (match s_target q with Some m => [m] | None => [] end)
      ++ flat_map walk_source_measurements (s_sources q)
  end.
Definition walk_sources_measurements (ss : list source) : list measurement :=
  flat_map walk_source_measurements ss.

(* ------------------------------------------------------------------ *)
(* clause parsers that do not recurse into SELECT                       *)
(* ------------------------------------------------------------------ *)

(* parseWriteLimit *)
Definition parse_write_limit (fuel : nat) : prog Z :=
  t <- scan_iw fuel ;;
  match ti_tok t with
  | LIMIT => d <- parse_duration_p fuel ;; Ret d
  | _ => fail_at t
  end.

(* parsePrivilege *)
Definition parse_privilege (fuel : nat) : prog privilege :=
  t <- scan_iw fuel ;;
  match ti_tok t with
  | READ => Ret ReadPrivilege
  | WRITE => Ret WritePrivilege
  | ALL =>
      t2 <- scan_iw fuel ;;
      (if negb (is_tok t2 PRIVILEGES) then unscan_p else Ret tt) ;;;
      Ret AllPrivileges
  | _ => fail_at t
  end.

(* parseAlias *)
Definition parse_alias (fuel : nat) : prog text :=
  t <- scan_iw fuel ;;
  match ti_tok t with
  | AS => lit <- parse_ident fuel ;; Ret lit
  | _ => unscan_p ;;; Ret []
  end.

(* parseField *)
Definition parse_field (fuel : nat) : prog field :=
  re <- parse_regex orc ;;
  e <- match re with
       | Some r => Ret (RegexLit r)
       | None =>
           scan_iw fuel ;;;                       (* _, pos, _ := p.ScanIgnoreWhitespace() *)
           unscan_p ;;;
           expr <- parse_expr orc fuel ;;
           if validate_field expr then Fail ENoPos (* fmt.Errorf("invalid operator ...") *)
           else Ret expr
       end ;;
  alias <- parse_alias fuel ;;
  consume_ws ;;;
  Ret (mkField e alias).

(* parseFields *)
Fixpoint fields_loop (fuel : nat) (acc : list field) : prog (list field) :=
  match fuel with
  | O => Fail EFuel
  | S f =>
      fl <- parse_field fuel ;;
      let acc' := acc ++ [fl] in
      t <- scan_iw fuel ;;
      match ti_tok t with
      | COMMA => fields_loop f acc'
      | _ => unscan_p ;;; Ret acc'
      end
  end.
Definition parse_fields (fuel : nat) : prog (list field) := fields_loop fuel [].

(* parseTarget *)
Inductive target_req : Set := TargetRequired | TargetNotRequired | TargetSubquery.

Definition parse_target (fuel : nat) (tr : target_req) : prog (option measurement) :=
  t <- scan_iw fuel ;;
  match ti_tok t with
  | INTO =>
      idents <- parse_segmented_idents fuel ;;
      idents' <-
        (if (length idents <? 3)%nat then
           ch <- peek_p ;;
           match ch with
           | RColon => parse_tokens fuel [COLON; MEASUREMENT] ;;; Ret (idents ++ [[]])
           | _ => Ret idents
           end
         else Ret idents) ;;
      (* t := &Target{Measurement: &Measurement{IsTarget: true}}; switch len(idents) *)
      Ret (Some (match idents' with
                 | [a] => mkMeasurement [] [] a None true []
                 | [a; b] => mkMeasurement [] a b None true []
                 | [a; b; c] => mkMeasurement a b c None true []
                 | _ => mkMeasurement [] [] [] None true []
                 end))
  | _ =>
      match tr with
      | TargetRequired => fail_at t
      | _ => unscan_p ;;; Ret None
      end
  end.

(* parseCondition *)
Definition parse_condition (fuel : nat) : prog (option expr) :=
  t <- scan_iw fuel ;;
  match ti_tok t with
  | WHERE => e <- parse_expr orc fuel ;; Ret (Some e)
  | _ => unscan_p ;;; Ret None
  end.

(* parseDimension *)
Definition parse_dimension (fuel : nat) : prog expr :=
  re <- parse_regex orc ;;
  match re with
  | Some r => consume_ws ;;; Ret (RegexLit r)
  | None =>
      e <- parse_expr orc fuel ;;
      consume_ws ;;;
      Ret e
  end.

(* parseDimensions *)
Fixpoint dimensions_loop (fuel : nat) (acc : list expr) : prog (list expr) :=
  match fuel with
  | O => Fail EFuel
  | S f =>
      d <- parse_dimension fuel ;;
      let acc' := acc ++ [d] in
      t <- scan_iw fuel ;;
      match ti_tok t with
      | COMMA => dimensions_loop f acc'
      | _ => unscan_p ;;; Ret acc'
      end
  end.
Definition parse_dimensions (fuel : nat) : prog (list expr) :=
  t <- scan_iw fuel ;;
  match ti_tok t with
  | GROUP => expect fuel BY ;;; dimensions_loop fuel []
  | _ => unscan_p ;;; Ret []
  end.

(* parseFill *)
Definition parse_fill (fuel : nat) : prog (fillopt * fillvalue) :=
  t <- scan_iw fuel ;;
  unscan_p ;;;
  if negb (is_tok t IDENT) || negb (text_eqb (to_lower (o_ulower orc) (ti_lit t)) (ts "fill"))
  then Ret (NullFill, FVNone)
  else
    e <- parse_expr orc fuel ;;
    match e with
    | Call _ [a] =>
        let s := print_expr orc a in                 (* fill.Args[0].String() *)
        if text_eqb s (ts "null") then Ret (NullFill, FVNone)
        else if text_eqb s (ts "none") then Ret (NoFill, FVNone)
        else if text_eqb s (ts "previous") then Ret (PreviousFill, FVNone)
        else if text_eqb s (ts "linear") then Ret (LinearFill, FVNone)
        else
          match a with
          | IntegerLit v => Ret (NumberFill, FVInt v)
          | NumberLit v => Ret (NumberFill, FVFloat v)
          | _ => Fail ENoPos                        (* expected number argument in fill() *)
          end
    | Call _ _ => Fail ENoPos                       (* fill requires an argument *)
    | _ => Fail ENoPos                              (* fill must be a function call *)
    end.

(* parseLocation *)
Definition parse_location (fuel : nat) : prog (option text) :=
  t <- scan_iw fuel ;;
  unscan_p ;;;
  if negb (is_tok t IDENT) || negb (text_eqb (to_lower (o_ulower orc) (ti_lit t)) (ts "tz"))
  then Ret None
  else
    e <- parse_expr orc fuel ;;
    match e with
    | Call _ [a] =>
        match a with
        | StringLit name =>
            match o_load_loc orc name with
            | Some loc => Ret (Some loc)
            | None => Fail ENoPos                   (* unable to find time zone *)
            end
        | _ => Fail ENoPos                          (* expected string argument in tz() *)
        end
    | Call _ _ => Fail ENoPos                       (* tz requires exactly one argument *)
    | _ => Fail ENoPos                              (* tz must be a function call *)
    end.

(* parseSortField *)
Definition parse_sort_field (fuel : nat) : prog sortfield :=
  ident <- parse_ident fuel ;;
  t <- scan_iw fuel ;;
  match ti_tok t with
  | ASC => Ret (mkSortField ident true)
  | DESC => Ret (mkSortField ident false)
  | _ => unscan_p ;;; Ret (mkSortField ident true)
  end.

(* parseSortFields *)
Fixpoint sort_fields_loop (fuel : nat) (acc : list sortfield) : prog (list sortfield) :=
  match fuel with
  | O => Fail EFuel
  | S f =>
      t <- scan_iw fuel ;;
      match ti_tok t with
      | COMMA => fl <- parse_sort_field fuel ;; sort_fields_loop f (acc ++ [fl])
      | _ => unscan_p ;;; Ret acc
      end
  end.
Definition parse_sort_fields (fuel : nat) : prog (list sortfield) :=
  t <- scan_iw fuel ;;
  fields0 <-
    match ti_tok t with
    | ASC => Ret [mkSortField [] true]
    | DESC => Ret [mkSortField [] false]
    | IDENT =>
        unscan_p ;;;
        fl <- parse_sort_field fuel ;;
        if negb (text_eqb (ti_lit t) (ts "time")) then Fail ENoPos   (* only ORDER BY time supported *)
        else Ret [fl]
    | _ => fail_at t
    end ;;
  fields <- sort_fields_loop fuel fields0 ;;
  if (1 <? length fields)%nat then Fail ENoPos                       (* only ORDER BY time supported *)
  else Ret fields.

(* parseOrderBy *)
Definition parse_order_by (fuel : nat) : prog (list sortfield) :=
  t <- scan_iw fuel ;;
  match ti_tok t with
  | ORDER => expect fuel BY ;;; fields <- parse_sort_fields fuel ;; Ret fields
  | _ => unscan_p ;;; Ret []
  end.

(* ------------------------------------------------------------------ *)
(* parseSelectStatement / parseSources / parseSource                    *)
(* ------------------------------------------------------------------ *)

Fixpoint parse_select (fuel : nat) (tr : target_req) : prog select :=
  match fuel with
  | O => Fail EFuel
  | S f =>
      fields <- parse_fields fuel ;;
      target <- parse_target fuel tr ;;
      expect fuel FROM ;;;
      sources <- parse_sources f true ;;
      cond <- parse_condition fuel ;;
      dims <- parse_dimensions fuel ;;
      fl <- parse_fill fuel ;;
      sort <- parse_order_by fuel ;;
      limit <- opt_token_int fuel LIMIT ;;
      offset <- opt_token_int fuel OFFSET ;;
      slimit <- opt_token_int fuel SLIMIT ;;
      soffset <- opt_token_int fuel SOFFSET ;;
      loc <- parse_location fuel ;;
      Ret (mkSelect fields target dims sources cond sort limit offset slimit soffset
             (is_raw_query fields) (fst fl) (snd fl) loc [] false false [] false)
  end
with parse_sources (fuel : nat) (subqueries : bool) : prog (list source) :=
  match fuel with
  | O => Fail EFuel
  | S f => sources_loop f subqueries []
  end
with sources_loop (fuel : nat) (subqueries : bool) (acc : list source) : prog (list source) :=
  match fuel with
  | O => Fail EFuel
  | S f =>
      s <- parse_source f subqueries ;;
      let acc' := acc ++ [s] in
      t <- scan_iw fuel ;;
      match ti_tok t with
      | COMMA => sources_loop f subqueries acc'
      | _ => unscan_p ;;; Ret acc'
      end
  end
with parse_source (fuel : nat) (subqueries : bool) : prog source :=
  match fuel with
  | O => Fail EFuel
  | S f =>
      re <- parse_regex orc ;;
      match re with
      | Some r => Ret (SMeasurement (mkMeasurement [] [] [] (Some r) false []))
      | None =>
          (* the part after the subquery probe *)
          let rest : prog source :=
            idents <- parse_segmented_idents fuel ;;
            if (length idents =? 3)%nat then
              match idents with
              | [a; b; c] => Ret (SMeasurement (mkMeasurement a b c None false []))
              | _ => Ret (SMeasurement measurement0)           (* unreachable: the length is 3 *)
              end
            else
              re2 <- parse_regex orc ;;
              Ret (SMeasurement
                     (match idents with
                      | [a] =>
                          match re2 with
                          | Some _ => mkMeasurement [] a [] re2 false []
                          | None => mkMeasurement [] [] a None false []
                          end
                      | [a; b] =>
                          match re2 with
                          | Some _ => mkMeasurement a b [] re2 false []
                          | None => mkMeasurement [] a b None false []
                          end
                      | _ => mkMeasurement [] [] [] re2 false []
                      end)) in
          if subqueries then
            t <- scan_iw fuel ;;
            match ti_tok t with
            | LPAREN =>
                parse_tokens fuel [SELECT] ;;;
                stmt <- parse_select f TargetSubquery ;;
                parse_tokens fuel [RPAREN] ;;;
                Ret (SSubQuery stmt)
            | _ => unscan_p ;;; rest
            end
          else rest
      end
  end.

(* ------------------------------------------------------------------ *)
(* statements                                                           *)
(* ------------------------------------------------------------------ *)

(* if tok == ON { ident, err = p.ParseIdent() } else { p.Unscan() }  — the
   optional ON clause, written out identically in ten functions *)
Definition opt_on_ident (fuel : nat) : prog text :=
  t <- scan_iw fuel ;;
  match ti_tok t with
  | ON => ident <- parse_ident fuel ;; Ret ident
  | _ => unscan_p ;;; Ret []
  end.

(* if tok == FROM { stmt.Sources, err = p.parseSources(false) } else { p.Unscan() } *)
Definition opt_from_sources (fuel : nat) : prog (list source) :=
  t <- scan_iw fuel ;;
  match ti_tok t with
  | FROM => ss <- parse_sources fuel false ;; Ret ss
  | _ => unscan_p ;;; Ret []
  end.

(* parseSetPasswordUserStatement *)
Definition parse_set_password_user (fuel : nat) : prog stmt :=
  name <- parse_ident fuel ;;
  expect fuel EQ ;;;
  password <- parse_string fuel ;;
  Ret (SetPasswordUser password name).

(* parseKillQueryStatement *)
Definition parse_kill_query (fuel : nat) : prog stmt :=
  qid <- parse_uint64 fuel ;;
  t <- scan_iw fuel ;;
  match ti_tok t with
  | ON => host <- parse_ident fuel ;; Ret (KillQuery qid host)
  | _ => unscan_p ;;; Ret (KillQuery qid [])
  end.

(* parseCreateSubscriptionStatement *)
Definition parse_create_subscription (fuel : nat) : prog stmt :=
  name <- parse_ident fuel ;;
  expect fuel ON ;;;
  db <- parse_ident fuel ;;
  t <- scan_p ;;
  (if negb (is_tok t DOT) then fail_at t else Ret tt) ;;;
  rp <- parse_ident fuel ;;
  expect fuel DESTINATIONS ;;;
  t2 <- scan_iw fuel ;;
  mode <- (if is_tok t2 ALL || is_tok t2 ANY then Ret (tok_string (ti_tok t2)) else fail_at t2) ;;
  destinations <- parse_string_list fuel ;;
  Ret (CreateSubscription name db rp destinations mode).

(* parseCreateRetentionPolicyStatement *)
Definition parse_create_retention_policy (fuel : nat) : prog stmt :=
  name <- parse_ident fuel ;;
  expect fuel ON ;;;
  db <- parse_ident fuel ;;
  expect fuel DURATION ;;;
  d <- parse_duration_p fuel ;;
  expect fuel REPLICATION ;;;
  n <- parse_int fuel 1 2147483647 ;;
  t <- scan_iw fuel ;;
  shard <-
    match ti_tok t with
    | SHARD =>
        expect fuel DURATION ;;;
        t2 <- scan_iw fuel ;;
        if is_tok t2 INF then fail_at t2               (* invalid duration INF for shard duration *)
        else unscan_p ;;; sd <- parse_duration_p fuel ;; Ret sd
    | _ => unscan_p ;;; Ret 0
    end ;;
  t3 <- scan_iw fuel ;;
  default <- match ti_tok t3 with DEFAULT => Ret true | _ => unscan_p ;;; Ret false end ;;
  t4 <- scan_iw fuel ;;
  future <- match ti_tok t4 with FUTURE => parse_write_limit fuel | _ => unscan_p ;;; Ret 0 end ;;
  t5 <- scan_iw fuel ;;
  past <- match ti_tok t5 with PAST => parse_write_limit fuel | _ => unscan_p ;;; Ret 0 end ;;
  Ret (CreateRetentionPolicy name db d n default shard future past).

(* parseAlterRetentionPolicyStatement: the option loop; [found] is the key set
   of the map, in insertion order *)
Record alter_opts : Type := mkAlterOpts {
  ao_duration : option Z; ao_replication : option Z; ao_default : bool;
  ao_shard : option Z; ao_future : option Z; ao_past : option Z
}.
Definition alter_opts0 : alter_opts := mkAlterOpts None None false None None None.

Fixpoint alter_loop (fuel : nat) (found : list token) (o : alter_opts) : prog alter_opts :=
  match fuel with
  | O => Fail EFuel
  | S f =>
      t <- scan_iw fuel ;;
      if tok_in (ti_tok t) found then fail_at t          (* found duplicate %s option *)
      else
        let found' := found ++ [ti_tok t] in
        match ti_tok t with
        | DURATION =>
            d <- parse_duration_p fuel ;;
            alter_loop f found'
              (mkAlterOpts (Some d) (ao_replication o) (ao_default o) (ao_shard o) (ao_future o) (ao_past o))
        | REPLICATION =>
            n <- parse_int fuel 1 2147483647 ;;
            alter_loop f found'
              (mkAlterOpts (ao_duration o) (Some n) (ao_default o) (ao_shard o) (ao_future o) (ao_past o))
        | SHARD =>
            t1 <- scan_iw fuel ;;
            if is_tok t1 DURATION then
              t2 <- scan_iw fuel ;;
              if is_tok t2 INF then fail_at t2           (* invalid duration INF for shard duration *)
              else
                unscan_p ;;;
                d <- parse_duration_p fuel ;;
                alter_loop f found'
                  (mkAlterOpts (ao_duration o) (ao_replication o) (ao_default o) (Some d) (ao_future o) (ao_past o))
            else fail_at t1
        | DEFAULT =>
            alter_loop f found'
              (mkAlterOpts (ao_duration o) (ao_replication o) true (ao_shard o) (ao_future o) (ao_past o))
        | FUTURE =>
            d <- parse_write_limit fuel ;;
            alter_loop f found'
              (mkAlterOpts (ao_duration o) (ao_replication o) (ao_default o) (ao_shard o) (Some d) (ao_past o))
        | PAST =>
            d <- parse_write_limit fuel ;;
            alter_loop f found'
              (mkAlterOpts (ao_duration o) (ao_replication o) (ao_default o) (ao_shard o) (ao_future o) (Some d))
        | _ =>
            match found with
            | [] => fail_at t                            (* len(found) == 0 *)
            | _ => unscan_p ;;; Ret o                    (* break Loop *)
            end
        end
  end.

Definition parse_alter_retention_policy (fuel : nat) : prog stmt :=
  t <- scan_iw fuel ;;
  name <- match ti_tok t with
          | DEFAULT => Ret (ts "default")
          | IDENT => Ret (ti_lit t)
          | _ => fail_at t
          end ;;
  expect fuel ON ;;;
  db <- parse_ident fuel ;;
  o <- alter_loop fuel [] alter_opts0 ;;
  Ret (AlterRetentionPolicy name db (ao_duration o) (ao_replication o) (ao_default o)
         (ao_shard o) (ao_future o) (ao_past o)).

(* parseRevokeOnStatement: (On, User); the caller sets Privilege *)
Definition parse_revoke_on (fuel : nat) : prog (text * text) :=
  on <- parse_ident fuel ;;
  expect fuel FROM ;;;
  user <- parse_ident fuel ;;
  Ret (on, user).

(* parseRevokeAdminStatement *)
Definition parse_revoke_admin (fuel : nat) : prog stmt :=
  user <- parse_ident fuel ;;
  Ret (RevokeAdmin user).

(* parseRevokeStatement *)
Definition parse_revoke (fuel : nat) : prog stmt :=
  priv <- parse_privilege fuel ;;
  t <- scan_iw fuel ;;
  match ti_tok t with
  | ON => ou <- parse_revoke_on fuel ;; Ret (Revoke priv (fst ou) (snd ou))
  | FROM =>
      match priv with
      | AllPrivileges => parse_revoke_admin fuel
      | _ => fail_at t
      end
  | _ => fail_at t
  end.

(* parseGrantOnStatement *)
Definition parse_grant_on (fuel : nat) : prog (text * text) :=
  on <- parse_ident fuel ;;
  expect fuel TO ;;;
  user <- parse_ident fuel ;;
  Ret (on, user).

(* parseGrantAdminStatement *)
Definition parse_grant_admin (fuel : nat) : prog stmt :=
  user <- parse_ident fuel ;;
  Ret (GrantAdmin user).

(* parseGrantStatement *)
Definition parse_grant (fuel : nat) : prog stmt :=
  priv <- parse_privilege fuel ;;
  t <- scan_iw fuel ;;
  match ti_tok t with
  | ON => ou <- parse_grant_on fuel ;; Ret (Grant priv (fst ou) (snd ou))
  | TO =>
      match priv with
      | AllPrivileges => parse_grant_admin fuel
      | _ => fail_at t
      end
  | _ => fail_at t
  end.

(* parseDeleteStatement *)
Definition parse_delete (fuel : nat) : prog stmt :=
  t <- scan_iw fuel ;;
  sources <-
    match ti_tok t with
    | FROM =>
        ss <- parse_sources fuel false ;;
        if existsb (fun m => negb (is_empty (m_db m))) (walk_sources_measurements ss)
        then Fail EZero                                  (* database not supported *)
        else Ret ss
    | _ => unscan_p ;;; Ret []
    end ;;
  cond <- parse_condition fuel ;;
  match cond, sources with
  | None, [] => fail_at t                                (* stmt.Condition == nil && stmt.Sources == nil *)
  | _, _ => Ret (DeleteSeries sources cond)
  end.

(* parseDropSeriesStatement *)
Definition parse_drop_series (fuel : nat) : prog stmt :=
  t <- scan_iw fuel ;;
  sources <-
    match ti_tok t with
    | FROM =>
        ss <- parse_sources fuel false ;;
        if existsb (fun m => negb (is_empty (m_db m)) || negb (is_empty (m_rp m)))
             (walk_sources_measurements ss)
        then Fail EZero                                  (* database / retention policy not supported *)
        else Ret ss
    | _ => unscan_p ;;; Ret []
    end ;;
  cond <- parse_condition fuel ;;
  match cond, sources with
  | None, [] => fail_at t
  | _, _ => Ret (DropSeries sources cond)
  end.

(* parseShowSeriesCardinalityStatement *)
Definition parse_show_series_cardinality (fuel : nat) (exact : bool) : prog stmt :=
  db <- opt_on_ident fuel ;;
  sources <- opt_from_sources fuel ;;
  cond <- parse_condition fuel ;;
  dims <- parse_dimensions fuel ;;
  limit <- opt_token_int fuel LIMIT ;;
  offset <- opt_token_int fuel OFFSET ;;
  Ret (ShowSeriesCardinality db exact sources cond dims limit offset).

(* parseShowSeriesStatement *)
Definition parse_show_series (fuel : nat) : prog stmt :=
  t <- scan_iw fuel ;;
  exact <- match ti_tok t with EXACT => Ret true | _ => unscan_p ;;; Ret false end ;;
  t2 <- scan_iw fuel ;;
  match ti_tok t2 with
  | CARDINALITY => parse_show_series_cardinality fuel exact
  | _ =>
      unscan_p ;;;
      db <- opt_on_ident fuel ;;
      sources <- opt_from_sources fuel ;;
      cond <- parse_condition fuel ;;
      sort <- parse_order_by fuel ;;
      limit <- opt_token_int fuel LIMIT ;;
      offset <- opt_token_int fuel OFFSET ;;
      Ret (ShowSeries db sources cond sort limit offset)
  end.

(* parseShowMeasurementCardinalityStatement *)
Definition parse_show_measurement_cardinality (fuel : nat) (exact : bool) : prog stmt :=
  (if exact then expect fuel CARDINALITY else Ret tt) ;;;
  db <- opt_on_ident fuel ;;
  sources <- opt_from_sources fuel ;;
  cond <- parse_condition fuel ;;
  dims <- parse_dimensions fuel ;;
  limit <- opt_token_int fuel LIMIT ;;
  offset <- opt_token_int fuel OFFSET ;;
  Ret (ShowMeasurementCardinality exact db sources cond dims limit offset).

(* parseShowMeasurementsStatement *)
Definition parse_show_measurements (fuel : nat) : prog stmt :=
  t <- scan_iw fuel ;;
  on <-
    match ti_tok t with
    | ON =>
        t1 <- scan_iw fuel ;;
        dbw <- match ti_tok t1 with
               | IDENT => Ret (ti_lit t1, false)
               | MUL => Ret ([], true)
               | _ => fail_at t1
               end ;;
        t2 <- scan_iw fuel ;;
        match ti_tok t2 with
        | DOT =>
            t3 <- scan_iw fuel ;;
            match ti_tok t3 with
            | IDENT => Ret (fst dbw, ti_lit t3, snd dbw, false)
            | MUL => Ret (fst dbw, [], snd dbw, true)
            | _ => fail_at t3
            end
        | _ => unscan_p ;;; Ret (fst dbw, [], snd dbw, false)
        end
    | _ => unscan_p ;;; Ret ([], [], false, false)
    end ;;
  let '(db, rp, wdb, wrp) := on in
  t4 <- scan_iw fuel ;;
  src <-
    match ti_tok t4 with
    | WITH =>
        parse_tokens fuel [MEASUREMENT] ;;;
        t5 <- scan_iw fuel ;;
        if is_tok t5 EQ || is_tok t5 EQREGEX then s <- parse_source fuel false ;; Ret (Some s)
        else fail_at t5
    | _ => unscan_p ;;; Ret None
    end ;;
  cond <- parse_condition fuel ;;
  sort <- parse_order_by fuel ;;
  limit <- opt_token_int fuel LIMIT ;;
  offset <- opt_token_int fuel OFFSET ;;
  Ret (ShowMeasurements db rp wdb wrp src cond sort limit offset).

(* parseShowQueriesStatement *)
Definition parse_show_queries (fuel : nat) : prog stmt := Ret ShowQueries.

(* parseShowRetentionPoliciesStatement *)
Definition parse_show_retention_policies (fuel : nat) : prog stmt :=
  db <- opt_on_ident fuel ;;
  Ret (ShowRetentionPolicies db).

(* parseTagKeyExpr *)
Definition parse_tag_key_expr (fuel : nat) : prog (token * expr) :=
  parse_tokens fuel [WITH; KEY] ;;;
  t <- scan_iw fuel ;;
  match ti_tok t with
  | IN =>
      expect fuel LPAREN ;;;
      tag_keys <- parse_ident_list fuel ;;
      expect fuel RPAREN ;;;
      Ret (IN, ListLit tag_keys)
  | EQ | NEQ => ident <- parse_ident fuel ;; Ret (ti_tok t, StringLit ident)
  | EQREGEX | NEQREGEX =>
      re <- parse_regex orc ;;
      match re with
      | Some r => Ret (ti_tok t, RegexLit r)
      | None => t2 <- scan_iw fuel ;; fail_at t2
      end
  | _ => fail_at t
  end.

(* parseShowTagKeyCardinalityStatement *)
Definition parse_show_tag_key_cardinality (fuel : nat) : prog stmt :=
  t <- scan_iw fuel ;;
  exact <- match ti_tok t with EXACT => Ret true | _ => unscan_p ;;; Ret false end ;;
  expect fuel CARDINALITY ;;;
  db <- opt_on_ident fuel ;;
  sources <- opt_from_sources fuel ;;
  cond <- parse_condition fuel ;;
  dims <- parse_dimensions fuel ;;
  limit <- opt_token_int fuel LIMIT ;;
  offset <- opt_token_int fuel OFFSET ;;
  Ret (ShowTagKeyCardinality db exact sources cond dims limit offset).

(* parseShowTagKeysStatement *)
Definition parse_show_tag_keys (fuel : nat) : prog stmt :=
  db <- opt_on_ident fuel ;;
  sources <- opt_from_sources fuel ;;
  t <- scan_iw fuel ;;
  ok <-
    match ti_tok t with
    | WITH => unscan_p ;;; oe <- parse_tag_key_expr fuel ;; Ret (fst oe, Some (snd oe))
    | _ => unscan_p ;;; Ret (ILLEGAL, None)
    end ;;
  cond <- parse_condition fuel ;;
  sort <- parse_order_by fuel ;;
  limit <- opt_token_int fuel LIMIT ;;
  offset <- opt_token_int fuel OFFSET ;;
  slimit <- opt_token_int fuel SLIMIT ;;
  soffset <- opt_token_int fuel SOFFSET ;;
  Ret (ShowTagKeys db sources (fst ok) (snd ok) cond sort limit offset slimit soffset).

(* parseShowTagValuesCardinalityStatement *)
Definition parse_show_tag_values_cardinality (fuel : nat) (exact : bool) : prog stmt :=
  (if exact then expect fuel CARDINALITY else Ret tt) ;;;
  db <- opt_on_ident fuel ;;
  sources <- opt_from_sources fuel ;;
  oe <- parse_tag_key_expr fuel ;;
  cond <- parse_condition fuel ;;
  dims <- parse_dimensions fuel ;;
  limit <- opt_token_int fuel LIMIT ;;
  offset <- opt_token_int fuel OFFSET ;;
  Ret (ShowTagValuesCardinality db exact sources (fst oe) (Some (snd oe)) cond dims limit offset).

(* parseShowTagValuesStatement *)
Definition parse_show_tag_values (fuel : nat) : prog stmt :=
  t <- scan_iw fuel ;;
  match ti_tok t with
  | EXACT => parse_show_tag_values_cardinality fuel true
  | CARDINALITY => parse_show_tag_values_cardinality fuel false
  | _ =>
      unscan_p ;;;
      db <- opt_on_ident fuel ;;
      sources <- opt_from_sources fuel ;;
      oe <- parse_tag_key_expr fuel ;;
      cond <- parse_condition fuel ;;
      sort <- parse_order_by fuel ;;
      limit <- opt_token_int fuel LIMIT ;;
      offset <- opt_token_int fuel OFFSET ;;
      Ret (ShowTagValues db sources (fst oe) (Some (snd oe)) cond sort limit offset)
  end.

(* parseShowUsersStatement / parseShowSubscriptionsStatement *)
Definition parse_show_users (fuel : nat) : prog stmt := Ret ShowUsers.
Definition parse_show_subscriptions (fuel : nat) : prog stmt := Ret ShowSubscriptions.

(* parseShowFieldKeyCardinalityStatement *)
Definition parse_show_field_key_cardinality (fuel : nat) : prog stmt :=
  t <- scan_iw fuel ;;
  exact <- match ti_tok t with EXACT => Ret true | _ => unscan_p ;;; Ret false end ;;
  expect fuel CARDINALITY ;;;
  db <- opt_on_ident fuel ;;
  sources <- opt_from_sources fuel ;;
  cond <- parse_condition fuel ;;
  dims <- parse_dimensions fuel ;;
  limit <- opt_token_int fuel LIMIT ;;
  offset <- opt_token_int fuel OFFSET ;;
  Ret (ShowFieldKeyCardinality db exact sources cond dims limit offset).

(* parseShowFieldKeysStatement *)
Definition parse_show_field_keys (fuel : nat) : prog stmt :=
  db <- opt_on_ident fuel ;;
  sources <- opt_from_sources fuel ;;
  sort <- parse_order_by fuel ;;
  limit <- opt_token_int fuel LIMIT ;;
  offset <- opt_token_int fuel OFFSET ;;
  Ret (ShowFieldKeys db sources sort limit offset).

(* parseDropMeasurementStatement *)
Definition parse_drop_measurement (fuel : nat) : prog stmt :=
  lit <- parse_ident fuel ;;
  Ret (DropMeasurement lit).

(* parseDropShardStatement *)
Definition parse_drop_shard (fuel : nat) : prog stmt :=
  id <- parse_uint64 fuel ;;
  Ret (DropShard id).

(* parseShowContinuousQueriesStatement *)
Definition parse_show_continuous_queries (fuel : nat) : prog stmt := Ret ShowContinuousQueries.

(* parseGrantsForUserStatement *)
Definition parse_grants_for_user (fuel : nat) : prog stmt :=
  lit <- parse_ident fuel ;;
  Ret (ShowGrantsForUser lit).

(* parseShowDatabasesStatement *)
Definition parse_show_databases (fuel : nat) : prog stmt := Ret ShowDatabases.

(* parseResample: (interval, maxDuration) *)
Definition parse_resample (fuel : nat) : prog (Z * Z) :=
  t <- scan_iw fuel ;;
  interval <-
    match ti_tok t with
    | EVERY =>
        t1 <- scan_iw fuel ;;
        match ti_tok t1 with
        | DURATIONVAL => match parse_duration (ti_lit t1) with Ok d => Ret d | _ => fail_at t1 end
        | _ => fail_at t1
        end
    | _ => unscan_p ;;; Ret 0
    end ;;
  t2 <- scan_iw fuel ;;
  max_duration <-
    match ti_tok t2 with
    | FOR =>
        t3 <- scan_iw fuel ;;
        match ti_tok t3 with
        | DURATIONVAL => match parse_duration (ti_lit t3) with Ok d => Ret d | _ => fail_at t3 end
        | _ => fail_at t3
        end
    | _ => unscan_p ;;; Ret 0
    end ;;
  if (interval =? 0) && (max_duration =? 0) then
    t4 <- scan_iw fuel ;; fail_at t4
  else Ret (interval, max_duration).

(* parseCreateContinuousQueryStatement *)
Definition parse_create_continuous_query (fuel : nat) : prog stmt :=
  name <- parse_ident fuel ;;
  expect fuel ON ;;;
  db <- parse_ident fuel ;;
  t <- scan_iw fuel ;;
  rs <- match ti_tok t with
        | RESAMPLE => parse_resample fuel
        | _ => unscan_p ;;; Ret (0, 0)
        end ;;
  parse_tokens fuel [BEGIN; SELECT] ;;;
  source <- parse_select fuel TargetRequired ;;
  (if negb (s_israw source) then
     (* rewind so we can output an error with some info *)
     let rewind : prog unit :=
       unscan_p ;;;                                      (* Unscan the whitespace *)
       unscan_p ;;;                                      (* Unscan the last token *)
       t1 <- scan_iw fuel ;;
       fail_at t1 in
     match group_by_interval source with
     | Ok d => if d =? 0 then rewind else Ret tt
     | _ => rewind
     end
   else Ret tt) ;;;
  expect fuel END ;;;
  if negb (cq_validate source (fst rs) (snd rs)) then Fail ENoPos
  else Ret (CreateContinuousQuery name db source (fst rs) (snd rs)).

(* parseCreateDatabaseStatement.  if err := p.parseTokens([]Token{K}); err != nil { p.Unscan() }
   is one ScanIgnoreWhitespace whose failure is caught and followed by an Unscan. *)
Definition parse_create_database (fuel : nat) : prog stmt :=
  name <- parse_ident fuel ;;
  t <- scan_iw fuel ;;
  match ti_tok t with
  | WITH =>
      t1 <- scan_iw fuel ;;
      (if negb (tok_in (ti_tok t1) [DURATION; NAME; REPLICATION; SHARD; FUTURE; PAST]) then fail_at t1
       else Ret tt) ;;;
      unscan_p ;;;                                       (* rewind *)
      t2 <- scan_iw fuel ;;
      rp_duration <-
        (if negb (is_tok t2 DURATION) then unscan_p ;;; Ret None
         else d <- parse_duration_p fuel ;; Ret (Some d)) ;;
      t3 <- scan_iw fuel ;;
      rp_replication <-
        (if negb (is_tok t3 REPLICATION) then unscan_p ;;; Ret None
         else n <- parse_int fuel 1 2147483647 ;; Ret (Some n)) ;;
      t4 <- scan_iw fuel ;;
      rp_shard <-
        (if negb (is_tok t4 SHARD) then unscan_p ;;; Ret 0
         else expect fuel DURATION ;;; d <- parse_duration_p fuel ;; Ret d) ;;
      t5 <- scan_iw fuel ;;
      future <-
        match ti_tok t5 with
        | FUTURE => d <- parse_write_limit fuel ;; Ret (Some d)
        | _ => unscan_p ;;; Ret None
        end ;;
      t6 <- scan_iw fuel ;;
      past <-
        match ti_tok t6 with
        | PAST => d <- parse_write_limit fuel ;; Ret (Some d)
        | _ => unscan_p ;;; Ret None
        end ;;
      t7 <- scan_iw fuel ;;
      rp_name <-
        (if negb (is_tok t7 NAME) then unscan_p ;;; Ret []
         else ident <- parse_ident fuel ;; Ret ident) ;;
      Ret (CreateDatabase name true rp_duration rp_replication rp_name rp_shard future past)
  | _ => unscan_p ;;; Ret (CreateDatabase name false None None [] 0 None None)
  end.

(* parseDropDatabaseStatement *)
Definition parse_drop_database (fuel : nat) : prog stmt :=
  lit <- parse_ident fuel ;;
  Ret (DropDatabase lit).

(* parseDropSubscriptionStatement *)
Definition parse_drop_subscription (fuel : nat) : prog stmt :=
  name <- parse_ident fuel ;;
  expect fuel ON ;;;
  db <- parse_ident fuel ;;
  t <- scan_p ;;
  (if negb (is_tok t DOT) then fail_at t else Ret tt) ;;;
  rp <- parse_ident fuel ;;
  Ret (DropSubscription name db rp).

(* parseDropRetentionPolicyStatement *)
Definition parse_drop_retention_policy (fuel : nat) : prog stmt :=
  name <- parse_ident fuel ;;
  expect fuel ON ;;;
  db <- parse_ident fuel ;;
  Ret (DropRetentionPolicy name db).

(* parseCreateUserStatement *)
Definition parse_create_user (fuel : nat) : prog stmt :=
  name <- parse_ident fuel ;;
  parse_tokens fuel [WITH; PASSWORD] ;;;
  password <- parse_string fuel ;;
  t <- scan_iw fuel ;;
  match ti_tok t with
  | WITH =>
      parse_tokens fuel [ALL; PRIVILEGES] ;;;
      Ret (CreateUser name password true)
  | _ => unscan_p ;;; Ret (CreateUser name password false)
  end.

(* parseDropUserStatement *)
Definition parse_drop_user (fuel : nat) : prog stmt :=
  lit <- parse_ident fuel ;;
  Ret (DropUser lit).

(* parseExplainStatement *)
Definition parse_explain (fuel : nat) : prog stmt :=
  t <- scan_iw fuel ;;
  analyze <- match ti_tok t with ANALYZE => Ret true | _ => unscan_p ;;; Ret false end ;;
  t2 <- scan_iw fuel ;;
  verbose <- match ti_tok t2 with VERBOSE => Ret true | _ => unscan_p ;;; Ret false end ;;
  expect fuel SELECT ;;;
  s <- parse_select fuel TargetNotRequired ;;
  Ret (Explain s analyze verbose).

(* parseShowShardGroupsStatement / parseShowShardsStatement *)
Definition parse_show_shard_groups (fuel : nat) : prog stmt := Ret ShowShardGroups.
Definition parse_show_shards (fuel : nat) : prog stmt := Ret ShowShards.

(* parseShowStatsStatement: returns (stmt, err); an error from parseString is the error *)
Definition parse_show_stats (fuel : nat) : prog stmt :=
  t <- scan_iw fuel ;;
  match ti_tok t with
  | FOR => m <- parse_string fuel ;; Ret (ShowStats m)
  | _ => unscan_p ;;; Ret (ShowStats [])
  end.

(* parseShowDiagnosticsStatement *)
Definition parse_show_diagnostics (fuel : nat) : prog stmt :=
  t <- scan_iw fuel ;;
  match ti_tok t with
  | FOR => m <- parse_string fuel ;; Ret (ShowDiagnostics m)
  | _ => unscan_p ;;; Ret (ShowDiagnostics [])
  end.

(* parseDropContinuousQueryStatement *)
Definition parse_drop_continuous_query (fuel : nat) : prog stmt :=
  name <- parse_ident fuel ;;
  expect fuel ON ;;;
  db <- parse_ident fuel ;;
  Ret (DropContinuousQuery name db).

(* ------------------------------------------------------------------ *)
(* parse_tree.go: Language.Parse(p) with the tree built by init()        *)
(* ------------------------------------------------------------------ *)

(* Each level: tok := ScanIgnoreWhitespace; a subtree (t.Tokens[tok]) is
   entered first, else a handler (t.Handlers[tok]) is run, else
   newParseError at that token. *)
Definition parse_statement (fuel : nat) : prog stmt :=
  t <- scan_iw fuel ;;
  match ti_tok t with
  | SELECT => s <- parse_select fuel TargetNotRequired ;; Ret (Select s)
  | DELETE => parse_delete fuel
  | SHOW =>
      t1 <- scan_iw fuel ;;
      match ti_tok t1 with
      | CONTINUOUS =>
          t2 <- scan_iw fuel ;;
          match ti_tok t2 with
          | QUERIES => parse_show_continuous_queries fuel
          | _ => fail_at t2
          end
      | DATABASES => parse_show_databases fuel
      | DIAGNOSTICS => parse_show_diagnostics fuel
      | FIELD =>
          t2 <- scan_iw fuel ;;
          match ti_tok t2 with
          | KEY => parse_show_field_key_cardinality fuel
          | KEYS => parse_show_field_keys fuel
          | _ => fail_at t2
          end
      | GRANTS =>
          t2 <- scan_iw fuel ;;
          match ti_tok t2 with
          | FOR => parse_grants_for_user fuel
          | _ => fail_at t2
          end
      | MEASUREMENT =>
          t2 <- scan_iw fuel ;;
          match ti_tok t2 with
          | EXACT => parse_show_measurement_cardinality fuel true
          | CARDINALITY => parse_show_measurement_cardinality fuel false
          | _ => fail_at t2
          end
      | MEASUREMENTS => parse_show_measurements fuel
      | QUERIES => parse_show_queries fuel
      | RETENTION =>
          t2 <- scan_iw fuel ;;
          match ti_tok t2 with
          | POLICIES => parse_show_retention_policies fuel
          | _ => fail_at t2
          end
      | SERIES => parse_show_series fuel
      | SHARD =>
          t2 <- scan_iw fuel ;;
          match ti_tok t2 with
          | GROUPS => parse_show_shard_groups fuel
          | _ => fail_at t2
          end
      | SHARDS => parse_show_shards fuel
      | STATS => parse_show_stats fuel
      | SUBSCRIPTIONS => parse_show_subscriptions fuel
      | TAG =>
          t2 <- scan_iw fuel ;;
          match ti_tok t2 with
          | KEY => parse_show_tag_key_cardinality fuel
          | KEYS => parse_show_tag_keys fuel
          | VALUES => parse_show_tag_values fuel
          | _ => fail_at t2
          end
      | USERS => parse_show_users fuel
      | _ => fail_at t1
      end
  | CREATE =>
      t1 <- scan_iw fuel ;;
      match ti_tok t1 with
      | CONTINUOUS =>
          t2 <- scan_iw fuel ;;
          match ti_tok t2 with
          | QUERY => parse_create_continuous_query fuel
          | _ => fail_at t2
          end
      | DATABASE => parse_create_database fuel
      | USER => parse_create_user fuel
      | RETENTION =>
          t2 <- scan_iw fuel ;;
          match ti_tok t2 with
          | POLICY => parse_create_retention_policy fuel
          | _ => fail_at t2
          end
      | SUBSCRIPTION => parse_create_subscription fuel
      | _ => fail_at t1
      end
  | DROP =>
      t1 <- scan_iw fuel ;;
      match ti_tok t1 with
      | CONTINUOUS =>
          t2 <- scan_iw fuel ;;
          match ti_tok t2 with
          | QUERY => parse_drop_continuous_query fuel
          | _ => fail_at t2
          end
      | DATABASE => parse_drop_database fuel
      | MEASUREMENT => parse_drop_measurement fuel
      | RETENTION =>
          t2 <- scan_iw fuel ;;
          match ti_tok t2 with
          | POLICY => parse_drop_retention_policy fuel
          | _ => fail_at t2
          end
      | SERIES => parse_drop_series fuel
      | SHARD => parse_drop_shard fuel
      | SUBSCRIPTION => parse_drop_subscription fuel
      | USER => parse_drop_user fuel
      | _ => fail_at t1
      end
  | EXPLAIN => parse_explain fuel
  | GRANT => parse_grant fuel
  | REVOKE => parse_revoke fuel
  | ALTER =>
      t1 <- scan_iw fuel ;;
      match ti_tok t1 with
      | RETENTION =>
          t2 <- scan_iw fuel ;;
          match ti_tok t2 with
          | POLICY => parse_alter_retention_policy fuel
          | _ => fail_at t2
          end
      | _ => fail_at t1
      end
  | SET =>
      t1 <- scan_iw fuel ;;
      match ti_tok t1 with
      | PASSWORD =>
          t2 <- scan_iw fuel ;;
          match ti_tok t2 with
          | FOR => parse_set_password_user fuel
          | _ => fail_at t2
          end
      | _ => fail_at t1
      end
  | KILL =>
      t1 <- scan_iw fuel ;;
      match ti_tok t1 with
      | QUERY => parse_kill_query fuel
      | _ => fail_at t1
      end
  | _ => fail_at t
  end.

(* Parser.ParseQuery: the statements of the Query *)
Fixpoint query_loop (fuel : nat) (semi : bool) (acc : list stmt) : prog (list stmt) :=
  match fuel with
  | O => Fail EFuel
  | S f =>
      t <- scan_iw fuel ;;
      match ti_tok t with
      | EOF => Ret acc
      | SEMICOLON => query_loop f true acc
      | _ =>
          if negb semi then fail_at t
          else
            unscan_p ;;;
            s <- parse_statement fuel ;;
            query_loop f false (acc ++ [s])
      end
  end.
Definition parse_query (fuel : nat) : prog (list stmt) := query_loop fuel true [].

End Stmts.
