(* params.go: BindValue, bindObjectValue, jsonNumberToValue and the Value
   types, over a model of the bindable Go/JSON value kinds. *)
From InfluxQL Require Import Base.Prelude Base.Oracles Lex.Token Val.Duration.

Inductive gval : Type :=
| GFloat (bits : Z)                 (* float64 *)
| GInt (i : Z)                      (* int64 *)
| GString (s : text)
| GBool (b : bool)
| GJson (s : text)                  (* json.Number *)
| GObj (entries : list (text * gval))   (* map[string]interface{} *)
| GOther.                           (* any other Go type: int, []byte, nil, ... *)

Section Bind.
Variable orc : oracles.

Definition contains_dot (s : text) : bool := existsb (Z.eqb 46) s.

(* strconv.ParseInt(s, 10, 64): optional sign, digits ('_' not allowed in base 10), range-checked *)
Definition all_digits (s : text) : bool := match s with [] => false | _ => forallb is_digit s end.
Definition json_parse_int (s : text) : option Z :=
  let v :=
    match s with
    | c :: s' =>
        if c =? 45 then (if all_digits s' then Some (- digits_val s') else None)
        else if c =? 43 then (if all_digits s' then Some (digits_val s') else None)
        else if all_digits s then Some (digits_val s) else None
    | [] => None
    end in
  match v with Some z => if fits64 z then Some z else None | None => None end.

(* jsonNumberToValue: None = error *)
Definition json_number_to_value (s : text) : option gval :=
  if contains_dot s then
    match o_parse_float orc s with Some f => Some (GFloat f) | None => None end
  else
    match json_parse_int s with Some i => Some (GInt i) | None => None end.

(* an ErrorValue: TokenType() = BOUNDPARAM; its text is an error message (not modelled) *)
Definition error_value : token * text := (BOUNDPARAM, []).

(* int64 -> float64 conversion for NumberValue(f) with f int64: exact for |i| < 2^53; beyond that an oracle *)
Definition number_value (bits : Z) : token * text := (NUMBER, o_format_float orc bits).

Definition bind_object (k : text) (v : gval) : token * text :=
  let v' := match v with
            | GJson s => json_number_to_value s
            | _ => Some v
            end in
  match v' with
  | None => error_value
  | Some v =>
      if text_eqb k (ts "ident") || text_eqb k (ts "identifier") then
        match v with GString s => (IDENT, s) | _ => error_value end
      else if text_eqb k (ts "regex") then
        match v with GString s => (REGEX, s) | _ => error_value end
      else if text_eqb k (ts "string") then
        match v with GString s => (STRING, s) | _ => error_value end
      else if text_eqb k (ts "float") || text_eqb k (ts "number") then
        match v with
        | GFloat f => number_value f
        | GInt i => (NUMBER, o_format_float orc (o_int_to_float orc i))
        | _ => error_value
        end
      else if text_eqb k (ts "int") || text_eqb k (ts "integer") then
        match v with GInt i => (INTEGER, dec i) | _ => error_value end
      else if text_eqb k (ts "duration") then
        match v with
        | GString s => (DURATIONVAL, s)
        | GInt i => (DURATIONVAL, format_duration i)
        | _ => error_value
        end
      else error_value
  end.

Definition bind_value (v : gval) : token * text :=
  let v' := match v with
            | GJson s => json_number_to_value s
            | _ => Some v
            end in
  match v' with
  | None => error_value
  | Some v =>
      match v with
      | GFloat f => number_value f
      | GInt i => (INTEGER, dec i)
      | GString s => (STRING, s)
      | GBool b => (if b then TRUE else FALSE, [])
      | GObj [(k, x)] => bind_object k x
      | GObj _ => error_value
      | _ => error_value
      end
  end.

End Bind.
