(* The parser's only interface to its input — p.Scan, p.ScanRegex, p.Unscan,
   p.peekRune — as an instruction set; parser functions are programs over it;
   one interpreter runs them against the exact bufScanner ring and reader. *)
From InfluxQL Require Import Base.Prelude Lex.Token Lex.Reader Lex.Scanner.

(* what a program learns from a scan: token, literal, and the serial number of
   the scan that produced it (never a position) *)
Definition tokinfo : Type := (token * text * Z)%type.
Definition ti_tok (t : tokinfo) : token := fst (fst t).
Definition ti_lit (t : tokinfo) : text := snd (fst t).
Definition ti_serial (t : tokinfo) : Z := snd t.

(* what peekRune's answer is ever compared with *)
Inductive rclass : Set := RWs | RSlash | RDollar | RColon | RDot | REof | ROther.
Definition classify (c : Z) : rclass :=
  if c =? 0 then REof
  else if is_whitespace c then RWs
  else if c =? 47 then RSlash
  else if c =? 36 then RDollar
  else if c =? 58 then RColon
  else if c =? 46 then RDot
  else ROther.

(* errors: a *ParseError carrying the position of scan [serial]; an error
   with the zero position (ParseError{Message} only); an error that is not a
   ParseError (errors.New, fmt.Errorf);
   the model's own fuel exhaustion *)
Inductive perr : Set := EPos (serial : Z) | EZero | ENoPos | EFuel.

Inductive prog (A : Type) : Type :=
| Ret (a : A)
| Fail (e : perr)
| Panic (site : Z)
| DoScan (k : tokinfo -> prog A)
| DoScanRegex (k : tokinfo -> prog A)
| DoUnscan (k : prog A)
| DoPeek (k : rclass -> prog A).
Arguments Ret {A} a.
Arguments Fail {A} e.
Arguments Panic {A} site.
Arguments DoScan {A} k.
Arguments DoScanRegex {A} k.
Arguments DoUnscan {A} k.
Arguments DoPeek {A} k.

Fixpoint bind {A B} (p : prog A) (f : A -> prog B) : prog B :=
  match p with
  | Ret a => f a
  | Fail e => Fail e
  | Panic s => Panic s
  | DoScan k => DoScan (fun t => bind (k t) f)
  | DoScanRegex k => DoScanRegex (fun t => bind (k t) f)
  | DoUnscan k => DoUnscan (bind k f)
  | DoPeek k => DoPeek (fun c => bind (k c) f)
  end.

Notation "x <- p ;; q" := (bind p (fun x => q)) (at level 61, p at next level, right associativity).
Notation "p ;;; q" := (bind p (fun _ => q)) (at level 61, right associativity).

Definition scan_p : prog tokinfo := DoScan Ret.
Definition scan_regex_p : prog tokinfo := DoScanRegex Ret.
Definition unscan_p : prog unit := DoUnscan (Ret tt).
Definition peek_p : prog rclass := DoPeek Ret.

(* ---- interpreter state: bufScanner ring + reader + parameters ---- *)
Definition tokslot : Type := (token * pos * text * Z)%type.   (* tok, pos, lit, serial *)
Definition tokslot0 : tokslot := (ILLEGAL, pos0, [], -1).

Record pstate : Type := mkPstate {
  ps_rd : reader;
  ps_i : Z; ps_n : Z;
  ps_b0 : tokslot; ps_b1 : tokslot; ps_b2 : tokslot;
  ps_next : Z;                 (* next serial number *)
  ps_log : list pos;           (* position of every fresh scan, newest first *)
  ps_params : list (text * (token * text));   (* bound parameters as (TokenType(), Value()) *)
  ps_bad : bool;               (* a Go index panic would have happened in bufScanner.curr *)
  ps_maxn : Z;                 (* hook verifNoteScan: largest n at the start of a scan *)
  ps_steps : Z                 (* instructions executed *)
}.

Definition new_pstate (src : text) (params : list (text * (token * text))) : pstate :=
  mkPstate (new_reader src) 0 0 tokslot0 tokslot0 tokslot0 0 [] params false 0 0.

Definition ps_curr_index (s : pstate) : Z := Z.rem (ps_i s - ps_n s + 3) 3.
Definition ps_get (s : pstate) (k : Z) : tokslot :=
  if k =? 0 then ps_b0 s else if k =? 1 then ps_b1 s else ps_b2 s.
Definition ps_curr (s : pstate) : tokslot := ps_get s (ps_curr_index s).

Section Interp.
Variable ulower : Z -> Z.

(* Parser.scan: bound-parameter substitution on every scan, re-scans included *)
Definition substitute (params : list (text * (token * text))) (tok : token) (lit : text) : token * text :=
  match tok with
  | BOUNDPARAM =>
      let k := match lit with c :: k' => if c =? 36 then k' else lit | [] => lit end in
      match k with
      | [] => (tok, lit)
      | _ => match assoc_text k params with
             | Some (t, v) => (t, v)
             | None => (tok, lit)
             end
      end
  | _ => (tok, lit)
  end.

(* bufScanner.scanFunc with the given underlying scan function *)
Definition buf_scan (regex : bool) (s : pstate) : tokinfo * pstate :=
  let maxn := Z.max (ps_maxn s) (ps_n s) in
  let steps := ps_steps s + 1 in
  if 0 <? ps_n s then
    let s' := mkPstate (ps_rd s) (ps_i s) (ps_n s - 1) (ps_b0 s) (ps_b1 s) (ps_b2 s) (ps_next s) (ps_log s)
                (ps_params s) (ps_bad s) maxn steps in
    let '(tok, _, lit, ser) := ps_curr s' in
    let bad := ps_bad s' || (ps_curr_index s' <? 0) in
    let '(tok', lit') := substitute (ps_params s) tok lit in
    ((tok', lit', ser),
     mkPstate (ps_rd s') (ps_i s') (ps_n s') (ps_b0 s') (ps_b1 s') (ps_b2 s') (ps_next s') (ps_log s')
       (ps_params s') bad maxn steps)
  else
    let '((tok, p, lit), rd') := if regex then scan_regex (ps_rd s) else scan ulower (ps_rd s) in
    let i' := Z.rem (ps_i s + 1) 3 in
    let ser := ps_next s in
    let sl : tokslot := (tok, p, lit, ser) in
    let '(tok', lit') := substitute (ps_params s) tok lit in
    ((tok', lit', ser),
     mkPstate rd' i' 0
       (if i' =? 0 then sl else ps_b0 s) (if i' =? 1 then sl else ps_b1 s) (if i' =? 2 then sl else ps_b2 s)
       (ser + 1) (p :: ps_log s) (ps_params s) (ps_bad s) maxn steps).

Definition do_unscan (s : pstate) : pstate :=
  mkPstate (ps_rd s) (ps_i s) (ps_n s + 1) (ps_b0 s) (ps_b1 s) (ps_b2 s) (ps_next s) (ps_log s)
    (ps_params s) (ps_bad s) (ps_maxn s) (ps_steps s + 1).

(* Parser.peekRune: reads through the raw reader, past any pushed-back token *)
Definition do_peek (s : pstate) : rclass * pstate :=
  let '((ch, _), rd') := read (ps_rd s) in
  let rd'' := if ch =? 0 then rd' else unread rd' in
  (classify ch,
   mkPstate rd'' (ps_i s) (ps_n s) (ps_b0 s) (ps_b1 s) (ps_b2 s) (ps_next s) (ps_log s)
     (ps_params s) (ps_bad s) (ps_maxn s) (ps_steps s + 1)).

Definition pos_of_serial (s : pstate) (ser : Z) : pos :=
  nth (Z.to_nat (ps_next s - 1 - ser)) (ps_log s) pos0.

(* errors are compared by kind and position only: [1; line; char] a ParseError, [0] any other error *)
Definition resolve (s : pstate) (e : perr) : text :=
  match e with
  | EPos ser => let p := pos_of_serial s ser in [1; p_line p; p_char p]
  | EZero => [1; 0; 0]
  | ENoPos => [0]
  | EFuel => [2]
  end.

(* a Go index panic inside the rings (negative index) crashes the run at once;
   a lexer loop that ran out of its fuel (never, on read_fuel) is OutOfFuel *)
Definition ring_site : Z := 900.
Definition state_bad (s : pstate) : bool := ps_bad s || r_bad (ps_rd s).
Definition state_oof (s : pstate) : bool := r_oof (ps_rd s).

Fixpoint run {A} (p : prog A) (s : pstate) : res (A * pstate) :=
  match p with
  | Ret a => Ok (a, s)
  | Fail EFuel => OutOfFuel
  | Fail e => Err (resolve s e)
  | Panic site => Crash site
  | DoScan k => let '(t, s') := buf_scan false s in
                if state_bad s' then Crash ring_site else if state_oof s' then OutOfFuel else run (k t) s'
  | DoScanRegex k => let '(t, s') := buf_scan true s in
                     if state_bad s' then Crash ring_site else if state_oof s' then OutOfFuel else run (k t) s'
  | DoUnscan k => run k (do_unscan s)
  | DoPeek k => let '(c, s') := do_peek s in
                if state_bad s' then Crash ring_site else run (k c) s'
  end.

End Interp.
