(* parser.go: the tree-building half of ParseExpr — descending the right
   spine of the tree while the precedence of the node is lower than that of
   the operator being added. *)
From InfluxQL Require Import Base.Prelude Lex.Token Ast.Ast.

(* for node := root; ; { r, ok := node.RHS.( *BinaryExpr)
     if !ok || r.Op.Precedence() >= op.Precedence() { node.RHS = &BinaryExpr{LHS: node.RHS, RHS: rhs, Op: op}; break }
     node = r }                     — [t] is root.RHS *)
Fixpoint insert (t : expr) (o : token) (a : expr) : expr :=
  match t with
  | BinaryExpr o' l r =>
      if prec o' >=? prec o then BinaryExpr o t a else BinaryExpr o' l (insert r o a)
  | _ => BinaryExpr o t a
  end.

(* the loop of ParseExpr over an already-split chain  a0 o1 a1 o2 a2 ... *)
Definition parse_chain (a0 : expr) (rest : list (token * expr)) : expr :=
  fold_left (fun t oa => insert t (fst oa) (snd oa)) rest a0.

(* ---- the same on trees that remember which nodes the chain built ---- *)
Inductive ctree : Type :=
| Leaf (a : expr)
| Node (o : token) (l r : ctree).

Fixpoint cinsert (t : ctree) (o : token) (a : expr) : ctree :=
  match t with
  | Node o' l r =>
      if prec o' >=? prec o then Node o t (Leaf a) else Node o' l (cinsert r o a)
  | Leaf _ => Node o t (Leaf a)
  end.

Definition cparse (a0 : expr) (rest : list (token * expr)) : ctree :=
  fold_left (fun t oa => cinsert t (fst oa) (snd oa)) rest (Leaf a0).

Fixpoint embed (t : ctree) : expr :=
  match t with
  | Leaf a => a
  | Node o l r => BinaryExpr o (embed l) (embed r)
  end.

(* in-order yield: operands and operators as written *)
Fixpoint flat (t : ctree) : list (token + expr) :=
  match t with
  | Leaf a => [inr a]
  | Node o l r => flat l ++ inl o :: flat r
  end.

Definition chain_flat (a0 : expr) (rest : list (token * expr)) : list (token + expr) :=
  inr a0 :: flat_map (fun oa => [inl (fst oa); inr (snd oa)]) rest.

Definition root_prec (t : ctree) : option Z :=
  match t with Leaf _ => None | Node o _ _ => Some (prec o) end.

(* an operand as parseUnaryExpr returns it: anything but a BinaryExpr, or the
   desugared negation  -1 * x  whose operator has the highest precedence *)
Definition operand_ok (e : expr) : bool :=
  match e with
  | BinaryExpr o _ _ => prec o =? 5
  | _ => true
  end.

Fixpoint right_spine (t : ctree) : nat :=
  match t with Leaf _ => O | Node _ _ r => S (right_spine r) end.

(* independent reference: precedence climbing *)
Fixpoint climb (fuel : nat) (minp : Z) (lhs : ctree) (rest : list (token * expr))
  : ctree * list (token * expr) :=
  match fuel with
  | O => (lhs, rest)
  | S f =>
      match rest with
      | [] => (lhs, [])
      | (o, a) :: rest' =>
          if prec o >=? minp then
            let '(rhs, rest'') := climb f (prec o + 1) (Leaf a) rest' in
            climb f minp (Node o lhs rhs) rest''
          else (lhs, rest)
      end
  end.
Definition precedence_climb (a0 : expr) (rest : list (token * expr)) : ctree :=
  fst (climb (S (2 * length rest)) 1 (Leaf a0) rest).
