(* Request/response interface of the executable model: one S-expression in,
   one out.  Shared by the extracted runner and the in-Coq path. *)
From InfluxQL Require Import Base.Prelude Base.Sexp Base.Oracles Lex.Token Ast.Ast Parse.ExprTree.

Definition bad_request : sexp := L [A (-1)].

Definition sd_chain_rest (s : sexp) : option (list (token * expr)) :=
  sd_list (fun p => match p with
                    | L [o; e] => o' <-o sd_tok o ;; e' <-o sd_expr e ;; Some (o', e')
                    | _ => None end) s.

Definition token_table (orc : oracles) : sexp :=
  L (map (fun t => L [A (tok_code t); se_text (tok_string t); A (prec t); se_bool (is_operator t);
                      se_tok (lookup (o_ulower orc) (tok_string t))]) all_tokens).

Definition dispatch (orc : oracles) (req : sexp) : sexp :=
  match req with
  | L (A op :: args) =>
      match Z.to_nat op, args with
      | 1%nat, [a0; rest] =>
          match sd_expr a0, sd_chain_rest rest with
          | Some a0', Some rest' => se_expr (parse_chain a0' rest')
          | _, _ => bad_request
          end
      | 2%nat, [a0; rest] =>
          match sd_expr a0, sd_chain_rest rest with
          | Some a0', Some rest' => se_expr (embed (precedence_climb a0' rest'))
          | _, _ => bad_request
          end
      | 3%nat, [] => token_table orc
      | _, _ => bad_request
      end
  | _ => bad_request
  end.

(* in-Coq path: the list of (request, expected response) pairs on which the model disagrees *)
Definition mismatches (cases : list (sexp * sexp)) : list (sexp * sexp * sexp) :=
  flat_map (fun c => let r := dispatch default_oracles (fst c) in
                     if sexp_eqb r (snd c) then [] else [(fst c, snd c, r)]) cases.
