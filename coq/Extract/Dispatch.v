(* Request/response interface of the executable model: one S-expression in,
   one out.  Shared by the extracted runner and the in-Coq path. *)
From InfluxQL Require Import Base.Prelude Base.Sexp Base.Oracles Lex.Token Lex.Reader Lex.Scanner Ast.Ast Ast.SexpAst
  Val.Duration Parse.ExprTree Parse.Instr Parse.ParseExpr Parse.ParseStmts Ast.Printer Ast.PrinterStmts Parse.Params Ast.Privileges Ast.ColumnNames Sem.Eval Sem.Reduce Sem.Condition Ast.Clone Ast.GroupBy San.Sanitize Lex.Quote Sem.Regex Sem.RewriteFields Sem.SetTimeRange Conc.Footprint.

Definition bad_request : sexp := L [A (-1)].

Definition sd_chain_rest (s : sexp) : option (list (token * expr)) :=
  sd_list (fun p => match p with
                    | L [o; e] => o' <-o sd_tok o ;; e' <-o sd_expr e ;; Some (o', e')
                    | _ => None end) s.

Definition token_table (orc : oracles) : sexp :=
  L (map (fun t => L [A (tok_code t); se_text (tok_string t); A (prec t); se_bool (is_operator t);
                      se_tok (lookup (o_ulower orc) (tok_string t))]) all_tokens).

(* op 4: Scanner.Scan until EOF: (kind line char literal end-offset) per token, then flags *)
Fixpoint scan_all_ext (ulower : Z -> Z) (fuel : nat) (total : Z) (r : reader) (acc : list sexp) : list sexp * reader :=
  match fuel with
  | O => (rev acc, set_oof r)
  | S f =>
      let '((tok, p, lit), r1) := scan ulower r in
      let item := L [se_tok tok; A (p_line p); A (p_char p); se_text lit; A (consumed total r1)] in
      match tok with
      | EOF => (rev (item :: acc), r1)
      | _ => scan_all_ext ulower f total r1 (item :: acc)
      end
  end.
Definition scan_text (orc : oracles) (src : text) : sexp :=
  let total := Z.of_nat (length (fold_cr src)) in
  let '(items, r) := scan_all_ext (o_ulower orc) (S (length src)) total (new_reader src) [] in
  L [L items; se_bool (r_bad r); se_bool (r_oof r); se_bool (r_maxn r <=? 3)].

(* parameters: ((name (toktype value)) ...) *)
Definition sd_params (s : sexp) : option (list (text * (token * text))) :=
  sd_list (fun p => match p with
                    | L [n; t; v] => n' <-o sd_text n ;; t' <-o sd_tok t ;; v' <-o sd_text v ;; Some (n', (t', v'))
                    | _ => None end) s.

(* Go values offered to SetParams: (1 bits) float64, (2 i) int64, (3 text) string, (4 b) bool, (5 text) json.Number,
   (6 ((key value) ...)) map[string]interface{}, (7) anything else *)
Fixpoint sd_gval (s : sexp) : option gval :=
  match s with
  | L [A 1; A b] => Some (GFloat b)
  | L [A 2; A i] => Some (GInt i)
  | L [A 3; t] => t' <-o sd_text t ;; Some (GString t')
  | L [A 4; b] => b' <-o sd_bool b ;; Some (GBool b')
  | L [A 5; t] => t' <-o sd_text t ;; Some (GJson t')
  | L [A 6; L es] =>
      es' <-o sd_all (map (fun e => match e with
                                    | L [k; v] => k' <-o sd_text k ;; v' <-o sd_gval v ;; Some (k', v')
                                    | _ => None end) es) ;;
      Some (GObj es')
  | L [A 7] => Some GOther
  | _ => None
  end.

Fixpoint sd_resyn (s : sexp) : option resyn :=
  match s with
  | L [A 1; f; rs] => f' <-o sd_bool f ;; rs' <-o sd_text rs ;; Some (RLit f' rs')
  | L [A 2; f; L rg] =>
      f' <-o sd_bool f ;;
      rg' <-o sd_all (map (fun p => match p with L [A lo; A hi] => Some (lo, hi) | _ => None end) rg) ;;
      Some (RClass f' rg')
  | L [A 3; f; r] => f' <-o sd_bool f ;; r' <-o sd_resyn r ;; Some (RCapture f' r')
  | L [A 4; f; L subs] => f' <-o sd_bool f ;; subs' <-o sd_all (map sd_resyn subs) ;; Some (RConcat f' subs')
  | L [A 5; f; L subs] => f' <-o sd_bool f ;; subs' <-o sd_all (map sd_resyn subs) ;; Some (RAlt f' subs')
  | L [A 6] => Some RBeginText
  | L [A 7] => Some REndText
  | L [A 8] => Some RBeginLine
  | L [A 9] => Some REndLine
  | L [A 10; f; A op] => f' <-o sd_bool f ;; Some (ROther f' op)
  | _ => None
  end.
(* ((pattern (0)|(1 tree)) ...) *)
Definition sd_syn_table (s : sexp) : option (list (text * option resyn)) :=
  sd_list (fun p => match p with
                    | L [k; v] => k' <-o sd_text k ;; v' <-o sd_opt sd_resyn v ;; Some (k', v')
                    | _ => None end) s.
Definition syn_of (tbl : list (text * option resyn)) (p : text) : option resyn :=
  match assoc_text p tbl with Some v => v | None => None end.

Definition fuel_of (src : text) : nat := (4 * length src + 16)%nat.

(* result of a parse: the value, plus whether the pushback maxima the hooks observe stay within the two 3-slot rings
   (the depths themselves are an internal of the code: a rewrite that pushes back less is not a difference) *)
Definition se_parse {X} (f : X -> sexp) (r : res (X * pstate)) : sexp :=
  match r with
  | Ok (x, s) => L [A 0; f x; se_bool (ps_maxn s <=? 3); se_bool (r_maxn (ps_rd s) <=? 3)]
  | Err e => L (A 1 :: map A e)
  | Crash site => L [A 2; A site]
  | OutOfFuel => L [A 3]
  end.

(* op 0: per-case oracle table computed by the harness with the real Go libraries:
   ((1 pattern ok) ...) for regexp.Compile, ((2 name (0)|(1 canonical)) ...) for time.LoadLocation *)
Fixpoint with_table (orc : oracles) (tbl : list sexp) : oracles :=
  match tbl with
  | [] => orc
  | L [A 1; k; v] :: tbl' =>
      let o := with_table orc tbl' in
      match sd_text k, sd_bool v with
      | Some k', Some v' =>
          set_re_ok o (fun s => if text_eqb s k' then v' else o_re_ok o s)
      | _, _ => o
      end
  | L [A 2; k; v] :: tbl' =>
      let o := with_table orc tbl' in
      match sd_text k, sd_opt sd_text v with
      | Some k', Some v' =>
          set_load_loc o (fun s => if text_eqb s k' then v' else o_load_loc o s)
      | _, _ => o
      end
  | L [A 3; k; v] :: tbl' =>
      let o := with_table orc tbl' in
      match sd_text k, sd_opt sd_z v with
      | Some k', Some v' => set_parse_time o (fun s => if text_eqb s k' then v' else o_parse_time o s)
      | _, _ => o
      end
  | L [A 4; p; k; v] :: tbl' =>
      let o := with_table orc tbl' in
      match sd_text p, sd_text k, sd_bool v with
      | Some p', Some k', Some v' =>
          set_re_match o (fun pat s => if text_eqb pat p' && text_eqb s k' then v' else o_re_match o pat s)
      | _, _, _ => o
      end
  | _ :: tbl' => with_table orc tbl'
  end.

(* values: (0) nil (1 b) (2 bits) (3 i) (4 u) (5 text) (6 regex) (7 t) (8 d) *)
Definition se_value (v : value) : sexp :=
  match v with
  | VNil => L [A 0] | VBool b => L [A 1; se_bool b] | VFloat f => L [A 2; A (f_canon f)] | VInt i => L [A 3; A i]
  | VUint u => L [A 4; A u] | VString s => L [A 5; se_text s] | VRegex r => L [A 6; se_text r]
  | VTime t => L [A 7; A t] | VDur d => L [A 8; A d]
  end.
Definition sd_value (s : sexp) : option value :=
  match s with
  | L [A 0] => Some VNil
  | L [A 1; b] => b' <-o sd_bool b ;; Some (VBool b')
  | L [A 2; A f] => Some (VFloat f)
  | L [A 3; A i] => Some (VInt i)
  | L [A 4; A u] => Some (VUint u)
  | L [A 5; t] => t' <-o sd_text t ;; Some (VString t')
  | L [A 6; t] => t' <-o sd_text t ;; Some (VRegex t')
  | L [A 7; A t] => Some (VTime t)
  | L [A 8; A d] => Some (VDur d)
  | _ => None
  end.
Definition sd_env (s : sexp) : option env :=
  sd_list (fun p => match p with L [k; v] => k' <-o sd_text k ;; v' <-o sd_value v ;; Some (k', v') | _ => None end) s.

Definition sd_datatype (s : sexp) : option datatype := match s with A c => datatype_of_code c | _ => None end.
Definition sd_schema (s : sexp) : option schema :=
  sd_list (fun p => match p with
                    | L [n; fs; tags; e] =>
                        n' <-o sd_text n ;;
                        fs' <-o sd_list (fun kv => match kv with
                                                   | L [k; t] => k' <-o sd_text k ;; t' <-o sd_datatype t ;; Some (k', t')
                                                   | _ => None end) fs ;;
                        tags' <-o sd_list sd_text tags ;;
                        e' <-o sd_bool e ;;
                        Some (n', mkMS fs' tags' e')
                    | _ => None end) s.

Definition dispatch1 (orc : oracles) (req : sexp) : sexp :=
  match req with
  | L (A op :: args) =>
      match Z.to_nat op, args with
      | 1%nat, [a0; rest] =>
          match sd_expr a0, sd_chain_rest rest with
          | Some a0', Some rest' => se_expr (parse_chain a0' rest')
          | _, _ => bad_request
          end
      | 2%nat, [a0; rest] =>
          match sd_expr a0, sd_chain_rest rest with
          | Some a0', Some rest' => se_expr (embed (precedence_climb a0' rest'))
          | _, _ => bad_request
          end
      | 3%nat, [] => token_table orc
      | 4%nat, [src] => match sd_text src with Some t => scan_text orc t | None => bad_request end
      | 7%nat, [src] =>
          match sd_text src with
          | Some t => match parse_duration t with Ok d => L [A 0; A d] | _ => L [A 1] end
          | None => bad_request
          end
      | 8%nat, [A d] => se_text (format_duration d)
      | 6%nat, [st] => match sd_stmt st with Some st' => se_stmt st' | None => bad_request end
      | 5%nat, [src; params] =>
          match sd_text src, sd_params params with
          | Some t, Some ps => se_parse se_expr (run (o_ulower orc) (parse_expr orc (fuel_of t)) (new_pstate t ps))
          | _, _ => bad_request
          end
      | 9%nat, [src; params] =>
          match sd_text src, sd_params params with
          | Some t, Some ps => se_parse se_stmt (run (o_ulower orc) (parse_statement orc (fuel_of t)) (new_pstate t ps))
          | _, _ => bad_request
          end
      | 10%nat, [src; params] =>
          match sd_text src, sd_params params with
          | Some t, Some ps => se_parse (se_list se_stmt) (run (o_ulower orc) (parse_query orc (fuel_of t)) (new_pstate t ps))
          | _, _ => bad_request
          end
      | 11%nat, [st] => match sd_stmt st with Some st' => se_text (print_stmt orc st') | None => bad_request end
      | 13%nat, [v] =>
          match sd_gval v with
          | Some v' => let '(t, l) := bind_value orc v' in L [se_tok t; (match t with BOUNDPARAM => L [] | _ => se_text l end)]
          | None => bad_request
          end
      | 14%nat, [st] =>
          match sd_stmt st with
          | Some st' => L (map (fun p => L [se_bool (ep_admin p); se_text (ep_name p); se_priv (ep_priv p)]) (stmt_privs st'))
          | None => bad_request
          end
      | 15%nat, [q] =>
          match sd_select q with
          | Some q' => se_res (se_list se_text) (column_names q')
          | None => bad_request
          end
      | 16%nat, [m; now; e] =>
          match sd_env m, sd_opt sd_z now, sd_expr e with
          | Some m', Some now', Some e' => se_expr (Reduce orc (mkValuer m' now') e')
          | _, _, _ => bad_request
          end
      | 17%nat, [ifd; m; e] =>
          match sd_bool ifd, sd_env m, sd_expr e with
          | Some ifd', Some m', Some e' => se_value (eval orc ifd' m' e')
          | _, _, _ => bad_request
          end
      | 18%nat, [now; e] =>
          match sd_opt sd_z now, sd_expr e with
          | Some now', Some e' =>
              match ConditionExpr orc (mkValuer [] now') e' with
              | Some (resid, tr) =>
                  L [A 0; se_opt se_expr resid; se_opt A (tr_min tr); se_opt A (tr_max tr); A (min_time_nano tr); A (max_time_nano tr)]
              | None => L [A 1]
              end
          | _, _ => bad_request
          end
      | 19%nat, [q] =>
          match sd_select q with
          | Some q' =>
              let '(orig, n) := annot_select q' 0 in
              let '(cl, _) := clone_lselect orig n in
              let shared (ol : list loc) (l : loc) := se_bool (existsb (Z.eqb l) ol) in
              L [se_select (erase_lselect cl); L (map (shared (locs_lselect orig)) (locs_lselect cl));
                 L (map (shared (rx_lselect orig)) (rx_lselect cl))]
          | None => bad_request
          end
      | 20%nat, [e] =>
          match sd_expr e with
          | Some e' =>
              let '(orig, n) := annot_expr e' 0 in
              let '(cl, _) := clone_lexpr orig n in
              let shared (ol : list loc) (l : loc) := se_bool (existsb (Z.eqb l) ol) in
              L [se_expr (erase_lexpr cl); L (map (shared (locs_lexpr orig)) (locs_lexpr cl));
                 L (map (shared (rx_lexpr orig)) (rx_lexpr cl))]
          | None => bad_request
          end
      | 21%nat, [q] =>
          match sd_select q with
          | Some q' =>
              L [se_res A (Ast.GroupBy.group_by_interval q'); se_res A (group_by_offset q');
                 se_res (fun dt => L [A (fst dt); se_list se_text (snd dt)]) (normalize (s_dims q'))]
          | None => bad_request
          end
      | 22%nat, [t] => match sd_text t with Some t' => se_text (sanitize t') | None => bad_request end
      | 23%nat, [t] => match sd_text t with Some t' => se_text (quote_string t') | None => bad_request end
      | 24%nat, [segs] => match sd_list sd_text segs with Some l => se_text (quote_ident (o_ulower orc) l) | None => bad_request end
      | 25%nat, [t] => match sd_text t with Some t' => se_bool (ident_needs_quotes (o_ulower orc) t') | None => bad_request end
      | 26%nat, [tbl; e] =>
          match sd_syn_table tbl, sd_expr e with
          | Some tbl', Some e' => se_expr (rewrite_regex_conditions (syn_of tbl') e')
          | _, _ => bad_request
          end
      | 27%nat, [re; t] =>
          match sd_resyn re, sd_text t with
          | Some re', Some t' => se_bool (match_string re' t')
          | _, _ => bad_request
          end
      | 28%nat, [re] =>
          match sd_resyn re with
          | Some re' => se_opt (se_list se_text) (match_exact re')
          | None => bad_request
          end
      | 29%nat, [sc; q] =>
          match sd_schema sc, sd_select q with
          | Some sc', Some q' => se_res se_select (rewrite_fields_sch orc sc' q')
          | _, _ => bad_request
          end
      | 30%nat, [c; ws] =>
          match sd_opt sd_expr c, sd_list (fun p => match p with L [A a; A b] => Some (a, b) | _ => None end) ws with
          | Some c', Some ws' => se_list se_expr (set_time_ranges orc c' ws')
          | _, _ => bad_request
          end
      | 31%nat, [] => se_table
      | 31%nat, [L ws] => se_table_on (flat_map (fun w => match sd_text w with Some t => [t] | None => [] end) ws)
      | 12%nat, [e] => match sd_expr e with Some e' => se_text (print_expr orc e') | None => bad_request end
      | _, _ => bad_request
      end
  | _ => bad_request
  end.

Definition dispatch (orc : oracles) (req : sexp) : sexp :=
  match req with
  | L [A 0; L tbl; inner] => dispatch1 (with_table orc tbl) inner
  | _ => dispatch1 orc req
  end.

(* in-Coq path: the list of (request, expected response) pairs on which the model disagrees *)
Definition mismatches (cases : list (sexp * sexp)) : list (sexp * sexp * sexp) :=
  flat_map (fun c => let r := dispatch default_oracles (fst c) in
                     if sexp_eqb r (snd c) then [] else [(fst c, snd c, r)]) cases.
