From Coq Require Extraction.
From Coq Require Import ExtrOcamlBasic.
From InfluxQL Require Import Base.Prelude Base.Sexp Base.Oracles Extract.Dispatch.
Extraction Language OCaml.
Extraction "model.ml" dispatch mkOracles.
