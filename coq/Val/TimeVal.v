(* Instants are Z nanoseconds since the Unix epoch (UTC).  Formatting as
   time.Time.UTC().Format(time.RFC3339Nano); civil-date arithmetic after
   H. Hinnant's days_from_civil / civil_from_days. *)
From InfluxQL Require Import Base.Prelude.

Definition ns_per_sec : Z := 1000000000.
Definition sec_per_day : Z := 86400.

(* (year, month, day) of a day count since 1970-01-01 *)
Definition civil_from_days (days : Z) : Z * Z * Z :=
  let z := days + 719468 in
  let era := z / 146097 in
  let doe := z - era * 146097 in
  let yoe := (doe - doe / 1460 + doe / 36524 - doe / 146096) / 365 in
  let y := yoe + era * 400 in
  let doy := doe - (365 * yoe + yoe / 4 - yoe / 100) in
  let mp := (5 * doy + 2) / 153 in
  let d := doy - (153 * mp + 2) / 5 + 1 in
  let m := if mp <? 10 then mp + 3 else mp - 9 in
  (if m <=? 2 then y + 1 else y, m, d).

Definition days_from_civil (y m d : Z) : Z :=
  let y' := if m <=? 2 then y - 1 else y in
  let era := y' / 400 in
  let yoe := y' - era * 400 in
  let mp := if m >? 2 then m - 3 else m + 9 in
  let doy := (153 * mp + 2) / 5 + d - 1 in
  let doe := yoe * 365 + yoe / 4 - yoe / 100 + doy in
  era * 146097 + doe - 719468.

(* zero-padded decimal of a non-negative number *)
Fixpoint pad_left (n : nat) (s : text) : text :=
  if (length s <? n)%nat then
    match n with O => s | S n' => 48 :: pad_left n' s end
  else s.
Definition dec_pad (width : nat) (z : Z) : text :=
  let s := dec_nonneg z in
  repeat 48 (width - length s) ++ s.

Fixpoint strip_trailing_zeros_rev (s : text) : text :=
  match s with
  | c :: s' => if c =? 48 then strip_trailing_zeros_rev s' else s
  | [] => []
  end.

(* "2006-01-02T15:04:05.999999999Z" *)
Definition format_rfc3339nano (t : Z) : text :=
  let secs := t / ns_per_sec in
  let nanos := t mod ns_per_sec in
  let days := secs / sec_per_day in
  let sod := secs mod sec_per_day in
  let '(y, m, d) := civil_from_days days in
  let frac := rev (strip_trailing_zeros_rev (rev (dec_pad 9 nanos))) in
  dec_pad 4 y ++ [45] ++ dec_pad 2 m ++ [45] ++ dec_pad 2 d ++ [84]
  ++ dec_pad 2 (sod / 3600) ++ [58] ++ dec_pad 2 ((sod / 60) mod 60) ++ [58] ++ dec_pad 2 (sod mod 60)
  ++ (match frac with [] => [] | _ => 46 :: frac end) ++ [90].
