(* parser.go: ParseDuration and FormatDuration (time.Duration = int64 nanoseconds). *)
From InfluxQL Require Import Base.Prelude.

Definition ns_us : Z := 1000.
Definition ns_ms : Z := 1000000.
Definition ns_s : Z := 1000000000.
Definition ns_m : Z := 60000000000.
Definition ns_h : Z := 3600000000000.
Definition ns_d : Z := 86400000000000.
Definition ns_w : Z := 604800000000000.

Fixpoint span_digits (s : text) : text * text :=
  match s with
  | c :: s' => if is_digit c then let '(d, r) := span_digits s' in (c :: d, r) else ([], s)
  | [] => ([], [])
  end.

(* strconv.ParseInt(digits, 10, 64) on a non-empty digit string *)
Definition parse_digits_i64 (ds : text) : option Z :=
  if is_nil ds then None
  else let v := digits_val ds in if v <=? max_i64 then Some v else None.

(* the unit at the head of [s]: multiplier in ns and the rest; None = invalid *)
Definition take_unit (s : text) : option (Z * text) :=
  match s with
  | [] => None
  | c :: r =>
      if c =? 110 then                                     (* n *)
        match r with c2 :: r2 => if c2 =? 115 then Some (1, r2) else None | [] => None end
      else if (c =? 117) || (c =? 181) then Some (ns_us, r)   (* u, µ *)
      else if c =? 109 then                                (* m *)
        match r with
        | c2 :: r2 => if c2 =? 115 then Some (ns_ms, r2) else Some (ns_m, r)
        | [] => Some (ns_m, r)
        end
      else if c =? 115 then Some (ns_s, r)
      else if c =? 104 then Some (ns_h, r)
      else if c =? 100 then Some (ns_d, r)
      else if c =? 119 then Some (ns_w, r)
      else None
  end.

(* errors: 1 = ErrInvalidDuration, 2 = overflowed duration *)
Definition err_invalid : text := [1].
Definition err_overflow : text := [2].

(* the component loop; [d] is the running total (never negative) *)
Fixpoint pd_loop (fuel : nat) (s : text) (d : Z) : res Z :=
  match s with
  | [] => Ok d
  | _ =>
      match fuel with
      | O => OutOfFuel
      | S f =>
          let '(ds, r) := span_digits s in
          if is_nil ds then Err err_invalid           (* i == start *)
          else if is_nil r then Err err_invalid       (* reached the end prematurely *)
          else
            match parse_digits_i64 ds with
            | None => Err err_invalid
            | Some n =>
                match take_unit r with
                | None => Err err_invalid
                | Some (u, r') =>
                    let d' := d + n * u in
                    if d' <=? max_i64 then pd_loop f r' d' else Err err_overflow
                end
            end
      end
  end.

Definition parse_duration (s : text) : res Z :=
  match s with
  | [] => Err err_invalid
  | [_] => Err err_invalid                           (* len(s) < 2 *)
  | c :: s' =>
      if c =? 45 then
        match pd_loop (length s') s' 0 with Ok d => Ok (- d) | r => r end
      else pd_loop (length s) s 0
  end.

(* FormatDuration *)
Definition format_duration (d : Z) : text :=
  if d =? 0 then ts "0s"
  else if Z.rem d ns_w =? 0 then dec (Z.quot d ns_w) ++ ts "w"
  else if Z.rem d ns_d =? 0 then dec (Z.quot d ns_d) ++ ts "d"
  else if Z.rem d ns_h =? 0 then dec (Z.quot d ns_h) ++ ts "h"
  else if Z.rem d ns_m =? 0 then dec (Z.quot d ns_m) ++ ts "m"
  else if Z.rem d ns_s =? 0 then dec (Z.quot d ns_s) ++ ts "s"
  else if Z.rem d ns_ms =? 0 then dec (Z.quot d ns_ms) ++ ts "ms"
  else if Z.rem d ns_us =? 0 then dec (Z.quot d ns_us) ++ ts "u"
  else dec d ++ ts "ns".
