(* C06  Quoting helpers invert the lexer and cannot be broken out of.
   The theorems are about Scanner.Scan on the EXACT reader (3-slot ring, one-deep pushback re-reads of the opening
   quote, CR folding), started between tokens ([wf]: nothing pushed back). *)
From InfluxQL Require Import Base.Prelude Lex.Token Lex.Reader Lex.Scanner Lex.Quote Proofs.ReaderProofs Proofs.QuoteProofs Proofs.BareIdentProofs.
From InfluxQL Require Import Lex.StreamLex Proofs.StreamTile Proofs.BareConverse Proofs.RingAt Proofs.QuoteAnywhere.

(* for every expressible string (no NUL, no CR), QuoteString(s) followed by ANY text scans as one STRING token with
   value s, leaving exactly that text *)
Theorem C06_string : forall ulower s rest r,
  wf r -> expressible s -> r_src r = quote_string s ++ rest ->
  exists p r', scan ulower r = ((STRING, p, s), r') /\ wf r' /\ r_src r' = rest.
Proof. exact scan_quote_string. Qed.
Print Assumptions C06_string.

(* a quoted identifier (what QuoteIdent writes for a segment that needs quotes) scans as one IDENT with value s *)
Theorem C06_ident : forall ulower s rest r,
  wf r -> expressible s -> r_src r = 34 :: flat_map qi_escape s ++ 34 :: rest ->
  exists p r', scan ulower r = ((IDENT, p, s), r') /\ wf r' /\ r_src r' = rest.
Proof. exact scan_quoted_ident. Qed.
Print Assumptions C06_ident.

(* for every string WHATSOEVER (NUL, CR, any rune) and any following text: one STRING ending exactly where the quoted
   value ends, or a BADSTRING (a parse error) — never a string that ends inside the value or absorbs text after it *)
Theorem C06_no_breakout : forall ulower s rest r,
  wf r -> r_src r = quote_string s ++ rest ->
  exists tok p lit r', scan ulower r = ((tok, p, lit), r') /\
    ((tok = STRING /\ lit = s /\ wf r' /\ r_src r' = rest) \/ tok = BADSTRING).
Proof. exact scan_quote_string_any. Qed.
Print Assumptions C06_no_breakout.

(* a non-empty name for which IdentNeedsQuotes is false, written bare, scans as exactly that one identifier, whatever
   follows it - the end of the text, or any rune that cannot continue an identifier.  (The converse is C06_needs_quotes
   below.) *)
Theorem C06_bare : forall ulower s rest r,
  wf r -> s <> [] -> ident_needs_quotes ulower s = false -> ends_ident rest -> r_src r = s ++ rest ->
  exists p r', scan ulower r = ((IDENT, p, s), r') /\ stopped rest r'.
Proof. exact scan_bare_ident_name. Qed.
Print Assumptions C06_bare.

(* non-vacuity: an injection attempt, evaluated by the kernel *)
Example C06_example :
  let s := ts "x' OR 'y\" ++ [10] ++ ts "'; DROP DATABASE d; --" in
  fst (scan (fun c => c) (new_reader (quote_string s ++ ts " AND z"))) = (STRING, pos0, s).
Proof. vm_compute. reflexivity. Qed.

(* the converse of C06_bare, on the plain-text lexer that the exact lexer refines (C05_scan_is_stream_scan): a non-empty
   name for which IdentNeedsQuotes is true, written bare in front of any text, is never scanned as the one identifier
   with that name followed by that text - it is a keyword token, or another kind of token, or an identifier with
   another value, or it ends elsewhere *)
Theorem C06_needs_quotes : forall ulower s rest, s <> [] -> ident_needs_quotes ulower s = true -> canon (s ++ rest) ->
  s_scan ulower (s ++ rest) <> ((IDENT, s), rest).
Proof. exact bare_needs_quotes. Qed.
Print Assumptions C06_needs_quotes.

(* "every position a quoted value can take in a statement": the theorems above start with nothing pushed back, which
   inside a statement is the exception - a keyword, a name, a number or a blank in front of the value has read one
   rune too many and pushed it back.  [at_ T r t] (C05_scan_is_stream_scan) is the general position: the exact
   reader r, anywhere inside the CR-folded text T, with up to two runes pushed back, about to deliver t.  From every
   such state a quoted string / quoted identifier that lies ahead scans as the one literal with value s and leaves the
   reader in front of exactly the text that follows it. *)
Theorem C06_string_anywhere : forall T ulower r s rest,
  no_cr T -> at_ T r (quote_string s ++ rest) -> r_n r <= 2 -> expressible s ->
  exists p r', scan ulower r = ((STRING, p, s), r') /\ at_ T r' rest.
Proof. exact quote_string_anywhere. Qed.
Print Assumptions C06_string_anywhere.

Theorem C06_ident_anywhere : forall T ulower r s rest,
  no_cr T -> at_ T r (34 :: flat_map qi_escape s ++ 34 :: rest) -> r_n r <= 2 -> expressible s ->
  exists p r', scan ulower r = ((IDENT, p, s), r') /\ at_ T r' rest.
Proof. exact quoted_ident_anywhere. Qed.
Print Assumptions C06_ident_anywhere.

(* no break-out, anywhere: for ANY content (NUL and whatever else the folded text holds) a quoted string that lies ahead
   is one STRING ending exactly where the value ends, or a BADSTRING - from every reader state inside the text *)
Theorem C06_no_breakout_anywhere : forall T ulower r s rest,
  no_cr T -> at_ T r (quote_string s ++ rest) -> r_n r <= 2 ->
  exists tok p lit r', scan ulower r = ((tok, p, lit), r') /\ ((tok = STRING /\ lit = s /\ at_ T r' rest) \/ tok = BADSTRING).
Proof. exact quote_string_any_anywhere. Qed.
Print Assumptions C06_no_breakout_anywhere.

(* the hypothesis on T is what the reader guarantees: a CR-folded text has no CR *)
Theorem C06_folded_text_has_no_cr : forall src, no_cr (fold_cr src).
Proof. exact fold_cr_no_cr. Qed.
Print Assumptions C06_folded_text_has_no_cr.

(* what does NOT hold of the faithful model, and of the code (known finding C06-word-absorbed): the text BEFORE a quoted
   identifier is not safe from it.  Scanner.scanIdent continues a bare word into a directly following double-quoted
   part and returns the quoted part alone, so a bare word written directly before a quoted identifier is absorbed: it
   lies inside the token's extent and contributes nothing to its value.  the text x, double quote, y, double quote scans as the single identifier y.
   (scanner_test.go pins the neighbouring case of the word test followed by one double quote = one BADSTRING, so the one-condition repair - open a quoted
   identifier only at the start of a token - does not pass the existing suite.) *)
Theorem C06_word_before_quote_refuted :
  exists w s rest, w <> [] /\ ident_needs_quotes (fun c => c) w = false /\
    s_scan (fun c => c) (w ++ 34 :: flat_map qi_escape s ++ 34 :: rest) = ((IDENT, s), rest) /\
    fst (scan (fun c => c) (new_reader (w ++ 34 :: flat_map qi_escape s ++ 34 :: rest))) = (IDENT, pos0, s).
Proof. exists (ts "x"), (ts "y"), (ts " z"). split; [discriminate|]. vm_compute. repeat split; reflexivity. Qed.
Print Assumptions C06_word_before_quote_refuted.
