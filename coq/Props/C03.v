(* C03  Binary operators group by precedence and associate to the left.
   Only statements, closed by [exact], each followed by Print Assumptions. *)
From InfluxQL Require Import Base.Prelude Lex.Token Ast.Ast Parse.ExprTree Proofs.ExprTreeProofs.

(* the tree ParseExpr builds from a chain  a0 o1 a1 ... on  yields the chain in order and is grouped:
   a chain-built left child never binds looser than its parent, a chain-built right child binds tighter *)
Theorem C03_grouped : forall a0 rest,
  flat (cparse a0 rest) = chain_flat a0 rest /\ Grouped (cparse a0 rest).
Proof. intros; split; [exact (cparse_flat a0 rest)|exact (cparse_grouped a0 rest)]. Qed.
Print Assumptions C03_grouped.

(* there is exactly one grouped tree per chain: the five-level, left-associative reading *)
Theorem C03_unique : forall t1 t2,
  Grouped t1 -> Grouped t2 -> flat t1 = flat t2 -> t1 = t2.
Proof. exact grouped_unique. Qed.
Print Assumptions C03_unique.

(* the function on real expressions (descending BinaryExpr right children) builds that tree,
   for operands as parseUnaryExpr returns them (no BinaryExpr except the  -1 * x  desugaring) *)
Theorem C03_real_tree : forall a0 rest,
  operand_ok a0 = true -> Forall (fun oa => operand_ok (snd oa) = true) rest ->
  embed (cparse a0 rest) = parse_chain a0 rest.
Proof. exact embed_cparse. Qed.
Print Assumptions C03_real_tree.

(* the five levels, as a table over the whole token enumeration *)
Theorem C03_levels : forall t, prec t = level t.
Proof. exact prec_levels. Qed.
Print Assumptions C03_levels.

Theorem C03_operators : forall t, is_operator t = true <-> In t operators.
Proof. exact is_operator_iff. Qed.
Print Assumptions C03_operators.

Theorem C03_operator_has_level : forall t, prec t > 0 <-> is_operator t = true.
Proof. exact prec_pos_iff_operator. Qed.
Print Assumptions C03_operator_has_level.

(* the right spine the insertion descends is never longer than the number of levels *)
Theorem C03_spine : forall a0 rest,
  Forall (fun oa => is_operator (fst oa) = true) rest ->
  (right_spine (cparse a0 rest) <= 5)%nat.
Proof. exact cparse_spine. Qed.
Print Assumptions C03_spine.

(* non-vacuity: a concrete chain   a + b * c = d AND e   (mixed levels) *)
Local Open Scope string_scope.
Example C03_example :
  let v := fun s : string => VarRef (ts s) DUnknown in
  parse_chain (v "a") [(ADD, v "b"); (MUL, v "c"); (EQ, v "d"); (AND, v "e")]
  = BinaryExpr AND (BinaryExpr EQ (BinaryExpr ADD (v "a") (BinaryExpr MUL (v "b") (v "c"))) (v "d")) (v "e").
Proof. reflexivity. Qed.
