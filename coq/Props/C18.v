(* C18  SetTimeRange replaces earlier time bounds, over any sequence of windows. *)
From InfluxQL Require Import Base.Prelude Base.Oracles Lex.Token Ast.Ast Val.TimeVal Sem.Eval Sem.Reduce Sem.Condition Sem.SetTimeRange
  Proofs.SetTimeRangeProofs.

(* Reduce is idempotent, for every valuer and every expression (also the missing half of C09: folding twice = folding once) *)
Theorem C18_reduce_idempotent : forall orc v e, Reduce orc v (Reduce orc v e) = Reduce orc v e.
Proof. exact Reduce_idem. Qed.
Print Assumptions C18_reduce_idempotent.

(* only the last window applies and the condition does not grow: a second call gives what a single call with the second
   window gives, syntactically.  [time_free (strip_time c)] says that the time column occurs in c only as an operand
   of the comparisons SetTimeRange removes - C18_class shows the property's class has it. *)
Theorem C18_last_window_wins : forall orc, is_time_ref orc time_ref = true ->
  forall c w1 w2, time_free orc (strip_time orc c) = true ->
  set_time_range orc (Some (set_time_range orc (Some c) w1)) w2 = set_time_range orc (Some c) w2.
Proof. exact set_twice. Qed.
Print Assumptions C18_last_window_wins.

(* over any sequence of windows, as a continuous query issues them: the condition after the k-th call is the one a
   single call with the k-th window produces from the original condition *)
Theorem C18_sequence : forall orc, is_time_ref orc time_ref = true ->
  forall c ws, time_free orc (strip_time orc c) = true ->
  set_time_ranges orc (Some c) ws = map (set_time_range orc (Some c)) ws.
Proof. exact set_time_ranges_map. Qed.
Print Assumptions C18_sequence.
Theorem C18_sequence_no_condition : forall orc, is_time_ref orc time_ref = true ->
  forall ws, set_time_ranges orc None ws = map (set_time_range orc None) ws.
Proof. exact set_time_ranges_map_none. Qed.
Print Assumptions C18_sequence_no_condition.

(* exactly start <= time < end: ConditionExpr reads the range [start, end - 1ns] off the new condition and, as its
   non-time part, its reading of the kept predicates (kept = the old condition with its time comparisons replaced by
   true, folded).  Hypotheses: the two instants format and parse back (checked per window by the harness) and lie in
   the int64 range ConditionExpr accepts; the kept predicates are a condition the splitter accepts and not the literal
   false (then the whole condition is false and selects nothing in any window). *)
Theorem C18_window : forall orc v, is_time_ref orc time_ref = true ->
  forall c w ra tra,
  time_free orc (strip_time orc c) = true ->
  o_parse_time orc (format_rfc3339nano (fst w)) = Some (fst w) -> o_parse_time orc (format_rfc3339nano (snd w)) = Some (snd w) ->
  in_i64 (fst w) -> in_i64 (snd w) ->
  condition_expr orc v (kept orc c) = Some (ra, tra) ->
  is_false_lit (kept orc c) = false ->
  condition_expr orc v (set_time_range orc (Some c) w) =
    Some ((if is_true_lit (kept orc c) then None else ra), mkRange (Some (fst w)) (Some (snd w - 1))).
Proof. exact window_exact. Qed.
Print Assumptions C18_window.

(* every other predicate is kept: the only change to the old condition is that comparisons with the time column (on
   either side, any spelling, parenthesised or not) become true; at any point where those comparisons hold, the
   stripped condition evaluates to what the old condition evaluates to *)
Theorem C18_predicates_kept : forall orc ifd m c, bounds_hold orc ifd m c -> eval orc ifd m (strip_time orc c) = eval orc ifd m c.
Proof. exact strip_sound. Qed.
Print Assumptions C18_predicates_kept.

(* every earlier time bound is gone: for conditions of the property's class (bounds with the time column on either
   side joined to time-free predicates by AND, OR and parentheses) nothing that mentions the time column is left *)
Theorem C18_class : forall orc c, in_class orc c -> time_free orc (strip_time orc c) = true.
Proof. exact class_stripped. Qed.
Print Assumptions C18_class.
Theorem C18_kept_is_time_free : forall orc c, time_free orc (strip_time orc c) = true -> time_free orc (kept orc c) = true.
Proof. exact kept_time_free. Qed.
Print Assumptions C18_kept_is_time_free.

(* non-vacuity: '2000-01-01T00:00:00Z' <= TIME AND (host = 'a' OR region = 'b') AND (time) < now(), three windows *)
Local Open Scope string_scope.
Definition ex_c : expr :=
  BinaryExpr AND
    (BinaryExpr AND (BinaryExpr LTE (StringLit (ts "2000-01-01T00:00:00Z")) (VarRef (ts "TIME") DUnknown))
       (ParenExpr (BinaryExpr OR (BinaryExpr EQ (VarRef (ts "host") DUnknown) (StringLit (ts "a")))
                                 (BinaryExpr EQ (VarRef (ts "region") DUnknown) (StringLit (ts "b"))))))
    (BinaryExpr LT (ParenExpr (VarRef (ts "time") DUnknown)) (Call (ts "now") [])).
Definition ex_lower (c : Z) : Z := (if (65 <=? c) && (c <=? 90) then c + 32 else c)%Z.
Definition ex_t1 : Z := 946684800000000000%Z.
Definition ex_t2 : Z := 946684800500000000%Z.
Definition set_ulower (o : oracles) (f : Z -> Z) : oracles :=
  mkOracles f (o_parse_float o) (o_format_float o) (o_re_ok o) (o_load_loc o)
    (o_fadd o) (o_fsub o) (o_fmul o) (o_fdiv o) (o_fmod o) (o_feq o) (o_flt o) (o_fle o)
    (o_int_to_float o) (o_uint_to_float o) (o_float_to_int o) (o_re_match o) (o_parse_time o).
Definition ex_orc : oracles :=
  set_parse_time (set_ulower default_oracles ex_lower)
    (fun s => if text_eqb s (format_rfc3339nano ex_t1) then Some ex_t1 else if text_eqb s (format_rfc3339nano ex_t2) then Some ex_t2 else None).
Example C18_example :
  is_time_ref ex_orc time_ref = true /\ time_free ex_orc (strip_time ex_orc ex_c) = true /\
  kept ex_orc ex_c = ParenExpr (BinaryExpr OR (BinaryExpr EQ (VarRef (ts "host") DUnknown) (StringLit (ts "a")))
                                              (BinaryExpr EQ (VarRef (ts "region") DUnknown) (StringLit (ts "b")))) /\
  set_time_ranges ex_orc (Some ex_c) [(0, 5)%Z; (ex_t1, ex_t2)] =
    [set_time_range ex_orc (Some ex_c) (0, 5)%Z; set_time_range ex_orc (Some ex_c) (ex_t1, ex_t2)] /\
  condition_expr ex_orc nil_valuer (set_time_range ex_orc (Some ex_c) (ex_t1, ex_t2)) =
    Some (Some (kept ex_orc ex_c), mkRange (Some ex_t1) (Some (ex_t2 - 1)%Z)).
Proof. vm_compute. repeat split; reflexivity. Qed.
