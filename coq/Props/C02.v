(* C02  Printed statements re-parse to the same AST.
   PARTIAL at proof level: proved here are the password exception (the printed text does not depend on
   the password at all), and — by evaluating the model's own printer and full text-level parser inside
   the kernel — that the full statement is FALSE of the code as it is for three narrow classes (known
   findings); and, leaf by leaf, the round trips of the value printers: regex literals here (every regex the
   scanner can return), strings and identifiers in C06, durations in C08.  The round trip of whole statements
   is evaluated on the implementation for every statement kind, and the model printer (every String() of
   ast.go) is compared with the implementation (harness/c02.go). *)
From InfluxQL Require Import Base.Prelude Base.Oracles Lex.Token Lex.Reader Lex.Scanner Ast.Ast Ast.Printer Ast.PrinterStmts
  Parse.Instr Parse.ParseExpr Parse.ParseStmts.
From InfluxQL Require Import Lex.StreamLex Proofs.RingAt Proofs.RingRefine Proofs.RegexRoundTrip.

Theorem C02_password_not_printed_create_user : forall orc n pw1 pw2 a,
  print_stmt orc (CreateUser n pw1 a) = print_stmt orc (CreateUser n pw2 a).
Proof. intros; reflexivity. Qed.
Print Assumptions C02_password_not_printed_create_user.

Theorem C02_password_not_printed_set_password : forall orc n pw1 pw2,
  print_stmt orc (SetPasswordUser pw1 n) = print_stmt orc (SetPasswordUser pw2 n).
Proof. intros; reflexivity. Qed.
Print Assumptions C02_password_not_printed_set_password.

Definition reparse (s : stmt) : res stmt :=
  let t := print_stmt default_oracles s in
  match run (fun c => c) (parse_statement default_oracles (4 * length t + 16)) (new_pstate t []) with
  | Ok (st, _) => Ok st | Err e => Err e | Crash c => Crash c | OutOfFuel => OutOfFuel
  end.
Definition parse_text (t : text) : res stmt :=
  match run (fun c => c) (parse_statement default_oracles (4 * length t + 16)) (new_pstate t []) with
  | Ok (st, _) => Ok st | Err e => Err e | Crash c => Crash c | OutOfFuel => OutOfFuel
  end.
Definition stmt_is (r : res stmt) (f : stmt -> bool) : bool := match r with Ok s => f s | _ => false end.

Local Open Scope string_scope.
Definition sel_fields (s : stmt) : list expr :=
  match s with Select q => map f_expr (s_fields q) | _ => [] end.

(* finding C02-neg-rhs:  b / -a  is accepted, prints as  b / -1 * a , and that text parses to (b / -1) * a.
   The refutations are closed boolean computations: "the text is accepted, and its printed form is rejected
   / re-parses to a different field list". *)
Definition accepted_but_reparses_differently (t : text) : bool :=
  match parse_text t with
  | Ok s => match reparse s with
            | Ok s' => negb (list_eqb expr_eqb (sel_fields s) (sel_fields s'))
            | _ => false end
  | _ => false end.
Definition accepted_but_print_rejected (t : text) : bool :=
  match parse_text t with
  | Ok s => match reparse s with Err _ => true | _ => false end
  | _ => false end.

Theorem C02_refuted_neg_rhs : accepted_but_reparses_differently (ts "SELECT b / -a FROM m") = true.
Proof. vm_compute. reflexivity. Qed.
Print Assumptions C02_refuted_neg_rhs.

(* finding C02-createdb-bare-with *)
Theorem C02_refuted_createdb_bare_with : accepted_but_print_rejected (ts "CREATE DATABASE d WITH SHARD DURATION INF") = true.
Proof. vm_compute. reflexivity. Qed.
Print Assumptions C02_refuted_createdb_bare_with.

(* finding C02-call-name-quoted *)
Theorem C02_refuted_call_name_quoted : accepted_but_print_rejected (ts "SELECT ""my f""(x) FROM m") = true.
Proof. vm_compute. reflexivity. Qed.
Print Assumptions C02_refuted_call_name_quoted.

(* non-vacuity: a statement with quoting, a regex with a slash, a subquery and options round-trips in the model *)
Example C02_example_roundtrip :
  match parse_text (ts "select ""a b"", -3 from (select v from ""x"".""y"".z where h =~ /a\/b/) group by time(1m), * fill(2) order by desc limit 7") with
  | Ok s => match reparse s with Ok s' => true | _ => false end
  | _ => false end = true.
Proof. vm_compute. reflexivity. Qed.

Local Close Scope string_scope.
Local Open Scope list_scope.
(* regex literals, every regex the scanner can return (so: of every accepted statement): RegexLiteral.String writes
   it between slashes with every slash escaped, and ScanRegex reads that text back to the same regex source and stops
   right behind the closing slash - on the plain-text lexer, and through the refinement on the exact lexer *)
Theorem C02_regex_print_scan : forall t b t' rest, s_scan_regex t = ((REGEX, b), t') ->
  s_scan_regex (print_regex b ++ rest) = ((REGEX, b), rest).
Proof. exact regex_print_scan. Qed.
Print Assumptions C02_regex_print_scan.

Theorem C02_regex_print_scan_exact_lexer : forall T1 T2 r1 r2 t rest,
  at_ T1 r1 t -> r_n r1 <= 2 -> fst (fst (fst (scan_regex r1))) = REGEX ->
  at_ T2 r2 (print_regex (snd (fst (scan_regex r1))) ++ rest) -> r_n r2 <= 2 ->
  tl_of (fst (scan_regex r2)) = (REGEX, snd (fst (scan_regex r1))) /\ at_ T2 (snd (scan_regex r2)) rest.
Proof. exact ring_regex_print_scan. Qed.
Print Assumptions C02_regex_print_scan_exact_lexer.

(* the class of regex sources that round-trip, and the one that cannot: a source ending in a backslash (the printed
   closing slash would be read as escaped); the scanner never returns such a source *)
Theorem C02_regex_class : forall s rest, rx_ok s -> s_scan_regex (print_regex s ++ rest) = ((REGEX, s), rest).
Proof. exact s_scan_regex_printed. Qed.
Print Assumptions C02_regex_class.

Example C02_regex_example :
  s_scan_regex (print_regex (ts "a/b\c") ++ ts " AND") = ((REGEX, ts "a/b\c"), ts " AND") /\
  print_regex (ts "a/b\c") = ts "/a\/b\c/".
Proof. split; reflexivity. Qed.
