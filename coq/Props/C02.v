(* C02  Printed statements re-parse to the same AST.
   PARTIAL at proof level: proved here are the password exception (the printed text does not depend on
   the password at all), and — by evaluating the model's own printer and full text-level parser inside
   the kernel — that the full statement is FALSE of the code as it is for three narrow classes (known
   findings).  The round trip itself is evaluated on the implementation for every statement kind, and
   the model printer (every String() of ast.go) is compared with the implementation (harness/c02.go). *)
From InfluxQL Require Import Base.Prelude Base.Oracles Lex.Token Lex.Reader Lex.Scanner Ast.Ast Ast.Printer Ast.PrinterStmts
  Parse.Instr Parse.ParseExpr Parse.ParseStmts.

Theorem C02_password_not_printed_create_user : forall orc n pw1 pw2 a,
  print_stmt orc (CreateUser n pw1 a) = print_stmt orc (CreateUser n pw2 a).
Proof. intros; reflexivity. Qed.
Print Assumptions C02_password_not_printed_create_user.

Theorem C02_password_not_printed_set_password : forall orc n pw1 pw2,
  print_stmt orc (SetPasswordUser pw1 n) = print_stmt orc (SetPasswordUser pw2 n).
Proof. intros; reflexivity. Qed.
Print Assumptions C02_password_not_printed_set_password.

Definition reparse (s : stmt) : res stmt :=
  let t := print_stmt default_oracles s in
  match run (fun c => c) (parse_statement default_oracles (4 * length t + 16)) (new_pstate t []) with
  | Ok (st, _) => Ok st | Err e => Err e | Crash c => Crash c | OutOfFuel => OutOfFuel
  end.
Definition parse_text (t : text) : res stmt :=
  match run (fun c => c) (parse_statement default_oracles (4 * length t + 16)) (new_pstate t []) with
  | Ok (st, _) => Ok st | Err e => Err e | Crash c => Crash c | OutOfFuel => OutOfFuel
  end.
Definition stmt_is (r : res stmt) (f : stmt -> bool) : bool := match r with Ok s => f s | _ => false end.

Local Open Scope string_scope.
Definition sel_fields (s : stmt) : list expr :=
  match s with Select q => map f_expr (s_fields q) | _ => [] end.

(* finding C02-neg-rhs:  b / -a  is accepted, prints as  b / -1 * a , and that text parses to (b / -1) * a.
   The refutations are closed boolean computations: "the text is accepted, and its printed form is rejected
   / re-parses to a different field list". *)
Definition accepted_but_reparses_differently (t : text) : bool :=
  match parse_text t with
  | Ok s => match reparse s with
            | Ok s' => negb (list_eqb expr_eqb (sel_fields s) (sel_fields s'))
            | _ => false end
  | _ => false end.
Definition accepted_but_print_rejected (t : text) : bool :=
  match parse_text t with
  | Ok s => match reparse s with Err _ => true | _ => false end
  | _ => false end.

Theorem C02_refuted_neg_rhs : accepted_but_reparses_differently (ts "SELECT b / -a FROM m") = true.
Proof. vm_compute. reflexivity. Qed.
Print Assumptions C02_refuted_neg_rhs.

(* finding C02-createdb-bare-with *)
Theorem C02_refuted_createdb_bare_with : accepted_but_print_rejected (ts "CREATE DATABASE d WITH SHARD DURATION INF") = true.
Proof. vm_compute. reflexivity. Qed.
Print Assumptions C02_refuted_createdb_bare_with.

(* finding C02-call-name-quoted *)
Theorem C02_refuted_call_name_quoted : accepted_but_print_rejected (ts "SELECT ""my f""(x) FROM m") = true.
Proof. vm_compute. reflexivity. Qed.
Print Assumptions C02_refuted_call_name_quoted.

(* non-vacuity: a statement with quoting, a regex with a slash, a subquery and options round-trips in the model *)
Example C02_example_roundtrip :
  match parse_text (ts "select ""a b"", -3 from (select v from ""x"".""y"".z where h =~ /a\/b/) group by time(1m), * fill(2) order by desc limit 7") with
  | Ok s => match reparse s with Ok s' => true | _ => false end
  | _ => false end = true.
Proof. vm_compute. reflexivity. Qed.
