(* C11  Regex-to-literal rewriting preserves which strings match.
   [resyn] is the regexp/syntax tree that Parse(v, Perl).Simplify() delivers (an input, dumped by the harness);
   [match_string] is the model's matching relation on the literal fragment (literals, classes, groups, concatenation,
   alternation, text and line anchors), validated against regexp.MatchString on every string of length <= 3 over each
   pattern's alphabet plus a foreign character and a line break. *)
From InfluxQL Require Import Base.Prelude Base.Oracles Lex.Token Ast.Ast Sem.Eval Sem.Regex Proofs.ReduceProofs Proofs.RegexProofs.

(* when matchRegex yields literals, the regex is fold-free, anchor-free and repetition-free, and the literals are
   exactly its language — in every context *)
Theorem C11_literals_are_language : forall re vals, match_regex re = Some vals ->
  frag re /\ (forall mid, Lang re mid <-> In mid vals) /\
  (forall pre mid post, mb re pre mid post = true <-> In mid vals).
Proof.
  intros re vals H. destruct (match_regex_spec re vals H) as [Hf Hl]. split; [exact Hf|]. split; [exact Hl|].
  intros pre mid post. rewrite (mb_lang re Hf pre mid post). apply Hl.
Qed.
Print Assumptions C11_literals_are_language.

(* the literals have a string form: every literal of a rewrite consists of Unicode scalar values.  A regex can name a
   surrogate (/^[\x{D800}-\x{D801}]$/); Go writes a surrogate into a string as U+FFFD, which the regex does not match,
   so such a regex must be left alone (genuine defect, repaired: the surrogate guard in matchRegex).  The model's
   strings are lists of code points, Go's are UTF-8: on texts of scalar values the two agree. *)
Theorem C11_literals_have_string_form : forall re vals, match_exact re = Some vals ->
  Forall (fun v => forallb valid_rune v = true) vals.
Proof. exact match_exact_valid. Qed.
Print Assumptions C11_literals_have_string_form.

(* when matchExactRegex yields literals the regex is  ^ body $  with TEXT anchors, and it matches (anywhere in the
   subject, as MatchString does) exactly the listed whole strings - none at all when the list is empty (an empty
   character class); /^$/ yields the one literal "" *)
Theorem C11_exact : forall re vals, match_exact re = Some vals ->
  forall s, match_string re s = true <-> In s vals.
Proof. exact exact_matches. Qed.
Print Assumptions C11_exact.

Theorem C11_exact_shape : forall re vals, match_exact re = Some vals ->
  exists f body, re = RConcat f (RBeginText :: body ++ [REndText]) /\
    ((body = [] /\ vals = [[]]) \/ (body <> [] /\ match_regex (RConcat f body) = Some vals)).
Proof. exact match_exact_spec. Qed.
Print Assumptions C11_exact_shape.

(* never more than 100 literals from one class or one alternation *)
Theorem C11_bound_alt : forall f subs vals, match_regex (RAlt f subs) = Some vals -> (length vals <= 100)%nat.
Proof.
  intros f subs vals H. cbn [match_regex r_fold] in H. destruct f; [discriminate|].
  match type of H with (match ?x with _ => _ end) = _ => destruct x as [names|]; [|discriminate] end.
  destruct (max_literals <? length names)%nat eqn:E; [discriminate|]. inversion H; subst. apply Nat.ltb_ge in E. exact E.
Qed.
Print Assumptions C11_bound_alt.

(* the rewritten condition has the same value as the original for every assignment of the declared kinds, provided
   the two views of Go's regexp package agree on the rewritten patterns (Hlink, checked by the harness on every
   pattern it sees).  An earlier version needed a second hypothesis - no empty character class - which the code did
   not satisfy: /^[^\s\S]$/ was rewritten to = '' (repaired, fix 02831e0) *)
Theorem C11_rewrite : forall orc G syn ifd m,
  env_ok orc G m ->
  (forall p re vals s, syn p = Some re -> match_exact re = Some vals -> o_re_match orc p s = match_string re s) ->
  forall e t, typeof orc G e = Some t ->
    eval orc ifd m (rewrite_regex_conditions syn e) = eval orc ifd m e.
Proof. intros orc G syn ifd m He Hl e t Ht. exact (rewrite_regex_conditions_sound orc G syn ifd m He Hl e t Ht). Qed.
Print Assumptions C11_rewrite.

(* declined: case folding anywhere, line anchors, missing anchors, open repetition *)
Theorem C11_declined :
  match_exact (RConcat false [RBeginLine; RLit false (ts "foo"); REndLine]) = None /\     (* (?m)^foo$ *)
  match_exact (RConcat false [RBeginText; RLit true (ts "foo"); REndText]) = None /\      (* (?i)^foo$ *)
  match_exact (RConcat false [RBeginText; RLit false (ts "foo")]) = None /\               (* ^foo *)
  match_exact (RLit false (ts "foo")) = None /\                                           (* foo *)
  match_exact (RConcat false [RBeginText; RLit false (ts "fo"); ROther false 15; REndText]) = None.   (* ^fo+$ *)
Proof. repeat split. Qed.
Print Assumptions C11_declined.

(* the defect repaired by ce5f831: a line-anchored regex matches more than its literal *)
Theorem C11_line_anchor_matches_more :
  match_string (RConcat false [RBeginLine; RLit false (ts "foo"); REndLine]) (ts "x" ++ [10] ++ ts "foo") = true.
Proof. vm_compute. reflexivity. Qed.
Print Assumptions C11_line_anchor_matches_more.

(* non-vacuity: ^(a|b)[cd]$ *)
Example C11_example :
  match_exact (RConcat false [RBeginText; RCapture false (RAlt false [RLit false (ts "a"); RLit false (ts "b")]); RClass false [(99, 100)]; REndText])
  = Some [ts "ac"; ts "ad"; ts "bc"; ts "bd"].
Proof. vm_compute. reflexivity. Qed.
