(* C12  Wildcard expansion yields exactly the schema's columns, deterministically. *)
From Coq Require Import Permutation Sorted.
From InfluxQL Require Import Base.Prelude Base.Oracles Lex.Token Ast.Ast Ast.ColumnNames Sem.Eval Sem.RewriteFields Proofs.RewriteFieldsProofs.

(* never on map iteration order: two FieldMappers whose MapType agree and whose FieldDimensions maps hold the same
   entries in any order give the same statement - for every statement, with nested subqueries, errors included *)
Theorem C12_order_independent : forall orc mt mt' fd fd',
  (forall m f, mt m f = mt' m f) -> (forall m, fd_equiv (fd m) (fd' m)) ->
  forall q, rewrite_fields orc mt fd q = rewrite_fields orc mt' fd' q.
Proof. exact rewrite_fields_order_independent. Qed.
Print Assumptions C12_order_independent.

(* the same for the schema double the harness runs the implementation with *)
Theorem C12_schema_order : forall orc s s' q, sch_perm s s' -> rewrite_fields_sch orc s q = rewrite_fields_sch orc s' q.
Proof. exact rewrite_fields_sch_perm. Qed.
Print Assumptions C12_schema_order.

(* type precedence: LessThan is "has a worse rank" (float, integer, unsigned, string, boolean, ..., unknown last) *)
Theorem C12_precedence : forall d o, less_than d o = (dt_eqb d DUnknown || (rank o <? rank d)).
Proof. exact less_than_rank. Qed.
Print Assumptions C12_precedence.

(* over any list of measurements FieldDimensions succeeds, keeps one entry per name, and the type of a name is one
   that some measurement declares and no measurement declares a better-ranked one; the tags are the union *)
Theorem C12_merge : forall orc mt fd F T ms,
  (forall m, In m ms -> fd m = Some (F m, T m)) ->
  exists f d, field_dimensions orc mt fd (map SMeasurement ms) = Some (f, d) /\ NoDup (keys f) /\ NoDup d /\
    (forall k t, In (k, t) f ->
       (exists m, In m ms /\ In (k, t) (F m)) /\ (forall m t', In m ms -> In (k, t') (F m) -> t' <> DUnknown -> rank t <= rank t')) /\
    (forall k t m, In m ms -> In (k, t) (F m) -> exists t', In (k, t') f) /\
    (forall x, In x d <-> exists m, In m ms /\ In x (T m)).
Proof.
  intros orc mt fd F T ms Hfd. destruct (field_dimensions_measurements orc mt fd F T ms Hfd) as (f & d & E & Hnf & Hnd & Hk & Hx).
  exists f, d. repeat split; try assumption.
  - apply (merged_type_best k t F ms). rewrite <- Hk. apply assoc_In; assumption.
  - apply (merged_type_best k t F ms). rewrite <- Hk. apply assoc_In; assumption.
  - intros k t m Hm Hin. specialize (Hk k). destruct (assoc_text k f) as [t'|] eqn:Ea.
    + exists t'. apply assoc_In; assumption.
    + exfalso. symmetry in Hk.
      assert (Hin' : In t (flat_map (fun m0 => types_of k (F m0)) ms)) by (apply in_flat_map; exists m; split; [exact Hm|apply in_types_of; exact Hin]).
      assert (G : forall (l : list datatype) c, c <> None -> fold_left step l c <> None).
      { induction l as [|x l IHl]; intros c Hc; [exact Hc|]. cbn [fold_left]. apply IHl. unfold step. destruct (less_than _ _); [discriminate|exact Hc]. }
      revert Hk Hin'. generalize (flat_map (fun m0 => types_of k (F m0)) ms). intros l.
      destruct l as [|x l]; [intros _ []|]. intros Hk _. cbn [fold_left] in Hk. revert Hk. apply G. unfold step.
      change (less_than (unk None) x) with true. cbv iota. discriminate.
  - apply Hx.
  - apply Hx.
Qed.
Print Assumptions C12_merge.

(* "or the output columns of a subquery": as a source, a subquery contributes exactly what a measurement would whose
   fields are the subquery's fields - named by Field.Name, typed by EvalType over the subquery's own sources - and whose
   tag keys are the references among its GROUP BY dimensions; so C12_merge and everything below apply to any mix of
   measurements and subqueries.  (Field.Name is not all of ColumnNames: C12_subquery_top_tags_refuted.) *)
Theorem C12_subquery_schema : forall orc mt fd q m pre post,
  fd m = Some (sub_fields orc mt q, sub_tags q) ->
  field_dimensions orc mt fd (pre ++ SSubQuery q :: post) = field_dimensions orc mt fd (pre ++ SMeasurement m :: post).
Proof. exact field_dimensions_subquery. Qed.
Print Assumptions C12_subquery_schema.

(* the columns a field wildcard stands for: sorted by (name, type), without repetition, and exactly the merged fields -
   without the tags among them that the statement groups by (a subquery can select a tag) - plus, unless the statement
   has a GROUP BY wildcard, the tags it does not already group by *)
Theorem C12_columns : forall has_dw dims fs ds,
  let fs' := drop_grouped_tags has_dw dims fs in
  StronglySorted ref_le (wild_columns has_dw dims fs ds) /\
  (NoDup (keys fs) -> NoDup ds -> NoDup (wild_columns has_dw dims fs ds)) /\
  (forall k t, In (k, t) fs' <-> In (k, t) fs /\ (has_dw = true \/ t <> DTag \/ existsb (is_varref_named k) dims = false)) /\
  (fs' <> [] -> forall k t,
     In (k, t) (wild_columns has_dw dims fs ds) <->
     In (k, t) fs' \/ (has_dw = false /\ t = DTag /\ In k ds /\ existsb (is_varref_named k) dims = false /\ is_tag_field fs' k = false)).
Proof.
  intros. split; [apply wild_columns_sorted|split; [apply wild_columns_nodup|split; [intros k t; apply drop_grouped_in|intros H k t; apply wild_columns_in; exact H]]].
Qed.
Print Assumptions C12_columns.

(* a whole-field wildcard or regex is replaced by exactly the matching columns, in the sorted order, carrying their types *)
Theorem C12_wildcard : forall orc cols wt al,
  expand_field orc cols (mkField (Wildcard wt) al) = Ok (map col_field (filter (wild_keep wt) cols)).
Proof. exact expand_wildcard. Qed.
Print Assumptions C12_wildcard.
Theorem C12_regex : forall orc cols p al,
  expand_field orc cols (mkField (RegexLit p) al) = Ok (map col_field (filter (fun r => o_re_match orc p (fst r)) cols)).
Proof. exact expand_regex. Qed.
Print Assumptions C12_regex.

(* inside a (nested) call: one call per column that is not a tag and whose type the innermost function accepts *)
Theorem C12_call : forall orc cols f cn args iname wt rest,
  f_expr f = Call cn args -> innermost (depth (f_expr f)) cn args = (iname, Wildcard wt :: rest) -> tok_eqb wt TAG = false ->
  expand_field orc cols f =
    Ok (map (fun r => mkField (replace_innermost (depth (f_expr f)) (f_expr f) (VarRef (fst r) (snd r))) (field_name f ++ 95 :: fst r))
          (filter (fun r => negb (dt_eqb (snd r) DTag) && supported iname (snd r) && true) cols)).
Proof. exact expand_call. Qed.
Print Assumptions C12_call.

(* all other fields stay in place: the result is the concatenation, in order, of each field's expansion, and a field
   without a wildcard in an expandable position expands to itself *)
Theorem C12_in_place : forall orc cols f fs fs' a b,
  plain_field f = true -> expand_fields orc cols fs = Ok a -> expand_fields orc cols fs' = Ok b ->
  expand_fields orc cols (fs ++ f :: fs') = Ok (a ++ f :: b).
Proof.
  intros orc cols f fs fs' a b Hp Ha Hb. apply expand_fields_app; [exact Ha|].
  cbn [expand_fields]. rewrite (expand_plain orc cols f Hp), Hb. reflexivity.
Qed.
Print Assumptions C12_in_place.

(* a GROUP BY wildcard stands for every tag, sorted *)
Theorem C12_dimensions : forall dims ds,
  StronglySorted (@le text text_ltb) (wild_dimensions true dims ds) /\ (forall x, In x (wild_dimensions true dims ds) <-> In x ds).
Proof. exact wild_dimensions_spec. Qed.
Print Assumptions C12_dimensions.

(* a GROUP BY regular expression stands for exactly the tags it matches, in the sorted order of the tag list, each once
   - whatever the regex spells out, in whatever order and however often (it is matched against the sorted tags; its own
   text is never a source of names) *)
Theorem C12_regex_dimension : forall orc dims ds p,
  let tags := wild_dimensions true dims ds in
  let out := filter (fun n => o_re_match orc p n) tags in
  expand_dims orc tags [RegexLit p] = map (fun n => VarRef n DUnknown) out /\
  StronglySorted (@le text text_ltb) out /\
  (forall x, In x out <-> In x ds /\ o_re_match orc p x = true).
Proof. exact regex_dimension_spec. Qed.
Print Assumptions C12_regex_dimension.

(* an untyped reference receives its schema type *)
Theorem C12_untyped_reference : forall orc mt m v, retype orc mt [SMeasurement m] (VarRef v DUnknown) = VarRef v (mt m v).
Proof. exact retype_untyped_measurement. Qed.
Print Assumptions C12_untyped_reference.

(* non-vacuity: a clashing two-measurement schema, listed in two different orders *)
Local Open Scope string_scope.
Definition ex_m (n : string) := mkMeasurement [] [] (ts n) None false [].
Definition ex_sel fs ds (ss : list source) : select := mkSelect fs None ds ss None [] 0 0 0 0 true NullFill FVNone None [] false false [] false.
Definition ex_sch : schema :=
  [(ts "m0", mkMS [(ts "v1", DFloat); (ts "v2", DUnsigned); (ts "s", DString)] [ts "host"; ts "region"] false);
   (ts "m1", mkMS [(ts "v1", DInteger); (ts "v2", DString); (ts "host", DBoolean)] [ts "dc"] false)].
Definition ex_sch' : schema :=
  [(ts "m0", mkMS [(ts "v2", DUnsigned); (ts "v1", DFloat); (ts "s", DString)] [ts "region"; ts "host"] false);
   (ts "m1", mkMS [(ts "v2", DString); (ts "v1", DInteger); (ts "host", DBoolean)] [ts "dc"] false)].
Definition ex_q := ex_sel [mkField (Wildcard MUL) []; mkField (Call (ts "max") [Wildcard MUL]) []] [VarRef (ts "region") DUnknown]
                     [SMeasurement (ex_m "m1"); SMeasurement (ex_m "m0")].
Example C12_example :
  sch_perm ex_sch ex_sch' /\
  match rewrite_fields_sch default_oracles ex_sch ex_q with
  | Ok q' => map (fun f => (f_expr f, f_alias f)) (s_fields q') =
             [(VarRef (ts "dc") DTag, []); (VarRef (ts "host") DBoolean, []); (VarRef (ts "host") DTag, []); (VarRef (ts "s") DString, []);
              (VarRef (ts "v1") DFloat, []); (VarRef (ts "v2") DUnsigned, []);
              (Call (ts "max") [VarRef (ts "host") DBoolean], ts "max_host"); (Call (ts "max") [VarRef (ts "v1") DFloat], ts "max_v1");
              (Call (ts "max") [VarRef (ts "v2") DUnsigned], ts "max_v2")]
  | _ => False
  end.
Proof.
  split.
  - assert (Hnd : forall a b c : text, a <> b -> a <> c -> b <> c -> NoDup [a; b; c]).
    { intros a b c H1 H2 H3. repeat constructor; cbn; intuition congruence. }
    repeat constructor; cbn [fst snd ms_fields ms_tags ms_err keys map]; try apply perm_swap; try apply Permutation_refl;
      try (apply Hnd; discriminate); cbn; intuition discriminate.
  - vm_compute. reflexivity.
Qed.

(* a subquery that selects a tag: the outer wildcard lists it, unless the outer statement groups by it *)
Definition ex_sub := ex_sel [mkField (VarRef (ts "host") DUnknown) []; mkField (VarRef (ts "v1") DUnknown) []] [] [SMeasurement (ex_m "m0")].
Example C12_example_subquery_tag :
  match rewrite_fields_sch default_oracles ex_sch (ex_sel [mkField (Wildcard MUL) []] [] [SSubQuery ex_sub]),
        rewrite_fields_sch default_oracles ex_sch (ex_sel [mkField (Wildcard MUL) []] [VarRef (ts "host") DUnknown] [SSubQuery ex_sub]) with
  | Ok q1, Ok q2 => map f_expr (s_fields q1) = [VarRef (ts "host") DTag; VarRef (ts "v1") DFloat] /\
                    map f_expr (s_fields q2) = [VarRef (ts "v1") DFloat]
  | _, _ => False
  end.
Proof. vm_compute. split; reflexivity. Qed.

(* known finding C12-subquery-top-tags, in the model: the tag argument of top() is an output column of the subquery
   (ColumnNames lists it), and the wildcard over that subquery does not stand for it *)
Definition ex_top := ex_sel [mkField (Call (ts "top") [VarRef (ts "v1") DUnknown; VarRef (ts "host") DUnknown; IntegerLit 2]) []] []
                       [SMeasurement (ex_m "m0")].
Theorem C12_subquery_top_tags_refuted :
  column_names ex_top = Ok [ts "time"; ts "top"; ts "host"] /\
  match rewrite_fields_sch default_oracles ex_sch (ex_sel [mkField (Wildcard MUL) []] [] [SSubQuery ex_top]) with
  | Ok q' => map f_expr (s_fields q') = [VarRef (ts "top") DUnknown]
  | _ => False
  end.
Proof. vm_compute. split; reflexivity. Qed.
Print Assumptions C12_subquery_top_tags_refuted.

(* known finding C12-regex-dim-drops-tags, in the model: with a regular expression as the only GROUP BY wildcard, a tag
   it does not match is neither grouped by nor selected *)
Definition ex_orc := set_re_match default_oracles (fun p s => match s with 104 :: _ => true | _ => false end).
Definition region_missing (q : res select) : bool :=
  match q with
  | Ok q' => negb (existsb (fun f => expr_eqb (f_expr f) (VarRef (ts "region") DTag)) (s_fields q'))
             && negb (existsb (fun d => expr_eqb d (VarRef (ts "region") DUnknown)) (s_dims q'))
  | _ => false
  end.
Theorem C12_regex_dimension_keeps_every_tag_refuted :
  region_missing (rewrite_fields_sch ex_orc ex_sch
                    (ex_sel [mkField (Wildcard MUL) []] [RegexLit (ts "^h")] [SMeasurement (ex_m "m0")])) = true.
Proof. vm_compute. reflexivity. Qed.
Print Assumptions C12_regex_dimension_keeps_every_tag_refuted.
