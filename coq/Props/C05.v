(* C05  The lexer partitions its input and reports exact positions.
   Unbounded statements are about the rune reader every token position comes from;
   the statements about whole token sequences are finite (the bound is in the name)
   and are complemented by the correspondence on generated texts (harness/lex.go). *)
From InfluxQL Require Import Base.Prelude Lex.Token Lex.Reader Lex.Scanner Proofs.ReaderProofs Proofs.LexBounded.

(* every rune of a NUL-free text, of any length, is delivered exactly once, in order, CR/CRLF folded,
   and recorded at its zero-based line and column *)
Theorem C05_reader_positions : forall s,
  ReaderProofs.nul_free s = true ->
  fst (read_many (length (fold_cr s)) (new_reader s)) = with_pos pos0 (fold_cr s).
Proof. exact reader_positions. Qed.
Print Assumptions C05_reader_positions.

(* a pushed-back rune is replayed with its recorded position and leaves the reader as it was *)
Theorem C05_unread_replays : forall r, wf r ->
  exists r', read (unread r) = (curr r, r') /\ wf r' /\
    r_src r' = r_src r /\ r_eof r' = r_eof r /\ r_pos r' = r_pos r /\ curr r' = curr r /\
    r_i r' = r_i r /\ r_b0 r' = r_b0 r /\ r_b1 r' = r_b1 r /\ r_b2 r' = r_b2 r.
Proof. exact read_unread. Qed.
Print Assumptions C05_unread_replays.

(* termination within |text|+1 tokens, no ring overrun, tiling of the folded text and first-character
   positions (STRING-like tokens and EOF excepted: findings C05-string-pos, C05-eof-col), for EVERY text
   of length <= 3 over the 43-rune class-representative alphabet — a finite statement *)
Theorem C05_tiling_positions_upto3 : all_upto 3 [] c05_ok = true.
Proof. exact c05_upto3. Qed.
Print Assumptions C05_tiling_positions_upto3.

(* the full statement "every token carries the position of its first character" is false of the code as it is *)
Definition first_tok_pos (s : text) (k : nat) : option (token * pos) :=
  match nth_error (fst (scan_all id_lower (S (length s)) (new_reader s) [])) k with
  | Some (t, p, _) => Some (t, p) | None => None end.

Theorem C05_pos_string_refuted :   (*  x 'a'  : the STRING starts at column 2 and reports column 1 *)
  first_tok_pos (ts "x 'a'") 2 = Some (STRING, mkPos 0 1).
Proof. vm_compute. reflexivity. Qed.
Print Assumptions C05_pos_string_refuted.

Theorem C05_pos_eof_refuted :      (*  x  : EOF is at column 1 and reports column 2 *)
  first_tok_pos (ts "x") 1 = Some (EOF, mkPos 0 2).
Proof. vm_compute. reflexivity. Qed.
Print Assumptions C05_pos_eof_refuted.

(* non-vacuity: a two-line text with CRLF *)
Example C05_example :
  fst (read_many 4 (new_reader [97; 13; 10; 98; 99])) = [(97, mkPos 0 0); (10, mkPos 0 1); (98, mkPos 1 0); (99, mkPos 1 1)].
Proof. vm_compute. reflexivity. Qed.
