(* C05  The lexer partitions its input and reports exact positions.
   Tiling and termination are proved for every text (C05_tokens_tile, through the refinement
   C05_scan_is_stream_scan of the exact 3-slot-ring lexer to a lexer on plain texts, and
   C05_every_token_consumes); the rune reader delivers every rune once at its line and column
   (C05_reader_positions).  C05_positions: every token that is not string-like and not EOF carries the line and
   column of the first rune of its extent, for every NUL-free text.  For string-like tokens and EOF the statement
   is false of the code: refuted below (known findings, both pinned by existing tests). *)
From InfluxQL Require Import Base.Prelude Lex.Token Lex.Reader Lex.Scanner Proofs.ReaderProofs Proofs.LexBounded
  Lex.StreamLex Proofs.RingAt Proofs.RingRefine Proofs.StreamTile Proofs.LexTiling.

(* every text without NUL runes, of any length: scanning until EOF with the exact lexer stops within |text|+1
   tokens, and there are extents, one per token, that concatenate to the CR-folded text - every rune in exactly
   one token, in order; every token but the last is not EOF and has a non-empty extent; the last is EOF *)
Theorem C05_tokens_tile : forall ulower s, nz s ->
  exists items : list (token * text * text),
    map tl_of (fst (scan_all ulower (S (length (fold_cr s))) (new_reader s) [])) = map fst items /\
    concat (map snd items) = fold_cr s /\
    exists l0 lit, items = l0 ++ [(EOF, lit, [])] /\ Forall (fun it => fst (fst it) <> EOF /\ snd it <> []) l0.
Proof. exact lexer_tiles. Qed.
Print Assumptions C05_tokens_tile.

(* [at_ T r t]: the exact reader r (3-slot ring with recorded positions, pushback count, CR folding, line/column
   state) is a cursor into the CR-folded text T and will deliver the text t from now on.
   One Scan from any such state with at most two runes pushed back returns the token and literal the plain-text
   lexer computes from t and leaves the remaining input that lexer leaves - for every t, NUL runes included - and,
   unless the token is string-like, its position is the position the reader recorded for the first rune of t *)
Theorem C05_scan_is_stream_scan : forall T ulower r t, at_ T r t -> r_n r <= 2 ->
  tl_of (fst (scan ulower r)) = fst (s_scan ulower t) /\ at_ T (snd (scan ulower r)) (snd (s_scan ulower t)) /\
  (strtok (fst (fst (fst (scan ulower r)))) = false -> slot_at T t (fst (sread t), snd (fst (fst (scan ulower r))))).
Proof. exact ref_scan. Qed.
Print Assumptions C05_scan_is_stream_scan.

(* a token never gives back the rune it starts with, and never reads behind what it returns: the remaining text is
   a suffix of the text behind the first rune *)
Theorem C05_every_token_consumes : forall ulower t, canon t ->
  suffix (snd (s_scan ulower t)) (snd (sread t)).
Proof. exact s_scan_progress. Qed.
Print Assumptions C05_every_token_consumes.

(* positions, for every text without NUL runes: token i of the exact lexer, unless it is string-like
   (STRING, BADSTRING, BADESCAPE: finding C05-string-pos) or EOF (finding C05-eof-col), reports the zero-based line
   and column ([lc], CR/CRLF already folded to one line break) of the first rune of its extent - the rune that
   follows the extents of tokens 0..i-1 *)
Theorem C05_positions : forall ulower s, nz s ->
  forall i tok pos lit,
    nth_error (fst (scan_all ulower (S (length (fold_cr s))) (new_reader s) [])) i = Some (tok, pos, lit) ->
    strtok tok = false -> tok <> EOF ->
    pos = lc (fold_cr s) (length (concat (map snd (firstn i (s_scan_all ulower (S (length (fold_cr s))) (fold_cr s)))))).
Proof. exact lexer_positions. Qed.
Print Assumptions C05_positions.

(* the initial state is related to the folded text; non-vacuity of the hypotheses above *)
Example C05_start : forall s, at_ (fold_cr s) (new_reader s) (strip (fold_cr s)) /\ r_n (new_reader s) <= 2.
Proof. intros s. split; [apply at_new|cbn; lia]. Qed.
(* and the position function on a two-line text: the rune after CR LF is at line 1, column 0 *)
Example C05_lc : lc (fold_cr [97; 13; 10; 98]) 2 = mkPos 1 0.
Proof. reflexivity. Qed.

(* every rune of a NUL-free text, of any length, is delivered exactly once, in order, CR/CRLF folded,
   and recorded at its zero-based line and column *)
Theorem C05_reader_positions : forall s,
  ReaderProofs.nul_free s = true ->
  fst (read_many (length (fold_cr s)) (new_reader s)) = with_pos pos0 (fold_cr s).
Proof. exact reader_positions. Qed.
Print Assumptions C05_reader_positions.

(* a pushed-back rune is replayed with its recorded position and leaves the reader as it was *)
Theorem C05_unread_replays : forall r, wf r ->
  exists r', read (unread r) = (curr r, r') /\ wf r' /\
    r_src r' = r_src r /\ r_eof r' = r_eof r /\ r_pos r' = r_pos r /\ curr r' = curr r /\
    r_i r' = r_i r /\ r_b0 r' = r_b0 r /\ r_b1 r' = r_b1 r /\ r_b2 r' = r_b2 r.
Proof. exact read_unread. Qed.
Print Assumptions C05_unread_replays.

(* termination within |text|+1 tokens, no ring overrun, tiling of the folded text and first-character
   positions (STRING-like tokens and EOF excepted: findings C05-string-pos, C05-eof-col), for EVERY text
   of length <= 3 over the 43-rune class-representative alphabet — a finite statement *)
Theorem C05_tiling_positions_upto3 : all_upto 3 [] c05_ok = true.
Proof. exact c05_upto3. Qed.
Print Assumptions C05_tiling_positions_upto3.

(* the full statement "every token carries the position of its first character" is false of the code as it is *)
Definition first_tok_pos (s : text) (k : nat) : option (token * pos) :=
  match nth_error (fst (scan_all id_lower (S (length s)) (new_reader s) [])) k with
  | Some (t, p, _) => Some (t, p) | None => None end.

Theorem C05_pos_string_refuted :   (*  x 'a'  : the STRING starts at column 2 and reports column 1 *)
  first_tok_pos (ts "x 'a'") 2 = Some (STRING, mkPos 0 1).
Proof. vm_compute. reflexivity. Qed.
Print Assumptions C05_pos_string_refuted.

Theorem C05_pos_eof_refuted :      (*  x  : EOF is at column 1 and reports column 2 *)
  first_tok_pos (ts "x") 1 = Some (EOF, mkPos 0 2).
Proof. vm_compute. reflexivity. Qed.
Print Assumptions C05_pos_eof_refuted.

(* non-vacuity: a two-line text with CRLF *)
Example C05_example :
  fst (read_many 4 (new_reader [97; 13; 10; 98; 99])) = [(97, mkPos 0 0); (10, mkPos 0 1); (98, mkPos 1 0); (99, mkPos 1 1)].
Proof. vm_compute. reflexivity. Qed.
