(* C13  Every operation on a parsed statement is total.
   In the model every Go panic site on these paths is either absent because the operation is written as a total
   function over the whole AST type (printing, cloning, privileges, folding, evaluation, condition splitting — they
   accept ANY tree, in particular the odd ones the parser lets through), or is an explicit [Crash] outcome
   (slice indexing in GroupByInterval / GroupByOffset / Dimensions.Normalize, the suffix search of ColumnNames)
   that is proved unreachable below.  Whether the Go code really behaves like these total models on odd statements
   is what the check compares: every operation under recover on statements a later validation stage would reject
   (harness/c13.go).  Six panics found this way were repaired (known_findings.txt). *)
From InfluxQL Require Import Base.Prelude Lex.Token Ast.Ast Ast.GroupBy Ast.ColumnNames
  Proofs.GroupByProofs Proofs.ColumnNamesProofs.
From InfluxQL Require Import Base.Oracles Sem.RewriteFields Proofs.RewriteFieldsTotal.

Theorem C13_group_by_interval : forall q s, Ast.GroupBy.group_by_interval q <> Crash s.
Proof. exact group_by_interval_total. Qed.
Print Assumptions C13_group_by_interval.

Theorem C13_group_by_offset : forall q s, group_by_offset q <> Crash s.
Proof. exact group_by_offset_total. Qed.
Print Assumptions C13_group_by_offset.

Theorem C13_normalize : forall ds s, normalize ds <> Crash s.
Proof. intros ds s. apply normalize_total. Qed.
Print Assumptions C13_normalize.

Theorem C13_column_names : forall q, exists names, column_names q = Ok names.
Proof.
  intros q. unfold column_names. destruct (gen_pass_ok (column_fields q) (alias_pass (column_fields q))) as [out E].
  unfold field_columns. rewrite E. cbn. eexists; reflexivity.
Qed.
Print Assumptions C13_column_names.

(* non-vacuity: the witnesses of the repaired defects, evaluated on the model *)
Local Open Scope string_scope.
Example C13_example :
  let sel fs ds := mkSelect fs None ds [] None [] 0 0 0 0 false NullFill FVNone None [] false false [] false in
  column_names (sel [mkField (Call (ts "top") []) []] []) = Ok [ts "time"; ts "top"] /\
  group_by_offset (sel [] [Call (ts "time") [DurationLit 0; DurationLit 1000000000]]) = Ok 0 /\
  normalize [Call (ts "time") []; Call (ts "time") [VarRef (ts "x") DUnknown]; VarRef (ts "h") DUnknown] = Ok (0, [ts "h"]).
Proof. vm_compute. repeat split. Qed.

(* RewriteFields returns a statement or an error for every statement, every FieldMapper and every regexp oracle: no
   crash site and no fuel (the recursion is structural in the nested sources) *)
Theorem C13_rewrite_fields : forall orc mt fd q, settled (rewrite_fields orc mt fd q).
Proof. exact rewrite_fields_total. Qed.
Print Assumptions C13_rewrite_fields.
