(* C14  Clones are faithful and independent; derived operations leave the receiver alone.
   The model computes SelectStatement.Clone / CloneExpr over ASTs whose heap objects carry their addresses, in an
   allocator monad ( &T{...} and make() take a fresh address, copying a pointer or slice header keeps the old one ).
   "Derived operations leave the receiver alone" is a statement about Go mutation that a pure model cannot
   violate; it is evaluated on the implementation by snapshots before and after each operation (harness/c14.go). *)
From InfluxQL Require Import Base.Prelude Lex.Token Ast.Ast Ast.Clone Proofs.CloneProofs.

(* structurally identical, and every mutable location of the clone was allocated by the call *)
Theorem C14_faithful_and_fresh : forall q n,
  let '(q', n') := clone_lselect q n in
  erase_lselect q' = erase_lselect q /\ n <= n' /\ within n n' (locs_lselect q').
Proof. exact clone_lselect_spec. Qed.
Print Assumptions C14_faithful_and_fresh.

Theorem C14_expr_faithful_and_fresh : forall e n,
  let '(e', n') := clone_lexpr e n in
  erase_lexpr e' = erase_lexpr e /\ n <= n' /\ within n n' (locs_lexpr e') /\ rx_lexpr e' = rx_lexpr e.
Proof. exact clone_lexpr_spec. Qed.
Print Assumptions C14_expr_faithful_and_fresh.

(* clone and original share no mutable node or slice *)
Theorem C14_disjoint : forall q n, below n (locs_lselect q) ->
  forall l, In l (locs_lselect (fst (clone_lselect q n))) -> ~ In l (locs_lselect q).
Proof. exact clone_lselect_disjoint. Qed.
Print Assumptions C14_disjoint.

Theorem C14_expr_disjoint : forall e n, below n (locs_lexpr e) ->
  forall l, In l (locs_lexpr (fst (clone_lexpr e n))) -> ~ In l (locs_lexpr e).
Proof. exact clone_lexpr_disjoint. Qed.
Print Assumptions C14_expr_disjoint.

(* hence: ANY finite sequence of writes to locations outside an object graph — everything reachable from the other
   side, and anything allocated later — leaves that graph exactly as it was *)
Theorem C14_independent : forall o ws m,
  (forall w, In w ws -> ~ In (fst w) (obj_locs o)) -> holds_obj m o -> holds_obj (apply_writes m ws) o.
Proof. exact writes_elsewhere_invisible. Qed.
Print Assumptions C14_independent.

(* non-vacuity: a statement with a target, a regex source, a call and a subquery *)
Local Open Scope string_scope.
Example C14_example :
  let v := fun s : string => VarRef (ts s) DUnknown in
  let sel fs tgt ss c := mkSelect fs tgt [] ss c [] 0 0 0 0 false NullFill FVNone None [] false false [] false in
  let inner := sel [mkField (v "b") []] None [SMeasurement (mkMeasurement [] [] [] (Some (ts "re")) false [])] None in
  let q := sel [mkField (Call (ts "mean") [v "a"]) (ts "m")] (Some (mkMeasurement (ts "db") [] (ts "t") None true []))
             [SSubQuery inner] (Some (BinaryExpr EQREGEX (v "h") (RegexLit (ts "x")))) in
  let '(orig, n) := annot_select q 0 in
  let '(cl, _) := clone_lselect orig n in
  erase_lselect cl = q /\ forallb (fun l => negb (existsb (Z.eqb l) (locs_lselect orig))) (locs_lselect cl) = true
  /\ length (locs_lselect cl) = length (locs_lselect orig).
Proof. vm_compute. repeat split. Qed.
