(* C07  Bound parameters are substituted as single tokens, never re-lexed.
   Proved for all values / all states: the binding is one typed token; string, identifier and regex
   values are bound verbatim (their content is never inspected); a placeholder is answered with exactly
   the bound (kind, literal) pair, an unbound or empty-named one stays a BOUNDPARAM token; and the lexer
   state after ANY scan, unscan or peek is independent of the parameter values — a value never reaches
   the lexer.  PARTIAL: "equals the inlined text" and "no string changes the structure" are evaluated on
   the implementation over templates x values (harness/c07.go), with the model parser compared on the
   same cases; they are not proved for every template. *)
From InfluxQL Require Import Base.Prelude Base.Oracles Lex.Token Lex.Reader Lex.Scanner Parse.Instr Parse.Params Proofs.ParamsProofs.

Theorem C07_single_typed_token : forall orc v, In (fst (bind_value orc v)) param_token_kinds.
Proof. exact bind_value_kind. Qed.
Print Assumptions C07_single_typed_token.

Theorem C07_string_verbatim : forall orc s,
  bind_value orc (GString s) = (STRING, s) /\
  bind_value orc (GObj [(ts "string", GString s)]) = (STRING, s) /\
  bind_value orc (GObj [(ts "ident", GString s)]) = (IDENT, s) /\
  bind_value orc (GObj [(ts "regex", GString s)]) = (REGEX, s).
Proof. intros; repeat split. Qed.
Print Assumptions C07_string_verbatim.

Theorem C07_placeholder_carries_bound_value : forall params lit t v,
  param_name lit <> [] -> assoc_text (param_name lit) params = Some (t, v) -> substitute params BOUNDPARAM lit = (t, v).
Proof. exact substitute_bound. Qed.
Print Assumptions C07_placeholder_carries_bound_value.

Theorem C07_unbound_stays_placeholder : forall params lit,
  param_name lit = [] \/ assoc_text (param_name lit) params = None -> substitute params BOUNDPARAM lit = (BOUNDPARAM, lit).
Proof. exact substitute_unbound. Qed.
Print Assumptions C07_unbound_stays_placeholder.

Theorem C07_other_tokens_untouched : forall params tok lit, tok <> BOUNDPARAM -> substitute params tok lit = (tok, lit).
Proof. exact substitute_other. Qed.
Print Assumptions C07_other_tokens_untouched.

(* never re-lexed: whatever is bound, every instruction leaves the same lexer state behind *)
Theorem C07_values_never_reach_the_lexer : forall ulower s p,
  (forall rx, snd (buf_scan ulower rx (set_params s p)) = set_params (snd (buf_scan ulower rx s)) p) /\
  do_unscan (set_params s p) = set_params (do_unscan s) p /\
  do_peek (set_params s p) = (fst (do_peek s), set_params (snd (do_peek s)) p).
Proof. intros; repeat split; [intros; apply buf_scan_params|apply peek_params]. Qed.
Print Assumptions C07_values_never_reach_the_lexer.

Theorem C07_scan_answers_substituted_token : forall ulower rx s,
  exists tok lit ser, fst (buf_scan ulower rx s) = (fst (substitute (ps_params s) tok lit), snd (substitute (ps_params s) tok lit), ser).
Proof. exact buf_scan_answer. Qed.
Print Assumptions C07_scan_answers_substituted_token.

(* non-vacuity *)
Example C07_example : substitute [(ts "p", (STRING, ts "'; DROP"))] BOUNDPARAM (ts "$p") = (STRING, ts "'; DROP").
Proof. reflexivity. Qed.
