(* C20  Result column names are complete, stable and unambiguous. *)
From InfluxQL Require Import Base.Prelude Lex.Token Ast.Ast Ast.ColumnNames Proofs.ColumnNamesProofs.

(* whenever the explicit aliases are pairwise distinct, all field column names are pairwise distinct *)
Theorem C20_nodup : forall q out,
  NoDup (aliases (s_fields q)) -> field_columns q = Ok out -> NoDup out.
Proof. exact field_columns_nodup. Qed.
Print Assumptions C20_nodup.

(* ColumnNames always returns (the suffix search ends within |names|+1 steps; after fix bdafb1d no slice can fault) *)
Theorem C20_total : forall q, exists out, field_columns q = Ok out.
Proof. intros q. unfold field_columns. apply gen_pass_ok. Qed.
Print Assumptions C20_total.

Theorem C20_suffix_search_terminates : forall m name c, resolve (S (length m)) m name c <> None.
Proof. exact resolve_terminates. Qed.
Print Assumptions C20_suffix_search_terminates.

(* one name per output column, in order: the fields, each top()/bottom() call followed by its tag arguments;
   the time column (or its alias) first unless omitted *)
Theorem C20_shape : forall q out,
  column_names q = Ok out ->
  length out = ((if s_omittime q then 0 else 1) + length (column_fields q))%nat /\
  (s_omittime q = false -> hd_error out = Some (time_field_name q)).
Proof.
  intros q out H. unfold column_names in H. destruct (field_columns q) as [cols| | |] eqn:E; try discriminate.
  cbn in H. inversion H; subst out. pose proof (gen_pass_length _ _ _ E) as Hl.
  destruct (s_omittime q); cbn; split; try lia; try discriminate; reflexivity.
Qed.
Print Assumptions C20_shape.

(* explicit aliases appear verbatim at their positions *)
Theorem C20_alias_verbatim : forall q out i c,
  field_columns q = Ok out -> nth_error (column_fields q) i = Some c -> f_alias c <> [] ->
  nth_error out i = Some (f_alias c).
Proof. intros q out i c H. unfold field_columns in H. eapply gen_pass_alias; eassumption. Qed.
Print Assumptions C20_alias_verbatim.

(* non-vacuity: the interacting cases — an alias equal to a generated suffix, a name repeated after its suffixed form was taken *)
Local Open Scope string_scope.
Example C20_example :
  let v := fun s : string => VarRef (ts s) DUnknown in
  let q := mkSelect [mkField (v "a") []; mkField (v "b") (ts "a_1"); mkField (v "a") []; mkField (v "a") []; mkField (v "a_1") []]
             None [] [] None [] 0 0 0 0 true NullFill FVNone None [] false false [] false in
  column_names q = Ok [ts "time"; ts "a"; ts "a_1"; ts "a_2"; ts "a_3"; ts "a_1_1"].
Proof. vm_compute. reflexivity. Qed.
