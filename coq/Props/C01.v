(* C01  The parser accepts the documented grammar and builds the AST the text denotes.
   What is proved for all inputs here is (a) the keyword table: any letter-case spelling of a keyword
   is that keyword, (b) that parser programs compose (run distributes over bind) and (c) the relational
   theorem that carries every "two spellings, same AST" argument through EVERY parser function at once.
   The statement-by-statement reading  parse (render spelling ast) = ast  is PARTIAL: it is not proved
   here for the whole grammar; it is evaluated on the implementation for every statement kind with the
   generator's independently written ASTs, and the model parser (all of parser.go and parse_tree.go,
   transliterated) is compared with the implementation on the same texts (harness/c01.go). *)
From InfluxQL Require Import Base.Prelude Base.Oracles Lex.Token Lex.Reader Lex.Scanner Ast.Ast Parse.Instr
  Parse.ParseExpr Parse.ParseStmts Proofs.ParserProofs.

Theorem C01_keywords_case_insensitive : forall ulower w k,
  In k (keyword_tokens ++ [AND; OR]) -> to_lower ulower w = ascii_lower (tok_string k) -> lookup ulower w = k.
Proof. exact lookup_keyword. Qed.
Print Assumptions C01_keywords_case_insensitive.

Theorem C01_non_keyword_is_identifier : forall ulower w,
  assoc_text (to_lower ulower w) keywords = None -> lookup ulower w = IDENT.
Proof. exact lookup_ident. Qed.
Print Assumptions C01_non_keyword_is_identifier.

Theorem C01_programs_compose : forall ulower A B (p : prog A) (f : A -> prog B) s,
  run ulower (bind p f) s =
  match run ulower p s with
  | Ok (a, s') => run ulower (f a) s' | Err e => Err e | Crash c => Crash c | OutOfFuel => OutOfFuel
  end.
Proof. intros; apply run_bind. Qed.
Print Assumptions C01_programs_compose.

(* the AST a program returns depends on its input only through the answers of Scan, ScanRegex, Unscan
   and peekRune: states related by any relation those four preserve give equal ASTs — for every parser
   function, every statement kind, every fuel *)
Theorem C01_ast_depends_on_instruction_answers_only :
  forall ulower (R : pstate -> pstate -> Prop),
  (forall rx s1 s2, R s1 s2 ->
      fst (buf_scan ulower rx s1) = fst (buf_scan ulower rx s2) /\
      state_bad (snd (buf_scan ulower rx s1)) = state_bad (snd (buf_scan ulower rx s2)) /\
      state_oof (snd (buf_scan ulower rx s1)) = state_oof (snd (buf_scan ulower rx s2)) /\
      R (snd (buf_scan ulower rx s1)) (snd (buf_scan ulower rx s2))) ->
  (forall s1 s2, R s1 s2 -> R (do_unscan s1) (do_unscan s2)) ->
  (forall s1 s2, R s1 s2 ->
      fst (do_peek s1) = fst (do_peek s2) /\
      state_bad (snd (do_peek s1)) = state_bad (snd (do_peek s2)) /\
      R (snd (do_peek s1)) (snd (do_peek s2))) ->
  forall orc fuel s1 s2, R s1 s2 ->
    rel_res R (run ulower (parse_statement orc fuel) s1) (run ulower (parse_statement orc fuel) s2).
Proof. intros ulower R H1 H2 H3 orc fuel s1 s2 HR. apply (run_rel ulower R H1 H2 H3); exact HR. Qed.
Print Assumptions C01_ast_depends_on_instruction_answers_only.

(* non-vacuity / sanity: the model parser on concrete texts, evaluated by the kernel *)
Definition parse_text (s : string) : res stmt :=
  let t := ts s in
  match run (fun c => c) (parse_statement default_oracles (4 * length t + 16)) (new_pstate t []) with
  | Ok (st, _) => Ok st | Err e => Err e | Crash c => Crash c | OutOfFuel => OutOfFuel
  end.
Local Open Scope string_scope.
Example C01_example_drop : parse_text "dRoP   dataBASE ""my db""" = Ok (DropDatabase (ts "my db")).
Proof. vm_compute. reflexivity. Qed.
Example C01_example_select :
  parse_text "select mean(v) from db..m where host = 'a' group by time(10s) limit 3 soffset 4"
  = Ok (Select (mkSelect [mkField (Call (ts "mean") [VarRef (ts "v") DUnknown]) []] None
                  [Call (ts "time") [DurationLit 10000000000]]
                  [SMeasurement (mkMeasurement (ts "db") [] (ts "m") None false [])]
                  (Some (BinaryExpr EQ (VarRef (ts "host") DUnknown) (StringLit (ts "a")))) [] 3 0 0 4 false
                  NullFill FVNone None [] false false [] false)).
Proof. vm_compute. reflexivity. Qed.
