(* C10  Splitting a WHERE clause into time range and residual preserves its meaning. *)
From InfluxQL Require Import Base.Prelude Base.Oracles Lex.Token Ast.Ast Sem.Eval Sem.Reduce Sem.Condition
  Proofs.ReduceProofs Proofs.ConditionProofs.

(* For every condition built from time comparisons (time on either side of = < <= > >= against integer nanoseconds,
   durations, RFC3339/date strings, now(), and now() or a string plus/minus a duration — [tform]; a FLOAT bound, which
   is not among the bound forms the property lists, is in [tform] with the reading the code gives it - its
   truncation toward zero by the conversion oracle, so `time < 1.5` MEANS `time < 1` here, although the evaluator
   compares numerically; for fractional floats the theorem is therefore about the code's reading, not about Eval), typed
   non-time predicates and boolean literals, joined by AND and parentheses and by OR among conditions without time
   comparisons ([means c pure b]: c holds at the point iff b): whenever ConditionExpr succeeds, at EVERY point
   (timestamp, tag/field values of the declared kinds) the condition holds exactly when the timestamp lies in the
   inclusive range and the residual holds; a missing residual means true. *)
Theorem C10_split : forall orc G now, G (ts "now()") = None ->
  forall tstamp env0, env_ok orc G env0 ->
  forall c pure b resid tr,
    means orc G now tstamp env0 c pure b ->
    ConditionExpr orc (nowv now) c = Some (resid, tr) ->
    b = in_range tr tstamp && resid_holds orc env0 resid.
Proof. intros orc G now Hn tstamp env0 He c p b resid tr. exact (ConditionExpr_sound orc G now Hn tstamp env0 He c p b resid tr). Qed.
Print Assumptions C10_split.

(* the residual is itself a typed boolean expression; a condition without time comparisons has the unbounded range *)
Theorem C10_residual_typed : forall orc G now, G (ts "now()") = None ->
  forall tstamp env0, env_ok orc G env0 ->
  forall c pure b resid tr,
    means orc G now tstamp env0 c pure b -> condition_expr orc (nowv now) c = Some (resid, tr) ->
    resid_typed orc G resid /\ (pure = true -> tr = range0 /\ resid <> None).
Proof.
  intros orc G now Hn tstamp env0 He c p b resid tr Hm Hc.
  destruct (split_sound orc G now Hn tstamp env0 He c p b Hm resid tr Hc) as [A [B _]]. split; assumption.
Qed.
Print Assumptions C10_residual_typed.

(* strict bounds move by exactly one nanosecond; = gives the one-point range *)
Theorem C10_bounds : forall orc now op e x, cmp_op op = true -> tform orc now e x ->
  get_time_range orc (nowv now) op e = Some (range_of op x) /\
  forall t, in_range (range_of op x) t = cmp op t x.
Proof. intros orc now op e x Hop Hf. split; [exact (gtr_spec orc now op e x Hop Hf)|intros t; exact (in_range_of op x t Hop)]. Qed.
Print Assumptions C10_bounds.

(* several bounds intersect: a point is in the intersection iff it is in both *)
Theorem C10_intersect : forall a b t, in_range (intersect a b) t = in_range a t && in_range b t.
Proof. exact in_range_intersect. Qed.
Print Assumptions C10_intersect.

(* non-vacuity: two bounds in both directions, a tag predicate, parentheses; evaluated by the kernel *)
Local Open Scope string_scope.
Example C10_example :
  let tm := VarRef (ts "time") DUnknown in
  let c := BinaryExpr AND (BinaryExpr AND (BinaryExpr GT tm (IntegerLit 10)) (BinaryExpr GTE (IntegerLit 20) tm))
                          (ParenExpr (BinaryExpr EQ (VarRef (ts "host") DUnknown) (StringLit (ts "a")))) in
  ConditionExpr default_oracles (nowv 0) c
  = Some (Some (BinaryExpr EQ (VarRef (ts "host") DUnknown) (StringLit (ts "a"))), mkRange (Some 11) (Some 20)).
Proof. vm_compute. reflexivity. Qed.
