(* C15  Passwords never appear in printed statements or sanitized query text. *)
From InfluxQL Require Import Base.Prelude Base.Oracles Lex.Token Lex.Scanner Lex.Quote Ast.Ast Ast.Printer Ast.PrinterStmts
  San.Sanitize Proofs.SanitizeProofs.

(* printing: the text does not depend on the password at all, so no fragment of it can appear *)
Theorem C15_print_ni : forall orc n pw1 pw2 a u,
  print_stmt orc (CreateUser n pw1 a) = print_stmt orc (CreateUser n pw2 a) /\
  print_stmt orc (SetPasswordUser pw1 u) = print_stmt orc (SetPasswordUser pw2 u).
Proof. intros; split; reflexivity. Qed.
Print Assumptions C15_print_ni.

(* whatever a password contains, its QuoteString literal is consumed exactly to its closing quote by the
   patterns' literal recogniser: the redaction can neither stop inside the password nor run past it *)
Theorem C15_literal_covers_password : forall pw rest, lit_rest (quote_string pw ++ rest) = Some rest.
Proof. exact lit_rest_quote. Qed.
Print Assumptions C15_literal_covers_password.

(* [sanitize] is the whole function: ONE pass over the text with the one pattern (both clause heads).
   CREATE USER ... WITH PASSWORD: any letter case, any whitespace between the keywords (none needed before the
   literal), any password - clause keywords and quotes inside it included - after any text free of the letters w
   and p: exactly the literal is replaced, and the rest of the text is sanitized on its own *)
Theorem C15_sanitize_create : forall pre w ws1 p ws0 pw post,
  Forall plain pre ->
  spells (ts "with") w -> w <> [] -> all_space ws1 -> ws1 <> [] -> spells (ts "password") p -> p <> [] -> starts_nonspace p -> all_space ws0 ->
  sanitize (pre ++ (w ++ ws1 ++ p ++ ws0) ++ quote_string pw ++ post)
  = pre ++ (w ++ ws1 ++ p ++ ws0) ++ redacted ++ sanitize post.
Proof. exact sanitize_create. Qed.
Print Assumptions C15_sanitize_create.

(* SET PASSWORD FOR name = : any spelling nm of the user name that the name recogniser consumes whole in front of a
   blank or '=' ([name_spelling]: a quoted identifier with any content - C15_quoted_name_spelling - or a bare part
   directly followed by a quoted one, which the scanner also accepts - C15_parts_name_spelling), any layout around FOR
   and '=', any password *)
Theorem C15_sanitize_set : forall pre p ws1 f ws2 nm ws3 ws4 pw post,
  Forall plain pre ->
  spells (ts "password") p -> p <> [] -> all_space ws1 -> ws1 <> [] -> spells (ts "for") f -> f <> [] -> starts_nonspace f ->
  all_space ws2 -> ws2 <> [] -> name_spelling nm -> nm <> [] -> starts_nonspace nm -> all_space ws3 -> all_space ws4 ->
  sanitize (pre ++ (p ++ ws1 ++ f ++ ws2 ++ nm ++ ws3 ++ 61 :: ws4) ++ quote_string pw ++ post)
  = pre ++ (p ++ ws1 ++ f ++ ws2 ++ nm ++ ws3 ++ 61 :: ws4) ++ redacted ++ sanitize post.
Proof. exact sanitize_set. Qed.
Print Assumptions C15_sanitize_set.

Theorem C15_quoted_name_spelling : forall u, name_spelling (quoted_name u) /\ quoted_name u <> [] /\ starts_nonspace (quoted_name u).
Proof. intros u. split; [apply quoted_name_spelling|]. split; [discriminate|reflexivity]. Qed.
Print Assumptions C15_quoted_name_spelling.

Theorem C15_parts_name_spelling : forall w u, name_text w -> w <> [] -> name_spelling (w ++ quoted_name u).
Proof. exact parts_name_spelling. Qed.
Print Assumptions C15_parts_name_spelling.

(* non-interference: the sanitized text is the same for any two passwords *)
Theorem C15_sanitize_ni : forall pre w ws1 p ws0 pw1 pw2 post,
  Forall plain pre ->
  spells (ts "with") w -> w <> [] -> all_space ws1 -> ws1 <> [] -> spells (ts "password") p -> p <> [] -> starts_nonspace p -> all_space ws0 ->
  sanitize (pre ++ (w ++ ws1 ++ p ++ ws0) ++ quote_string pw1 ++ post)
  = sanitize (pre ++ (w ++ ws1 ++ p ++ ws0) ++ quote_string pw2 ++ post).
Proof. exact sanitize_ni_create. Qed.
Print Assumptions C15_sanitize_ni.

Theorem C15_sanitize_ni_set : forall pre p ws1 f ws2 nm ws3 ws4 pw1 pw2 post,
  Forall plain pre ->
  spells (ts "password") p -> p <> [] -> all_space ws1 -> ws1 <> [] -> spells (ts "for") f -> f <> [] -> starts_nonspace f ->
  all_space ws2 -> ws2 <> [] -> name_spelling nm -> nm <> [] -> starts_nonspace nm -> all_space ws3 -> all_space ws4 ->
  sanitize (pre ++ (p ++ ws1 ++ f ++ ws2 ++ nm ++ ws3 ++ 61 :: ws4) ++ quote_string pw1 ++ post)
  = sanitize (pre ++ (p ++ ws1 ++ f ++ ws2 ++ nm ++ ws3 ++ 61 :: ws4) ++ quote_string pw2 ++ post).
Proof. exact sanitize_ni_set. Qed.
Print Assumptions C15_sanitize_ni_set.

(* text in which the pattern matches nowhere is returned unchanged *)
Theorem C15_identity : forall t, quiet match_any t [] -> sanitize t = t.
Proof. exact sanitize_identity. Qed.
Print Assumptions C15_identity.

(* the findings, evaluated by the kernel *)
Local Open Scope string_scope.
Theorem C15_refuted_comment_in_clause :
  sanitize (ts "CREATE USER u WITH /* c */ PASSWORD 'pw'") = ts "CREATE USER u WITH /* c */ PASSWORD 'pw'".
Proof. vm_compute. reflexivity. Qed.
Print Assumptions C15_refuted_comment_in_clause.

(* the defect repaired by fix 8cadbb0: a user name written as a bare part and a quoted part *)
Example C15_name_in_parts :
  sanitize (ts "SET PASSWORD FOR abc""u"" = 'pw'") = ts "SET PASSWORD FOR abc""u"" = [REDACTED]".
Proof. vm_compute. reflexivity. Qed.

(* the defect repaired by the one-pass pattern: a CREATE USER password that spells a SET PASSWORD clause *)
Example C15_clause_inside_password :
  sanitize (ts "CREATE USER x WITH PASSWORD 'a password for x = \'b'") = ts "CREATE USER x WITH PASSWORD [REDACTED]".
Proof. vm_compute. reflexivity. Qed.

(* non-vacuity: two statements in one text, mixed case, newlines, a password with blanks, both quotes and '=' *)
Example C15_example :
  sanitize (ts "create user ""x=y"" WiTh   PASSWORD'a b\'c""d=e'; set password for ""u"" ='p q'")
  = ts "create user ""x=y"" WiTh   PASSWORD[REDACTED]; set password for ""u"" =[REDACTED]".
Proof. vm_compute. reflexivity. Qed.
