(* C04  Parsing is total: an AST or an error, never a crash or hang.
   In the model every Go panic site is an explicit outcome ([Crash]: the "unexpected literal" panic after a
   sign, a negative ring index), and running out of the shared fuel is another ([OutOfFuel]); the harness
   compares outcome classes, error positions and maximum pushback depths with the implementation on
   mutated, random and deeply nested inputs x all parameter kinds (harness/c04.go).  Proved here: the
   lexer statements below.  PARTIAL: crash-freedom and fuel adequacy of the whole parser are not yet
   theorems; goroutine stack exhaustion (~10^6 nested parentheses) is outside any Gallina model. *)
From InfluxQL Require Import Base.Prelude Lex.Token Lex.Reader Lex.Scanner Proofs.ReaderProofs Proofs.LexBounded.

(* one pushed-back rune is replayed from the ring as recorded: no stale slot, no index fault *)
Theorem C04_unread_is_safe : forall r, wf r ->
  exists r', read (unread r) = (curr r, r') /\ wf r'.
Proof. intros r H. destruct (read_unread r H) as [r' [H1 [H2 _]]]. exists r'. split; assumption. Qed.
Print Assumptions C04_unread_is_safe.

(* reading from the source never faults and keeps the ring index in range *)
Theorem C04_read_is_safe : forall r, wf r -> wf (snd (read r)).
Proof.
  intros r H. pose proof (read_src r H) as Hr. destruct (raw_read (r_src r)) as [ch src'].
  destruct Hr as [r' [E [Hwf _]]]. rewrite E. exact Hwf.
Qed.
Print Assumptions C04_read_is_safe.

(* on every text of length <= 3 over the 43-rune class-representative alphabet (NUL and invalid-UTF-8 images
   included) Scan reaches EOF within |text|+1 tokens, never pushes back more than the 3-slot ring holds and
   never runs a loop out of fuel — a finite statement *)
Theorem C04_lexer_total_upto3 : all_upto 3 [] c05_ok = true.
Proof. exact c05_upto3. Qed.
Print Assumptions C04_lexer_total_upto3.
