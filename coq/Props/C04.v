(* C04  Parsing is total: an AST or an error, never a crash or hang.
   In the model every Go panic site is an explicit outcome ([Crash]: the "unexpected literal" panic after a sign, a
   negative index into the 3-slot token ring or the 3-slot rune ring), and running out of the shared fuel is another
   ([OutOfFuel]).  Proved here for EVERY text, every parameter binding and every fuel: ParseQuery, ParseStatement and
   ParseExpr never crash - by a weakest-precondition logic over the parser's instruction programs (at most one token is
   pushed back at any function boundary, at most three inside; after a sign the operand parser returns a literal,
   reference, call or parenthesis, so the panic site is unreachable) and a bound on the lexer's pushed-back runes
   (at most two between tokens, at most three inside).  The harness compares outcome classes, error positions and
   maximum pushback depths with the implementation on mutated, random and deeply nested inputs x all parameter kinds.
   PARTIAL in one respect: that the fuel the entry points supply always suffices (no hang) is compared, not proved;
   goroutine stack exhaustion (~10^6 nested parentheses) is outside any Gallina model. *)
From InfluxQL Require Import Base.Prelude Base.Oracles Lex.Token Lex.Reader Lex.Scanner Parse.Instr Parse.ParseExpr Parse.ParseStmts
  Proofs.ReaderProofs Proofs.LexBounded Proofs.LexerSafety Proofs.LexerFuel Proofs.ParserSafety Proofs.ParserSafetyStmts.

(* never a crash: no panic site is reached and neither ring is ever indexed out of range *)
Theorem C04_never_crashes : forall (orc : oracles) text params fuel,
  not_crash (run (o_ulower orc) (parse_query orc fuel) (new_pstate text params)) /\
  not_crash (run (o_ulower orc) (parse_statement orc fuel) (new_pstate text params)) /\
  not_crash (run (o_ulower orc) (parse_expr orc fuel) (new_pstate text params)).
Proof. exact parser_never_crashes. Qed.
Print Assumptions C04_never_crashes.

(* the lexer: between tokens at most two runes are pushed back, and Scan, ScanRegex and peekRune keep it so without
   ever faulting the rune ring *)
Theorem C04_lexer_keeps_ring : forall ulower r, rb 2 r ->
  rb 2 (snd (scan ulower r)) /\ rb 2 (snd (scan_regex r)) /\
  (let '((ch, _), r') := read r in let r'' := if ch =? 0 then r' else unread r' in rb 2 r'' /\ r_bad r'' = false).
Proof. intros ulower r H. split; [apply rb_scan; exact H|]. split; [apply rb_scan_regex; exact H|apply rb_peek; exact H]. Qed.
Print Assumptions C04_lexer_keeps_ring.

(* the lexer never hangs: on every reader state that can arise between tokens, Scan and ScanRegex finish all their loops
   within the fuel they compute for themselves (remaining runes + 4) - no loop ever runs out of it *)
Theorem C04_lexer_never_out_of_fuel : forall ulower r, rb 2 r -> r_oof r = false ->
  r_oof (snd (scan ulower r)) = false /\ r_oof (snd (scan_regex r)) = false.
Proof. intros ulower r H Hn. split; [apply nf_scan; assumption|apply nf_scan_regex; assumption]. Qed.
Print Assumptions C04_lexer_never_out_of_fuel.

(* every parser function, in the logic: entered with at most one token pushed back it leaves at most one pushed back *)
Theorem C04_parse_query_invariant : forall orc fuel s, le_n 1 s -> wp s (parse_query orc fuel) (fun _ s' => le_n 1 s').
Proof. exact ok_parse_query. Qed.
Print Assumptions C04_parse_query_invariant.

(* one pushed-back rune is replayed from the ring as recorded: no stale slot, no index fault *)
Theorem C04_unread_is_safe : forall r, wf r ->
  exists r', read (unread r) = (curr r, r') /\ wf r'.
Proof. intros r H. destruct (read_unread r H) as [r' [H1 [H2 _]]]. exists r'. split; assumption. Qed.
Print Assumptions C04_unread_is_safe.

(* reading from the source never faults and keeps the ring index in range *)
Theorem C04_read_is_safe : forall r, wf r -> wf (snd (read r)).
Proof.
  intros r H. pose proof (read_src r H) as Hr. destruct (raw_read (r_src r)) as [ch src'].
  destruct Hr as [r' [E [Hwf _]]]. rewrite E. exact Hwf.
Qed.
Print Assumptions C04_read_is_safe.

(* on every text of length <= 3 over the 43-rune class-representative alphabet (NUL and invalid-UTF-8 images
   included) Scan reaches EOF within |text|+1 tokens, never pushes back more than the 3-slot ring holds and
   never runs a loop out of fuel — a finite statement *)
Theorem C04_lexer_total_upto3 : all_upto 3 [] c05_ok = true.
Proof. exact c05_upto3. Qed.
Print Assumptions C04_lexer_total_upto3.
