(* C09  Constant folding never changes the value of an expression. *)
From InfluxQL Require Import Base.Prelude Base.Oracles Lex.Token Ast.Ast Sem.Eval Sem.Reduce Proofs.ReduceProofs Proofs.SetTimeRangeProofs.

(* For every expression that is well-typed in the property's discipline (typeof: boolean operators on booleans;
   arithmetic, bitwise and ordering operators on numbers; equality on like kinds; string =~ regex), every assignment
   rho1 ++ rho2 that gives each variable a value of its kind, and every split of it: evaluating Reduce(e, rho1) under
   rho2 yields exactly the value of e under rho1 ++ rho2 (integer division as float division, division and modulo by
   zero as zero: IntegerFloatDivision = true).  Floats are IEEE bit patterns and every float operation is an opaque
   function, the same on both sides.  Strings that the reducer would read as instants are excluded by typeof
   (safe): finding C09-datelike-strings, refuted below. *)
Theorem C09_sound : forall orc G r1 r2 e t,
  env_ok orc G (r1 ++ r2) -> typeof orc G e = Some t ->
  eval orc true r2 (Reduce orc (map_valuer r1) e) = eval orc true (r1 ++ r2) e.
Proof. exact Reduce_sound. Qed.
Print Assumptions C09_sound.

(* folding keeps an expression inside the typed fragment, with the same type *)
Theorem C09_preserves_type : forall orc G r1 r2 e t,
  env_ok orc G (r1 ++ r2) -> typeof orc G e = Some t ->
  typeof orc G (reduce orc (map_valuer r1) e) = Some t.
Proof. intros orc G r1 r2 e t H1 H2. exact (proj2 (reduce_sound orc G r1 r2 H1 e t H2)). Qed.
Print Assumptions C09_preserves_type.

(* the evaluator respects the typing: a boolean expression evaluates to a boolean, and so on *)
Theorem C09_eval_typed : forall orc G ifd m e t,
  env_ok orc G m -> typeof orc G e = Some t -> val_has orc t (eval orc ifd m e).
Proof. intros orc G ifd m e t H1 H2. exact (eval_typed orc G ifd m H1 e t H2). Qed.
Print Assumptions C09_eval_typed.

(* time arithmetic folds to the exact instant, duration or truth value (instants are unbounded integers of nanoseconds) *)
Theorem C09_time : forall orc t t' d,
  reduce_bin orc ADD (TimeLit t) (DurationLit d) = TimeLit (t + d) /\
  reduce_bin orc ADD (DurationLit d) (TimeLit t) = TimeLit (t + d) /\
  reduce_bin orc SUB (TimeLit t) (DurationLit d) = TimeLit (t + wrap64 (- d)) /\
  reduce_bin orc SUB (TimeLit t) (TimeLit t') = DurationLit (sat_dur (t - t')) /\
  reduce_bin orc LT (TimeLit t) (TimeLit t') = BooleanLit (t <? t') /\
  reduce_bin orc LTE (TimeLit t) (TimeLit t') = BooleanLit (t <=? t') /\
  reduce_bin orc GT (TimeLit t) (TimeLit t') = BooleanLit (t' <? t) /\
  reduce_bin orc GTE (TimeLit t) (TimeLit t') = BooleanLit (t' <=? t) /\
  reduce_bin orc EQ (TimeLit t) (TimeLit t') = BooleanLit (t =? t') /\
  reduce_bin orc ADD (IntegerLit t) (DurationLit d) = TimeLit (t + d).
Proof. intros; repeat split. Qed.
Print Assumptions C09_time.

Theorem C09_now : forall orc now, reduce orc (now_valuer now) (Call (ts "now") []) = TimeLit now.
Proof. reflexivity. Qed.
Print Assumptions C09_now.

(* finding C09-datelike-strings: with an oracle that reads both strings as the same instant, Reduce says true and
   evaluation says false *)
Theorem C09_sound_refuted_datelike :
  let a := ts "2000-01-01" in let b := ts "2000-01-01 00:00:00" in
  let orc := set_parse_time default_oracles (fun s => if text_eqb s a || text_eqb s b then Some 946684800000000000 else None) in
  let e := BinaryExpr EQ (StringLit a) (StringLit b) in
  eval orc true [] (Reduce orc (map_valuer []) e) = VBool true /\ eval orc true [] e = VBool false.
Proof. vm_compute. split; reflexivity. Qed.
Print Assumptions C09_sound_refuted_datelike.

(* "division or modulo by zero as zero": every division by zero, and integer and unsigned modulo by zero, are zero in
   the evaluator (and hence, by C09_sound, after folding).  Float modulo is NOT covered: it is math.Mod, which is NaN
   for a zero divisor - known finding C09-float-mod-zero, pinned by TestReduce (2.5 % 0 -> NaN); in the model it is
   the opaque o_fmod, the same function on both sides, so C09_sound is unaffected. *)
Theorem C09_by_zero : forall orc ifd a b,
  eval_ii orc ifd MOD a 0 = VInt 0 /\ eval_uu MOD a 0 = VUint 0 /\ eval_uu DIV a 0 = VUint 0 /\
  eval_ii orc ifd DIV a 0 = (if ifd then VFloat fzero else VInt 0) /\
  (f_is_zero orc b = true -> eval_ff orc DIV a b = VFloat fzero) /\
  eval_ff orc MOD a b = VFloat (o_fmod orc a b).
Proof.
  intros orc ifd a b. split; [reflexivity|]. split; [reflexivity|]. split; [reflexivity|]. split; [destruct ifd; reflexivity|].
  split; [|reflexivity]. intros H. unfold eval_ff. rewrite H. reflexivity.
Qed.
Print Assumptions C09_by_zero.

(* folding is idempotent: Reduce of a reduced expression returns it unchanged - every expression, every valuer *)
Theorem C09_idempotent : forall orc v e, Reduce orc v (Reduce orc v e) = Reduce orc v e.
Proof. exact InfluxQL.Proofs.SetTimeRangeProofs.Reduce_idem. Qed.
Print Assumptions C09_idempotent.

(* non-vacuity: a mixed-kind expression, half of its variables bound at Reduce time *)
Local Open Scope string_scope.
Example C09_example :
  let G := fun k => if text_eqb k (ts "u") || text_eqb k (ts "i") then Some TN else if text_eqb k (ts "b") then Some TB else None in
  let e := BinaryExpr AND (BinaryExpr GT (VarRef (ts "u") DUnknown) (BinaryExpr SUB (VarRef (ts "i") DUnknown) (IntegerLit 2)))
                          (BinaryExpr OR (VarRef (ts "b") DUnknown) (BooleanLit false)) in
  typeof default_oracles G e = Some TB /\
  Reduce default_oracles (map_valuer [(ts "i", VInt 1); (ts "b", VBool true)]) e
    = BinaryExpr GT (VarRef (ts "u") DUnknown) (IntegerLit (-1)).
Proof. vm_compute. split; reflexivity. Qed.
