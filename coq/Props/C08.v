(* C08  Durations are parsed exactly or rejected, and formatting is invertible.
   [exact_total s] is the specification: optional '-', one or more <digits><unit>
   components (ns, u or µ, ms, s, m, h, d, w), summed in unbounded Z; None = malformed. *)
From InfluxQL Require Import Base.Prelude Val.Duration Proofs.DurationProofs.

Theorem C08_exact : forall s d,
  parse_duration s = Ok d -> exact_total s = Some d /\ fits64 d = true.
Proof. exact parse_duration_exact. Qed.
Print Assumptions C08_exact.

(* a malformed spelling, or a total that does not fit in 64-bit nanoseconds, is an error — never a wrapped value *)
Theorem C08_rejects : forall s,
  (exact_total s = None \/ exists t, exact_total s = Some t /\ fits64 t = false) ->
  exists e, parse_duration s = Err e.
Proof. exact parse_duration_rejects. Qed.
Print Assumptions C08_rejects.

(* every well-formed spelling whose total fits is accepted (the most negative value excepted) *)
Theorem C08_complete : forall s t,
  exact_total s = Some t -> - max_i64 <= t <= max_i64 -> parse_duration s = Ok t.
Proof. exact parse_duration_complete. Qed.
Print Assumptions C08_complete.

Theorem C08_roundtrip : forall d,
  min_i64 < d <= max_i64 -> parse_duration (format_duration d) = Ok d.
Proof. exact format_parse_roundtrip. Qed.
Print Assumptions C08_roundtrip.

(* ... and the single excepted value is indeed not invertible *)
Theorem C08_roundtrip_min_excepted : exists e, parse_duration (format_duration min_i64) = Err e.
Proof. exact format_parse_min. Qed.
Print Assumptions C08_roundtrip_min_excepted.

Theorem C08_largest_unit : forall d, d <> 0 ->
  exists u n, largest_dividing d unit_table = Some (u, n) /\ format_duration d = dec (Z.quot d u) ++ n.
Proof. exact format_largest_unit. Qed.
Print Assumptions C08_largest_unit.

Theorem C08_zero : format_duration 0 = ts "0s".
Proof. exact format_zero. Qed.
Print Assumptions C08_zero.

(* non-vacuity: a multi-component spelling at the edge of the range, and one past it *)
Example C08_example_fits :
  parse_duration (ts "106751d23h47m16s854ms775u807ns") = Ok max_i64.
Proof. vm_compute. reflexivity. Qed.
Example C08_example_overflow :
  exact_total (ts "5124096h") = Some 18446745600000000000 /\ parse_duration (ts "5124096h") = Err err_overflow.
Proof. vm_compute. split; reflexivity. Qed.
