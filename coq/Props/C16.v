(* C16  Statement separation, whitespace and comments do not change meaning.
   Proved for all inputs: ParseQuery's result depends on its input only through the answers of the four
   instructions (so any two texts whose lexer states are related by an instruction-preserved relation
   — same token kinds, non-whitespace literals, rune classes — parse to the same statements).  PARTIAL:
   that a whitespace-for-whitespace substitution produces such related states is a lexer fact that is
   not proved here; it, the comment cases and the separator rules are evaluated on the implementation at
   every gap of generated statements and on joined queries (harness/c16.go), with the model compared on
   the same texts.  The comment rule is false at raw-rune lookahead sites (known finding, witness below). *)
From InfluxQL Require Import Base.Prelude Base.Oracles Lex.Token Lex.Reader Lex.Scanner Ast.Ast Parse.Instr
  Parse.ParseExpr Parse.ParseStmts Proofs.ParserProofs.

Theorem C16_query_depends_on_instruction_answers_only :
  forall ulower (R : pstate -> pstate -> Prop),
  (forall rx s1 s2, R s1 s2 ->
      fst (buf_scan ulower rx s1) = fst (buf_scan ulower rx s2) /\
      state_bad (snd (buf_scan ulower rx s1)) = state_bad (snd (buf_scan ulower rx s2)) /\
      state_oof (snd (buf_scan ulower rx s1)) = state_oof (snd (buf_scan ulower rx s2)) /\
      R (snd (buf_scan ulower rx s1)) (snd (buf_scan ulower rx s2))) ->
  (forall s1 s2, R s1 s2 -> R (do_unscan s1) (do_unscan s2)) ->
  (forall s1 s2, R s1 s2 ->
      fst (do_peek s1) = fst (do_peek s2) /\
      state_bad (snd (do_peek s1)) = state_bad (snd (do_peek s2)) /\
      R (snd (do_peek s1)) (snd (do_peek s2))) ->
  forall orc fuel s1 s2, R s1 s2 ->
    rel_res R (run ulower (parse_query orc fuel) s1) (run ulower (parse_query orc fuel) s2).
Proof. intros ulower R H1 H2 H3 orc fuel s1 s2 HR. apply (run_rel ulower R H1 H2 H3); exact HR. Qed.
Print Assumptions C16_query_depends_on_instruction_answers_only.

Definition parse_q (t : text) : res (list stmt) :=
  match run (fun c => c) (parse_query default_oracles (4 * length t + 16)) (new_pstate t []) with
  | Ok (st, _) => Ok st | Err e => Err e | Crash c => Crash c | OutOfFuel => OutOfFuel
  end.
Definition parse_s (t : text) : res stmt :=
  match run (fun c => c) (parse_statement default_oracles (4 * length t + 16)) (new_pstate t []) with
  | Ok (st, _) => Ok st | Err e => Err e | Crash c => Crash c | OutOfFuel => OutOfFuel
  end.
Local Open Scope string_scope.

(* finding C16-comment-at-regex-probe: accepted without the comment, rejected with it *)
Theorem C16_comment_refuted :
  is_ok (parse_s (ts "SELECT a, b FROM m")) = true /\ is_ok (parse_s (ts "SELECT a, /*c*/ b FROM m")) = false.
Proof. vm_compute. split; reflexivity. Qed.
Print Assumptions C16_comment_refuted.

(* finding C16-slash-after-source-follow *)
Theorem C16_slash_after_source_follow_refuted :
  is_ok (parse_q (ts "SELECT x FROM m; /* c */ SELECT y FROM n")) = true /\
  is_ok (parse_q (ts "SELECT x FROM m;/* c */ SELECT y FROM n")) = false.
Proof. vm_compute. split; reflexivity. Qed.
Print Assumptions C16_slash_after_source_follow_refuted.

(* non-vacuity: empty statements, trailing semicolon, missing separator *)
Example C16_example_separators :
  parse_q (ts ";; SHOW USERS ;;SHOW DATABASES; ") = Ok [ShowUsers; ShowDatabases] /\
  is_ok (parse_q (ts "SHOW USERS SHOW DATABASES")) = false.
Proof. vm_compute. split; reflexivity. Qed.
