(* C16  Statement separation, whitespace and comments do not change meaning.
   Proved for all inputs: ParseQuery's result depends on its input only through the answers of the four
   instructions (so any two texts whose lexer states are related by an instruction-preserved relation
   — same token kinds, non-whitespace literals, rune classes — parse to the same statements).  At the lexer,
   for all texts: a gap is ONE WS token whatever whitespace it is spelled with (CR and CRLF included), a comment
   is ONE COMMENT token, and the tokens and literals behind the gap do not depend on its spelling or on a
   comment inside it (C16_gap_spelling_irrelevant, C16_comment_in_gap, C16_same_text_same_tokens).  PARTIAL:
   the composition of the two - that the parser programs, which also look at raw runes, cannot tell the
   related lexer states apart - is not a theorem; it, the comment cases and the separator rules are evaluated on
   the implementation at every gap of generated statements and on joined queries (harness/c16.go), with the model
   compared on the same texts.  The comment rule is false at raw-rune lookahead sites (known finding, witness below). *)
From InfluxQL Require Import Base.Prelude Base.Oracles Lex.Token Lex.Reader Lex.Scanner Ast.Ast Parse.Instr
  Parse.ParseExpr Parse.ParseStmts Proofs.ParserProofs.
From InfluxQL Require Import Lex.Reader Lex.Scanner Proofs.ReaderProofs Proofs.GapProofs.
From InfluxQL Require Import Lex.StreamLex Proofs.RingAt Proofs.RingRefine Proofs.LexTiling Proofs.GapStream.

Theorem C16_query_depends_on_instruction_answers_only :
  forall ulower (R : pstate -> pstate -> Prop),
  (forall rx s1 s2, R s1 s2 ->
      fst (buf_scan ulower rx s1) = fst (buf_scan ulower rx s2) /\
      state_bad (snd (buf_scan ulower rx s1)) = state_bad (snd (buf_scan ulower rx s2)) /\
      state_oof (snd (buf_scan ulower rx s1)) = state_oof (snd (buf_scan ulower rx s2)) /\
      R (snd (buf_scan ulower rx s1)) (snd (buf_scan ulower rx s2))) ->
  (forall s1 s2, R s1 s2 -> R (do_unscan s1) (do_unscan s2)) ->
  (forall s1 s2, R s1 s2 ->
      fst (do_peek s1) = fst (do_peek s2) /\
      state_bad (snd (do_peek s1)) = state_bad (snd (do_peek s2)) /\
      R (snd (do_peek s1)) (snd (do_peek s2))) ->
  forall orc fuel s1 s2, R s1 s2 ->
    rel_res R (run ulower (parse_query orc fuel) s1) (run ulower (parse_query orc fuel) s2).
Proof. intros ulower R H1 H2 H3 orc fuel s1 s2 HR. apply (run_rel ulower R H1 H2 H3); exact HR. Qed.
Print Assumptions C16_query_depends_on_instruction_answers_only.

Definition parse_q (t : text) : res (list stmt) :=
  match run (fun c => c) (parse_query default_oracles (4 * length t + 16)) (new_pstate t []) with
  | Ok (st, _) => Ok st | Err e => Err e | Crash c => Crash c | OutOfFuel => OutOfFuel
  end.
Definition parse_s (t : text) : res stmt :=
  match run (fun c => c) (parse_statement default_oracles (4 * length t + 16)) (new_pstate t []) with
  | Ok (st, _) => Ok st | Err e => Err e | Crash c => Crash c | OutOfFuel => OutOfFuel
  end.
Local Open Scope string_scope.

(* finding C16-comment-at-regex-probe: accepted without the comment, rejected with it *)
Theorem C16_comment_refuted :
  is_ok (parse_s (ts "SELECT a, b FROM m")) = true /\ is_ok (parse_s (ts "SELECT a, /*c*/ b FROM m")) = false.
Proof. vm_compute. split; reflexivity. Qed.
Print Assumptions C16_comment_refuted.

(* finding C16-slash-after-source-follow *)
Theorem C16_slash_after_source_follow_refuted :
  is_ok (parse_q (ts "SELECT x FROM m; /* c */ SELECT y FROM n")) = true /\
  is_ok (parse_q (ts "SELECT x FROM m;/* c */ SELECT y FROM n")) = false.
Proof. vm_compute. split; reflexivity. Qed.
Print Assumptions C16_slash_after_source_follow_refuted.

(* non-vacuity: empty statements, trailing semicolon, missing separator *)
Example C16_example_separators :
  parse_q (ts ";; SHOW USERS ;;SHOW DATABASES; ") = Ok [ShowUsers; ShowDatabases] /\
  is_ok (parse_q (ts "SHOW USERS SHOW DATABASES")) = false.
Proof. vm_compute. split; reflexivity. Qed.

(* at the lexer a gap is one token whatever it is made of: any run of blanks, tabs and line feeds in front of a rune
   that is not one scans as ONE WS token, and the reader stops at that rune (pushed back) *)
Theorem C16_gap_is_one_token : forall ulower c w rest r,
  wf r -> is_whitespace c = true -> blank_text w -> ends_gap rest -> r_src r = c :: w ++ rest ->
  exists p r', scan ulower r = ((WS, p, c :: w), r') /\
    ((rest = [] /\ wf r' /\ r_src r' = []) \/
     (exists d rest' r0, rest = d :: rest' /\ r' = unread r0 /\ wf r0 /\ r_src r0 = rest' /\ fst (curr r0) = d)).
Proof. exact scan_gap. Qed.
Print Assumptions C16_gap_is_one_token.

(* two spellings of one gap leave the lexer in front of the same text with the same rune pushed back; the parser's
   programs see a WS token in both cases and, by C16_query_depends_on_instruction_answers_only, nothing else *)
Theorem C16_gaps_agree : forall ulower c1 w1 c2 w2 d rest' r1 r2,
  wf r1 -> wf r2 -> is_whitespace c1 = true -> is_whitespace c2 = true -> blank_text w1 -> blank_text w2 ->
  is_whitespace d = false -> d <> 13 -> d <> 0 ->
  r_src r1 = c1 :: w1 ++ d :: rest' -> r_src r2 = c2 :: w2 ++ d :: rest' ->
  exists p1 p2 a1 a2, scan ulower r1 = ((WS, p1, c1 :: w1), unread a1) /\ scan ulower r2 = ((WS, p2, c2 :: w2), unread a2) /\
    wf a1 /\ wf a2 /\ r_src a1 = rest' /\ r_src a2 = rest' /\ fst (curr a1) = d /\ fst (curr a2) = d.
Proof. exact gaps_agree. Qed.
Print Assumptions C16_gaps_agree.

(* a block comment (body without a star) is one COMMENT token and the reader stands right behind it *)
Theorem C16_comment_is_one_token : forall ulower b rest r,
  wf r -> comment_body b -> r_src r = 47 :: 42 :: b ++ 42 :: 47 :: rest ->
  exists p r', scan ulower r = ((COMMENT, p, []), r') /\ wf r' /\ r_src r' = rest.
Proof. exact scan_block_comment. Qed.
Print Assumptions C16_comment_is_one_token.

(* [at_ T r t]: the exact reader r (3-slot ring, pushback, CR folding) is a cursor into the CR-folded text T and
   will deliver the text t.
   Two spellings of one gap, of any lengths, in front of the same text: each scans as one WS token followed by
   the same tokens and literals, to any depth f *)
Theorem C16_gap_spelling_irrelevant : forall ulower T1 T2 f r1 r2 c1 w1 c2 w2 d rest,
  at_ T1 r1 (c1 :: w1 ++ d :: rest) -> at_ T2 r2 (c2 :: w2 ++ d :: rest) -> r_n r1 <= 2 -> r_n r2 <= 2 ->
  is_whitespace c1 = true -> is_whitespace c2 = true -> ws_text w1 -> ws_text w2 -> is_whitespace d = false -> d <> 0 ->
  exists tail,
    map tl_of (fst (scan_all ulower (S f) r1 [])) = (WS, c1 :: w1) :: tail /\
    map tl_of (fst (scan_all ulower (S f) r2 [])) = (WS, c2 :: w2) :: tail.
Proof. exact gap_spelling. Qed.
Print Assumptions C16_gap_spelling_irrelevant.

(* a block comment flanked by whitespace in place of plain whitespace: WS COMMENT WS instead of WS, same tokens behind *)
Theorem C16_comment_in_gap : forall ulower T1 T2 f r1 r2 c1 w1 b c3 w3 c2 w2 d rest,
  at_ T1 r1 (c1 :: w1 ++ 47 :: 42 :: b ++ 42 :: 47 :: c3 :: w3 ++ d :: rest) -> at_ T2 r2 (c2 :: w2 ++ d :: rest) ->
  r_n r1 <= 2 -> r_n r2 <= 2 ->
  is_whitespace c1 = true -> is_whitespace c2 = true -> is_whitespace c3 = true -> ws_text w1 -> ws_text w2 -> ws_text w3 ->
  block_body b -> is_whitespace d = false -> d <> 0 ->
  exists tail,
    map tl_of (fst (scan_all ulower (S (S (S f))) r1 [])) = (WS, c1 :: w1) :: (COMMENT, []) :: (WS, c3 :: w3) :: tail /\
    map tl_of (fst (scan_all ulower (S f) r2 [])) = (WS, c2 :: w2) :: tail.
Proof. exact comment_in_gap. Qed.
Print Assumptions C16_comment_in_gap.

(* readers that deliver the same text produce the same tokens and literals, whatever is in their rings *)
Theorem C16_same_text_same_tokens : forall ulower T1 T2 f r1 r2 t, at_ T1 r1 t -> at_ T2 r2 t -> r_n r1 <= 2 -> r_n r2 <= 2 ->
  map tl_of (fst (scan_all ulower f r1 [])) = map tl_of (fst (scan_all ulower f r2 [])).
Proof. exact same_text_same_tokens. Qed.
Print Assumptions C16_same_text_same_tokens.

(* non-vacuity: the gap " \r\n\t" in front of "b"; CR LF folds to LF in the delivered text *)
Example C16_gap_example :
  at_ (fold_cr [32; 13; 10; 9; 98]) (new_reader ([32; 13; 10; 9; 98] : text)) (32 :: [10; 9] ++ 98 :: []).
Proof. exact (at_new [32; 13; 10; 9; 98]). Qed.
