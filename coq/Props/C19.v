(* C19  Required privileges cover everything a statement touches. *)
From InfluxQL Require Import Base.Prelude Lex.Token Ast.Ast Ast.Privileges Proofs.PrivilegesProofs.

(* a read privilege on the database of every measurement read at ANY depth of subqueries *)
Theorem C19_reads : forall q m,
  In m (select_reads q) -> In (mkPriv false (m_db m) ReadPrivilege) (select_privs q).
Proof. exact select_reads_covered. Qed.
Print Assumptions C19_reads.

Theorem C19_target : forall q t,
  s_target q = Some t -> In (mkPriv false (m_db t) WritePrivilege) (select_privs q).
Proof. exact select_target_covered. Qed.
Print Assumptions C19_target.

Theorem C19_explain : forall q a v, stmt_privs (Explain q a v) = stmt_privs (Select q).
Proof. reflexivity. Qed.
Print Assumptions C19_explain.

(* every statement kind reports a non-empty list (every SELECT and source list inside it having a FROM
   clause, which the parser guarantees) *)
Theorem C19_nonempty : forall s, stmt_has_from s = true -> stmt_privs s <> [].
Proof. exact stmt_privs_nonempty. Qed.
Print Assumptions C19_nonempty.

Theorem C19_admin : forall s, admin_kind s = true -> stmt_privs s = [mkPriv true [] AllPrivileges].
Proof. exact admin_requires_admin. Qed.
Print Assumptions C19_admin.

(* and nothing spurious: what a SELECT's sources require is only non-admin reads and writes *)
Theorem C19_sources_shape : forall s p, In p (source_privs s) ->
  ep_admin p = false /\ (ep_priv p = ReadPrivilege \/ ep_priv p = WritePrivilege).
Proof. exact source_privs_shape. Qed.
Print Assumptions C19_sources_shape.

(* non-vacuity: a measurement three subqueries deep *)
Local Open Scope string_scope.
Example C19_example :
  let m := mkMeasurement (ts "deepdb") [] (ts "m") None false [] in
  let sel ss := mkSelect [] None [] ss None [] 0 0 0 0 true NullFill FVNone None [] false false [] false in
  let q := sel [SSubQuery (sel [SSubQuery (sel [SMeasurement m])])] in
  select_has_from q = true /\ In (mkPriv false (ts "deepdb") ReadPrivilege) (select_privs q).
Proof. cbn. split; [reflexivity|left; reflexivity]. Qed.
