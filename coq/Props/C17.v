(* C17  Independent parses and read-only use of a shared AST are safe under concurrency.
   PARTIAL: the theorems are about an abstract shared-memory machine and the footprint table; that the Go functions stay
   within their table entries is checked on every run by a static SSA analysis of /repo (package-level state, receiver
   writes) and sampled dynamically under the race detector - goroutine scheduling, the Go memory model and the
   library objects declared safe for concurrent use (strings.Replacer, regexp.Regexp) are not modelled. *)
From Coq Require Import String.
From InfluxQL Require Import Base.Prelude Conc.Interleave Conc.Footprint.

(* every result equals the result of the same call made alone: all schedules, any number of threads *)
Theorem C17_results_as_alone : forall own sched ts h ts' h' acc j p r,
  all_disciplined own ts -> exec sched (ts, h) = ((ts', h'), acc) ->
  nth_error ts j = Some p -> nth_error ts' j = Some (Ret r) -> r = run_alone p h.
Proof. exact results_as_alone. Qed.
Print Assumptions C17_results_as_alone.

(* no data race: under the discipline two accesses of different threads to one location are both reads *)
Theorem C17_no_data_race : forall own sched ts h ts' h' acc,
  all_disciplined own ts -> exec sched (ts, h) = ((ts', h'), acc) ->
  forall a b, In a acc -> In b acc -> ~ conflict a b.
Proof. exact no_conflicting_accesses. Qed.
Print Assumptions C17_no_data_race.

(* the package's operations: any layout that keeps package-level state and the shared AST at shared locations; any
   threads running programs within the footprints of table entries that write no package-level variable and no memory
   they were handed *)
Theorem C17_safe_operations : forall own gloc ast,
  (forall g l, In l (gloc g) -> own l = None) -> (forall l, ast l = true -> own l = None) ->
  forall ts ops sched h ts' h' acc,
  (forall i p, nth_error ts i = Some p -> exists o, nth_error ops i = Some o /\ concurrent_safe o = true /\ within own gloc ast o i p) ->
  exec sched (ts, h) = ((ts', h'), acc) ->
  (forall j p r, nth_error ts j = Some p -> nth_error ts' j = Some (Ret r) -> r = run_alone p h) /\
  (forall a b, In a acc -> In b acc -> ~ conflict a b).
Proof. exact safe_ops_any_schedule. Qed.
Print Assumptions C17_safe_operations.

(* the table: everything the property lists (parse, print, quote, format, sanitize; print, clone, walk, evaluate,
   reduce, expand wildcards, names and privileges of a shared AST) has such a footprint; the mutators do not *)
Theorem C17_table : forallb (fun o => Bool.eqb (concurrent_safe o) (claimed_safe o)) table = true.
Proof. exact table_claims. Qed.
Print Assumptions C17_table.
Theorem C17_shared_state_never_written :
  forallb (fun o => forallb (fun g => negb (existsb (String.eqb g) (fp_writes o))) shared_state) table = true.
Proof. exact no_table_entry_writes_shared_state. Qed.
Print Assumptions C17_shared_state_never_written.

(* why GroupByInterval is outside the shared set: a memo written on first use races - two threads, one schedule *)
Definition memo (l : loc) : prog := Read l (fun v => if v =? 0 then Write l 7 (Ret 7) else Ret v).
Definition has_conflict (acc : list access) : bool :=
  existsb (fun a => existsb (fun b => match a, b with
                                      | AWrite i l, ARead j l' | ARead i l, AWrite j l' | AWrite i l, AWrite j l' => negb (Nat.eqb i j) && (l =? l')
                                      | _, _ => false end) acc) acc.
Theorem C17_memo_is_safe_refuted : has_conflict (snd (exec [0; 1; 0; 1]%nat ([memo 5; memo 5], fun _ => 0))) = true.
Proof. vm_compute. reflexivity. Qed.
Print Assumptions C17_memo_is_safe_refuted.

(* non-vacuity: two disciplined threads (read a shared table, write their own result cell), every interleaving of
   their four steps *)
Definition lookup_then_store (tbl mine : loc) : prog := Read tbl (fun v => Write mine (v + 1) (Read mine (fun w => Ret w))).
Example C17_example :
  let own := fun l => if l =? 10 then Some 0%nat else if l =? 11 then Some 1%nat else None in
  let ts := [lookup_then_store 1 10; lookup_then_store 1 11] in
  all_disciplined own ts /\
  forallb (fun sched => match exec sched (ts, fun l => if l =? 1 then 41 else 0) with
                        | (([Ret a; Ret b], _), acc) => (a =? 42) && (b =? 42) && negb (has_conflict acc)
                        | _ => false end)
          [[0;0;0;1;1;1]; [1;1;1;0;0;0]; [0;1;0;1;0;1]; [1;0;0;1;1;0]; [0;1;1;0;0;1]]%nat = true.
Proof.
  split; [|vm_compute; reflexivity].
  intros i p Hi. destruct i as [|[|i]]; cbn in Hi; inversion Hi; subst.
  - repeat (constructor; cbn; auto); intros; repeat (constructor; cbn; auto).
  - repeat (constructor; cbn; auto); intros; repeat (constructor; cbn; auto).
  - destruct i; discriminate.
Qed.
