(* ast.go: the String() methods of the statements, of SelectStatement and of
   its parts (Sources, SubQuery, Target, Fields, Dimensions, SortFields,
   Statements, Query), literally.  Nothing is repaired: where the Go code
   forgets QuoteIdent, drops a clause or prints a lossy value, so does this.

   Conventions fixed by the AST (Ast/Ast.v):
   - a Go slice is a list, so [x != nil] on a slice is read as "non-empty"
     (the parser never builds an empty non-nil Sources);
   - a nil Expr/Literal interface is [None].  ShowTagValues*.String() calls
     TagKeyExpr.String() unconditionally and panics on nil; the model prints
     nothing for [None] there (the parser always sets the field). *)
From InfluxQL Require Import Base.Prelude Base.Oracles Lex.Token Lex.Quote Ast.Ast Val.Duration Ast.Printer.

(* ---------- time.Duration.String() (GOROOT/src/time/time.go) ---------- *)

(* fmtFrac: the fraction of v/10^prec without trailing zeros, with its
   leading '.', or nothing when the fraction is 0; and v/10^prec. *)
Fixpoint go_fmt_frac (prec : nat) (v : Z) (print : bool) (acc : text) : text * Z :=
  match prec with
  | O => ((if print then 46 :: acc else acc), v)
  | S p =>
      let digit := v mod 10 in
      let print' := print || negb (digit =? 0) in
      go_fmt_frac p (v / 10) print' (if print' then (48 + digit) :: acc else acc)
  end.

(* fmtInt on a uint64 *)
Definition go_fmt_int (v : Z) : text := dec_nonneg v.

(* d is an int64; u := uint64(d), negated (mod 2^64) when d < 0, which is |d|
   also for the minimum int64 *)
Definition go_duration_string (d : Z) : text :=
  let neg := d <? 0 in
  let u := if neg then wrapu (- (wrapu d)) else wrapu d in
  if u <? ns_s then
    if u =? 0 then ts "0s"                                  (* returns before the sign is written *)
    else
      let '(prec, unit_) :=
        if u <? ns_us then (0%nat, ts "ns")
        else if u <? ns_ms then (3%nat, [181] ++ ts "s")     (* U+00B5 micro sign *)
        else (6%nat, ts "ms") in
      let '(frac, u') := go_fmt_frac prec u false [] in
      (if neg then [45] else []) ++ go_fmt_int u' ++ frac ++ unit_
  else
    let '(frac, secs) := go_fmt_frac 9 u false [] in
    let mins := secs / 60 in
    let hours := mins / 60 in
    (if neg then [45] else [])
    ++ (if 0 <? mins then
          (if 0 <? hours then go_fmt_int hours ++ ts "h" else [])
          ++ go_fmt_int (mins mod 60) ++ ts "m"
        else [])
    ++ go_fmt_int (secs mod 60) ++ frac ++ ts "s".

(* ---------- fmt %v of a float64 ---------- *)

(* strconv's %e exponent: sign and at least two digits *)
Definition go_exp_string (e : Z) : text :=
  let a := Z.abs e in
  [101] ++ (if e <? 0 then [45] else [43]) ++ (if a <? 10 then [48] else []) ++ dec_nonneg a.

Fixpoint strip_leading_zeros (s : text) : text :=
  match s with
  | c :: s' => if c =? 48 then strip_leading_zeros s' else s
  | [] => []
  end.
Definition strip_trailing_zeros (s : text) : text := rev (strip_leading_zeros (rev s)).

Fixpoint split_at_dot (s : text) : text * text :=
  match s with
  | [] => ([], [])
  | c :: s' => if c =? 46 then ([], s') else let '(a, b) := split_at_dot s' in (c :: a, b)
  end.

(* [s] is FormatFloat(f, 'f', -1, 64) of a finite f: [-]int[.frac] with the
   shortest digits.  fmt's %v is fmtFloat(v, 64, 'g', -1), i.e. strconv's 'g'
   with the shortest digits, which chooses %e when the decimal exponent x
   satisfies x < -4 || x >= eprec, and [if shortest { eprec = 6 }]
   (strconv/ftoa.go formatDigits): 1000000.0 prints as 1e+06, 100000.0 as
   100000.  (The threshold 21 belongs to encoding/json, not to fmt.)
   The digits of the %e form are the same shortest digits: d[.ddd]e(+|-)XX. *)
Definition go_v_eprec : Z := 6.

Definition reformat_float_v (s : text) : text :=
  let '(sign, body) := match s with c :: r => if c =? 45 then ([45], r) else ([], s) | [] => ([], []) end in
  match body with
  | [] => s
  | c0 :: _ =>
      if negb (is_digit c0) then s                          (* NaN, +Inf, -Inf *)
      else
        let '(ip, fp) := split_at_dot body in
        let ip' := strip_leading_zeros ip in
        (* digs.d (no leading, no trailing zeros) and digs.dp *)
        let '(digits, dp) :=
          match ip' with
          | [] => let fp' := strip_leading_zeros fp in
                  (strip_trailing_zeros fp', - (Z.of_nat (length fp) - Z.of_nat (length fp')))
          | _ => (strip_trailing_zeros (ip' ++ fp), Z.of_nat (length ip'))
          end in
        match digits with
        | [] => s                                           (* zero: exp = -1, %f form *)
        | d1 :: ds =>
            let x := dp - 1 in
            if (x <? -4) || (go_v_eprec <=? x) then
              sign ++ [d1] ++ (match ds with [] => [] | _ => 46 :: ds end) ++ go_exp_string x
            else s
        end
  end.

Section PrinterStmts.
Variable orc : oracles.

Local Notation qi := (qi orc).
Local Notation print_expr := (print_expr orc).
Local Notation print_measurement := (print_measurement orc).

(* fmt.Sprintf("%v", float64) *)
Definition print_float_v (f : F) : text :=
  if f_is_nan f then ts "NaN"
  else if f =? inf_exp then ts "+Inf"
  else if f =? inf_exp + two63 then ts "-Inf"
  else reformat_float_v (o_format_float orc f).

(* fmt.Sprintf("%v", s.FillValue) on the interface{} *)
Definition print_fillvalue (v : fillvalue) : text :=
  match v with
  | FVNone => ts "<nil>"
  | FVInt i => dec i
  | FVFloat f => print_number orc f    (* (&NumberLiteral{Val: v}).String() *)
  end.

(* Field.String, Fields.String *)
Definition print_field (f : field) : text :=
  let str := print_expr (f_expr f) in
  if is_empty (f_alias f) then str else str ++ ts " AS " ++ qi [f_alias f].
Definition print_fields (l : list field) : text := join_with (ts ", ") (map print_field l).

(* Dimension.String, Dimensions.String *)
Definition print_dimension (d : expr) : text := print_expr d.
Definition print_dimensions (l : list expr) : text := join_with (ts ", ") (map print_dimension l).

(* SortField.String (Name is written as is), SortFields.String *)
Definition print_sortfield (f : sortfield) : text :=
  (if is_empty (sf_name f) then [] else sf_name f ++ ts " ")
  ++ (if sf_asc f then ts "ASC" else ts "DESC").
Definition print_sortfields (l : list sortfield) : text := join_with (ts ", ") (map print_sortfield l).

(* Target.String on a non-nil target *)
Definition print_target (m : measurement) : text :=
  ts "INTO " ++ print_measurement m
  ++ (if is_empty (m_name m) then (if is_empty (m_db m) && is_empty (m_rp m) then [34; 34] else ts ":MEASUREMENT") else []).

(* Sources.String: src, ", " between *)
Definition print_sources_with (ps : source -> text) (l : list source) : text :=
  join_with (ts ", ") (map ps l).

(* SelectStatement.String, with Source.String for its sources passed in *)
Definition print_select_with (ps : source -> text) (q : select) : text :=
  ts "SELECT " ++ print_fields (s_fields q)
  ++ (match s_target q with Some m => ts " " ++ print_target m | None => [] end)
  ++ (match s_sources q with [] => [] | _ => ts " FROM " ++ print_sources_with ps (s_sources q) end)
  ++ (match s_cond q with Some c => ts " WHERE " ++ print_expr c | None => [] end)
  ++ (match s_dims q with [] => [] | _ => ts " GROUP BY " ++ print_dimensions (s_dims q) end)
  ++ (match s_fill q with
      | NullFill => []
      | NoFill => ts " fill(none)"
      | NumberFill => ts " fill(" ++ print_fillvalue (s_fillvalue q) ++ ts ")"
      | LinearFill => ts " fill(linear)"
      | PreviousFill => ts " fill(previous)"
      end)
  ++ (match s_sort q with [] => [] | _ => ts " ORDER BY " ++ print_sortfields (s_sort q) end)
  ++ (if 0 <? s_limit q then ts " LIMIT " ++ dec (s_limit q) else [])
  ++ (if 0 <? s_offset q then ts " OFFSET " ++ dec (s_offset q) else [])
  ++ (if 0 <? s_slimit q then ts " SLIMIT " ++ dec (s_slimit q) else [])
  ++ (if 0 <? s_soffset q then ts " SOFFSET " ++ dec (s_soffset q) else [])
  ++ (match s_loc q with Some n => ts " TZ('" ++ n ++ ts "')" | None => [] end).

(* Source.String: Measurement.String / SubQuery.String *)
Fixpoint print_source (s : source) : text :=
  match s with
  | SMeasurement m => print_measurement m
  | SSubQuery q => [40] ++ print_select_with print_source q ++ [41]
  end.

Definition print_sources (l : list source) : text := print_sources_with print_source l.
Definition print_select (q : select) : text := print_select_with print_source q.

(* Privilege.String *)
Definition print_privilege (p : privilege) : text :=
  match p with
  | NoPrivileges => ts "NO PRIVILEGES"
  | ReadPrivilege => ts "READ"
  | WritePrivilege => ts "WRITE"
  | AllPrivileges => ts "ALL PRIVILEGES"
  end.

(* recurring clauses *)
Definition cl_on (db : text) : text := if is_empty db then [] else ts " ON " ++ qi [db].
Definition cl_from (ss : list source) : text :=
  match ss with [] => [] | _ => ts " FROM " ++ print_sources ss end.
Definition cl_where (c : option expr) : text :=
  match c with Some e => ts " WHERE " ++ print_expr e | None => [] end.
Definition cl_group_by (ds : list expr) : text :=
  match ds with [] => [] | _ => ts " GROUP BY " ++ print_dimensions ds end.
Definition cl_order_by (so : list sortfield) : text :=
  match so with [] => [] | _ => ts " ORDER BY " ++ print_sortfields so end.
Definition cl_num (kw : text) (n : Z) : text := if 0 <? n then kw ++ dec n else [].
Definition cl_limit := cl_num (ts " LIMIT ").
Definition cl_offset := cl_num (ts " OFFSET ").
Definition cl_slimit := cl_num (ts " SLIMIT ").
Definition cl_soffset := cl_num (ts " SOFFSET ").

(* " WITH KEY " op " " key of SHOW TAG VALUES [CARDINALITY]: a string literal
   key goes through QuoteIdent, anything else through its own String() *)
Definition cl_with_key (op : token) (ke : option expr) : text :=
  ts " WITH KEY " ++ tok_string op ++ ts " "
  ++ (match ke with
      | Some (StringLit v) => qi [v]
      | Some e => print_expr e
      | None => []
      end).

(* the tail shared by the SHOW ... CARDINALITY statements *)
Definition card_tail (c : option expr) (ds : list expr) (li of_ : Z) : text :=
  cl_where c ++ cl_group_by ds ++ cl_limit li ++ cl_offset of_.

Definition print_stmt (s : stmt) : text :=
  match s with
  | AlterRetentionPolicy n db d r df sh fu pa =>
      ts "ALTER RETENTION POLICY " ++ qi [n] ++ ts " ON " ++ qi [db]
      ++ (match d with Some x => ts " DURATION " ++ format_duration x | None => [] end)
      ++ (match r with Some x => ts " REPLICATION " ++ dec x | None => [] end)
      ++ (match sh with Some x => ts " SHARD DURATION " ++ format_duration x | None => [] end)
      ++ (if df then ts " DEFAULT" else [])
      ++ (match fu with
          | Some x => ts " FUTURE LIMIT " ++ format_duration x
          | None => [] end)
      ++ (match pa with
          | Some x => ts " PAST LIMIT " ++ format_duration x
          | None => [] end)
  | CreateContinuousQuery n db src ev fo =>
      ts "CREATE CONTINUOUS QUERY " ++ qi [n] ++ ts " ON " ++ qi [db] ++ ts " "
      ++ (if (0 <? ev) || (0 <? fo) then
            ts "RESAMPLE "
            ++ (if 0 <? ev then ts "EVERY " ++ format_duration ev ++ ts " " else [])
            ++ (if 0 <? fo then ts "FOR " ++ format_duration fo ++ ts " " else [])
          else [])
      ++ ts "BEGIN " ++ print_select src ++ ts " END"
  | CreateDatabase n rc rd rr rn rs fu pa =>
      ts "CREATE DATABASE " ++ qi [n]
      ++ (if rc then
            ts " WITH"
            ++ (match rd with Some x => ts " DURATION " ++ format_duration x | None => [] end)
            ++ (match rr with Some x => ts " REPLICATION " ++ dec x | None => [] end)
            ++ (if 0 <? rs then ts " SHARD DURATION " ++ format_duration rs else [])
            ++ (match fu with
                | Some x => ts " FUTURE LIMIT " ++ format_duration x
                | None => [] end)
            ++ (match pa with
                | Some x => ts " PAST LIMIT " ++ format_duration x
                | None => [] end)
            ++ (if is_empty rn then [] else ts " NAME " ++ qi [rn])
          else [])
  | CreateRetentionPolicy n db d r df sh fu pa =>
      ts "CREATE RETENTION POLICY " ++ qi [n] ++ ts " ON " ++ qi [db]
      ++ ts " DURATION " ++ format_duration d
      ++ ts " REPLICATION " ++ dec r
      ++ (if 0 <? sh then ts " SHARD DURATION " ++ format_duration sh else [])
      ++ (if df then ts " DEFAULT" else [])
      ++ (if fu =? 0 then [] else ts " FUTURE LIMIT " ++ format_duration fu)
      ++ (if pa =? 0 then [] else ts " PAST LIMIT " ++ format_duration pa)
  | CreateSubscription n db rp ds m =>
      ts "CREATE SUBSCRIPTION " ++ qi [n] ++ ts " ON " ++ qi [db] ++ ts "." ++ qi [rp]
      ++ ts " DESTINATIONS " ++ m ++ ts " " ++ join_with (ts ", ") (map quote_string ds)
  | CreateUser n _ a =>
      ts "CREATE USER " ++ qi [n] ++ ts " WITH PASSWORD " ++ ts "[REDACTED]"
      ++ (if a then ts " WITH ALL PRIVILEGES" else [])
  | DeleteSeries ss c => ts "DELETE" ++ cl_from ss ++ cl_where c
  | DropContinuousQuery n db => ts "DROP CONTINUOUS QUERY " ++ qi [n] ++ ts " ON " ++ qi [db]
  | DropDatabase n => ts "DROP DATABASE " ++ qi [n]
  | DropMeasurement n => ts "DROP MEASUREMENT " ++ qi [n]
  | DropRetentionPolicy n db => ts "DROP RETENTION POLICY " ++ qi [n] ++ ts " ON " ++ qi [db]
  | DropSeries ss c => ts "DROP SERIES" ++ cl_from ss ++ cl_where c
  | DropShard id => ts "DROP SHARD " ++ dec id
  | DropSubscription n db rp => ts "DROP SUBSCRIPTION " ++ qi [n] ++ ts " ON " ++ qi [db] ++ ts "." ++ qi [rp]
  | DropUser n => ts "DROP USER " ++ qi [n]
  | Explain q an vb =>
      ts "EXPLAIN " ++ (if an then ts "ANALYZE " else []) ++ (if vb then ts "VERBOSE " else [])
      ++ print_select q
  | Grant p on u => ts "GRANT " ++ print_privilege p ++ ts " ON " ++ qi [on] ++ ts " TO " ++ qi [u]
  | GrantAdmin u => ts "GRANT ALL PRIVILEGES TO " ++ qi [u]
  | KillQuery id h => ts "KILL QUERY " ++ dec id ++ (if is_empty h then [] else ts " ON " ++ qi [h])
  | Revoke p on u => ts "REVOKE " ++ print_privilege p ++ ts " ON " ++ qi [on] ++ ts " FROM " ++ qi [u]
  | RevokeAdmin u => ts "REVOKE ALL PRIVILEGES FROM " ++ qi [u]
  | Select q => print_select q
  | SetPasswordUser _ n => ts "SET PASSWORD FOR " ++ qi [n] ++ ts " = " ++ ts "[REDACTED]"
  | ShowContinuousQueries => ts "SHOW CONTINUOUS QUERIES"
  | ShowDatabases => ts "SHOW DATABASES"
  | ShowDiagnostics m => ts "SHOW DIAGNOSTICS" ++ (if is_empty m then [] else ts " FOR " ++ quote_string m)
  | ShowFieldKeyCardinality db ex ss c ds li of_ =>
      ts "SHOW FIELD KEY " ++ (if ex then ts "EXACT " else []) ++ ts "CARDINALITY"
      ++ cl_on db ++ cl_from ss ++ card_tail c ds li of_
  | ShowFieldKeys db ss so li of_ =>
      ts "SHOW FIELD KEYS" ++ cl_on db ++ cl_from ss ++ cl_order_by so ++ cl_limit li ++ cl_offset of_
  | ShowGrantsForUser n => ts "SHOW GRANTS FOR " ++ qi [n]
  | ShowMeasurementCardinality ex db ss c ds li of_ =>
      ts "SHOW MEASUREMENT" ++ (if ex then ts " EXACT" else []) ++ ts " CARDINALITY"
      ++ cl_on db ++ cl_from ss ++ card_tail c ds li of_
  | ShowMeasurements db rp wdb wrp src c so li of_ =>
      ts "SHOW MEASUREMENTS"
      ++ (if negb (is_empty db) || wdb || negb (is_empty rp) || wrp then
            ts " ON " ++ (if wdb then ts "*" else qi [db])
            ++ (if wrp then ts ".*" else if negb (is_empty rp) then ts "." ++ qi [rp] else [])
          else [])
      ++ (match src with
          | Some s' =>
              ts " WITH MEASUREMENT "
              ++ (match s' with
                  | SMeasurement m => match m_regex m with Some _ => ts "=~ " | None => ts "= " end
                  | SSubQuery _ => ts "= "
                  end)
              ++ print_source s'
          | None => []
          end)
      ++ cl_where c ++ cl_order_by so ++ cl_limit li ++ cl_offset of_
  | ShowQueries => ts "SHOW QUERIES"
  | ShowRetentionPolicies db => ts "SHOW RETENTION POLICIES" ++ cl_on db
  | ShowSeries db ss c so li of_ =>
      ts "SHOW SERIES" ++ cl_on db ++ cl_from ss ++ cl_where c ++ cl_order_by so ++ cl_limit li ++ cl_offset of_
  | ShowSeriesCardinality db ex ss c ds li of_ =>
      ts "SHOW SERIES" ++ (if ex then ts " EXACT" else []) ++ ts " CARDINALITY"
      ++ cl_on db ++ cl_from ss ++ card_tail c ds li of_
  | ShowShardGroups => ts "SHOW SHARD GROUPS"
  | ShowShards => ts "SHOW SHARDS"
  | ShowStats m => ts "SHOW STATS" ++ (if is_empty m then [] else ts " FOR " ++ quote_string m)
  | ShowSubscriptions => ts "SHOW SUBSCRIPTIONS"
  | ShowTagKeyCardinality db ex ss c ds li of_ =>
      ts "SHOW TAG KEY " ++ (if ex then ts "EXACT " else []) ++ ts "CARDINALITY"
      ++ cl_on db ++ cl_from ss ++ card_tail c ds li of_
  | ShowTagKeys db ss op ke c so li of_ sl sof =>
      ts "SHOW TAG KEYS" ++ cl_on db ++ cl_from ss
      ++ (match ke with Some _ => cl_with_key op ke | None => [] end) ++ cl_where c ++ cl_order_by so
      ++ cl_limit li ++ cl_offset of_ ++ cl_slimit sl ++ cl_soffset sof
  | ShowTagValues db ss op ke c so li of_ =>
      ts "SHOW TAG VALUES" ++ cl_on db ++ cl_from ss ++ cl_with_key op ke
      ++ cl_where c ++ cl_order_by so ++ cl_limit li ++ cl_offset of_
  | ShowTagValuesCardinality db ex ss op ke c ds li of_ =>
      ts "SHOW TAG VALUES " ++ (if ex then ts "EXACT " else []) ++ ts "CARDINALITY"
      ++ cl_on db ++ cl_from ss ++ cl_with_key op ke ++ card_tail c ds li of_
  | ShowUsers => ts "SHOW USERS"
  end.

(* Statements.String, Query.String *)
Definition print_statements (l : list stmt) : text := join_with (ts ";" ++ [10]) (map print_stmt l).
Definition print_query := print_statements.

End PrinterStmts.
