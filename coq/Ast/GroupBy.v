(* ast.go: SelectStatement.GroupByInterval, GroupByOffset, Dimensions.Normalize.  Slice indexing is an explicit
   primitive that yields [Crash] exactly when Go would panic (index out of range). *)
From InfluxQL Require Import Base.Prelude Lex.Token Ast.Ast.

Definition site_index : Z := 20.
Definition index {A} (l : list A) (i : nat) : res A :=
  match nth_error l i with Some x => Ok x | None => Crash site_index end.

(* GroupByInterval (the memo field is not part of the value): Err = an error return *)
Fixpoint gbi_loop (ds : list expr) : res Z :=
  match ds with
  | [] => Ok 0
  | Call name args :: ds' =>
      if text_eqb name (ts "time") then
        let got := length args in
        if ((got <? 1) || (2 <? got))%nat then Err (ts "time dimension expected 1 or 2 arguments")
        else a0 <-r index args 0 ;;
             match a0 with
             | DurationLit v => Ok v
             | _ => Err (ts "time dimension must have duration argument")
             end
      else gbi_loop ds'
  | _ :: ds' => gbi_loop ds'
  end.
Definition group_by_interval (q : select) : res Z := gbi_loop (s_dims q).

(* time.Time.Truncate(d) counts from the zero time (year 1); Sub saturates *)
Definition zero_time_ns : Z := -62135596800 * 1000000000.
Definition sat64 (z : Z) : Z := if z <? min_i64 then min_i64 else if max_i64 <? z then max_i64 else z.
Definition time_mod (t d : Z) : Z := if d <=? 0 then 0 else sat64 ((t - zero_time_ns) mod d).

Fixpoint gbo_loop (interval : Z) (ds : list expr) : res Z :=
  match ds with
  | [] => Ok 0
  | Call name args :: ds' =>
      if text_eqb name (ts "time") then
        if (length args =? 2)%nat then
          a1 <-r index args 1 ;;
          match a1 with
          | DurationLit d => if interval =? 0 then Ok 0 else Ok (wrap64 (Z.rem d interval))
          | TimeLit t => Ok (time_mod t interval)
          | _ => Err (ts "invalid time dimension offset")
          end
        else Ok 0
      else gbo_loop interval ds'
  | _ :: ds' => gbo_loop interval ds'
  end.
Definition group_by_offset (q : select) : res Z :=
  interval <-r group_by_interval q ;; gbo_loop interval (s_dims q).

(* Dimensions.Normalize *)
Fixpoint normalize_loop (ds : list expr) (dur : Z) (tags : list text) : res (Z * list text) :=
  match ds with
  | [] => Ok (dur, tags)
  | Call _ args :: ds' =>
      if (0 <? length args)%nat then
        a0 <-r index args 0 ;;
        match a0 with
        | DurationLit v => normalize_loop ds' v tags
        | _ => normalize_loop ds' dur tags
        end
      else normalize_loop ds' dur tags
  | VarRef v _ :: ds' => normalize_loop ds' dur (tags ++ [v])
  | _ :: ds' => normalize_loop ds' dur tags
  end.
Definition normalize (ds : list expr) : res (Z * list text) := normalize_loop ds 0 [].
