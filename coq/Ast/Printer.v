(* ast.go: the String() methods, literally. *)
From InfluxQL Require Import Base.Prelude Base.Oracles Lex.Token Lex.Quote Ast.Ast Val.Duration Val.TimeVal.

Section Printer.
Variable orc : oracles.

Definition qi (segs : list text) : text := quote_ident (o_ulower orc) segs.

Fixpoint join_with (sep : text) (l : list text) : text :=
  match l with
  | [] => []
  | [x] => x
  | x :: l' => x ++ sep ++ join_with sep l'
  end.

Definition contains_rune (c : Z) (s : text) : bool := existsb (Z.eqb c) s.

(* NumberLiteral.String *)
Definition print_number (f : F) : text :=
  let s := o_format_float orc f in
  if contains_rune 46 s then s
  else if text_eqb s (ts "NaN") || text_eqb s (ts "+Inf") || text_eqb s (ts "-Inf") then s
  else s ++ ts ".0".

(* strings.Replace(re, "/", "\/", -1) *)
Definition escape_slashes (s : text) : text :=
  flat_map (fun c => if c =? 47 then [92; 47] else [c]) s.
Definition print_regex (r : text) : text := 47 :: escape_slashes r ++ [47].

Definition print_wildcard (t : token) : text :=
  match t with FIELD => ts "*::field" | TAG => ts "*::tag" | _ => ts "*" end.

Fixpoint print_expr (e : expr) : text :=
  match e with
  | BinaryExpr op l r => print_expr l ++ [32] ++ tok_string op ++ [32] ++ print_expr r
  | BooleanLit b => if b then ts "true" else ts "false"
  | BoundParam n => 36 :: qi [n]
  | Call n args => n ++ [40] ++ join_with (ts ", ") (map print_expr args) ++ [41]
  | Distinct v => ts "DISTINCT " ++ qi [v]
  | DurationLit d => format_duration d
  | IntegerLit i => dec i
  | UnsignedLit u => dec u
  | NilLit => ts "nil"
  | NumberLit f => print_number f
  | ParenExpr e' => [40] ++ print_expr e' ++ [41]
  | RegexLit r => print_regex r
  | ListLit vs => [40] ++ join_with (ts ", ") (map (fun v => qi [v]) vs) ++ [41]
  | StringLit s => quote_string s
  | TimeLit t => [39] ++ format_rfc3339nano t ++ [39]
  | VarRef v t =>
      qi [v] ++ (match t with DUnknown => [] | _ => ts "::" ++ datatype_string t end)
  | Wildcard t => print_wildcard t
  end.

(* Measurement.String *)
Definition is_empty (s : text) : bool := match s with [] => true | _ => false end.
Definition print_measurement (m : measurement) : text :=
  (if is_empty (m_db m) then [] else qi [m_db m] ++ [46])
  ++ (if is_empty (m_rp m) then [] else qi [m_rp m])
  ++ (if is_empty (m_db m) && is_empty (m_rp m) then [] else [46])
  ++ (if negb (is_empty (m_name m)) && is_empty (m_sysiter m) then qi [m_name m]
      else if negb (is_empty (m_sysiter m)) then qi [m_sysiter m]
      else match m_regex m with Some r => print_regex r | None => if m_istarget m then [] else [34; 34] end).

End Printer.
