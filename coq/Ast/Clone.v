(* ast.go: SelectStatement.Clone, cloneSources, cloneSource, Measurement.Clone, CloneExpr, CloneRegexLiteral —
   over ASTs whose heap objects carry their addresses.  Every Go pointer target (a node struct) and every
   slice backing array has a location; a clone is computed in an allocator monad in which  &T{...}  and
   make(...)  take a fresh location and copying a pointer or a slice header keeps the old one.  Immutable
   payloads that the code shares on purpose (compiled regexps, time locations, the boxed fill value, strings)
   are tracked separately. *)
From InfluxQL Require Import Base.Prelude Lex.Token Ast.Ast.

Definition loc := Z.

Inductive lexpr : Type :=
| LBin (p : loc) (op : token) (l r : lexpr)
| LCall (p : loc) (name : text) (pargs : loc) (args : list lexpr)
| LParen (p : loc) (e : lexpr)
| LRegex (p : loc) (rx : loc) (src : text)          (* rx: the *regexp.Regexp *)
| LList (p : loc) (pvals : loc) (vals : list text)
| LLeaf (p : loc) (e : expr).                      (* every other node kind: only immutable fields *)

Record lmeasurement : Type := mkLM {
  lm_p : loc; lm_db : text; lm_rp : text; lm_name : text;
  lm_regex : option (loc * loc * text);              (* RegexLiteral node, *regexp.Regexp, source *)
  lm_istarget : bool; lm_sysiter : text }.

Record lfield : Type := mkLF { lf_p : loc; lf_expr : lexpr; lf_alias : text }.
Record ldim : Type := mkLD { ld_p : loc; ld_expr : lexpr }.
Record lsort : Type := mkLS { lso_p : loc; lso_name : text; lso_asc : bool }.

Record lselect_ (S : Type) : Type := mkLSel {
  ls_p : loc;
  ls_pfields : loc; ls_fields : list lfield;
  ls_target : option (loc * lmeasurement);           (* *Target, its Measurement *)
  ls_pdims : loc; ls_dims : list ldim;
  ls_psources : loc; ls_sources : list S;
  ls_cond : option lexpr;
  ls_psort : loc; ls_sort : list lsort;
  ls_scalars : select                                (* every non-pointer field, as in the plain AST (lists ignored) *)
}.
Arguments mkLSel {S}. Arguments ls_p {S}. Arguments ls_pfields {S}. Arguments ls_fields {S}. Arguments ls_target {S}.
Arguments ls_pdims {S}. Arguments ls_dims {S}. Arguments ls_psources {S}. Arguments ls_sources {S}.
Arguments ls_cond {S}. Arguments ls_psort {S}. Arguments ls_sort {S}. Arguments ls_scalars {S}.

Inductive lsource : Type :=
| LSMeas (m : lmeasurement)
| LSSub (p : loc) (q : lselect_ lsource).
Definition lselect := lselect_ lsource.

(* ---- the allocator monad ---- *)
Definition M (A : Type) : Type := Z -> A * Z.
Definition ret {A} (a : A) : M A := fun n => (a, n).
Definition bindM {A B} (m : M A) (f : A -> M B) : M B := fun n => let '(a, n') := m n in f a n'.
Definition fresh : M loc := fun n => (n, n + 1).
Notation "x <-m e ;; f" := (bindM e (fun x => f)) (at level 61, e at next level, right associativity).

Fixpoint mapM {A B} (f : A -> M B) (l : list A) : M (list B) :=
  match l with
  | [] => ret []
  | x :: l' => y <-m f x ;; ys <-m mapM f l' ;; ret (y :: ys)
  end.

(* CloneExpr *)
Fixpoint clone_lexpr (e : lexpr) : M lexpr :=
  match e with
  | LBin _ op l r => l' <-m clone_lexpr l ;; r' <-m clone_lexpr r ;; p <-m fresh ;; ret (LBin p op l' r')
  | LCall _ name _ args =>
      pa <-m fresh ;;                                  (* args := make([]Expr, len(expr.Args)) *)
      args' <-m (fix go (l : list lexpr) : M (list lexpr) :=
                   match l with
                   | [] => ret []
                   | x :: l' => y <-m clone_lexpr x ;; ys <-m go l' ;; ret (y :: ys)
                   end) args ;;
      p <-m fresh ;; ret (LCall p name pa args')
  | LParen _ e' => e'' <-m clone_lexpr e' ;; p <-m fresh ;; ret (LParen p e'')
  | LRegex _ rx src => p <-m fresh ;; ret (LRegex p rx src)           (* &RegexLiteral{Val: expr.Val}: the Regexp is shared *)
  | LList _ _ vals => pv <-m fresh ;; p <-m fresh ;; ret (LList p pv vals)
  | LLeaf _ e' => p <-m fresh ;; ret (LLeaf p e')
  end.

(* Measurement.Clone: &RegexLiteral{Val: m.Regex.Val.Copy()} *)
Definition clone_lmeasurement (m : lmeasurement) : M lmeasurement :=
  re <-m (match lm_regex m with
          | Some (_, _, src) => pr <-m fresh ;; rx <-m fresh ;; ret (Some (pr, rx, src))
          | None => ret None
          end) ;;
  p <-m fresh ;;
  ret (mkLM p (lm_db m) (lm_rp m) (lm_name m) re (lm_istarget m) (lm_sysiter m)).

(* the Target of SelectStatement.Clone: field-by-field copy, CloneRegexLiteral (regexp.MustCompile: a new Regexp) *)
Definition clone_target (t : loc * lmeasurement) : M (loc * lmeasurement) :=
  let m := snd t in
  re <-m (match lm_regex m with
          | Some (_, _, src) => pr <-m fresh ;; rx <-m fresh ;; ret (Some (pr, rx, src))
          | None => ret None
          end) ;;
  pm <-m fresh ;; pt <-m fresh ;;
  ret (pt, mkLM pm (lm_db m) (lm_rp m) (lm_name m) re (lm_istarget m) (lm_sysiter m)).

Definition clone_lfield (f : lfield) : M lfield :=
  e <-m clone_lexpr (lf_expr f) ;; p <-m fresh ;; ret (mkLF p e (lf_alias f)).
Definition clone_ldim (d : ldim) : M ldim :=
  e <-m clone_lexpr (ld_expr d) ;; p <-m fresh ;; ret (mkLD p e).
Definition clone_lsort (s : lsort) : M lsort :=
  p <-m fresh ;; ret (mkLS p (lso_name s) (lso_asc s)).

Definition clone_ocond (c : option lexpr) : M (option lexpr) :=
  match c with Some x => x' <-m clone_lexpr x ;; ret (Some x') | None => ret None end.
Definition clone_otarget (t : option (loc * lmeasurement)) : M (option (loc * lmeasurement)) :=
  match t with Some x => x' <-m clone_target x ;; ret (Some x') | None => ret None end.

(* SelectStatement.Clone / cloneSources / cloneSource *)
Fixpoint clone_lsource (s : lsource) : M lsource :=
  match s with
  | LSMeas m => m' <-m clone_lmeasurement m ;; ret (LSMeas m')
  | LSSub _ q =>
      pf <-m fresh ;; pd <-m fresh ;;
      ps <-m fresh ;;
      srcs <-m (fix go (l : list lsource) : M (list lsource) :=
                  match l with
                  | [] => ret []
                  | x :: l' => y <-m clone_lsource x ;; ys <-m go l' ;; ret (y :: ys)
                  end) (ls_sources q) ;;
      pso <-m fresh ;;
      cond <-m clone_ocond (ls_cond q) ;;
      tgt <-m clone_otarget (ls_target q) ;;
      fs <-m mapM clone_lfield (ls_fields q) ;;
      ds <-m mapM clone_ldim (ls_dims q) ;;
      so <-m mapM clone_lsort (ls_sort q) ;;
      pq <-m fresh ;;
      psub <-m fresh ;;
      ret (LSSub psub (mkLSel pq pf fs tgt pd ds ps srcs cond pso so (ls_scalars q)))
  end.

Definition clone_lselect (q : lselect) : M lselect :=
  pf <-m fresh ;; pd <-m fresh ;;
  ps <-m fresh ;;
  srcs <-m mapM clone_lsource (ls_sources q) ;;
  pso <-m fresh ;;
  cond <-m clone_ocond (ls_cond q) ;;
  tgt <-m clone_otarget (ls_target q) ;;
  fs <-m mapM clone_lfield (ls_fields q) ;;
  ds <-m mapM clone_ldim (ls_dims q) ;;
  so <-m mapM clone_lsort (ls_sort q) ;;
  pq <-m fresh ;;
  ret (mkLSel pq pf fs tgt pd ds ps srcs cond pso so (ls_scalars q)).

(* ---- forgetting the addresses ---- *)
Fixpoint erase_lexpr (e : lexpr) : expr :=
  match e with
  | LBin _ op l r => BinaryExpr op (erase_lexpr l) (erase_lexpr r)
  | LCall _ name _ args => Call name (map erase_lexpr args)
  | LParen _ e' => ParenExpr (erase_lexpr e')
  | LRegex _ _ src => RegexLit src
  | LList _ _ vals => ListLit vals
  | LLeaf _ e' => e'
  end.
Definition erase_lmeasurement (m : lmeasurement) : measurement :=
  mkMeasurement (lm_db m) (lm_rp m) (lm_name m) (match lm_regex m with Some (_, _, s) => Some s | None => None end)
    (lm_istarget m) (lm_sysiter m).
Fixpoint erase_lsource (s : lsource) : source :=
  match s with
  | LSMeas m => SMeasurement (erase_lmeasurement m)
  | LSSub _ q =>
      let sc := ls_scalars q in
      SSubQuery (mkSelect (map (fun f => mkField (erase_lexpr (lf_expr f)) (lf_alias f)) (ls_fields q))
                   (match ls_target q with Some (_, m) => Some (erase_lmeasurement m) | None => None end)
                   (map (fun d => erase_lexpr (ld_expr d)) (ls_dims q))
                   (map erase_lsource (ls_sources q))
                   (match ls_cond q with Some c => Some (erase_lexpr c) | None => None end)
                   (map (fun s => mkSortField (lso_name s) (lso_asc s)) (ls_sort q))
                   (s_limit sc) (s_offset sc) (s_slimit sc) (s_soffset sc) (s_israw sc) (s_fill sc) (s_fillvalue sc)
                   (s_loc sc) (s_timealias sc) (s_omittime sc) (s_stripname sc) (s_emitname sc) (s_dedupe sc))
  end.
Definition erase_lselect (q : lselect) : select :=
  match erase_lsource (LSSub 0 q) with SSubQuery s => s | SMeasurement _ => ls_scalars q end.

(* ---- the mutable locations of a located AST (node structs and slice arrays), in preorder ---- *)
Fixpoint locs_lexpr (e : lexpr) : list loc :=
  match e with
  | LBin p _ l r => p :: locs_lexpr l ++ locs_lexpr r
  | LCall p _ pa args => p :: pa :: flat_map locs_lexpr args
  | LParen p e' => p :: locs_lexpr e'
  | LRegex p _ _ => [p]
  | LList p pv _ => [p; pv]
  | LLeaf p _ => [p]
  end.
(* *regexp.Regexp objects: immutable; shared by CloneExpr, copied by Measurement.Clone and CloneRegexLiteral *)
Fixpoint rx_lexpr (e : lexpr) : list loc :=
  match e with
  | LBin _ _ l r => rx_lexpr l ++ rx_lexpr r
  | LCall _ _ _ args => flat_map rx_lexpr args
  | LParen _ e' => rx_lexpr e'
  | LRegex _ rx _ => [rx]
  | _ => []
  end.
Definition locs_lmeasurement (m : lmeasurement) : list loc :=
  lm_p m :: match lm_regex m with Some (pr, _, _) => [pr] | None => [] end.
Definition locs_opt {A} (f : A -> list loc) (o : option A) : list loc := match o with Some a => f a | None => [] end.
Fixpoint locs_lsource (s : lsource) : list loc :=
  match s with
  | LSMeas m => locs_lmeasurement m
  | LSSub p q =>
      p :: ls_p q :: ls_pfields q :: ls_pdims q :: ls_psources q :: ls_psort q
      :: flat_map (fun f => lf_p f :: locs_lexpr (lf_expr f)) (ls_fields q)
      ++ locs_opt (fun t => fst t :: locs_lmeasurement (snd t)) (ls_target q)
      ++ flat_map (fun d => ld_p d :: locs_lexpr (ld_expr d)) (ls_dims q)
      ++ flat_map locs_lsource (ls_sources q)
      ++ locs_opt locs_lexpr (ls_cond q)
      ++ map lso_p (ls_sort q)
  end.
Definition locs_lselect (q : lselect) : list loc :=
  match locs_lsource (LSSub 0 q) with _ :: l => l | [] => [] end.

(* the compiled regexps of a located SELECT, in the same preorder *)
Fixpoint rx_lsource (s : lsource) : list loc :=
  match s with
  | LSMeas m => match lm_regex m with Some (_, rx, _) => [rx] | None => [] end
  | LSSub _ q =>
      flat_map (fun f => rx_lexpr (lf_expr f)) (ls_fields q)
      ++ locs_opt (fun t => match lm_regex (snd t) with Some (_, rx, _) => [rx] | None => [] end) (ls_target q)
      ++ flat_map (fun d => rx_lexpr (ld_expr d)) (ls_dims q)
      ++ flat_map rx_lsource (ls_sources q)
      ++ locs_opt rx_lexpr (ls_cond q)
  end.
Definition rx_lselect (q : lselect) : list loc := rx_lsource (LSSub 0 q).

(* laying a plain AST out in memory: every node and slice array gets the next address, in preorder *)
Fixpoint annot_expr (e : expr) : M lexpr :=
  match e with
  | BinaryExpr op l r => p <-m fresh ;; l' <-m annot_expr l ;; r' <-m annot_expr r ;; ret (LBin p op l' r')
  | Call name args =>
      p <-m fresh ;; pa <-m fresh ;;
      args' <-m (fix go (l : list expr) : M (list lexpr) :=
                   match l with
                   | [] => ret []
                   | x :: l' => y <-m annot_expr x ;; ys <-m go l' ;; ret (y :: ys)
                   end) args ;;
      ret (LCall p name pa args')
  | ParenExpr e' => p <-m fresh ;; e'' <-m annot_expr e' ;; ret (LParen p e'')
  | RegexLit src => p <-m fresh ;; rx <-m fresh ;; ret (LRegex p rx src)
  | ListLit vals => p <-m fresh ;; pv <-m fresh ;; ret (LList p pv vals)
  | _ => p <-m fresh ;; ret (LLeaf p e)
  end.
Definition annot_measurement (m : measurement) : M lmeasurement :=
  p <-m fresh ;;
  re <-m (match m_regex m with Some src => pr <-m fresh ;; rx <-m fresh ;; ret (Some (pr, rx, src)) | None => ret None end) ;;
  ret (mkLM p (m_db m) (m_rp m) (m_name m) re (m_istarget m) (m_sysiter m)).
Fixpoint annot_source (s : source) : M lsource :=
  match s with
  | SMeasurement m => m' <-m annot_measurement m ;; ret (LSMeas m')
  | SSubQuery q =>
      psub <-m fresh ;; pq <-m fresh ;; pf <-m fresh ;; pd <-m fresh ;; ps <-m fresh ;; pso <-m fresh ;;
      fs <-m mapM (fun f => p <-m fresh ;; e <-m annot_expr (f_expr f) ;; ret (mkLF p e (f_alias f))) (s_fields q) ;;
      tgt <-m (match s_target q with
               | Some m => pt <-m fresh ;; m' <-m annot_measurement m ;; ret (Some (pt, m'))
               | None => ret None end) ;;
      ds <-m mapM (fun d => p <-m fresh ;; e <-m annot_expr d ;; ret (mkLD p e)) (s_dims q) ;;
      srcs <-m (fix go (l : list source) : M (list lsource) :=
                  match l with
                  | [] => ret []
                  | x :: l' => y <-m annot_source x ;; ys <-m go l' ;; ret (y :: ys)
                  end) (s_sources q) ;;
      cond <-m (match s_cond q with Some c => c' <-m annot_expr c ;; ret (Some c') | None => ret None end) ;;
      so <-m mapM (fun s => p <-m fresh ;; ret (mkLS p (sf_name s) (sf_asc s))) (s_sort q) ;;
      ret (LSSub psub (mkLSel pq pf fs tgt pd ds ps srcs cond pso so q))
  end.
Definition annot_select (q : select) : M lselect :=
  fun n => match annot_source (SSubQuery q) n with
           | (LSSub _ lq, n') => (lq, n')
           | (LSMeas _, n') => (mkLSel 0 0 [] None 0 [] 0 [] None 0 [] q, n')
           end.
