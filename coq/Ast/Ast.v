(* ast.go: the node types, constructor for constructor.  Nothing is tidied:
   a BinaryExpr admits any operands, a Call any argument list. *)
From InfluxQL Require Import Base.Prelude Lex.Token.

(* float64 values travel as their IEEE-754 bit pattern (0 <= bits < 2^64);
   all arithmetic on them is an oracle (Base/Oracles.v). *)
Definition F := Z.

Inductive datatype : Set :=
| DUnknown | DFloat | DInteger | DString | DBoolean | DTime | DDuration | DTag | DAnyField | DUnsigned.

Definition datatype_code (d : datatype) : Z :=
  match d with
  | DUnknown => 0 | DFloat => 1 | DInteger => 2 | DString => 3 | DBoolean => 4
  | DTime => 5 | DDuration => 6 | DTag => 7 | DAnyField => 8 | DUnsigned => 9
  end.
Definition all_datatypes := [DUnknown; DFloat; DInteger; DString; DBoolean; DTime; DDuration; DTag; DAnyField; DUnsigned].
Definition datatype_eqb (a b : datatype) : bool := Z.eqb (datatype_code a) (datatype_code b).
Definition datatype_of_code (c : Z) : option datatype :=
  find (fun d => Z.eqb (datatype_code d) c) all_datatypes.

Lemma datatype_eqb_spec a b : reflect (a = b) (datatype_eqb a b).
Proof. destruct a, b; simpl; constructor; congruence. Qed.

(* DataType.String() *)
Definition datatype_string (d : datatype) : text :=
  match d with
  | DFloat => ts "float" | DInteger => ts "integer" | DUnsigned => ts "unsigned"
  | DString => ts "string" | DBoolean => ts "boolean" | DTime => ts "time"
  | DDuration => ts "duration" | DTag => ts "tag" | DAnyField => ts "field"
  | DUnknown => ts "unknown"
  end.

Inductive expr : Type :=
| BinaryExpr (op : token) (l r : expr)
| BooleanLit (b : bool)
| BoundParam (name : text)
| Call (name : text) (args : list expr)
| Distinct (v : text)
| DurationLit (d : Z)            (* nanoseconds, int64 *)
| IntegerLit (i : Z)             (* int64 *)
| UnsignedLit (u : Z)            (* uint64 *)
| NilLit
| NumberLit (f : F)
| ParenExpr (e : expr)
| RegexLit (r : text)            (* the pattern's source text, Regexp.String() *)
| ListLit (vs : list text)
| StringLit (s : text)
| TimeLit (t : Z)                (* instant: nanoseconds since the Unix epoch, unbounded *)
| VarRef (v : text) (t : datatype)
| Wildcard (t : token).          (* ILLEGAL (zero value), FIELD or TAG *)

(* induction principle that reaches into Call arguments *)
Section expr_ind'.
  Variable P : expr -> Prop.
  Hypothesis HBin : forall op l r, P l -> P r -> P (BinaryExpr op l r).
  Hypothesis HBool : forall b, P (BooleanLit b).
  Hypothesis HBound : forall n, P (BoundParam n).
  Hypothesis HCall : forall n args, Forall P args -> P (Call n args).
  Hypothesis HDistinct : forall v, P (Distinct v).
  Hypothesis HDur : forall d, P (DurationLit d).
  Hypothesis HInt : forall i, P (IntegerLit i).
  Hypothesis HUns : forall u, P (UnsignedLit u).
  Hypothesis HNil : P NilLit.
  Hypothesis HNum : forall f, P (NumberLit f).
  Hypothesis HParen : forall e, P e -> P (ParenExpr e).
  Hypothesis HRegex : forall r, P (RegexLit r).
  Hypothesis HList : forall vs, P (ListLit vs).
  Hypothesis HStr : forall s, P (StringLit s).
  Hypothesis HTime : forall t, P (TimeLit t).
  Hypothesis HVar : forall v t, P (VarRef v t).
  Hypothesis HWild : forall t, P (Wildcard t).

  Fixpoint expr_ind' (e : expr) : P e :=
    match e with
    | BinaryExpr op l r => HBin op l r (expr_ind' l) (expr_ind' r)
    | BooleanLit b => HBool b
    | BoundParam n => HBound n
    | Call n args =>
        HCall n args
          ((fix go (l : list expr) : Forall P l :=
              match l with
              | [] => Forall_nil P
              | x :: l' => Forall_cons x (expr_ind' x) (go l')
              end) args)
    | Distinct v => HDistinct v
    | DurationLit d => HDur d
    | IntegerLit i => HInt i
    | UnsignedLit u => HUns u
    | NilLit => HNil
    | NumberLit f => HNum f
    | ParenExpr e' => HParen e' (expr_ind' e')
    | RegexLit r => HRegex r
    | ListLit vs => HList vs
    | StringLit s => HStr s
    | TimeLit t => HTime t
    | VarRef v t => HVar v t
    | Wildcard t => HWild t
    end.
End expr_ind'.

Fixpoint list_eqb {A} (eqb : A -> A -> bool) (a b : list A) : bool :=
  match a, b with
  | [], [] => true
  | x :: a', y :: b' => eqb x y && list_eqb eqb a' b'
  | _, _ => false
  end.

Fixpoint expr_eqb (a b : expr) : bool :=
  match a, b with
  | BinaryExpr o l r, BinaryExpr o' l' r' => tok_eqb o o' && expr_eqb l l' && expr_eqb r r'
  | BooleanLit x, BooleanLit y => Bool.eqb x y
  | BoundParam x, BoundParam y => text_eqb x y
  | Call n xs, Call n' ys =>
      text_eqb n n' &&
      (fix go (xs ys : list expr) : bool :=
         match xs, ys with
         | [], [] => true
         | x :: xs', y :: ys' => expr_eqb x y && go xs' ys'
         | _, _ => false
         end) xs ys
  | Distinct x, Distinct y => text_eqb x y
  | DurationLit x, DurationLit y => Z.eqb x y
  | IntegerLit x, IntegerLit y => Z.eqb x y
  | UnsignedLit x, UnsignedLit y => Z.eqb x y
  | NilLit, NilLit => true
  | NumberLit x, NumberLit y => Z.eqb x y
  | ParenExpr x, ParenExpr y => expr_eqb x y
  | RegexLit x, RegexLit y => text_eqb x y
  | ListLit x, ListLit y => list_eqb text_eqb x y
  | StringLit x, StringLit y => text_eqb x y
  | TimeLit x, TimeLit y => Z.eqb x y
  | VarRef x t, VarRef y t' => text_eqb x y && datatype_eqb t t'
  | Wildcard x, Wildcard y => tok_eqb x y
  | _, _ => false
  end.

Record measurement : Type := mkMeasurement {
  m_db : text;
  m_rp : text;
  m_name : text;
  m_regex : option text;       (* *RegexLiteral *)
  m_istarget : bool;
  m_sysiter : text
}.

Record field : Type := mkField { f_expr : expr; f_alias : text }.
Record sortfield : Type := mkSortField { sf_name : text; sf_asc : bool }.

Inductive fillopt : Set := NullFill | NoFill | NumberFill | PreviousFill | LinearFill.
Definition fillopt_code (f : fillopt) : Z :=
  match f with NullFill => 0 | NoFill => 1 | NumberFill => 2 | PreviousFill => 3 | LinearFill => 4 end.
Inductive fillvalue : Type := FVNone | FVInt (i : Z) | FVFloat (f : F).

(* SelectStatement; parametric in the source type so that the mutual
   recursion with SubQuery is an ordinary nested inductive.  The unexported
   memo field groupByInterval is not part of the structural value. *)
Record select_ (S : Type) : Type := mkSelect {
  s_fields : list field;
  s_target : option measurement;     (* *Target{Measurement} *)
  s_dims : list expr;                (* Dimensions: each Dimension{Expr} *)
  s_sources : list S;
  s_cond : option expr;
  s_sort : list sortfield;
  s_limit : Z;
  s_offset : Z;
  s_slimit : Z;
  s_soffset : Z;
  s_israw : bool;
  s_fill : fillopt;
  s_fillvalue : fillvalue;
  s_loc : option text;               (* *time.Location by name *)
  s_timealias : text;
  s_omittime : bool;
  s_stripname : bool;
  s_emitname : text;
  s_dedupe : bool
}.
Arguments mkSelect {S}.
Arguments s_fields {S}. Arguments s_target {S}. Arguments s_dims {S}. Arguments s_sources {S}.
Arguments s_cond {S}. Arguments s_sort {S}. Arguments s_limit {S}. Arguments s_offset {S}.
Arguments s_slimit {S}. Arguments s_soffset {S}. Arguments s_israw {S}. Arguments s_fill {S}.
Arguments s_fillvalue {S}. Arguments s_loc {S}. Arguments s_timealias {S}. Arguments s_omittime {S}.
Arguments s_stripname {S}. Arguments s_emitname {S}. Arguments s_dedupe {S}.

Inductive source : Type :=
| SMeasurement (m : measurement)
| SSubQuery (s : select_ source).
Definition select := select_ source.

Inductive privilege : Set := NoPrivileges | ReadPrivilege | WritePrivilege | AllPrivileges.
Definition privilege_code (p : privilege) : Z :=
  match p with NoPrivileges => 0 | ReadPrivilege => 1 | WritePrivilege => 2 | AllPrivileges => 3 end.

(* One constructor per statement type; arguments in the order of the Go
   struct's fields.  *T pointers to scalars are options. *)
Inductive stmt : Type :=
| AlterRetentionPolicy (name db : text) (duration : option Z) (replication : option Z) (default : bool)
    (shard : option Z) (future past : option Z)
| CreateContinuousQuery (name db : text) (src : select) (every for_ : Z)
| CreateDatabase (name : text) (rpcreate : bool) (rpdur : option Z) (rprepl : option Z) (rpname : text)
    (rpshard : Z) (future past : option Z)
| CreateRetentionPolicy (name db : text) (duration : Z) (replication : Z) (default : bool)
    (shard future past : Z)
| CreateSubscription (name db rp : text) (dests : list text) (mode : text)
| CreateUser (name password : text) (admin : bool)
| DeleteSeries (sources : list source) (cond : option expr)
| DropContinuousQuery (name db : text)
| DropDatabase (name : text)
| DropMeasurement (name : text)
| DropRetentionPolicy (name db : text)
| DropSeries (sources : list source) (cond : option expr)
| DropShard (id : Z)
| DropSubscription (name db rp : text)
| DropUser (name : text)
| Explain (s : select) (analyze verbose : bool)
| Grant (p : privilege) (on user : text)
| GrantAdmin (user : text)
| KillQuery (id : Z) (host : text)
| Revoke (p : privilege) (on user : text)
| RevokeAdmin (user : text)
| Select (s : select)
| SetPasswordUser (password name : text)
| ShowContinuousQueries
| ShowDatabases
| ShowDiagnostics (module : text)
| ShowFieldKeyCardinality (db : text) (exact : bool) (sources : list source) (cond : option expr)
    (dims : list expr) (limit offset : Z)
| ShowFieldKeys (db : text) (sources : list source) (sort : list sortfield) (limit offset : Z)
| ShowGrantsForUser (name : text)
| ShowMeasurementCardinality (exact : bool) (db : text) (sources : list source) (cond : option expr)
    (dims : list expr) (limit offset : Z)
| ShowMeasurements (db rp : text) (wdb wrp : bool) (src : option source) (cond : option expr)
    (sort : list sortfield) (limit offset : Z)
| ShowQueries
| ShowRetentionPolicies (db : text)
| ShowSeries (db : text) (sources : list source) (cond : option expr) (sort : list sortfield) (limit offset : Z)
| ShowSeriesCardinality (db : text) (exact : bool) (sources : list source) (cond : option expr)
    (dims : list expr) (limit offset : Z)
| ShowShardGroups
| ShowShards
| ShowStats (module : text)
| ShowSubscriptions
| ShowTagKeyCardinality (db : text) (exact : bool) (sources : list source) (cond : option expr)
    (dims : list expr) (limit offset : Z)
| ShowTagKeys (db : text) (sources : list source) (op : token) (keyexpr : option expr) (cond : option expr)
    (sort : list sortfield) (limit offset slimit soffset : Z)
| ShowTagValues (db : text) (sources : list source) (op : token) (keyexpr : option expr) (cond : option expr)
    (sort : list sortfield) (limit offset : Z)
| ShowTagValuesCardinality (db : text) (exact : bool) (sources : list source) (op : token)
    (keyexpr : option expr) (cond : option expr) (dims : list expr) (limit offset : Z)
| ShowUsers.
