(* ast.go: SelectStatement.ColumnNames, Field.Name, BinaryExprName, TimeFieldName. *)
From InfluxQL Require Import Base.Prelude Lex.Token Ast.Ast.

Fixpoint join_us (l : list text) : text :=
  match l with
  | [] => []
  | [x] => x
  | x :: l' => x ++ 95 :: join_us l'
  end.

(* binaryExprNameVisitor over Walk: VarRef values and Call names (no descent below a Call), through
   BinaryExpr and ParenExpr *)
Fixpoint bin_names (e : expr) : list text :=
  match e with
  | VarRef v _ => [v]
  | Call n _ => [n]
  | BinaryExpr _ l r => bin_names l ++ bin_names r
  | ParenExpr e' => bin_names e'
  | _ => []
  end.

(* Field.Name without the alias *)
Fixpoint expr_name (e : expr) : text :=
  match e with
  | Call n _ => n
  | BinaryExpr _ l r => join_us (bin_names l ++ bin_names r)
  | ParenExpr e' => expr_name e'
  | VarRef v _ => v
  | _ => []
  end.
Definition field_name (f : field) : text :=
  match f_alias f with [] => expr_name (f_expr f) | a => a end.

Definition time_field_name (q : select) : text :=
  match s_timealias q with [] => ts "time" | a => a end.

(* first pass: the fields, each top()/bottom() call (without INTO) followed by its VarRef arguments after the first *)
Definition var_ref_fields (args : list expr) : list field :=
  flat_map (fun a => match a with VarRef _ _ => [mkField a []] | _ => [] end) args.
Definition column_fields (q : select) : list field :=
  flat_map (fun f =>
    f :: match f_expr f with
         | Call n args =>
             match s_target q with
             | None => if text_eqb n (ts "top") || text_eqb n (ts "bottom")
                       then match args with [] => [] | _ :: rest => var_ref_fields rest end
                       else []
             | Some _ => []
             end
         | _ => []
         end) (s_fields q).

(* the names map: only looked up and updated, never iterated *)
Definition names_t := list (text * Z).
Fixpoint lookup_name (k : text) (m : names_t) : option Z :=
  match m with
  | [] => None
  | (k', v) :: m' => if text_eqb k k' then Some v else lookup_name k m'
  end.
Fixpoint set_name (k : text) (v : Z) (m : names_t) : names_t :=
  match m with
  | [] => [(k, v)]
  | (k', v') :: m' => if text_eqb k k' then (k', v) :: m' else (k', v') :: set_name k v m'
  end.
Definition incr_name (k : text) (m : names_t) : names_t :=
  set_name k (match lookup_name k m with Some v => v + 1 | None => 1 end) m.

Definition suffixed (name : text) (count : Z) : text := name ++ 95 :: dec count.

(* the  for { resolvedName := name_count ... count++ }  loop: the first free suffix *)
Fixpoint resolve (fuel : nat) (m : names_t) (name : text) (count : Z) : option (text * Z) :=
  match fuel with
  | O => None
  | S f =>
      match lookup_name (suffixed name count) m with
      | None => Some (suffixed name count, count)
      | Some _ => resolve f m name (count + 1)
      end
  end.

(* second pass over the columns; aliased columns keep their alias *)
Fixpoint gen_pass (cols : list field) (m : names_t) : res (list text) :=
  match cols with
  | [] => Ok []
  | c :: cols' =>
      match f_alias c with
      | _ :: _ => rest <-r gen_pass cols' m ;; Ok (f_alias c :: rest)
      | [] =>
          let name := expr_name (f_expr c) in
          match lookup_name name m with
          | None => rest <-r gen_pass cols' (incr_name name m) ;; Ok (name :: rest)
          | Some count =>
              match resolve (S (length m)) m name count with
              | None => OutOfFuel
              | Some (resolved, count') =>
                  let m1 := set_name name (count' + 1) m in
                  rest <-r gen_pass cols' (incr_name resolved m1) ;; Ok (resolved :: rest)
              end
          end
      end
  end.

Definition alias_pass (cols : list field) : names_t :=
  fold_left (fun m c => match f_alias c with [] => m | a => set_name a 1 m end) cols [].

Definition field_columns (q : select) : res (list text) :=
  let cols := column_fields q in gen_pass cols (alias_pass cols).
Definition column_names (q : select) : res (list text) :=
  cols <-r field_columns q ;;
  Ok (if s_omittime q then cols else time_field_name q :: cols).
