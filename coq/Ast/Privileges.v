(* ast.go: RequiredPrivileges of every statement type, Sources.RequiredPrivileges. *)
From InfluxQL Require Import Base.Prelude Lex.Token Ast.Ast.

Record epriv : Type := mkPriv { ep_admin : bool; ep_name : text; ep_priv : privilege }.

(* Sources.RequiredPrivileges / SelectStatement.RequiredPrivileges (mutually recursive through SubQuery) *)
Fixpoint source_privs (s : source) : list epriv :=
  match s with
  | SMeasurement m => [mkPriv false (m_db m) ReadPrivilege]
  | SSubQuery q =>
      flat_map source_privs (s_sources q)
      ++ (match s_target q with Some t => [mkPriv false (m_db t) WritePrivilege] | None => [] end)
  end.
Definition sources_privs (ss : list source) : list epriv := flat_map source_privs ss.
Definition select_privs (q : select) : list epriv :=
  sources_privs (s_sources q)
  ++ (match s_target q with Some t => [mkPriv false (m_db t) WritePrivilege] | None => [] end).

Definition admin_all : list epriv := [mkPriv true [] AllPrivileges].
Definition read_on (db : text) : list epriv := [mkPriv false db ReadPrivilege].
Definition write_on (db : text) : list epriv := [mkPriv false db WritePrivilege].
(* the cardinality forms: privileges of the FROM sources, read on the statement's database without FROM *)
Definition card_privs (db : text) (ss : list source) : list epriv :=
  match ss with [] => read_on db | _ => sources_privs ss end.

Definition stmt_privs (s : stmt) : list epriv :=
  match s with
  | AlterRetentionPolicy _ _ _ _ _ _ _ _ => admin_all
  | CreateContinuousQuery _ db src _ _ =>
      (* s.Source.Target is never nil for a parsed statement (INTO is required); a nil Target would be a nil dereference *)
      match s_target src with
      | Some t => if is_nil (m_db t) then read_on db
                  else [mkPriv false db ReadPrivilege; mkPriv false (m_db t) WritePrivilege]
      | None => read_on db
      end
  | CreateDatabase _ _ _ _ _ _ _ _ => admin_all
  | CreateRetentionPolicy _ _ _ _ _ _ _ _ => admin_all
  | CreateSubscription _ _ _ _ _ => admin_all
  | CreateUser _ _ _ => admin_all
  | DeleteSeries _ _ => write_on []
  | DropContinuousQuery _ db => write_on db
  | DropDatabase _ => admin_all
  | DropMeasurement _ => admin_all
  | DropRetentionPolicy _ db => write_on db
  | DropSeries _ _ => write_on []
  | DropShard _ => admin_all
  | DropSubscription _ _ _ => admin_all
  | DropUser _ => admin_all
  | Explain q _ _ => select_privs q
  | Grant _ _ _ => admin_all
  | GrantAdmin _ => admin_all
  | KillQuery _ _ => admin_all
  | Revoke _ _ _ => admin_all
  | RevokeAdmin _ => admin_all
  | Select q => select_privs q
  | SetPasswordUser _ _ => admin_all
  | ShowContinuousQueries => read_on []
  | ShowDatabases => [mkPriv false [] NoPrivileges]
  | ShowDiagnostics _ => admin_all
  | ShowFieldKeyCardinality db _ ss _ _ _ _ => card_privs db ss
  | ShowFieldKeys db _ _ _ _ => read_on db
  | ShowGrantsForUser _ => admin_all
  | ShowMeasurementCardinality ex db ss _ _ _ _ => if ex then card_privs db ss else read_on db
  | ShowMeasurements db _ _ _ _ _ _ _ _ => read_on db
  | ShowQueries => read_on []
  | ShowRetentionPolicies db => read_on db
  | ShowSeries db _ _ _ _ _ => read_on db
  | ShowSeriesCardinality db ex ss _ _ _ _ => if ex then card_privs db ss else read_on db
  | ShowShardGroups => admin_all
  | ShowShards => admin_all
  | ShowStats _ => admin_all
  | ShowSubscriptions => admin_all
  | ShowTagKeyCardinality db _ ss _ _ _ _ => card_privs db ss
  | ShowTagKeys db _ _ _ _ _ _ _ _ _ => read_on db
  | ShowTagValues db _ _ _ _ _ _ _ => read_on db
  | ShowTagValuesCardinality db _ ss _ _ _ _ _ _ => card_privs db ss
  | ShowUsers => admin_all
  end.

(* ---- the specification side: what a SELECT reads, at any depth ---- *)
Fixpoint source_reads (s : source) : list measurement :=
  match s with
  | SMeasurement m => [m]
  | SSubQuery q => flat_map source_reads (s_sources q)
  end.
Definition select_reads (q : select) : list measurement := flat_map source_reads (s_sources q).

(* every SELECT at any depth has at least one source (the parser's FROM clause is mandatory) *)
Fixpoint source_has_from (s : source) : bool :=
  match s with
  | SMeasurement _ => true
  | SSubQuery q => negb (is_nil (s_sources q)) && forallb source_has_from (s_sources q)
  end.
Definition select_has_from (q : select) : bool :=
  negb (is_nil (s_sources q)) && forallb source_has_from (s_sources q).

(* the statements the property lists as administrative *)
Definition admin_kind (s : stmt) : bool :=
  match s with
  | CreateUser _ _ _ | DropUser _ | SetPasswordUser _ _ | Grant _ _ _ | GrantAdmin _ | Revoke _ _ _ | RevokeAdmin _
  | CreateDatabase _ _ _ _ _ _ _ _ | DropDatabase _
  | CreateRetentionPolicy _ _ _ _ _ _ _ _ | AlterRetentionPolicy _ _ _ _ _ _ _ _
  | CreateSubscription _ _ _ _ _ | DropSubscription _ _ _ | ShowSubscriptions
  | DropShard _ | DropMeasurement _ | KillQuery _ _
  | ShowUsers | ShowGrantsForUser _ | ShowShards | ShowShardGroups | ShowStats _ | ShowDiagnostics _ => true
  | _ => false
  end.
