(* S-expression codec for measurements, sources, SELECT and all statements.
   stmt: (tag field ...) with the constructor's arguments in order; tag = the
   constructor's 1-based position in [stmt]. *)
From InfluxQL Require Import Base.Prelude Base.Sexp Lex.Token Ast.Ast.

Definition se_measurement (m : measurement) : sexp :=
  L [se_text (m_db m); se_text (m_rp m); se_text (m_name m); se_opt se_text (m_regex m);
     se_bool (m_istarget m); se_text (m_sysiter m)].
Definition se_field (f : field) : sexp := L [se_expr (f_expr f); se_text (f_alias f)].
Definition se_sortfield (f : sortfield) : sexp := L [se_text (sf_name f); se_bool (sf_asc f)].
Definition se_fillvalue (v : fillvalue) : sexp :=
  match v with FVNone => L [A 0] | FVInt i => L [A 1; A i] | FVFloat f => L [A 2; A f] end.

Fixpoint se_source (s : source) : sexp :=
  match s with
  | SMeasurement m => L [A 1; se_measurement m]
  | SSubQuery q =>
      L [A 2;
         L [se_list se_field (s_fields q); se_opt se_measurement (s_target q); se_list se_expr (s_dims q);
            L (map se_source (s_sources q)); se_opt se_expr (s_cond q); se_list se_sortfield (s_sort q);
            A (s_limit q); A (s_offset q); A (s_slimit q); A (s_soffset q); se_bool (s_israw q);
            A (fillopt_code (s_fill q)); se_fillvalue (s_fillvalue q); se_opt se_text (s_loc q);
            se_text (s_timealias q); se_bool (s_omittime q); se_bool (s_stripname q);
            se_text (s_emitname q); se_bool (s_dedupe q)]]
  end.
Definition se_select (q : select) : sexp :=
  match se_source (SSubQuery q) with L [_; x] => x | x => x end.
Definition se_sources (l : list source) : sexp := L (map se_source l).
Definition se_oexpr := se_opt se_expr.
Definition se_exprs := se_list se_expr.
Definition se_oz := se_opt A.
Definition se_priv (p : privilege) : sexp := A (privilege_code p).

Definition se_stmt (s : stmt) : sexp :=
  match s with
  | AlterRetentionPolicy n db d r df sh fu pa =>
      L [A 1; se_text n; se_text db; se_oz d; se_oz r; se_bool df; se_oz sh; se_oz fu; se_oz pa]
  | CreateContinuousQuery n db src ev fo => L [A 2; se_text n; se_text db; se_select src; A ev; A fo]
  | CreateDatabase n rc rd rr rn rs fu pa =>
      L [A 3; se_text n; se_bool rc; se_oz rd; se_oz rr; se_text rn; A rs; se_oz fu; se_oz pa]
  | CreateRetentionPolicy n db d r df sh fu pa =>
      L [A 4; se_text n; se_text db; A d; A r; se_bool df; A sh; A fu; A pa]
  | CreateSubscription n db rp ds m => L [A 5; se_text n; se_text db; se_text rp; se_list se_text ds; se_text m]
  | CreateUser n p a => L [A 6; se_text n; se_text p; se_bool a]
  | DeleteSeries ss c => L [A 7; se_sources ss; se_oexpr c]
  | DropContinuousQuery n db => L [A 8; se_text n; se_text db]
  | DropDatabase n => L [A 9; se_text n]
  | DropMeasurement n => L [A 10; se_text n]
  | DropRetentionPolicy n db => L [A 11; se_text n; se_text db]
  | DropSeries ss c => L [A 12; se_sources ss; se_oexpr c]
  | DropShard id => L [A 13; A id]
  | DropSubscription n db rp => L [A 14; se_text n; se_text db; se_text rp]
  | DropUser n => L [A 15; se_text n]
  | Explain q an vb => L [A 16; se_select q; se_bool an; se_bool vb]
  | Grant p on u => L [A 17; se_priv p; se_text on; se_text u]
  | GrantAdmin u => L [A 18; se_text u]
  | KillQuery id h => L [A 19; A id; se_text h]
  | Revoke p on u => L [A 20; se_priv p; se_text on; se_text u]
  | RevokeAdmin u => L [A 21; se_text u]
  | Select q => L [A 22; se_select q]
  | SetPasswordUser p n => L [A 23; se_text p; se_text n]
  | ShowContinuousQueries => L [A 24]
  | ShowDatabases => L [A 25]
  | ShowDiagnostics m => L [A 26; se_text m]
  | ShowFieldKeyCardinality db ex ss c ds li of_ =>
      L [A 27; se_text db; se_bool ex; se_sources ss; se_oexpr c; se_exprs ds; A li; A of_]
  | ShowFieldKeys db ss so li of_ => L [A 28; se_text db; se_sources ss; se_list se_sortfield so; A li; A of_]
  | ShowGrantsForUser n => L [A 29; se_text n]
  | ShowMeasurementCardinality ex db ss c ds li of_ =>
      L [A 30; se_bool ex; se_text db; se_sources ss; se_oexpr c; se_exprs ds; A li; A of_]
  | ShowMeasurements db rp wdb wrp src c so li of_ =>
      L [A 31; se_text db; se_text rp; se_bool wdb; se_bool wrp; se_opt se_source src; se_oexpr c;
         se_list se_sortfield so; A li; A of_]
  | ShowQueries => L [A 32]
  | ShowRetentionPolicies db => L [A 33; se_text db]
  | ShowSeries db ss c so li of_ => L [A 34; se_text db; se_sources ss; se_oexpr c; se_list se_sortfield so; A li; A of_]
  | ShowSeriesCardinality db ex ss c ds li of_ =>
      L [A 35; se_text db; se_bool ex; se_sources ss; se_oexpr c; se_exprs ds; A li; A of_]
  | ShowShardGroups => L [A 36]
  | ShowShards => L [A 37]
  | ShowStats m => L [A 38; se_text m]
  | ShowSubscriptions => L [A 39]
  | ShowTagKeyCardinality db ex ss c ds li of_ =>
      L [A 40; se_text db; se_bool ex; se_sources ss; se_oexpr c; se_exprs ds; A li; A of_]
  | ShowTagKeys db ss op ke c so li of_ sl sof =>
      L [A 41; se_text db; se_sources ss; se_tok op; se_oexpr ke; se_oexpr c; se_list se_sortfield so;
         A li; A of_; A sl; A sof]
  | ShowTagValues db ss op ke c so li of_ =>
      L [A 42; se_text db; se_sources ss; se_tok op; se_oexpr ke; se_oexpr c; se_list se_sortfield so; A li; A of_]
  | ShowTagValuesCardinality db ex ss op ke c ds li of_ =>
      L [A 43; se_text db; se_bool ex; se_sources ss; se_tok op; se_oexpr ke; se_oexpr c; se_exprs ds; A li; A of_]
  | ShowUsers => L [A 44]
  end.

(* ---- decoders ---- *)
Definition sd_measurement (s : sexp) : option measurement :=
  match s with
  | L [db; rp; n; re; it; si] =>
      db' <-o sd_text db ;; rp' <-o sd_text rp ;; n' <-o sd_text n ;; re' <-o sd_opt sd_text re ;;
      it' <-o sd_bool it ;; si' <-o sd_text si ;; Some (mkMeasurement db' rp' n' re' it' si')
  | _ => None
  end.
Definition sd_field (s : sexp) : option field :=
  match s with L [e; a] => e' <-o sd_expr e ;; a' <-o sd_text a ;; Some (mkField e' a') | _ => None end.
Definition sd_sortfield (s : sexp) : option sortfield :=
  match s with L [n; a] => n' <-o sd_text n ;; a' <-o sd_bool a ;; Some (mkSortField n' a') | _ => None end.
Definition sd_fillvalue (s : sexp) : option fillvalue :=
  match s with
  | L [A 0] => Some FVNone | L [A 1; A i] => Some (FVInt i) | L [A 2; A f] => Some (FVFloat f) | _ => None
  end.
Definition sd_fillopt (s : sexp) : option fillopt :=
  match s with
  | A 0 => Some NullFill | A 1 => Some NoFill | A 2 => Some NumberFill | A 3 => Some PreviousFill
  | A 4 => Some LinearFill | _ => None
  end.
Definition sd_priv (s : sexp) : option privilege :=
  match s with
  | A 0 => Some NoPrivileges | A 1 => Some ReadPrivilege | A 2 => Some WritePrivilege | A 3 => Some AllPrivileges
  | _ => None
  end.

Fixpoint sd_source (s : sexp) : option source :=
  match s with
  | L [A 1; m] => option_map SMeasurement (sd_measurement m)
  | L [A 2; L [fs; tg; ds; L ss; c; so; A li; A of_; A sl; A sof; raw; A fi; fv; loc; ta; ot; sn; en; dd]] =>
      fs' <-o sd_list sd_field fs ;; tg' <-o sd_opt sd_measurement tg ;; ds' <-o sd_list sd_expr ds ;;
      ss' <-o (fix go (l : list sexp) : option (list source) :=
                 match l with
                 | [] => Some []
                 | x :: l' => x' <-o sd_source x ;; r <-o go l' ;; Some (x' :: r)
                 end) ss ;;
      c' <-o sd_opt sd_expr c ;; so' <-o sd_list sd_sortfield so ;; raw' <-o sd_bool raw ;;
      fi' <-o sd_fillopt (A fi) ;; fv' <-o sd_fillvalue fv ;; loc' <-o sd_opt sd_text loc ;;
      ta' <-o sd_text ta ;; ot' <-o sd_bool ot ;; sn' <-o sd_bool sn ;; en' <-o sd_text en ;; dd' <-o sd_bool dd ;;
      Some (SSubQuery (mkSelect fs' tg' ds' ss' c' so' li of_ sl sof raw' fi' fv' loc' ta' ot' sn' en' dd'))
  | _ => None
  end.
Definition sd_select (s : sexp) : option select :=
  match sd_source (L [A 2; s]) with Some (SSubQuery q) => Some q | _ => None end.
Definition sd_sources := sd_list sd_source.
Definition sd_oexpr := sd_opt sd_expr.
Definition sd_exprs := sd_list sd_expr.
Definition sd_oz := sd_opt sd_z.

Definition sd_stmt (s : sexp) : option stmt :=
  match s with
  | L (A tag :: args) =>
      match Z.to_nat tag, args with
      | 1%nat, [n; db; d; r; df; sh; fu; pa] =>
          n' <-o sd_text n ;; db' <-o sd_text db ;; d' <-o sd_oz d ;; r' <-o sd_oz r ;; df' <-o sd_bool df ;;
          sh' <-o sd_oz sh ;; fu' <-o sd_oz fu ;; pa' <-o sd_oz pa ;;
          Some (AlterRetentionPolicy n' db' d' r' df' sh' fu' pa')
      | 2%nat, [n; db; src; A ev; A fo] =>
          n' <-o sd_text n ;; db' <-o sd_text db ;; src' <-o sd_select src ;;
          Some (CreateContinuousQuery n' db' src' ev fo)
      | 3%nat, [n; rc; rd; rr; rn; A rs; fu; pa] =>
          n' <-o sd_text n ;; rc' <-o sd_bool rc ;; rd' <-o sd_oz rd ;; rr' <-o sd_oz rr ;; rn' <-o sd_text rn ;;
          fu' <-o sd_oz fu ;; pa' <-o sd_oz pa ;; Some (CreateDatabase n' rc' rd' rr' rn' rs fu' pa')
      | 4%nat, [n; db; A d; A r; df; A sh; A fu; A pa] =>
          n' <-o sd_text n ;; db' <-o sd_text db ;; df' <-o sd_bool df ;;
          Some (CreateRetentionPolicy n' db' d r df' sh fu pa)
      | 5%nat, [n; db; rp; ds; m] =>
          n' <-o sd_text n ;; db' <-o sd_text db ;; rp' <-o sd_text rp ;; ds' <-o sd_list sd_text ds ;;
          m' <-o sd_text m ;; Some (CreateSubscription n' db' rp' ds' m')
      | 6%nat, [n; p; a] => n' <-o sd_text n ;; p' <-o sd_text p ;; a' <-o sd_bool a ;; Some (CreateUser n' p' a')
      | 7%nat, [ss; c] => ss' <-o sd_sources ss ;; c' <-o sd_oexpr c ;; Some (DeleteSeries ss' c')
      | 8%nat, [n; db] => n' <-o sd_text n ;; db' <-o sd_text db ;; Some (DropContinuousQuery n' db')
      | 9%nat, [n] => option_map DropDatabase (sd_text n)
      | 10%nat, [n] => option_map DropMeasurement (sd_text n)
      | 11%nat, [n; db] => n' <-o sd_text n ;; db' <-o sd_text db ;; Some (DropRetentionPolicy n' db')
      | 12%nat, [ss; c] => ss' <-o sd_sources ss ;; c' <-o sd_oexpr c ;; Some (DropSeries ss' c')
      | 13%nat, [A id] => Some (DropShard id)
      | 14%nat, [n; db; rp] =>
          n' <-o sd_text n ;; db' <-o sd_text db ;; rp' <-o sd_text rp ;; Some (DropSubscription n' db' rp')
      | 15%nat, [n] => option_map DropUser (sd_text n)
      | 16%nat, [q; an; vb] => q' <-o sd_select q ;; an' <-o sd_bool an ;; vb' <-o sd_bool vb ;; Some (Explain q' an' vb')
      | 17%nat, [p; on; u] => p' <-o sd_priv p ;; on' <-o sd_text on ;; u' <-o sd_text u ;; Some (Grant p' on' u')
      | 18%nat, [u] => option_map GrantAdmin (sd_text u)
      | 19%nat, [A id; h] => h' <-o sd_text h ;; Some (KillQuery id h')
      | 20%nat, [p; on; u] => p' <-o sd_priv p ;; on' <-o sd_text on ;; u' <-o sd_text u ;; Some (Revoke p' on' u')
      | 21%nat, [u] => option_map RevokeAdmin (sd_text u)
      | 22%nat, [q] => option_map Select (sd_select q)
      | 23%nat, [p; n] => p' <-o sd_text p ;; n' <-o sd_text n ;; Some (SetPasswordUser p' n')
      | 24%nat, [] => Some ShowContinuousQueries
      | 25%nat, [] => Some ShowDatabases
      | 26%nat, [m] => option_map ShowDiagnostics (sd_text m)
      | 27%nat, [db; ex; ss; c; ds; A li; A of_] =>
          db' <-o sd_text db ;; ex' <-o sd_bool ex ;; ss' <-o sd_sources ss ;; c' <-o sd_oexpr c ;;
          ds' <-o sd_exprs ds ;; Some (ShowFieldKeyCardinality db' ex' ss' c' ds' li of_)
      | 28%nat, [db; ss; so; A li; A of_] =>
          db' <-o sd_text db ;; ss' <-o sd_sources ss ;; so' <-o sd_list sd_sortfield so ;;
          Some (ShowFieldKeys db' ss' so' li of_)
      | 29%nat, [n] => option_map ShowGrantsForUser (sd_text n)
      | 30%nat, [ex; db; ss; c; ds; A li; A of_] =>
          ex' <-o sd_bool ex ;; db' <-o sd_text db ;; ss' <-o sd_sources ss ;; c' <-o sd_oexpr c ;;
          ds' <-o sd_exprs ds ;; Some (ShowMeasurementCardinality ex' db' ss' c' ds' li of_)
      | 31%nat, [db; rp; wdb; wrp; src; c; so; A li; A of_] =>
          db' <-o sd_text db ;; rp' <-o sd_text rp ;; wdb' <-o sd_bool wdb ;; wrp' <-o sd_bool wrp ;;
          src' <-o sd_opt sd_source src ;; c' <-o sd_oexpr c ;; so' <-o sd_list sd_sortfield so ;;
          Some (ShowMeasurements db' rp' wdb' wrp' src' c' so' li of_)
      | 32%nat, [] => Some ShowQueries
      | 33%nat, [db] => option_map ShowRetentionPolicies (sd_text db)
      | 34%nat, [db; ss; c; so; A li; A of_] =>
          db' <-o sd_text db ;; ss' <-o sd_sources ss ;; c' <-o sd_oexpr c ;; so' <-o sd_list sd_sortfield so ;;
          Some (ShowSeries db' ss' c' so' li of_)
      | 35%nat, [db; ex; ss; c; ds; A li; A of_] =>
          db' <-o sd_text db ;; ex' <-o sd_bool ex ;; ss' <-o sd_sources ss ;; c' <-o sd_oexpr c ;;
          ds' <-o sd_exprs ds ;; Some (ShowSeriesCardinality db' ex' ss' c' ds' li of_)
      | 36%nat, [] => Some ShowShardGroups
      | 37%nat, [] => Some ShowShards
      | 38%nat, [m] => option_map ShowStats (sd_text m)
      | 39%nat, [] => Some ShowSubscriptions
      | 40%nat, [db; ex; ss; c; ds; A li; A of_] =>
          db' <-o sd_text db ;; ex' <-o sd_bool ex ;; ss' <-o sd_sources ss ;; c' <-o sd_oexpr c ;;
          ds' <-o sd_exprs ds ;; Some (ShowTagKeyCardinality db' ex' ss' c' ds' li of_)
      | 41%nat, [db; ss; op; ke; c; so; A li; A of_; A sl; A sof] =>
          db' <-o sd_text db ;; ss' <-o sd_sources ss ;; op' <-o sd_tok op ;; ke' <-o sd_oexpr ke ;;
          c' <-o sd_oexpr c ;; so' <-o sd_list sd_sortfield so ;;
          Some (ShowTagKeys db' ss' op' ke' c' so' li of_ sl sof)
      | 42%nat, [db; ss; op; ke; c; so; A li; A of_] =>
          db' <-o sd_text db ;; ss' <-o sd_sources ss ;; op' <-o sd_tok op ;; ke' <-o sd_oexpr ke ;;
          c' <-o sd_oexpr c ;; so' <-o sd_list sd_sortfield so ;;
          Some (ShowTagValues db' ss' op' ke' c' so' li of_)
      | 43%nat, [db; ex; ss; op; ke; c; ds; A li; A of_] =>
          db' <-o sd_text db ;; ex' <-o sd_bool ex ;; ss' <-o sd_sources ss ;; op' <-o sd_tok op ;;
          ke' <-o sd_oexpr ke ;; c' <-o sd_oexpr c ;; ds' <-o sd_exprs ds ;;
          Some (ShowTagValuesCardinality db' ex' ss' op' ke' c' ds' li of_)
      | 44%nat, [] => Some ShowUsers
      | _, _ => None
      end
  | _ => None
  end.
