(* scanner.go: Scanner.Scan and its helpers, with the same sequence of reads
   and unreads as the Go code, against the exact reader of Reader.v. *)
From InfluxQL Require Import Base.Prelude Lex.Token Lex.Reader.

Definition is_whitespace (c : Z) : bool := (c =? 32) || (c =? 9) || (c =? 10).
Definition is_letter (c : Z) : bool := ((97 <=? c) && (c <=? 122)) || ((65 <=? c) && (c <=? 90)).
Definition is_ident_char (c : Z) : bool := is_letter c || is_digit c || (c =? 95).
Definition is_ident_first_char (c : Z) : bool := is_letter c || (c =? 95).
Definition is_dur_letter (c : Z) : bool := is_letter c || (c =? 181).   (* 'µ' U+00B5 *)

Definition tokres : Type := (token * pos * text)%type.

Section WithLower.
Variable ulower : Z -> Z.

(* ScanString(r io.RuneScanner): (literal, 0 ok | 1 errBadString | 2 errBadEscape) *)
Fixpoint scan_string_loop (fuel : nat) (ending : Z) (r : reader) (acc : text) : (text * Z) * reader :=
  match fuel with
  | O => ((rev acc, 1), set_oof r)
  | S f =>
      let '((ch0, _), r1) := read r in
      if ch0 =? ending then ((rev acc, 0), r1)
      else if (ch0 =? 0) || (ch0 =? 10) then ((rev acc, 1), r1)
      else if ch0 =? 92 then
        let '((ch1, _), r2) := read r1 in
        if ch1 =? 110 then scan_string_loop f ending r2 (10 :: acc)
        else if ch1 =? 92 then scan_string_loop f ending r2 (92 :: acc)
        else if ch1 =? 34 then scan_string_loop f ending r2 (34 :: acc)
        else if ch1 =? 39 then scan_string_loop f ending r2 (39 :: acc)
        else (([ch0; ch1], 2), r2)
      else scan_string_loop f ending r1 (ch0 :: acc)
  end.

Definition ScanString (r : reader) : (text * Z) * reader :=
  let '((ending, _), r1) := read r in
  if ending =? 0 then (([], 1), r1)
  else scan_string_loop (read_fuel r1) ending r1 [].

(* Scanner.scanString *)
Definition scan_string (r : reader) : tokres * reader :=
  let r1 := unread r in
  let pos := snd (curr r1) in
  let r1 := set_bad r1 (r_bad r1 || curr_panics r1) in
  let '((lit, err), r2) := ScanString r1 in
  if err =? 1 then ((BADSTRING, pos, lit), r2)
  else if err =? 2 then ((BADESCAPE, snd (curr r2), lit), set_bad r2 (r_bad r2 || curr_panics r2))
  else ((STRING, pos, lit), r2).

(* ScanBareIdent *)
Fixpoint scan_bare_ident (fuel : nat) (r : reader) (acc : text) : text * reader :=
  match fuel with
  | O => (rev acc, set_oof r)
  | S f =>
      let '((ch, _), r1) := read r in
      if ch =? 0 then (rev acc, r1)
      else if negb (is_ident_char ch) then (rev acc, unread r1)
      else scan_bare_ident f r1 (ch :: acc)
  end.

(* Scanner.scanIdent *)
Fixpoint scan_ident_loop (fuel : nat) (pos : pos) (r : reader) (acc : text)
  : (option tokres * text) * reader :=
  match fuel with
  | O => ((None, acc), set_oof r)
  | S f =>
      let '((ch, _), r1) := read r in
      if ch =? 0 then ((None, acc), r1)
      else if ch =? 34 then
        let '((tok0, pos0', lit0), r2) := scan_string r1 in
        match tok0 with
        | BADSTRING | BADESCAPE => ((Some (tok0, pos0', lit0), acc), r2)
        | _ => ((Some (IDENT, pos, lit0), acc), r2)
        end
      else if is_ident_char ch then
        let '(s, r2) := scan_bare_ident (read_fuel r1) (unread r1) [] in
        scan_ident_loop f pos r2 (acc ++ s)
      else ((None, acc), unread r1)
  end.

Definition scan_ident (lookup_kw : bool) (r : reader) : tokres * reader :=
  let '((_, pos), r1) := read r in
  let r1 := unread r1 in
  let '((early, lit), r2) := scan_ident_loop (read_fuel r1) pos r1 [] in
  match early with
  | Some tr => (tr, r2)
  | None =>
      if lookup_kw then
        let tok := lookup ulower lit in
        match tok with
        | IDENT => ((IDENT, pos, lit), r2)
        | _ => ((tok, pos, []), r2)
        end
      else ((IDENT, pos, lit), r2)
  end.

(* Scanner.scanWhitespace *)
Fixpoint scan_ws_loop (fuel : nat) (r : reader) (acc : text) : text * reader :=
  match fuel with
  | O => (rev acc, set_oof r)
  | S f =>
      let '((ch, _), r1) := read r in
      if ch =? 0 then (rev acc, r1)
      else if negb (is_whitespace ch) then (rev acc, unread r1)
      else scan_ws_loop f r1 (ch :: acc)
  end.

Definition scan_whitespace (r : reader) : tokres * reader :=
  let '(ch, pos) := curr r in
  let r := set_bad r (r_bad r || curr_panics r) in
  let '(lit, r1) := scan_ws_loop (read_fuel r) r [ch] in
  ((WS, pos, lit), r1).

(* Scanner.scanDigits *)
Fixpoint scan_digits (fuel : nat) (r : reader) (acc : text) : text * reader :=
  match fuel with
  | O => (rev acc, set_oof r)
  | S f =>
      let '((ch, _), r1) := read r in
      if negb (is_digit ch) then (rev acc, unread r1)
      else scan_digits f r1 (ch :: acc)
  end.

Fixpoint scan_dur_letters (fuel : nat) (r : reader) (acc : text) : text * reader :=
  match fuel with
  | O => (acc, set_oof r)
  | S f =>
      let '((ch1, _), r1) := read r in
      if negb (is_dur_letter ch1) then (acc, unread r1)
      else scan_dur_letters f r1 (ch1 :: acc)
  end.

Fixpoint scan_dur_rest (fuel : nat) (r : reader) (acc : text) : text * reader :=
  match fuel with
  | O => (acc, set_oof r)
  | S f =>
      let '((ch0, _), r1) := read r in
      if is_dur_letter ch0 || is_digit ch0 then scan_dur_rest f r1 (ch0 :: acc)
      else (acc, unread r1)
  end.

(* Scanner.scanNumber; the literal accumulator is kept reversed *)
Definition scan_number (r : reader) : tokres * reader :=
  let '(ch, pos) := curr r in
  let r := set_bad r (r_bad r || curr_panics r) in
  let go (r : reader) : tokres * reader :=
    let '(d1, r1) := scan_digits (read_fuel r) r [] in
    let '((ch0, _), r2) := read r1 in
    let '(is_decimal, buf, r3) :=
      if ch0 =? 46 then
        let '((ch1, _), r3) := read r2 in
        if is_digit ch1 then
          let '(d2, r4) := scan_digits (read_fuel r3) r3 [] in
          (true, d1 ++ [ch0; ch1] ++ d2, r4)
        else (true, d1, unread r3)
      else (false, d1, unread r2) in
    if negb is_decimal then
      let '((c0, _), r4) := read r3 in
      if is_dur_letter c0 then
        let '(acc1, r5) := scan_dur_letters (read_fuel r4) r4 [c0] in
        let '(acc2, r6) := scan_dur_rest (read_fuel r5) r5 acc1 in
        ((DURATIONVAL, pos, buf ++ rev acc2), r6)
      else ((INTEGER, pos, buf), unread r4)
    else ((NUMBER, pos, buf), r3) in
  if ch =? 46 then
    let '((ch1, _), r1) := read r in
    let r1 := unread r1 in
    if negb (is_digit ch1) then ((ILLEGAL, pos, [46]), r1)
    else go (unread r1)
  else go (unread r).

(* skipUntilNewline *)
Fixpoint skip_until_newline (fuel : nat) (r : reader) : reader :=
  match fuel with
  | O => set_oof r
  | S f =>
      let '((ch, _), r1) := read r in
      if (ch =? 10) || (ch =? 0) then r1 else skip_until_newline f r1
  end.

(* skipUntilEndComment: true = io.EOF; [star] = a '*' has just been read *)
Fixpoint skip_until_end_comment (fuel : nat) (star : bool) (r : reader) : bool * reader :=
  match fuel with
  | O => (true, set_oof r)
  | S f =>
      let '((ch, _), r1) := read r in
      if star then
        if ch =? 47 then (false, r1)
        else if ch =? 42 then skip_until_end_comment f true r1
        else if ch =? 0 then (true, r1)
        else skip_until_end_comment f false r1
      else
        if ch =? 42 then skip_until_end_comment f true r1
        else if ch =? 0 then (true, r1)
        else skip_until_end_comment f false r1
  end.

(* Scanner.Scan *)
Definition scan (r : reader) : tokres * reader :=
  let '((ch0, pos), r1) := read r in
  if is_whitespace ch0 then scan_whitespace r1
  else if is_letter ch0 || (ch0 =? 95) then scan_ident true (unread r1)
  else if is_digit ch0 then scan_number r1
  else if ch0 =? 0 then ((EOF, pos, []), r1)
  else if ch0 =? 34 then scan_ident true (unread r1)
  else if ch0 =? 39 then scan_string r1
  else if ch0 =? 46 then
    let '((ch1, _), r2) := read r1 in
    let r2 := unread r2 in
    if is_digit ch1 then scan_number r2 else ((DOT, pos, []), r2)
  else if ch0 =? 36 then
    let '((tok, _, lit), r2) := scan_ident false r1 in
    match tok with
    | IDENT => ((BOUNDPARAM, pos, 36 :: lit), r2)
    | _ => ((tok, pos, 36 :: lit), r2)
    end
  else if ch0 =? 43 then ((ADD, pos, []), r1)
  else if ch0 =? 45 then
    let '((ch1, _), r2) := read r1 in
    if ch1 =? 45 then ((COMMENT, pos, []), skip_until_newline (read_fuel r2) r2)
    else ((SUB, pos, []), unread r2)
  else if ch0 =? 42 then ((MUL, pos, []), r1)
  else if ch0 =? 47 then
    let '((ch1, _), r2) := read r1 in
    if ch1 =? 42 then
      let '(err, r3) := skip_until_end_comment (read_fuel r2) false r2 in
      if err then ((ILLEGAL, pos, []), r3) else ((COMMENT, pos, []), r3)
    else ((DIV, pos, []), unread r2)
  else if ch0 =? 37 then ((MOD, pos, []), r1)
  else if ch0 =? 38 then ((BITWISE_AND, pos, []), r1)
  else if ch0 =? 124 then ((BITWISE_OR, pos, []), r1)
  else if ch0 =? 94 then ((BITWISE_XOR, pos, []), r1)
  else if ch0 =? 61 then
    let '((ch1, _), r2) := read r1 in
    if ch1 =? 126 then ((EQREGEX, pos, []), r2) else ((EQ, pos, []), unread r2)
  else if ch0 =? 33 then
    let '((ch1, _), r2) := read r1 in
    if ch1 =? 61 then ((NEQ, pos, []), r2)
    else if ch1 =? 126 then ((NEQREGEX, pos, []), r2)
    else ((ILLEGAL, pos, [ch0]), unread r2)
  else if ch0 =? 62 then
    let '((ch1, _), r2) := read r1 in
    if ch1 =? 61 then ((GTE, pos, []), r2) else ((GT, pos, []), unread r2)
  else if ch0 =? 60 then
    let '((ch1, _), r2) := read r1 in
    if ch1 =? 61 then ((LTE, pos, []), r2)
    else if ch1 =? 62 then ((NEQ, pos, []), r2)
    else ((LT, pos, []), unread r2)
  else if ch0 =? 40 then ((LPAREN, pos, []), r1)
  else if ch0 =? 41 then ((RPAREN, pos, []), r1)
  else if ch0 =? 44 then ((COMMA, pos, []), r1)
  else if ch0 =? 59 then ((SEMICOLON, pos, []), r1)
  else if ch0 =? 58 then
    let '((ch1, _), r2) := read r1 in
    if ch1 =? 58 then ((DOUBLECOLON, pos, []), r2) else ((COLON, pos, []), unread r2)
  else ((ILLEGAL, pos, [ch0]), r1).

(* ScanDelimited(r, '/', '/', {'/': '/'}, escapesPassThru = true): None = any error *)
Fixpoint scan_delimited_loop (fuel : nat) (r : reader) (acc : text) : option text * reader :=
  match fuel with
  | O => (None, set_oof r)
  | S f =>
      let '((ch0, _), r1) := read r in
      if ch0 =? 47 then (Some (rev acc), r1)
      else if ch0 =? 0 then (None, r1)
      else if ch0 =? 10 then (None, r1)
      else if ch0 =? 92 then
        let '((ch1, _), r2) := read r1 in
        if ch1 =? 0 then (None, r2)
        else if ch1 =? 47 then scan_delimited_loop f r2 (47 :: acc)
        else scan_delimited_loop f (unread r2) (92 :: acc)
      else scan_delimited_loop f r1 (ch0 :: acc)
  end.

(* Scanner.ScanRegex *)
Definition scan_regex (r : reader) : tokres * reader :=
  let pos := snd (curr r) in
  let r := set_bad r (r_bad r || curr_panics r) in
  let '((ch, _), r1) := read r in
  if ch =? 0 then ((BADREGEX, pos, []), r1)
  else if negb (ch =? 47) then ((BADREGEX, pos, []), r1)
  else
    let '(res, r2) := scan_delimited_loop (read_fuel r1) r1 [] in
    match res with
    | Some b => ((REGEX, pos, b), r2)
    | None => ((BADREGEX, pos, []), r2)
    end.

(* scanning a whole text with Scanner.Scan until EOF (C05) *)
Fixpoint scan_all (fuel : nat) (r : reader) (acc : list tokres) : list tokres * reader :=
  match fuel with
  | O => (rev acc, set_oof r)
  | S f =>
      let '((tok, p, lit), r1) := scan r in
      match tok with
      | EOF => (rev ((tok, p, lit) :: acc), r1)
      | _ => scan_all f r1 ((tok, p, lit) :: acc)
      end
  end.

End WithLower.
