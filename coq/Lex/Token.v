(* token.go: the Token enumeration, String(), Precedence(), isOperator(), keywords, Lookup().
   Codes are Go's iota values; the table is compared exhaustively with the running code. *)
From InfluxQL Require Import Base.Prelude.

Inductive token : Set :=
| ILLEGAL
| EOF
| WS
| COMMENT
| LITERAL_BEG
| IDENT
| BOUNDPARAM
| NUMBER
| INTEGER
| DURATIONVAL
| STRING
| BADSTRING
| BADESCAPE
| TRUE
| FALSE
| REGEX
| BADREGEX
| LITERAL_END
| OPERATOR_BEG
| ADD
| SUB
| MUL
| DIV
| MOD
| BITWISE_AND
| BITWISE_OR
| BITWISE_XOR
| AND
| OR
| EQ
| NEQ
| EQREGEX
| NEQREGEX
| LT
| LTE
| GT
| GTE
| OPERATOR_END
| LPAREN
| RPAREN
| COMMA
| COLON
| DOUBLECOLON
| SEMICOLON
| DOT
| KEYWORD_BEG
| ALL
| ALTER
| ANALYZE
| ANY
| AS
| ASC
| BEGIN
| BY
| CARDINALITY
| CREATE
| CONTINUOUS
| DATABASE
| DATABASES
| DEFAULT
| DELETE
| DESC
| DESTINATIONS
| DIAGNOSTICS
| DISTINCT
| DROP
| DURATION
| END
| EVERY
| EXACT
| EXPLAIN
| FIELD
| FOR
| FROM
| FUTURE
| GRANT
| GRANTS
| GROUP
| GROUPS
| IN
| INF
| INSERT
| INTO
| KEY
| KEYS
| KILL
| LIMIT
| MEASUREMENT
| MEASUREMENTS
| NAME
| OFFSET
| ON
| ORDER
| PASSWORD
| PAST
| POLICY
| POLICIES
| PRIVILEGES
| QUERIES
| QUERY
| READ
| REPLICATION
| RESAMPLE
| RETENTION
| REVOKE
| SELECT
| SERIES
| SET
| SHOW
| SHARD
| SHARDS
| SLIMIT
| SOFFSET
| STATS
| SUBSCRIPTION
| SUBSCRIPTIONS
| TAG
| TO
| USER
| USERS
| VALUES
| VERBOSE
| WHERE
| WITH
| WRITE
| KEYWORD_END.

Definition tok_code (t : token) : Z :=
  match t with
  | ILLEGAL => 0
  | EOF => 1
  | WS => 2
  | COMMENT => 3
  | LITERAL_BEG => 4
  | IDENT => 5
  | BOUNDPARAM => 6
  | NUMBER => 7
  | INTEGER => 8
  | DURATIONVAL => 9
  | STRING => 10
  | BADSTRING => 11
  | BADESCAPE => 12
  | TRUE => 13
  | FALSE => 14
  | REGEX => 15
  | BADREGEX => 16
  | LITERAL_END => 17
  | OPERATOR_BEG => 18
  | ADD => 19
  | SUB => 20
  | MUL => 21
  | DIV => 22
  | MOD => 23
  | BITWISE_AND => 24
  | BITWISE_OR => 25
  | BITWISE_XOR => 26
  | AND => 27
  | OR => 28
  | EQ => 29
  | NEQ => 30
  | EQREGEX => 31
  | NEQREGEX => 32
  | LT => 33
  | LTE => 34
  | GT => 35
  | GTE => 36
  | OPERATOR_END => 37
  | LPAREN => 38
  | RPAREN => 39
  | COMMA => 40
  | COLON => 41
  | DOUBLECOLON => 42
  | SEMICOLON => 43
  | DOT => 44
  | KEYWORD_BEG => 45
  | ALL => 46
  | ALTER => 47
  | ANALYZE => 48
  | ANY => 49
  | AS => 50
  | ASC => 51
  | BEGIN => 52
  | BY => 53
  | CARDINALITY => 54
  | CREATE => 55
  | CONTINUOUS => 56
  | DATABASE => 57
  | DATABASES => 58
  | DEFAULT => 59
  | DELETE => 60
  | DESC => 61
  | DESTINATIONS => 62
  | DIAGNOSTICS => 63
  | DISTINCT => 64
  | DROP => 65
  | DURATION => 66
  | END => 67
  | EVERY => 68
  | EXACT => 69
  | EXPLAIN => 70
  | FIELD => 71
  | FOR => 72
  | FROM => 73
  | FUTURE => 74
  | GRANT => 75
  | GRANTS => 76
  | GROUP => 77
  | GROUPS => 78
  | IN => 79
  | INF => 80
  | INSERT => 81
  | INTO => 82
  | KEY => 83
  | KEYS => 84
  | KILL => 85
  | LIMIT => 86
  | MEASUREMENT => 87
  | MEASUREMENTS => 88
  | NAME => 89
  | OFFSET => 90
  | ON => 91
  | ORDER => 92
  | PASSWORD => 93
  | PAST => 94
  | POLICY => 95
  | POLICIES => 96
  | PRIVILEGES => 97
  | QUERIES => 98
  | QUERY => 99
  | READ => 100
  | REPLICATION => 101
  | RESAMPLE => 102
  | RETENTION => 103
  | REVOKE => 104
  | SELECT => 105
  | SERIES => 106
  | SET => 107
  | SHOW => 108
  | SHARD => 109
  | SHARDS => 110
  | SLIMIT => 111
  | SOFFSET => 112
  | STATS => 113
  | SUBSCRIPTION => 114
  | SUBSCRIPTIONS => 115
  | TAG => 116
  | TO => 117
  | USER => 118
  | USERS => 119
  | VALUES => 120
  | VERBOSE => 121
  | WHERE => 122
  | WITH => 123
  | WRITE => 124
  | KEYWORD_END => 125
  end.

Definition all_tokens : list token :=
  [ILLEGAL; EOF; WS; COMMENT; LITERAL_BEG; IDENT; BOUNDPARAM; NUMBER; INTEGER; DURATIONVAL; STRING; BADSTRING; BADESCAPE; TRUE; FALSE; REGEX; BADREGEX; LITERAL_END; OPERATOR_BEG; ADD; SUB; MUL; DIV; MOD; BITWISE_AND; BITWISE_OR; BITWISE_XOR; AND; OR; EQ; NEQ; EQREGEX; NEQREGEX; LT; LTE; GT; GTE; OPERATOR_END; LPAREN; RPAREN; COMMA; COLON; DOUBLECOLON; SEMICOLON; DOT; KEYWORD_BEG; ALL; ALTER; ANALYZE; ANY; AS; ASC; BEGIN; BY; CARDINALITY; CREATE; CONTINUOUS; DATABASE; DATABASES; DEFAULT; DELETE; DESC; DESTINATIONS; DIAGNOSTICS; DISTINCT; DROP; DURATION; END; EVERY; EXACT; EXPLAIN; FIELD; FOR; FROM; FUTURE; GRANT; GRANTS; GROUP; GROUPS; IN; INF; INSERT; INTO; KEY; KEYS; KILL; LIMIT; MEASUREMENT; MEASUREMENTS; NAME; OFFSET; ON; ORDER; PASSWORD; PAST; POLICY; POLICIES; PRIVILEGES; QUERIES; QUERY; READ; REPLICATION; RESAMPLE; RETENTION; REVOKE; SELECT; SERIES; SET; SHOW; SHARD; SHARDS; SLIMIT; SOFFSET; STATS; SUBSCRIPTION; SUBSCRIPTIONS; TAG; TO; USER; USERS; VALUES; VERBOSE; WHERE; WITH; WRITE; KEYWORD_END].

Definition tok_eqb (a b : token) : bool := Z.eqb (tok_code a) (tok_code b).

Fixpoint find_code (c : Z) (l : list token) : option token :=
  match l with [] => None | t :: l' => if Z.eqb (tok_code t) c then Some t else find_code c l' end.
Definition tok_of_code (c : Z) : option token := find_code c all_tokens.

(* Token.String(): the [tokens] array; entries the array leaves empty are "" *)
Definition tok_string (t : token) : text :=
  match t with
  | ILLEGAL => ts "ILLEGAL"
  | EOF => ts "EOF"
  | WS => ts "WS"
  | IDENT => ts "IDENT"
  | NUMBER => ts "NUMBER"
  | DURATIONVAL => ts "DURATIONVAL"
  | STRING => ts "STRING"
  | BADSTRING => ts "BADSTRING"
  | BADESCAPE => ts "BADESCAPE"
  | TRUE => ts "TRUE"
  | FALSE => ts "FALSE"
  | REGEX => ts "REGEX"
  | ADD => ts "+"
  | SUB => ts "-"
  | MUL => ts "*"
  | DIV => ts "/"
  | MOD => ts "%"
  | BITWISE_AND => ts "&"
  | BITWISE_OR => ts "|"
  | BITWISE_XOR => ts "^"
  | AND => ts "AND"
  | OR => ts "OR"
  | EQ => ts "="
  | NEQ => ts "!="
  | EQREGEX => ts "=~"
  | NEQREGEX => ts "!~"
  | LT => ts "<"
  | LTE => ts "<="
  | GT => ts ">"
  | GTE => ts ">="
  | LPAREN => ts "("
  | RPAREN => ts ")"
  | COMMA => ts ","
  | COLON => ts ":"
  | DOUBLECOLON => ts "::"
  | SEMICOLON => ts ";"
  | DOT => ts "."
  | ALL => ts "ALL"
  | ALTER => ts "ALTER"
  | ANALYZE => ts "ANALYZE"
  | ANY => ts "ANY"
  | AS => ts "AS"
  | ASC => ts "ASC"
  | BEGIN => ts "BEGIN"
  | BY => ts "BY"
  | CARDINALITY => ts "CARDINALITY"
  | CREATE => ts "CREATE"
  | CONTINUOUS => ts "CONTINUOUS"
  | DATABASE => ts "DATABASE"
  | DATABASES => ts "DATABASES"
  | DEFAULT => ts "DEFAULT"
  | DELETE => ts "DELETE"
  | DESC => ts "DESC"
  | DESTINATIONS => ts "DESTINATIONS"
  | DIAGNOSTICS => ts "DIAGNOSTICS"
  | DISTINCT => ts "DISTINCT"
  | DROP => ts "DROP"
  | DURATION => ts "DURATION"
  | END => ts "END"
  | EVERY => ts "EVERY"
  | EXACT => ts "EXACT"
  | EXPLAIN => ts "EXPLAIN"
  | FIELD => ts "FIELD"
  | FOR => ts "FOR"
  | FROM => ts "FROM"
  | FUTURE => ts "FUTURE"
  | GRANT => ts "GRANT"
  | GRANTS => ts "GRANTS"
  | GROUP => ts "GROUP"
  | GROUPS => ts "GROUPS"
  | IN => ts "IN"
  | INF => ts "INF"
  | INSERT => ts "INSERT"
  | INTO => ts "INTO"
  | KEY => ts "KEY"
  | KEYS => ts "KEYS"
  | KILL => ts "KILL"
  | LIMIT => ts "LIMIT"
  | MEASUREMENT => ts "MEASUREMENT"
  | MEASUREMENTS => ts "MEASUREMENTS"
  | NAME => ts "NAME"
  | OFFSET => ts "OFFSET"
  | ON => ts "ON"
  | ORDER => ts "ORDER"
  | PASSWORD => ts "PASSWORD"
  | PAST => ts "PAST"
  | POLICY => ts "POLICY"
  | POLICIES => ts "POLICIES"
  | PRIVILEGES => ts "PRIVILEGES"
  | QUERIES => ts "QUERIES"
  | QUERY => ts "QUERY"
  | READ => ts "READ"
  | REPLICATION => ts "REPLICATION"
  | RESAMPLE => ts "RESAMPLE"
  | RETENTION => ts "RETENTION"
  | REVOKE => ts "REVOKE"
  | SELECT => ts "SELECT"
  | SERIES => ts "SERIES"
  | SET => ts "SET"
  | SHOW => ts "SHOW"
  | SHARD => ts "SHARD"
  | SHARDS => ts "SHARDS"
  | SLIMIT => ts "SLIMIT"
  | SOFFSET => ts "SOFFSET"
  | STATS => ts "STATS"
  | SUBSCRIPTION => ts "SUBSCRIPTION"
  | SUBSCRIPTIONS => ts "SUBSCRIPTIONS"
  | TAG => ts "TAG"
  | TO => ts "TO"
  | USER => ts "USER"
  | USERS => ts "USERS"
  | VALUES => ts "VALUES"
  | VERBOSE => ts "VERBOSE"
  | WHERE => ts "WHERE"
  | WITH => ts "WITH"
  | WRITE => ts "WRITE"
  | _ => []
  end.

Definition keyword_tokens : list token :=
  [ALL; ALTER; ANALYZE; ANY; AS; ASC; BEGIN; BY; CARDINALITY; CREATE; CONTINUOUS; DATABASE; DATABASES; DEFAULT; DELETE; DESC; DESTINATIONS; DIAGNOSTICS; DISTINCT; DROP; DURATION; END; EVERY; EXACT; EXPLAIN; FIELD; FOR; FROM; FUTURE; GRANT; GRANTS; GROUP; GROUPS; IN; INF; INSERT; INTO; KEY; KEYS; KILL; LIMIT; MEASUREMENT; MEASUREMENTS; NAME; OFFSET; ON; ORDER; PASSWORD; PAST; POLICY; POLICIES; PRIVILEGES; QUERIES; QUERY; READ; REPLICATION; RESAMPLE; RETENTION; REVOKE; SELECT; SERIES; SET; SHOW; SHARD; SHARDS; SLIMIT; SOFFSET; STATS; SUBSCRIPTION; SUBSCRIPTIONS; TAG; TO; USER; USERS; VALUES; VERBOSE; WHERE; WITH; WRITE].

(* Token.Precedence() *)
Definition prec (t : token) : Z :=
  match t with
  | OR => 1
  | AND => 2
  | EQ | NEQ | EQREGEX | NEQREGEX | LT | LTE | GT | GTE => 3
  | ADD | SUB | BITWISE_OR | BITWISE_XOR => 4
  | MUL | DIV | MOD | BITWISE_AND => 5
  | _ => 0
  end.

(* Token.isOperator(): tok > operatorBeg && tok < operatorEnd *)
Definition is_operator (t : token) : bool :=
  (tok_code OPERATOR_BEG <? tok_code t) && (tok_code t <? tok_code OPERATOR_END).

Definition is_regex_op (t : token) : bool :=
  match t with EQREGEX | NEQREGEX => true | _ => false end.

(* strings.ToLower: ASCII is modelled; the two non-ASCII runes whose simple
   lower-case mapping is ASCII are written out; every other non-ASCII rune
   goes through the oracle [ulower] (unicode.ToLower, dumped from Go). *)
Definition lower_rune (ulower : Z -> Z) (c : Z) : Z :=
  if (65 <=? c) && (c <=? 90) then c + 32
  else if c <? 128 then c
  else ulower c.
Definition to_lower (ulower : Z -> Z) (s : text) : text := map (lower_rune ulower) s.

(* the [keywords] map built by init(): lower-cased names of the keyword
   tokens, AND, OR, true, false *)
Definition ascii_lower (s : text) : text := to_lower (fun c => c) s.
Definition keywords : list (text * token) :=
  map (fun t => (ascii_lower (tok_string t), t)) (keyword_tokens ++ [AND; OR])
  ++ [(ts "true", TRUE); (ts "false", FALSE)].

Fixpoint assoc_text {A} (k : text) (l : list (text * A)) : option A :=
  match l with
  | [] => None
  | (k', v) :: l' => if text_eqb k k' then Some v else assoc_text k l'
  end.

(* Lookup(ident) *)
Definition lookup (ulower : Z -> Z) (ident : text) : token :=
  match assoc_text (to_lower ulower ident) keywords with
  | Some t => t
  | None => IDENT
  end.

Lemma tok_of_code_code t : tok_of_code (tok_code t) = Some t.
Proof. destruct t; reflexivity. Qed.

Lemma tok_code_inj a b : tok_code a = tok_code b -> a = b.
Proof.
  intros H. pose proof (tok_of_code_code a) as Ha. rewrite H, tok_of_code_code in Ha. congruence.
Qed.

Lemma tok_eqb_spec a b : reflect (a = b) (tok_eqb a b).
Proof.
  unfold tok_eqb. destruct (Z.eqb_spec (tok_code a) (tok_code b)); constructor.
  - apply tok_code_inj; assumption.
  - congruence.
Qed.

Lemma tok_eqb_refl a : tok_eqb a a = true.
Proof. unfold tok_eqb. apply Z.eqb_refl. Qed.
