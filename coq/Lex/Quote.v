(* parser.go: QuoteString, QuoteIdent, IdentNeedsQuotes (on runes). *)
From InfluxQL Require Import Base.Prelude Lex.Token Lex.Scanner.

(* qsReplacer: "\n" -> `\n`, `\` -> `\\`, `'` -> `\'` *)
Definition qs_escape (c : Z) : text :=
  if c =? 10 then [92; 110] else if c =? 92 then [92; 92] else if c =? 39 then [92; 39] else [c].
Definition quote_string (s : text) : text := 39 :: flat_map qs_escape s ++ [39].

(* qiReplacer: "\n" -> `\n`, `\` -> `\\`, `"` -> `\"` *)
Definition qi_escape (c : Z) : text :=
  if c =? 10 then [92; 110] else if c =? 92 then [92; 92] else if c =? 34 then [92; 34] else [c].

Section WithLower.
Variable ulower : Z -> Z.

(* IdentNeedsQuotes *)
Definition ident_chars_ok (s : text) : bool :=
  match s with
  | [] => true
  | c :: s' => is_ident_first_char c && forallb is_ident_char s'
  end.
Definition ident_needs_quotes (s : text) : bool :=
  match lookup ulower s with
  | IDENT => negb (ident_chars_ok s)
  | _ => true
  end.

(* QuoteIdent(segments...) *)
Fixpoint quote_ident_from (i : nat) (n : nat) (segs : list text) : text :=
  match segs with
  | [] => []
  | seg :: rest =>
      let last := Nat.eqb (S i) n in
      let empty := match seg with [] => true | _ => false end in
      let need := ident_needs_quotes seg
                  || (negb last && negb empty)
                  || ((Nat.eqb i 0 || last) && empty) in
      (if need then [34] else []) ++ flat_map qi_escape seg ++ (if need then [34] else [])
      ++ (if last then [] else [46]) ++ quote_ident_from (S i) n rest
  end.
Definition quote_ident (segs : list text) : text := quote_ident_from 0 (length segs) segs.

End WithLower.
