(* The lexer on plain texts: the same decisions as Lex/Scanner.v, with lookahead by pattern instead of pushback.
   A text here is CR-folded; the end of the text and a NUL rune both read as 0. *)
From InfluxQL Require Import Base.Prelude Lex.Token Lex.Reader Lex.Scanner.

Definition sread (t : text) : Z * text := match t with [] => (0, []) | c :: t' => (c, t') end.

(* pushing a rune back; the end-of-text marker pushed back onto the empty text is the empty text *)
Definition ucons (c : Z) (t : text) : text :=
  match t with [] => if c =? 0 then [] else [c] | _ => c :: t end.

Section S.
Variable ulower : Z -> Z.

Fixpoint s_string_loop (fuel : nat) (ending : Z) (t : text) (acc : text) : (text * Z) * text :=
  match fuel with
  | O => ((rev acc, 1), t)
  | S f =>
      let '(ch0, t1) := sread t in
      if ch0 =? ending then ((rev acc, 0), t1)
      else if (ch0 =? 0) || (ch0 =? 10) then ((rev acc, 1), t1)
      else if ch0 =? 92 then
        let '(ch1, t2) := sread t1 in
        if ch1 =? 110 then s_string_loop f ending t2 (10 :: acc)
        else if ch1 =? 92 then s_string_loop f ending t2 (92 :: acc)
        else if ch1 =? 34 then s_string_loop f ending t2 (34 :: acc)
        else if ch1 =? 39 then s_string_loop f ending t2 (39 :: acc)
        else (([ch0; ch1], 2), t2)
      else s_string_loop f ending t1 (ch0 :: acc)
  end.

Definition sfuel (t : text) : nat := (length t + 8)%nat.

(* ScanString on the text that starts with the opening quote *)
Definition s_ScanString (t : text) : (text * Z) * text :=
  let '(ending, t1) := sread t in
  if ending =? 0 then (([], 1), t1) else s_string_loop (sfuel t1) ending t1 [].

(* scanString: [t] starts with the quote; the token kind and literal, and the rest *)
Definition s_scan_string (t : text) : (token * text) * text :=
  let '((lit, err), t2) := s_ScanString t in
  if err =? 1 then ((BADSTRING, lit), t2) else if err =? 2 then ((BADESCAPE, lit), t2) else ((STRING, lit), t2).

Fixpoint s_bare_ident (fuel : nat) (t : text) (acc : text) : text * text :=
  match fuel with
  | O => (rev acc, t)
  | S f =>
      let '(ch, t1) := sread t in
      if ch =? 0 then (rev acc, t1)
      else if negb (is_ident_char ch) then (rev acc, ucons ch t1)
      else s_bare_ident f t1 (ch :: acc)
  end.

Fixpoint s_ident_loop (fuel : nat) (t : text) (acc : text) : (option (token * text) * text) * text :=
  match fuel with
  | O => ((None, acc), t)
  | S f =>
      let '(ch, t1) := sread t in
      if ch =? 0 then ((None, acc), t1)
      else if ch =? 34 then
        let '((tok0, lit0), t2) := s_scan_string (ucons ch t1) in
        match tok0 with
        | BADSTRING | BADESCAPE => ((Some (tok0, lit0), acc), t2)
        | _ => ((Some (IDENT, lit0), acc), t2)
        end
      else if is_ident_char ch then
        let '(s, t2) := s_bare_ident (sfuel (ucons ch t1)) (ucons ch t1) [] in
        s_ident_loop f t2 (acc ++ s)
      else ((None, acc), ucons ch t1)
  end.

Definition s_scan_ident (lookup_kw : bool) (t : text) : (token * text) * text :=
  let '((early, lit), t2) := s_ident_loop (sfuel t) t [] in
  match early with
  | Some tr => (tr, t2)
  | None =>
      if lookup_kw then
        match lookup ulower lit with
        | IDENT => ((IDENT, lit), t2)
        | tok => ((tok, []), t2)
        end
      else ((IDENT, lit), t2)
  end.

Fixpoint s_ws_loop (fuel : nat) (t : text) (acc : text) : text * text :=
  match fuel with
  | O => (rev acc, t)
  | S f =>
      let '(ch, t1) := sread t in
      if ch =? 0 then (rev acc, t1)
      else if negb (is_whitespace ch) then (rev acc, ucons ch t1)
      else s_ws_loop f t1 (ch :: acc)
  end.

Definition s_scan_whitespace (ch : Z) (t : text) : (token * text) * text :=
  let '(lit, t1) := s_ws_loop (sfuel t) t [ch] in ((WS, lit), t1).

Fixpoint s_digits (fuel : nat) (t : text) (acc : text) : text * text :=
  match fuel with
  | O => (rev acc, t)
  | S f => let '(ch, t1) := sread t in if negb (is_digit ch) then (rev acc, ucons ch t1) else s_digits f t1 (ch :: acc)
  end.
Fixpoint s_dur_letters (fuel : nat) (t : text) (acc : text) : text * text :=
  match fuel with
  | O => (acc, t)
  | S f => let '(ch, t1) := sread t in if negb (is_dur_letter ch) then (acc, ucons ch t1) else s_dur_letters f t1 (ch :: acc)
  end.
Fixpoint s_dur_rest (fuel : nat) (t : text) (acc : text) : text * text :=
  match fuel with
  | O => (acc, t)
  | S f => let '(ch, t1) := sread t in if is_dur_letter ch || is_digit ch then s_dur_rest f t1 (ch :: acc) else (acc, ucons ch t1)
  end.

(* the part of scanNumber after the optional leading dot: [t] starts with the first rune of the number *)
Definition s_number_go (t : text) : (token * text) * text :=
  let '(d1, t1) := s_digits (sfuel t) t [] in
  let '(ch0, t2) := sread t1 in
  if ch0 =? 46 then
    let '(ch1, t3) := sread t2 in
    if is_digit ch1 then
      let '(d2, t4) := s_digits (sfuel t3) t3 [] in ((NUMBER, d1 ++ [ch0; ch1] ++ d2), t4)
    else ((NUMBER, d1), ucons ch1 t3)
  else
    let '(c0, t4) := sread (ucons ch0 t2) in
    if is_dur_letter c0 then
      let '(acc1, t5) := s_dur_letters (sfuel t4) t4 [c0] in
      let '(acc2, t6) := s_dur_rest (sfuel t5) t5 acc1 in
      ((DURATIONVAL, d1 ++ rev acc2), t6)
    else ((INTEGER, d1), ucons c0 t4).

(* scanNumber entered with [ch] just read and [t] the text behind it *)
Definition s_scan_number (ch : Z) (t : text) : (token * text) * text :=
  if ch =? 46 then
    let '(ch1, t') := sread t in
    if negb (is_digit ch1) then ((ILLEGAL, [46]), ucons ch1 t') else s_number_go (ucons 46 (ucons ch1 t'))
  else s_number_go (ucons ch t).

Fixpoint s_skip_newline (fuel : nat) (t : text) : text :=
  match fuel with
  | O => t
  | S f => let '(ch, t1) := sread t in if (ch =? 10) || (ch =? 0) then t1 else s_skip_newline f t1
  end.
Fixpoint s_skip_comment (fuel : nat) (star : bool) (t : text) : bool * text :=
  match fuel with
  | O => (true, t)
  | S f =>
      let '(ch, t1) := sread t in
      if star then
        if ch =? 47 then (false, t1) else if ch =? 42 then s_skip_comment f true t1
        else if ch =? 0 then (true, t1) else s_skip_comment f false t1
      else
        if ch =? 42 then s_skip_comment f true t1 else if ch =? 0 then (true, t1) else s_skip_comment f false t1
  end.

(* Scan: token, literal, and the text behind the token *)
Definition s_scan (t : text) : (token * text) * text :=
  let '(ch0, t1) := sread t in
  let two (a : Z -> option token) (dflt : token) : (token * text) * text :=
    let '(ch1, t2) := sread t1 in
    match a ch1 with Some k => ((k, []), t2) | None => ((dflt, []), ucons ch1 t2) end in
  if is_whitespace ch0 then s_scan_whitespace ch0 t1
  else if is_letter ch0 || (ch0 =? 95) then s_scan_ident true (ucons ch0 t1)
  else if is_digit ch0 then s_scan_number ch0 t1
  else if ch0 =? 0 then ((EOF, []), t1)
  else if ch0 =? 34 then s_scan_ident true (ucons ch0 t1)
  else if ch0 =? 39 then s_scan_string (ucons ch0 t1)
  else if ch0 =? 46 then
    let '(ch1, t2) := sread t1 in
    if is_digit ch1 then s_scan_number 46 (ucons ch1 t2) else ((DOT, []), ucons ch1 t2)
  else if ch0 =? 36 then
    let '((tok, lit), t2) := s_scan_ident false t1 in
    match tok with
    | IDENT => ((BOUNDPARAM, 36 :: lit), t2)
    | _ => ((tok, 36 :: lit), t2)
    end
  else if ch0 =? 43 then ((ADD, []), t1)
  else if ch0 =? 45 then
    let '(ch1, t2) := sread t1 in
    if ch1 =? 45 then ((COMMENT, []), s_skip_newline (sfuel t2) t2) else ((SUB, []), ucons ch1 t2)
  else if ch0 =? 42 then ((MUL, []), t1)
  else if ch0 =? 47 then
    let '(ch1, t2) := sread t1 in
    if ch1 =? 42 then
      let '(err, t3) := s_skip_comment (sfuel t2) false t2 in
      if err then ((ILLEGAL, []), t3) else ((COMMENT, []), t3)
    else ((DIV, []), ucons ch1 t2)
  else if ch0 =? 37 then ((MOD, []), t1)
  else if ch0 =? 38 then ((BITWISE_AND, []), t1)
  else if ch0 =? 124 then ((BITWISE_OR, []), t1)
  else if ch0 =? 94 then ((BITWISE_XOR, []), t1)
  else if ch0 =? 61 then two (fun c => if c =? 126 then Some EQREGEX else None) EQ
  else if ch0 =? 33 then
    let '(ch1, t2) := sread t1 in
    if ch1 =? 61 then ((NEQ, []), t2) else if ch1 =? 126 then ((NEQREGEX, []), t2) else ((ILLEGAL, [ch0]), ucons ch1 t2)
  else if ch0 =? 62 then two (fun c => if c =? 61 then Some GTE else None) GT
  else if ch0 =? 60 then two (fun c => if c =? 61 then Some LTE else if c =? 62 then Some NEQ else None) LT
  else if ch0 =? 40 then ((LPAREN, []), t1)
  else if ch0 =? 41 then ((RPAREN, []), t1)
  else if ch0 =? 44 then ((COMMA, []), t1)
  else if ch0 =? 59 then ((SEMICOLON, []), t1)
  else if ch0 =? 58 then two (fun c => if c =? 58 then Some DOUBLECOLON else None) COLON
  else ((ILLEGAL, [ch0]), t1).
End S.
