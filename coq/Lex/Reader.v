(* scanner.go: the rune reader, literally — a 3-slot ring of (rune, position),
   pushback count n, running position, sticky eof flag, CR / CRLF folding. *)
From InfluxQL Require Import Base.Prelude.

Record pos : Type := mkPos { p_line : Z; p_char : Z }.
Definition pos0 : pos := mkPos 0 0.
Definition pos_eqb (a b : pos) : bool := (p_line a =? p_line b) && (p_char a =? p_char b).

Definition slot : Type := (Z * pos)%type.
Definition slot0 : slot := (0, pos0).

Record reader : Type := mkReader {
  r_src : text;      (* runes not yet taken from the underlying bufio.Reader *)
  r_i : Z;           (* buffer index *)
  r_n : Z;           (* pushed-back rune count *)
  r_pos : pos;       (* position of the next rune to be read from the source *)
  r_b0 : slot; r_b1 : slot; r_b2 : slot;
  r_eof : bool;      (* true once eof (or a NUL rune) has been seen *)
  r_bad : bool;      (* a Go index panic would have happened: negative ring index *)
  r_oof : bool;      (* a model loop ran out of fuel (never on the fuels the callers supply) *)
  r_maxn : Z         (* instrumentation (hook verifNoteRead): largest n at the start of a read *)
}.

Definition new_reader (src : text) : reader :=
  mkReader src 0 0 pos0 slot0 slot0 slot0 false false false 0.

Definition set_src (r : reader) (s : text) : reader :=
  mkReader s (r_i r) (r_n r) (r_pos r) (r_b0 r) (r_b1 r) (r_b2 r) (r_eof r) (r_bad r) (r_oof r) (r_maxn r).
Definition set_n (r : reader) (n : Z) : reader :=
  mkReader (r_src r) (r_i r) n (r_pos r) (r_b0 r) (r_b1 r) (r_b2 r) (r_eof r) (r_bad r) (r_oof r) (r_maxn r).
Definition set_bad (r : reader) (b : bool) : reader :=
  mkReader (r_src r) (r_i r) (r_n r) (r_pos r) (r_b0 r) (r_b1 r) (r_b2 r) (r_eof r) b (r_oof r) (r_maxn r).
Definition set_oof (r : reader) : reader :=
  mkReader (r_src r) (r_i r) (r_n r) (r_pos r) (r_b0 r) (r_b1 r) (r_b2 r) (r_eof r) (r_bad r) true (r_maxn r).
Definition set_maxn (r : reader) (m : Z) : reader :=
  mkReader (r_src r) (r_i r) (r_n r) (r_pos r) (r_b0 r) (r_b1 r) (r_b2 r) (r_eof r) (r_bad r) (r_oof r) m.

(* i := (r.i - r.n + len(r.buf)) % len(r.buf) — Go's % truncates, so the index
   is negative (an index panic) when more than i+3 runes are pushed back *)
Definition curr_index (r : reader) : Z := Z.rem (r_i r - r_n r + 3) 3.
Definition get_slot (r : reader) (k : Z) : slot :=
  if k =? 0 then r_b0 r else if k =? 1 then r_b1 r else r_b2 r.
Definition curr (r : reader) : slot := get_slot r (curr_index r).
Definition curr_panics (r : reader) : bool := curr_index r <? 0.

Definition unread (r : reader) : reader := set_n r (r_n r + 1).

(* the underlying reader with CR / CRLF folding; end of input reads as 0 *)
Definition raw_read (s : text) : Z * text :=
  match s with
  | [] => (0, [])
  | c :: s' =>
      if c =? 13 then (10, match s' with d :: s'' => if d =? 10 then s'' else s' | [] => s' end)
      else (c, s')
  end.

Definition read (r0 : reader) : slot * reader :=
  let r := set_maxn r0 (Z.max (r_maxn r0) (r_n r0)) in
  if 0 <? r_n r then
    let r' := set_n r (r_n r - 1) in
    (curr r', set_bad r' (r_bad r' || curr_panics r'))
  else
    let '(ch, src') := raw_read (r_src r) in
    let i' := Z.rem (r_i r + 1) 3 in
    let s := (ch, r_pos r) in
    let p := r_pos r in
    let p' := if ch =? 10 then mkPos (p_line p + 1) 0
              else if negb (r_eof r) then mkPos (p_line p) (p_char p + 1) else p in
    let r' := mkReader src' i' 0 p'
                (if i' =? 0 then s else r_b0 r) (if i' =? 1 then s else r_b1 r) (if i' =? 2 then s else r_b2 r)
                (r_eof r || (ch =? 0)) (r_bad r) (r_oof r) (r_maxn r) in
    (s, r').

(* bound on the number of reads any loop can still perform *)
Definition read_fuel (r : reader) : nat := (length (r_src r) + Z.to_nat (r_n r) + 4)%nat.

(* CR / CRLF folding of a whole text, and the net number of folded runes a
   reader has consumed: runes taken from the source minus pushed-back runes
   that are not the eof marker (C05 measures token extents with it) *)
Fixpoint fold_cr (s : text) : text :=
  match s with
  | [] => []
  | c :: s' =>
      if c =? 13 then 10 :: (match s' with d :: s'' => if d =? 10 then fold_cr s'' else fold_cr s' | [] => [] end)
      else c :: fold_cr s'
  end.
Definition pending_non_eof (r : reader) : Z :=
  let cnt k := if (k <=? r_n r) && negb (fst (get_slot r (Z.modulo (r_i r - k + 1) 3)) =? 0) then 1 else 0 in
  cnt 1 + cnt 2 + cnt 3.
Definition consumed (total : Z) (r : reader) : Z :=
  total - Z.of_nat (length (fold_cr (r_src r))) - pending_non_eof r.
