(* C15: Sanitize replaces exactly the password literal, whatever the password contains. *)
From InfluxQL Require Import Base.Prelude Lex.Token Lex.Scanner Lex.Quote.
From InfluxQL Require Import San.Sanitize.

Definition all_space (w : text) : Prop := Forall (fun c => re_space c = true) w.
Definition starts_nonspace (t : text) : Prop := match t with [] => True | c :: _ => re_space c = false end.

Lemma skip_space_app w t : all_space w -> starts_nonspace t -> skip_space (w ++ t) = t.
Proof.
  induction 1 as [|c w Hc Hw IH]; intros Ht; cbn.
  - destruct t as [|c t]; [reflexivity|]. cbn in Ht. cbn. rewrite Ht. reflexivity.
  - rewrite Hc. apply IH. exact Ht.
Qed.

Lemma skip_space1_app w t : all_space w -> w <> [] -> starts_nonspace t -> skip_space1 (w ++ t) = Some t.
Proof.
  intros Hw Hne Ht. destruct w as [|c w]; [congruence|]. inversion Hw; subst. cbn. rewrite H1.
  f_equal. apply skip_space_app; assumption.
Qed.

(* a spelling of a keyword in any letter case *)
Definition spells (kw w : text) : Prop := forall x, match_word kw (w ++ x) = Some x.

Lemma spells_with : spells (ts "with") (ts "WITH") /\ spells (ts "with") (ts "with") /\ spells (ts "with") (ts "WiTh").
Proof. repeat split; intros x; reflexivity. Qed.

(* the body of QuoteString / QuoteIdent output is read back to the matching quote, whatever the content *)
Lemma quoted_rest_escaped (esc : Z -> text) q :
  (forall c, (esc c = [92; 110] /\ c = 10) \/ (esc c = [92; 92] /\ c = 92) \/ (esc c = [92; q] /\ c = q) \/
             (esc c = [c] /\ c <> 10 /\ c <> 92 /\ c <> q)) ->
  q <> 92 -> q <> 10 ->
  forall s rest fuel, (length (flat_map esc s) + 1 <= fuel)%nat ->
    quoted_rest fuel q (flat_map esc s ++ q :: rest) = Some rest.
Proof.
  intros Hesc Hq1 Hq2. induction s as [|c s IH]; intros rest fuel Hf.
  - cbn in *. destruct fuel; [lia|]. cbn. rewrite Z.eqb_refl. reflexivity.
  - cbn [flat_map] in *. rewrite app_length in Hf.
    destruct (Hesc c) as [[E Hc]|[[E Hc]|[[E Hc]|[E [H1 [H2 H3]]]]]]; rewrite E in *; cbn [app length] in *.
    + destruct fuel; [lia|]. cbn [quoted_rest].
      destruct (92 =? q) eqn:E1; [apply Z.eqb_eq in E1; congruence|]. cbn.
      apply IH. lia.
    + destruct fuel; [lia|]. cbn [quoted_rest].
      destruct (92 =? q) eqn:E1; [apply Z.eqb_eq in E1; congruence|]. cbn.
      apply IH. lia.
    + destruct fuel; [lia|]. cbn [quoted_rest].
      destruct (92 =? q) eqn:E1; [apply Z.eqb_eq in E1; congruence|]. cbn.
      destruct (q =? 10) eqn:E2; [apply Z.eqb_eq in E2; congruence|].
      apply IH. lia.
    + destruct fuel; [lia|]. cbn [quoted_rest].
      destruct (c =? q) eqn:E1; [apply Z.eqb_eq in E1; congruence|].
      destruct (c =? 92) eqn:E2; [apply Z.eqb_eq in E2; congruence|].
      destruct (c =? 10) eqn:E3; [apply Z.eqb_eq in E3; congruence|].
      apply IH. lia.
Qed.

Lemma qs_escape_cases c :
  (qs_escape c = [92; 110] /\ c = 10) \/ (qs_escape c = [92; 92] /\ c = 92) \/ (qs_escape c = [92; 39] /\ c = 39) \/
  (qs_escape c = [c] /\ c <> 10 /\ c <> 92 /\ c <> 39).
Proof.
  unfold qs_escape. destruct (Z.eqb_spec c 10); [left; tauto|]. destruct (Z.eqb_spec c 92); [right; left; tauto|].
  destruct (Z.eqb_spec c 39); [right; right; left; tauto|]. right; right; right. tauto.
Qed.
Lemma qi_escape_cases c :
  (qi_escape c = [92; 110] /\ c = 10) \/ (qi_escape c = [92; 92] /\ c = 92) \/ (qi_escape c = [92; 34] /\ c = 34) \/
  (qi_escape c = [c] /\ c <> 10 /\ c <> 92 /\ c <> 34).
Proof.
  unfold qi_escape. destruct (Z.eqb_spec c 10); [left; tauto|]. destruct (Z.eqb_spec c 92); [right; left; tauto|].
  destruct (Z.eqb_spec c 34); [right; right; left; tauto|]. right; right; right. tauto.
Qed.

(* LIT reads a QuoteString literal to its end: no password content can end it early or make it run on *)
Lemma lit_rest_quote pw rest : lit_rest (quote_string pw ++ rest) = Some rest.
Proof.
  unfold quote_string, lit_rest. cbn [app]. cbn [Z.eqb Pos.eqb]. rewrite <- app_assoc. cbn [app].
  apply (quoted_rest_escaped qs_escape 39 qs_escape_cases); try lia. rewrite !app_length. cbn. lia.
Qed.

Lemma prefix_of_app a b : prefix_of (a ++ b) b = a.
Proof. unfold prefix_of. rewrite app_length. replace (length a + length b - length b)%nat with (length a) by lia.
  rewrite firstn_app, Nat.sub_diag, firstn_all. cbn. apply app_nil_r. Qed.

Lemma quote_starts_nonspace pw rest : starts_nonspace (quote_string pw ++ rest).
Proof. reflexivity. Qed.

(* the CREATE USER clause:  WITH ws+ PASSWORD ws* 'literal'  in any letter case and layout *)
Lemma match_create_clause w ws1 p ws0 pw rest :
  spells (ts "with") w -> all_space ws1 -> ws1 <> [] -> spells (ts "password") p -> p <> [] -> starts_nonspace p -> all_space ws0 ->
  match_create (w ++ ws1 ++ p ++ ws0 ++ quote_string pw ++ rest) = Some (w ++ ws1 ++ p ++ ws0, rest).
Proof.
  intros Hw H1 Hne Hp Hpne Hps H0. unfold match_create. rewrite Hw. cbn [option_bind].
  rewrite (skip_space1_app ws1 _ H1 Hne); [|destruct p; [congruence|exact Hps]]. cbn [option_bind].
  rewrite Hp. cbn [option_bind]. rewrite (skip_space_app ws0 _ H0 (quote_starts_nonspace pw rest)).
  rewrite lit_rest_quote. cbn [option_bind]. f_equal. f_equal.
  replace (w ++ ws1 ++ p ++ ws0 ++ quote_string pw ++ rest) with ((w ++ ws1 ++ p ++ ws0) ++ quote_string pw ++ rest)
    by (rewrite <- !app_assoc; reflexivity).
  apply prefix_of_app.
Qed.

(* ---- the splice loop ---- *)
Lemma redact_skip m : forall x y, redact_all m (length x) (x ++ y) = redact_all m 0 y.
Proof. induction x as [|c x IH]; intros y; [reflexivity|]. cbn. apply IH. Qed.

(* a stretch of text at no position of which the pattern matches is copied *)
Definition quiet (m : text -> option (text * text)) (pre t : text) : Prop :=
  forall a b, pre = a ++ b -> b <> [] -> m (b ++ t) = None.

Lemma redact_quiet m : forall pre t, quiet m pre t -> redact_all m 0 (pre ++ t) = pre ++ redact_all m 0 t.
Proof.
  induction pre as [|c pre IH]; intros t Hq; [reflexivity|].
  pose proof (Hq [] (c :: pre) eq_refl ltac:(discriminate)) as H0. cbn [app] in H0.
  cbn [app redact_all]. rewrite H0. f_equal. apply IH.
  intros a b E Hb. apply (Hq (c :: a) b); [cbn; rewrite E; reflexivity|exact Hb].
Qed.

Theorem redact_clause m pre head lit post :
  quiet m pre (head ++ lit ++ post) -> head <> [] \/ lit <> [] ->
  m (head ++ lit ++ post) = Some (head, post) ->
  redact_all m 0 (pre ++ head ++ lit ++ post) = pre ++ head ++ redacted ++ redact_all m 0 post.
Proof.
  intros Hq Hne Hm. rewrite (redact_quiet m pre _ Hq). f_equal.
  assert (Hx : head ++ lit ++ post = (head ++ lit) ++ post) by (rewrite app_assoc; reflexivity).
  rewrite Hx in *. destruct (head ++ lit) as [|c x] eqn:E.
  { exfalso. apply app_eq_nil in E. destruct E; destruct Hne; congruence. }
  cbn [app redact_all] in *. rewrite Hm. f_equal. f_equal.
  replace (length (x ++ post) - length post)%nat with (length x) by (rewrite app_length; lia).
  apply redact_skip.
Qed.

(* the pattern cannot start at a character that is not a (case variant of) its first letter *)
Lemma match_create_first c t : ci 119 c = false -> match_create (c :: t) = None.
Proof. intros H. unfold match_create. cbn. rewrite H. reflexivity. Qed.
Lemma match_set_first c t : ci 112 c = false -> match_set (c :: t) = None.
Proof. intros H. unfold match_set. cbn. rewrite H. reflexivity. Qed.

Lemma quiet_no_first (m : text -> option (text * text)) l pre t :
  (forall c x, ci l c = false -> m (c :: x) = None) -> Forall (fun c => ci l c = false) pre -> quiet m pre t.
Proof.
  intros Hm Hpre a b E Hb. destruct b as [|c b]; [congruence|]. cbn. apply Hm.
  rewrite Forall_forall in Hpre. apply Hpre. rewrite E. apply in_or_app. right. left. reflexivity.
Qed.

(* C15, CREATE USER: in ANY layout and letter case, after any text that does not contain the letter w, the password
   literal — whatever characters the password contains — is replaced as a whole, and nothing else changes *)
Theorem sanitize_create_exact pre w ws1 p ws0 pw post :
  Forall (fun c => ci 119 c = false) pre ->
  spells (ts "with") w -> w <> [] -> all_space ws1 -> ws1 <> [] -> spells (ts "password") p -> p <> [] -> starts_nonspace p -> all_space ws0 ->
  redact_all match_create 0 (pre ++ (w ++ ws1 ++ p ++ ws0) ++ quote_string pw ++ post)
  = pre ++ (w ++ ws1 ++ p ++ ws0) ++ redacted ++ redact_all match_create 0 post.
Proof.
  intros Hpre Hw Hwne H1 Hne Hp Hpne Hps H0.
  apply redact_clause.
  - apply (quiet_no_first match_create 119); [apply match_create_first|exact Hpre].
  - left. destruct w; [congruence|discriminate].
  - rewrite <- !app_assoc. apply match_create_clause; assumption.
Qed.

(* non-interference: two passwords, same sanitized text *)
Corollary sanitize_create_ni pre w ws1 p ws0 pw1 pw2 post :
  Forall (fun c => ci 119 c = false) pre ->
  spells (ts "with") w -> w <> [] -> all_space ws1 -> ws1 <> [] -> spells (ts "password") p -> p <> [] -> starts_nonspace p -> all_space ws0 ->
  redact_all match_create 0 (pre ++ (w ++ ws1 ++ p ++ ws0) ++ quote_string pw1 ++ post)
  = redact_all match_create 0 (pre ++ (w ++ ws1 ++ p ++ ws0) ++ quote_string pw2 ++ post).
Proof. intros. rewrite !sanitize_create_exact by assumption. reflexivity. Qed.

(* text in which the pattern matches nowhere is returned unchanged *)
Theorem redact_identity m t : quiet m t [] -> redact_all m 0 t = t.
Proof.
  intros Hq. pose proof (redact_quiet m t [] Hq) as H. rewrite app_nil_r in H. rewrite H. cbn. apply app_nil_r.
Qed.

(* ---- SET PASSWORD FOR "name" = 'literal' ---- *)
Definition quoted_name (u : text) : text := 34 :: flat_map qi_escape u ++ [34].

(* what may follow the user name: nothing, a blank, or the '=' *)
Definition name_end (rest : text) : Prop := match rest with [] => True | c :: _ => name_char c = false /\ c <> 34 end.

Lemma name_more_stop f rest : name_end rest -> name_more f rest = rest.
Proof.
  intros H. destruct f; [reflexivity|]. destruct rest as [|c r]; [reflexivity|]. cbn in H. destruct H as [Hn Hq].
  cbn [name_more]. destruct (Z.eqb_spec c 34) as [|_]; [contradiction|]. rewrite Hn. reflexivity.
Qed.

Lemma name_end_eq ws x : all_space ws -> name_end (ws ++ 61 :: x).
Proof.
  intros H. destruct ws as [|c ws]; cbn; [split; [reflexivity|lia]|]. inversion H as [|? ? Hc _]; subst.
  unfold name_char. rewrite Hc. cbn. split; [reflexivity|]. intros ->. discriminate Hc.
Qed.

Lemma name_rest_quoted u rest : name_end rest -> name_rest (quoted_name u ++ rest) = Some rest.
Proof.
  intros He. unfold quoted_name, name_rest. cbn [app]. cbn [Z.eqb Pos.eqb]. rewrite <- app_assoc. cbn [app].
  rewrite (quoted_rest_escaped qi_escape 34 qi_escape_cases); try lia.
  - cbn [option_bind]. rewrite name_more_stop by exact He. reflexivity.
  - rewrite !app_length. cbn. lia.
Qed.

(* a user name written as a bare part directly followed by a quoted part (abc"u": the scanner drops the bare part) *)
Definition name_text (w : text) : Prop := Forall (fun c => name_char c = true) w.

Lemma skip_name_app w t : name_text w -> (match t with [] => True | c :: _ => name_char c = false end) -> skip_name (w ++ t) = t.
Proof.
  induction 1 as [|c w Hc Hw IH]; intros Ht; cbn.
  - destruct t as [|c t]; [reflexivity|]. cbn. rewrite Ht. reflexivity.
  - rewrite Hc. apply IH. exact Ht.
Qed.

Lemma name_rest_parts w u rest : name_text w -> w <> [] -> name_end rest -> name_rest (w ++ quoted_name u ++ rest) = Some rest.
Proof.
  intros Hw Hne He. destruct w as [|c w]; [congruence|]. inversion Hw as [|? ? Hc Hw']; subst.
  unfold name_rest. cbn [app].
  assert (c <> 34) by (intros ->; discriminate Hc). destruct (Z.eqb_spec c 34) as [|_]; [contradiction|]. rewrite Hc.
  rewrite (skip_name_app w (quoted_name u ++ rest) Hw') by reflexivity.
  unfold quoted_name. cbn [app length name_more]. cbn [Z.eqb Pos.eqb]. rewrite <- app_assoc. cbn [app].
  rewrite (quoted_rest_escaped qi_escape 34 qi_escape_cases); try lia.
  - rewrite name_more_stop by exact He. reflexivity.
  - rewrite !app_length. cbn. lia.
Qed.

(* a spelling of a user name: the name recogniser consumes exactly it in front of a blank or '=' *)
Definition name_spelling (nm : text) : Prop := forall x, name_end x -> name_rest (nm ++ x) = Some x.

Lemma quoted_name_spelling u : name_spelling (quoted_name u).
Proof. intros x Hx. apply name_rest_quoted. exact Hx. Qed.
Lemma parts_name_spelling w u : name_text w -> w <> [] -> name_spelling (w ++ quoted_name u).
Proof. intros Hw Hne x Hx. rewrite <- app_assoc. apply name_rest_parts; assumption. Qed.

Lemma match_set_clause p ws1 f ws2 nm ws3 ws4 pw rest :
  spells (ts "password") p -> all_space ws1 -> ws1 <> [] -> spells (ts "for") f -> f <> [] -> starts_nonspace f ->
  all_space ws2 -> ws2 <> [] -> name_spelling nm -> nm <> [] -> starts_nonspace nm -> all_space ws3 -> all_space ws4 ->
  match_set (p ++ ws1 ++ f ++ ws2 ++ nm ++ ws3 ++ 61 :: ws4 ++ quote_string pw ++ rest)
  = Some (p ++ ws1 ++ f ++ ws2 ++ nm ++ ws3 ++ 61 :: ws4, rest).
Proof.
  intros Hp H1 Hne1 Hf Hfne Hfs H2 Hne2 Hnm Hnmne Hnms H3 H4. unfold match_set. rewrite Hp. cbn [option_bind].
  rewrite (skip_space1_app ws1 _ H1 Hne1); [|destruct f; [congruence|exact Hfs]]. cbn [option_bind].
  rewrite Hf. cbn [option_bind].
  rewrite (skip_space1_app ws2 _ H2 Hne2); [|destruct nm; [congruence|exact Hnms]]. cbn [option_bind].
  rewrite (Hnm _ (name_end_eq ws3 _ H3)). cbn [option_bind].
  rewrite (skip_space_app ws3 (61 :: ws4 ++ quote_string pw ++ rest) H3 ltac:(reflexivity)).
  cbn [Z.eqb Pos.eqb]. rewrite (skip_space_app ws4 _ H4 (quote_starts_nonspace pw rest)).
  rewrite lit_rest_quote. cbn [option_bind]. f_equal. f_equal.
  replace (p ++ ws1 ++ f ++ ws2 ++ nm ++ ws3 ++ 61 :: ws4 ++ quote_string pw ++ rest)
    with ((p ++ ws1 ++ f ++ ws2 ++ nm ++ ws3 ++ 61 :: ws4) ++ quote_string pw ++ rest).
  - apply prefix_of_app.
  - rewrite <- ?app_assoc. cbn [app]. rewrite <- ?app_assoc. reflexivity.
Qed.

(* ---- the one pass of Sanitize: both clause heads at once ---- *)
Definition plain (c : Z) : Prop := ci 119 c = false /\ ci 112 c = false.   (* neither w nor p, in any case *)

Lemma match_any_first c t : plain c -> match_any (c :: t) = None.
Proof. intros [Hw Hp]. unfold match_any. rewrite (match_set_first c t Hp). apply match_create_first. exact Hw. Qed.

Lemma quiet_plain pre t : Forall plain pre -> quiet match_any pre t.
Proof.
  intros Hpre a b E Hb. destruct b as [|c b]; [congruence|]. cbn. apply match_any_first.
  rewrite Forall_forall in Hpre. apply Hpre. rewrite E. apply in_or_app. right. left. reflexivity.
Qed.

(* a spelling of WITH does not start the SET PASSWORD head *)
Lemma with_not_set w x : spells (ts "with") w -> w <> [] -> match_set (w ++ x) = None.
Proof.
  intros Hw Hne. destruct w as [|c w]; [congruence|]. pose proof (Hw []) as H. cbn in H.
  destruct (ci 119 c) eqn:Ec; [|discriminate]. unfold match_set. cbn.
  assert (ci 112 c = false) as ->; [|reflexivity].
  unfold ci in *. cbn in *. lia.
Qed.

(* C15, CREATE USER: in any layout and letter case, after any text without the letters w and p, the password literal -
   whatever the password contains, clause keywords included - is replaced as a whole, nothing else changes, and the
   rest of the text is sanitized on its own *)
Theorem sanitize_create pre w ws1 p ws0 pw post :
  Forall plain pre ->
  spells (ts "with") w -> w <> [] -> all_space ws1 -> ws1 <> [] -> spells (ts "password") p -> p <> [] -> starts_nonspace p -> all_space ws0 ->
  sanitize (pre ++ (w ++ ws1 ++ p ++ ws0) ++ quote_string pw ++ post)
  = pre ++ (w ++ ws1 ++ p ++ ws0) ++ redacted ++ sanitize post.
Proof.
  intros Hpre Hw Hwne H1 Hne Hp Hpne Hps H0. unfold sanitize.
  apply redact_clause.
  - apply quiet_plain. exact Hpre.
  - left. destruct w; [congruence|discriminate].
  - unfold match_any. rewrite <- !app_assoc. rewrite (with_not_set w _ Hw Hwne). apply match_create_clause; assumption.
Qed.

Theorem sanitize_set pre p ws1 f ws2 nm ws3 ws4 pw post :
  Forall plain pre ->
  spells (ts "password") p -> p <> [] -> all_space ws1 -> ws1 <> [] -> spells (ts "for") f -> f <> [] -> starts_nonspace f ->
  all_space ws2 -> ws2 <> [] -> name_spelling nm -> nm <> [] -> starts_nonspace nm -> all_space ws3 -> all_space ws4 ->
  sanitize (pre ++ (p ++ ws1 ++ f ++ ws2 ++ nm ++ ws3 ++ 61 :: ws4) ++ quote_string pw ++ post)
  = pre ++ (p ++ ws1 ++ f ++ ws2 ++ nm ++ ws3 ++ 61 :: ws4) ++ redacted ++ sanitize post.
Proof.
  intros Hpre Hp Hpne H1 Hne1 Hf Hfne Hfs H2 Hne2 Hnm Hnmne Hnms H3 H4. unfold sanitize.
  apply redact_clause.
  - apply quiet_plain. exact Hpre.
  - left. destruct p; [congruence|discriminate].
  - unfold match_any.
    replace ((p ++ ws1 ++ f ++ ws2 ++ nm ++ ws3 ++ 61 :: ws4) ++ quote_string pw ++ post)
      with (p ++ ws1 ++ f ++ ws2 ++ nm ++ ws3 ++ 61 :: ws4 ++ quote_string pw ++ post).
    + rewrite match_set_clause by assumption. reflexivity.
    + rewrite <- ?app_assoc. cbn [app]. rewrite <- ?app_assoc. reflexivity.
Qed.

Corollary sanitize_ni_create pre w ws1 p ws0 pw1 pw2 post :
  Forall plain pre ->
  spells (ts "with") w -> w <> [] -> all_space ws1 -> ws1 <> [] -> spells (ts "password") p -> p <> [] -> starts_nonspace p -> all_space ws0 ->
  sanitize (pre ++ (w ++ ws1 ++ p ++ ws0) ++ quote_string pw1 ++ post)
  = sanitize (pre ++ (w ++ ws1 ++ p ++ ws0) ++ quote_string pw2 ++ post).
Proof. intros. rewrite !sanitize_create by assumption. reflexivity. Qed.

Corollary sanitize_ni_set pre p ws1 f ws2 nm ws3 ws4 pw1 pw2 post :
  Forall plain pre ->
  spells (ts "password") p -> p <> [] -> all_space ws1 -> ws1 <> [] -> spells (ts "for") f -> f <> [] -> starts_nonspace f ->
  all_space ws2 -> ws2 <> [] -> name_spelling nm -> nm <> [] -> starts_nonspace nm -> all_space ws3 -> all_space ws4 ->
  sanitize (pre ++ (p ++ ws1 ++ f ++ ws2 ++ nm ++ ws3 ++ 61 :: ws4) ++ quote_string pw1 ++ post)
  = sanitize (pre ++ (p ++ ws1 ++ f ++ ws2 ++ nm ++ ws3 ++ 61 :: ws4) ++ quote_string pw2 ++ post).
Proof. intros. rewrite !sanitize_set by assumption. reflexivity. Qed.

Theorem sanitize_identity t : quiet match_any t [] -> sanitize t = t.
Proof. apply redact_identity. Qed.
