(* C16 at the lexer, through the plain-text lexer: a gap is one WS token whatever whitespace it is made of
   (CR and CRLF included, since the text a reader delivers is CR-folded), a comment is one COMMENT token, and the
   tokens behind the gap do not depend on how the gap was spelled. *)
From InfluxQL Require Import Base.Prelude Lex.Token Lex.Reader Lex.Scanner Proofs.LexerSafety.
From InfluxQL Require Import Lex.StreamLex.
From InfluxQL Require Import Proofs.RingAt Proofs.RingRefine Proofs.StreamTile Proofs.LexTiling.

Definition ws_text (w : text) : Prop := Forall (fun x => is_whitespace x = true) w.

Lemma ws_nz x : is_whitespace x = true -> (x =? 0) = false.
Proof. intros H. destruct (Z.eqb_spec x 0) as [->|]; [discriminate H|reflexivity]. Qed.

Lemma ws_loop_run d rest : is_whitespace d = false -> d <> 0 -> forall w f acc, ws_text w -> (length w < f)%nat ->
  s_ws_loop f (w ++ d :: rest) acc = (rev acc ++ w, d :: rest).
Proof.
  intros Hd Hd0. induction w as [|x w IH]; intros f acc Hw L; (destruct f as [|f]; [cbn in L; lia|]); cbn [s_ws_loop app sread].
  - destruct (Z.eqb_spec d 0) as [|_]; [contradiction|]. rewrite Hd. cbn [negb]. rewrite (ucons_nz d rest Hd0), app_nil_r. reflexivity.
  - inversion Hw as [|? ? Hx Hw']; subst. rewrite (ws_nz x Hx), Hx. cbn [negb].
    rewrite (IH f (x :: acc) Hw' ltac:(cbn in L; lia)). cbn [rev]. rewrite <- app_assoc. reflexivity.
Qed.

Section G.
Variable ulower : Z -> Z.

Lemma s_scan_gap c w d rest : is_whitespace c = true -> ws_text w -> is_whitespace d = false -> d <> 0 ->
  s_scan ulower (c :: w ++ d :: rest) = ((WS, c :: w), d :: rest).
Proof.
  intros Hc Hw Hd Hd0. unfold s_scan. cbn [sread]. rewrite Hc. unfold s_scan_whitespace.
  rewrite (ws_loop_run d rest Hd Hd0 w (sfuel (w ++ d :: rest)) [c] Hw).
  - reflexivity.
  - unfold sfuel. rewrite app_length. lia.
Qed.

Lemma s_scan_all_step f t tok lit t' : s_scan ulower t = ((tok, lit), t') -> tok <> EOF ->
  map fst (s_scan_all ulower (S f) t) = (tok, lit) :: map fst (s_scan_all ulower f t').
Proof. intros E Hne. cbn [s_scan_all]. rewrite E. destruct tok; try reflexivity. contradiction. Qed.

(* readers that deliver the same text produce the same tokens and literals from there on *)
Theorem same_text_same_tokens T1 T2 f r1 r2 t : at_ T1 r1 t -> at_ T2 r2 t -> r_n r1 <= 2 -> r_n r2 <= 2 ->
  map tl_of (fst (scan_all ulower f r1 [])) = map tl_of (fst (scan_all ulower f r2 [])).
Proof.
  intros H1 H2 N1 N2. rewrite (ring_scan_all ulower T1 f r1 t [] H1 N1), (ring_scan_all ulower T2 f r2 t [] H2 N2). reflexivity.
Qed.

(* two spellings of one gap: each scans as WS followed by the same tokens *)
Theorem gap_spelling T1 T2 f r1 r2 c1 w1 c2 w2 d rest :
  at_ T1 r1 (c1 :: w1 ++ d :: rest) -> at_ T2 r2 (c2 :: w2 ++ d :: rest) -> r_n r1 <= 2 -> r_n r2 <= 2 ->
  is_whitespace c1 = true -> is_whitespace c2 = true -> ws_text w1 -> ws_text w2 -> is_whitespace d = false -> d <> 0 ->
  exists tail,
    map tl_of (fst (scan_all ulower (S f) r1 [])) = (WS, c1 :: w1) :: tail /\
    map tl_of (fst (scan_all ulower (S f) r2 [])) = (WS, c2 :: w2) :: tail.
Proof.
  intros H1 H2 N1 N2 C1 C2 W1 W2 Hd Hd0. exists (map fst (s_scan_all ulower f (d :: rest))).
  rewrite (ring_scan_all ulower T1 (S f) r1 _ [] H1 N1), (ring_scan_all ulower T2 (S f) r2 _ [] H2 N2).
  rewrite (s_scan_all_step f _ _ _ _ (s_scan_gap c1 w1 d rest C1 W1 Hd Hd0) ltac:(discriminate)).
  rewrite (s_scan_all_step f _ _ _ _ (s_scan_gap c2 w2 d rest C2 W2 Hd Hd0) ltac:(discriminate)).
  split; reflexivity.
Qed.

(* a line comment up to and including its line feed, and a block comment with a star-free body, are one COMMENT *)
Definition line_body (b : text) : Prop := Forall (fun x => x <> 10 /\ x <> 0) b.
Definition block_body (b : text) : Prop := Forall (fun x => x <> 42 /\ x <> 0) b.

Lemma skip_newline_run rest : forall b f, line_body b -> (length b < f)%nat -> s_skip_newline f (b ++ 10 :: rest) = rest.
Proof.
  induction b as [|x b IH]; intros f Hb L; (destruct f as [|f]; [cbn in L; lia|]); cbn [s_skip_newline app sread].
  - reflexivity.
  - inversion Hb as [|? ? [Hx Hx0] Hb']; subst.
    destruct (Z.eqb_spec x 10) as [|_]; [contradiction|]. destruct (Z.eqb_spec x 0) as [|_]; [contradiction|]. cbn [orb].
    apply IH; [exact Hb'|cbn in L; lia].
Qed.
Lemma s_scan_line_comment b rest : line_body b -> s_scan ulower (45 :: 45 :: b ++ 10 :: rest) = ((COMMENT, []), rest).
Proof.
  intros Hb. unfold s_scan. cbn [sread]. cbn. rewrite skip_newline_run; [reflexivity|exact Hb|unfold sfuel; rewrite app_length; lia].
Qed.

Lemma skip_comment_run rest : forall b f, block_body b -> (S (length b) < f)%nat ->
  s_skip_comment f false (b ++ 42 :: 47 :: rest) = (false, rest).
Proof.
  induction b as [|x b IH]; intros f Hb L; (destruct f as [|f]; [cbn in L; lia|]); cbn [s_skip_comment app sread].
  - destruct f as [|f]; [cbn in L; lia|]. cbn. reflexivity.
  - inversion Hb as [|? ? [Hx Hx0] Hb']; subst.
    destruct (Z.eqb_spec x 42) as [|_]; [contradiction|]. destruct (Z.eqb_spec x 0) as [|_]; [contradiction|].
    apply IH; [exact Hb'|cbn in L; lia].
Qed.
Lemma s_scan_block_comment b rest : block_body b -> s_scan ulower (47 :: 42 :: b ++ 42 :: 47 :: rest) = ((COMMENT, []), rest).
Proof.
  intros Hb. unfold s_scan. cbn [sread]. cbn - [s_skip_comment sfuel].
  rewrite skip_comment_run; [reflexivity|exact Hb|unfold sfuel; rewrite app_length; cbn; lia].
Qed.


(* a block comment flanked by whitespace in place of plain whitespace: WS COMMENT WS instead of WS, and the same
   tokens and literals behind.  The parser's ScanIgnoreWhitespace skips all three; where it looks at raw runes
   instead (regex look-ahead, known finding C16-comment-lookahead) the comment is not skipped. *)
Theorem comment_in_gap T1 T2 f r1 r2 c1 w1 b c3 w3 c2 w2 d rest :
  at_ T1 r1 (c1 :: w1 ++ 47 :: 42 :: b ++ 42 :: 47 :: c3 :: w3 ++ d :: rest) -> at_ T2 r2 (c2 :: w2 ++ d :: rest) ->
  r_n r1 <= 2 -> r_n r2 <= 2 ->
  is_whitespace c1 = true -> is_whitespace c2 = true -> is_whitespace c3 = true -> ws_text w1 -> ws_text w2 -> ws_text w3 ->
  block_body b -> is_whitespace d = false -> d <> 0 ->
  exists tail,
    map tl_of (fst (scan_all ulower (S (S (S f))) r1 [])) = (WS, c1 :: w1) :: (COMMENT, []) :: (WS, c3 :: w3) :: tail /\
    map tl_of (fst (scan_all ulower (S f) r2 [])) = (WS, c2 :: w2) :: tail.
Proof.
  intros H1 H2 N1 N2 C1 C2 C3 W1 W2 W3 Hb Hd Hd0. exists (map fst (s_scan_all ulower f (d :: rest))).
  rewrite (ring_scan_all ulower T1 _ r1 _ [] H1 N1), (ring_scan_all ulower T2 (S f) r2 _ [] H2 N2).
  rewrite (s_scan_all_step _ _ _ _ _ (s_scan_gap c1 w1 47 _ C1 W1 ltac:(reflexivity) ltac:(lia)) ltac:(discriminate)).
  rewrite (s_scan_all_step _ _ _ _ _ (s_scan_block_comment b _ Hb) ltac:(discriminate)).
  rewrite (s_scan_all_step _ _ _ _ _ (s_scan_gap c3 w3 d rest C3 W3 Hd Hd0) ltac:(discriminate)).
  rewrite (s_scan_all_step _ _ _ _ _ (s_scan_gap c2 w2 d rest C2 W2 Hd Hd0) ltac:(discriminate)).
  split; reflexivity.
Qed.
End G.
