(* C05 on the exact lexer, decided by the kernel on every text up to a length
   bound over a class-representative alphabet (finite statements; the bound is
   part of each statement's name). *)
From InfluxQL Require Import Base.Prelude Lex.Token Lex.Reader Lex.Scanner.

Definition id_lower (c : Z) : Z := c.

(* tokens with the net number of folded runes consumed after each *)
Fixpoint scan_ext (fuel : nat) (total : Z) (r : reader) (acc : list (tokres * Z)) : option (list (tokres * Z)) :=
  match fuel with
  | O => None
  | S f =>
      let '((tok, p, lit), r1) := scan id_lower r in
      if r_bad r1 || r_oof r1 || (3 <? r_maxn r1) then None else
      let item := ((tok, p, lit), consumed total r1) in
      match tok with
      | EOF => Some (rev (item :: acc))
      | _ => scan_ext f total r1 (item :: acc)
      end
  end.

Fixpoint linecol_from (p : pos) (s : text) (k : nat) : pos :=
  match k, s with
  | S k', c :: s' => linecol_from (if c =? 10 then mkPos (p_line p + 1) 0 else mkPos (p_line p) (p_char p + 1)) s' k'
  | _, _ => p
  end.
Definition linecol (s : text) (k : Z) : pos := linecol_from pos0 s (Z.to_nat k).

Definition string_like (t : token) : bool :=
  match t with STRING | BADSTRING | BADESCAPE => true | _ => false end.

(* tiling and positions over the token list: [start] is the offset where the next token begins *)
Fixpoint tiles_ok (folded : text) (start : Z) (toks : list (tokres * Z)) : bool :=
  match toks with
  | [] => false
  | [((EOF, p, _), e)] => (e =? start) && (start =? Z.of_nat (length folded))
  | ((tok, p, _), e) :: rest =>
      (start <? e) && (e <=? Z.of_nat (length folded))
      && (string_like tok || pos_eqb p (linecol folded start))
      && match tok with EOF => false | _ => tiles_ok folded e rest end
  end.

Definition nul_free (s : text) : bool := forallb (fun c => negb (c =? 0)) s.

(* the property for one text: scanning terminates within |text|+1 tokens without
   overrunning the 3-slot pushback ring, the tokens tile the CR-folded text, and every
   token except STRING/BADSTRING/BADESCAPE (finding C05-string-pos) and EOF (finding
   C05-eof-col) reports the line and column of its first character *)
Definition c05_ok (s : text) : bool :=
  let folded := fold_cr s in
  match scan_ext (S (length folded)) (Z.of_nat (length folded)) (new_reader s) [] with
  | None => false
  | Some toks => negb (nul_free s) || tiles_ok folded 0 toks
  end.

Definition alphabet : text :=
  [32; 9; 10; 13; 97; 122; 65; 110; 115; 109; 117; 104; 181; 48; 57; 95; 34; 39; 92; 46; 36; 43; 45; 42; 47; 37; 38;
   124; 94; 61; 33; 126; 60; 62; 40; 41; 44; 59; 58; 233; 65533; 128512; 0].

(* all texts of length <= n over the alphabet, without materialising them *)
Fixpoint all_upto (n : nat) (prefix_rev : text) (p : text -> bool) : bool :=
  p (rev prefix_rev) &&
  match n with
  | O => true
  | S n' => forallb (fun c => all_upto n' (c :: prefix_rev) p) alphabet
  end.

Lemma c05_upto2 : all_upto 2 [] c05_ok = true.
Proof. vm_compute. reflexivity. Qed.

Lemma c05_upto3 : all_upto 3 [] c05_ok = true.
Proof. vm_compute. reflexivity. Qed.
