(* Bound parameters: the value -> (token kind, literal) mapping yields one typed token whose literal is
   the bound value verbatim; substitution happens on the scanned token, after lexing, and never touches
   the lexer state. *)
From InfluxQL Require Import Base.Prelude Base.Oracles Lex.Token Lex.Reader Lex.Scanner Parse.Instr Parse.Params.

Definition param_token_kinds : list token := [IDENT; STRING; REGEX; NUMBER; INTEGER; TRUE; FALSE; DURATIONVAL; BOUNDPARAM].

Lemma bind_object_kind orc k v : In (fst (bind_object orc k v)) param_token_kinds.
Proof.
  unfold bind_object, param_token_kinds, error_value, number_value.
  destruct (match v with GJson s => json_number_to_value orc s | _ => Some v end) as [v'|]; [|cbn; tauto].
  repeat match goal with |- context [if ?c then _ else _] => destruct c end;
    destruct v'; cbn; tauto.
Qed.

Lemma bind_value_kind orc v : In (fst (bind_value orc v)) param_token_kinds.
Proof.
  unfold bind_value.
  destruct (match v with GJson s => json_number_to_value orc s | _ => Some v end) as [v'|];
    [|unfold error_value, param_token_kinds; cbn; tauto].
  destruct v' as [f|i|s|b|s|es|]; try (unfold number_value, error_value, param_token_kinds; cbn; tauto).
  - destruct b; unfold param_token_kinds; cbn; tauto.
  - destruct es as [|[k x] [|e es]]; try (unfold error_value, param_token_kinds; cbn; tauto).
    apply bind_object_kind.
Qed.

(* a string value is bound verbatim, whatever it contains: its content is never inspected *)
Lemma bind_string_verbatim orc s : bind_value orc (GString s) = (STRING, s).
Proof. reflexivity. Qed.
Lemma bind_object_string_verbatim orc s : bind_value orc (GObj [(ts "string", GString s)]) = (STRING, s).
Proof. reflexivity. Qed.
Lemma bind_object_ident_verbatim orc s : bind_value orc (GObj [(ts "ident", GString s)]) = (IDENT, s).
Proof. reflexivity. Qed.
Lemma bind_object_regex_verbatim orc s : bind_value orc (GObj [(ts "regex", GString s)]) = (REGEX, s).
Proof. reflexivity. Qed.

(* ---- substitution is a function of the scanned token and the parameter map only ---- *)
Definition set_params (s : pstate) (p : list (text * (token * text))) : pstate :=
  mkPstate (ps_rd s) (ps_i s) (ps_n s) (ps_b0 s) (ps_b1 s) (ps_b2 s) (ps_next s) (ps_log s) p (ps_bad s) (ps_maxn s) (ps_steps s).

Lemma substitute_other params tok lit : tok <> BOUNDPARAM -> substitute params tok lit = (tok, lit).
Proof. intros H. destruct tok; try reflexivity. congruence. Qed.

Definition param_name (lit : text) : text := match lit with c :: k => if c =? 36 then k else lit | [] => lit end.

Lemma substitute_bound params lit t v :
  param_name lit <> [] -> assoc_text (param_name lit) params = Some (t, v) -> substitute params BOUNDPARAM lit = (t, v).
Proof.
  unfold substitute. change (match lit with c :: k' => if c =? 36 then k' else lit | [] => lit end) with (param_name lit).
  intros Hne Ha. destruct (param_name lit) as [|c k] eqn:E; [congruence|]. rewrite Ha. reflexivity.
Qed.

(* an unbound or empty-named placeholder stays a BOUNDPARAM token (which every parser function rejects) *)
Lemma substitute_unbound params lit :
  param_name lit = [] \/ assoc_text (param_name lit) params = None -> substitute params BOUNDPARAM lit = (BOUNDPARAM, lit).
Proof.
  unfold substitute. change (match lit with c :: k' => if c =? 36 then k' else lit | [] => lit end) with (param_name lit).
  intros [H|H]; destruct (param_name lit) as [|c k] eqn:E; try reflexivity; try congruence. rewrite H. reflexivity.
Qed.

Section WithLower.
Variable ulower : Z -> Z.

(* the state a scan leaves behind does not depend on the parameter values: only the answer does *)
Lemma buf_scan_params rx s p :
  snd (buf_scan ulower rx (set_params s p)) = set_params (snd (buf_scan ulower rx s)) p.
Proof.
  unfold buf_scan, set_params. cbn [ps_rd ps_i ps_n ps_b0 ps_b1 ps_b2 ps_next ps_log ps_params ps_bad ps_maxn ps_steps].
  destruct (0 <? ps_n s).
  - unfold ps_curr, ps_curr_index, ps_get. cbn [ps_i ps_n ps_b0 ps_b1 ps_b2].
    repeat match goal with |- context [let '(_, _) := ?x in _] => destruct x end.
    destruct (if Z.rem (ps_i s - (ps_n s - 1) + 3) 3 =? 0 then ps_b0 s
              else if Z.rem (ps_i s - (ps_n s - 1) + 3) 3 =? 1 then ps_b1 s else ps_b2 s) as [[[tok ps] lit] ser].
    destruct (substitute (ps_params s) tok lit), (substitute p tok lit). reflexivity.
  - destruct (if rx then scan_regex (ps_rd s) else scan ulower (ps_rd s)) as [[[tok ps] lit] rd'].
    destruct (substitute (ps_params s) tok lit), (substitute p tok lit). reflexivity.
Qed.

Lemma unscan_params s p : do_unscan (set_params s p) = set_params (do_unscan s) p.
Proof. reflexivity. Qed.

Lemma peek_params s p : do_peek (set_params s p) = (fst (do_peek s), set_params (snd (do_peek s)) p).
Proof.
  unfold do_peek, set_params. cbn [ps_rd ps_i ps_n ps_b0 ps_b1 ps_b2 ps_next ps_log ps_params ps_bad ps_maxn ps_steps].
  destruct (read (ps_rd s)) as [[ch ps] rd']. reflexivity.
Qed.

(* what a scan answers: the raw token unless it is a placeholder; a placeholder is answered with exactly the
   (kind, literal) pair bound to its name — one token, never text to be lexed again *)
Lemma buf_scan_answer rx s :
  exists tok lit ser, fst (buf_scan ulower rx s) = (fst (substitute (ps_params s) tok lit), snd (substitute (ps_params s) tok lit), ser).
Proof.
  unfold buf_scan. destruct (0 <? ps_n s).
  - destruct (ps_curr _) as [[[tok ps] lit] ser]. exists tok, lit, ser.
    destruct (substitute (ps_params s) tok lit). reflexivity.
  - destruct (if rx then _ else _) as [[[tok ps] lit] rd']. exists tok, lit, (ps_next s).
    destruct (substitute (ps_params s) tok lit). reflexivity.
Qed.
End WithLower.
