(* C10: the split of a condition into time range and residual preserves its meaning at every point. *)
From InfluxQL Require Import Base.Prelude Base.Oracles Lex.Token Ast.Ast Sem.Eval Sem.Reduce Sem.Condition Proofs.ReduceProofs.

Section Split.
Variable orc : oracles.
Variable G : text -> option ty.
Variable now : Z.

Definition nowv : valuer := mkValuer [] (Some now).
Definition now_call : expr := Call (ts "now") [].

(* the variables of the residual are typed; "now()" (the NowValuer's key) is not among them *)
Hypothesis G_now : G (ts "now()") = None.

Definition in_bounds (t : Z) : bool := negb (MaxTime <? t) && negb (t <? MinTime + 1).

(* the instant a time operand denotes: integer nanoseconds, a duration since the epoch, a float truncated to
   nanoseconds, an RFC3339 / date string, now(), and now() or a string plus or minus a duration *)
Inductive tbase : expr -> Z -> Prop :=
| TB_str s t : o_parse_time orc s = Some t -> tbase (StringLit s) t
| TB_now : tbase now_call now.
Inductive tform : expr -> Z -> Prop :=
| TF_int i : tform (IntegerLit i) i
| TF_dur d : tform (DurationLit d) d
| TF_num f : tform (NumberLit f) (o_float_to_int orc f)
| TF_base a t : tbase a t -> in_bounds t = true -> tform a t
| TF_add a t d : tbase a t -> in_bounds (t + d) = true -> tform (BinaryExpr ADD a (DurationLit d)) (t + d)
| TF_sub a t d : tbase a t -> fits64 d = true -> d <> min_i64 -> in_bounds (t - d) = true ->
                 tform (BinaryExpr SUB a (DurationLit d)) (t - d).

Definition cmp_op (op : token) : bool := match op with EQ | LT | LTE | GT | GTE => true | _ => false end.
Definition cmp (op : token) (a b : Z) : bool :=
  match op with EQ => a =? b | LT => a <? b | LTE => a <=? b | GT => b <? a | GTE => b <=? a | _ => false end.

Definition in_range (tr : timerange) (t : Z) : bool :=
  (match tr_min tr with Some m => m <=? t | None => true end) && (match tr_max tr with Some m => t <=? m | None => true end).

Definition range_of (op : token) (x : Z) : timerange :=
  match op with
  | GT => mkRange (Some (x + 1)) None | GTE => mkRange (Some x) None
  | LT => mkRange None (Some (x - 1)) | LTE => mkRange None (Some x)
  | _ => mkRange (Some x) (Some x)
  end.

Lemma in_range_of op x t : cmp_op op = true -> in_range (range_of op x) t = cmp op t x.
Proof. destruct op; try discriminate; intros _; unfold in_range, range_of, cmp; cbn; lia. Qed.

Lemma in_range_intersect a b t : in_range (intersect a b) t = in_range a t && in_range b t.
Proof.
  unfold in_range, intersect. destruct a as [amin amax], b as [bmin bmax]. cbn.
  destruct amin as [x|], bmin as [y|], amax as [u|], bmax as [w|]; cbn;
    repeat match goal with |- context [if ?c then _ else _] => destruct c eqn:? end; cbn; lia.
Qed.

Lemma in_range0 t : in_range range0 t = true.
Proof. reflexivity. Qed.

Lemma in_bounds_spec t : in_bounds t = true -> (MaxTime <? t) = false /\ (t <? MinTime + 1) = false.
Proof. unfold in_bounds. rewrite andb_true_iff, !negb_true_iff. tauto. Qed.

Lemma neg_wrap d : fits64 d = true -> d <> min_i64 -> wrap64 (- d) = - d.
Proof.
  intros Hf Hd. apply wrap64_id. unfold fits64, min_i64, max_i64 in *.
  apply andb_true_iff in Hf. destruct Hf as [H1 H2]. apply Z.leb_le in H1. apply Z.leb_le in H2.
  apply andb_true_iff. split; apply Z.leb_le; lia.
Qed.

Local Opaque MaxTime MinTime.

(* getTimeRange agrees with the declared instants *)
Lemma gtr_spec op e x : cmp_op op = true -> tform e x -> get_time_range orc nowv op e = Some (range_of op x).
Proof.
  intros Hop Hf.
  assert (Hfin : forall val, (match op with
                 | GT => Some (mkRange (Some (val + 1)) None) | GTE => Some (mkRange (Some val) None)
                 | LT => Some (mkRange None (Some (val - 1))) | LTE => Some (mkRange None (Some val))
                 | EQ => Some (mkRange (Some val) (Some val)) | _ => None end) = Some (range_of op val)).
  { intros val. destruct op; try discriminate; reflexivity. }
  destruct Hf as [i|d|f|a t Hb Hin|a t d Hb Hin|a t d Hb Hfit Hd Hin].
  - unfold get_time_range, Reduce. cbn. apply Hfin.
  - unfold get_time_range, Reduce. cbn. apply Hfin.
  - unfold get_time_range, Reduce. cbn. apply Hfin.
  - destruct (in_bounds_spec _ Hin) as [B1 B2]. destruct Hb as [s t Hp|].
    + unfold get_time_range, Reduce. rewrite Hp. cbn. rewrite B1, B2. apply Hfin.
    + unfold get_time_range, Reduce, now_call. cbn. rewrite B1, B2. apply Hfin.
  - destruct (in_bounds_spec _ Hin) as [B1 B2]. destruct Hb as [s t Hp|].
    + unfold get_time_range, Reduce. cbn [reduce]. unfold reduce_bin, red_str_lhs. cbn. rewrite Hp. cbn. rewrite B1, B2. apply Hfin.
    + unfold get_time_range, Reduce, now_call. cbn. rewrite B1, B2. apply Hfin.
  - destruct (in_bounds_spec _ Hin) as [B1 B2]. pose proof (neg_wrap d Hfit Hd) as Hw.
    replace (t - d) with (t + - d) in * by lia. destruct Hb as [s t Hp|].
    + unfold get_time_range, Reduce. cbn [reduce]. unfold reduce_bin, red_str_lhs. cbn. rewrite Hp. cbn. rewrite Hw, B1, B2. apply Hfin.
    + unfold get_time_range, Reduce, now_call. cbn. rewrite Hw, B1, B2. apply Hfin.
Qed.

Lemma gtr_swap op : cmp_op op = true -> cmp_op (swap_op op) = true.
Proof. destruct op; try discriminate; reflexivity. Qed.

(* ---- meaning of a condition at a point (timestamp ts, tag/field values env) ---- *)
Definition is_logic (op : token) : bool := match op with AND | OR => true | _ => false end.

Section Point.
Variable tstamp : Z.
Variable env0 : env.

(* [means c pure b]: condition c, built from time comparisons (time on either side of = < <= > >= against the
   operand forms of tform), typed non-time predicates and boolean literals, joined by AND and parentheses, and by
   OR among conditions without time comparisons (pure = true), holds at the point iff b *)
Inductive means : expr -> bool -> bool -> Prop :=
| M_time_l op k dt rhs x :
    is_time_ref orc (VarRef k dt) = true -> cmp_op op = true -> tform rhs x ->
    means (BinaryExpr op (VarRef k dt) rhs) false (cmp op tstamp x)
| M_time_r op k dt lhs x :
    is_time_ref orc (VarRef k dt) = true -> is_time_ref orc lhs = false -> cmp_op op = true -> tform lhs x ->
    means (BinaryExpr op lhs (VarRef k dt)) false (cmp (swap_op op) tstamp x)      (* lit OP time  =  time OP' lit *)
| M_pred op l r :
    is_logic op = false -> is_time_ref orc l = false -> is_time_ref orc r = false ->
    typeof orc G (BinaryExpr op l r) = Some TB ->
    means (BinaryExpr op l r) true (eval_bool orc true env0 (BinaryExpr op l r))
| M_bool b : means (BooleanLit b) true b
| M_and a b p q x y : means a p x -> means b q y -> means (BinaryExpr AND a b) (p && q) (x && y)
| M_or a b x y : means a true x -> means b true y -> means (BinaryExpr OR a b) true (x || y)
| M_paren a p x : means a p x -> means (ParenExpr a) p x.

Definition resid_holds (r : option expr) : bool :=
  match r with Some e => eval_bool orc true env0 e | None => true end.
Definition resid_typed (r : option expr) : Prop :=
  match r with Some e => typeof orc G e = Some TB | None => True end.

Hypothesis Henv : env_ok orc G env0.

Lemma typed_bool e : typeof orc G e = Some TB -> exists b, eval orc true env0 e = VBool b.
Proof.
  intros H. pose proof (eval_typed orc G true env0 Henv e TB H) as V.
  destruct (eval orc true env0 e); cbn in V; try contradiction. eexists; reflexivity.
Qed.

(* a typed expression mentions neither now() nor a clock: the NowValuer leaves it as the empty MapValuer does *)
Lemma reduce_now_typed : forall e t, typeof orc G e = Some t -> reduce orc nowv e = reduce orc (map_valuer []) e.
Proof.
  induction e; intros ty0 Ht; cbn in Ht; try discriminate; cbn [reduce]; try reflexivity.
  - destruct (typeof orc G e1) as [a|] eqn:E1; [|discriminate]. destruct (typeof orc G e2) as [b|] eqn:E2; [|discriminate].
    rewrite (IHe1 a eq_refl), (IHe2 b eq_refl). reflexivity.
  - rewrite (IHe ty0 Ht). reflexivity.
  - unfold valuer_value, nowv, map_valuer. cbn [vl_map vl_now lookup_env].
    destruct (text_eqb v (ts "now()")) eqn:E; [|reflexivity].
    apply text_eqb_eq in E. subst v. rewrite G_now in Ht. discriminate.
Qed.

Lemma nil_reduce_sound e : typeof orc G e = Some TB ->
  eval_bool orc true env0 (reduce orc nil_valuer e) = eval_bool orc true env0 e /\ typeof orc G (reduce orc nil_valuer e) = Some TB.
Proof.
  intros H. destruct (reduce_sound orc G [] env0 Henv e TB H) as [V T]. unfold nil_valuer, eval_bool.
  cbn [app] in V. rewrite V. split; [reflexivity|exact T].
Qed.

Lemma ce_leaf op l r : is_logic op = false ->
  condition_expr orc nowv (BinaryExpr op l r) =
  if is_time_ref orc l then match get_time_range orc nowv op r with Some tr => Some (None, tr) | None => None end
  else if is_time_ref orc r then match get_time_range orc nowv (swap_op op) l with Some tr => Some (None, tr) | None => None end
  else Some (Some (reduce orc nowv (BinaryExpr op l r)), range0).
Proof. destruct op; try discriminate; reflexivity. Qed.

Lemma cmp_not_logic op : cmp_op op = true -> is_logic op = false.
Proof. destruct op; try discriminate; reflexivity. Qed.

Theorem split_sound : forall c p b, means c p b ->
  forall resid tr, condition_expr orc nowv c = Some (resid, tr) ->
    resid_typed resid /\ (p = true -> tr = range0 /\ resid <> None) /\
    b = in_range tr tstamp && resid_holds resid.
Proof.
  induction 1 as [op k dt rhs x Ht Hop Hf|op k dt lhs x Ht Hnt Hop Hf|op l r Hlog Hl Hr Hty|bb
                 |a b p q x y Ha IHa Hb IHb|a b x y Ha IHa Hb IHb|a p x Ha IHa]; intros resid tr Hc.
  - (* time OP rhs *)
    rewrite (ce_leaf _ _ _ (cmp_not_logic _ Hop)), Ht, (gtr_spec op rhs x Hop Hf) in Hc. inversion Hc; subst.
    split; [exact I|]. split; [discriminate|]. rewrite (in_range_of _ _ _ Hop). cbn. rewrite andb_true_r. reflexivity.
  - (* lhs OP time *)
    rewrite (ce_leaf _ _ _ (cmp_not_logic _ Hop)), Hnt, Ht, (gtr_spec (swap_op op) lhs x (gtr_swap op Hop) Hf) in Hc. inversion Hc; subst.
    split; [exact I|]. split; [discriminate|]. rewrite (in_range_of _ _ _ (gtr_swap op Hop)). cbn. rewrite andb_true_r. reflexivity.
  - (* a typed predicate *)
    rewrite (ce_leaf _ _ _ Hlog), Hl, Hr, (reduce_now_typed _ _ Hty) in Hc.
    destruct (nil_reduce_sound _ Hty) as [V T]. unfold nil_valuer in *.
    remember (reduce orc (map_valuer []) (BinaryExpr op l r)) as red eqn:Ered. inversion Hc; subst resid tr.
    split; [exact T|]. split; [intros _; split; [reflexivity|discriminate]|].
    cbn [in_range range0 tr_min tr_max andb resid_holds]. rewrite V. reflexivity.
  - cbn in Hc. inversion Hc; subst. split; [reflexivity|]. split; [intros _; split; [reflexivity|discriminate]|].
    cbn. destruct bb; reflexivity.
  - (* AND *)
    cbn [condition_expr] in Hc.
    destruct (condition_expr orc nowv a) as [[ra ta]|] eqn:Ea; [|discriminate].
    destruct (condition_expr orc nowv b) as [[rb tb]|] eqn:Eb; [|discriminate].
    destruct (IHa _ _ eq_refl) as [Ta [Pa Va]]. destruct (IHb _ _ eq_refl) as [Tb [Pb Vb]].
    subst x y. rewrite <- (in_range_intersect ta tb tstamp) || idtac.
    assert (Hpure : p && q = true -> intersect ta tb = range0 /\ ra <> None /\ rb <> None).
    { intros Hpq. apply andb_true_iff in Hpq. destruct Hpq as [Hp Hq]. destruct (Pa Hp) as [-> Na]. destruct (Pb Hq) as [-> Nb].
      split; [reflexivity|split; assumption]. }
    destruct ra as [ea|], rb as [eb|]; injection Hc as Hres Htr; subst resid tr.
    + destruct (typed_bool _ Ta) as [xa Xa]. destruct (typed_bool _ Tb) as [xb Xb].
      assert (Hty : typeof orc G (BinaryExpr AND ea eb) = Some TB) by (cbn; rewrite Ta, Tb; reflexivity).
      destruct (nil_reduce_sound _ Hty) as [V T]. cbn [reduce] in V, T.
      split; [exact T|]. split; [intros Hpq; destruct (Hpure Hpq) as [E _]; split; [exact E|discriminate]|].
      cbn [resid_holds]. rewrite V. unfold eval_bool. cbn [eval]. rewrite Xa, Xb.
      rewrite in_range_intersect. destruct xa, xb, (in_range ta tstamp), (in_range tb tstamp); reflexivity.
    + split; [exact Ta|]. split; [intros Hpq; destruct (Hpure Hpq) as [_ [_ N]]; congruence|].
      rewrite in_range_intersect. cbn [resid_holds].
      destruct (eval_bool orc true env0 ea), (in_range ta tstamp), (in_range tb tstamp); reflexivity.
    + split; [exact Tb|]. split; [intros Hpq; destruct (Hpure Hpq) as [_ [N _]]; congruence|].
      rewrite in_range_intersect. cbn [resid_holds].
      destruct (eval_bool orc true env0 eb), (in_range ta tstamp), (in_range tb tstamp); reflexivity.
    + split; [exact I|]. split; [intros Hpq; destruct (Hpure Hpq) as [_ [N _]]; congruence|].
      rewrite in_range_intersect. cbn [resid_holds].
      destruct (in_range ta tstamp), (in_range tb tstamp); reflexivity.
  - (* OR among conditions without time comparisons *)
    cbn [condition_expr] in Hc.
    destruct (condition_expr orc nowv a) as [[ra ta]|] eqn:Ea; [|discriminate].
    destruct (condition_expr orc nowv b) as [[rb tb]|] eqn:Eb; [|discriminate].
    destruct (IHa _ _ eq_refl) as [Ta [Pa Va]]. destruct (IHb _ _ eq_refl) as [Tb [Pb Vb]].
    destruct (Pa eq_refl) as [-> Na]. destruct (Pb eq_refl) as [-> Nb].
    destruct ra as [ea|]; [|congruence]. destruct rb as [eb|]; [|congruence].
    injection Hc as Hres Htr; subst resid tr.
    destruct (typed_bool _ Ta) as [xa Xa]. destruct (typed_bool _ Tb) as [xb Xb].
    assert (Hty : typeof orc G (BinaryExpr OR ea eb) = Some TB) by (cbn; rewrite Ta, Tb; reflexivity).
    destruct (nil_reduce_sound _ Hty) as [V T]. cbn [reduce] in V, T.
    split; [exact T|]. split; [intros _; split; [reflexivity|discriminate]|].
    cbn [resid_holds]. rewrite V. unfold eval_bool in *. cbn [eval].
    cbn [in_range range0 tr_min tr_max andb resid_holds intersect] in *. rewrite Xa, Xb in *.
    subst x y. unfold eval_bool. rewrite Xa, Xb. destruct xa, xb; reflexivity.
  - (* parentheses *)
    cbn [condition_expr] in Hc.
    destruct (condition_expr orc nowv a) as [[ra ta]|] eqn:Ea; [|discriminate].
    destruct (IHa _ _ eq_refl) as [Ta [Pa Va]].
    destruct ra as [ea|]; injection Hc as Hres Htr; subst resid tr.
    + assert (Hty : typeof orc G (ParenExpr ea) = Some TB) by exact Ta.
      destruct (nil_reduce_sound _ Hty) as [V T]. cbn [reduce] in V, T.
      split; [exact T|]. split; [intros Hp; destruct (Pa Hp) as [E _]; split; [exact E|discriminate]|].
      cbn [resid_holds] in *. rewrite V. rewrite Va. unfold eval_bool. cbn [eval]. reflexivity.
    + split; [exact I|]. split; [intros Hp; destruct (Pa Hp) as [_ N]; congruence|]. exact Va.
Qed.

(* the exported function: top-level parentheses removed, a residual that is the literal true dropped *)
Theorem ConditionExpr_sound c p b resid tr :
  means c p b -> ConditionExpr orc nowv c = Some (resid, tr) ->
  b = in_range tr tstamp && resid_holds resid.
Proof.
  intros Hm Hc. unfold ConditionExpr in Hc.
  destruct (condition_expr orc nowv c) as [[r0 t0]|] eqn:E; [|discriminate].
  destruct (split_sound c p b Hm _ _ E) as [_ [_ V]]. injection Hc as Hres Htr. subst tr resid. rewrite V. f_equal.
  destruct r0 as [e|]; [|reflexivity]. destruct e; try reflexivity.
  - destruct b0; reflexivity.
  - cbn [resid_holds]. unfold eval_bool. cbn [eval]. destruct e; try reflexivity. destruct b0; reflexivity.
Qed.

End Point.
End Split.
