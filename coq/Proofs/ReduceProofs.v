(* C09: folding with Reduce and then evaluating equals evaluating, on the property's typing discipline. *)
From InfluxQL Require Import Base.Prelude Base.Oracles Lex.Token Ast.Ast Sem.Eval Sem.Reduce.

Inductive ty : Set := TB | TN | TS | TR.
Definition ty_eqb (a b : ty) : bool :=
  match a, b with TB, TB | TN, TN | TS, TS | TR, TR => true | _, _ => false end.

(* boolean operators on booleans; arithmetic, bitwise and ordering operators on numbers; equality on like kinds;
   regex match of a string against a regex literal *)
Definition op_type (op : token) (a b : ty) : option ty :=
  match op, a, b with
  | (AND | OR), TB, TB => Some TB
  | (ADD | SUB | MUL | DIV | MOD), TN, TN => Some TN
  | (BITWISE_AND | BITWISE_OR | BITWISE_XOR), TN, TN => Some TN
  | (BITWISE_AND | BITWISE_OR | BITWISE_XOR), TB, TB => Some TB
  | (EQ | NEQ), TB, TB => Some TB
  | (EQ | NEQ), TN, TN => Some TB
  | (EQ | NEQ), TS, TS => Some TB
  | (LT | LTE | GT | GTE), TN, TN => Some TB
  | (EQREGEX | NEQREGEX), TS, TR => Some TB
  | _, _, _ => None
  end.

Section Sound.
Variable orc : oracles.
Variable G : text -> option ty.      (* the kinds of the variables *)

(* strings that Reduce would read as instants are outside the theorem (finding C09-datelike-strings) *)
Definition safe (s : text) : bool := match o_parse_time orc s with None => true | Some _ => false end.

Fixpoint typeof (e : expr) : option ty :=
  match e with
  | BooleanLit _ => Some TB
  | IntegerLit _ | UnsignedLit _ | NumberLit _ => Some TN
  | StringLit s => if safe s then Some TS else None
  | RegexLit _ => Some TR
  | VarRef k _ => match G k with Some TR => None | t => t end
  | ParenExpr e' => typeof e'
  | BinaryExpr op l r =>
      match typeof l, typeof r with
      | Some a, Some b => op_type op a b
      | _, _ => None
      end
  | _ => None
  end.

(* what a value of each type can be; a number-typed expression may also evaluate to nil (bitwise on floats) *)
Definition val_has (t : ty) (v : value) : Prop :=
  match t, v with
  | TB, VBool _ => True
  | TN, (VInt _ | VUint _ | VFloat _ | VNil) => True
  | TS, VString s => safe s = true
  | TR, VRegex _ => True
  | _, _ => False
  end.
(* a binding supplies a proper value of its kind *)
Definition bind_has (t : ty) (v : value) : Prop :=
  match t, v with
  | TB, VBool _ => True
  | TN, (VInt _ | VUint _ | VFloat _) => True
  | TS, VString s => safe s = true
  | _, _ => False
  end.
Definition env_ok (m : env) : Prop := forall k t, G k = Some t -> t <> TR -> exists v, lookup_env k m = Some v /\ bind_has t v.

Lemma bind_val t v : bind_has t v -> val_has t v.
Proof. destruct t, v; cbn; tauto. Qed.

Lemma lookup_app k a b : lookup_env k (a ++ b) = match lookup_env k a with Some v => Some v | None => lookup_env k b end.
Proof. induction a as [|[k' v] a IH]; cbn; [reflexivity|]. destruct (text_eqb k k'); [reflexivity|exact IH]. Qed.

(* ---- the evaluator respects the typing ---- *)
Lemma eval_bin_typed ifd op a b t x y :
  op_type op a b = Some t -> val_has a x -> val_has b y -> val_has t (eval_bin orc ifd op x y).
Proof.
  intros Hop Hx Hy.
  destruct a, b; try (destruct op; discriminate);
  destruct op; try discriminate; cbn in Hop; inversion Hop; subst t; clear Hop;
  destruct x; cbn in Hx; try contradiction; destruct y; cbn in Hy; try contradiction; cbn;
  repeat match goal with
         | |- context [if ?c then _ else _] => destruct c
         end; cbn; try exact I.
Qed.

Lemma eval_typed ifd m : env_ok m -> forall e ty0, typeof e = Some ty0 -> val_has ty0 (eval orc ifd m e).
Proof.
  intros Hm. induction e; intros ty0 Ht; cbn in Ht; try discriminate; cbn [eval].
  - destruct (typeof e1) as [a|] eqn:E1; [|discriminate]. destruct (typeof e2) as [b|] eqn:E2; [|discriminate].
    eapply eval_bin_typed; [exact Ht|apply IHe1; reflexivity|apply IHe2; reflexivity].
  - inversion Ht. exact I.
  - inversion Ht. exact I.
  - inversion Ht. exact I.
  - inversion Ht. exact I.
  - apply IHe. exact Ht.
  - inversion Ht. exact I.
  - destruct (safe s) eqn:E; [|discriminate]. inversion Ht. exact E.
  - destruct (G v) as [t0|] eqn:Eg; [|discriminate].
    assert (t0 = ty0 /\ ty0 <> TR) as [-> Hne] by (destruct t0; inversion Ht; split; congruence).
    destruct (Hm _ _ Eg Hne) as [x [Hl Hb]]. rewrite Hl. apply bind_val. exact Hb.
Qed.

(* ---- literals ---- *)
Definition lit_val (e : expr) : option value :=
  match e with
  | BooleanLit b => Some (VBool b) | IntegerLit i => Some (VInt i) | UnsignedLit u => Some (VUint u)
  | NumberLit f => Some (VFloat f) | StringLit s => Some (VString s) | RegexLit r => Some (VRegex r)
  | _ => None
  end.

Lemma lit_val_eval ifd m e v : lit_val e = Some v -> eval orc ifd m e = v.
Proof. destruct e; cbn; intros H; inversion H; reflexivity. Qed.

Lemma as_literal_eval ifd m v t : bind_has t v -> eval orc ifd m (as_literal v) = v /\ typeof (as_literal v) = Some t.
Proof. destruct t, v; cbn; try tauto; intros H; split; try reflexivity. rewrite H. reflexivity. Qed.

(* folding a typed binary node over already reduced operands: same value, same type *)
Ltac crush :=
  repeat match goal with
         | |- context [if ?c then _ else _] => destruct c eqn:?
         | H : context [if ?c then _ else _] |- _ => destruct c eqn:?
         end; cbn in *; try reflexivity; try congruence; try discriminate; try tauto.

Lemma safe_parse s : safe s = true -> o_parse_time orc s = None.
Proof. unfold safe. destruct (o_parse_time orc s); [discriminate|reflexivity]. Qed.

Lemma reduce_bin_sound m op l r a b t :
  typeof l = Some a -> typeof r = Some b -> op_type op a b = Some t ->
  val_has a (eval orc true m l) -> val_has b (eval orc true m r) ->
  eval orc true m (reduce_bin orc op l r) = eval_bin orc true op (eval orc true m l) (eval orc true m r)
  /\ typeof (reduce_bin orc op l r) = Some t.
Proof.
  intros Hl Hr Hop Vl Vr.
  destruct a, b; try (destruct op; discriminate);
  destruct op; try discriminate; cbn in Hop; inversion Hop; subst t; clear Hop;
  destruct l; cbn in Hl; try discriminate;
  destruct r; cbn in Hr; try discriminate;
  unfold reduce_bin, red_bool_lhs, red_int_lhs, red_uns_lhs, red_num_lhs, red_str_lhs, red_uu, lit_of_value;
  cbn [is_true_lit is_false_lit orb tok_eqb tok_code Z.eqb Pos.eqb];
  try (destruct b; cbn);
  try (destruct b0; cbn).
  all: try (split; [reflexivity|cbn; rewrite ?Hl, ?Hr; reflexivity]).
  all: try solve [cbn in *; rewrite ?Hl, ?Hr; cbn; crush].
  all: cbn [eval] in Vl, Vr.
  all: try (destruct (eval_bin orc true op (eval orc true m l1) (eval orc true m l2)) eqn:?; cbn in Vl; try contradiction).
  all: try (destruct (eval_bin orc true op (eval orc true m r1) (eval orc true m r2)) eqn:?; cbn in Vr; try contradiction).
  all: try (destruct (eval orc true m l) eqn:?; cbn in Vl; try contradiction).
  all: try (destruct (eval orc true m r) eqn:?; cbn in Vr; try contradiction).
  all: try (destruct (match lookup_env v m with Some v0 => v0 | None => VNil end) eqn:?; cbn in Vl, Vr; try contradiction).
  all: try solve [cbn in *; rewrite ?Hl, ?Hr; cbn; crush].
  all: split.
  all: try (match goal with x : bool |- _ => destruct x; reflexivity end).
  all: try first [exact Hl | exact Hr | reflexivity].
  all: cbn in Vl; rewrite (safe_parse _ Vl); reflexivity.
Qed.

(* ---- the main induction ---- *)
Lemma reduce_sound r1 r2 :
  env_ok (r1 ++ r2) ->
  forall e t, typeof e = Some t ->
    eval orc true r2 (reduce orc (map_valuer r1) e) = eval orc true (r1 ++ r2) e
    /\ typeof (reduce orc (map_valuer r1) e) = Some t.
Proof.
  intros Hm. induction e; intros ty0 Ht; pose proof Ht as Ht'; cbn in Ht; try discriminate; cbn [reduce eval].
  - (* BinaryExpr *)
    destruct (typeof e1) as [a|] eqn:E1; [|discriminate]. destruct (typeof e2) as [b|] eqn:E2; [|discriminate].
    destruct (IHe1 a eq_refl) as [V1 T1]. destruct (IHe2 b eq_refl) as [V2 T2].
    pose proof (eval_typed true _ Hm e1 a E1) as K1. pose proof (eval_typed true _ Hm e2 b E2) as K2.
    rewrite <- V1 in K1. rewrite <- V2 in K2.
    destruct (reduce_bin_sound r2 op _ _ a b ty0 T1 T2 Ht K1 K2) as [Hv Hty].
    split; [rewrite Hv, V1, V2; reflexivity|exact Hty].
  - split; [reflexivity|exact Ht'].
  - split; [reflexivity|exact Ht'].
  - split; [reflexivity|exact Ht'].
  - split; [reflexivity|exact Ht'].
  - (* ParenExpr *)
    destruct (IHe ty0 Ht) as [V T].
    destruct (is_binary (reduce orc (map_valuer r1) e)); cbn [eval typeof]; split; assumption.
  - split; [reflexivity|exact Ht'].
  - split; [reflexivity|exact Ht'].
  - (* VarRef *)
    destruct (G v) as [t0|] eqn:Eg; [|discriminate].
    assert (t0 = ty0 /\ ty0 <> TR) as [-> Hne] by (destruct t0; inversion Ht; split; congruence).
    destruct (Hm _ _ Eg Hne) as [x [Hlk Hb]]. rewrite Hlk.
    unfold valuer_value, map_valuer. cbn [vl_map vl_now]. rewrite lookup_app in Hlk.
    destruct (lookup_env v r1) as [y|] eqn:E1.
    + inversion Hlk; subst y. apply as_literal_eval. exact Hb.
    + cbn [eval typeof]. rewrite Hlk, Eg. split; [reflexivity|destruct ty0; congruence].
Qed.

(* Reduce unwraps a top-level ParenExpr: the value is unchanged *)
Theorem Reduce_sound r1 r2 e t :
  env_ok (r1 ++ r2) -> typeof e = Some t ->
  eval orc true r2 (Reduce orc (map_valuer r1) e) = eval orc true (r1 ++ r2) e.
Proof.
  intros Hm Ht. destruct (reduce_sound r1 r2 Hm e t Ht) as [V _]. unfold Reduce.
  destruct (reduce orc (map_valuer r1) e); exact V.
Qed.
End Sound.
