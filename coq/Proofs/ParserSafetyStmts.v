(* C04: every statement parser, the dispatch tree and ParseQuery in the logic of ParserSafety.v. *)
From InfluxQL Require Import Base.Prelude Base.Oracles Lex.Token Ast.Ast Ast.Printer Val.Duration Parse.Instr Parse.ExprTree
  Parse.ParseExpr Parse.ParseStmts Lex.Reader Lex.Scanner Proofs.ParserSafety Proofs.ParserSafetyExpr.

Section Stmts.
Variable orc : oracles.

(* at most one token pushed back on entry, at most one on exit; no panic, no ring fault in between *)
Notation ok p := (forall s, le_n 1 s -> wp s p (fun _ s' => le_n 1 s')).

Lemma ok_of_safe {A} (P : A -> Prop) (p : prog A) : safe P p -> ok p.
Proof. intros H s Hs. eapply wp_conseq; [apply H; exact Hs|]. intros a s' [H1 _]. exact H1. Qed.

Ltac le2 := first [ eassumption | (eapply le_n_mono; [eassumption | cbn; lia]) ].
Ltac norm := unfold scan_p, unscan_p, peek_p, scan_regex_p, fail_at in *; cbn [bind].

Create HintDb pspec.
Hint Extern 1 (le_n _ _) => le2 : pspec.

Ltac callspec := solve [eauto 3 with pspec].

Ltac pstep :=
  match goal with
  | |- wp _ (Ret _) _ => apply wp_ret; le2
  | |- wp _ (Fail _) _ => apply wp_fail
  | |- wp _ (bind (scan_iw _) _) _ =>
      eapply wp_bind; [eapply scan_iw_spec; [eassumption|cbn; lia]|]; intros ? ? [? ?]; cbn [Nat.pred] in *
  | |- wp _ (DoScan _) _ => eapply r_scan; [eassumption|cbn; lia|]; intros ? ? ? ?; cbn [Nat.pred] in *
  | |- wp _ (DoScanRegex _) _ => eapply r_scan_regex; [eassumption|cbn; lia|]; intros ? ? ? ?; cbn [Nat.pred] in *
  | |- wp _ (DoUnscan _) _ => eapply r_unscan; [eassumption|cbn; lia|]; intros ? ? ?
  | |- wp _ (DoPeek _) _ => apply wp_peek; intros ?
  | |- wp _ (bind (match _ with _ => _ end) _) _ => block
  | |- wp _ (bind (if _ then _ else _) _) _ => block
  | |- wp _ (bind _ _) _ => eapply wp_bind; [callspec|]; intros ? ? ?
  | |- wp _ (match ti_tok ?t with _ => _ end) _ => destruct (ti_tok t)
  | |- wp _ (if ?c then _ else _) _ => destruct c
  | |- wp _ (match ?x with _ => _ end) _ => destruct x
  | |- wp _ _ _ => callspec
  end
(* a block in the middle of a function: first try to show it leaves nothing pushed back, else at most one token *)
with block :=
  first [ eapply wp_bind with (Q := fun _ s' => le_n 0 s'); [solve [pauto]|intros ? ? ?]
        | eapply wp_bind with (Q := fun _ s' => le_n 1 s'); [|intros ? ? ?] ]
with pauto := norm; cbv zeta; repeat (pstep; norm; cbv zeta).

(* ---- what the expression parser provides ---- *)
Lemma ok_scan_iw fuel : forall s, le_n 1 s -> wp s (scan_iw fuel) (fun _ s' => le_n 1 s').
Proof. intros s Hs. eapply wp_conseq; [eapply scan_iw_spec; [exact Hs|lia]|]. intros a s' [H _]. le2. Qed.
Lemma ok_consume_ws : ok consume_ws. Proof. exact (ok_of_safe _ _ consume_ws_spec). Qed.
Lemma ok_expect fuel k : ok (expect fuel k). Proof. exact (ok_of_safe _ _ (expect_spec fuel k)). Qed.
Lemma ok_parse_tokens fuel ks : ok (parse_tokens fuel ks). Proof. exact (ok_of_safe _ _ (parse_tokens_spec fuel ks)). Qed.
Lemma ok_parse_ident fuel : ok (parse_ident fuel). Proof. exact (ok_of_safe _ _ (parse_ident_spec fuel)). Qed.
Lemma ok_parse_string fuel : ok (parse_string fuel). Proof. exact (ok_of_safe _ _ (parse_string_spec fuel)). Qed.
Lemma ok_parse_int fuel lo hi : ok (parse_int fuel lo hi). Proof. exact (ok_of_safe _ _ (parse_int_spec fuel lo hi)). Qed.
Lemma ok_parse_uint64 fuel : ok (parse_uint64 fuel). Proof. exact (ok_of_safe _ _ (parse_uint64_spec fuel)). Qed.
Lemma ok_parse_duration_p fuel : ok (parse_duration_p fuel). Proof. exact (ok_of_safe _ _ (parse_duration_p_spec fuel)). Qed.
Lemma ok_opt_token_int fuel k : ok (opt_token_int fuel k). Proof. exact (ok_of_safe _ _ (opt_token_int_spec fuel k)). Qed.
Lemma ok_parse_ident_list fuel : ok (parse_ident_list fuel). Proof. exact (ok_of_safe _ _ (parse_ident_list_spec fuel)). Qed.
Lemma ok_parse_string_list fuel : ok (parse_string_list fuel). Proof. exact (ok_of_safe _ _ (parse_string_list_spec fuel)). Qed.
Lemma ok_parse_segmented_idents fuel : ok (parse_segmented_idents fuel). Proof. exact (ok_of_safe _ _ (parse_segmented_idents_spec fuel)). Qed.
Lemma ok_parse_regex : ok (parse_regex orc). Proof. exact (ok_of_safe _ _ (parse_regex_spec orc)). Qed.
Lemma ok_parse_var_ref fuel : ok (parse_var_ref orc fuel). Proof. exact (ok_of_safe _ _ (parse_var_ref_spec orc fuel)). Qed.
Lemma ok_parse_expr fuel : ok (parse_expr orc fuel).
Proof. destruct (specs_all orc fuel) as (H & _). exact (ok_of_safe _ _ H). Qed.
Hint Resolve ok_scan_iw ok_consume_ws ok_expect ok_parse_tokens ok_parse_ident ok_parse_string ok_parse_int ok_parse_uint64
  ok_parse_duration_p ok_opt_token_int ok_parse_ident_list ok_parse_string_list ok_parse_segmented_idents ok_parse_regex
  ok_parse_var_ref ok_parse_expr : pspec.

Ltac start f := intros s Hs; unfold f.

Lemma ok_parse_write_limit fuel : ok (parse_write_limit fuel). Proof. start parse_write_limit. pauto. Qed.
Lemma ok_parse_privilege fuel : ok (parse_privilege fuel). Proof. start parse_privilege. pauto. Qed.
Lemma ok_parse_alias fuel : ok (parse_alias fuel). Proof. start parse_alias. pauto. Qed.
Hint Resolve ok_parse_write_limit ok_parse_privilege ok_parse_alias : pspec.
Lemma ok_parse_field fuel : ok (parse_field orc fuel). Proof. start parse_field. pauto. Qed.
Hint Resolve ok_parse_field : pspec.
Lemma ok_fields_loop fuel : forall a0, ok (fields_loop orc fuel a0).
Proof. induction fuel as [|f IH]; intros a0 s Hs; cbn [fields_loop]; [apply wp_fail|]. pauto. Qed.
Hint Resolve ok_fields_loop : pspec.
Lemma ok_parse_fields fuel : ok (parse_fields orc fuel).
Proof. start parse_fields. pauto. Qed.
Hint Resolve ok_parse_fields : pspec.
Lemma ok_parse_target fuel a0 : ok (parse_target fuel a0).
Proof. start parse_target. pauto. Qed.
Hint Resolve ok_parse_target : pspec.
Lemma ok_parse_condition fuel : ok (parse_condition orc fuel).
Proof. start parse_condition. pauto. Qed.
Hint Resolve ok_parse_condition : pspec.
Lemma ok_parse_dimension fuel : ok (parse_dimension orc fuel).
Proof. start parse_dimension. pauto. Qed.
Hint Resolve ok_parse_dimension : pspec.
Lemma ok_dimensions_loop fuel : forall a0, ok (dimensions_loop orc fuel a0).
Proof. induction fuel as [|f IH]; intros a0 s Hs; cbn [dimensions_loop]; [apply wp_fail|]. pauto. Qed.
Hint Resolve ok_dimensions_loop : pspec.
Lemma ok_parse_dimensions fuel : ok (parse_dimensions orc fuel).
Proof. start parse_dimensions. pauto. Qed.
Hint Resolve ok_parse_dimensions : pspec.
Lemma ok_parse_fill fuel : ok (parse_fill orc fuel).
Proof. start parse_fill. pauto. Qed.
Hint Resolve ok_parse_fill : pspec.
Lemma ok_parse_location fuel : ok (parse_location orc fuel).
Proof. start parse_location. pauto. Qed.
Hint Resolve ok_parse_location : pspec.
Lemma ok_parse_sort_field fuel : ok (parse_sort_field fuel).
Proof. start parse_sort_field. pauto. Qed.
Hint Resolve ok_parse_sort_field : pspec.
Lemma ok_sort_fields_loop fuel : forall a0, ok (sort_fields_loop fuel a0).
Proof. induction fuel as [|f IH]; intros a0 s Hs; cbn [sort_fields_loop]; [apply wp_fail|]. pauto. Qed.
Hint Resolve ok_sort_fields_loop : pspec.
Lemma ok_parse_sort_fields fuel : ok (parse_sort_fields fuel).
Proof. start parse_sort_fields. pauto. Qed.
Hint Resolve ok_parse_sort_fields : pspec.
Lemma ok_parse_order_by fuel : ok (parse_order_by fuel).
Proof. start parse_order_by. pauto. Qed.
Hint Resolve ok_parse_order_by : pspec.

(* ---- SELECT, its sources and subqueries: one mutual recursion over the fuel ---- *)
Lemma parse_select_S f (tr : target_req) : parse_select orc (S f) tr =

      fields <- parse_fields orc (S f) ;;
      target <- parse_target (S f) tr ;;
      expect (S f) FROM ;;;
      sources <- parse_sources orc f true ;;
      cond <- parse_condition orc (S f) ;;
      dims <- parse_dimensions orc (S f) ;;
      fl <- parse_fill orc (S f) ;;
      sort <- parse_order_by (S f) ;;
      limit <- opt_token_int (S f) LIMIT ;;
      offset <- opt_token_int (S f) OFFSET ;;
      slimit <- opt_token_int (S f) SLIMIT ;;
      soffset <- opt_token_int (S f) SOFFSET ;;
      loc <- parse_location orc (S f) ;;
      Ret (mkSelect fields target dims sources cond sort limit offset slimit soffset
             (is_raw_query fields) (fst fl) (snd fl) loc [] false false [] false).
Proof. reflexivity. Qed.

Lemma parse_sources_S f (subqueries : bool) : parse_sources orc (S f) subqueries =
 sources_loop orc f subqueries [].
Proof. reflexivity. Qed.

Lemma sources_loop_S f (subqueries : bool) (acc : list source) : sources_loop orc (S f) subqueries acc =

      s <- parse_source orc f subqueries ;;
      let acc' := acc ++ [s] in
      t <- scan_iw (S f) ;;
      match ti_tok t with
      | COMMA => sources_loop orc f subqueries acc'
      | _ => unscan_p ;;; Ret acc'
      end.
Proof. reflexivity. Qed.

Lemma parse_source_S f (subqueries : bool) : parse_source orc (S f) subqueries =

      re <- parse_regex orc ;;
      match re with
      | Some r => Ret (SMeasurement (mkMeasurement [] [] [] (Some r) false []))
      | None =>
          
          let rest : prog source :=
            idents <- parse_segmented_idents (S f) ;;
            if (length idents =? 3)%nat then
              match idents with
              | [a; b; c] => Ret (SMeasurement (mkMeasurement a b c None false []))
              | _ => Ret (SMeasurement measurement0)           
              end
            else
              re2 <- parse_regex orc ;;
              Ret (SMeasurement
                     (match idents with
                      | [a] =>
                          match re2 with
                          | Some _ => mkMeasurement [] a [] re2 false []
                          | None => mkMeasurement [] [] a None false []
                          end
                      | [a; b] =>
                          match re2 with
                          | Some _ => mkMeasurement a b [] re2 false []
                          | None => mkMeasurement [] a b None false []
                          end
                      | _ => mkMeasurement [] [] [] re2 false []
                      end)) in
          if subqueries then
            t <- scan_iw (S f) ;;
            match ti_tok t with
            | LPAREN =>
                parse_tokens (S f) [SELECT] ;;;
                stmt <- parse_select orc f TargetSubquery ;;
                parse_tokens (S f) [RPAREN] ;;;
                Ret (SSubQuery stmt)
            | _ => unscan_p ;;; rest
            end
          else rest
      end.
Proof. reflexivity. Qed.

Definition sel_specs (f : nat) : Prop :=
  (forall tr, ok (parse_select orc f tr)) /\
  (forall b, ok (parse_sources orc f b)) /\
  (forall b acc, ok (sources_loop orc f b acc)) /\
  (forall b, ok (parse_source orc f b)).

Lemma sel_specs_all : forall f, sel_specs f.
Proof.
  induction f as [|f (IHsel & IHsrcs & IHloop & IHsrc)].
  { repeat split; intros; apply wp_fail. }
  repeat split.
  - intros tr s Hs. rewrite parse_select_S. pauto.
  - intros b s Hs. rewrite parse_sources_S. pauto.
  - intros b acc s Hs. rewrite sources_loop_S. pauto.
  - intros b s Hs. rewrite parse_source_S. pauto.
Qed.
Lemma ok_parse_select fuel tr : ok (parse_select orc fuel tr). Proof. apply sel_specs_all. Qed.
Lemma ok_parse_sources fuel b : ok (parse_sources orc fuel b). Proof. apply sel_specs_all. Qed.
Lemma ok_parse_source fuel b : ok (parse_source orc fuel b). Proof. apply sel_specs_all. Qed.
Hint Resolve ok_parse_select ok_parse_sources ok_parse_source : pspec.

Lemma ok_opt_on_ident fuel : ok (opt_on_ident fuel).
Proof. start opt_on_ident. pauto. Qed.
Hint Resolve ok_opt_on_ident : pspec.
Lemma ok_opt_from_sources fuel : ok (opt_from_sources orc fuel).
Proof. start opt_from_sources. pauto. Qed.
Hint Resolve ok_opt_from_sources : pspec.
Lemma ok_parse_set_password_user fuel : ok (parse_set_password_user fuel).
Proof. start parse_set_password_user. pauto. Qed.
Hint Resolve ok_parse_set_password_user : pspec.
Lemma ok_parse_kill_query fuel : ok (parse_kill_query fuel).
Proof. start parse_kill_query. pauto. Qed.
Hint Resolve ok_parse_kill_query : pspec.
Lemma ok_parse_create_subscription fuel : ok (parse_create_subscription fuel).
Proof. start parse_create_subscription. pauto. Qed.
Hint Resolve ok_parse_create_subscription : pspec.
Lemma ok_parse_create_retention_policy fuel : ok (parse_create_retention_policy fuel).
Proof. start parse_create_retention_policy. pauto. Qed.
Hint Resolve ok_parse_create_retention_policy : pspec.
Lemma ok_alter_loop fuel : forall a0 a1, ok (alter_loop fuel a0 a1).
Proof. induction fuel as [|f IH]; intros a0 a1 s Hs; cbn [alter_loop]; [apply wp_fail|]. pauto. Qed.
Hint Resolve ok_alter_loop : pspec.
Lemma ok_parse_alter_retention_policy fuel : ok (parse_alter_retention_policy fuel).
Proof. start parse_alter_retention_policy. pauto. Qed.
Hint Resolve ok_parse_alter_retention_policy : pspec.
Lemma ok_parse_revoke_on fuel : ok (parse_revoke_on fuel).
Proof. start parse_revoke_on. pauto. Qed.
Hint Resolve ok_parse_revoke_on : pspec.
Lemma ok_parse_revoke_admin fuel : ok (parse_revoke_admin fuel).
Proof. start parse_revoke_admin. pauto. Qed.
Hint Resolve ok_parse_revoke_admin : pspec.
Lemma ok_parse_revoke fuel : ok (parse_revoke fuel).
Proof. start parse_revoke. pauto. Qed.
Hint Resolve ok_parse_revoke : pspec.
Lemma ok_parse_grant_on fuel : ok (parse_grant_on fuel).
Proof. start parse_grant_on. pauto. Qed.
Hint Resolve ok_parse_grant_on : pspec.
Lemma ok_parse_grant_admin fuel : ok (parse_grant_admin fuel).
Proof. start parse_grant_admin. pauto. Qed.
Hint Resolve ok_parse_grant_admin : pspec.
Lemma ok_parse_grant fuel : ok (parse_grant fuel).
Proof. start parse_grant. pauto. Qed.
Hint Resolve ok_parse_grant : pspec.
Lemma ok_parse_delete fuel : ok (parse_delete orc fuel).
Proof. start parse_delete. pauto. Qed.
Hint Resolve ok_parse_delete : pspec.
Lemma ok_parse_drop_series fuel : ok (parse_drop_series orc fuel).
Proof. start parse_drop_series. pauto. Qed.
Hint Resolve ok_parse_drop_series : pspec.
Lemma ok_parse_show_series_cardinality fuel a0 : ok (parse_show_series_cardinality orc fuel a0).
Proof. start parse_show_series_cardinality. pauto. Qed.
Hint Resolve ok_parse_show_series_cardinality : pspec.
Lemma ok_parse_show_series fuel : ok (parse_show_series orc fuel).
Proof. start parse_show_series. pauto. Qed.
Hint Resolve ok_parse_show_series : pspec.
Lemma ok_parse_show_measurement_cardinality fuel a0 : ok (parse_show_measurement_cardinality orc fuel a0).
Proof. start parse_show_measurement_cardinality. pauto. Qed.
Hint Resolve ok_parse_show_measurement_cardinality : pspec.
Lemma ok_parse_show_measurements fuel : ok (parse_show_measurements orc fuel).
Proof. start parse_show_measurements. pauto. Qed.
Hint Resolve ok_parse_show_measurements : pspec.
Lemma ok_parse_show_queries fuel : ok (parse_show_queries fuel).
Proof. start parse_show_queries. pauto. Qed.
Hint Resolve ok_parse_show_queries : pspec.
Lemma ok_parse_show_retention_policies fuel : ok (parse_show_retention_policies fuel).
Proof. start parse_show_retention_policies. pauto. Qed.
Hint Resolve ok_parse_show_retention_policies : pspec.
Lemma ok_parse_tag_key_expr fuel : ok (parse_tag_key_expr orc fuel).
Proof. start parse_tag_key_expr. pauto. Qed.
Hint Resolve ok_parse_tag_key_expr : pspec.
Lemma ok_parse_show_tag_key_cardinality fuel : ok (parse_show_tag_key_cardinality orc fuel).
Proof. start parse_show_tag_key_cardinality. pauto. Qed.
Hint Resolve ok_parse_show_tag_key_cardinality : pspec.
Lemma ok_parse_show_tag_keys fuel : ok (parse_show_tag_keys orc fuel).
Proof. start parse_show_tag_keys. pauto. Qed.
Hint Resolve ok_parse_show_tag_keys : pspec.
Lemma ok_parse_show_tag_values_cardinality fuel a0 : ok (parse_show_tag_values_cardinality orc fuel a0).
Proof. start parse_show_tag_values_cardinality. pauto. Qed.
Hint Resolve ok_parse_show_tag_values_cardinality : pspec.
Lemma ok_parse_show_tag_values fuel : ok (parse_show_tag_values orc fuel).
Proof. start parse_show_tag_values. pauto. Qed.
Hint Resolve ok_parse_show_tag_values : pspec.
Lemma ok_parse_show_users fuel : ok (parse_show_users fuel).
Proof. start parse_show_users. pauto. Qed.
Hint Resolve ok_parse_show_users : pspec.
Lemma ok_parse_show_subscriptions fuel : ok (parse_show_subscriptions fuel).
Proof. start parse_show_subscriptions. pauto. Qed.
Hint Resolve ok_parse_show_subscriptions : pspec.
Lemma ok_parse_show_field_key_cardinality fuel : ok (parse_show_field_key_cardinality orc fuel).
Proof. start parse_show_field_key_cardinality. pauto. Qed.
Hint Resolve ok_parse_show_field_key_cardinality : pspec.
Lemma ok_parse_show_field_keys fuel : ok (parse_show_field_keys orc fuel).
Proof. start parse_show_field_keys. pauto. Qed.
Hint Resolve ok_parse_show_field_keys : pspec.
Lemma ok_parse_drop_measurement fuel : ok (parse_drop_measurement fuel).
Proof. start parse_drop_measurement. pauto. Qed.
Hint Resolve ok_parse_drop_measurement : pspec.
Lemma ok_parse_drop_shard fuel : ok (parse_drop_shard fuel).
Proof. start parse_drop_shard. pauto. Qed.
Hint Resolve ok_parse_drop_shard : pspec.
Lemma ok_parse_show_continuous_queries fuel : ok (parse_show_continuous_queries fuel).
Proof. start parse_show_continuous_queries. pauto. Qed.
Hint Resolve ok_parse_show_continuous_queries : pspec.
Lemma ok_parse_grants_for_user fuel : ok (parse_grants_for_user fuel).
Proof. start parse_grants_for_user. pauto. Qed.
Hint Resolve ok_parse_grants_for_user : pspec.
Lemma ok_parse_show_databases fuel : ok (parse_show_databases fuel).
Proof. start parse_show_databases. pauto. Qed.
Hint Resolve ok_parse_show_databases : pspec.
Lemma ok_parse_resample fuel : ok (parse_resample fuel).
Proof. start parse_resample. pauto. Qed.
Hint Resolve ok_parse_resample : pspec.
Lemma ok_parse_create_continuous_query fuel : ok (parse_create_continuous_query orc fuel).
Proof. start parse_create_continuous_query. pauto. Qed.
Hint Resolve ok_parse_create_continuous_query : pspec.
Lemma ok_parse_create_database fuel : ok (parse_create_database fuel).
Proof. start parse_create_database. pauto. Qed.
Hint Resolve ok_parse_create_database : pspec.
Lemma ok_parse_drop_database fuel : ok (parse_drop_database fuel).
Proof. start parse_drop_database. pauto. Qed.
Hint Resolve ok_parse_drop_database : pspec.
Lemma ok_parse_drop_subscription fuel : ok (parse_drop_subscription fuel).
Proof. start parse_drop_subscription. pauto. Qed.
Hint Resolve ok_parse_drop_subscription : pspec.
Lemma ok_parse_drop_retention_policy fuel : ok (parse_drop_retention_policy fuel).
Proof. start parse_drop_retention_policy. pauto. Qed.
Hint Resolve ok_parse_drop_retention_policy : pspec.
Lemma ok_parse_create_user fuel : ok (parse_create_user fuel).
Proof. start parse_create_user. pauto. Qed.
Hint Resolve ok_parse_create_user : pspec.
Lemma ok_parse_drop_user fuel : ok (parse_drop_user fuel).
Proof. start parse_drop_user. pauto. Qed.
Hint Resolve ok_parse_drop_user : pspec.
Lemma ok_parse_explain fuel : ok (parse_explain orc fuel).
Proof. start parse_explain. pauto. Qed.
Hint Resolve ok_parse_explain : pspec.
Lemma ok_parse_show_shard_groups fuel : ok (parse_show_shard_groups fuel).
Proof. start parse_show_shard_groups. pauto. Qed.
Hint Resolve ok_parse_show_shard_groups : pspec.
Lemma ok_parse_show_shards fuel : ok (parse_show_shards fuel).
Proof. start parse_show_shards. pauto. Qed.
Hint Resolve ok_parse_show_shards : pspec.
Lemma ok_parse_show_stats fuel : ok (parse_show_stats fuel).
Proof. start parse_show_stats. pauto. Qed.
Hint Resolve ok_parse_show_stats : pspec.
Lemma ok_parse_show_diagnostics fuel : ok (parse_show_diagnostics fuel).
Proof. start parse_show_diagnostics. pauto. Qed.
Hint Resolve ok_parse_show_diagnostics : pspec.
Lemma ok_parse_drop_continuous_query fuel : ok (parse_drop_continuous_query fuel).
Proof. start parse_drop_continuous_query. pauto. Qed.
Hint Resolve ok_parse_drop_continuous_query : pspec.
Lemma ok_parse_statement fuel : ok (parse_statement orc fuel).
Proof. start parse_statement. pauto. Qed.
Hint Resolve ok_parse_statement : pspec.
Lemma ok_query_loop fuel : forall a0 a1, ok (query_loop orc fuel a0 a1).
Proof. induction fuel as [|f IH]; intros a0 a1 s Hs; cbn [query_loop]; [apply wp_fail|]. pauto. Qed.
Hint Resolve ok_query_loop : pspec.
Lemma ok_parse_query fuel : ok (parse_query orc fuel).
Proof. start parse_query. pauto. Qed.
Hint Resolve ok_parse_query : pspec.
End Stmts.

(* ---- the entry points, against the interpreter: never a crash - no panic site, no fault of the token ring ---- *)
Section Entry.
Variable orc : oracles.
Variable Rinv : reader -> Prop.
Hypothesis Hscan : forall r, Rinv r -> Rinv (snd (scan (o_ulower orc) r)) /\ r_bad (snd (scan (o_ulower orc) r)) = false.
Hypothesis Hscan_regex : forall r, Rinv r -> Rinv (snd (scan_regex r)) /\ r_bad (snd (scan_regex r)) = false.
Hypothesis Hpeek : forall r, Rinv r ->
  let '((ch, _), r') := read r in
  let r'' := if ch =? 0 then r' else unread r' in Rinv r'' /\ r_bad r'' = false.

Definition not_crash {A} (r : res A) : Prop := match r with Crash _ => False | _ => True end.

Lemma abs_initial text params : Rinv (new_reader text) ->
  abs Rinv (new_pstate text params)
      (mkA (subst_slot params tokslot0) (subst_slot params tokslot0) (subst_slot params tokslot0) 0).
Proof. intros Hr. unfold abs, new_pstate. cbn. repeat split; try assumption; try lia; reflexivity. Qed.

Lemma entry_never_crashes {A} (p : prog A) text params :
  (forall s, le_n 1 s -> wp s p (fun _ s' => le_n 1 s')) -> Rinv (new_reader text) ->
  not_crash (run (o_ulower orc) p (new_pstate text params)).
Proof.
  intros Hp Hr.
  set (a0 := mkA (subst_slot params tokslot0) (subst_slot params tokslot0) (subst_slot params tokslot0) 0).
  assert (H0 : le_n 1 a0) by (unfold le_n, a0; cbn; lia).
  pose proof (wp_sound (o_ulower orc) Rinv Hscan Hscan_regex Hpeek a0 p _ (Hp a0 H0) _ (abs_initial text params Hr)) as Hg.
  unfold good in Hg. destruct (run (o_ulower orc) p (new_pstate text params)) as [[a s']| | |]; try exact I. exact Hg.
Qed.

Theorem parse_query_never_crashes text params fuel : Rinv (new_reader text) ->
  not_crash (run (o_ulower orc) (parse_query orc fuel) (new_pstate text params)).
Proof. apply entry_never_crashes. apply ok_parse_query. Qed.
Theorem parse_statement_never_crashes text params fuel : Rinv (new_reader text) ->
  not_crash (run (o_ulower orc) (parse_statement orc fuel) (new_pstate text params)).
Proof. apply entry_never_crashes. apply ok_parse_statement. Qed.
Theorem parse_expr_never_crashes text params fuel : Rinv (new_reader text) ->
  not_crash (run (o_ulower orc) (parse_expr orc fuel) (new_pstate text params)).
Proof. apply entry_never_crashes. apply ok_parse_expr. Qed.
End Entry.

(* ---- with the lexer's own ring discharged (Proofs/LexerSafety.v): no hypothesis about the lexer is left ---- *)
From InfluxQL Require Import Proofs.LexerSafety.

Theorem parser_never_crashes (orc : oracles) text params fuel :
  not_crash (run (o_ulower orc) (parse_query orc fuel) (new_pstate text params)) /\
  not_crash (run (o_ulower orc) (parse_statement orc fuel) (new_pstate text params)) /\
  not_crash (run (o_ulower orc) (parse_expr orc fuel) (new_pstate text params)).
Proof.
  assert (Hs : forall r, rb 2 r -> rb 2 (snd (scan (o_ulower orc) r)) /\ r_bad (snd (scan (o_ulower orc) r)) = false)
    by (intros r Hr; pose proof (rb_scan (o_ulower orc) r Hr) as H; split; [exact H|apply H]).
  assert (Hsr : forall r, rb 2 r -> rb 2 (snd (scan_regex r)) /\ r_bad (snd (scan_regex r)) = false)
    by (intros r Hr; pose proof (rb_scan_regex r Hr) as H; split; [exact H|apply H]).
  repeat split.
  - apply (parse_query_never_crashes orc (rb 2) Hs Hsr rb_peek). apply rb_new.
  - apply (parse_statement_never_crashes orc (rb 2) Hs Hsr rb_peek). apply rb_new.
  - apply (parse_expr_never_crashes orc (rb 2) Hs Hsr rb_peek). apply rb_new.
Qed.
Print Assumptions parser_never_crashes.
