(* decimal rendering and parsing are inverse *)
From InfluxQL Require Import Base.Prelude.
From Coq Require Import ZifyBool.
Ltac Zify.zify_post_hook ::= Z.to_euclidean_division_equations.

Fixpoint pow10 (n : nat) : Z := match n with O => 1 | S n' => 10 * pow10 n' end.

Lemma pow10_pos n : 0 < pow10 n.
Proof. induction n; cbn [pow10]; lia. Qed.

Lemma pow2_le_pow10 n : 2 ^ Z.of_nat n <= pow10 n.
Proof.
  induction n as [|n IH]; [cbn; lia|].
  rewrite Nat2Z.inj_succ, Z.pow_succ_r by lia. cbn [pow10]. pose proof (pow10_pos n). lia.
Qed.

Lemma dpf_app : forall fuel z acc, dec_pos_fuel fuel z acc = dec_pos_fuel fuel z [] ++ acc.
Proof.
  induction fuel as [|f IH]; intros z acc; cbn [dec_pos_fuel]; [reflexivity|].
  destruct (z / 10 =? 0); [reflexivity|].
  rewrite IH. rewrite (IH _ [48 + z mod 10]). rewrite <- app_assoc. reflexivity.
Qed.

Lemma digits_val_acc_app l1 : forall a l2, digits_val_acc a (l1 ++ l2) = digits_val_acc (digits_val_acc a l1) l2.
Proof. induction l1 as [|c l1 IH]; intros a l2; cbn; [reflexivity|apply IH]. Qed.

Lemma dpf_val : forall fuel z, 0 <= z < pow10 fuel -> digits_val (dec_pos_fuel fuel z []) = z.
Proof.
  induction fuel as [|f IH]; intros z Hz; cbn [pow10] in Hz.
  - cbn. lia.
  - cbn [dec_pos_fuel]. destruct (z / 10 =? 0) eqn:E.
    + unfold digits_val; cbn [digits_val_acc]. lia.
    + rewrite dpf_app. unfold digits_val. rewrite digits_val_acc_app. fold (digits_val (dec_pos_fuel f (z / 10) [])).
      rewrite IH by lia. cbn [digits_val_acc]. lia.
Qed.

Lemma dpf_digits : forall fuel z acc, 0 <= z -> Forall (fun c => is_digit c = true) acc ->
  Forall (fun c => is_digit c = true) (dec_pos_fuel fuel z acc).
Proof.
  induction fuel as [|f IH]; intros z acc Hz HF; cbn [dec_pos_fuel]; [assumption|].
  assert (Hd : is_digit (48 + z mod 10) = true) by (unfold is_digit; lia).
  destruct (z / 10 =? 0); [constructor; assumption|].
  apply IH; [lia|constructor; assumption].
Qed.

Lemma dpf_nonempty fuel z acc : dec_pos_fuel (S fuel) z acc <> [].
Proof.
  cbn [dec_pos_fuel]. destruct (z / 10 =? 0); [discriminate|].
  rewrite dpf_app. destruct (dec_pos_fuel fuel (z / 10) []); discriminate.
Qed.

Lemma dec_fuel_ok z : 0 <= z -> z < pow10 (S (Z.to_nat (Z.log2 z))).
Proof.
  intros Hz. destruct (Z.eq_dec z 0) as [->|Hne]; [cbn; lia|].
  pose proof (Z.log2_spec z ltac:(lia)) as [_ H].
  pose proof (pow2_le_pow10 (S (Z.to_nat (Z.log2 z)))) as H2.
  rewrite Nat2Z.inj_succ, Z2Nat.id in H2 by apply Z.log2_nonneg. lia.
Qed.

Lemma dec_nonneg_val z : 0 <= z -> digits_val (dec_nonneg z) = z.
Proof. intros Hz. unfold dec_nonneg. apply dpf_val. split; [assumption|apply dec_fuel_ok; assumption]. Qed.

Lemma dec_nonneg_digits z : 0 <= z -> Forall (fun c => is_digit c = true) (dec_nonneg z).
Proof. intros Hz. unfold dec_nonneg. apply dpf_digits; [assumption|constructor]. Qed.

Lemma dec_nonneg_nonempty z : dec_nonneg z <> [].
Proof. unfold dec_nonneg. apply dpf_nonempty. Qed.
