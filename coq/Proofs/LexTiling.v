(* C05, for every text: the tokens of the exact lexer tile the CR-folded text and end with EOF. *)
From InfluxQL Require Import Base.Prelude Lex.Token Lex.Reader Lex.Scanner Proofs.LexerSafety Proofs.LexBounded.
From InfluxQL Require Import Lex.StreamLex.
From InfluxQL Require Import Proofs.RingAt Proofs.RingRefine Proofs.StreamTile.

Definition nz (t : text) : Prop := Forall (fun c => c <> 0) t.

Lemma nz_canon t : nz t -> canon t.
Proof.
  induction 1 as [|c t Hc Ht IH]; [reflexivity|]. unfold canon in *. cbn [strip]. rewrite IH. apply ucons_nz. exact Hc.
Qed.
Lemma nz_suffix a b : suffix a b -> nz b -> nz a.
Proof. intros [p ->] H. apply Forall_app in H. tauto. Qed.

Lemma assoc_in {A} k (l : list (text * A)) v : assoc_text k l = Some v -> In v (map snd l).
Proof.
  induction l as [|[k' v'] l IH]; cbn; [discriminate|]. destruct (text_eqb k k'); [intros [= ->]; left; reflexivity|].
  intros H. right. apply IH. exact H.
Qed.
Lemma keywords_not_eof : forallb (fun t => negb (tok_code t =? tok_code EOF)) (map snd keywords) = true.
Proof. vm_compute. reflexivity. Qed.
Lemma lookup_not_eof ul s : lookup ul s <> EOF.
Proof.
  unfold lookup. destruct (assoc_text (to_lower ul s) keywords) as [t|] eqn:E; [|discriminate].
  apply assoc_in in E. pose proof keywords_not_eof as K. rewrite forallb_forall in K. specialize (K _ E).
  intros ->. rewrite Z.eqb_refl in K. discriminate.
Qed.

Section L.
Variable ulower : Z -> Z.

Lemma ident_loop_early f : forall v acc tk l lit t3, s_ident_loop f v acc = ((Some (tk, l), lit), t3) -> tk <> EOF.
Proof.
  induction f as [|f IH]; intros v acc tk l lit t3; cbn [s_ident_loop]; [intros E; discriminate E|].
  destruct (sread v) as [d v1]. destruct (d =? 0); [intros E; discriminate E|]. destruct (d =? 34).
  - unfold s_scan_string. destruct (s_ScanString (ucons d v1)) as [[lit0 err] v2].
    destruct (err =? 1); [cbn; intros E; inversion E; discriminate|]. destruct (err =? 2); cbn; intros E; inversion E; discriminate.
  - destruct (is_ident_char d); [|intros E; discriminate E]. destruct (s_bare_ident _ _ _) as [s0 v2]. apply IH.
Qed.

(* EOF is reported only for the end marker *)
Lemma s_scan_eof t : fst (fst (s_scan ulower t)) = EOF -> fst (sread t) = 0.
Proof.
  unfold s_scan. destruct (sread t) as [c t1]. cbn [fst]. destruct (sread t1) as [ch1 t2].
  destruct (is_whitespace c).
  { unfold s_scan_whitespace. destruct (s_ws_loop _ _ _). cbn. discriminate. }
  assert (Hid : forall kw u, fst (fst (s_scan_ident ulower kw u)) <> EOF).
  { intros kw u. unfold s_scan_ident. destruct (s_ident_loop (sfuel u) u []) as [[early lit] t3] eqn:El.
    destruct early as [[tk l]|].
    - cbn. exact (ident_loop_early _ _ _ _ _ _ _ El).
    - destruct kw; [|cbn; discriminate]. pose proof (lookup_not_eof ulower lit) as Hl.
      destruct (lookup ulower lit); cbn; try discriminate. contradiction. }
  destruct (is_letter c || (c =? 95)); [intros E; exfalso; exact (Hid _ _ E)|].
  assert (Hnum : forall d u, fst (fst (s_scan_number d u)) <> EOF).
  { intros d u. unfold s_scan_number, s_number_go.
    repeat match goal with
           | |- context [let '(_, _) := ?x in _] => destruct x
           | |- context [if ?b then _ else _] => destruct b
           end; cbn; discriminate. }
  destruct (is_digit c); [intros E; exfalso; exact (Hnum _ _ E)|].
  destruct (Z.eqb_spec c 0) as [->|]; [reflexivity|].
  destruct (c =? 34); [intros E; exfalso; exact (Hid _ _ E)|].
  destruct (c =? 39).
  { unfold s_scan_string. destruct (s_ScanString _) as [[lit0 err] v2]. destruct (err =? 1); [cbn; discriminate|].
    destruct (err =? 2); cbn; discriminate. }
  destruct (c =? 46); [destruct (is_digit ch1); [intros E; exfalso; exact (Hnum _ _ E)|cbn; discriminate]|].
  destruct (c =? 36).
  { pose proof (Hid false t1) as Hx. destruct (s_scan_ident ulower false t1) as [[tok lit] t3]. cbn [fst] in *.
    destruct tok; cbn; try discriminate. contradiction. }
  repeat match goal with
         | |- context [let '(_, _) := ?x in _] => destruct x
         | |- context [if ?b then _ else _] => destruct b
         end; cbn; try discriminate.
Qed.

(* the tokens of a text with their literals and extents *)
Fixpoint s_scan_all (fuel : nat) (t : text) : list (token * text * text) :=
  match fuel with
  | O => []
  | S f =>
      let '((tok, lit), t') := s_scan ulower t in
      let item := (tok, lit, firstn (length t - length t') t) in
      match tok with EOF => [item] | _ => item :: s_scan_all f t' end
  end.

Lemma firstn_suffix (p t' : text) : firstn (length (p ++ t') - length t') (p ++ t') = p.
Proof. rewrite app_length. replace (length p + length t' - length t')%nat with (length p + 0)%nat by lia. rewrite firstn_app_2. cbn. apply app_nil_r. Qed.

(* C05, tiling: for a text without NUL runes the extents of the tokens, in order, are the text; every token but the
   last has a non-empty extent and is not EOF; the last is EOF with the empty extent *)
Theorem s_tiles f : forall t, nz t -> (length t < f)%nat ->
  concat (map snd (s_scan_all f t)) = t /\
  exists l0 lit, s_scan_all f t = l0 ++ [(EOF, lit, [])] /\ Forall (fun it => fst (fst it) <> EOF /\ snd it <> []) l0.
Proof.
  induction f as [|f IH]; intros t Hz L; [lia|]. cbn [s_scan_all].
  pose proof (s_scan_progress ulower t (nz_canon _ Hz)) as P. pose proof (s_scan_eof t) as Ee.
  destruct (s_scan ulower t) as [[tok lit] t'] eqn:Es. cbn [fst snd] in *.
  destruct t as [|c t1].
  - cbn in Es. injection Es as <- <- <-. cbn. split; [reflexivity|]. exists [], []. split; [reflexivity|constructor].
  - cbn [sread fst snd] in *. assert (Hc : c <> 0) by (inversion Hz; assumption).
    assert (Htok : tok <> EOF) by (intros ->; apply Hc; apply Ee; reflexivity).
    destruct P as [p Ep]. assert (Et : c :: t1 = (c :: p) ++ t') by (rewrite Ep; reflexivity).
    assert (Hz' : nz t') by (apply (nz_suffix t' (c :: t1)); [exists (c :: p); exact Et|exact Hz]).
    assert (L' : (length t' < f)%nat) by (rewrite Ep in L; cbn in L; rewrite app_length in L; lia).
    destruct (IH t' Hz' L') as (Hcat & l0 & lit0 & El & Hall).
    assert (Hext : firstn (length (c :: t1) - length t') (c :: t1) = c :: p) by (rewrite Et; apply firstn_suffix).
    cbv beta iota zeta.
    match goal with |- concat (map snd ?M) = _ /\ _ =>
      assert (Hres : M = (tok, lit, c :: p) :: s_scan_all f t') by (rewrite Hext; destruct tok; try reflexivity; contradiction) end.
    rewrite Hres. split.
    + cbn [map concat snd]. rewrite Hcat. symmetry. exact Et.
    + exists ((tok, lit, c :: p) :: l0), lit0. split; [rewrite El; reflexivity|].
      constructor; [cbn; split; [exact Htok|discriminate]|exact Hall].
Qed.

(* the exact lexer yields the same tokens and literals, for any fuel *)
Theorem ring_scan_all T f : forall r t acc, at_ T r t -> r_n r <= 2 ->
  map tl_of (fst (scan_all ulower f r acc)) = rev (map tl_of acc) ++ map fst (s_scan_all f t).
Proof.
  induction f as [|f IH]; intros r t acc H Hn; cbn [scan_all s_scan_all].
  - cbn. rewrite map_rev, app_nil_r. reflexivity.
  - destruct (ref_scan T ulower r t H Hn) as (Et & Ha & _).
    assert (Hn' : r_n (snd (scan ulower r)) <= 2).
    { pose proof (rb_scan ulower r) as Hb. destruct (at_rb _ _ _ H) as (B1 & B2 & B3).
      assert (rb 2 r) as Hr2 by (unfold rb; repeat split; try assumption; lia). destruct (Hb Hr2) as (_ & _ & ?). lia. }
    destruct (scan ulower r) as [[[tok p] lit] r1]. destruct (s_scan ulower t) as [[tok' lit'] t']. cbn [tl_of fst snd] in *.
    injection Et as <- <-.
    assert (Hgo : map tl_of (fst (scan_all ulower f r1 ((tok, p, lit) :: acc))) =
                  rev (map tl_of acc) ++ (tok, lit) :: map fst (s_scan_all f t')).
    { rewrite (IH r1 t' _ Ha Hn'). cbn [map rev tl_of fst snd]. rewrite <- app_assoc. reflexivity. }
    destruct tok; try exact Hgo.
    cbv beta iota zeta. cbn [fst]. rewrite map_rev. cbn [map rev tl_of fst snd]. reflexivity.
Qed.

(* the token list without the accumulator *)
Fixpoint scan_list (f : nat) (r : reader) : list tokres :=
  match f with
  | O => []
  | S f' =>
      let '((tok, p, lit), r1) := scan ulower r in
      match tok with EOF => [(tok, p, lit)] | _ => (tok, p, lit) :: scan_list f' r1 end
  end.
Lemma scan_all_list f : forall r acc, fst (scan_all ulower f r acc) = rev acc ++ scan_list f r.
Proof.
  induction f as [|f IH]; intros r acc; cbn [scan_all scan_list]; [cbn; rewrite app_nil_r; reflexivity|].
  destruct (scan ulower r) as [[[tok p] lit] r1].
  assert (Hgo : fst (scan_all ulower f r1 ((tok, p, lit) :: acc)) = rev acc ++ (tok, p, lit) :: scan_list f r1)
    by (rewrite IH; cbn [rev]; rewrite <- app_assoc; reflexivity).
  destruct tok; try exact Hgo. cbn [fst rev]. reflexivity.
Qed.

(* line and column of the k-th rune *)
Definition lc (T : text) (k : nat) : pos := linecol_from pos0 T k.
Definition adv (p : pos) (c : Z) : pos := if c =? 10 then mkPos (p_line p + 1) 0 else mkPos (p_line p) (p_char p + 1).
Lemma linecol_snoc : forall (T : text) k p, (k < length T)%nat -> linecol_from p T (S k) = adv (linecol_from p T k) (nth k T 0).
Proof.
  induction T as [|c T IH]; intros k p Hk; [cbn in Hk; lia|]. destruct k as [|k].
  - cbn. destruct T; reflexivity.
  - cbn [linecol_from nth]. apply IH. cbn in Hk. lia.
Qed.
Lemma pst_lc T : nz T -> forall k, (k <= length T)%nat -> pst T k = (lc T k, false).
Proof.
  intros Hz. induction k as [|k IH]; intros Hk; [unfold lc; destruct T; reflexivity|]. rewrite pst_S, (IH ltac:(lia)). cbn [fst snd negb].
  assert (Hc : nth k T 0 <> 0) by (unfold nz in Hz; rewrite Forall_forall in Hz; apply Hz, nth_In; lia).
  destruct (Z.eqb_spec (nth k T 0) 0) as [|_]; [contradiction|]. cbn [orb]. f_equal.
  unfold lc. rewrite (linecol_snoc T k pos0) by lia. unfold adv. destruct (nth k T 0 =? 10); reflexivity.
Qed.

(* in a NUL-free text the slot in front of a non-empty remaining text is the slot at that offset *)
Lemma slot_at_offset T pre t a : nz T -> T = pre ++ t -> t <> [] -> slot_at T t a -> snd a = lc T (length pre).
Proof.
  intros Hz ET Hne (k & Ek & ->). unfold A. cbn [snd].
  assert (Hk : skipn k T = t).
  { rewrite Ek. symmetry. apply nz_canon. apply (nz_suffix (skipn k T) T); [|exact Hz].
    exists (firstn k T). symmetry. apply firstn_skipn. }
  assert (k = length pre).
  { assert (length (skipn k T) = length t) by (rewrite Hk; reflexivity). rewrite skipn_length in H.
    rewrite ET in H. rewrite app_length in H. destruct t; [contradiction|]. cbn in H. lia. }
  subst k. rewrite pst_lc; [reflexivity|exact Hz|rewrite ET, app_length; lia].
Qed.

(* one token of a non-empty NUL-free text: not EOF, a non-empty extent in front of the rest *)
Lemma s_scan_split t tok lit t' : nz t -> t <> [] -> s_scan ulower t = ((tok, lit), t') ->
  tok <> EOF /\ t = firstn (length t - length t') t ++ t' /\ firstn (length t - length t') t <> [] /\ nz t' /\ (length t' < length t)%nat.
Proof.
  intros Hz Hne Es. pose proof (s_scan_progress ulower t (nz_canon _ Hz)) as P. pose proof (s_scan_eof t) as Ee.
  rewrite Es in P, Ee. cbn [fst snd] in *. destruct t as [|c t1]; [contradiction|]. cbn [sread fst snd] in *.
  assert (Hc : c <> 0) by (inversion Hz; assumption).
  destruct P as [p Ep]. assert (Et : c :: t1 = (c :: p) ++ t') by (rewrite Ep; reflexivity).
  assert (Hext : firstn (length (c :: t1) - length t') (c :: t1) = c :: p) by (rewrite Et; apply firstn_suffix).
  split; [intros ->; apply Hc; apply Ee; reflexivity|]. rewrite Hext. split; [exact Et|]. split; [discriminate|].
  split; [apply (nz_suffix t' (c :: t1)); [exists (c :: p); exact Et|exact Hz]|].
  rewrite Et, app_length. cbn. lia.
Qed.

(* C05, positions: in a NUL-free text every token that is not string-like and not EOF carries the line and column
   of the first rune of its extent *)
Theorem positions T f : nz T -> forall r t pre, at_ T r t -> r_n r <= 2 -> T = pre ++ t ->
  forall i tok pos lit, nth_error (scan_list f r) i = Some (tok, pos, lit) -> strtok tok = false -> tok <> EOF ->
  pos = lc T (length pre + length (concat (map snd (firstn i (s_scan_all f t))))).
Proof.
  intros Hz. induction f as [|f IH]; intros r t pre H Hn ET i tok pos lit Hi Hs Hne; [destruct i; discriminate Hi|].
  cbn [scan_list s_scan_all] in *.
  destruct (ref_scan T ulower r t H Hn) as (Et & Ha & Hpos).
  assert (Hn' : r_n (snd (scan ulower r)) <= 2).
  { pose proof (rb_scan ulower r) as Hb. destruct (at_rb _ _ _ H) as (B1 & B2 & B3).
    assert (rb 2 r) as Hr2 by (unfold rb; repeat split; try assumption; lia). destruct (Hb Hr2) as (_ & _ & ?). lia. }
  assert (Hzt : nz t) by (apply (nz_suffix t T); [exists pre; exact ET|exact Hz]).
  destruct (scan ulower r) as [[[tok0 p0] lit0] r1]. destruct (s_scan ulower t) as [[tok0' lit0'] t'] eqn:Es.
  cbn [tl_of fst snd] in *. injection Et as <- <-.
  destruct t as [|c t1].
  - (* the end of the text: EOF *)
    cbn in Es. injection Es as <- <- <-. destruct i as [|i]; [|destruct i; discriminate Hi].
    cbn in Hi. injection Hi as <- <- <-. contradiction.
  - destruct (s_scan_split (c :: t1) tok0 lit0 t' Hzt ltac:(discriminate) Es) as (Hne0 & Esp & Hext & Hzt' & Hlen).
    match type of Hi with nth_error ?M _ = _ =>
      assert (Hl : M = (tok0, p0, lit0) :: scan_list f r1) by (destruct tok0; try reflexivity; contradiction);
      rewrite Hl in Hi; clear Hl end.
    match goal with |- context [firstn i ?M] =>
      assert (Hm : M = (tok0, lit0, firstn (length (c :: t1) - length t') (c :: t1)) :: s_scan_all f t')
        by (destruct tok0; try reflexivity; contradiction); rewrite Hm; clear Hm end.
    destruct i as [|i].
    + cbn in Hi. injection Hi as <- <- <-. cbn [firstn map concat length]. rewrite Nat.add_0_r.
      exact (slot_at_offset T pre (c :: t1) _ Hz ET ltac:(discriminate) (Hpos Hs)).
    + cbn [nth_error] in Hi. cbn [firstn map concat snd]. rewrite app_length.
      set (ext := firstn (length (c :: t1) - length t') (c :: t1)) in *.
      rewrite (IH r1 t' (pre ++ ext) Ha Hn' ltac:(rewrite <- app_assoc, <- Esp; exact ET) i tok pos lit Hi Hs Hne).
      f_equal. rewrite app_length. lia.
Qed.
End L.

Lemma nz_fold_cr_n n : forall s, (length s <= n)%nat -> nz s -> nz (fold_cr s).
Proof.
  induction n as [|n IH]; intros s Hs Hz.
  - destruct s; [constructor|cbn in Hs; lia].
  - destruct s as [|c s']; [constructor|]. cbn [fold_cr]. cbn [length] in Hs. inversion Hz as [|? ? Hc Hz']; subst.
    destruct (c =? 13).
    + constructor; [lia|]. destruct s' as [|d s'']; [constructor|]. cbn [length] in Hs. inversion Hz' as [|? ? Hd Hz'']; subst.
      destruct (d =? 10); [apply IH; [lia|exact Hz'']|apply IH; [cbn; lia|exact Hz']].
    + constructor; [exact Hc|apply IH; [lia|exact Hz']].
Qed.
Lemma nz_fold_cr s : nz s -> nz (fold_cr s).
Proof. apply (nz_fold_cr_n (length s)). lia. Qed.

(* C05 for the exact lexer on every NUL-free text *)
Theorem lexer_tiles ulower s : nz s ->
  exists items : list (token * text * text),
    map tl_of (fst (scan_all ulower (S (length (fold_cr s))) (new_reader s) [])) = map fst items /\
    concat (map snd items) = fold_cr s /\
    exists l0 lit, items = l0 ++ [(EOF, lit, [])] /\ Forall (fun it => fst (fst it) <> EOF /\ snd it <> []) l0.
Proof.
  intros Hz. pose proof (nz_fold_cr s Hz) as Hf. pose proof (nz_canon _ Hf) as Hc.
  pose proof (at_new s) as Ha. rewrite Hc in Ha.
  exists (s_scan_all ulower (S (length (fold_cr s))) (fold_cr s)). split.
  - rewrite (ring_scan_all ulower (fold_cr s) _ _ (fold_cr s) [] Ha); [reflexivity|cbn; lia].
  - apply s_tiles; [exact Hf|lia].
Qed.

(* C05 positions for the exact lexer on every NUL-free text: token i, unless string-like or EOF, reports the line
   and column of the first rune of its extent, i.e. of the rune behind the extents of tokens 0..i-1 *)
Theorem lexer_positions ulower s : nz s ->
  forall i tok pos lit,
    nth_error (fst (scan_all ulower (S (length (fold_cr s))) (new_reader s) [])) i = Some (tok, pos, lit) ->
    strtok tok = false -> tok <> EOF ->
    pos = lc (fold_cr s) (length (concat (map snd (firstn i (s_scan_all ulower (S (length (fold_cr s))) (fold_cr s)))))).
Proof.
  intros Hz i tok pos lit Hi Hs Hne. pose proof (nz_fold_cr s Hz) as Hf. pose proof (nz_canon _ Hf) as Hc.
  pose proof (at_new s) as Ha. rewrite Hc in Ha. rewrite scan_all_list in Hi. cbn [rev app] in Hi.
  exact (positions ulower (fold_cr s) _ Hf (new_reader s) (fold_cr s) [] Ha ltac:(cbn; lia) eq_refl i tok pos lit Hi Hs Hne).
Qed.
