From InfluxQL Require Import Base.Prelude Lex.Token Ast.Ast Ast.Privileges.

Lemma in_flat_map_intro {A B} (f : A -> list B) l x y : In x l -> In y (f x) -> In y (flat_map f l).
Proof. intros H1 H2. apply in_flat_map. exists x. split; assumption. Qed.

(* a read privilege on the database of every measurement read, at any depth *)
Lemma source_reads_covered : forall s m,
  In m (source_reads s) -> In (mkPriv false (m_db m) ReadPrivilege) (source_privs s).
Proof.
  fix IH 1. intros [m0|q] m Hin.
  - cbn in *. destruct Hin as [->|[]]. left. reflexivity.
  - cbn [source_reads source_privs] in *. apply in_or_app. left.
    induction (s_sources q) as [|s0 ss IHss]; [destruct Hin|].
    cbn [flat_map] in *. apply in_app_or in Hin. apply in_or_app. destruct Hin as [H|H].
    + left. apply IH. exact H.
    + right. apply IHss. exact H.
Qed.

Lemma select_reads_covered q m :
  In m (select_reads q) -> In (mkPriv false (m_db m) ReadPrivilege) (select_privs q).
Proof.
  unfold select_reads, select_privs, sources_privs. intros Hin. apply in_or_app. left.
  apply in_flat_map in Hin. destruct Hin as [s [Hs Hm]].
  apply (in_flat_map_intro source_privs _ s); [exact Hs|]. apply source_reads_covered. exact Hm.
Qed.

Lemma select_target_covered q t :
  s_target q = Some t -> In (mkPriv false (m_db t) WritePrivilege) (select_privs q).
Proof. intros H. unfold select_privs. rewrite H. apply in_or_app. right. left. reflexivity. Qed.

(* nothing but reads of measurements actually read and writes of INTO targets is ever required:
   every entry is non-admin and is a read or a write *)
Lemma source_privs_shape : forall s p, In p (source_privs s) ->
  ep_admin p = false /\ (ep_priv p = ReadPrivilege \/ ep_priv p = WritePrivilege).
Proof.
  fix IH 1. intros [m0|q] p Hin.
  - cbn in Hin. destruct Hin as [<-|[]]. cbn. split; [reflexivity|left; reflexivity].
  - cbn [source_privs] in Hin. apply in_app_or in Hin. destruct Hin as [H|H].
    + induction (s_sources q) as [|s0 ss IHss]; [destruct H|].
      cbn [flat_map] in H. apply in_app_or in H. destruct H as [H|H]; [apply (IH s0); exact H|apply IHss; exact H].
    + destruct (s_target q); [|destruct H]. destruct H as [<-|[]]. cbn. split; [reflexivity|right; reflexivity].
Qed.

Lemma source_privs_nonempty : forall s, source_has_from s = true -> source_privs s <> [].
Proof.
  fix IH 1. intros [m0|q] H.
  - cbn. discriminate.
  - cbn [source_has_from source_privs] in *. apply andb_true_iff in H. destruct H as [Hne Hall].
    destruct (s_sources q) as [|s0 ss]; [discriminate|].
    cbn [forallb] in Hall. apply andb_true_iff in Hall. destruct Hall as [H0 _].
    cbn [flat_map]. specialize (IH s0 H0). destruct (source_privs s0); [congruence|discriminate].
Qed.

Lemma select_privs_nonempty q : select_has_from q = true -> select_privs q <> [].
Proof.
  unfold select_has_from, select_privs, sources_privs. intros H. apply andb_true_iff in H. destruct H as [Hne Hall].
  destruct (s_sources q) as [|s0 ss]; [discriminate|].
  cbn [forallb] in Hall. apply andb_true_iff in Hall. destruct Hall as [H0 _].
  cbn [flat_map]. pose proof (source_privs_nonempty s0 H0). destruct (source_privs s0); [congruence|discriminate].
Qed.

Lemma sources_privs_nonempty ss : ss <> [] -> forallb source_has_from ss = true -> sources_privs ss <> [].
Proof.
  destruct ss as [|s0 ss]; [congruence|]. intros _ Hall. cbn [forallb] in Hall. apply andb_true_iff in Hall.
  destruct Hall as [H0 _]. unfold sources_privs. cbn [flat_map].
  pose proof (source_privs_nonempty s0 H0). destruct (source_privs s0); [congruence|discriminate].
Qed.

(* the SELECTs and source lists inside a statement all have FROM clauses *)
Definition stmt_has_from (s : stmt) : bool :=
  match s with
  | Select q | Explain q _ _ => select_has_from q
  | ShowFieldKeyCardinality _ _ ss _ _ _ _ | ShowMeasurementCardinality _ _ ss _ _ _ _
  | ShowSeriesCardinality _ _ ss _ _ _ _ | ShowTagKeyCardinality _ _ ss _ _ _ _
  | ShowTagValuesCardinality _ _ ss _ _ _ _ _ _ => forallb source_has_from ss
  | _ => true
  end.

Lemma card_privs_nonempty db ss : forallb source_has_from ss = true -> card_privs db ss <> [].
Proof.
  unfold card_privs. destruct ss as [|s0 ss'] eqn:E; [discriminate|]. intros H.
  apply sources_privs_nonempty; [discriminate|exact H].
Qed.

Lemma stmt_privs_nonempty s : stmt_has_from s = true -> stmt_privs s <> [].
Proof.
  destruct s; cbn [stmt_privs stmt_has_from]; intros H; try discriminate;
    try (apply select_privs_nonempty; exact H); try (apply card_privs_nonempty; exact H).
  - destruct (s_target src) as [t|]; [destruct (is_nil (m_db t))|]; discriminate.
  - destruct exact; [apply card_privs_nonempty; exact H|discriminate].
  - destruct exact; [apply card_privs_nonempty; exact H|discriminate].
Qed.

Lemma admin_requires_admin s : admin_kind s = true -> stmt_privs s = admin_all.
Proof. destruct s; cbn; intros H; try reflexivity; discriminate. Qed.
