(* C06: a name for which IdentNeedsQuotes is false, written bare, scans as that single identifier - on the exact
   ring reader, whatever follows it (the end of the text, or any rune that cannot continue an identifier). *)
From InfluxQL Require Import Base.Prelude Lex.Token Lex.Reader Lex.Scanner Lex.Quote Proofs.ReaderProofs Proofs.QuoteProofs.
From Coq Require Import ZifyBool.

Definition ident_text (s : text) : Prop := Forall (fun c => is_ident_char c = true) s.
(* what may follow a bare identifier: nothing, or a rune that neither continues it nor opens a quoted part *)
Definition ends_ident (rest : text) : Prop :=
  rest = [] \/ exists d rest', rest = d :: rest' /\ is_ident_char d = false /\ d <> 34 /\ d <> 13 /\ d <> 0.

Lemma ident_char_plain c : is_ident_char c = true -> c <> 13 /\ c <> 0 /\ c <> 34.
Proof. unfold is_ident_char, is_letter, is_digit. lia. Qed.

Lemma read_eof r : wf r -> r_src r = [] -> exists r', read r = ((0, r_pos r), r') /\ wf r' /\ r_src r' = [].
Proof.
  intros Hwf Hs. pose proof (read_src r Hwf) as H. rewrite Hs in H. cbn [raw_read] in H.
  destruct H as [r' [Hr [Hw [Hsrc _]]]]. exists r'. split; [exact Hr|split; assumption].
Qed.

(* the state the bare-identifier loops stop in *)
Definition stopped (rest : text) (r : reader) : Prop :=
  (rest = [] /\ wf r /\ r_src r = []) \/
  (exists d rest' r0, rest = d :: rest' /\ r = unread r0 /\ wf r0 /\ r_src r0 = rest' /\ fst (curr r0) = d).

Lemma scan_bare_ident_spec : forall s acc rest r fuel,
  wf r -> ident_text s -> ends_ident rest -> r_src r = s ++ rest -> (length s + 1 <= fuel)%nat ->
  exists r', scan_bare_ident fuel r acc = (rev acc ++ s, r') /\ stopped rest r'.
Proof.
  induction s as [|c s IH]; intros acc rest r fuel Hwf Hid Hend Hsrc Hf.
  - cbn [app] in Hsrc. destruct fuel; [cbn in Hf; lia|]. cbn [scan_bare_ident]. rewrite app_nil_r.
    destruct Hend as [->|(d & rest' & -> & Hd & Hd34 & Hd13 & Hd0)].
    + destruct (read_eof r Hwf Hsrc) as [r' [Hr [Hw Hs]]]. rewrite Hr. cbn [Z.eqb]. exists r'. split; [reflexivity|].
      left. split; [reflexivity|split; assumption].
    + destruct (read_plain r d rest' Hwf Hsrc Hd13) as [r' [Hr [Hw [Hs Hc]]]]. rewrite Hr.
      destruct (d =? 0) eqn:E0; [lia|]. rewrite Hd. cbn [negb]. exists (unread r'). split; [reflexivity|].
      right. exists d, rest', r'. rewrite Hc. split; [reflexivity|]. split; [reflexivity|]. split; [exact Hw|]. split; [exact Hs|reflexivity].
  - inversion Hid as [|? ? Hc Hid']; subst. destruct (ident_char_plain c Hc) as (Hc13 & Hc0 & Hc34).
    cbn [app] in Hsrc. destruct fuel; [cbn in Hf; lia|]. cbn [scan_bare_ident].
    destruct (read_plain r c _ Hwf Hsrc Hc13) as [r' [Hr [Hw [Hs _]]]]. rewrite Hr.
    destruct (c =? 0) eqn:E0; [lia|]. rewrite Hc. cbn [negb].
    destruct (IH (c :: acc) rest r' fuel Hw Hid' Hend Hs ltac:(cbn in Hf; lia)) as [r2 [E Hst]].
    exists r2. rewrite E. cbn [rev]. rewrite <- app_assoc. split; [reflexivity|exact Hst].
Qed.

Lemma first_char_cases c : is_ident_first_char c = true ->
  is_whitespace c = false /\ (is_letter c || (c =? 95)) = true /\ is_ident_char c = true.
Proof. unfold is_ident_first_char, is_ident_char, is_whitespace, is_letter, is_digit. lia. Qed.

(* a name that needs no quotes, written bare, scans as exactly that identifier *)
Theorem scan_bare_ident_name ulower s rest r :
  wf r -> s <> [] -> ident_needs_quotes ulower s = false -> ends_ident rest -> r_src r = s ++ rest ->
  exists p r', scan ulower r = ((IDENT, p, s), r') /\ stopped rest r'.
Proof.
  intros Hwf Hne Hnq Hend Hsrc. unfold ident_needs_quotes in Hnq.
  destruct (lookup ulower s) eqn:El; try discriminate. apply Bool.negb_false_iff in Hnq.
  destruct s as [|c s']; [congruence|]. cbn [ident_chars_ok] in Hnq. apply andb_prop in Hnq. destruct Hnq as [Hc Hs'].
  destruct (first_char_cases c Hc) as (Hws & Hlet & Hic). destruct (ident_char_plain c Hic) as (Hc13 & Hc0 & Hc34).
  assert (Hid : ident_text s') by (apply Forall_forall; intros x Hx; rewrite forallb_forall in Hs'; apply Hs'; exact Hx).
  cbn [app] in Hsrc.
  destruct (read_plain r c _ Hwf Hsrc Hc13) as [r1 [Hr1 [Hw1 [Hs1 Hc1]]]].
  unfold scan. rewrite Hr1, Hws, Hlet.
  unfold scan_ident.
  destruct (read_unread r1 Hw1) as [r2 [Hr2 [Hw2 [Hs2 [_ [_ [Hc2 _]]]]]]]. rewrite Hr2, Hc1.
  assert (Hfuel : exists f, read_fuel (unread r2) = S (S f)) by (unfold read_fuel; eexists; rewrite Nat.add_comm; reflexivity).
  destruct Hfuel as [f Ef]. rewrite Ef. cbn [scan_ident_loop].
  destruct (read_unread r2 Hw2) as [r3 [Hr3 [Hw3 [Hs3 [_ [_ [Hc3 _]]]]]]]. rewrite Hr3, Hc2, Hc1.
  destruct (c =? 0) eqn:E0; [lia|]. destruct (c =? 34) eqn:E34; [lia|]. rewrite Hic.
  (* the bare part: the first rune once more from the ring, then the rest from the source *)
  assert (Hbare : exists r5, scan_bare_ident (read_fuel r3) (unread r3) [] = (c :: s', r5) /\ stopped rest r5).
  { assert (Hf3 : exists f3, read_fuel r3 = S f3 /\ (length s' + 1 <= f3)%nat).
    { unfold read_fuel. rewrite Hs3, Hs2, Hs1, app_length. destruct Hw3 as [_ Hn3 _ _]. rewrite Hn3. cbn.
      eexists. split; [rewrite Nat.add_comm; cbn; reflexivity|lia]. }
    destruct Hf3 as [f3 [Ef3 Hlen]]. rewrite Ef3. cbn [scan_bare_ident].
    destruct (read_unread r3 Hw3) as [r4 [Hr4 [Hw4 [Hs4 _]]]]. rewrite Hr4, Hc3, Hc2, Hc1. rewrite E0, Hic. cbn [negb].
    destruct (scan_bare_ident_spec s' [c] rest r4 f3 Hw4 Hid Hend ltac:(rewrite Hs4, Hs3, Hs2; exact Hs1) Hlen) as [r5 [E5 Hst]].
    exists r5. rewrite E5. cbn [rev app]. split; [reflexivity|exact Hst]. }
  destruct Hbare as [r5 [E5 Hst]]. rewrite E5. cbn [app].
  (* back in the identifier loop: the end of the text, or the rune that ends the identifier *)
  cbn [scan_ident_loop].
  destruct Hst as [(-> & Hw5 & Hs5)|(d & rest' & r0 & -> & -> & Hw0 & Hs0 & Hd)].
  - destruct (read_eof r5 Hw5 Hs5) as [r6 [Hr6 [Hw6 Hs6]]]. rewrite Hr6. cbn [Z.eqb]. rewrite El.
    eexists. exists r6. split; [reflexivity|]. left. split; [reflexivity|split; assumption].
  - destruct (read_unread r0 Hw0) as [r6 [Hr6 [Hw6 [Hs6 [_ [_ [Hc6 _]]]]]]]. rewrite Hr6.
    destruct (curr r0) as [d0 p0] eqn:Ecur. cbn [fst] in Hd. subst d0.
    destruct Hend as [Hnil|(d' & rest'' & Erest & Hdn & Hd34 & Hd13 & Hd0)]; [discriminate|].
    inversion Erest; subst d' rest''.
    destruct (d =? 0) eqn:Ed0; [lia|]. destruct (d =? 34) eqn:Ed34; [lia|]. rewrite Hdn. rewrite El.
    eexists. exists (unread r6). split; [reflexivity|]. right. exists d, rest', r6.
    split; [reflexivity|]. split; [reflexivity|]. split; [exact Hw6|]. split; [congruence|]. rewrite Hc6. reflexivity.
Qed.
