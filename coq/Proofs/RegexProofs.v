(* C11: the literals substituted for a regex are exactly the strings it matches. *)
From InfluxQL Require Import Base.Prelude Base.Oracles Lex.Token Ast.Ast Sem.Eval Sem.Regex.

(* ---- splits ---- *)
Lemma splits_spec mid a b : In (a, b) (splits mid) <-> mid = a ++ b.
Proof.
  revert a b. induction mid as [|c m IH]; intros a b; cbn.
  - split.
    + intros [H|[]]. inversion H; reflexivity.
    + intros H. symmetry in H. apply app_eq_nil in H. destruct H; subst. left; reflexivity.
  - split.
    + intros [H|H]; [inversion H; reflexivity|]. apply in_map_iff in H. destruct H as [[a' b'] [E Hin]].
      inversion E; subst. apply IH in Hin. cbn. rewrite Hin. reflexivity.
    + intros H. destruct a as [|x a]; [left; cbn in H; subst; reflexivity|]. cbn in H. inversion H; subst. right.
      apply in_map_iff. exists (a, b). split; [reflexivity|]. apply IH. reflexivity.
Qed.

(* ---- the context-free language of the literal fragment ---- *)
Fixpoint Lcat (ls : list (text -> Prop)) (mid : text) : Prop :=
  match ls with
  | [] => mid = []
  | l :: ls' => exists a b, mid = a ++ b /\ l a /\ Lcat ls' b
  end.

Fixpoint Lang (re : resyn) (mid : text) : Prop :=
  match re with
  | RLit false rs => mid = rs
  | RClass false ranges => exists c, mid = [c] /\ in_ranges c ranges = true
  | RCapture _ r => Lang r mid
  | RConcat _ subs => (fix cat (l : list resyn) (m : text) : Prop :=
                         match l with [] => m = [] | r :: l' => exists a b, m = a ++ b /\ Lang r a /\ cat l' b end) subs mid
  | RAlt _ subs => (fix alt (l : list resyn) : Prop := match l with [] => False | r :: l' => Lang r mid \/ alt l' end) subs
  | _ => False
  end.

(* regexes on which matchRegex succeeds: no case folding, no anchors, no open repetition *)
Fixpoint frag (re : resyn) : Prop :=
  match re with
  | RLit f _ | RClass f _ => f = false
  | RCapture f r => f = false /\ frag r
  | RConcat f subs | RAlt f subs => f = false /\ (fix all (l : list resyn) : Prop := match l with [] => True | r :: l' => frag r /\ all l' end) subs
  | _ => False
  end.

Lemma range_list_spec n : forall lo x, In x (range_list n lo) <-> exists c, x = [c] /\ lo <= c < lo + Z.of_nat n.
Proof.
  induction n as [|n IH]; intros lo x; cbn [range_list].
  - split; [intros []|intros [c [_ H]]; lia].
  - cbn [In]. rewrite IH. split.
    + intros [H|[c [E H]]]; [exists lo; split; [congruence|lia]|exists c; split; [exact E|lia]].
    + intros [c [E H]]. destruct (Z.eq_dec c lo) as [->|Hne]; [left; congruence|right; exists c; split; [exact E|lia]].
Qed.

Lemma class_strings_spec ranges x : In x (class_strings ranges) <-> exists c, x = [c] /\ in_ranges c ranges = true.
Proof.
  unfold class_strings, in_ranges. rewrite in_flat_map. split.
  - intros [[lo hi] [Hin Hx]]. apply range_list_spec in Hx. destruct Hx as [c [E Hc]]. exists c. split; [exact E|].
    apply existsb_exists. exists (lo, hi). split; [exact Hin|]. cbn [fst snd] in *. lia.
  - intros [c [E Hc]]. apply existsb_exists in Hc. destruct Hc as [[lo hi] [Hin Hc]]. exists (lo, hi). split; [exact Hin|].
    apply range_list_spec. exists c. split; [exact E|]. cbn [fst snd] in *. lia.
Qed.

Lemma concat_step_spec ns vs r x :
  concat_step ns vs = Some r -> (In x r <-> exists a b, x = a ++ b /\ In a ns /\ In b vs).
Proof.
  assert (Hprod : forall ns vs, In x (flat_map (fun n => map (fun v => n ++ v) vs) ns) <-> exists a b, x = a ++ b /\ In a ns /\ In b vs).
  { intros ns0 vs0. rewrite in_flat_map. split.
    - intros [a [Ha Hx]]. apply in_map_iff in Hx. destruct Hx as [b [E Hb]]. exists a, b. split; [congruence|split; assumption].
    - intros [a [b [E [Ha Hb]]]]. exists a. split; [exact Ha|]. apply in_map_iff. exists b. split; [congruence|exact Hb]. }
  assert (H1 : forall ns v, In x (map (fun n => n ++ v) ns) <-> exists a b, x = a ++ b /\ In a ns /\ In b [v]).
  { intros ns0 v. rewrite in_map_iff. split.
    - intros [n [E Hn]]. exists n, v. split; [congruence|split; [exact Hn|left; reflexivity]].
    - intros [a [b [E [Ha [Hb|[]]]]]]. subst b. exists a. split; [congruence|exact Ha]. }
  assert (H2 : forall n vs, In x (map (fun v => n ++ v) vs) <-> exists a b, x = a ++ b /\ In a [n] /\ In b vs).
  { intros n vs0. rewrite in_map_iff. split.
    - intros [b [E Hb]]. exists n, b. split; [congruence|split; [left; reflexivity|exact Hb]].
    - intros [a [b [E [[Ha|[]] Hb]]]]. subst a. exists b. split; [congruence|exact Hb]. }
  unfold concat_step.
  destruct vs as [|v [|v2 vs2]]; destruct ns as [|n [|n2 ns2]]; intros H;
    try (destruct (max_literals <? _)%nat; [discriminate|]); injection H as <-.
  - exact (Hprod [] []).
  - exact (H2 n []).
  - exact (Hprod (n :: n2 :: ns2) []).
  - exact (H1 [] v).
  - exact (H1 [n] v).
  - exact (H1 (n :: n2 :: ns2) v).
  - exact (Hprod [] (v :: v2 :: vs2)).
  - exact (H2 n (v :: v2 :: vs2)).
  - exact (Hprod (n :: n2 :: ns2) (v :: v2 :: vs2)).
Qed.

(* unfolding the nested fixpoints *)
Definition cat_lang := fix cat (l : list resyn) (m : text) : Prop :=
  match l with [] => m = [] | r :: l' => exists a b, m = a ++ b /\ Lang r a /\ cat l' b end.
Definition alt_lang (mid : text) := fix alt (l : list resyn) : Prop :=
  match l with [] => False | r :: l' => Lang r mid \/ alt l' end.
Definition all_frag := fix all (l : list resyn) : Prop := match l with [] => True | r :: l' => frag r /\ all l' end.
Definition cat_go := fix go (names : option (list text)) (l : list resyn) : option (list text) :=
  match names with
  | None => None
  | Some ns => match l with
               | [] => Some ns
               | s :: l' => match match_regex s with Some vals => go (concat_step ns vals) l' | None => None end
               end
  end.
Definition alt_go := fix go (l : list resyn) : option (list text) :=
  match l with
  | [] => Some []
  | s :: l' => match match_regex s, go l' with Some a, Some b => Some (a ++ b) | _, _ => None end
  end.

Definition spec (re : resyn) : Prop :=
  forall vals, match_regex re = Some vals -> frag re /\ (forall mid, Lang re mid <-> In mid vals).

Lemma cat_go_none l : cat_go None l = None.
Proof. destruct l; reflexivity. Qed.

Lemma match_regex_spec : forall re, spec re.
Proof.
  fix IH 1. intros re vals H. destruct re as [f rs|f ranges|f r|f subs|f subs| | | | |f op]; cbn [match_regex r_fold] in H;
    try discriminate; (destruct f; [discriminate|]); cbn [frag Lang]; try discriminate.
  - destruct (forallb valid_rune rs); [|discriminate].
    inversion H; subst. split; [reflexivity|]. intros mid. cbn. split; [intros ->; left; reflexivity|intros [E|[]]; congruence].
  - destruct (Z.of_nat max_literals <? class_size ranges); [discriminate|].
    destruct (forallb (forallb valid_rune) (class_strings ranges)); [|discriminate]. inversion H; subst. split; [reflexivity|].
    intros mid. symmetry. apply class_strings_spec.
  - destruct (IH r vals H) as [Hf Hl]. split; [split; [reflexivity|exact Hf]|exact Hl].
  - (* concat *)
    destruct subs as [|s0 rest]; [discriminate|]. fold cat_go in H. fold all_frag. fold cat_lang.
    destruct (match_regex s0) as [v0|] eqn:E0; [|rewrite cat_go_none in H; discriminate].
    destruct (IH s0 v0 E0) as [F0 L0].
    assert (Hrest : forall rest ns r, cat_go (Some ns) rest = Some r ->
              all_frag rest /\ forall x, In x r <-> exists a b, x = a ++ b /\ In a ns /\ cat_lang rest b).
    { clear H. induction rest0 as [|s rest0 IHr]; intros ns r Hg.
      - cbn in Hg. inversion Hg; subst. split; [exact I|]. intros x. cbn. split.
        + intros Hx. exists x, []. rewrite app_nil_r. repeat split; assumption.
        + intros [a [b [E [Ha Hb]]]]. subst b. rewrite app_nil_r in E. subst. exact Ha.
      - cbn [cat_go] in Hg. destruct (match_regex s) as [vs|] eqn:Es; [|discriminate].
        destruct (IH s vs Es) as [Fs Ls].
        destruct (concat_step ns vs) as [ns'|] eqn:Ec; [|rewrite cat_go_none in Hg; discriminate].
        destruct (IHr ns' r Hg) as [Fr Lr]. split; [split; assumption|]. intros x. rewrite Lr. cbn [cat_lang]. split.
        + intros [a [b [E [Ha Hb]]]]. apply (concat_step_spec ns vs ns' a Ec) in Ha. destruct Ha as [a1 [a2 [Ea [H1 H2]]]].
          exists a1, (a2 ++ b). split; [rewrite E, Ea, app_assoc; reflexivity|]. split; [exact H1|].
          exists a2, b. split; [reflexivity|]. split; [apply Ls; exact H2|exact Hb].
        + intros [a [b [E [Ha [b1 [b2 [Eb [Hb1 Hb2]]]]]]]]. exists (a ++ b1), b2. split; [rewrite E, Eb, app_assoc; reflexivity|].
          split; [|exact Hb2]. apply (concat_step_spec ns vs ns' (a ++ b1) Ec). exists a, b1. split; [reflexivity|].
          split; [exact Ha|apply Ls; exact Hb1]. }
    destruct (Hrest rest v0 vals H) as [Fr Lr]. split; [split; [reflexivity|split; assumption]|].
    intros mid. rewrite Lr. cbn [cat_lang]. split.
    + intros [a [b [E [Ha Hb]]]]. exists a, b. split; [exact E|]. split; [apply L0; exact Ha|exact Hb].
    + intros [a [b [E [Ha Hb]]]]. exists a, b. split; [exact E|]. split; [apply L0; exact Ha|exact Hb].
  - (* alternation *)
    fold alt_go in H. fold all_frag. fold (alt_lang).
    destruct (alt_go subs) as [names|] eqn:Ea; [|discriminate].
    destruct (max_literals <? length names)%nat; [discriminate|]. inversion H; subst names.
    assert (Halt : forall subs names, alt_go subs = Some names -> all_frag subs /\ forall mid, alt_lang mid subs <-> In mid names).
    { clear - IH. intros subs0. induction subs0 as [|s subs0 IHs]; intros names Hg.
      - cbn in Hg. inversion Hg; subst. split; [exact I|]. intros mid. cbn. tauto.
      - cbn [alt_go] in Hg. destruct (match_regex s) as [a|] eqn:Es; [|discriminate].
        destruct (alt_go subs0) as [b|] eqn:Eb; [|discriminate]. inversion Hg; subst names.
        destruct (IH s a Es) as [Fs Ls]. destruct (IHs b eq_refl) as [Fr Lr]. split; [split; assumption|].
        intros mid. cbn [alt_lang]. rewrite in_app_iff, Ls, Lr. tauto. }
    destruct (Halt subs vals Ea) as [Fr Lr]. split; [split; [reflexivity|exact Fr]|exact Lr].
Qed.

(* ---- the boolean matcher agrees with the language on the fragment, whatever the context ---- *)
Definition mb_go (post : text) := fix go (l : list resyn) (pre mid : text) : bool :=
  match l with
  | [] => is_nil mid
  | r :: l' => existsb (fun p => mb r pre (fst p) (snd p ++ post) && go l' (pre ++ fst p) (snd p)) (splits mid)
  end.

Lemma is_nil_true {A} (l : list A) : is_nil l = true <-> l = [].
Proof. destruct l; cbn; split; congruence. Qed.

Lemma mb_lang : forall re, frag re -> forall pre mid post, mb re pre mid post = true <-> Lang re mid.
Proof.
  fix IH 1. intros re Hf pre mid post. destruct re as [f rs|f ranges|f r|f subs|f subs| | | | |f op]; cbn [frag] in Hf; try contradiction.
  - subst f. cbn. apply text_eqb_eq.
  - subst f. cbn. destruct mid as [|c [|c2 m]]; cbn.
    + split; [discriminate|intros [c [E _]]; discriminate].
    + split; [intros H; exists c; split; [reflexivity|exact H]|intros [c' [E H]]; inversion E; subst; exact H].
    + split; [discriminate|intros [c' [E _]]; discriminate].
  - destruct Hf as [-> Hf]. cbn. apply IH. exact Hf.
  - destruct Hf as [-> Hf]. cbn [mb Lang]. fold (mb_go post). fold cat_lang. fold all_frag in Hf.
    revert pre mid. induction subs as [|r subs IHs]; intros pre mid.
    + cbn. apply is_nil_true.
    + destruct Hf as [Hr Hrest]. cbn [mb_go cat_lang]. rewrite existsb_exists. split.
      * intros [[a b] [Hin Hb]]. apply splits_spec in Hin. apply andb_true_iff in Hb. destruct Hb as [H1 H2]. cbn [fst snd] in *.
        exists a, b. split; [exact Hin|]. split; [apply (IH r Hr pre a (b ++ post)); exact H1|apply (IHs Hrest (pre ++ a) b); exact H2].
      * intros [a [b [E [Ha Hb]]]]. exists (a, b). split; [apply splits_spec; exact E|]. cbn [fst snd]. apply andb_true_iff. split.
        -- apply (IH r Hr). exact Ha.
        -- apply (IHs Hrest). exact Hb.
  - destruct Hf as [-> Hf]. cbn [mb Lang]. fold (alt_lang mid). fold all_frag in Hf.
    induction subs as [|r subs IHs]; [cbn; split; [discriminate|intros []]|].
    destruct Hf as [Hr Hrest]. cbn [existsb alt_lang]. rewrite orb_true_iff, (IH r Hr pre mid post), (IHs Hrest). tauto.
Qed.

(* ---- matchExactRegex: ^ body $ with text anchors matches exactly the listed whole strings ---- *)

Lemma last_app_one {A} (l : list A) (x d : A) : last (l ++ [x]) d = x.
Proof. induction l as [|a l IH]; [reflexivity|]. cbn. destruct (l ++ [x]) eqn:E; [destruct l; discriminate|]. exact IH. Qed.

Lemma body_split (rest : list resyn) : rest <> [] -> rest = strip_last rest ++ [last rest RBeginText].
Proof. intros H. unfold strip_last. apply app_removelast_last. exact H. Qed.

Lemma mb_go_app post : forall l1 l2 pre mid,
  mb_go post (l1 ++ l2) pre mid = true <->
  exists a b, mid = a ++ b /\ mb_go (b ++ post) l1 pre a = true /\ mb_go post l2 (pre ++ a) b = true.
Proof.
  induction l1 as [|r l1 IH]; intros l2 pre mid.
  - cbn [app mb_go]. split.
    + intros H. exists [], mid. split; [reflexivity|split; [reflexivity|rewrite app_nil_r; exact H]].
    + intros [a [b [E [Ha Hb]]]]. apply is_nil_true in Ha. subst a. rewrite app_nil_r in Hb. cbn in E. subst. exact Hb.
  - cbn [app mb_go]. rewrite existsb_exists. split.
    + intros [[a b] [Hin Hb]]. apply splits_spec in Hin. apply andb_true_iff in Hb. destruct Hb as [H1 H2]. cbn [fst snd] in *.
      apply IH in H2. destruct H2 as [a2 [b2 [E2 [H3 H4]]]]. exists (a ++ a2), b2. split; [rewrite Hin, E2, app_assoc; reflexivity|].
      split.
      * apply existsb_exists. exists (a, a2). split; [apply splits_spec; reflexivity|]. cbn [fst snd]. apply andb_true_iff.
        split; [|exact H3]. rewrite E2, <- app_assoc in H1. exact H1.
      * rewrite app_assoc. exact H4.
    + intros [a [b [E [Ha Hb]]]]. apply existsb_exists in Ha. destruct Ha as [[a1 a2] [Hin Hc]]. apply splits_spec in Hin.
      apply andb_true_iff in Hc. destruct Hc as [H1 H2]. cbn [fst snd] in *.
      exists (a1, a2 ++ b). split; [apply splits_spec; rewrite E, Hin, app_assoc; reflexivity|]. cbn [fst snd]. apply andb_true_iff. split.
      * rewrite <- app_assoc. exact H1.
      * apply IH. exists a2, b. split; [reflexivity|]. split; [exact H2|]. rewrite <- app_assoc, <- Hin. exact Hb.
Qed.

Lemma match_string_spec re s :
  match_string re s = true <-> exists pre mid post, s = pre ++ mid ++ post /\ mb re pre mid post = true.
Proof.
  unfold match_string. rewrite existsb_exists. split.
  - intros [[pre rest] [H1 H2]]. apply splits_spec in H1. apply existsb_exists in H2. destruct H2 as [[mid post] [H2 H3]].
    apply splits_spec in H2. cbn [fst snd] in *. exists pre, mid, post. split; [rewrite H1, H2; reflexivity|exact H3].
  - intros [pre [mid [post [E H]]]]. exists (pre, mid ++ post). split; [apply splits_spec; exact E|].
    apply existsb_exists. exists (mid, post). split; [apply splits_spec; reflexivity|exact H].
Qed.

Lemma mb_concat f subs pre mid post : mb (RConcat f subs) pre mid post = mb_go post subs pre mid.
Proof. reflexivity. Qed.

(* the anchored shape: exactly the strings of the body's language, as whole strings *)
Lemma anchored_spec f body s :
  match_string (RConcat f (RBeginText :: body ++ [REndText])) s = true <-> mb_go [] body [] s = true.
Proof.
  rewrite match_string_spec. split.
  - intros [pre [mid [post [E H]]]]. rewrite mb_concat in H. cbn [mb_go] in H. apply existsb_exists in H.
    destruct H as [[a b] [Hs Hb]]. apply splits_spec in Hs. cbn [fst snd] in Hb. apply andb_true_iff in Hb. destruct Hb as [H1 H2].
    cbn [mb] in H1. apply andb_true_iff in H1. destruct H1 as [Ha Hp]. apply is_nil_true in Ha. apply is_nil_true in Hp. subst a pre.
    apply mb_go_app in H2. destruct H2 as [a' [b' [Eb [H3 H4]]]]. cbn [mb_go] in H4. apply existsb_exists in H4.
    destruct H4 as [[x y] [Hxy Hz]]. apply splits_spec in Hxy. cbn [fst snd] in Hz. apply andb_true_iff in Hz. destruct Hz as [H5 H6].
    cbn [mb] in H5. apply andb_true_iff in H5. destruct H5 as [Hx Hy]. apply is_nil_true in Hx. apply is_nil_true in Hy.
    apply is_nil_true in H6. subst x y. apply app_eq_nil in Hy. destruct Hy as [_ ->]. cbn in Hxy. subst b'.
    cbn in Hs. subst mid. rewrite app_nil_r in Eb. subst b. cbn in E. rewrite !app_nil_r in E. subst s.
    cbn [app] in H3. exact H3.
  - intros H. exists [], s, []. split; [cbn; rewrite app_nil_r; reflexivity|]. rewrite mb_concat. cbn [mb_go].
    apply existsb_exists. exists ([], s). split; [apply splits_spec; reflexivity|]. cbn [fst snd mb is_nil andb].
    apply mb_go_app. exists s, []. split; [rewrite app_nil_r; reflexivity|]. split; [cbn [app]; exact H|].
    cbn [mb_go]. apply existsb_exists. exists ([], []). split; [left; reflexivity|]. reflexivity.
Qed.

Theorem match_exact_spec re vals :
  match_exact re = Some vals ->
  exists f body, re = RConcat f (RBeginText :: body ++ [REndText]) /\
    ((body = [] /\ vals = [[]]) \/ (body <> [] /\ match_regex (RConcat f body) = Some vals)).
Proof.
  unfold match_exact. destruct re as [| | |f subs| | | | | |]; try discriminate.
  destruct (length subs <? 2)%nat eqn:El; [discriminate|]. destruct subs as [|s0 rest]; [discriminate|].
  destruct s0; try discriminate. destruct (last rest RBeginText) eqn:Elast; try discriminate.
  assert (Hne : rest <> []) by (intros ->; cbn in El; discriminate).
  pose proof (body_split rest Hne) as Hs. rewrite Elast in Hs.
  intros H. exists f, (strip_last rest). split; [rewrite <- Hs; reflexivity|].
  destruct (strip_last rest) as [|b0 body] eqn:Eb.
  - left. inversion H. split; reflexivity.
  - right. split; [discriminate|exact H].
Qed.

Theorem exact_matches re vals :
  match_exact re = Some vals -> forall s, match_string re s = true <-> In s vals.
Proof.
  intros H s. destruct (match_exact_spec re vals H) as [f [body [-> [[-> ->]|[Hb Hm]]]]].
  - rewrite anchored_spec. cbn. rewrite is_nil_true. split; [intros ->; left; reflexivity|intros [E|[]]; congruence].
  - rewrite anchored_spec. destruct (match_regex_spec (RConcat f body) vals Hm) as [Hf Hl].
    rewrite <- (mb_concat f body [] s []). rewrite (mb_lang (RConcat f body) Hf [] s []), Hl. reflexivity.
Qed.

(* ---- RewriteRegexConditions preserves the value of every typed condition ---- *)
From InfluxQL Require Import Proofs.ReduceProofs.

Section RewriteSound.
Variable orc : oracles.
Variable G : text -> option ty.
Variable syn : text -> option resyn.
Variable ifd : bool.
Variable m : env.
Hypothesis Henv : env_ok orc G m.
(* the two views of Go's regexp package agree on the patterns that are rewritten: MatchString is what the model's
   semantics says about the parsed-and-simplified tree (validated exhaustively on short strings by the harness) *)
Hypothesis Hlink : forall p re vals s, syn p = Some re -> match_exact re = Some vals -> o_re_match orc p s = match_string re s.

Lemma existsb_In s vals : existsb (text_eqb s) vals = true <-> In s vals.
Proof.
  rewrite existsb_exists. split; [intros [x [Hx E]]; apply text_eqb_eq in E; subst; exact Hx|intros H; exists s; split; [exact H|apply text_eqb_refl]].
Qed.

Lemma eval_or_chain l s : eval orc ifd m l = VString s -> forall vs e0 b0, eval orc ifd m e0 = VBool b0 ->
  eval orc ifd m (fold_left (fun e v => BinaryExpr OR e (BinaryExpr EQ l (StringLit v))) vs e0) = VBool (b0 || existsb (text_eqb s) vs).
Proof.
  intros Hl. induction vs as [|v vs IH]; intros e0 b0 H0; cbn [fold_left existsb].
  - rewrite orb_false_r. exact H0.
  - rewrite (IH _ (b0 || text_eqb s v)); [rewrite orb_assoc; reflexivity|]. cbn [eval]. rewrite H0, Hl. reflexivity.
Qed.
Lemma eval_and_chain l s : eval orc ifd m l = VString s -> forall vs e0 b0, eval orc ifd m e0 = VBool b0 ->
  eval orc ifd m (fold_left (fun e v => BinaryExpr AND e (BinaryExpr NEQ l (StringLit v))) vs e0) = VBool (b0 && negb (existsb (text_eqb s) vs)).
Proof.
  intros Hl. induction vs as [|v vs IH]; intros e0 b0 H0; cbn [fold_left existsb].
  - cbn. rewrite andb_true_r. exact H0.
  - rewrite (IH _ (b0 && negb (text_eqb s v))); [rewrite negb_orb, andb_assoc; reflexivity|]. cbn [eval]. rewrite H0, Hl. reflexivity.
Qed.

Lemma eval_build_eq op l s vals : is_regex_op op = true -> eval orc ifd m l = VString s -> vals <> [] ->
  eval orc ifd m (build_eq op l vals) =
  VBool (if tok_eqb op EQREGEX then existsb (text_eqb s) vals else negb (existsb (text_eqb s) vals)).
Proof.
  intros Hop Hl Hne. destruct op; try discriminate; unfold build_eq; cbn [tok_eqb tok_code Z.eqb Pos.eqb].
  - destruct vals as [|v0 [|v1 vs]]; [congruence| |].
    + cbn [eval existsb]. rewrite Hl. cbn. rewrite orb_false_r. reflexivity.
    + cbn [eval]. rewrite (eval_or_chain l s Hl (v1 :: vs) _ (text_eqb s v0)); [reflexivity|]. cbn [eval]. rewrite Hl. reflexivity.
  - destruct vals as [|v0 [|v1 vs]]; [congruence| |].
    + cbn [eval existsb]. rewrite Hl. cbn. rewrite orb_false_r. reflexivity.
    + cbn [eval]. rewrite (eval_and_chain l s Hl (v1 :: vs) _ (negb (text_eqb s v0))); [|cbn [eval]; rewrite Hl; reflexivity].
      cbn [existsb]. rewrite !negb_orb. reflexivity.
Qed.

Lemma typed_string e : typeof orc G e = Some TS -> exists s, eval orc ifd m e = VString s.
Proof.
  intros H. pose proof (eval_typed orc G ifd m Henv e TS H) as V.
  destruct (eval orc ifd m e); cbn in V; try contradiction. eexists; reflexivity.
Qed.

Lemma bool_of_iff (a b : bool) : (a = true <-> b = true) -> a = b.
Proof. destruct a, b; intros [H1 H2]; try reflexivity; [symmetry; apply H1; reflexivity|apply H2; reflexivity]. Qed.

Theorem rewrite_regex_sound : forall e t, typeof orc G e = Some t ->
  eval orc ifd m (rewrite_regex syn e) = eval orc ifd m e.
Proof.
  induction e; intros ty0 Ht; cbn in Ht; try discriminate; cbn [rewrite_regex]; try reflexivity.
  - (* BinaryExpr *)
    destruct (typeof orc G e1) as [a|] eqn:E1; [|discriminate]. destruct (typeof orc G e2) as [b|] eqn:E2; [|discriminate].
    specialize (IHe1 a eq_refl). specialize (IHe2 b eq_refl).
    unfold rewrite_node. destruct (is_regex_op op) eqn:Eop; [|cbn [eval]; rewrite IHe1, IHe2; reflexivity].
    assert (a = TS /\ b = TR) as [-> ->] by (destruct op; try discriminate; destruct a, b; try discriminate; split; reflexivity).
    remember (rewrite_regex syn e1) as l' eqn:El. remember (rewrite_regex syn e2) as r' eqn:Er.
    assert (Hdef : eval orc ifd m (BinaryExpr op l' r') = eval orc ifd m (BinaryExpr op e1 e2))
      by (cbn [eval]; rewrite IHe1, IHe2; reflexivity).
    destruct r'; try exact Hdef.
    destruct (syn r) as [re|] eqn:Es; [|exact Hdef].
    destruct (match_exact re) as [vals|] eqn:Em; [|exact Hdef].
    destruct vals as [|v0 vals'] eqn:Ev; [exact Hdef|]. rewrite <- Ev in *.
    assert (Hne : vals <> []) by (rewrite Ev; discriminate). clear Ev.
    destruct (typed_string e1 E1) as [s Hs].
    rewrite (eval_build_eq op _ s vals Eop); [|rewrite IHe1; exact Hs|exact Hne].
    cbn [eval]. rewrite Hs, <- IHe2. cbn [eval].
    assert (Hset : o_re_match orc r s = existsb (text_eqb s) vals).
    { rewrite (Hlink r re vals s Es Em). apply bool_of_iff. rewrite existsb_In. apply exact_matches. exact Em. }
    destruct op; try discriminate; cbn [eval_bin tok_eqb tok_code Z.eqb Pos.eqb]; rewrite Hset; reflexivity.
  - (* ParenExpr *) cbn [eval]. apply (IHe ty0 Ht).
Qed.

Theorem rewrite_regex_conditions_sound e t : typeof orc G e = Some t ->
  eval orc ifd m (rewrite_regex_conditions syn e) = eval orc ifd m e.
Proof.
  intros Ht. unfold rewrite_regex_conditions. rewrite <- (rewrite_regex_sound e t Ht).
  destruct (rewrite_regex syn e); reflexivity.
Qed.
End RewriteSound.

(* ---- every literal a rewrite produces has a string form: it consists of Unicode scalar values (no surrogate), so
   writing it as a Go string - which is what the rewritten condition compares with - loses nothing ---- *)
Definition valid_text (v : text) : Prop := forallb valid_rune v = true.

Lemma match_regex_valid : forall re vals, match_regex re = Some vals -> Forall valid_text vals.
Proof.
  fix IH 1. intros re vals H. destruct re as [f rs|f ranges|f r|f subs|f subs| | | | |f op]; cbn [match_regex r_fold] in H;
    try discriminate; (destruct f; [discriminate|]); try discriminate.
  - destruct (forallb valid_rune rs) eqn:E; [|discriminate]. inversion H; subst. constructor; [exact E|constructor].
  - destruct (Z.of_nat max_literals <? class_size ranges); [discriminate|].
    destruct (forallb (forallb valid_rune) (class_strings ranges)) eqn:E; [|discriminate]. inversion H; subst.
    apply Forall_forall. intros x Hx. rewrite forallb_forall in E. apply E. exact Hx.
  - apply (IH r). exact H.
  - destruct subs as [|s0 rest]; [discriminate|]. fold cat_go in H.
    destruct (match_regex s0) as [v0|] eqn:E0; [|rewrite cat_go_none in H; discriminate].
    pose proof (IH s0 v0 E0) as H0.
    assert (Hrest : forall rest ns r, Forall valid_text ns -> cat_go (Some ns) rest = Some r -> Forall valid_text r).
    { clear H. induction rest0 as [|s rest0 IHr]; intros ns r Hns Hg.
      - cbn in Hg. inversion Hg; subst. exact Hns.
      - cbn [cat_go] in Hg. destruct (match_regex s) as [vs|] eqn:Es; [|discriminate]. pose proof (IH s vs Es) as Hvs.
        destruct (concat_step ns vs) as [ns'|] eqn:Ec; [|rewrite cat_go_none in Hg; discriminate].
        apply (IHr ns' r); [|exact Hg]. apply Forall_forall. intros x Hx.
        apply (concat_step_spec ns vs ns' x Ec) in Hx. destruct Hx as [a [b [E [Ha Hb]]]]. subst x.
        rewrite Forall_forall in Hns, Hvs. unfold valid_text. rewrite forallb_app. rewrite (Hns a Ha), (Hvs b Hb). reflexivity. }
    exact (Hrest rest v0 vals H0 H).
  - fold alt_go in H. destruct (alt_go subs) as [names|] eqn:Ea; [|discriminate].
    destruct (max_literals <? length names)%nat; [discriminate|]. inversion H; subst names.
    clear H. revert vals Ea. induction subs as [|s subs IHs]; intros names Hg.
    + cbn in Hg. inversion Hg; subst. constructor.
    + cbn [alt_go] in Hg. destruct (match_regex s) as [a|] eqn:Es; [|discriminate].
      destruct (alt_go subs) as [b|] eqn:Eb; [|discriminate]. inversion Hg; subst names.
      apply Forall_app. split; [apply (IH s a Es)|apply IHs; reflexivity].
Qed.

Lemma match_exact_valid re vals : match_exact re = Some vals -> Forall valid_text vals.
Proof.
  unfold match_exact. destruct re as [f rs|f ranges|f r|f subs|f subs| | | | |f op]; try discriminate.
  destruct (length subs <? 2)%nat; [discriminate|]. destruct subs as [|s0 rest]; [discriminate|].
  destruct s0; try discriminate. destruct (last rest RBeginText); try discriminate.
  destruct (strip_last rest) as [|b body]; [intros H; inversion H; subst; repeat constructor|apply match_regex_valid].
Qed.
