(* C06: QuoteString is inverted by the lexer's string scanner, on the exact 3-slot ring reader. *)
From InfluxQL Require Import Base.Prelude Lex.Token Lex.Reader Lex.Scanner Lex.Quote Proofs.ReaderProofs.
From Coq Require Import ZifyBool.

(* reading an ordinary rune (not CR) from the source with nothing pushed back *)
Lemma read_plain r c s' : wf r -> r_src r = c :: s' -> c <> 13 ->
  exists r', read r = ((c, r_pos r), r') /\ wf r' /\ r_src r' = s' /\ curr r' = (c, r_pos r).
Proof.
  intros Hwf Hs Hc. pose proof (read_src r Hwf) as H. rewrite Hs in H. cbn [raw_read] in H.
  destruct (c =? 13) eqn:E; [lia|]. cbn beta iota in H. destruct H as [r' [Hr [Hw [Hsrc [_ [_ [Hcur _]]]]]]].
  exists r'. split; [exact Hr|]. split; [exact Hw|]. split; [exact Hsrc|exact Hcur].
Qed.

(* a string expressible in InfluxQL: no NUL, no carriage return (runes are already valid code points) *)
Definition expressible (s : text) : Prop := Forall (fun c => c <> 0 /\ c <> 13) s.

Definition esc_cases (esc : Z -> text) (q : Z) : Prop :=
  forall c, (esc c = [92; 110] /\ c = 10) \/ (esc c = [92; 92] /\ c = 92) \/ (esc c = [92; q] /\ c = q) \/
            (esc c = [c] /\ c <> 10 /\ c <> 92 /\ c <> q).

Lemma qs_cases : esc_cases qs_escape 39.
Proof.
  intros c. unfold qs_escape. destruct (Z.eqb_spec c 10); [left; tauto|]. destruct (Z.eqb_spec c 92); [right; left; tauto|].
  destruct (Z.eqb_spec c 39); [right; right; left; tauto|]. right; right; right. tauto.
Qed.
Lemma qi_cases : esc_cases qi_escape 34.
Proof.
  intros c. unfold qi_escape. destruct (Z.eqb_spec c 10); [left; tauto|]. destruct (Z.eqb_spec c 92); [right; left; tauto|].
  destruct (Z.eqb_spec c 34); [right; right; left; tauto|]. right; right; right. tauto.
Qed.

(* the string scanner reads an escaped body back to the matching quote, for either quote character *)
Lemma scan_string_loop_quote esc q : esc_cases esc q -> q = 34 \/ q = 39 ->
  forall s acc rest r fuel,
  wf r -> expressible s -> r_src r = flat_map esc s ++ q :: rest ->
  (length (flat_map esc s) + 1 <= fuel)%nat ->
  exists r', scan_string_loop fuel q r acc = ((rev acc ++ s, 0), r') /\ wf r' /\ r_src r' = rest.
Proof.
  intros Hesc Hq. induction s as [|c s IH]; intros acc rest r fuel Hwf Hex Hsrc Hf.
  - cbn in Hsrc, Hf. destruct fuel; [lia|]. cbn [scan_string_loop].
    destruct (read_plain r q rest Hwf Hsrc ltac:(lia)) as [r' [Hr [Hw' [Hs' _]]]]. rewrite Hr.
    rewrite Z.eqb_refl. exists r'. rewrite app_nil_r. split; [reflexivity|split; assumption].
  - inversion Hex as [|? ? [Hc0 Hc13] Hex']; subst. cbn [flat_map] in Hsrc, Hf. rewrite app_length in Hf.
    destruct (Hesc c) as [[E ->]|[[E ->]|[[E Hcq]|[E [Hn10 [Hn92 Hnq]]]]]]; rewrite E in Hsrc, Hf.
    { (* newline: written \n *)
      cbn [app length] in Hsrc, Hf. destruct fuel; [lia|]. cbn [scan_string_loop].
      destruct (read_plain r 92 _ Hwf Hsrc ltac:(lia)) as [r1 [Hr1 [Hw1 [Hs1 _]]]]. rewrite Hr1.
      replace (92 =? q) with false by lia. cbn [Z.eqb Pos.eqb orb].
      destruct (read_plain r1 110 _ Hw1 Hs1 ltac:(lia)) as [r2 [Hr2 [Hw2 [Hs2 _]]]]. rewrite Hr2. cbn [Z.eqb Pos.eqb].
      destruct (IH (10 :: acc) rest r2 fuel Hw2 Hex' Hs2 ltac:(lia)) as [r' [EE [Hw' Hs']]].
      exists r'. rewrite EE. cbn [rev]. rewrite <- app_assoc. split; [reflexivity|split; assumption]. }
    { cbn [app length] in Hsrc, Hf. destruct fuel; [lia|]. cbn [scan_string_loop].
      destruct (read_plain r 92 _ Hwf Hsrc ltac:(lia)) as [r1 [Hr1 [Hw1 [Hs1 _]]]]. rewrite Hr1.
      replace (92 =? q) with false by lia. cbn [Z.eqb Pos.eqb orb].
      destruct (read_plain r1 92 _ Hw1 Hs1 ltac:(lia)) as [r2 [Hr2 [Hw2 [Hs2 _]]]]. rewrite Hr2. cbn [Z.eqb Pos.eqb].
      destruct (IH (92 :: acc) rest r2 fuel Hw2 Hex' Hs2 ltac:(lia)) as [r' [EE [Hw' Hs']]].
      exists r'. rewrite EE. cbn [rev]. rewrite <- app_assoc. split; [reflexivity|split; assumption]. }
    { subst c. cbn [app length] in Hsrc, Hf. destruct fuel; [lia|]. cbn [scan_string_loop].
      destruct (read_plain r 92 _ Hwf Hsrc ltac:(lia)) as [r1 [Hr1 [Hw1 [Hs1 _]]]]. rewrite Hr1.
      replace (92 =? q) with false by lia. cbn [Z.eqb Pos.eqb orb].
      destruct (read_plain r1 q _ Hw1 Hs1 ltac:(lia)) as [r2 [Hr2 [Hw2 [Hs2 _]]]]. rewrite Hr2.
      destruct (IH (q :: acc) rest r2 fuel Hw2 Hex' Hs2 ltac:(lia)) as [r' [EE [Hw' Hs']]].
      exists r'. destruct Hq as [-> | ->]; cbn [Z.eqb Pos.eqb]; rewrite EE; cbn [rev]; rewrite <- app_assoc;
        (split; [reflexivity|split; assumption]). }
    (* an ordinary rune *)
    cbn [app length] in Hsrc, Hf. destruct fuel; [lia|]. cbn [scan_string_loop].
    destruct (read_plain r c _ Hwf Hsrc Hc13) as [r1 [Hr1 [Hw1 [Hs1 _]]]]. rewrite Hr1.
    destruct (c =? q) eqn:E1; [lia|]. destruct (c =? 0) eqn:E2; [lia|]. destruct (c =? 10) eqn:E3; [lia|].
    destruct (c =? 92) eqn:E4; [lia|]. cbn [orb].
    destruct (IH (c :: acc) rest r1 fuel Hw1 Hex' Hs1 ltac:(lia)) as [r' [EE [Hw' Hs']]].
    exists r'. rewrite EE. cbn [rev]. rewrite <- app_assoc. split; [reflexivity|split; assumption].
Qed.

Ltac Zify.zify_post_hook ::= Z.to_euclidean_division_equations.

Lemma set_bad_unread r : wf r -> set_bad (unread r) (r_bad (unread r) || curr_panics (unread r)) = unread r.
Proof.
  intros [Hi Hn Hb Ho]. destruct r as [src i n p b0 b1 b2 eof bad oof maxn]. cbn in *. subst.
  unfold unread, set_n, set_bad, curr_panics, curr_index. cbn.
  replace (Z.rem (i - 1 + 3) 3 <? 0) with false by lia. reflexivity.
Qed.

(* QuoteString(s) followed by ANY text scans as one STRING token with value s, leaving exactly that text *)
Theorem scan_quote_string ulower s rest r :
  wf r -> expressible s -> r_src r = quote_string s ++ rest ->
  exists p r', scan ulower r = ((STRING, p, s), r') /\ wf r' /\ r_src r' = rest.
Proof.
  intros Hwf Hex Hsrc. unfold quote_string in Hsrc. cbn [app] in Hsrc. rewrite <- app_assoc in Hsrc. cbn [app] in Hsrc.
  destruct (read_plain r 39 _ Hwf Hsrc ltac:(lia)) as [r1 [Hr1 [Hw1 [Hs1 Hc1]]]].
  unfold scan. rewrite Hr1. cbn [is_whitespace is_letter is_digit Z.eqb Z.leb Z.compare Pos.eqb Pos.compare Pos.compare_cont orb andb negb].
  unfold scan_string. rewrite (set_bad_unread r1 Hw1).
  destruct (read_unread r1 Hw1) as [r2 [Hr2 [Hw2 [Hs2 _]]]].
  unfold ScanString. rewrite Hr2, Hc1. cbn [fst Z.eqb Pos.eqb].
  destruct (scan_string_loop_quote qs_escape 39 qs_cases ltac:(right; reflexivity) s [] rest r2 (read_fuel r2) Hw2 Hex ltac:(rewrite Hs2; exact Hs1)) as [r3 [E [Hw3 Hs3]]].
  { unfold read_fuel. rewrite Hs2, Hs1, app_length. cbn. lia. }
  rewrite E. cbn [Z.eqb rev app]. eexists. exists r3. split; [reflexivity|split; assumption].
Qed.

(* a quoted identifier: the opening quote is re-read three times through one-deep pushback before the body is scanned *)
Theorem scan_quoted_ident ulower s rest r :
  wf r -> expressible s -> r_src r = 34 :: flat_map qi_escape s ++ 34 :: rest ->
  exists p r', scan ulower r = ((IDENT, p, s), r') /\ wf r' /\ r_src r' = rest.
Proof.
  intros Hwf Hex Hsrc.
  destruct (read_plain r 34 _ Hwf Hsrc ltac:(lia)) as [r1 [Hr1 [Hw1 [Hs1 Hc1]]]].
  unfold scan. rewrite Hr1. cbn [is_whitespace is_letter is_digit Z.eqb Z.leb Z.compare Pos.eqb Pos.compare Pos.compare_cont orb andb negb].
  unfold scan_ident.
  destruct (read_unread r1 Hw1) as [r2 [Hr2 [Hw2 [Hs2 [_ [_ [Hc2 _]]]]]]]. rewrite Hr2. rewrite Hc1.
  assert (Hfuel : exists f, read_fuel (unread r2) = S f) by (unfold read_fuel; eexists; rewrite Nat.add_comm; reflexivity).
  destruct Hfuel as [f Ef]. rewrite Ef. cbn [scan_ident_loop].
  destruct (read_unread r2 Hw2) as [r3 [Hr3 [Hw3 [Hs3 [_ [_ [Hc3 _]]]]]]]. rewrite Hr3, Hc2, Hc1.
  cbn [Z.eqb Pos.eqb].
  unfold scan_string. rewrite (set_bad_unread r3 Hw3).
  destruct (read_unread r3 Hw3) as [r4 [Hr4 [Hw4 [Hs4 _]]]].
  unfold ScanString. rewrite Hr4, Hc3, Hc2, Hc1. cbn [fst Z.eqb Pos.eqb].
  destruct (scan_string_loop_quote qi_escape 34 qi_cases ltac:(left; reflexivity) s [] rest r4 (read_fuel r4) Hw4 Hex
              ltac:(rewrite Hs4, Hs3, Hs2; exact Hs1)) as [r5 [E [Hw5 Hs5]]].
  { unfold read_fuel. rewrite Hs4, Hs3, Hs2, Hs1, app_length. cbn. lia. }
  rewrite E. cbn [Z.eqb rev app]. eexists. exists r5. split; [reflexivity|split; assumption].
Qed.

(* ---- no break-out: for ANY content (NUL, CR, anything) the literal is consumed exactly, or is a bad string ---- *)
Lemma read_any r : wf r -> r_src r <> [] ->
  exists r', read r = ((fst (raw_read (r_src r)), r_pos r), r') /\ wf r' /\ r_src r' = snd (raw_read (r_src r)).
Proof.
  intros Hwf Hne. pose proof (read_src r Hwf) as H. destruct (raw_read (r_src r)) as [ch src'].
  destruct H as [r' [Hr [Hw [Hsrc _]]]]. exists r'. cbn [fst snd]. split; [exact Hr|split; assumption].
Qed.

Lemma scan_string_loop_any esc q : esc_cases esc q -> q = 34 \/ q = 39 ->
  forall s acc rest r fuel,
  wf r -> r_src r = flat_map esc s ++ q :: rest -> (length (flat_map esc s) + 1 <= fuel)%nat ->
  exists lit err r', scan_string_loop fuel q r acc = ((lit, err), r') /\
    ((err = 0 /\ lit = rev acc ++ s /\ wf r' /\ r_src r' = rest) \/ err = 1).
Proof.
  intros Hesc Hq. induction s as [|c s IH]; intros acc rest r fuel Hwf Hsrc Hf.
  - cbn in Hsrc, Hf. destruct fuel; [lia|]. cbn [scan_string_loop].
    destruct (read_plain r q rest Hwf Hsrc ltac:(lia)) as [r' [Hr [Hw' [Hs' _]]]]. rewrite Hr.
    rewrite Z.eqb_refl. eexists _, _, r'. split; [reflexivity|]. left. rewrite app_nil_r. split; [reflexivity|split; [reflexivity|split; assumption]].
  - cbn [flat_map] in Hsrc, Hf. rewrite app_length in Hf.
    destruct (Hesc c) as [[E ->]|[[E ->]|[[E Hcq]|[E [Hn10 [Hn92 Hnq]]]]]]; rewrite E in Hsrc, Hf.
    { cbn [app length] in Hsrc, Hf. destruct fuel; [lia|]. cbn [scan_string_loop].
      destruct (read_plain r 92 _ Hwf Hsrc ltac:(lia)) as [r1 [Hr1 [Hw1 [Hs1 _]]]]. rewrite Hr1.
      replace (92 =? q) with false by lia. cbn [Z.eqb Pos.eqb orb].
      destruct (read_plain r1 110 _ Hw1 Hs1 ltac:(lia)) as [r2 [Hr2 [Hw2 [Hs2 _]]]]. rewrite Hr2. cbn [Z.eqb Pos.eqb].
      destruct (IH (10 :: acc) rest r2 fuel Hw2 Hs2 ltac:(lia)) as [lit [err [r' [EE HH]]]].
      exists lit, err, r'. split; [exact EE|]. destruct HH as [[H1 [H2 H3]]|H1]; [left|right; exact H1].
      split; [exact H1|]. split; [|exact H3]. rewrite H2. cbn [rev]. rewrite <- app_assoc. reflexivity. }
    { cbn [app length] in Hsrc, Hf. destruct fuel; [lia|]. cbn [scan_string_loop].
      destruct (read_plain r 92 _ Hwf Hsrc ltac:(lia)) as [r1 [Hr1 [Hw1 [Hs1 _]]]]. rewrite Hr1.
      replace (92 =? q) with false by lia. cbn [Z.eqb Pos.eqb orb].
      destruct (read_plain r1 92 _ Hw1 Hs1 ltac:(lia)) as [r2 [Hr2 [Hw2 [Hs2 _]]]]. rewrite Hr2. cbn [Z.eqb Pos.eqb].
      destruct (IH (92 :: acc) rest r2 fuel Hw2 Hs2 ltac:(lia)) as [lit [err [r' [EE HH]]]].
      exists lit, err, r'. split; [exact EE|]. destruct HH as [[H1 [H2 H3]]|H1]; [left|right; exact H1].
      split; [exact H1|]. split; [|exact H3]. rewrite H2. cbn [rev]. rewrite <- app_assoc. reflexivity. }
    { subst c. cbn [app length] in Hsrc, Hf. destruct fuel; [lia|]. cbn [scan_string_loop].
      destruct (read_plain r 92 _ Hwf Hsrc ltac:(lia)) as [r1 [Hr1 [Hw1 [Hs1 _]]]]. rewrite Hr1.
      replace (92 =? q) with false by lia. cbn [Z.eqb Pos.eqb orb].
      destruct (read_plain r1 q _ Hw1 Hs1 ltac:(lia)) as [r2 [Hr2 [Hw2 [Hs2 _]]]]. rewrite Hr2.
      destruct (IH (q :: acc) rest r2 fuel Hw2 Hs2 ltac:(lia)) as [lit [err [r' [EE HH]]]].
      exists lit, err, r'. split.
      - destruct Hq as [-> | ->]; cbn [Z.eqb Pos.eqb]; exact EE.
      - destruct HH as [[H1 [H2 H3]]|H1]; [left|right; exact H1].
        split; [exact H1|]. split; [|exact H3]. rewrite H2. cbn [rev]. rewrite <- app_assoc. reflexivity. }
    (* any other rune, including NUL and CR *)
    cbn [app length] in Hsrc, Hf. destruct fuel; [lia|]. cbn [scan_string_loop].
    destruct (Z.eqb_spec c 13) as [->|Hn13].
    { (* a carriage return reads as a line break: the string is bad *)
      destruct (read_any r Hwf ltac:(rewrite Hsrc; discriminate)) as [r1 [Hr1 _]]. rewrite Hsrc in Hr1.
      assert (Hch : fst (raw_read (13 :: flat_map esc s ++ q :: rest)) = 10) by (cbn; reflexivity).
      rewrite Hch in Hr1. rewrite Hr1. replace (10 =? q) with false by lia. cbn [Z.eqb Pos.eqb orb].
      eexists _, _, _. split; [reflexivity|right; reflexivity]. }
    destruct (read_plain r c _ Hwf Hsrc Hn13) as [r1 [Hr1 [Hw1 [Hs1 _]]]]. rewrite Hr1.
    destruct (c =? q) eqn:E1; [lia|].
    destruct (Z.eqb_spec c 0) as [->|Hn0].
    { cbn [Z.eqb orb]. eexists _, _, _. split; [reflexivity|right; reflexivity]. }
    destruct (c =? 10) eqn:E3; [lia|]. destruct (c =? 92) eqn:E4; [lia|]. cbn [orb].
    destruct (IH (c :: acc) rest r1 fuel Hw1 Hs1 ltac:(lia)) as [lit [err [r' [EE HH]]]].
    exists lit, err, r'. split; [exact EE|]. destruct HH as [[H1 [H2 H3]]|H1]; [left|right; exact H1].
    split; [exact H1|]. split; [|exact H3]. rewrite H2. cbn [rev]. rewrite <- app_assoc. reflexivity.
Qed.

(* C06 no break-out: QuoteString(s), for ANY s, followed by ANY text, is one STRING token with value s that ends exactly
   where the quoted value ends — or a BADSTRING (a parse error); never a string token ending inside or beyond it *)
Theorem scan_quote_string_any ulower s rest r :
  wf r -> r_src r = quote_string s ++ rest ->
  exists tok p lit r', scan ulower r = ((tok, p, lit), r') /\
    ((tok = STRING /\ lit = s /\ wf r' /\ r_src r' = rest) \/ tok = BADSTRING).
Proof.
  intros Hwf Hsrc. unfold quote_string in Hsrc. cbn [app] in Hsrc. rewrite <- app_assoc in Hsrc. cbn [app] in Hsrc.
  destruct (read_plain r 39 _ Hwf Hsrc ltac:(lia)) as [r1 [Hr1 [Hw1 [Hs1 Hc1]]]].
  unfold scan. rewrite Hr1. cbn [is_whitespace is_letter is_digit Z.eqb Z.leb Z.compare Pos.eqb Pos.compare Pos.compare_cont orb andb negb].
  unfold scan_string. rewrite (set_bad_unread r1 Hw1).
  destruct (read_unread r1 Hw1) as [r2 [Hr2 [Hw2 [Hs2 _]]]].
  unfold ScanString. rewrite Hr2, Hc1. cbn [fst Z.eqb Pos.eqb].
  destruct (scan_string_loop_any qs_escape 39 qs_cases ltac:(right; reflexivity) s [] rest r2 (read_fuel r2) Hw2
              ltac:(rewrite Hs2; exact Hs1)) as [lit [err [r3 [E HH]]]].
  { unfold read_fuel. rewrite Hs2, Hs1, app_length. cbn. lia. }
  rewrite E. destruct HH as [[H1 [H2 [H3 H4]]]|H1]; subst err.
  - cbn [Z.eqb]. eexists _, _, _, r3. split; [reflexivity|]. left. cbn [rev app] in H2. split; [reflexivity|split; [exact H2|split; assumption]].
  - cbn [Z.eqb Pos.eqb]. eexists _, _, _, r3. split; [reflexivity|]. right. reflexivity.
Qed.
