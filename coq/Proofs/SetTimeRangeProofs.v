(* C18: SetTimeRange.  Reduce is idempotent; a second window replaces the first; the condition does not grow. *)
From InfluxQL Require Import Base.Prelude Base.Oracles Lex.Token Ast.Ast Val.TimeVal Sem.Eval Sem.Reduce Sem.Condition Sem.SetTimeRange.

Section Idem.
Variable orc : oracles.
Variable v : valuer.

Definition stable (e : expr) : Prop := reduce orc v e = e.

Lemma as_literal_stable x : stable (as_literal x).
Proof. destruct x; reflexivity. Qed.

Lemma bin_stable op l r : stable l -> stable r -> reduce_bin orc op l r = BinaryExpr op l r -> stable (BinaryExpr op l r).
Proof. unfold stable. intros Hl Hr H. cbn [reduce]. rewrite Hl, Hr. exact H. Qed.

Definition is_bool_lit (e : expr) : bool := match e with BooleanLit _ => true | _ => false end.
(* reduce_bin's AND/OR shortcut did not fire *)
Definition noshort (op : token) (e : expr) : Prop := is_bool_lit e = true -> op <> AND /\ op <> OR.

Ltac fin :=
  first [ reflexivity | assumption | apply as_literal_stable
        | apply bin_stable; [reflexivity || assumption | reflexivity || assumption | reflexivity]
        | match goal with H : noshort _ _ |- _ => exfalso; destruct (H eq_refl); congruence end ].

Lemma red_num_lhs_stable op a r : stable r -> noshort op r -> stable (red_num_lhs orc op a r).
Proof. intros Hr Hn. destruct r; unfold red_num_lhs; destruct op; fin. Qed.

Lemma red_uu_stable op a b : stable (red_uu op a b).
Proof. unfold red_uu. destruct op; fin. Qed.

Lemma red_uns_lhs_stable op a r : stable r -> noshort op r -> stable (red_uns_lhs orc op a r).
Proof.
  intros Hr Hn. destruct r; unfold red_uns_lhs; try (apply red_num_lhs_stable; assumption); try apply red_uu_stable;
    try (destruct (_ <? 0)); destruct op; try fin; apply red_uu_stable.
Qed.

Ltac inv_some H :=
  repeat match type of H with
         | context [match ?c with _ => _ end] => destruct c eqn:?
         end; try discriminate; inversion H; subst; try fin.

Lemma red_dur_lhs_stable op d r e : red_dur_lhs orc op d r = Some e -> stable e.
Proof. unfold red_dur_lhs, red_dur_time. intros H. destruct r; try discriminate; destruct op; inv_some H. Qed.

Lemma red_time_lhs_stable op t r e : red_time_lhs orc op t r = Some e -> stable e.
Proof. unfold red_time_lhs, red_time_dur, red_time_time. intros H. destruct r; try discriminate; destruct op; inv_some H. Qed.

Lemma red_int_lhs_stable op a r : stable r -> noshort op r -> stable (red_int_lhs orc op a r).
Proof.
  intros Hr Hn. destruct r; unfold red_int_lhs; try (apply red_num_lhs_stable; assumption).
  all: try (destruct op; fin).
  - destruct (a <? 0); [destruct op; try fin|]; apply red_uns_lhs_stable; assumption.
  - destruct (o_parse_time orc s) as [t|] eqn:Ep.
    + destruct (red_dur_lhs orc op a (TimeLit t)) as [e|] eqn:E; [eapply red_dur_lhs_stable; exact E|].
      destruct op; cbn in E; try discriminate; try fin; apply bin_stable; try reflexivity; cbn; rewrite Ep; cbn; try rewrite E; reflexivity.
    + destruct op; try fin; apply bin_stable; try reflexivity; cbn; rewrite Ep; reflexivity.
Qed.

Lemma red_bool_lhs_stable op a r : stable r -> op <> AND -> op <> OR -> stable (red_bool_lhs op a r).
Proof. intros Hr H1 H2. destruct r; unfold red_bool_lhs; destruct op; try congruence; fin. Qed.

Ltac fin2 :=
  first [ fin
        | apply bin_stable; [reflexivity | assumption |
            cbn; repeat match goal with E : o_parse_time _ _ = _ |- _ => rewrite E end; cbn; reflexivity ] ].

Lemma red_str_lhs_stable op a r : stable r -> noshort op r -> stable (red_str_lhs orc op a r).
Proof.
  intros Hr Hn. unfold red_str_lhs, red_time_lhs, red_time_dur, red_time_time.
  destruct (o_parse_time orc a) as [t|] eqn:Ea; destruct r; try (destruct (o_parse_time orc s) as [t'|] eqn:Es); destruct op; cbn; fin2.
Qed.

Lemma reduce_bin_stable op l r : stable l -> stable r -> stable (reduce_bin orc op l r).
Proof.
  intros Hl Hr. unfold reduce_bin.
  destruct (tok_eqb_spec op AND) as [->|Hna].
  { destruct (is_false_lit l || is_false_lit r) eqn:Ef; [reflexivity|]. apply Bool.orb_false_iff in Ef. destruct Ef as [Ef1 Ef2].
    destruct (is_true_lit l) eqn:E1; [assumption|]. destruct (is_true_lit r) eqn:E2; [assumption|].
    assert (Hnr : noshort AND r) by (intros H; destruct r; try discriminate H; destruct b; discriminate).
    assert (Hsc : forall l0, is_false_lit l0 = false -> is_true_lit l0 = false ->
              (if is_false_lit l0 || is_false_lit r then Some (BooleanLit false) else if is_true_lit l0 then Some r else if is_true_lit r then Some l0 else None) = None)
      by (intros l0 H1 H2; rewrite H1, Ef2, H2, E2; reflexivity).
    destruct l; try (destruct b; discriminate); try (apply bin_stable; [assumption|assumption|unfold reduce_bin; rewrite Hsc by reflexivity; reflexivity]).
    - destruct (red_dur_lhs orc AND d r) as [e|] eqn:E; [eapply red_dur_lhs_stable; exact E|apply bin_stable; [assumption|assumption|unfold reduce_bin; rewrite Hsc by reflexivity; rewrite E; reflexivity]].
    - apply red_int_lhs_stable; assumption.
    - apply red_uns_lhs_stable; assumption.
    - apply red_num_lhs_stable; assumption.
    - apply red_str_lhs_stable; assumption.
    - destruct (red_time_lhs orc AND t r) as [e|] eqn:E; [eapply red_time_lhs_stable; exact E|apply bin_stable; [assumption|assumption|unfold reduce_bin; rewrite Hsc by reflexivity; rewrite E; reflexivity]]. }
  destruct (tok_eqb_spec op OR) as [->|Hno].
  { destruct (is_true_lit l || is_true_lit r) eqn:Ef; [reflexivity|]. apply Bool.orb_false_iff in Ef. destruct Ef as [Ef1 Ef2].
    destruct (is_false_lit l) eqn:E1; [assumption|]. destruct (is_false_lit r) eqn:E2; [assumption|].
    assert (Hnr : noshort OR r) by (intros H; destruct r; try discriminate H; destruct b; discriminate).
    assert (Hsc : forall l0, is_true_lit l0 = false -> is_false_lit l0 = false ->
              (if is_true_lit l0 || is_true_lit r then Some (BooleanLit true) else if is_false_lit l0 then Some r else if is_false_lit r then Some l0 else None) = None)
      by (intros l0 H1 H2; rewrite H1, Ef2, H2, E2; reflexivity).
    destruct l; try (destruct b; discriminate); try (apply bin_stable; [assumption|assumption|unfold reduce_bin; rewrite Hsc by reflexivity; reflexivity]).
    - destruct (red_dur_lhs orc OR d r) as [e|] eqn:E; [eapply red_dur_lhs_stable; exact E|apply bin_stable; [assumption|assumption|unfold reduce_bin; rewrite Hsc by reflexivity; rewrite E; reflexivity]].
    - apply red_int_lhs_stable; assumption.
    - apply red_uns_lhs_stable; assumption.
    - apply red_num_lhs_stable; assumption.
    - apply red_str_lhs_stable; assumption.
    - destruct (red_time_lhs orc OR t r) as [e|] eqn:E; [eapply red_time_lhs_stable; exact E|apply bin_stable; [assumption|assumption|unfold reduce_bin; rewrite Hsc by reflexivity; rewrite E; reflexivity]]. }
  assert (Hnr : noshort op r) by (intros _; split; assumption).
  assert (Hsc : match op with
                | AND => if is_false_lit l || is_false_lit r then Some (BooleanLit false) else if is_true_lit l then Some r else if is_true_lit r then Some l else None
                | OR => if is_true_lit l || is_true_lit r then Some (BooleanLit true) else if is_false_lit l then Some r else if is_false_lit r then Some l else None
                | _ => None end = None) by (destruct op; congruence).
  rewrite Hsc.
  assert (Hkeep : forall l0, stable l0 -> (forall e, reduce_bin orc op l0 r = e -> True) ->
            reduce_bin orc op l0 r = BinaryExpr op l0 r -> stable (BinaryExpr op l0 r)) by (intros; apply bin_stable; assumption).
  destruct l; try (apply bin_stable; [assumption|assumption|unfold reduce_bin; rewrite Hsc; reflexivity]).
  - apply red_bool_lhs_stable; assumption.
  - destruct (red_dur_lhs orc op d r) as [e|] eqn:E; [eapply red_dur_lhs_stable; exact E|apply bin_stable; [assumption|assumption|unfold reduce_bin; rewrite Hsc, E; reflexivity]].
  - apply red_int_lhs_stable; assumption.
  - apply red_uns_lhs_stable; assumption.
  - destruct op; try congruence; fin.
  - apply red_num_lhs_stable; assumption.
  - apply red_str_lhs_stable; assumption.
  - destruct (red_time_lhs orc op t r) as [e|] eqn:E; [eapply red_time_lhs_stable; exact E|apply bin_stable; [assumption|assumption|unfold reduce_bin; rewrite Hsc, E; reflexivity]].
Qed.

(* Reduce is idempotent: folding a folded expression changes nothing *)
Theorem reduce_idem : forall e, stable (reduce orc v e).
Proof.
  intros e. induction e using expr_ind'; try reflexivity.
  - cbn [reduce]. apply reduce_bin_stable; assumption.
  - cbn [reduce]. unfold reduce_call.
    assert (Hargs : map (reduce orc v) (map (reduce orc v) args) = map (reduce orc v) args).
    { induction H as [|x l Hx _ IHl]; [reflexivity|]. cbn [map]. rewrite Hx, IHl. reflexivity. }
    destruct (vl_now v) as [t|] eqn:En.
    + destruct (forallb is_literal (map (reduce orc v) args) && text_eqb n (ts "now") && is_nil (map (reduce orc v) args)) eqn:Ec; [reflexivity|].
      unfold stable. cbn [reduce]. rewrite Hargs. unfold reduce_call. rewrite En, Ec. reflexivity.
    + unfold stable. cbn [reduce]. rewrite Hargs. unfold reduce_call. rewrite En. reflexivity.
  - cbn [reduce]. destruct (is_binary (reduce orc v e)) eqn:Eb; [|exact IHe].
    unfold stable in *. cbn [reduce]. rewrite IHe, Eb. reflexivity.
  - cbn [reduce]. destruct (valuer_value v v0) as [x|] eqn:Ev; [apply as_literal_stable|].
    unfold stable. cbn [reduce]. rewrite Ev. reflexivity.
Qed.

Corollary Reduce_idem e : Reduce orc v (Reduce orc v e) = Reduce orc v e.
Proof.
  unfold Reduce. pose proof (reduce_idem e) as H. unfold stable in H.
  destruct (reduce orc v e) as [| | | | | | | | | |e'| | | | | |] eqn:E; try (rewrite H; reflexivity).
  (* reduce e = ParenExpr e': then e' is binary and stable *)
  cbn [reduce] in H. destruct (is_binary (reduce orc v e')) eqn:Eb.
  - inversion H as [H1]. rewrite H1. rewrite H1 in Eb. destruct e'; try discriminate. rewrite H1. reflexivity.
  - rewrite H. reflexivity.
Qed.
End Idem.

(* ---- no reference to the time column anywhere ---- *)
Section TimeFree.
Variable orc : oracles.

Fixpoint time_free (e : expr) : bool :=
  match e with
  | VarRef _ _ => negb (is_time_ref orc e)
  | BinaryExpr _ l r => time_free l && time_free r
  | ParenExpr e' => time_free e'
  | Call _ args => forallb time_free args
  | _ => true
  end.

Lemma time_free_not_operand e : time_free e = true -> is_time_operand orc e = false.
Proof.
  unfold is_time_operand. induction e using expr_ind'; cbn [unparen time_free]; intros Hf; try reflexivity.
  - apply IHe. exact Hf.
  - destruct (is_time_ref orc (VarRef v t)); [discriminate|reflexivity].
Qed.

Lemma strip_time_free e : time_free e = true -> strip_time orc e = e.
Proof.
  induction e using expr_ind'; cbn [strip_time time_free]; intros Hf; try reflexivity.
  - apply andb_prop in Hf. destruct Hf as [H1 H2]. rewrite (IHe1 H1), (IHe2 H2).
    rewrite (time_free_not_operand e1 H1), (time_free_not_operand e2 H2), Bool.andb_false_r. reflexivity.
  - f_equal. induction H as [|x l Hx _ IHl]; [reflexivity|]. cbn [forallb] in Hf. apply andb_prop in Hf. destruct Hf as [H1 H2].
    cbn [map]. rewrite (Hx H1), (IHl H2). reflexivity.
  - rewrite (IHe Hf). reflexivity.
Qed.

Ltac tf := cbn [time_free]; first [ reflexivity | assumption | (rewrite ?Bool.andb_true_r; assumption) ].

Lemma as_literal_tf x : time_free (as_literal x) = true.
Proof. destruct x; reflexivity. Qed.

Lemma reduce_bin_time_free op l r : time_free l = true -> time_free r = true -> time_free (reduce_bin orc op l r) = true.
Proof.
  intros Hl Hr.
  assert (Hkeep : time_free (BinaryExpr op l r) = true) by (cbn [time_free]; rewrite Hl, Hr; reflexivity).
  unfold reduce_bin.
  assert (Hsc : forall o, match op with
                | AND => if is_false_lit l || is_false_lit r then Some (BooleanLit false) else if is_true_lit l then Some r else if is_true_lit r then Some l else None
                | OR => if is_true_lit l || is_true_lit r then Some (BooleanLit true) else if is_false_lit l then Some r else if is_false_lit r then Some l else None
                | _ => None end = Some o -> time_free o = true).
  { intros o. destruct op; try discriminate.
    - destruct (_ || _); [intros E; inversion E; reflexivity|]. destruct (is_true_lit l); [intros E; inversion E; subst; assumption|].
      destruct (is_true_lit r); [intros E; inversion E; subst; assumption|discriminate].
    - destruct (_ || _); [intros E; inversion E; reflexivity|]. destruct (is_false_lit l); [intros E; inversion E; subst; assumption|].
      destruct (is_false_lit r); [intros E; inversion E; subst; assumption|discriminate]. }
  destruct (match op with AND => _ | OR => _ | _ => None end) as [o|]; [apply Hsc; reflexivity|]. clear Hsc.
  assert (Hopt : forall (x : option expr), (forall e, x = Some e -> time_free e = true) ->
            time_free (match x with Some e => e | None => BinaryExpr op l r end) = true)
    by (intros [e|] H; [apply H; reflexivity|exact Hkeep]).
  assert (Hdur : forall d r0 e, red_dur_lhs orc op d r0 = Some e -> time_free e = true).
  { intros d r0 e E. unfold red_dur_lhs, red_dur_time in E.
    destruct r0; try discriminate; destruct op; try discriminate;
      repeat match type of E with context [match ?c with _ => _ end] => destruct c end; try discriminate; inversion E; reflexivity. }
  assert (Htime : forall t r0 e, red_time_lhs orc op t r0 = Some e -> time_free e = true).
  { intros t r0 e E. unfold red_time_lhs, red_time_dur, red_time_time in E.
    destruct r0; try discriminate; destruct op; try discriminate;
      repeat match type of E with context [match ?c with _ => _ end] => destruct c end; try discriminate; inversion E; reflexivity. }
  assert (Hnum : forall a r0, time_free r0 = true -> time_free (red_num_lhs orc op a r0) = true).
  { intros a r0 H0. unfold red_num_lhs, lit_of_value. destruct r0; try (cbn [time_free]; exact H0); try reflexivity;
      destruct op; try reflexivity; apply as_literal_tf. }
  assert (Huu : forall a b, time_free (red_uu op a b) = true).
  { intros a b. unfold red_uu, lit_of_value. destruct op; try reflexivity; apply as_literal_tf. }
  assert (Huns : forall a r0, time_free r0 = true -> time_free (red_uns_lhs orc op a r0) = true).
  { intros a r0 H0. unfold red_uns_lhs. destruct r0; try (cbn [time_free]; exact H0); try reflexivity; try apply Huu; try (apply Hnum; reflexivity).
    destruct (i <? 0); [destruct op; try reflexivity; apply Huu|apply Huu]. }
  destruct l; try exact Hkeep.
  - unfold red_bool_lhs. destruct r; try exact Hkeep; try reflexivity. destruct op; try exact Hkeep; apply as_literal_tf.
  - apply Hopt. apply Hdur.
  - unfold red_int_lhs, lit_of_value. destruct r; try exact Hkeep; try reflexivity; try (apply Hnum; reflexivity);
      try (apply Hopt; apply Hdur);
      try (destruct (o_parse_time orc _); [apply Hopt; apply Hdur|exact Hkeep]);
      try (destruct (_ <? 0); [destruct op; try reflexivity|]; apply Huns; reflexivity);
      try (destruct op; try exact Hkeep; try reflexivity; apply as_literal_tf).
  - apply Huns. exact Hr.
  - destruct op; try exact Hkeep; reflexivity.
  - apply Hnum. exact Hr.
  - unfold red_str_lhs. destruct r; try exact Hkeep;
      try (destruct (o_parse_time orc _); [apply Hopt; apply Htime|exact Hkeep]);
      try (destruct op; try exact Hkeep; reflexivity).
    destruct op; try (destruct (o_parse_time orc _); [apply Hopt; apply Htime|exact Hkeep]); try reflexivity;
      destruct (o_parse_time orc s), (o_parse_time orc s0); try reflexivity; apply Hopt; intros e E; unfold red_time_time in E; inversion E; reflexivity.
  - apply Hopt. apply Htime.
Qed.
End TimeFree.

Section Main.
Variable orc : oracles.
(* unicode.ToLower leaves "time" alone *)
Hypothesis Hlow : is_time_ref orc time_ref = true.

Lemma reduce_time_free v e : time_free orc e = true -> time_free orc (reduce orc v e) = true.
Proof.
  induction e using expr_ind'; cbn [reduce time_free]; intros Hf; try reflexivity.
  - apply andb_prop in Hf. destruct Hf as [H1 H2]. apply reduce_bin_time_free; [apply IHe1|apply IHe2]; assumption.
  - assert (Hargs : forallb (time_free orc) (map (reduce orc v) args) = true).
    { induction H as [|x l Hx _ IHl]; [reflexivity|]. cbn [forallb map] in *. apply andb_prop in Hf. destruct Hf as [H1 H2].
      rewrite (Hx H1), (IHl H2). reflexivity. }
    unfold reduce_call. destruct (vl_now v); [destruct (_ && _ && _); [reflexivity|exact Hargs]|exact Hargs].
  - destruct (is_binary (reduce orc v e)); cbn [time_free]; apply IHe; exact Hf.
  - destruct (valuer_value v v0); [apply as_literal_tf|exact Hf].
Qed.

(* the reduced non-time part of a condition *)
Definition kept (c : expr) : expr := reduce orc nil_valuer (keep_grouping (strip_time orc c)).

Definition combined (a : expr) (w : Z * Z) : expr :=
  if is_false_lit a then BooleanLit false
  else if is_true_lit a then BinaryExpr AND (window_ge (fst w)) (window_lt (snd w))
  else BinaryExpr AND (BinaryExpr AND a (window_ge (fst w))) (window_lt (snd w)).

Lemma set_some c w : set_time_range orc (Some c) w = combined (kept c) w.
Proof.
  unfold set_time_range, Reduce, combined, kept. cbn [reduce].
  change (reduce orc nil_valuer (window_ge (fst w))) with (window_ge (fst w)).
  change (reduce orc nil_valuer (window_lt (snd w))) with (window_lt (snd w)).
  destruct (reduce orc nil_valuer (keep_grouping (strip_time orc c))) as [| [] | | | | | | | | | | | | | | |]; reflexivity.
Qed.

Lemma set_none w : set_time_range orc None w = BinaryExpr AND (window_ge (fst w)) (window_lt (snd w)).
Proof. reflexivity. Qed.

Lemma strip_window_ge s : strip_time orc (window_ge s) = BooleanLit true.
Proof. unfold window_ge. cbn [strip_time is_cmp andb]. change (strip_time orc time_ref) with time_ref. change (is_time_operand orc time_ref) with (is_time_ref orc time_ref). rewrite Hlow. reflexivity. Qed.
Lemma strip_window_lt s : strip_time orc (window_lt s) = BooleanLit true.
Proof. unfold window_lt. cbn [strip_time is_cmp andb]. change (strip_time orc time_ref) with time_ref. change (is_time_operand orc time_ref) with (is_time_ref orc time_ref). rewrite Hlow. reflexivity. Qed.

Lemma kept_time_free c : time_free orc (strip_time orc c) = true -> time_free orc (kept c) = true.
Proof.
  intros H. unfold kept. apply reduce_time_free. unfold keep_grouping.
  destruct (strip_time orc c) as [op l r| | | | | | | | | | | | | | | |]; try exact H. destruct op; exact H.
Qed.

Lemma is_time_operand_bool b : is_time_operand orc (BooleanLit b) = false.
Proof. reflexivity. Qed.

(* the non-time part of the condition a call leaves behind is the non-time part it started from *)
Lemma kept_combined c w : time_free orc (strip_time orc c) = true -> kept (combined (kept c) w) = kept c.
Proof.
  intros Hf. pose proof (kept_time_free c Hf) as Ha. unfold combined.
  destruct (is_false_lit (kept c)) eqn:E1.
  { destruct (kept c) as [| [] | | | | | | | | | | | | | | |]; try discriminate. reflexivity. }
  destruct (is_true_lit (kept c)) eqn:E2.
  { destruct (kept c) as [| [] | | | | | | | | | | | | | | |]; try discriminate.
    unfold kept at 1. cbn [strip_time is_cmp andb]. rewrite strip_window_ge, strip_window_lt. reflexivity. }
  unfold kept at 1. cbn [strip_time is_cmp andb]. rewrite strip_window_ge, strip_window_lt, (strip_time_free orc _ Ha).
  assert (Hst : reduce orc nil_valuer (kept c) = kept c) by (unfold kept; apply reduce_idem).
  cbn [keep_grouping reduce]. rewrite Hst.
  unfold reduce_bin at 2. rewrite E1, E2. cbn [is_false_lit is_true_lit orb].
  unfold reduce_bin. rewrite E1, E2. cbn [is_false_lit is_true_lit orb]. reflexivity.
Qed.

(* only the last window applies, and the condition does not grow *)
Theorem set_twice c w1 w2 : time_free orc (strip_time orc c) = true ->
  set_time_range orc (Some (set_time_range orc (Some c) w1)) w2 = set_time_range orc (Some c) w2.
Proof. intros Hf. rewrite !set_some, (kept_combined c w1 Hf). reflexivity. Qed.

Theorem set_twice_none w1 w2 : set_time_range orc (Some (set_time_range orc None w1)) w2 = set_time_range orc None w2.
Proof.
  rewrite set_some, !set_none. unfold kept. cbn [strip_time is_cmp andb]. rewrite strip_window_ge, strip_window_lt. reflexivity.
Qed.

Lemma combined_stripped_free c w : time_free orc (strip_time orc c) = true ->
  time_free orc (strip_time orc (combined (kept c) w)) = true.
Proof.
  intros Hf. pose proof (kept_time_free c Hf) as Ha. unfold combined.
  destruct (is_false_lit (kept c)); [reflexivity|]. destruct (is_true_lit (kept c)).
  - cbn [strip_time is_cmp andb]. rewrite strip_window_ge, strip_window_lt. reflexivity.
  - cbn [strip_time is_cmp andb]. rewrite strip_window_ge, strip_window_lt, (strip_time_free orc _ Ha). cbn [time_free]. rewrite Ha. reflexivity.
Qed.

(* a continuous query's successive windows: the k-th condition is the one a single call with the k-th window gives *)
Theorem set_time_ranges_map c ws : time_free orc (strip_time orc c) = true ->
  set_time_ranges orc (Some c) ws = map (set_time_range orc (Some c)) ws.
Proof.
  revert c. induction ws as [|w ws IH]; intros c Hf; [reflexivity|]. cbn [set_time_ranges map]. f_equal.
  rewrite IH by (rewrite set_some; apply combined_stripped_free; exact Hf).
  apply map_ext. intros w2. apply set_twice. exact Hf.
Qed.

Theorem set_time_ranges_map_none ws : set_time_ranges orc None ws = map (set_time_range orc None) ws.
Proof.
  destruct ws as [|w ws]; [reflexivity|]. cbn [set_time_ranges map]. f_equal.
  assert (Hf : time_free orc (strip_time orc (set_time_range orc None w)) = true).
  { rewrite set_none. cbn [strip_time is_cmp andb]. rewrite strip_window_ge, strip_window_lt. reflexivity. }
  rewrite (set_time_ranges_map _ ws Hf). apply map_ext. intros w2. apply set_twice_none.
Qed.

(* ---- every other predicate is kept: stripping only replaces comparisons with the time column, and replacing one
   that holds by true does not change the value of the condition ---- *)
Fixpoint bounds_hold (ifd : bool) (m : env) (e : expr) : Prop :=
  match e with
  | BinaryExpr op l r =>
      if is_cmp op && (is_time_operand orc (strip_time orc l) || is_time_operand orc (strip_time orc r))
      then eval orc ifd m e = VBool true
      else bounds_hold ifd m l /\ bounds_hold ifd m r
  | ParenExpr e' => bounds_hold ifd m e'
  | _ => True
  end.

Theorem strip_sound ifd m c : bounds_hold ifd m c -> eval orc ifd m (strip_time orc c) = eval orc ifd m c.
Proof.
  induction c using expr_ind'; cbn [strip_time bounds_hold]; intros Hb; try reflexivity.
  - destruct (is_cmp op && _); [symmetry; exact Hb|]. destruct Hb as [H1 H2]. cbn [eval]. rewrite (IHc1 H1), (IHc2 H2). reflexivity.
  - cbn [eval]. apply IHc. exact Hb.
Qed.

(* ---- every earlier bound is gone: in the property's class nothing that mentions the time column is left ---- *)
Inductive in_class : expr -> Prop :=
| ic_bound_l op l r : is_cmp op = true -> is_time_operand orc l = true -> time_free orc r = true -> in_class (BinaryExpr op l r)
| ic_bound_r op l r : is_cmp op = true -> is_time_operand orc r = true -> time_free orc l = true -> in_class (BinaryExpr op l r)
| ic_pred e : time_free orc e = true -> in_class e
| ic_and l r : in_class l -> in_class r -> in_class (BinaryExpr AND l r)
| ic_or l r : in_class l -> in_class r -> in_class (BinaryExpr OR l r)
| ic_paren e : in_class e -> in_class (ParenExpr e).

Lemma operand_strip l : is_time_operand orc l = true -> strip_time orc l = l.
Proof.
  unfold is_time_operand. induction l using expr_ind'; cbn [unparen strip_time]; intros Ht; try reflexivity; try discriminate.
  rewrite (IHl Ht). reflexivity.
Qed.

Theorem class_stripped c : in_class c -> time_free orc (strip_time orc c) = true.
Proof.
  induction 1 as [op l r Hc Hl Hr|op l r Hc Hr Hl|e Hf|l r _ IHl _ IHr|l r _ IHl _ IHr|e _ IH]; cbn [strip_time].
  - rewrite (operand_strip l Hl), Hc, Hl. reflexivity.
  - rewrite (operand_strip r Hr), Hc, Hr, Bool.orb_true_r. reflexivity.
  - rewrite (strip_time_free orc e Hf). exact Hf.
  - cbn [is_cmp andb time_free]. rewrite IHl, IHr. reflexivity.
  - cbn [is_cmp andb time_free]. rewrite IHl, IHr. reflexivity.
  - cbn [time_free]. exact IH.
Qed.
End Main.

(* ---- the splitter reads exactly the last window off the new condition ---- *)
Section Window.
Variable orc : oracles.
Variable v : valuer.
Hypothesis Hlow : is_time_ref orc time_ref = true.

Lemma is_time_ref_free e : time_free orc e = true -> is_time_ref orc e = false.
Proof. destruct e; try reflexivity. cbn [time_free]. destruct (is_time_ref orc (VarRef v0 t)); [discriminate|reflexivity]. Qed.

Lemma intersect_range0 : intersect range0 range0 = range0.
Proof. reflexivity. Qed.

(* a condition without the time column has no time range *)
Lemma cond_time_free_range a : time_free orc a = true -> forall ra tr, condition_expr orc v a = Some (ra, tr) -> tr = range0.
Proof.
  induction a using expr_ind'; cbn [time_free]; intros Hf ra tr Hc; try discriminate.
  - apply andb_prop in Hf. destruct Hf as [H1 H2]. cbn [condition_expr] in Hc.
    assert (Hbin : forall x, match condition_expr orc v a1, condition_expr orc v a2 with
                             | Some (le, lt), Some (re, rt) =>
                                 match le, re with
                                 | _, None => Some (le, intersect lt rt)
                                 | None, _ => Some (re, intersect lt rt)
                                 | Some a, Some b => Some (Some (x a b), intersect lt rt)
                                 end
                             | _, _ => None end = Some (ra, tr) -> tr = range0).
    { intros x Hx. destruct (condition_expr orc v a1) as [[le lt]|] eqn:E1; [|discriminate].
      destruct (condition_expr orc v a2) as [[re rt]|] eqn:E2; [|discriminate].
      rewrite (IHa1 H1 _ _ eq_refl), (IHa2 H2 _ _ eq_refl) in Hx. destruct le, re; inversion Hx; reflexivity. }
    destruct op; try (apply (Hbin (fun a b => reduce orc nil_valuer (BinaryExpr AND a b))); exact Hc);
      try (apply (Hbin (fun a b => reduce orc nil_valuer (BinaryExpr OR a b))); exact Hc);
      rewrite (is_time_ref_free a1 H1), (is_time_ref_free a2 H2) in Hc; inversion Hc; reflexivity.
  - cbn [condition_expr] in Hc. inversion Hc. reflexivity.
  - cbn [condition_expr] in Hc. destruct (condition_expr orc v a) as [[[x|] t0]|] eqn:E; try discriminate;
      inversion Hc; subst; eapply IHa; try exact Hf; reflexivity.
Qed.

Definition in_i64 (t : Z) : Prop := MinTime + 1 <= t <= MaxTime.

Lemma cond_window_ge s : o_parse_time orc (format_rfc3339nano s) = Some s -> in_i64 s ->
  condition_expr orc v (window_ge s) = Some (None, mkRange (Some s) None).
Proof.
  intros Hp [H1 H2]. unfold window_ge. cbn [condition_expr]. rewrite Hlow. unfold get_time_range. rewrite Hp.
  change (Reduce orc v (TimeLit s)) with (TimeLit s). cbv iota.
  destruct (Z.ltb_spec MaxTime s); [lia|]. destruct (Z.ltb_spec s (MinTime + 1)); [lia|]. reflexivity.
Qed.
Lemma cond_window_lt s : o_parse_time orc (format_rfc3339nano s) = Some s -> in_i64 s ->
  condition_expr orc v (window_lt s) = Some (None, mkRange None (Some (s - 1))).
Proof.
  intros Hp [H1 H2]. unfold window_lt. cbn [condition_expr]. rewrite Hlow. unfold get_time_range. rewrite Hp.
  change (Reduce orc v (TimeLit s)) with (TimeLit s). cbv iota.
  destruct (Z.ltb_spec MaxTime s); [lia|]. destruct (Z.ltb_spec s (MinTime + 1)); [lia|]. reflexivity.
Qed.

(* after SetTimeRange(start, stop) the condition's time range is exactly [start, stop - 1ns] and its non-time part is
   the splitter's reading of the kept predicates; a constantly false non-time part leaves just false *)
Theorem window_exact c w ra tra :
  time_free orc (strip_time orc c) = true ->
  o_parse_time orc (format_rfc3339nano (fst w)) = Some (fst w) -> o_parse_time orc (format_rfc3339nano (snd w)) = Some (snd w) ->
  in_i64 (fst w) -> in_i64 (snd w) ->
  condition_expr orc v (kept orc c) = Some (ra, tra) ->
  is_false_lit (kept orc c) = false ->
  condition_expr orc v (set_time_range orc (Some c) w) =
    Some ((if is_true_lit (kept orc c) then None else ra), mkRange (Some (fst w)) (Some (snd w - 1))).
Proof.
  intros Hf Hp1 Hp2 Hi1 Hi2 Hc Hnf. rewrite (set_some orc). unfold combined. rewrite Hnf.
  pose proof (cond_time_free_range _ (kept_time_free orc c Hf) _ _ Hc) as Htr. subst tra.
  destruct (is_true_lit (kept orc c)).
  - cbn [condition_expr]. rewrite (cond_window_ge _ Hp1 Hi1), (cond_window_lt _ Hp2 Hi2). reflexivity.
  - cbn [condition_expr]. rewrite Hc, (cond_window_ge _ Hp1 Hi1), (cond_window_lt _ Hp2 Hi2). destruct ra; reflexivity.
Qed.
End Window.
