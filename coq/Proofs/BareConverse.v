(* C06, the converse of C06_bare: a name for which IdentNeedsQuotes is true, written bare, never scans as the one
   identifier with that name. *)
From InfluxQL Require Import Base.Prelude Lex.Token Lex.Reader Lex.Scanner Lex.Quote Proofs.LexerSafety.
From InfluxQL Require Import Lex.StreamLex Proofs.RingAt Proofs.RingRefine Proofs.StreamTile Proofs.LexTiling.

Definition ident_text (s : text) : Prop := Forall (fun c => is_ident_char c = true) s.

Lemma suffix_app_len (t' t : text) : suffix t' t -> exists u, t = u ++ t' /\ length u = (length t - length t')%nat.
Proof. intros [p ->]. exists p. split; [reflexivity|]. rewrite app_length. lia. Qed.

(* a run of identifier characters is returned as the literal; a NUL behind it is swallowed *)
Lemma bare_ident_lit f : forall t acc lit t', s_bare_ident f t acc = (lit, t') -> canon t ->
  exists w z, lit = rev acc ++ w /\ t = w ++ z ++ t' /\ ident_text w /\ (z = [] \/ z = [0]).
Proof.
  induction f as [|f IH]; intros t acc lit t'; cbn [s_bare_ident].
  - intros E _. injection E as <- <-. exists [], []. rewrite app_nil_r. repeat split; [constructor|left; reflexivity].
  - intros E Hc. pose proof (canon_unread t Hc) as U. pose proof (canon_sread t Hc) as H1.
    destruct t as [|c t1]; cbn [sread fst snd] in *.
    + cbn in E. injection E as <- <-. exists [], []. rewrite app_nil_r. repeat split; [constructor|left; reflexivity].
    + destruct (Z.eqb_spec c 0) as [->|E0].
      * injection E as <- <-. exists [], [0]. rewrite app_nil_r. repeat split; [constructor|right; reflexivity].
      * destruct (is_ident_char c) eqn:Ei; cbn [negb] in E.
        -- destruct (IH t1 (c :: acc) lit t' E H1) as (w & z & -> & -> & Hw & Hz). exists (c :: w), z. cbn [rev]. rewrite <- app_assoc.
           split; [reflexivity|]. split; [reflexivity|]. split; [constructor; assumption|exact Hz].
        -- injection E as <- <-. exists [], []. rewrite app_nil_r, U. repeat split; [constructor|left; reflexivity].
Qed.

(* a terminated string literal consumes at least its closing quote and one rune per rune of the value *)
Lemma string_loop_len f : forall e t acc lit t', e <> 0 -> s_string_loop f e t acc = ((lit, 0), t') ->
  (length lit + 1 + length t' <= length acc + length t)%nat.
Proof.
  induction f as [|f IH]; intros e t acc lit t' He; cbn [s_string_loop]; [intros E; discriminate E|].
  destruct t as [|c t1]; cbn [sread].
  - destruct (Z.eqb_spec 0 e) as [|_]; [congruence|]. cbn. intros E; discriminate E.
  - destruct (c =? e); [intros E; injection E as <- <-; rewrite rev_length; cbn; lia|].
    destruct ((c =? 0) || (c =? 10)); [intros E; discriminate E|].
    destruct (c =? 92).
    + destruct t1 as [|d t2]; cbn [sread].
      * repeat (match goal with |- context [if ?b then _ else _] => destruct b end);
          intros E; try discriminate E; (apply IH in E; [cbn in *; lia|exact He]).
      * repeat (match goal with |- context [if ?b then _ else _] => destruct b end);
          intros E; try discriminate E; (apply IH in E; [cbn in *; lia|exact He]).
    + intros E. apply IH in E; [cbn in *; lia|exact He].
Qed.

Lemma string_loop_err f : forall e t acc lit err t', s_string_loop f e t acc = ((lit, err), t') -> err = 0 \/ err = 1 \/ err = 2.
Proof.
  induction f as [|f IH]; intros e t acc lit err t'; cbn [s_string_loop]; [intros E; inversion E; lia|].
  destruct (sread t) as [c v1]. destruct (c =? e); [intros E; inversion E; lia|].
  destruct ((c =? 0) || (c =? 10)); [intros E; inversion E; lia|].
  destruct (c =? 92); [|apply IH]. destruct (sread v1) as [d v2].
  repeat (match goal with |- context [if ?b then _ else _] => destruct b end); try apply IH. intros E. inversion E; lia.
Qed.

Lemma scan_string_len t lit t' : s_scan_string t = ((STRING, lit), t') -> (length lit + 2 + length t' <= length t)%nat.
Proof.
  unfold s_scan_string, s_ScanString. destruct t as [|e t1]; cbn [sread].
  - cbn. intros E; discriminate E.
  - destruct (Z.eqb_spec e 0) as [|He]; [cbn; intros E; discriminate E|].
    destruct (s_string_loop (sfuel t1) e t1 []) as [[l err] t2] eqn:El.
    destruct (Z.eqb_spec err 1) as [|H1]; [intros E; discriminate E|]. destruct (Z.eqb_spec err 2) as [|H2]; [intros E; discriminate E|].
    intros E. injection E as <- <-.
    assert (err = 0) by (destruct (string_loop_err _ _ _ _ _ _ _ El) as [?|[?|?]]; lia).
    subst err. pose proof (string_loop_len _ _ _ _ _ _ He El). cbn in *. lia.
Qed.

Section B.
Variable ulower : Z -> Z.

Ltac nilcase := exists []; split; [reflexivity|]; split; [cbn; lia|]; intros _; split; [symmetry; apply app_nil_r|constructor].

(* the identifier loop without a quoted part: the literal is never longer than the text consumed, and when it is as
   long, it IS the text consumed and consists of identifier characters *)
Lemma ident_loop_none f : forall t acc lit t', s_ident_loop f t acc = ((None, lit), t') -> canon t ->
  exists u, t = u ++ t' /\ (length lit <= length acc + length u)%nat /\
            (length lit = length acc + length u -> lit = acc ++ u /\ ident_text u)%nat.
Proof.
  induction f as [|f IH]; intros t acc lit t'; cbn [s_ident_loop].
  - intros E _. injection E as <- <-. nilcase.
  - intros E Hc. pose proof (canon_unread t Hc) as U. pose proof (canon_sread t Hc) as H1.
    destruct t as [|c t1]; cbn [sread fst snd] in *.
    + cbn in E. injection E as <- <-. nilcase.
    + destruct (Z.eqb_spec c 0) as [->|E0].
      * injection E as <- <-. exists [0]. split; [reflexivity|]. split; [cbn; lia|]. cbn. intros Hx. lia.
      * destruct (c =? 34).
        { destruct (s_scan_string (ucons c t1)) as [[tok0 lit0] t2]. destruct tok0; discriminate E. }
        destruct (is_ident_char c) eqn:Ei.
        -- rewrite U in E. destruct (s_bare_ident (sfuel (c :: t1)) (c :: t1) []) as [s0 t2] eqn:Eb.
           destruct (bare_ident_lit _ _ _ _ _ Eb Hc) as (w & z & Es0 & Et & Hw & Hz). cbn [rev app] in Es0. subst s0.
           assert (Hc2 : canon t2).
           { apply (canon_suffix t2 (c :: t1)); [exists (w ++ z); rewrite Et, <- app_assoc; reflexivity|exact Hc]. }
           destruct (IH t2 (acc ++ w) lit t' E Hc2) as (u' & Et2 & Hle & Heq).
           exists (w ++ z ++ u'). rewrite Et, Et2, <- !app_assoc. split; [reflexivity|].
           rewrite !app_length in *. split; [lia|]. intros Hl.
           assert (z = []) by (destruct Hz as [->| ->]; [reflexivity|cbn in Hl; lia]). subst z. cbn [app length] in *.
           destruct (Heq ltac:(lia)) as [-> Hu]. rewrite <- app_assoc. split; [reflexivity|]. apply Forall_app. split; assumption.
        -- injection E as <- <-. rewrite U. nilcase.
Qed.

(* with a quoted part: the identifier is the value of the quoted part only, and two quotes were consumed with it *)
Lemma ident_loop_some f : forall t acc lit0 lit t', s_ident_loop f t acc = ((Some (IDENT, lit0), lit), t') -> canon t ->
  (length lit0 + 2 + length t' <= length t)%nat.
Proof.
  induction f as [|f IH]; intros t acc lit0 lit t'; cbn [s_ident_loop]; [intros E; discriminate E|].
  intros E Hc. pose proof (canon_unread t Hc) as U.
  destruct t as [|c t1]; cbn [sread fst snd] in *; [cbn in E; discriminate E|].
  destruct (Z.eqb_spec c 0) as [|E0]; [discriminate E|].
  destruct (c =? 34).
  - rewrite U in E. destruct (s_scan_string (c :: t1)) as [[tok0 l0] t2] eqn:Es.
    destruct tok0; try discriminate E; injection E as <- <- <-.
    all: try (pose proof (scan_string_suffix (c :: t1)) as S; rewrite Es in S; cbn [snd sread] in S; apply suffix_len in S).
    all: try (unfold s_scan_string in Es; destruct (s_ScanString (c :: t1)) as [[l err] tt]; destruct (err =? 1); [discriminate Es|]; destruct (err =? 2); discriminate Es).
    exact (scan_string_len _ _ _ Es).
  - destruct (is_ident_char c); [|discriminate E]. rewrite U in E.
    destruct (s_bare_ident (sfuel (c :: t1)) (c :: t1) []) as [s0 t2] eqn:Eb.
    pose proof (bare_ident_suffix (sfuel (c :: t1)) (c :: t1) [] Hc) as S. rewrite Eb in S. cbn [snd] in S.
    pose proof (IH t2 _ _ _ _ E (canon_suffix _ _ S Hc)). apply suffix_len in S. lia.
Qed.

(* an IDENT out of scanIdent with keyword lookup: either it carries the value of a quoted part (two quotes were consumed
   with it), or its literal is no longer than the text consumed - and then, if as long, it is that text, made of
   identifier characters, and not a keyword *)
Lemma scan_ident_ident t lit t' : s_scan_ident ulower true t = ((IDENT, lit), t') -> canon t ->
  (length lit + 2 + length t' <= length t)%nat \/
  (exists u, t = u ++ t' /\ (length lit <= length u)%nat /\ (length lit = length u -> lit = u /\ ident_text u /\ lookup ulower u = IDENT)).
Proof.
  unfold s_scan_ident. destruct (s_ident_loop (sfuel t) t []) as [[early l] t2] eqn:El. intros E Hc.
  destruct early as [[tk l0]|].
  - injection E as -> <- <-. left. exact (ident_loop_some _ _ _ _ _ _ El Hc).
  - destruct (ident_loop_none _ _ _ _ _ El Hc) as (u & Et & Hle & Heq). cbn [length Nat.add app] in *.
    destruct (lookup ulower l) eqn:Ek; try discriminate E. injection E as <- <-. right. exists u. split; [exact Et|]. split; [exact Hle|].
    intros Hl. destruct (Heq Hl) as [-> Hu]. split; [reflexivity|]. split; [exact Hu|exact Ek].
Qed.

Lemma number_not_ident c t : fst (fst (s_scan_number c t)) <> IDENT.
Proof.
  unfold s_scan_number, s_number_go.
  repeat match goal with
         | |- context [let '(_, _) := ?x in _] => destruct x
         | |- context [if ?b then _ else _] => destruct b
         end; cbn; discriminate.
Qed.

Lemma app_same_len (a b c d : text) : a ++ b = c ++ d -> length b = length d -> a = c.
Proof.
  intros E L. assert (length a = length c) by (apply (f_equal (@length Z)) in E; rewrite !app_length in E; lia).
  revert c E H. induction a as [|x a IH]; intros [|y c] E H; cbn in *; try lia; [reflexivity|].
  injection E as -> E. f_equal. apply IH; [exact E|lia].
Qed.

(* C06, the converse: a non-empty name that needs quotes, written bare in front of any text, is never scanned as the
   one identifier with that name followed by that text *)
Theorem bare_needs_quotes s rest : s <> [] -> ident_needs_quotes ulower s = true -> canon (s ++ rest) ->
  s_scan ulower (s ++ rest) <> ((IDENT, s), rest).
Proof.
  intros Hne Hq Hc E. destruct s as [|c s']; [congruence|]. cbn [app] in *.
  pose proof (canon_tail _ _ Hc) as H1.
  unfold s_scan in E. cbn [sread] in E.
  destruct (is_whitespace c); [unfold s_scan_whitespace in E; destruct (s_ws_loop _ _ _); discriminate E|].
  assert (Hid : forall c0, ucons c0 (s' ++ rest) = c0 :: s' ++ rest -> c0 = c -> (is_letter c || (c =? 95) = true \/ c = 34) ->
                s_scan_ident ulower true (c :: s' ++ rest) = ((IDENT, c :: s'), rest) -> False).
  { intros c0 _ _ Hfirst Es. destruct (scan_ident_ident _ _ _ Es Hc) as [Hlen|(u & Et & Hle & Heq)].
    - cbn [length] in Hlen. rewrite app_length in Hlen. lia.
    - assert (Hu : u = c :: s') by (symmetry; apply (app_same_len (c :: s') rest u rest); [exact Et|reflexivity]).
      subst u. destruct (Heq eq_refl) as (_ & Hu & Hk). unfold ident_needs_quotes in Hq. rewrite Hk in Hq.
      cbn [ident_chars_ok] in Hq. inversion Hu as [|? ? Hc1 Hs']; subst.
      assert (forallb is_ident_char s' = true) by (apply forallb_forall; rewrite Forall_forall in Hs'; exact Hs').
      rewrite H, andb_true_r in Hq. unfold is_ident_first_char in Hq.
      destruct Hfirst as [Hl| ->]; [rewrite Hl in Hq; discriminate Hq|]. cbn in Hc1. discriminate Hc1. }
  destruct (is_letter c || (c =? 95)) eqn:El.
  { assert (c <> 0) by (intros ->; discriminate El). rewrite (ucons_nz c _ H) in E. exact (Hid c (ucons_nz c _ H) eq_refl (or_introl eq_refl) E). }
  destruct (is_digit c); [exact (number_not_ident c _ (f_equal (fun x => fst (fst x)) E))|].
  destruct (c =? 0); [discriminate E|].
  destruct (Z.eqb_spec c 34) as [->|_].
  { rewrite (ucons_nz 34) in E by lia. exact (Hid 34 (ucons_nz 34 _ ltac:(lia)) eq_refl (or_intror eq_refl) E). }
  destruct (c =? 39).
  { unfold s_scan_string in E. destruct (s_ScanString _) as [[l err] tt]. destruct (err =? 1); [discriminate E|]. destruct (err =? 2); discriminate E. }
  destruct (sread (s' ++ rest)) as [ch1 t2].
  destruct (c =? 46); [destruct (is_digit ch1); [exact (number_not_ident 46 _ (f_equal (fun x => fst (fst x)) E))|discriminate E]|].
  destruct (c =? 36).
  { destruct (s_scan_ident ulower false (s' ++ rest)) as [[tok lit] t3]. destruct tok; discriminate E. }
  repeat match type of E with
         | context [let '(_, _) := ?x in _] => destruct x
         | context [if ?b then _ else _] => destruct b
         end; discriminate E.
Qed.
End B.
