From InfluxQL Require Import Base.Prelude Lex.Token Ast.Ast Ast.GroupBy.

Lemma index_ok {A} (l : list A) i : (i < length l)%nat -> exists x, index l i = Ok x.
Proof. intros H. unfold index. destruct (nth_error l i) eqn:E; [eexists; reflexivity|]. apply nth_error_None in E. lia. Qed.

Lemma gbi_no_crash ds : forall s, gbi_loop ds <> Crash s.
Proof.
  induction ds as [|d ds IH]; intros s; cbn [gbi_loop]; [discriminate|].
  destruct d; try apply IH. destruct (text_eqb name (ts "time")); [|apply IH].
  destruct ((length args <? 1)%nat || (2 <? length args)%nat) eqn:E; [discriminate|].
  apply orb_false_iff in E. destruct E as [E1 E2]. apply Nat.ltb_ge in E1.
  destruct (index_ok args 0 ltac:(lia)) as [x Hx]. rewrite Hx. cbn. destruct x; discriminate.
Qed.

Lemma gbo_no_crash interval ds : forall s, gbo_loop interval ds <> Crash s.
Proof.
  induction ds as [|d ds IH]; intros s; cbn [gbo_loop]; [discriminate|].
  destruct d; try apply IH. destruct (text_eqb name (ts "time")); [|apply IH].
  destruct (length args =? 2)%nat eqn:E; [|discriminate]. apply Nat.eqb_eq in E.
  destruct (index_ok args 1 ltac:(lia)) as [x Hx]. rewrite Hx. cbn. destruct x; try discriminate.
  destruct (interval =? 0); discriminate.
Qed.

Theorem group_by_interval_total q : forall s, group_by_interval q <> Crash s.
Proof. apply gbi_no_crash. Qed.

Theorem group_by_offset_total q : forall s, group_by_offset q <> Crash s.
Proof.
  intros s. unfold group_by_offset. pose proof (gbi_no_crash (s_dims q)) as H.
  destruct (group_by_interval q) eqn:E; cbn; try discriminate.
  - apply gbo_no_crash.
  - unfold group_by_interval in E. exfalso. apply (H site). exact E.
Qed.

Theorem normalize_total : forall ds dur tags s, normalize_loop ds dur tags <> Crash s.
Proof.
  induction ds as [|d ds IH]; intros dur tags s; cbn [normalize_loop]; [discriminate|].
  destruct d; try apply IH. destruct (0 <? length args)%nat eqn:E; [|apply IH]. apply Nat.ltb_lt in E.
  destruct (index_ok args 0 E) as [x Hx]. rewrite Hx. cbn. destruct x; apply IH.
Qed.
