(* C14: the clone is structurally identical to the original and allocates every mutable node afresh. *)
From InfluxQL Require Import Base.Prelude Lex.Token Ast.Ast Ast.Clone.

Definition within (n n' : Z) (ls : list loc) : Prop := Forall (fun l => n <= l < n') ls.

Lemma within_app n n' a b : within n n' a -> within n n' b -> within n n' (a ++ b).
Proof. unfold within. intros. apply Forall_app; split; assumption. Qed.
Lemma within_mono n n' m m' ls : within n n' ls -> m <= n -> n' <= m' -> within m m' ls.
Proof. unfold within. intros H H1 H2. eapply Forall_impl; [|exact H]. cbn. intros; lia. Qed.
Lemma within_cons n n' l ls : n <= l < n' -> within n n' ls -> within n n' (l :: ls).
Proof. unfold within. intros. constructor; assumption. Qed.
Lemma within_nil n n' : within n n' [].
Proof. constructor. Qed.

Definition spec_e (e : lexpr) : Prop := forall n,
  let '(e', n') := clone_lexpr e n in
  erase_lexpr e' = erase_lexpr e /\ n <= n' /\ within n n' (locs_lexpr e') /\ rx_lexpr e' = rx_lexpr e.

Lemma clone_lexpr_spec : forall e, spec_e e.
Proof.
  fix IH 1. intros e n. destruct e as [p op l r|p name pa args|p e0|p rx src|p pv vals|p e0]; cbn [clone_lexpr]; unfold bindM, ret, fresh.
  - pose proof (IH l n) as Hl. destruct (clone_lexpr l n) as [l' n1].
    pose proof (IH r n1) as Hr. destruct (clone_lexpr r n1) as [r' n2].
    destruct Hl as [El [Ll [Wl Rl]]]. destruct Hr as [Er [Lr [Wr Rr]]].
    cbn [erase_lexpr locs_lexpr rx_lexpr]. rewrite El, Er, Rl, Rr. split; [reflexivity|]. split; [lia|]. split; [|reflexivity].
    apply within_cons; [lia|]. apply within_app; eapply within_mono; eauto; lia.
  - (* Call: the inner loop over the arguments *)
    assert (Hargs : forall (l : list lexpr) m,
              let '(l', m') := (fix go (l : list lexpr) : M (list lexpr) :=
                                  match l with
                                  | [] => fun n0 => ([], n0)
                                  | x :: l' => fun n0 => let '(a, n'0) := clone_lexpr x n0 in
                                                         let '(a0, n'1) := go l' n'0 in (a :: a0, n'1)
                                  end) l m in
              map erase_lexpr l' = map erase_lexpr l /\ m <= m' /\ within m m' (flat_map locs_lexpr l')
              /\ flat_map rx_lexpr l' = flat_map rx_lexpr l).
    { induction l as [|x l IHl]; intros m.
      - cbn. repeat split; try lia; constructor.
      - pose proof (IH x m) as Hx. destruct (clone_lexpr x m) as [x' m1].
        specialize (IHl m1). destruct ((fix go (l0 : list lexpr) : M (list lexpr) := _) l m1) as [l' m2].
        destruct Hx as [Ex [Lx [Wx Rx]]]. destruct IHl as [El [Ll [Wl Rl]]].
        cbn [map flat_map]. rewrite Ex, El, Rx, Rl. split; [reflexivity|]. split; [lia|]. split; [|reflexivity].
        apply within_app; eapply within_mono; eauto; lia. }
    specialize (Hargs args (n + 1)).
    change (fun n0 : Z => (@nil lexpr, n0)) with (@ret (list lexpr) []) in Hargs.
    destruct ((fix go (l : list lexpr) : M (list lexpr) := _) args (n + 1)) as [args' n1].
    destruct Hargs as [Ea [La [Wa Ra]]].
    cbn [erase_lexpr locs_lexpr rx_lexpr]. rewrite Ea, Ra. split; [reflexivity|]. split; [lia|]. split; [|reflexivity].
    apply within_cons; [lia|]. apply within_cons; [lia|]. eapply within_mono; eauto; lia.
  - pose proof (IH e0 n) as He. destruct (clone_lexpr e0 n) as [e' n1]. destruct He as [E [L [W R]]].
    cbn [erase_lexpr locs_lexpr rx_lexpr]. rewrite E, R. split; [reflexivity|]. split; [lia|]. split; [|reflexivity].
    apply within_cons; [lia|]. eapply within_mono; eauto; lia.
  - cbn. split; [reflexivity|]. split; [lia|]. split; [|reflexivity]. apply within_cons; [lia|apply within_nil].
  - cbn. split; [reflexivity|]. split; [lia|]. split; [|reflexivity].
    apply within_cons; [lia|]. apply within_cons; [lia|apply within_nil].
  - cbn. split; [reflexivity|]. split; [lia|]. split; [|reflexivity]. apply within_cons; [lia|apply within_nil].
Qed.

(* mapM of a cloning function that obeys its spec *)
Lemma mapM_spec {A B} (f : A -> M A) (er : A -> B) (lc : A -> list loc) :
  (forall x n, let '(x', n') := f x n in er x' = er x /\ n <= n' /\ within n n' (lc x')) ->
  forall l n, let '(l', n') := mapM f l n in map er l' = map er l /\ n <= n' /\ within n n' (flat_map lc l').
Proof.
  intros Hf. induction l as [|x l IH]; intros n; cbn [mapM]; unfold bindM, ret.
  - cbn. repeat split; try lia; constructor.
  - pose proof (Hf x n) as Hx. destruct (f x n) as [x' n1]. specialize (IH n1). destruct (mapM f l n1) as [l' n2].
    destruct Hx as [Ex [Lx Wx]]. destruct IH as [El [Ll Wl]]. cbn [map flat_map]. rewrite Ex, El.
    split; [reflexivity|]. split; [lia|]. apply within_app; eapply within_mono; eauto; lia.
Qed.

Definition locs_target (t : loc * lmeasurement) : list loc := fst t :: locs_lmeasurement (snd t).
Lemma clone_lmeasurement_spec m n :
  let '(m', n') := clone_lmeasurement m n in
  erase_lmeasurement m' = erase_lmeasurement m /\ n <= n' /\ within n n' (locs_lmeasurement m').
Proof.
  unfold clone_lmeasurement, bindM, ret, fresh. destruct m as [p db rp nm re it si]. cbn [lm_regex lm_db lm_rp lm_name lm_istarget lm_sysiter].
  destruct re as [[[pr rx] src]|]; cbn; (split; [reflexivity|]); (split; [lia|]);
    unfold within, locs_target, locs_lmeasurement; cbn; repeat constructor; lia.
Qed.

Lemma clone_target_spec t n :
  let '(t', n') := clone_target t n in
  erase_lmeasurement (snd t') = erase_lmeasurement (snd t) /\ n <= n' /\ within n n' (locs_target t').
Proof.
  unfold clone_target, bindM, ret, fresh. destruct t as [pt [p db rp nm re it si]]. cbn [snd lm_regex lm_db lm_rp lm_name lm_istarget lm_sysiter].
  destruct re as [[[pr rx] src]|]; cbn; (split; [reflexivity|]); (split; [lia|]);
    unfold within, locs_target, locs_lmeasurement; cbn; repeat constructor; lia.
Qed.

Definition er_field (f : lfield) : field := mkField (erase_lexpr (lf_expr f)) (lf_alias f).
Definition lc_field (f : lfield) : list loc := lf_p f :: locs_lexpr (lf_expr f).
Lemma clone_lfield_spec f n :
  let '(f', n') := clone_lfield f n in er_field f' = er_field f /\ n <= n' /\ within n n' (lc_field f').
Proof.
  unfold clone_lfield, bindM, ret, fresh. pose proof (clone_lexpr_spec (lf_expr f) n) as H.
  destruct (clone_lexpr (lf_expr f) n) as [e' n1]. destruct H as [E [L [W _]]]. unfold er_field, lc_field. cbn. rewrite E.
  split; [reflexivity|]. split; [lia|]. apply within_cons; [lia|]. eapply within_mono; eauto; lia.
Qed.
Definition er_dim (d : ldim) : expr := erase_lexpr (ld_expr d).
Definition lc_dim (d : ldim) : list loc := ld_p d :: locs_lexpr (ld_expr d).
Lemma clone_ldim_spec d n :
  let '(d', n') := clone_ldim d n in er_dim d' = er_dim d /\ n <= n' /\ within n n' (lc_dim d').
Proof.
  unfold clone_ldim, bindM, ret, fresh. pose proof (clone_lexpr_spec (ld_expr d) n) as H.
  destruct (clone_lexpr (ld_expr d) n) as [e' n1]. destruct H as [E [L [W _]]]. unfold er_dim, lc_dim. cbn. rewrite E.
  split; [reflexivity|]. split; [lia|]. apply within_cons; [lia|]. eapply within_mono; eauto; lia.
Qed.
Definition er_sort (s : lsort) : sortfield := mkSortField (lso_name s) (lso_asc s).
Definition lc_sort (s : lsort) : list loc := [lso_p s].
Lemma clone_lsort_spec s n :
  let '(s', n') := clone_lsort s n in er_sort s' = er_sort s /\ n <= n' /\ within n n' (lc_sort s').
Proof. unfold clone_lsort, bindM, ret, fresh. cbn. split; [reflexivity|]. split; [lia|]. unfold within, lc_sort; cbn; repeat constructor; lia. Qed.

Lemma clone_cond_spec c n :
  let '(c', n') := clone_ocond c n in
  match c' with Some x => Some (erase_lexpr x) | None => None end = match c with Some x => Some (erase_lexpr x) | None => None end
  /\ n <= n' /\ within n n' (locs_opt locs_lexpr c').
Proof.
  destruct c as [x|]; unfold clone_ocond, bindM, ret.
  - pose proof (clone_lexpr_spec x n) as H. destruct (clone_lexpr x n) as [x' n1]. destruct H as [E [L [W _]]].
    cbn. rewrite E. repeat split; try lia; assumption.
  - cbn. repeat split; try lia; apply within_nil.
Qed.

Lemma clone_tgt_spec t n :
  let '(t', n') := clone_otarget t n in
  match t' with Some (_, m) => Some (erase_lmeasurement m) | None => None end = match t with Some (_, m) => Some (erase_lmeasurement m) | None => None end
  /\ n <= n' /\ within n n' (locs_opt (fun t => fst t :: locs_lmeasurement (snd t)) t').
Proof.
  destruct t as [x|]; unfold clone_otarget, bindM, ret.
  - pose proof (clone_target_spec x n) as H. destruct (clone_target x n) as [x' n1]. destruct H as [E [L W]].
    destruct x' as [pt m'], x as [pt0 m0]. cbn in *. rewrite E. repeat split; try lia; assumption.
  - cbn. repeat split; try lia; apply within_nil.
Qed.

Definition spec_s (s : lsource) : Prop := forall n,
  let '(s', n') := clone_lsource s n in
  erase_lsource s' = erase_lsource s /\ n <= n' /\ within n n' (locs_lsource s').

Lemma map_er_field l : map (fun f => mkField (erase_lexpr (lf_expr f)) (lf_alias f)) l = map er_field l.
Proof. reflexivity. Qed.

Lemma clone_lsource_spec : forall s, spec_s s.
Proof.
  fix IH 1. intros s n. destruct s as [m|p q]; cbn [clone_lsource]; unfold bindM, ret, fresh.
  - pose proof (clone_lmeasurement_spec m n) as H. destruct (clone_lmeasurement m n) as [m' n1]. destruct H as [E [L W]].
    cbn. rewrite E. repeat split; try lia; assumption.
  - assert (Hsrcs : forall (l : list lsource) m,
              let '(l', m') := (fix go (l : list lsource) : M (list lsource) :=
                                  match l with
                                  | [] => fun n0 => ([], n0)
                                  | x :: l' => fun n0 => let '(a, n'0) := clone_lsource x n0 in
                                                         let '(a0, n'1) := go l' n'0 in (a :: a0, n'1)
                                  end) l m in
              map erase_lsource l' = map erase_lsource l /\ m <= m' /\ within m m' (flat_map locs_lsource l')).
    { induction l as [|x l IHl]; intros m.
      - cbn. repeat split; try lia; constructor.
      - pose proof (IH x m) as Hx. destruct (clone_lsource x m) as [x' m1].
        specialize (IHl m1). destruct ((fix go (l0 : list lsource) : M (list lsource) := _) l m1) as [l' m2].
        destruct Hx as [Ex [Lx Wx]]. destruct IHl as [El [Ll Wl]].
        cbn [map flat_map]. rewrite Ex, El. split; [reflexivity|]. split; [lia|].
        apply within_app; eapply within_mono; eauto; lia. }
    specialize (Hsrcs (ls_sources q) (n + 1 + 1 + 1)).
    change (fun n0 : Z => (@nil lsource, n0)) with (@ret (list lsource) []) in Hsrcs.
    destruct ((fix go (l : list lsource) : M (list lsource) := _) (ls_sources q) (n + 1 + 1 + 1)) as [srcs n1].
    destruct Hsrcs as [Es [Ls Ws]].
    pose proof (clone_cond_spec (ls_cond q) (n1 + 1)) as Hc.
    destruct (clone_ocond (ls_cond q) (n1 + 1)) as [cond n2]. destruct Hc as [Ec [Lc Wc]].
    pose proof (clone_tgt_spec (ls_target q) n2) as Ht.
    destruct (clone_otarget (ls_target q) n2) as [tgt n3]. destruct Ht as [Et [Lt Wt]].
    pose proof (mapM_spec clone_lfield er_field lc_field clone_lfield_spec (ls_fields q) n3) as Hf.
    destruct (mapM clone_lfield (ls_fields q) n3) as [fs n4]. destruct Hf as [Ef [Lf Wf]].
    pose proof (mapM_spec clone_ldim er_dim lc_dim clone_ldim_spec (ls_dims q) n4) as Hd.
    destruct (mapM clone_ldim (ls_dims q) n4) as [ds n5]. destruct Hd as [Ed [Ld Wd]].
    pose proof (mapM_spec clone_lsort er_sort lc_sort clone_lsort_spec (ls_sort q) n5) as Hso.
    destruct (mapM clone_lsort (ls_sort q) n5) as [so n6]. destruct Hso as [Eso [Lso Wso]].
    cbn [erase_lsource locs_lsource ls_p ls_pfields ls_fields ls_target ls_pdims ls_dims ls_psources ls_sources ls_cond ls_psort ls_sort ls_scalars].
    split.
    + f_equal. f_equal; try reflexivity.
      * exact Ef.
      * exact Et.
      * exact Ed.
      * exact Es.
      * exact Ec.
      * exact Eso.
    + split; [lia|].
      repeat (apply within_cons; [lia|]).
      repeat apply within_app.
      * eapply within_mono; [exact Wf|lia|lia].
      * eapply within_mono; [exact Wt|lia|lia].
      * eapply within_mono; [exact Wd|lia|lia].
      * eapply within_mono; [exact Ws|lia|lia].
      * eapply within_mono; [exact Wc|lia|lia].
      * assert (Hm : map lso_p so = flat_map lc_sort so) by (clear; induction so; cbn; [reflexivity|f_equal; assumption]).
        rewrite Hm. eapply within_mono; [exact Wso|lia|lia].
Qed.

Lemma erase_lselect_eq q :
  erase_lselect q =
  let sc := ls_scalars q in
  mkSelect (map er_field (ls_fields q))
    (match ls_target q with Some (_, m) => Some (erase_lmeasurement m) | None => None end)
    (map er_dim (ls_dims q)) (map erase_lsource (ls_sources q))
    (match ls_cond q with Some c => Some (erase_lexpr c) | None => None end)
    (map er_sort (ls_sort q))
    (s_limit sc) (s_offset sc) (s_slimit sc) (s_soffset sc) (s_israw sc) (s_fill sc) (s_fillvalue sc)
    (s_loc sc) (s_timealias sc) (s_omittime sc) (s_stripname sc) (s_emitname sc) (s_dedupe sc).
Proof. reflexivity. Qed.

Lemma locs_lselect_eq q :
  locs_lselect q =
  ls_p q :: ls_pfields q :: ls_pdims q :: ls_psources q :: ls_psort q
  :: flat_map lc_field (ls_fields q)
  ++ locs_opt (fun t => fst t :: locs_lmeasurement (snd t)) (ls_target q)
  ++ flat_map lc_dim (ls_dims q)
  ++ flat_map locs_lsource (ls_sources q)
  ++ locs_opt locs_lexpr (ls_cond q)
  ++ map lso_p (ls_sort q).
Proof. reflexivity. Qed.

(* SelectStatement.Clone: structurally identical, and every mutable location of the result was allocated by the call *)
Theorem clone_lselect_spec q n :
  let '(q', n') := clone_lselect q n in
  erase_lselect q' = erase_lselect q /\ n <= n' /\ within n n' (locs_lselect q').
Proof.
  unfold clone_lselect, bindM, ret, fresh.
  pose proof (mapM_spec clone_lsource erase_lsource locs_lsource clone_lsource_spec (ls_sources q) (n + 1 + 1 + 1)) as Hs.
  destruct (mapM clone_lsource (ls_sources q) (n + 1 + 1 + 1)) as [srcs n1]. destruct Hs as [Es [Ls Ws]].
  pose proof (clone_cond_spec (ls_cond q) (n1 + 1)) as Hc.
  destruct (clone_ocond (ls_cond q) (n1 + 1)) as [cond n2]. destruct Hc as [Ec [Lc Wc]].
  pose proof (clone_tgt_spec (ls_target q) n2) as Ht.
  destruct (clone_otarget (ls_target q) n2) as [tgt n3]. destruct Ht as [Et [Lt Wt]].
  pose proof (mapM_spec clone_lfield er_field lc_field clone_lfield_spec (ls_fields q) n3) as Hf.
  destruct (mapM clone_lfield (ls_fields q) n3) as [fs n4]. destruct Hf as [Ef [Lf Wf]].
  pose proof (mapM_spec clone_ldim er_dim lc_dim clone_ldim_spec (ls_dims q) n4) as Hd.
  destruct (mapM clone_ldim (ls_dims q) n4) as [ds n5]. destruct Hd as [Ed [Ld Wd]].
  pose proof (mapM_spec clone_lsort er_sort lc_sort clone_lsort_spec (ls_sort q) n5) as Hso.
  destruct (mapM clone_lsort (ls_sort q) n5) as [so n6]. destruct Hso as [Eso [Lso Wso]].
  rewrite !erase_lselect_eq, locs_lselect_eq.
  cbn [ls_p ls_pfields ls_fields ls_target ls_pdims ls_dims ls_psources ls_sources ls_cond ls_psort ls_sort ls_scalars].
  split.
  - rewrite Ef, Et, Ed, Es, Ec, Eso. reflexivity.
  - split; [lia|].
    repeat (apply within_cons; [lia|]).
    repeat apply within_app.
    + eapply within_mono; [exact Wf|lia|lia].
    + eapply within_mono; [exact Wt|lia|lia].
    + eapply within_mono; [exact Wd|lia|lia].
    + eapply within_mono; [exact Ws|lia|lia].
    + eapply within_mono; [exact Wc|lia|lia].
    + assert (Hm : map lso_p so = flat_map lc_sort so) by (clear; induction so; cbn; [reflexivity|f_equal; assumption]).
      rewrite Hm. eapply within_mono; [exact Wso|lia|lia].
Qed.

Definition below (n : Z) (ls : list loc) : Prop := Forall (fun l => l < n) ls.

(* no mutable node is shared: if the original lives below the allocation pointer, clone and original are disjoint *)
Theorem clone_lselect_disjoint q n :
  below n (locs_lselect q) ->
  forall l, In l (locs_lselect (fst (clone_lselect q n))) -> ~ In l (locs_lselect q).
Proof.
  intros Hb l Hin Hin'. pose proof (clone_lselect_spec q n) as H. destruct (clone_lselect q n) as [q' n'].
  destruct H as [_ [_ W]]. cbn [fst] in Hin. unfold within, below in *. rewrite Forall_forall in *.
  specialize (W l Hin). specialize (Hb l Hin'). lia.
Qed.

Theorem clone_lexpr_disjoint e n :
  below n (locs_lexpr e) -> forall l, In l (locs_lexpr (fst (clone_lexpr e n))) -> ~ In l (locs_lexpr e).
Proof.
  intros Hb l Hin Hin'. pose proof (clone_lexpr_spec e n) as H. destruct (clone_lexpr e n) as [e' n'].
  destruct H as [_ [_ [W _]]]. cbn [fst] in Hin. unfold within, below in *. rewrite Forall_forall in *.
  specialize (W l Hin). specialize (Hb l Hin'). lia.
Qed.

(* ---- memory: what "a later change to one side is invisible to the other" means ---- *)
(* a generic object graph: each located node with its own fields (payload) and its children *)
Inductive obj : Type := Obj (p : loc) (payload : list Z) (kids : list obj).
Fixpoint obj_locs (o : obj) : list loc := match o with Obj p _ kids => p :: flat_map obj_locs kids end.
Definition obj_loc (o : obj) : loc := match o with Obj p _ _ => p end.
Definition cell : Type := (list Z * list loc)%type.          (* fields, addresses of the children *)
Definition mem := loc -> option cell.

(* memory [m] holds the object graph [o] *)
Fixpoint holds_obj (m : mem) (o : obj) : Prop :=
  match o with
  | Obj p payload kids =>
      m p = Some (payload, map obj_loc kids) /\
      (fix all (l : list obj) : Prop := match l with [] => True | k :: l' => holds_obj m k /\ all l' end) kids
  end.

Definition write : Type := (loc * cell)%type.
Definition apply_write (m : mem) (w : write) : mem := fun l => if l =? fst w then Some (snd w) else m l.
Definition apply_writes (m : mem) (ws : list write) : mem := fold_left apply_write ws m.

Lemma holds_frame : forall o m m', (forall l, In l (obj_locs o) -> m' l = m l) -> holds_obj m o -> holds_obj m' o.
Proof.
  fix IH 1. intros [p payload kids] m m' Hag [Hp Hk]. cbn [holds_obj]. split.
  - rewrite Hag; [exact Hp|left; reflexivity].
  - assert (Hag' : forall l, In l (flat_map obj_locs kids) -> m' l = m l) by (intros l Hl; apply Hag; right; exact Hl).
    clear Hp Hag. induction kids as [|k kids IHk]; [exact I|]. destruct Hk as [Hk1 Hk2]. split.
    + apply (IH k m m'); [|exact Hk1]. intros l Hl. apply Hag'. cbn [flat_map]. apply in_or_app. left. exact Hl.
    + apply IHk; [exact Hk2|]. intros l Hl. apply Hag'. cbn [flat_map]. apply in_or_app. right. exact Hl.
Qed.

(* ANY finite sequence of writes that stays off the locations of an object graph leaves it exactly as it was:
   with the disjointness theorem, whatever is done to or through the clone is invisible to the original, and
   symmetrically *)
Theorem writes_elsewhere_invisible o : forall ws m,
  (forall w, In w ws -> ~ In (fst w) (obj_locs o)) -> holds_obj m o -> holds_obj (apply_writes m ws) o.
Proof.
  induction ws as [|w ws IH]; intros m Hw Hm; [exact Hm|]. cbn [apply_writes fold_left]. apply IH.
  - intros w' Hin. apply Hw. right. exact Hin.
  - apply (holds_frame o m); [|exact Hm]. intros l Hl. unfold apply_write.
    destruct (Z.eqb_spec l (fst w)) as [->|]; [|reflexivity]. exfalso. apply (Hw w); [left; reflexivity|exact Hl].
Qed.
