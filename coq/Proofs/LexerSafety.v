(* C04: the lexer never faults the 3-slot rune ring.  [rb b r]: no fault so far, ring index in range, at most b runes
   pushed back.  Every scanning function keeps the count at two or below inside and at one or below on return. *)
From InfluxQL Require Import Base.Prelude Lex.Token Lex.Reader Lex.Scanner.

Definition rb (b : Z) (r : reader) : Prop := r_bad r = false /\ 0 <= r_i r <= 2 /\ 0 <= r_n r <= b.

Lemma rb_mono b b' r : rb b r -> b <= b' -> rb b' r.
Proof. unfold rb. intros (H1 & H2 & H3) Hb. repeat split; try assumption; lia. Qed.

Lemma rb_nonneg b r : rb b r -> 0 <= b.
Proof. unfold rb. lia. Qed.

Lemma rb_unread b r : rb b r -> rb (b + 1) (unread r).
Proof. unfold rb, unread, set_n. cbn. intros (H1 & H2 & H3). repeat split; try assumption; lia. Qed.

Lemma rb_set_oof b r : rb b r -> rb b (set_oof r).
Proof. unfold rb, set_oof. cbn. tauto. Qed.

Lemma rem3_range x : 0 <= x -> 0 <= Z.rem x 3 <= 2.
Proof. intros H. pose proof (Z.rem_bound_pos x 3 H ltac:(lia)). lia. Qed.

Lemma rb_check b r : rb b r -> b <= 3 -> rb b (set_bad r (r_bad r || curr_panics r)).
Proof.
  unfold rb, set_bad, curr_panics, curr_index. cbn. intros (H1 & H2 & H3) Hb. repeat split; try assumption; try lia.
  rewrite H1. cbn. destruct (Z.ltb_spec (Z.rem (r_i r - r_n r + 3) 3) 0) as [Hlt|]; [|reflexivity].
  pose proof (rem3_range (r_i r - r_n r + 3) ltac:(lia)). lia.
Qed.

Lemma rb_read b r : rb b r -> b <= 4 -> rb (Z.max (b - 1) 0) (snd (read r)).
Proof.
  unfold rb, read. intros (H1 & H2 & H3) Hb. cbn [set_maxn r_n r_i r_bad r_src r_pos r_b0 r_b1 r_b2 r_eof r_oof r_maxn].
  destruct (Z.ltb_spec 0 (r_n r)) as [Hpos|Hz].
  - cbn. unfold curr_panics, curr_index. cbn. rewrite H1. cbn.
    destruct (Z.ltb_spec (Z.rem (r_i r - (r_n r - 1) + 3) 3) 0) as [Hlt|].
    + pose proof (rem3_range (r_i r - (r_n r - 1) + 3) ltac:(lia)). lia.
    + repeat split; try assumption; lia.
  - destruct (raw_read (r_src r)) as [ch src']. cbn.
    pose proof (rem3_range (r_i r + 1) ltac:(lia)). repeat split; try assumption; lia.
Qed.

(* the shape every use takes: destructure the read, get the bound for the reader it returns *)
Lemma rb_read' b r ch p r1 : read r = ((ch, p), r1) -> rb b r -> b <= 4 -> rb (Z.max (b - 1) 0) r1.
Proof. intros E H Hb. pose proof (rb_read b r H Hb) as Hr. rewrite E in Hr. exact Hr. Qed.

Section Lex.
Variable ulower : Z -> Z.

(* loops that only read *)
Lemma rb_scan_string_loop fuel : forall ending r acc b, rb b r -> b <= 4 -> rb b (snd (scan_string_loop fuel ending r acc)).
Proof.
  induction fuel as [|f IH]; intros ending r acc b Hr Hb; cbn [scan_string_loop]; [apply rb_set_oof; exact Hr|]. pose proof (rb_nonneg _ _ Hr) as Hb0.
  destruct (read r) as [[ch0 p0] r1] eqn:E1. pose proof (rb_read' _ _ _ _ _ E1 Hr Hb) as H1.
  assert (H1' : rb b r1) by (eapply rb_mono; [exact H1|lia]).
  destruct (ch0 =? ending); [exact H1'|]. destruct ((ch0 =? 0) || (ch0 =? 10)); [exact H1'|].
  destruct (ch0 =? 92); [|apply IH; assumption].
  destruct (read r1) as [[ch1 p1] r2] eqn:E2. pose proof (rb_read' _ _ _ _ _ E2 H1' Hb) as H2.
  assert (H2' : rb b r2) by (eapply rb_mono; [exact H2|lia]).
  repeat match goal with |- context [if ?c then _ else _] => destruct c end; try (apply IH; assumption); exact H2'.
Qed.

Lemma rb_ScanString r b : rb b r -> b <= 4 -> rb (Z.max (b - 1) 0) (snd (ScanString r)).
Proof.
  intros Hr Hb. unfold ScanString. destruct (read r) as [[e p] r1] eqn:E1. pose proof (rb_read' _ _ _ _ _ E1 Hr Hb) as H1.
  destruct (e =? 0); [exact H1|]. apply rb_scan_string_loop; [exact H1|lia].
Qed.

Lemma rb_scan_string r : rb 2 r -> rb 2 (snd (scan_string r)).
Proof.
  intros Hr. unfold scan_string.
  assert (H1 : rb 3 (set_bad (unread r) (r_bad (unread r) || curr_panics (unread r)))) by (apply rb_check; [apply (rb_unread 2); exact Hr|lia]).
  pose proof (rb_ScanString _ 3 H1 ltac:(lia)) as H2. cbn in H2.
  destruct (ScanString _) as [[lit err] r2]. cbn [snd] in H2.
  destruct (err =? 1); [exact H2|]. destruct (err =? 2); [|exact H2]. cbn [snd]. apply rb_check; [exact H2|lia].
Qed.

(* loops that end by pushing one rune back: at most max(b, 1) afterwards *)
Definition out1 (b : Z) : Z := Z.max b 1.

Lemma rb_scan_bare_ident fuel : forall r acc b, rb b r -> b <= 3 -> rb (out1 b) (snd (scan_bare_ident fuel r acc)).
Proof.
  unfold out1. induction fuel as [|f IH]; intros r acc b Hr Hb; pose proof (rb_nonneg _ _ Hr) as Hb0; cbn [scan_bare_ident]; [apply rb_set_oof; eapply rb_mono; [exact Hr|lia]|].
  destruct (read r) as [[ch p] r1] eqn:E1. pose proof (rb_read' _ _ _ _ _ E1 Hr ltac:(lia)) as H1.
  destruct (ch =? 0); [eapply rb_mono; [exact H1|lia]|].
  destruct (negb (is_ident_char ch)); [eapply rb_mono; [apply rb_unread; exact H1|lia]|].
  eapply rb_mono; [apply (IH r1 _ (Z.max (b - 1) 0)); [exact H1|lia]|lia].
Qed.

Lemma rb_scan_ws_loop fuel : forall r acc b, rb b r -> b <= 3 -> rb (out1 b) (snd (scan_ws_loop fuel r acc)).
Proof.
  unfold out1. induction fuel as [|f IH]; intros r acc b Hr Hb; pose proof (rb_nonneg _ _ Hr) as Hb0; cbn [scan_ws_loop]; [apply rb_set_oof; eapply rb_mono; [exact Hr|lia]|].
  destruct (read r) as [[ch p] r1] eqn:E1. pose proof (rb_read' _ _ _ _ _ E1 Hr ltac:(lia)) as H1.
  destruct (ch =? 0); [eapply rb_mono; [exact H1|lia]|].
  destruct (negb (is_whitespace ch)); [eapply rb_mono; [apply rb_unread; exact H1|lia]|].
  eapply rb_mono; [apply (IH r1 _ (Z.max (b - 1) 0)); [exact H1|lia]|lia].
Qed.

Lemma rb_scan_digits fuel : forall r acc b, rb b r -> b <= 3 -> rb (out1 b) (snd (scan_digits fuel r acc)).
Proof.
  unfold out1. induction fuel as [|f IH]; intros r acc b Hr Hb; pose proof (rb_nonneg _ _ Hr) as Hb0; cbn [scan_digits]; [apply rb_set_oof; eapply rb_mono; [exact Hr|lia]|].
  destruct (read r) as [[ch p] r1] eqn:E1. pose proof (rb_read' _ _ _ _ _ E1 Hr ltac:(lia)) as H1.
  destruct (negb (is_digit ch)); [eapply rb_mono; [apply rb_unread; exact H1|lia]|].
  eapply rb_mono; [apply (IH r1 _ (Z.max (b - 1) 0)); [exact H1|lia]|lia].
Qed.

Lemma rb_scan_dur_letters fuel : forall r acc b, rb b r -> b <= 3 -> rb (out1 b) (snd (scan_dur_letters fuel r acc)).
Proof.
  unfold out1. induction fuel as [|f IH]; intros r acc b Hr Hb; pose proof (rb_nonneg _ _ Hr) as Hb0; cbn [scan_dur_letters]; [apply rb_set_oof; eapply rb_mono; [exact Hr|lia]|].
  destruct (read r) as [[ch p] r1] eqn:E1. pose proof (rb_read' _ _ _ _ _ E1 Hr ltac:(lia)) as H1.
  destruct (negb (is_dur_letter ch)); [eapply rb_mono; [apply rb_unread; exact H1|lia]|].
  eapply rb_mono; [apply (IH r1 _ (Z.max (b - 1) 0)); [exact H1|lia]|lia].
Qed.

Lemma rb_scan_dur_rest fuel : forall r acc b, rb b r -> b <= 3 -> rb (out1 b) (snd (scan_dur_rest fuel r acc)).
Proof.
  unfold out1. induction fuel as [|f IH]; intros r acc b Hr Hb; pose proof (rb_nonneg _ _ Hr) as Hb0; cbn [scan_dur_rest]; [apply rb_set_oof; eapply rb_mono; [exact Hr|lia]|].
  destruct (read r) as [[ch p] r1] eqn:E1. pose proof (rb_read' _ _ _ _ _ E1 Hr ltac:(lia)) as H1.
  destruct (is_dur_letter ch || is_digit ch); [|eapply rb_mono; [apply rb_unread; exact H1|lia]].
  eapply rb_mono; [apply (IH r1 _ (Z.max (b - 1) 0)); [exact H1|lia]|lia].
Qed.

Lemma rb_scan_ident_loop fuel : forall pos r acc, rb 2 r -> rb 2 (snd (scan_ident_loop fuel pos r acc)).
Proof.
  induction fuel as [|f IH]; intros pos r acc Hr; cbn [scan_ident_loop]; [apply rb_set_oof; exact Hr|].
  destruct (read r) as [[ch p] r1] eqn:E1. pose proof (rb_read' _ _ _ _ _ E1 Hr ltac:(lia)) as H1. cbn in H1.
  destruct (ch =? 0); [eapply rb_mono; [exact H1|lia]|].
  destruct (ch =? 34).
  - pose proof (rb_scan_string r1 (rb_mono _ 2 _ H1 ltac:(lia))) as H2.
    destruct (scan_string r1) as [[[tok0 pos0'] lit0] r2]. cbn [snd] in H2. destruct tok0; exact H2.
  - destruct (is_ident_char ch); [|exact (rb_unread _ _ H1)].
    pose proof (rb_scan_bare_ident (read_fuel r1) (unread r1) [] 2 (rb_unread _ _ H1) ltac:(lia)) as H2. unfold out1 in H2. cbn in H2.
    destruct (scan_bare_ident (read_fuel r1) (unread r1) []) as [s0 r2]. cbn [snd] in H2. apply IH. exact H2.
Qed.

Lemma rb_scan_ident kw r : rb 2 r -> rb 2 (snd (scan_ident ulower kw r)).
Proof.
  intros Hr. unfold scan_ident. destruct (read r) as [[c pos] r1] eqn:E1.
  pose proof (rb_read' _ _ _ _ _ E1 Hr ltac:(lia)) as H1. cbn in H1.
  pose proof (rb_scan_ident_loop (read_fuel (unread r1)) pos (unread r1) [] (rb_unread _ _ H1)) as H2.
  destruct (scan_ident_loop (read_fuel (unread r1)) pos (unread r1) []) as [[early lit] r2]. cbn [snd] in H2.
  destruct early as [tr|]; [exact H2|]. destruct kw; [|exact H2]. destruct (lookup ulower lit); exact H2.
Qed.

Lemma rb_scan_whitespace r : rb 2 r -> rb 2 (snd (scan_whitespace r)).
Proof.
  intros Hr. unfold scan_whitespace. destruct (curr r) as [ch pos].
  pose proof (rb_check 2 r Hr ltac:(lia)) as H1.
  pose proof (rb_scan_ws_loop (read_fuel (set_bad r (r_bad r || curr_panics r))) _ [ch] 2 H1 ltac:(lia)) as H2. unfold out1 in H2. cbn in H2.
  destruct (scan_ws_loop _ _ _) as [lit r1]. exact H2.
Qed.

Lemma rb_scan_number r : rb 1 r -> rb 2 (snd (scan_number r)).
Proof.
  intros Hr. unfold scan_number. destruct (curr r) as [ch pos].
  pose proof (rb_check 1 r Hr ltac:(lia)) as H0. set (r0 := set_bad r (r_bad r || curr_panics r)) in *.
  assert (Hgo : forall rr, rb 2 rr ->
    rb 2 (snd (let '(d1, r1) := scan_digits (read_fuel rr) rr [] in
               let '((ch0, _), r2) := read r1 in
               let '(is_decimal, buf, r3) :=
                 if ch0 =? 46 then
                   let '((ch1, _), r3) := read r2 in
                   if is_digit ch1 then
                     let '(d2, r4) := scan_digits (read_fuel r3) r3 [] in (true, d1 ++ [ch0; ch1] ++ d2, r4)
                   else (true, d1, unread r3)
                 else (false, d1, unread r2) in
               if negb is_decimal then
                 let '((c0, _), r4) := read r3 in
                 if is_dur_letter c0 then
                   let '(acc1, r5) := scan_dur_letters (read_fuel r4) r4 [c0] in
                   let '(acc2, r6) := scan_dur_rest (read_fuel r5) r5 acc1 in
                   ((DURATIONVAL, pos, buf ++ rev acc2), r6)
                 else ((INTEGER, pos, buf), unread r4)
               else ((NUMBER, pos, buf), r3)))).
  { intros rr Hrr.
    pose proof (rb_scan_digits (read_fuel rr) rr [] 2 Hrr ltac:(lia)) as Hd. unfold out1 in Hd. cbn in Hd.
    destruct (scan_digits (read_fuel rr) rr []) as [d1 r1]. cbn [snd] in Hd.
    destruct (read r1) as [[ch0 p0] r2] eqn:E2. pose proof (rb_read' _ _ _ _ _ E2 Hd ltac:(lia)) as H2. cbn in H2.
    destruct (ch0 =? 46).
    - destruct (read r2) as [[ch1 p1] r3] eqn:E3. pose proof (rb_read' _ _ _ _ _ E3 H2 ltac:(lia)) as H3. cbn in H3.
      destruct (is_digit ch1).
      + pose proof (rb_scan_digits (read_fuel r3) r3 [] 0 H3 ltac:(lia)) as Hd2. unfold out1 in Hd2. cbn in Hd2.
        destruct (scan_digits (read_fuel r3) r3 []) as [d2 r4]. cbn [snd negb] in *. eapply rb_mono; [exact Hd2|lia].
      + cbn [negb snd]. eapply rb_mono; [exact (rb_unread _ _ H3)|lia].
    - cbn [negb]. pose proof (rb_unread _ _ H2) as H3. cbn in H3.
      destruct (read (unread r2)) as [[c0 pc] r4] eqn:E4. pose proof (rb_read' _ _ _ _ _ E4 H3 ltac:(lia)) as H4. cbn in H4.
      destruct (is_dur_letter c0).
      + pose proof (rb_scan_dur_letters (read_fuel r4) r4 [c0] 1 H4 ltac:(lia)) as H5. unfold out1 in H5. cbn in H5.
        destruct (scan_dur_letters (read_fuel r4) r4 [c0]) as [acc1 r5]. cbn [snd] in H5.
        pose proof (rb_scan_dur_rest (read_fuel r5) r5 acc1 1 H5 ltac:(lia)) as H6. unfold out1 in H6. cbn in H6.
        destruct (scan_dur_rest (read_fuel r5) r5 acc1) as [acc2 r6]. eapply rb_mono; [exact H6|lia].
      + cbn [snd]. exact (rb_unread _ _ H4). }
  destruct (ch =? 46).
  - destruct (read r0) as [[ch1 p1] r1] eqn:E1. pose proof (rb_read' _ _ _ _ _ E1 H0 ltac:(lia)) as H1. cbn in H1.
    destruct (negb (is_digit ch1)); [eapply rb_mono; [exact (rb_unread _ _ H1)|lia]|].
    apply Hgo. exact (rb_unread _ _ (rb_unread _ _ H1)).
  - apply Hgo. exact (rb_unread _ _ H0).
Qed.

Lemma rb_skip_until_newline fuel : forall r, rb 2 r -> rb 2 (skip_until_newline fuel r).
Proof.
  induction fuel as [|f IH]; intros r Hr; cbn [skip_until_newline]; [apply rb_set_oof; exact Hr|].
  destruct (read r) as [[ch p] r1] eqn:E1. pose proof (rb_read' _ _ _ _ _ E1 Hr ltac:(lia)) as H1. cbn in H1.
  assert (H1' : rb 2 r1) by (eapply rb_mono; [exact H1|lia]).
  destruct ((ch =? 10) || (ch =? 0)); [exact H1'|apply IH; exact H1'].
Qed.

Lemma rb_skip_until_end_comment fuel : forall star r, rb 2 r -> rb 2 (snd (skip_until_end_comment fuel star r)).
Proof.
  induction fuel as [|f IH]; intros star r Hr; cbn [skip_until_end_comment]; [apply rb_set_oof; exact Hr|].
  destruct (read r) as [[ch p] r1] eqn:E1. pose proof (rb_read' _ _ _ _ _ E1 Hr ltac:(lia)) as H1. cbn in H1.
  assert (H1' : rb 2 r1) by (eapply rb_mono; [exact H1|lia]).
  destruct star; repeat match goal with |- context [if ?c then _ else _] => destruct c end; try exact H1'; apply IH; exact H1'.
Qed.

Lemma rb_scan_delimited_loop fuel : forall r acc, rb 1 r -> rb 1 (snd (scan_delimited_loop fuel r acc)).
Proof.
  induction fuel as [|f IH]; intros r acc Hr; cbn [scan_delimited_loop]; [apply rb_set_oof; exact Hr|].
  destruct (read r) as [[ch0 p] r1] eqn:E1. pose proof (rb_read' _ _ _ _ _ E1 Hr ltac:(lia)) as H1. cbn in H1.
  assert (H1' : rb 1 r1) by (eapply rb_mono; [exact H1|lia]).
  destruct (ch0 =? 47); [exact H1'|]. destruct (ch0 =? 0); [exact H1'|]. destruct (ch0 =? 10); [exact H1'|].
  destruct (ch0 =? 92); [|apply IH; exact H1'].
  destruct (read r1) as [[ch1 p1] r2] eqn:E2. pose proof (rb_read' _ _ _ _ _ E2 H1 ltac:(lia)) as H2. cbn in H2.
  destruct (ch1 =? 0); [eapply rb_mono; [exact H2|lia]|].
  destruct (ch1 =? 47); [apply IH; eapply rb_mono; [exact H2|lia]|apply IH; exact (rb_unread _ _ H2)].
Qed.

Theorem rb_scan_regex r : rb 2 r -> rb 2 (snd (scan_regex r)).
Proof.
  intros Hr. unfold scan_regex. pose proof (rb_check 2 r Hr ltac:(lia)) as H0.
  destruct (read _) as [[ch p] r1] eqn:E1. pose proof (rb_read' _ _ _ _ _ E1 H0 ltac:(lia)) as H1. cbn in H1.
  assert (H1' : rb 1 r1) by (eapply rb_mono; [exact H1|lia]).
  assert (H1'' : rb 2 r1) by (eapply rb_mono; [exact H1|lia]).
  destruct (ch =? 0); [exact H1''|]. destruct (negb (ch =? 47)); [exact H1''|].
  pose proof (rb_scan_delimited_loop (read_fuel r1) r1 [] H1') as H2.
  destruct (scan_delimited_loop (read_fuel r1) r1 []) as [res r2]. cbn [snd] in H2. destruct res; (eapply rb_mono; [exact H2|lia]).
Qed.

(* read one more rune, then either keep it consumed or push it back *)
Ltac two :=
  match goal with H1 : rb 1 ?r1 |- context [read ?r1] =>
    let E := fresh "E" in let H := fresh "H" in
    destruct (read r1) as [[? ?] ?] eqn:E; pose proof (rb_read' _ _ _ _ _ E H1 ltac:(lia)) as H; cbn in H
  end.

Theorem rb_scan r : rb 2 r -> rb 2 (snd (scan ulower r)).
Proof.
  intros Hr. unfold scan. destruct (read r) as [[ch0 pos] r1] eqn:E1.
  pose proof (rb_read' _ _ _ _ _ E1 Hr ltac:(lia)) as H1. cbn in H1.
  assert (H1' : rb 2 r1) by (eapply rb_mono; [exact H1|lia]).
  destruct (is_whitespace ch0); [apply rb_scan_whitespace; exact H1'|].
  destruct (is_letter ch0 || (ch0 =? 95)); [apply rb_scan_ident; exact (rb_unread _ _ H1)|].
  destruct (is_digit ch0); [apply rb_scan_number; exact H1|].
  destruct (ch0 =? 0); [exact H1'|].
  destruct (ch0 =? 34); [apply rb_scan_ident; exact (rb_unread _ _ H1)|].
  destruct (ch0 =? 39); [apply rb_scan_string; exact H1'|].
  destruct (ch0 =? 46).
  { two. destruct (is_digit z); [apply rb_scan_number; exact (rb_unread _ _ H)|eapply rb_mono; [exact (rb_unread _ _ H)|lia]]. }
  destruct (ch0 =? 36).
  { pose proof (rb_scan_ident false r1 H1') as H2. destruct (scan_ident ulower false r1) as [[[tok p0] lit] r2]. cbn [snd] in H2.
    destruct tok; exact H2. }
  destruct (ch0 =? 43); [exact H1'|].
  destruct (ch0 =? 45).
  { two. destruct (z =? 45); [apply rb_skip_until_newline; eapply rb_mono; [exact H|lia]|eapply rb_mono; [exact (rb_unread _ _ H)|lia]]. }
  destruct (ch0 =? 42); [exact H1'|].
  destruct (ch0 =? 47).
  { two. destruct (z =? 42); [|eapply rb_mono; [exact (rb_unread _ _ H)|lia]].
    pose proof (rb_skip_until_end_comment (read_fuel r0) false r0 (rb_mono _ 2 _ H ltac:(lia))) as H3.
    destruct (skip_until_end_comment (read_fuel r0) false r0) as [err r3]. destruct err; exact H3. }
  repeat (match goal with |- context [if ?c then _ else _] => destruct c end; try exact H1';
          try (two; repeat match goal with |- context [if ?c then _ else _] => destruct c end;
               first [(eapply rb_mono; [exact (rb_unread _ _ H)|lia]) | (eapply rb_mono; [exact H|lia])])).
Qed.

(* Parser.peekRune: read one rune and push it back unless it is the end marker *)
Theorem rb_peek r : rb 2 r ->
  let '((ch, _), r') := read r in
  let r'' := if ch =? 0 then r' else unread r' in rb 2 r'' /\ r_bad r'' = false.
Proof.
  intros Hr. destruct (read r) as [[ch p] r1] eqn:E1. pose proof (rb_read' _ _ _ _ _ E1 Hr ltac:(lia)) as H1. cbn in H1.
  destruct (ch =? 0).
  - split; [eapply rb_mono; [exact H1|lia]|apply H1].
  - split; [exact (rb_unread _ _ H1)|apply (rb_unread _ _ H1)].
Qed.
End Lex.

Lemma rb_new s : rb 2 (new_reader s).
Proof. unfold rb, new_reader. cbn. repeat split; lia. Qed.
