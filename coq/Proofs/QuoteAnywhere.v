From InfluxQL Require Import Base.Prelude Lex.Token Lex.Reader Lex.Scanner Lex.Quote Lex.StreamLex
  Proofs.ReaderProofs Proofs.QuoteProofs Proofs.RingAt Proofs.RingRefine Proofs.StreamTile.

Definition no_cr (t : text) : Prop := Forall (fun c => c <> 13) t.

Lemma fold_cr_id t : no_cr t -> fold_cr t = t.
Proof.
  induction 1 as [|c t Hc Ht IH]; [reflexivity|]. cbn [fold_cr]. destruct (Z.eqb_spec c 13); [contradiction|]. rewrite IH. reflexivity.
Qed.

Lemma ucons_inj c x y : ucons c x = c :: y -> x = y.
Proof. unfold ucons. destruct x as [|d x]; [destruct (c =? 0); intros E; [discriminate E|injection E; auto]|intros E; injection E; auto]. Qed.

Lemma canon_app_r a b : canon (a ++ b) -> canon b.
Proof.
  unfold canon. induction a as [|c a IH]; cbn [app strip]; [auto|]. intros E. apply ucons_inj in E. apply IH. exact E.
Qed.

Lemma strip_prefix x : exists z, x = strip x ++ z.
Proof.
  induction x as [|c x [z IH]]; [exists []; reflexivity|]. cbn [strip]. unfold ucons. destruct (strip x) as [|d s] eqn:E.
  - cbn [app] in IH. destruct (c =? 0); [exists (c :: x); reflexivity|exists x; reflexivity].
  - exists z. cbn [app] in *. f_equal. exact IH.
Qed.

Lemma no_cr_strip_skipn k T : no_cr T -> no_cr (strip (skipn k T)).
Proof.
  intros H. assert (Hs : no_cr (skipn k T)).
  { unfold no_cr in *. rewrite Forall_forall in *. intros c Hc. apply H. rewrite <- (firstn_skipn k T). apply in_or_app. right. exact Hc. }
  destruct (strip_prefix (skipn k T)) as [z E]. rewrite E in Hs. apply Forall_app in Hs. tauto.
Qed.

(* from the exact lexer started on a text to the plain-text lexer: one ring-level result at the start of a CR-free
   canonical text, leaving a well-formed reader, is the plain-text lexer's result on that text *)
Lemma stream_of_ring ulower src tok p lit r' rest :
  no_cr src -> canon src -> canon rest ->
  scan ulower (new_reader src) = ((tok, p, lit), r') -> wf r' -> r_src r' = rest -> no_cr rest ->
  s_scan ulower src = ((tok, lit), rest).
Proof.
  intros Hcr Hc Hcrest E Hw Hs Hcr'. pose proof (at_new src) as H0. rewrite (fold_cr_id src Hcr) in H0. rewrite Hc in H0.
  destruct (ref_scan src ulower (new_reader src) src H0 ltac:(cbn; lia)) as (A & B & _). rewrite E in A, B. cbn [fst snd tl_of] in A, B.
  destruct (s_scan ulower src) as [[tok' lit'] t']. cbn [fst snd] in A, B. unfold tl_of in A. cbn in A. inversion A; subst tok' lit'. f_equal.
  destruct B as (k & Hcur & Et & _). destruct Hcur as (m & _ & _ & _ & Hm & Ek & Hsrc & _).
  destruct Hw as [_ Hn _ _]. rewrite Hn in Ek, Hm. cbn in Ek. rewrite Nat.sub_0_r in Ek. subst k.
  rewrite Hs, (fold_cr_id rest Hcr') in Hsrc. rewrite <- Hsrc in Et. rewrite Hcrest in Et. exact Et.
Qed.

Lemma expressible_no_cr_qs s : expressible s -> no_cr (flat_map qs_escape s).
Proof.
  induction 1 as [|c s [Hc0 Hc13] Hs IH]; [constructor|]. cbn [flat_map]. apply Forall_app. split; [|exact IH].
  unfold qs_escape. destruct (c =? 10); [repeat constructor; lia|]. destruct (c =? 92); [repeat constructor; lia|].
  destruct (c =? 39); repeat constructor; lia.
Qed.
Lemma expressible_no_cr_qi s : expressible s -> no_cr (flat_map qi_escape s).
Proof.
  induction 1 as [|c s [Hc0 Hc13] Hs IH]; [constructor|]. cbn [flat_map]. apply Forall_app. split; [|exact IH].
  unfold qi_escape. destruct (c =? 10); [repeat constructor; lia|]. destruct (c =? 92); [repeat constructor; lia|].
  destruct (c =? 34); repeat constructor; lia.
Qed.

Lemma canon_cons_app c a b : c <> 0 -> canon (a ++ b) -> canon (c :: a ++ b).
Proof. intros Hc H. unfold canon in *. cbn [strip]. rewrite H. apply ucons_nz. exact Hc. Qed.

Lemma nz_app_canon a b : Forall (fun c => c <> 0) a -> canon b -> canon (a ++ b).
Proof. induction 1 as [|c a Hc Ha IH]; intros Hb; [exact Hb|]. cbn [app]. apply canon_cons_app; [exact Hc|apply IH; exact Hb]. Qed.

Lemma expressible_nz_qs s : expressible s -> Forall (fun c => c <> 0) (flat_map qs_escape s).
Proof.
  induction 1 as [|c s [Hc0 Hc13] Hs IH]; [constructor|]. cbn [flat_map]. apply Forall_app. split; [|exact IH].
  unfold qs_escape. destruct (c =? 10); [repeat constructor; lia|]. destruct (c =? 92); [repeat constructor; lia|].
  destruct (c =? 39); repeat constructor; lia.
Qed.
Lemma expressible_nz_qi s : expressible s -> Forall (fun c => c <> 0) (flat_map qi_escape s).
Proof.
  induction 1 as [|c s [Hc0 Hc13] Hs IH]; [constructor|]. cbn [flat_map]. apply Forall_app. split; [|exact IH].
  unfold qi_escape. destruct (c =? 10); [repeat constructor; lia|]. destruct (c =? 92); [repeat constructor; lia|].
  destruct (c =? 34); repeat constructor; lia.
Qed.

(* the plain-text lexer on a quoted string / quoted identifier followed by any (CR-free, canonical) text *)
Lemma s_scan_quote_string ulower s rest : expressible s -> no_cr rest -> canon rest ->
  s_scan ulower (quote_string s ++ rest) = ((STRING, s), rest).
Proof.
  intros Hex Hcr Hc.
  destruct (scan_quote_string ulower s rest (new_reader (quote_string s ++ rest)) (wf_new _) Hex eq_refl) as (p & r' & E & Hw & Hs).
  apply (stream_of_ring ulower _ STRING p s r' rest); try assumption.
  - unfold quote_string. cbn [app]. constructor; [lia|]. rewrite <- app_assoc. apply Forall_app. split; [apply expressible_no_cr_qs; exact Hex|].
    cbn [app]. constructor; [lia|exact Hcr].
  - unfold quote_string. cbn [app]. rewrite <- app_assoc. apply canon_cons_app; [lia|]. apply nz_app_canon; [apply expressible_nz_qs; exact Hex|].
    cbn [app]. change (39 :: rest) with ([39] ++ rest). apply nz_app_canon; [repeat constructor; lia|exact Hc].
Qed.

Lemma s_scan_quoted_ident ulower s rest : expressible s -> no_cr rest -> canon rest ->
  s_scan ulower (34 :: flat_map qi_escape s ++ 34 :: rest) = ((IDENT, s), rest).
Proof.
  intros Hex Hcr Hc.
  destruct (scan_quoted_ident ulower s rest (new_reader (34 :: flat_map qi_escape s ++ 34 :: rest)) (wf_new _) Hex eq_refl) as (p & r' & E & Hw & Hs).
  apply (stream_of_ring ulower _ IDENT p s r' rest); try assumption.
  - constructor; [lia|]. apply Forall_app. split; [apply expressible_no_cr_qi; exact Hex|]. constructor; [lia|exact Hcr].
  - apply canon_cons_app; [lia|]. apply nz_app_canon; [apply expressible_nz_qi; exact Hex|].
    change (34 :: rest) with ([34] ++ rest). apply nz_app_canon; [repeat constructor; lia|exact Hc].
Qed.

(* ---- anywhere: from ANY reader state inside ANY text (up to two runes pushed back, as between the tokens of a
   statement), a quoted value that lies ahead scans as the one literal, and the reader is left in front of the text
   that follows it ---- *)
Theorem quote_string_anywhere T ulower r s rest :
  no_cr T -> at_ T r (quote_string s ++ rest) -> r_n r <= 2 -> expressible s ->
  exists p r', scan ulower r = ((STRING, p, s), r') /\ at_ T r' rest.
Proof.
  intros HT Hat Hn Hex.
  assert (Hc : canon (quote_string s ++ rest)) by (destruct Hat as (k & _ & Et & _); rewrite Et; apply canon_strip).
  assert (Hcr : no_cr (quote_string s ++ rest)).
  { destruct Hat as (k & _ & Et & _). rewrite Et. apply no_cr_strip_skipn. exact HT. }
  apply Forall_app in Hcr. destruct Hcr as [_ Hcr]. pose proof (canon_app_r _ _ Hc) as Hc'.
  destruct (ref_scan T ulower r _ Hat Hn) as (A & B & _). rewrite (s_scan_quote_string ulower s rest Hex Hcr Hc') in A, B.
  destruct (scan ulower r) as [[[tok p] lit] r']. cbn [fst snd] in A, B. unfold tl_of in A. cbn in A. inversion A; subst.
  exists p, r'. split; [reflexivity|exact B].
Qed.

Theorem quoted_ident_anywhere T ulower r s rest :
  no_cr T -> at_ T r (34 :: flat_map qi_escape s ++ 34 :: rest) -> r_n r <= 2 -> expressible s ->
  exists p r', scan ulower r = ((IDENT, p, s), r') /\ at_ T r' rest.
Proof.
  intros HT Hat Hn Hex.
  assert (Hc : canon (34 :: flat_map qi_escape s ++ 34 :: rest)) by (destruct Hat as (k & _ & Et & _); rewrite Et; apply canon_strip).
  assert (Hcr : no_cr (34 :: flat_map qi_escape s ++ 34 :: rest)).
  { destruct Hat as (k & _ & Et & _). rewrite Et. apply no_cr_strip_skipn. exact HT. }
  assert (Hcr' : no_cr rest).
  { inversion Hcr as [|? ? _ H1]; subst. apply Forall_app in H1. destruct H1 as [_ H1]. inversion H1; assumption. }
  assert (Hc' : canon rest).
  { apply (canon_app_r ([34] ++ flat_map qi_escape s ++ [34]) rest). rewrite <- !app_assoc. exact Hc. }
  destruct (ref_scan T ulower r _ Hat Hn) as (A & B & _). rewrite (s_scan_quoted_ident ulower s rest Hex Hcr' Hc') in A, B.
  destruct (scan ulower r) as [[[tok p] lit] r']. cbn [fst snd] in A, B. unfold tl_of in A. cbn in A. inversion A; subst.
  exists p, r'. split; [reflexivity|exact B].
Qed.

Lemma fold_cr_no_cr s : no_cr (fold_cr s).
Proof.
  assert (G : forall n s, (length s <= n)%nat -> no_cr (fold_cr s)).
  { induction n as [|n IH]; intros s0 Hl.
    - destruct s0; [constructor|cbn in Hl; lia].
    - destruct s0 as [|c s1]; [constructor|]. cbn [fold_cr]. cbn [length] in Hl.
      destruct (Z.eqb_spec c 13); [|constructor; [assumption|apply IH; lia]].
      constructor; [lia|]. destruct s1 as [|d s2]; [constructor|]. cbn [length] in Hl. destruct (d =? 10); apply IH; cbn [length]; lia. }
  apply (G (length s)). lia.
Qed.
(* no break-out on the plain-text lexer: for ANY content the literal is consumed exactly, or it is a bad string *)
Lemma s_scan_quote_string_any ulower s rest :
  no_cr (quote_string s ++ rest) -> canon (quote_string s ++ rest) ->
  s_scan ulower (quote_string s ++ rest) = ((STRING, s), rest) \/ fst (fst (s_scan ulower (quote_string s ++ rest))) = BADSTRING.
Proof.
  intros Hcr Hc. set (src := quote_string s ++ rest) in *.
  destruct (scan_quote_string_any ulower s rest (new_reader src) (wf_new _) eq_refl) as (tok & p & lit & r' & E & HH).
  destruct HH as [(Et & El & Hw & Hs)|Et]; [subst tok lit|subst tok].
  - left. apply (stream_of_ring ulower src STRING p s r' rest); try assumption.
    + apply (canon_app_r (quote_string s) rest). exact Hc.
    + unfold src in Hcr. apply Forall_app in Hcr. tauto.
  - right. pose proof (at_new src) as H0. rewrite (fold_cr_id src Hcr) in H0. rewrite Hc in H0.
    destruct (ref_scan src ulower (new_reader src) src H0 ltac:(cbn; lia)) as (A & _). rewrite E in A. unfold tl_of in A. cbn [fst snd] in A. rewrite <- A. reflexivity.
Qed.

Theorem quote_string_any_anywhere T ulower r s rest :
  no_cr T -> at_ T r (quote_string s ++ rest) -> r_n r <= 2 ->
  exists tok p lit r', scan ulower r = ((tok, p, lit), r') /\ ((tok = STRING /\ lit = s /\ at_ T r' rest) \/ tok = BADSTRING).
Proof.
  intros HT Hat Hn.
  assert (Hc : canon (quote_string s ++ rest)) by (destruct Hat as (k & _ & Et & _); rewrite Et; apply canon_strip).
  assert (Hcr : no_cr (quote_string s ++ rest)).
  { destruct Hat as (k & _ & Et & _). rewrite Et. apply no_cr_strip_skipn. exact HT. }
  destruct (ref_scan T ulower r _ Hat Hn) as (A & B & _).
  destruct (scan ulower r) as [[[tok p] lit] r']. cbn [fst snd] in A, B. unfold tl_of in A. cbn [fst snd] in A.
  exists tok, p, lit, r'. split; [reflexivity|].
  destruct (s_scan_quote_string_any ulower s rest Hcr Hc) as [E|E].
  - rewrite E in A, B. cbn [fst snd] in A, B. inversion A; subst. left. repeat split. exact B.
  - right. rewrite <- A in E. exact E.
Qed.
