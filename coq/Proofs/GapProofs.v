(* C16: at the lexer a gap is one token whatever it is made of.  On the exact ring reader, a run of blanks, tabs and
   line feeds before a non-blank rune scans as one WS token and stops at that rune (pushed back), for every such run;
   a block comment scans as one COMMENT token and stops right behind its end. *)
From InfluxQL Require Import Base.Prelude Lex.Token Lex.Reader Lex.Scanner Proofs.ReaderProofs Proofs.QuoteProofs Proofs.BareIdentProofs.
From Coq Require Import ZifyBool.

Definition blank_text (w : text) : Prop := Forall (fun c => is_whitespace c = true) w.

Lemma blank_plain c : is_whitespace c = true -> c <> 13 /\ c <> 0.
Proof. unfold is_whitespace. lia. Qed.

(* what may follow a gap: nothing, or a rune that is neither blank, CR nor NUL *)
Definition ends_gap (rest : text) : Prop :=
  rest = [] \/ exists d rest', rest = d :: rest' /\ is_whitespace d = false /\ d <> 13 /\ d <> 0.

Lemma scan_ws_loop_spec : forall w acc rest r fuel,
  wf r -> blank_text w -> ends_gap rest -> r_src r = w ++ rest -> (length w + 1 <= fuel)%nat ->
  exists r', scan_ws_loop fuel r acc = (rev acc ++ w, r') /\
    ((rest = [] /\ wf r' /\ r_src r' = []) \/
     (exists d rest' r0, rest = d :: rest' /\ r' = unread r0 /\ wf r0 /\ r_src r0 = rest' /\ fst (curr r0) = d)).
Proof.
  induction w as [|c w IH]; intros acc rest r fuel Hwf Hb Hend Hsrc Hf.
  - cbn [app] in Hsrc. destruct fuel; [cbn in Hf; lia|]. cbn [scan_ws_loop]. rewrite app_nil_r.
    destruct Hend as [->|(d & rest' & -> & Hd & Hd13 & Hd0)].
    + destruct (read_eof r Hwf Hsrc) as [r' [Hr [Hw Hs]]]. rewrite Hr. cbn [Z.eqb]. exists r'. split; [reflexivity|].
      left. split; [reflexivity|split; assumption].
    + destruct (read_plain r d rest' Hwf Hsrc Hd13) as [r' [Hr [Hw [Hs Hc]]]]. rewrite Hr.
      destruct (d =? 0) eqn:E0; [lia|]. rewrite Hd. cbn [negb]. exists (unread r'). split; [reflexivity|].
      right. exists d, rest', r'. rewrite Hc. split; [reflexivity|]. split; [reflexivity|]. split; [exact Hw|]. split; [exact Hs|reflexivity].
  - inversion Hb as [|? ? Hc Hb']; subst. destruct (blank_plain c Hc) as (Hc13 & Hc0).
    cbn [app] in Hsrc. destruct fuel; [cbn in Hf; lia|]. cbn [scan_ws_loop].
    destruct (read_plain r c _ Hwf Hsrc Hc13) as [r' [Hr [Hw [Hs _]]]]. rewrite Hr.
    destruct (c =? 0) eqn:E0; [lia|]. rewrite Hc. cbn [negb].
    destruct (IH (c :: acc) rest r' fuel Hw Hb' Hend Hs ltac:(cbn in Hf; lia)) as [r2 [E Hst]].
    exists r2. rewrite E. cbn [rev]. rewrite <- app_assoc. split; [reflexivity|exact Hst].
Qed.

Lemma set_bad_wf r : wf r -> set_bad r (r_bad r || curr_panics r) = r.
Proof.
  intros [Hi Hn Hb Ho]. destruct r as [src i n p b0 b1 b2 eof bad oof maxn]. cbn in *. subst.
  unfold set_bad, curr_panics, curr_index. cbn.
  assert (E : (Z.rem (i - 0 + 3) 3 <? 0) = false) by (pose proof (Z.rem_nonneg (i - 0 + 3) 3 ltac:(lia) ltac:(lia)); lia).
  rewrite E. reflexivity.
Qed.

(* a gap of any spelling: one WS token whose literal is the gap, and the reader stops at the rune behind it *)
Theorem scan_gap ulower c w rest r :
  wf r -> is_whitespace c = true -> blank_text w -> ends_gap rest -> r_src r = c :: w ++ rest ->
  exists p r', scan ulower r = ((WS, p, c :: w), r') /\
    ((rest = [] /\ wf r' /\ r_src r' = []) \/
     (exists d rest' r0, rest = d :: rest' /\ r' = unread r0 /\ wf r0 /\ r_src r0 = rest' /\ fst (curr r0) = d)).
Proof.
  intros Hwf Hc Hb Hend Hsrc. destruct (blank_plain c Hc) as (Hc13 & Hc0).
  destruct (read_plain r c _ Hwf Hsrc Hc13) as [r1 [Hr1 [Hw1 [Hs1 Hc1]]]].
  unfold scan. rewrite Hr1, Hc. unfold scan_whitespace. rewrite Hc1. rewrite (set_bad_wf r1 Hw1).
  destruct (scan_ws_loop_spec w [c] rest r1 (read_fuel r1) Hw1 Hb Hend Hs1) as [r2 [E Hst]].
  { unfold read_fuel. rewrite Hs1, app_length. lia. }
  rewrite E. cbn [rev app]. eexists. exists r2. split; [reflexivity|exact Hst].
Qed.

(* two spellings of one gap leave the lexer in front of the same text with the same rune pushed back *)
Corollary gaps_agree ulower c1 w1 c2 w2 d rest' r1 r2 :
  wf r1 -> wf r2 -> is_whitespace c1 = true -> is_whitespace c2 = true -> blank_text w1 -> blank_text w2 ->
  is_whitespace d = false -> d <> 13 -> d <> 0 ->
  r_src r1 = c1 :: w1 ++ d :: rest' -> r_src r2 = c2 :: w2 ++ d :: rest' ->
  exists p1 p2 a1 a2, scan ulower r1 = ((WS, p1, c1 :: w1), unread a1) /\ scan ulower r2 = ((WS, p2, c2 :: w2), unread a2) /\
    wf a1 /\ wf a2 /\ r_src a1 = rest' /\ r_src a2 = rest' /\ fst (curr a1) = d /\ fst (curr a2) = d.
Proof.
  intros Hw1 Hw2 Hc1 Hc2 Hb1 Hb2 Hd Hd13 Hd0 Hs1 Hs2.
  assert (Hend : ends_gap (d :: rest')) by (right; exists d, rest'; split; [reflexivity|split; [exact Hd|split; [exact Hd13|exact Hd0]]]).
  destruct (scan_gap ulower c1 w1 _ r1 Hw1 Hc1 Hb1 Hend Hs1) as (p1 & r1' & E1 & [(Hn & _)|(d1 & rs1 & a1 & Er1 & -> & Ha1 & Hsa1 & Hca1)]); [discriminate|].
  destruct (scan_gap ulower c2 w2 _ r2 Hw2 Hc2 Hb2 Hend Hs2) as (p2 & r2' & E2 & [(Hn & _)|(d2 & rs2 & a2 & Er2 & -> & Ha2 & Hsa2 & Hca2)]); [discriminate|].
  injection Er1 as Ed1 Ers1. injection Er2 as Ed2 Ers2.
  exists p1, p2, a1, a2. split; [exact E1|]. split; [exact E2|]. split; [exact Ha1|]. split; [exact Ha2|].
  split; [congruence|]. split; [congruence|]. split; congruence.
Qed.

(* a block comment whose body has no star, NUL or CR: one COMMENT token, and the reader stands right behind the closing
   star-slash with nothing pushed back *)
Definition comment_body (b : text) : Prop := Forall (fun c => c <> 42 /\ c <> 0 /\ c <> 13) b.

Lemma skip_comment_body : forall b rest r fuel,
  wf r -> comment_body b -> r_src r = b ++ 42 :: 47 :: rest -> (length b + 2 <= fuel)%nat ->
  exists r', skip_until_end_comment fuel false r = (false, r') /\ wf r' /\ r_src r' = rest.
Proof.
  induction b as [|c b IH]; intros rest r fuel Hwf Hb Hsrc Hf.
  - cbn [app] in Hsrc. destruct fuel as [|[|f]]; try (cbn in Hf; lia). cbn [skip_until_end_comment].
    destruct (read_plain r 42 _ Hwf Hsrc ltac:(lia)) as [r1 [Hr1 [Hw1 [Hs1 _]]]]. rewrite Hr1. cbn [Z.eqb Pos.eqb].
    destruct (read_plain r1 47 _ Hw1 Hs1 ltac:(lia)) as [r2 [Hr2 [Hw2 [Hs2 _]]]]. rewrite Hr2. cbn [Z.eqb Pos.eqb].
    exists r2. split; [reflexivity|split; assumption].
  - inversion Hb as [|? ? (Hc42 & Hc0 & Hc13) Hb']; subst. cbn [app] in Hsrc. destruct fuel; [cbn in Hf; lia|].
    cbn [skip_until_end_comment].
    destruct (read_plain r c _ Hwf Hsrc Hc13) as [r1 [Hr1 [Hw1 [Hs1 _]]]]. rewrite Hr1.
    destruct (c =? 42) eqn:E1; [lia|]. destruct (c =? 0) eqn:E2; [lia|].
    apply (IH rest r1 fuel Hw1 Hb' Hs1). cbn in Hf. lia.
Qed.

Theorem scan_block_comment ulower b rest r :
  wf r -> comment_body b -> r_src r = 47 :: 42 :: b ++ 42 :: 47 :: rest ->
  exists p r', scan ulower r = ((COMMENT, p, []), r') /\ wf r' /\ r_src r' = rest.
Proof.
  intros Hwf Hb Hsrc.
  destruct (read_plain r 47 _ Hwf Hsrc ltac:(lia)) as [r1 [Hr1 [Hw1 [Hs1 _]]]].
  unfold scan. rewrite Hr1.
  cbn [is_whitespace is_letter is_digit Z.eqb Z.leb Z.compare Pos.eqb Pos.compare Pos.compare_cont orb andb negb].
  destruct (read_plain r1 42 _ Hw1 Hs1 ltac:(lia)) as [r2 [Hr2 [Hw2 [Hs2 _]]]]. rewrite Hr2. cbn [Z.eqb Pos.eqb].
  destruct (skip_comment_body b rest r2 (read_fuel r2) Hw2 Hb Hs2) as [r3 [E [Hw3 Hs3]]].
  { unfold read_fuel. rewrite Hs2, app_length. cbn. lia. }
  rewrite E. eexists. exists r3. split; [reflexivity|split; assumption].
Qed.
