(* The exact ring lexer computes the stream lexer of StreamLex.v. *)
From InfluxQL Require Import Base.Prelude Lex.Token Lex.Reader Lex.Scanner Proofs.LexerSafety.
From InfluxQL Require Import Lex.StreamLex.
From InfluxQL Require Import Proofs.RingAt.

Lemma len_tail (c : Z) t1 f : (length (c :: t1) < S f)%nat -> (length t1 < f)%nat.
Proof. cbn. lia. Qed.

Section Ref.
Variable T : text.
Notation at_ := (at_ T).
Notation atH := (atH T).

Lemma read_at' r t : at_ r t ->
  exists p r', read r = ((fst (sread t), p), r') /\ at_ r' (snd (sread t)) /\ r_n r' = Z.max (r_n r - 1) 0 /\
               atH r' [(fst (sread t), p)] (snd (sread t)) /\ slot_at T t (fst (sread t), p).
Proof.
  intros H. destruct (read_atH T r [] t H) as (p & r' & E & Ha & Hn & Hs). exists p, r'.
  split; [exact E|]. split; [exact (atH_weaken T _ _ _ Ha)|]. split; [exact Hn|]. split; [exact Ha|exact Hs].
Qed.

Lemma unread_at' r t c p : at_ r t -> r_n r <= 2 -> atH r [(c, p)] t -> at_ (unread r) (ucons c t).
Proof. intros _ Hn H. exact (unread_atH T r (c, p) [] t H Hn). Qed.

Ltac rd H p r' E Hat Hn Hp0 Hp1 :=
  destruct (read_at' _ _ H) as (p & r' & E & Hat & Hn & Hp0 & Hp1); rewrite E; cbn [sread fst snd] in Hat, Hp0, Hn |- *.

Variable ulower : Z -> Z.

Lemma ref_digits f1 : forall f2 r t acc, at_ r t -> (length t < f1)%nat -> (length t < f2)%nat ->
  exists r', scan_digits f1 r acc = (fst (s_digits f2 t acc), r') /\ at_ r' (snd (s_digits f2 t acc)).
Proof.
  induction f1 as [|f1 IH]; intros f2 r t acc H L1 L2; [lia|]. destruct f2 as [|f2]; [lia|].
  cbn [scan_digits s_digits]. rd H p r1 E H1 Hn Hp0 Hp1.
  pose proof (at_n _ _ _ H) as Hr.
  destruct t as [|c t1]; cbn [sread fst snd] in *.
  - cbn. eexists. split; [reflexivity|]. exact (unread_at' _ _ _ _ H1 ltac:(lia) Hp0).
  - destruct (negb (is_digit c)).
    + eexists. split; [reflexivity|]. cbn [snd]. eapply unread_at'; [exact H1|lia|exact Hp0].
    + apply IH; [exact H1|cbn in L1; lia|cbn in L2; lia].
Qed.

Ltac fin H1 Hp0 := eexists; split; [reflexivity|]; cbn [snd]; first [exact H1 | exact (unread_at' _ _ _ _ H1 ltac:(lia) Hp0)].

Lemma ref_dur_letters f1 : forall f2 r t acc, at_ r t -> (length t < f1)%nat -> (length t < f2)%nat ->
  exists r', scan_dur_letters f1 r acc = (fst (s_dur_letters f2 t acc), r') /\ at_ r' (snd (s_dur_letters f2 t acc)).
Proof.
  induction f1 as [|f1 IH]; intros f2 r t acc H L1 L2; [lia|]. destruct f2 as [|f2]; [lia|].
  cbn [scan_dur_letters s_dur_letters]. rd H p r1 E H1 Hn Hp0 Hp1. pose proof (at_n _ _ _ H) as Hr.
  destruct t as [|c t1]; cbn [sread fst snd] in *.
  - cbn. fin H1 Hp0.
  - destruct (negb (is_dur_letter c)); [fin H1 Hp0|]. apply IH; [exact H1|cbn in L1; lia|cbn in L2; lia].
Qed.

Lemma ref_dur_rest f1 : forall f2 r t acc, at_ r t -> (length t < f1)%nat -> (length t < f2)%nat ->
  exists r', scan_dur_rest f1 r acc = (fst (s_dur_rest f2 t acc), r') /\ at_ r' (snd (s_dur_rest f2 t acc)).
Proof.
  induction f1 as [|f1 IH]; intros f2 r t acc H L1 L2; [lia|]. destruct f2 as [|f2]; [lia|].
  cbn [scan_dur_rest s_dur_rest]. rd H p r1 E H1 Hn Hp0 Hp1. pose proof (at_n _ _ _ H) as Hr.
  destruct t as [|c t1]; cbn [sread fst snd] in *.
  - cbn. fin H1 Hp0.
  - destruct (is_dur_letter c || is_digit c); [|fin H1 Hp0]. apply IH; [exact H1|cbn in L1; lia|cbn in L2; lia].
Qed.

Lemma ref_ws_loop f1 : forall f2 r t acc, at_ r t -> (length t < f1)%nat -> (length t < f2)%nat ->
  exists r', scan_ws_loop f1 r acc = (fst (s_ws_loop f2 t acc), r') /\ at_ r' (snd (s_ws_loop f2 t acc)).
Proof.
  induction f1 as [|f1 IH]; intros f2 r t acc H L1 L2; [lia|]. destruct f2 as [|f2]; [lia|].
  cbn [scan_ws_loop s_ws_loop]. rd H p r1 E H1 Hn Hp0 Hp1. pose proof (at_n _ _ _ H) as Hr.
  destruct t as [|c t1]; cbn [sread fst snd] in *.
  - cbn. fin H1 Hp0.
  - destruct (c =? 0); [fin H1 Hp0|]. destruct (negb (is_whitespace c)); [fin H1 Hp0|].
    apply IH; [exact H1|cbn in L1; lia|cbn in L2; lia].
Qed.

Lemma ref_bare_ident f1 : forall f2 r t acc, at_ r t -> (length t < f1)%nat -> (length t < f2)%nat ->
  exists r', scan_bare_ident f1 r acc = (fst (s_bare_ident f2 t acc), r') /\ at_ r' (snd (s_bare_ident f2 t acc)).
Proof.
  induction f1 as [|f1 IH]; intros f2 r t acc H L1 L2; [lia|]. destruct f2 as [|f2]; [lia|].
  cbn [scan_bare_ident s_bare_ident]. rd H p r1 E H1 Hn Hp0 Hp1. pose proof (at_n _ _ _ H) as Hr.
  destruct t as [|c t1]; cbn [sread fst snd] in *.
  - cbn. fin H1 Hp0.
  - destruct (c =? 0); [fin H1 Hp0|]. destruct (negb (is_ident_char c)); [fin H1 Hp0|].
    apply IH; [exact H1|cbn in L1; lia|cbn in L2; lia].
Qed.

Lemma ref_skip_newline f1 : forall f2 r t, at_ r t -> (length t < f1)%nat -> (length t < f2)%nat ->
  at_ (skip_until_newline f1 r) (s_skip_newline f2 t).
Proof.
  induction f1 as [|f1 IH]; intros f2 r t H L1 L2; [lia|]. destruct f2 as [|f2]; [lia|].
  cbn [skip_until_newline s_skip_newline]. rd H p r1 E H1 Hn Hp0 Hp1.
  destruct t as [|c t1]; cbn [sread fst snd] in *.
  - cbn. exact H1.
  - destruct ((c =? 10) || (c =? 0)); [exact H1|]. apply IH; [exact H1|cbn in L1; lia|cbn in L2; lia].
Qed.

Lemma ref_skip_comment f1 : forall f2 star r t, at_ r t -> (length t < f1)%nat -> (length t < f2)%nat ->
  exists r', skip_until_end_comment f1 star r = (fst (s_skip_comment f2 star t), r') /\ at_ r' (snd (s_skip_comment f2 star t)).
Proof.
  induction f1 as [|f1 IH]; intros f2 star r t H L1 L2; [lia|]. destruct f2 as [|f2]; [lia|].
  cbn [skip_until_end_comment s_skip_comment]. rd H p r1 E H1 Hn Hp0 Hp1.
  destruct t as [|c t1]; cbn [sread fst snd] in *.
  - destruct star; cbn; eexists; (split; [reflexivity|exact H1]).
  - assert (L1' : (length t1 < f1)%nat) by (cbn in L1; lia). assert (L2' : (length t1 < f2)%nat) by (cbn in L2; lia).
    destruct star.
    + destruct (c =? 47); [eexists; split; [reflexivity|exact H1]|]. destruct (c =? 42); [apply IH; assumption|].
      destruct (c =? 0); [eexists; split; [reflexivity|exact H1]|]. apply IH; assumption.
    + destruct (c =? 42); [apply IH; assumption|].
      destruct (c =? 0); [eexists; split; [reflexivity|exact H1]|]. apply IH; assumption.
Qed.

Lemma ref_string_loop f1 : forall f2 ending r t acc, at_ r t -> (length t < f1)%nat -> (length t < f2)%nat ->
  exists r', scan_string_loop f1 ending r acc = (fst (s_string_loop f2 ending t acc), r') /\
             at_ r' (snd (s_string_loop f2 ending t acc)) /\ r_n r' <= r_n r.
Proof.
  induction f1 as [|f1 IH]; intros f2 ending r t acc H L1 L2; [lia|]. destruct f2 as [|f2]; [lia|].
  cbn [scan_string_loop s_string_loop]. rd H p r1 E H1 Hn Hp0 Hp1. pose proof (at_n _ _ _ H) as Hr.
  assert (Hn1 : r_n r1 <= r_n r) by lia.
  destruct t as [|c t1]; cbn [sread fst snd] in *.
  - destruct (0 =? ending); [eexists; split; [reflexivity|split; [exact H1|exact Hn1]]|].
    cbn. eexists; split; [reflexivity|split; [exact H1|exact Hn1]].
  - assert (L1' : (length t1 < f1)%nat) by (cbn in L1; lia). assert (L2' : (length t1 < f2)%nat) by (cbn in L2; lia).
    destruct (c =? ending); [eexists; split; [reflexivity|split; [exact H1|exact Hn1]]|].
    destruct ((c =? 0) || (c =? 10)); [eexists; split; [reflexivity|split; [exact H1|exact Hn1]]|].
    destruct (c =? 92).
    + rd H1 p2 r2 E2 H2 Hn2 Hp20 Hp21. pose proof (at_n _ _ _ H1) as Hr1. assert (Hn2' : r_n r2 <= r_n r) by lia.
      assert (IH' : forall a, exists r', scan_string_loop f1 ending r2 a = (fst (s_string_loop f2 ending (snd (sread t1)) a), r') /\
                 at_ r' (snd (s_string_loop f2 ending (snd (sread t1)) a)) /\ r_n r' <= r_n r).
      { intros a. destruct (IH f2 ending r2 (snd (sread t1)) a H2) as (r' & Er & Ha & Hn').
        - destruct t1; cbn in *; lia.
        - destruct t1; cbn in *; lia.
        - exists r'. split; [exact Er|split; [exact Ha|lia]]. }
      destruct (sread t1) as [c1 t2]. cbn [fst snd] in *.
      destruct (c1 =? 110); [apply IH'|]. destruct (c1 =? 92); [apply IH'|]. destruct (c1 =? 34); [apply IH'|].
      destruct (c1 =? 39); [apply IH'|]. eexists; split; [reflexivity|split; [exact H2|exact Hn2']].
    + destruct (IH f2 ending r1 t1 (c :: acc) H1 L1' L2') as (r' & Er & Ha & Hn'). exists r'. split; [exact Er|split; [exact Ha|lia]].
Qed.


Definition tl_of (x : tokres) : token * text := (fst (fst x), snd x).

Lemma sfuel_gt t : (length t < sfuel t)%nat.
Proof. unfold sfuel. lia. Qed.
Lemma fuel_gt r t : at_ r t -> (length t < read_fuel r)%nat.
Proof. intros H. pose proof (fuel_at _ _ _ H). lia. Qed.

Lemma ref_ScanString r t : at_ r t ->
  exists r', ScanString r = (fst (s_ScanString t), r') /\ at_ r' (snd (s_ScanString t)) /\ r_n r' <= Z.max (r_n r - 1) 0.
Proof.
  intros H. unfold ScanString, s_ScanString. rd H p r1 E H1 Hn Hp0 Hp1.
  destruct (sread t) as [e t1]. cbn [fst snd] in *.
  destruct (e =? 0); [eexists; split; [reflexivity|split; [exact H1|lia]]|].
  destruct (ref_string_loop (read_fuel r1) (sfuel t1) e r1 t1 [] H1 (fuel_gt _ _ H1) (sfuel_gt _)) as (r' & Er & Ha & Hn').
  exists r'. split; [exact Er|split; [exact Ha|lia]].
Qed.

Lemma ref_scan_string r t0 c p : at_ r t0 -> r_n r <= 2 -> atH r [(c, p)] t0 ->
  tl_of (fst (scan_string r)) = fst (s_scan_string (ucons c t0)) /\
  at_ (snd (scan_string r)) (snd (s_scan_string (ucons c t0))) /\ r_n (snd (scan_string r)) <= r_n r.
Proof.
  intros H Hn Hp. pose proof (at_n _ _ _ H) as Hr. unfold scan_string, s_scan_string.
  pose proof (check_at _ _ _ (unread_at' _ _ _ _ H Hn Hp)) as Hc.
  destruct (ref_ScanString _ _ Hc) as (r2 & E & H2 & Hn2). rewrite E.
  rewrite check_n, unread_n in Hn2.
  destruct (s_ScanString (ucons c t0)) as [[lit err] t2]. cbn [fst snd] in *.
  destruct (err =? 1); [cbn; split; [reflexivity|split; [exact H2|lia]]|].
  destruct (err =? 2); cbn [fst snd tl_of]; (split; [reflexivity|split; [|try rewrite check_n; lia]]); [apply check_at; exact H2|exact H2].
Qed.


Lemma ucons_nz c t : c <> 0 -> ucons c t = c :: t.
Proof. intros H. destruct t; cbn; [destruct (Z.eqb_spec c 0); [contradiction|reflexivity]|reflexivity]. Qed.
Lemma sread_len t : (length (snd (sread t)) <= length t)%nat.
Proof. destruct t; cbn; lia. Qed.
Lemma ucons_sread_len t : (length (ucons (fst (sread t)) (snd (sread t))) <= length t)%nat.
Proof. destruct t as [|c t1]; cbn [sread fst snd]; [cbn; lia|]. pose proof (length_ucons c t1). cbn. lia. Qed.

Lemma bare_len f : forall t acc, (length (snd (s_bare_ident f t acc)) <= length t)%nat.
Proof.
  induction f as [|f IH]; intros t acc; cbn [s_bare_ident]; [cbn; lia|].
  pose proof (sread_len t). pose proof (ucons_sread_len t). destruct (sread t) as [c t1]. cbn [fst snd] in *.
  destruct (c =? 0); [cbn; lia|]. destruct (negb (is_ident_char c)); [cbn; lia|]. pose proof (IH t1 (c :: acc)). lia.
Qed.

Lemma ref_ident_loop f1 : forall f2 pos r t acc, at_ r t -> (length t < f1)%nat -> (length t < f2)%nat ->
  exists early r', scan_ident_loop f1 pos r acc = ((early, snd (fst (s_ident_loop f2 t acc))), r') /\
     option_map tl_of early = fst (fst (s_ident_loop f2 t acc)) /\ at_ r' (snd (s_ident_loop f2 t acc)).
Proof.
  induction f1 as [|f1 IH]; intros f2 pos r t acc H L1 L2; [lia|]. destruct f2 as [|f2]; [lia|].
  cbn [scan_ident_loop s_ident_loop]. rd H p r1 E H1 Hn Hp0 Hp1. pose proof (at_n _ _ _ H) as Hr.
  destruct t as [|c t1]; cbn [sread fst snd] in *.
  - cbn. eexists None, _. split; [reflexivity|split; [reflexivity|exact H1]].
  - destruct (Z.eqb_spec c 0) as [Ec|Ec]; [eexists None, _; split; [reflexivity|split; [reflexivity|exact H1]]|].
    destruct (c =? 34).
    + destruct (ref_scan_string r1 t1 c _ H1 ltac:(lia) Hp0) as (Et & Ha & _).
      destruct (scan_string r1) as [[[tok0 pos0] lit0] r2]. destruct (s_scan_string (ucons c t1)) as [[tok0' lit0'] t2].
      cbn [tl_of fst snd] in *. injection Et as <- <-.
      destruct tok0; (eexists (Some _), _; split; [reflexivity|split; [reflexivity|exact Ha]]).
    + destruct (is_ident_char c) eqn:Ei.
      * pose proof (unread_at' _ _ _ _ H1 ltac:(lia) Hp0) as Hu.
        pose proof (fuel_at _ _ _ Hu) as Hf. rewrite fuel_unread in Hf by lia.
        destruct (ref_bare_ident (read_fuel r1) (sfuel (ucons c t1)) _ _ [] Hu ltac:(lia) (sfuel_gt _)) as (r2 & Eb & Hb).
        rewrite Eb.
        assert (Hlen : (length (snd (s_bare_ident (sfuel (ucons c t1)) (ucons c t1) [])) <= length t1)%nat).
        { rewrite ucons_nz by exact Ec. unfold sfuel. cbn [length Nat.add s_bare_ident sread].
          destruct (Z.eqb_spec c 0) as [|_]; [contradiction|].
          rewrite Ei. cbn [negb]. apply bare_len. }
        destruct (s_bare_ident (sfuel (ucons c t1)) (ucons c t1) []) as [s0 t2]. cbn [fst snd] in *.
        apply IH; [exact Hb|cbn in L1; lia|cbn in L2; lia].
      * eexists None, _. split; [reflexivity|split; [reflexivity|exact (unread_at' _ _ _ _ H1 ltac:(lia) Hp0)]].
Qed.


Lemma at_canon r t : at_ r t -> ucons (fst (sread t)) (snd (sread t)) = t.
Proof.
  intros (k & _ & -> & _). rewrite sread_strip. cbn [fst snd]. destruct (skipn k T) as [|c y]; reflexivity.
Qed.

Lemma ref_scan_ident kw r t : at_ r t ->
  tl_of (fst (scan_ident ulower kw r)) = fst (s_scan_ident ulower kw t) /\
  at_ (snd (scan_ident ulower kw r)) (snd (s_scan_ident ulower kw t)).
Proof.
  intros H. unfold scan_ident, s_scan_ident. pose proof (at_canon _ _ H) as Hc. pose proof (at_n _ _ _ H) as Hr.
  rd H p r1 E H1 Hn Hp0 Hp1. pose proof (unread_at' _ _ _ _ H1 ltac:(lia) Hp0) as Hu. rewrite Hc in Hu.
  destruct (ref_ident_loop (read_fuel (unread r1)) (sfuel t) p _ _ [] Hu (fuel_gt _ _ Hu) (sfuel_gt _)) as (early & r2 & El & Ee & Ha).
  rewrite El. destruct (s_ident_loop (sfuel t) t []) as [[early' lit] t2]. cbn [fst snd] in *.
  destruct early as [tr|]; cbn [option_map] in Ee; subst early'.
  - cbn [fst snd]. split; [reflexivity|exact Ha].
  - destruct kw; [|cbn; split; [reflexivity|exact Ha]].
    destruct (lookup ulower lit); cbn; (split; [reflexivity|exact Ha]).
Qed.

Lemma ref_scan_whitespace r t c p : at_ r t -> r_n r <= 2 -> atH r [(c, p)] t ->
  tl_of (fst (scan_whitespace r)) = fst (s_scan_whitespace c t) /\
  at_ (snd (scan_whitespace r)) (snd (s_scan_whitespace c t)) /\ snd (fst (fst (scan_whitespace r))) = p.
Proof.
  intros H Hn Hp. unfold scan_whitespace, s_scan_whitespace. rewrite (curr_atH T r _ _ _ Hp Hn).
  pose proof (check_at _ _ _ H) as Hk.
  destruct (ref_ws_loop (read_fuel (set_bad r (r_bad r || curr_panics r))) (sfuel t) _ _ [c] Hk (fuel_gt _ _ Hk) (sfuel_gt _)) as (r1 & El & Ha).
  rewrite El. destruct (s_ws_loop (sfuel t) t [c]) as [lit t1]. cbn. split; [reflexivity|split; [exact Ha|reflexivity]].
Qed.

Definition number_go (pos : pos) (r : reader) : tokres * reader :=
    let '(d1, r1) := scan_digits (read_fuel r) r [] in
    let '((ch0, _), r2) := read r1 in
    let '(is_decimal, buf, r3) :=
      if ch0 =? 46 then
        let '((ch1, _), r3) := read r2 in
        if is_digit ch1 then
          let '(d2, r4) := scan_digits (read_fuel r3) r3 [] in
          (true, d1 ++ [ch0; ch1] ++ d2, r4)
        else (true, d1, unread r3)
      else (false, d1, unread r2) in
    if negb is_decimal then
      let '((c0, _), r4) := read r3 in
      if is_dur_letter c0 then
        let '(acc1, r5) := scan_dur_letters (read_fuel r4) r4 [c0] in
        let '(acc2, r6) := scan_dur_rest (read_fuel r5) r5 acc1 in
        ((DURATIONVAL, pos, buf ++ rev acc2), r6)
      else ((INTEGER, pos, buf), unread r4)
    else ((NUMBER, pos, buf), r3).

Lemma scan_number_eq r : scan_number r =
  let '(ch, pos) := curr r in
  let r := set_bad r (r_bad r || curr_panics r) in
  if ch =? 46 then
    let '((ch1, _), r1) := read r in
    let r1 := unread r1 in
    if negb (is_digit ch1) then ((ILLEGAL, pos, [46]), r1)
    else number_go pos (unread r1)
  else number_go pos (unread r).
Proof. reflexivity. Qed.

Lemma ref_number_go pos r t : at_ r t ->
  tl_of (fst (number_go pos r)) = fst (s_number_go t) /\ at_ (snd (number_go pos r)) (snd (s_number_go t)).
Proof.
  intros H. unfold number_go, s_number_go.
  destruct (ref_digits (read_fuel r) (sfuel t) r t [] H (fuel_gt _ _ H) (sfuel_gt _)) as (r1 & Ed & H1). rewrite Ed.
  destruct (s_digits (sfuel t) t []) as [d1 t1]. cbn [fst snd] in *.
  rd H1 p2 r2 E2 H2 Hn2 Hp20 Hp21. pose proof (at_n _ _ _ H1) as Hr1.
  destruct (sread t1) as [ch0 t2]. cbn [fst snd] in *.
  destruct (ch0 =? 46).
  - rd H2 p3 r3 E3 H3 Hn3 Hp30 Hp31. pose proof (at_n _ _ _ H2) as Hr2.
    destruct (sread t2) as [ch1 t3]. cbn [fst snd] in *.
    destruct (is_digit ch1).
    + destruct (ref_digits (read_fuel r3) (sfuel t3) r3 t3 [] H3 (fuel_gt _ _ H3) (sfuel_gt _)) as (r4 & Ed2 & H4). rewrite Ed2.
      destruct (s_digits (sfuel t3) t3 []) as [d2 t4]. cbn. split; [reflexivity|exact H4].
    + cbn. split; [reflexivity|exact (unread_at' _ _ _ _ H3 ltac:(lia) Hp30)].
  - cbn [negb]. pose proof (unread_at' _ _ _ _ H2 ltac:(lia) Hp20) as Hu.
    rd Hu p4 r4 E4 H4 Hn4 Hp40 Hp41. rewrite sread_ucons in *. cbn [fst snd] in *.
    rewrite unread_n in Hn4.
    destruct (is_dur_letter ch0).
    + destruct (ref_dur_letters (read_fuel r4) (sfuel t2) r4 t2 [ch0] H4 (fuel_gt _ _ H4) (sfuel_gt _)) as (r5 & E5 & H5). rewrite E5.
      destruct (s_dur_letters (sfuel t2) t2 [ch0]) as [acc1 t5]. cbn [fst snd] in *.
      destruct (ref_dur_rest (read_fuel r5) (sfuel t5) r5 t5 acc1 H5 (fuel_gt _ _ H5) (sfuel_gt _)) as (r6 & E6 & H6). rewrite E6.
      destruct (s_dur_rest (sfuel t5) t5 acc1) as [acc2 t6]. cbn. split; [reflexivity|exact H6].
    + cbn. split; [reflexivity|exact (unread_at' _ _ _ _ H4 ltac:(lia) Hp40)].
Qed.


Definition strtok (t : token) : bool := match t with STRING | BADSTRING | BADESCAPE => true | _ => false end.

Lemma number_go_pos pos r : snd (fst (fst (number_go pos r))) = pos.
Proof.
  unfold number_go.
  repeat match goal with
         | |- context [let '(_, _) := ?x in _] => destruct x
         | |- context [if ?b then _ else _] => destruct b
         end; reflexivity.
Qed.

Lemma ref_scan_number r t c p : atH r [(c, p)] t -> r_n r <= 2 ->
  tl_of (fst (scan_number r)) = fst (s_scan_number c t) /\ at_ (snd (scan_number r)) (snd (s_scan_number c t)) /\
  snd (fst (fst (scan_number r))) = p.
Proof.
  intros Hh Hn. pose proof (atH_weaken T _ _ _ Hh) as H. rewrite scan_number_eq. unfold s_scan_number.
  rewrite (curr_atH T r _ _ _ Hh Hn). pose proof (at_n _ _ _ H) as Hr.
  pose proof (check_atH T _ _ _ Hh) as Hkh. set (rk := set_bad r (r_bad r || curr_panics r)) in *.
  assert (Hnk : r_n rk = r_n r) by reflexivity.
  destruct (c =? 46) eqn:E46.
  - apply Z.eqb_eq in E46.
    destruct (read_atH T rk _ t Hkh) as (p1 & r1 & E1 & H1h & Hn1 & _). rewrite E1.
    destruct (sread t) as [ch1 t']. cbn [fst snd] in *.
    pose proof (unread_atH T r1 _ _ _ H1h ltac:(lia)) as Huh. cbn [fst] in Huh.
    destruct (negb (is_digit ch1)); [cbn; split; [reflexivity|split; [exact (atH_weaken T _ _ _ Huh)|reflexivity]]|].
    pose proof (unread_atH T _ _ _ _ Huh ltac:(rewrite unread_n; lia)) as Huu. cbn [fst] in Huu. rewrite E46 in Huu.
    destruct (ref_number_go p _ _ Huu) as [E1' E2']. split; [exact E1'|]. split; [exact E2'|apply number_go_pos].
  - pose proof (unread_atH T rk _ _ _ Hkh ltac:(lia)) as Hu. cbn [fst] in Hu.
    destruct (ref_number_go p _ _ Hu) as [E1' E2']. split; [exact E1'|]. split; [exact E2'|apply number_go_pos].
Qed.

(* the early result of the identifier loop is a string-like token, or carries the identifier's position *)
Lemma ident_loop_early_pos f : forall pos r acc tk p' l acc' r',
  scan_ident_loop f pos r acc = ((Some (tk, p', l), acc'), r') -> strtok tk = true \/ p' = pos.
Proof.
  induction f as [|f IH]; intros pos r acc tk p' l acc' r'; cbn [scan_ident_loop]; [intros E; discriminate E|].
  destruct (read r) as [[ch p0] r1]. destruct (ch =? 0); [intros E; discriminate E|]. destruct (ch =? 34).
  - destruct (scan_string r1) as [[[tok0 pos0] lit0] r2].
    destruct tok0; intros E; inversion E; subst; first [left; reflexivity | right; reflexivity].
  - destruct (is_ident_char ch); [|intros E; discriminate E]. destruct (scan_bare_ident _ _ _) as [s0 r2]. apply IH.
Qed.

Lemma scan_ident_pos kw r a h t : atH r (a :: h) t -> r_n r <= 2 ->
  strtok (fst (fst (fst (scan_ident ulower kw (unread r))))) = false ->
  snd (fst (fst (scan_ident ulower kw (unread r)))) = snd a.
Proof.
  intros Hh Hn. unfold scan_ident. destruct (reread_atH T r a h t Hh Hn) as (r' & E & _). rewrite E. destruct a as [c p].
  destruct (scan_ident_loop (read_fuel (unread r')) p (unread r') []) as [[early lit] r2] eqn:El.
  destruct early as [[[tk p'] l]|].
  - cbn. intros Hs. destruct (ident_loop_early_pos _ _ _ _ _ _ _ _ _ El) as [Hx|Hx]; [congruence|exact Hx].
  - intros _. destruct kw; [|reflexivity]. destruct (lookup ulower lit); reflexivity.
Qed.

Ltac one H1 := cbn; split; [reflexivity|split; [exact H1|intros _; reflexivity]].

(* one Scan: token, literal and remaining text are those of the plain-text lexer; and unless the token is
   string-like, its position is the recorded position of the first rune of the text *)
Theorem ref_scan r t : at_ r t -> r_n r <= 2 ->
  tl_of (fst (scan ulower r)) = fst (s_scan ulower t) /\ at_ (snd (scan ulower r)) (snd (s_scan ulower t)) /\
  (strtok (fst (fst (fst (scan ulower r)))) = false -> slot_at T t (fst (sread t), snd (fst (fst (scan ulower r))))).
Proof.
  intros H Hn. pose proof (at_n _ _ _ H) as Hr.
  destruct (read_at' _ _ H) as (p & r1 & E & H1 & Hn1 & Hp0 & Hp1).
  cut (tl_of (fst (scan ulower r)) = fst (s_scan ulower t) /\ at_ (snd (scan ulower r)) (snd (s_scan ulower t)) /\
       (strtok (fst (fst (fst (scan ulower r)))) = false -> snd (fst (fst (scan ulower r))) = p)).
  { intros (A1 & A2 & A3). split; [exact A1|]. split; [exact A2|]. intros Hs. rewrite (A3 Hs). exact Hp1. }
  clear Hp1. unfold scan, s_scan. rewrite E. destruct (sread t) as [ch0 t1]. cbn [fst snd] in *.
  assert (Hn1' : r_n r1 <= 1) by lia.
  pose proof (unread_at' _ _ _ _ H1 ltac:(lia) Hp0) as Hu.
  (* the second rune, for the tokens that look one ahead *)
  destruct (read_atH T r1 _ _ Hp0) as (p2 & r2 & E2 & H2h & Hn2 & _). pose proof (atH_weaken T _ _ _ H2h) as H2.
  assert (Hn2' : r_n r2 = 0) by lia.
  pose proof (unread_atH T r2 _ _ _ H2h ltac:(lia)) as Hu2h. cbn [fst] in Hu2h. pose proof (atH_weaken T _ _ _ Hu2h) as Hu2.
  destruct (is_whitespace ch0); [apply (ref_scan_whitespace r1 t1 ch0 p H1 ltac:(lia) Hp0) || (destruct (ref_scan_whitespace r1 t1 ch0 p H1 ltac:(lia) Hp0) as (B1 & B2 & B3); split; [exact B1|split; [exact B2|intros _; exact B3]])|].
  destruct (is_letter ch0 || (ch0 =? 95)).
  { destruct (ref_scan_ident true _ _ Hu) as [B1 B2]. split; [exact B1|]. split; [exact B2|].
    intros Hs. exact (scan_ident_pos true r1 _ _ _ Hp0 ltac:(lia) Hs). }
  destruct (is_digit ch0).
  { destruct (ref_scan_number r1 t1 ch0 p Hp0 ltac:(lia)) as (B1 & B2 & B3). split; [exact B1|split; [exact B2|intros _; exact B3]]. }
  destruct (ch0 =? 0); [one H1|].
  destruct (ch0 =? 34).
  { destruct (ref_scan_ident true _ _ Hu) as [B1 B2]. split; [exact B1|]. split; [exact B2|].
    intros Hs. exact (scan_ident_pos true r1 _ _ _ Hp0 ltac:(lia) Hs). }
  destruct (ch0 =? 39).
  { destruct (ref_scan_string r1 t1 ch0 _ H1 ltac:(lia) Hp0) as (Et & Ha & _). split; [exact Et|]. split; [exact Ha|].
    unfold scan_string. destruct (ScanString _) as [[lit err] r3]. destruct (err =? 1); [cbn; discriminate|].
    destruct (err =? 2); cbn; discriminate. }
  destruct (ch0 =? 46) eqn:E46.
  { apply Z.eqb_eq in E46. rewrite E2. destruct (sread t1) as [ch1 t2]. cbn [fst snd] in *.
    destruct (is_digit ch1); [|one Hu2]. subst ch0.
    destruct (ref_scan_number (unread r2) (ucons ch1 t2) 46 p Hu2h ltac:(rewrite unread_n; lia)) as (B1 & B2 & B3).
    split; [exact B1|split; [exact B2|intros _; exact B3]]. }
  destruct (ch0 =? 36).
  { destruct (ref_scan_ident false r1 t1 H1) as (Et & Ha).
    destruct (scan_ident ulower false r1) as [[[tok pos'] lit] r3]. destruct (s_scan_ident ulower false t1) as [[tok' lit'] t3].
    cbn [tl_of fst snd] in *. injection Et as <- <-. destruct tok; one Ha. }
  destruct (ch0 =? 43); [one H1|].
  destruct (ch0 =? 45).
  { rewrite E2. destruct (sread t1) as [ch1 t2]. cbn [fst snd] in *.
    destruct (ch1 =? 45); [|one Hu2]. cbn. split; [reflexivity|]. split; [|intros _; reflexivity].
    apply ref_skip_newline; [exact H2|apply fuel_gt; exact H2|apply sfuel_gt]. }
  destruct (ch0 =? 42); [one H1|].
  destruct (ch0 =? 47).
  { rewrite E2. destruct (sread t1) as [ch1 t2]. cbn [fst snd] in *.
    destruct (ch1 =? 42); [|one Hu2].
    destruct (ref_skip_comment (read_fuel r2) (sfuel t2) false r2 t2 H2 (fuel_gt _ _ H2) (sfuel_gt _)) as (r3 & E3 & H3).
    rewrite E3. destruct (s_skip_comment (sfuel t2) false t2) as [err t3]. cbn [fst snd] in *. destruct err; one H3. }
  destruct (ch0 =? 37); [one H1|]. destruct (ch0 =? 38); [one H1|]. destruct (ch0 =? 124); [one H1|].
  destruct (ch0 =? 94); [one H1|].
  destruct (ch0 =? 61).
  { rewrite E2. destruct (sread t1) as [ch1 t2]. cbn [fst snd] in *. destruct (ch1 =? 126); [one H2|one Hu2]. }
  destruct (ch0 =? 33).
  { rewrite E2. destruct (sread t1) as [ch1 t2]. cbn [fst snd] in *.
    destruct (ch1 =? 61); [one H2|]. destruct (ch1 =? 126); [one H2|one Hu2]. }
  destruct (ch0 =? 62).
  { rewrite E2. destruct (sread t1) as [ch1 t2]. cbn [fst snd] in *. destruct (ch1 =? 61); [one H2|one Hu2]. }
  destruct (ch0 =? 60).
  { rewrite E2. destruct (sread t1) as [ch1 t2]. cbn [fst snd] in *.
    destruct (ch1 =? 61); [one H2|]. destruct (ch1 =? 62); [one H2|one Hu2]. }
  destruct (ch0 =? 40); [one H1|]. destruct (ch0 =? 41); [one H1|]. destruct (ch0 =? 44); [one H1|].
  destruct (ch0 =? 59); [one H1|].
  destruct (ch0 =? 58).
  { rewrite E2. destruct (sread t1) as [ch1 t2]. cbn [fst snd] in *. destruct (ch1 =? 58); [one H2|one Hu2]. }
  one H1.
Qed.

End Ref.
