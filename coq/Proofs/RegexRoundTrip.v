(* ScanRegex through the plain-text lexer, and C02 for regex literals: RegexLiteral.String re-scans to the same
   regex source. *)
From InfluxQL Require Import Base.Prelude Base.Oracles Lex.Token Lex.Reader Lex.Scanner Proofs.LexerSafety Ast.Ast Ast.Printer.
From InfluxQL Require Import Lex.StreamLex Proofs.RingAt Proofs.RingRefine.

Fixpoint s_delimited_loop (fuel : nat) (t : text) (acc : text) : option text * text :=
  match fuel with
  | O => (None, t)
  | S f =>
      let '(ch0, t1) := sread t in
      if ch0 =? 47 then (Some (rev acc), t1)
      else if ch0 =? 0 then (None, t1)
      else if ch0 =? 10 then (None, t1)
      else if ch0 =? 92 then
        let '(ch1, t2) := sread t1 in
        if ch1 =? 0 then (None, t2)
        else if ch1 =? 47 then s_delimited_loop f t2 (47 :: acc)
        else s_delimited_loop f (ucons ch1 t2) (92 :: acc)
      else s_delimited_loop f t1 (ch0 :: acc)
  end.

Definition s_scan_regex (t : text) : (token * text) * text :=
  let '(ch, t1) := sread t in
  if ch =? 0 then ((BADREGEX, []), t1)
  else if negb (ch =? 47) then ((BADREGEX, []), t1)
  else
    let '(res, t2) := s_delimited_loop (sfuel t1) t1 [] in
    match res with Some b => ((REGEX, b), t2) | None => ((BADREGEX, []), t2) end.

Section R.
Variable T : text.
Notation at_ := (at_ T).
Notation atH := (atH T).

Lemma ref_delimited f1 : forall f2 r t acc, at_ r t -> (length t < f1)%nat -> (length t < f2)%nat ->
  exists r', scan_delimited_loop f1 r acc = (fst (s_delimited_loop f2 t acc), r') /\ at_ r' (snd (s_delimited_loop f2 t acc)).
Proof.
  induction f1 as [|f1 IH]; intros f2 r t acc H L1 L2; [lia|]. destruct f2 as [|f2]; [lia|].
  cbn [scan_delimited_loop s_delimited_loop].
  destruct (read_at' T _ _ H) as (p & r1 & E & H1 & Hn & Hp0 & _). rewrite E.
  pose proof (at_n _ _ _ H) as Hr.
  destruct t as [|c t1]; cbn [sread fst snd] in *.
  - cbn. eexists. split; [reflexivity|exact H1].
  - destruct (c =? 47); [eexists; split; [reflexivity|exact H1]|].
    destruct (c =? 0); [eexists; split; [reflexivity|exact H1]|].
    destruct (c =? 10); [eexists; split; [reflexivity|exact H1]|].
    destruct (c =? 92).
    + destruct (read_at' T _ _ H1) as (p2 & r2 & E2 & H2 & Hn2 & Hp20 & _). rewrite E2.
      pose proof (at_n _ _ _ H1) as Hr1.
      destruct t1 as [|d t2]; cbn [sread fst snd] in *.
      * cbn. eexists. split; [reflexivity|exact H2].
      * destruct (d =? 0); [eexists; split; [reflexivity|exact H2]|].
        destruct (d =? 47).
        -- apply IH; [exact H2|cbn in L1; lia|cbn in L2; lia].
        -- apply IH; [exact (unread_at' T _ _ _ _ H2 ltac:(lia) Hp20)| |].
           ++ pose proof (length_ucons d t2). cbn in L1. lia.
           ++ pose proof (length_ucons d t2). cbn in L2. lia.
    + apply IH; [exact H1|cbn in L1; lia|cbn in L2; lia].
Qed.

Lemma ref_scan_regex r t : at_ r t -> r_n r <= 2 ->
  tl_of (fst (scan_regex r)) = fst (s_scan_regex t) /\ at_ (snd (scan_regex r)) (snd (s_scan_regex t)).
Proof.
  intros H Hn. unfold scan_regex, s_scan_regex. pose proof (check_at T _ _ H) as Hk.
  destruct (read_at' T _ _ Hk) as (p & r1 & E & H1 & Hn1 & _). rewrite E.
  destruct (sread t) as [ch t1]. cbn [fst snd] in *.
  destruct (ch =? 0); [cbn; split; [reflexivity|exact H1]|].
  destruct (negb (ch =? 47)); [cbn; split; [reflexivity|exact H1]|].
  destruct (ref_delimited (read_fuel r1) (sfuel t1) r1 t1 [] H1 (fuel_gt T _ _ H1) (sfuel_gt _)) as (r2 & E2 & H2).
  rewrite E2. destruct (s_delimited_loop (sfuel t1) t1 []) as [res t2]. cbn [fst snd] in *.
  destruct res; cbn; (split; [reflexivity|exact H2]).
Qed.
End R.

(* ---- C02: a printed regex literal is scanned back to the same source ---- *)
Definition rx_ok (s : text) : Prop := Forall (fun c => c <> 0 /\ c <> 10) s /\ last s 0 <> 92.

Lemma esc_head c s : exists d u, escape_slashes (c :: s) = d :: u /\ (c = 47 -> d = 92) /\ (c <> 47 -> d = c).
Proof.
  unfold escape_slashes. cbn [flat_map]. destruct (Z.eqb_spec c 47) as [->|Hc].
  - eexists _, _. split; [reflexivity|]. split; [reflexivity|]. intros Hx. contradiction.
  - eexists _, _. split; [reflexivity|]. split; [intros Hx; contradiction|reflexivity].
Qed.

Lemma delimited_printed rest : forall s f acc, rx_ok s -> (length s < f)%nat ->
  s_delimited_loop f (escape_slashes s ++ 47 :: rest) acc = (Some (rev acc ++ s), rest).
Proof.
  induction s as [|c s IH]; intros f acc [Hz Hl] L; (destruct f as [|f]; [cbn in L; lia|]).
  - cbn. rewrite app_nil_r. reflexivity.
  - inversion Hz as [|? ? [Hc0 Hc10] Hz']; subst.
    assert (Hok' : rx_ok s) by (split; [exact Hz'|destruct s; [cbn; lia|exact Hl]]).
    assert (L' : (length s < f)%nat) by (cbn in L; lia).
    unfold escape_slashes. cbn [flat_map]. fold (escape_slashes s).
    destruct (Z.eqb_spec c 47) as [->|Hc47].
    + (* a slash: printed as backslash slash *)
      cbn [app s_delimited_loop sread]. cbn [Z.eqb Pos.eqb].
      rewrite (IH f (47 :: acc) Hok' L'). cbn [rev]. rewrite <- app_assoc. reflexivity.
    + cbn [app s_delimited_loop sread].
      destruct (Z.eqb_spec c 47) as [|_]; [contradiction|]. destruct (Z.eqb_spec c 0) as [|_]; [contradiction|].
      destruct (Z.eqb_spec c 10) as [|_]; [contradiction|].
      destruct (Z.eqb_spec c 92) as [->|Hc92].
      * (* a backslash: not the last rune, and what is printed behind it does not start with a slash *)
        destruct s as [|c' s']; [cbn in Hl; lia|].
        destruct (esc_head c' s') as (d & u & Ee & Hd1 & Hd2). rewrite Ee. cbn [app sread].
        inversion Hz' as [|? ? [Hc0' Hc10'] _]; subst.
        assert (Hd : d <> 0 /\ d <> 47).
        { destruct (Z.eq_dec c' 47) as [E|E]; [rewrite (Hd1 E); lia|rewrite (Hd2 E); lia]. }
        destruct Hd as [Hd0 Hd47].
        destruct (Z.eqb_spec d 0) as [|_]; [contradiction|]. destruct (Z.eqb_spec d 47) as [|_]; [contradiction|].
        rewrite (ucons_nz d _ Hd0). change (d :: u ++ 47 :: rest) with ((d :: u) ++ 47 :: rest). rewrite <- Ee.
        rewrite (IH f (92 :: acc) Hok' L'). cbn [rev]. rewrite <- app_assoc. reflexivity.
      * rewrite (IH f (c :: acc) Hok' L'). cbn [rev]. rewrite <- app_assoc. reflexivity.
Qed.

Theorem s_scan_regex_printed s rest : rx_ok s -> s_scan_regex (print_regex s ++ rest) = ((REGEX, s), rest).
Proof.
  intros Hok. unfold s_scan_regex, print_regex. cbn [app sread]. cbn [Z.eqb Pos.eqb negb].
  rewrite <- app_assoc. cbn [app]. rewrite (delimited_printed rest s _ [] Hok).
  - reflexivity.
  - unfold sfuel. rewrite app_length. cbn [length].
    assert (length s <= length (escape_slashes s))%nat.
    { clear. induction s as [|c s IH]; [cbn; lia|]. unfold escape_slashes in *. cbn [flat_map]. rewrite app_length.
      destruct (c =? 47); cbn [length]; lia. }
    lia.
Qed.


(* every regex source the scanner returns is in that class: no NUL, no line feed, no trailing backslash *)
Definition okc (c : Z) : Prop := c <> 0 /\ c <> 10.

Lemma last_rev_hd (acc : text) : last (rev acc) 0 = hd 0 acc.
Proof. destruct acc as [|c acc]; [reflexivity|]. cbn [rev hd]. apply last_last. Qed.

Lemma delimited_rx f : forall t acc b t', s_delimited_loop f t acc = (Some b, t') ->
  Forall okc acc -> (hd 0 acc = 92 -> fst (sread t) <> 47) -> rx_ok b.
Proof.
  induction f as [|f IH]; intros t acc b t'; cbn [s_delimited_loop]; [intros E; discriminate E|].
  destruct (sread t) as [c t1] eqn:Es. cbn [fst]. intros E Hacc Hhd.
  destruct (Z.eqb_spec c 47) as [->|H47].
  - injection E as <- <-. split; [apply Forall_rev; exact Hacc|]. rewrite last_rev_hd. intros Hx. exact (Hhd Hx eq_refl).
  - destruct (Z.eqb_spec c 0) as [|H0]; [discriminate E|]. destruct (Z.eqb_spec c 10) as [|H10]; [discriminate E|].
    destruct (Z.eqb_spec c 92) as [->|H92].
    + destruct (sread t1) as [d t2] eqn:Es1. destruct (Z.eqb_spec d 0) as [|Hd0]; [discriminate E|].
      destruct (Z.eqb_spec d 47) as [->|Hd47].
      * apply (IH _ _ _ _ E); [constructor; [split; lia|exact Hacc]|cbn; lia].
      * apply (IH _ _ _ _ E); [constructor; [split; lia|exact Hacc]|]. intros _. rewrite sread_ucons. exact Hd47.
    + apply (IH _ _ _ _ E); [constructor; [split; assumption|exact Hacc]|]. cbn. intros Hx. contradiction.
Qed.

Theorem scanned_regex_ok t b t' : s_scan_regex t = ((REGEX, b), t') -> rx_ok b.
Proof.
  unfold s_scan_regex. destruct (sread t) as [ch t1]. destruct (ch =? 0); [intros E; discriminate E|].
  destruct (negb (ch =? 47)); [intros E; discriminate E|].
  destruct (s_delimited_loop (sfuel t1) t1 []) as [res t2] eqn:El. destruct res as [b'|]; [|intros E; discriminate E].
  intros E. injection E as <- <-. apply (delimited_rx _ _ _ _ _ El); [constructor|cbn; lia].
Qed.

(* C02 for regex literals, every accepted regex: printing it and scanning the print gives the same regex and
   leaves the text behind it *)
Theorem regex_print_scan t b t' rest : s_scan_regex t = ((REGEX, b), t') ->
  s_scan_regex (print_regex b ++ rest) = ((REGEX, b), rest).
Proof. intros E. apply s_scan_regex_printed. exact (scanned_regex_ok _ _ _ E). Qed.

(* the same on the exact lexer *)
Theorem ring_regex_print_scan T1 T2 r1 r2 t rest :
  at_ T1 r1 t -> r_n r1 <= 2 -> fst (fst (fst (scan_regex r1))) = REGEX ->
  at_ T2 r2 (print_regex (snd (fst (scan_regex r1))) ++ rest) -> r_n r2 <= 2 ->
  tl_of (fst (scan_regex r2)) = (REGEX, snd (fst (scan_regex r1))) /\ at_ T2 (snd (scan_regex r2)) rest.
Proof.
  intros H1 N1 Hk H2 N2. destruct (ref_scan_regex T1 r1 t H1 N1) as [E1 _].
  destruct (scan_regex r1) as [[[tok p] b] r1']. cbn [tl_of fst snd] in *. subst tok.
  destruct (s_scan_regex t) as [[tok' b'] t'] eqn:Es. cbn [fst] in E1. injection E1 as <- <-.
  destruct (ref_scan_regex T2 r2 _ H2 N2) as [E2 A2].
  rewrite (regex_print_scan t b t' rest Es) in E2, A2. cbn [fst snd] in *. split; [exact E2|exact A2].
Qed.
