(* C04: the parser programs never reach a panic site and never fault the 3-slot token ring, for every text, every
   parameter binding and every fuel.  A weakest-precondition logic over an abstraction of the ring: the last three
   tokens scanned (after parameter substitution) and the number of pushed-back tokens. *)
From InfluxQL Require Import Base.Prelude Base.Oracles Lex.Token Lex.Reader Lex.Scanner Ast.Ast Parse.Instr.

Definition tok0 : tokinfo := (ILLEGAL, [], -1).

(* abstract ring: the three most recent tokens (most recent first) and the pushback count *)
Record astate : Type := mkA { a_h0 : tokinfo; a_h1 : tokinfo; a_h2 : tokinfo; a_n : nat }.
Definition a_nth (s : astate) (k : nat) : tokinfo :=
  match k with O => a_h0 s | S O => a_h1 s | _ => a_h2 s end.
Definition a_fresh (t : tokinfo) (s : astate) : astate := mkA t (a_h0 s) (a_h1 s) 0.
Definition a_set_n (s : astate) (n : nat) : astate := mkA (a_h0 s) (a_h1 s) (a_h2 s) n.

Inductive wp {A : Type} : astate -> prog A -> (A -> astate -> Prop) -> Prop :=
| wp_ret s a (Q : A -> astate -> Prop) : Q a s -> wp s (Ret a) Q
| wp_fail s e Q : wp s (Fail e) Q
| wp_scan s k Q :
    (a_n s = O -> forall t, wp (a_fresh t s) (k t) Q) ->
    (forall m, a_n s = S m -> wp (a_set_n s m) (k (a_nth s m)) Q) ->
    wp s (DoScan k) Q
| wp_scan_regex s k Q :
    (a_n s = O -> forall t, wp (a_fresh t s) (k t) Q) ->
    (forall m, a_n s = S m -> wp (a_set_n s m) (k (a_nth s m)) Q) ->
    wp s (DoScanRegex k) Q
| wp_unscan s k Q : (a_n s <= 2)%nat -> wp (a_set_n s (S (a_n s))) k Q -> wp s (DoUnscan k) Q
| wp_peek s k Q : (forall c, wp s (k c) Q) -> wp s (DoPeek k) Q.

Lemma wp_conseq {A} s (p : prog A) (Q Q' : A -> astate -> Prop) :
  wp s p Q -> (forall a s', Q a s' -> Q' a s') -> wp s p Q'.
Proof.
  induction 1 as [s a Q Hq|s e Q|s k Q H0 IH0 HS IHS|s k Q H0 IH0 HS IHS|s k Q Hn H IH|s k Q H IH]; intros Himp.
  - apply wp_ret. apply Himp. exact Hq.
  - apply wp_fail.
  - apply wp_scan; [intros E t; apply IH0; assumption|intros m E; apply (IHS m E); assumption].
  - apply wp_scan_regex; [intros E t; apply IH0; assumption|intros m E; apply (IHS m E); assumption].
  - apply wp_unscan; [exact Hn|apply IH; exact Himp].
  - apply wp_peek. intros c. apply IH. exact Himp.
Qed.

Lemma wp_bind {A B} s (p : prog A) (f : A -> prog B) (Q : A -> astate -> Prop) (R : B -> astate -> Prop) :
  wp s p Q -> (forall a s', Q a s' -> wp s' (f a) R) -> wp s (bind p f) R.
Proof.
  induction 1 as [s a Q Hq|s e Q|s k Q H0 IH0 HS IHS|s k Q H0 IH0 HS IHS|s k Q Hn H IH|s k Q H IH]; intros Hf; cbn [bind].
  - apply Hf. exact Hq.
  - apply wp_fail.
  - apply wp_scan; [intros E t; apply IH0; assumption|intros m E; apply (IHS m E); assumption].
  - apply wp_scan_regex; [intros E t; apply IH0; assumption|intros m E; apply (IHS m E); assumption].
  - apply wp_unscan; [exact Hn|apply IH; exact Hf].
  - apply wp_peek. intros c. apply IH. exact Hf.
Qed.

(* ---- soundness against the interpreter ---- *)
Section Sound.
Variable ulower : Z -> Z.
(* what is assumed of the lexer: an invariant of the rune reader that scanning and peeking keep, under which the
   reader never faults its own ring (discharged for the reader primitives in ReaderProofs; for whole tokens it is the
   bounded statement C04_lexer_total_upto3 plus the correspondence) *)
Variable Rinv : reader -> Prop.
Hypothesis Hscan : forall r, Rinv r -> Rinv (snd (scan ulower r)) /\ r_bad (snd (scan ulower r)) = false.
Hypothesis Hscan_regex : forall r, Rinv r -> Rinv (snd (scan_regex r)) /\ r_bad (snd (scan_regex r)) = false.
Hypothesis Hpeek : forall r, Rinv r ->
  let '((ch, _), r') := read r in
  let r'' := if ch =? 0 then r' else unread r' in Rinv r'' /\ r_bad r'' = false.

Definition subst_slot (params : list (text * (token * text))) (sl : tokslot) : tokinfo :=
  let '(tok, _, lit, ser) := sl in
  let '(tok', lit') := substitute params tok lit in (tok', lit', ser).

(* the abstract ring describes the concrete one *)
Definition abs (s : pstate) (a : astate) : Prop :=
  ps_bad s = false /\ Rinv (ps_rd s) /\ r_bad (ps_rd s) = false /\
  0 <= ps_i s <= 2 /\ ps_n s = Z.of_nat (a_n a) /\ (a_n a <= 3)%nat /\
  subst_slot (ps_params s) (ps_get s (Z.rem (ps_i s + 3) 3)) = a_h0 a /\
  subst_slot (ps_params s) (ps_get s (Z.rem (ps_i s + 2) 3)) = a_h1 a /\
  subst_slot (ps_params s) (ps_get s (Z.rem (ps_i s + 1) 3)) = a_h2 a.

Definition good {A} (Q : A -> astate -> Prop) (r : res (A * pstate)) : Prop :=
  match r with
  | Ok (a, s') => exists a', abs s' a' /\ Q a a'
  | Err _ | OutOfFuel => True
  | Crash _ => False
  end.

Lemma abs_unscan s a : abs s a -> (a_n a <= 2)%nat -> abs (do_unscan s) (a_set_n a (S (a_n a))).
Proof.
  intros (Hb & Hr & Hrb & Hi & Hn & Hn3 & H0 & H1 & H2) Hle. unfold abs, do_unscan. cbn.
  repeat split; try assumption; try lia.
Qed.

Lemma abs_peek s a : abs s a ->
  let '(c, s') := do_peek s in abs s' a /\ state_bad s' = false.
Proof.
  intros (Hb & Hr & Hrb & Hi & Hn & Hn3 & H0 & H1 & H2). unfold do_peek.
  pose proof (Hpeek (ps_rd s) Hr) as Hp. destruct (read (ps_rd s)) as [[ch p0] r']. destruct Hp as [Hp1 Hp2].
  unfold abs, state_bad. cbn. rewrite Hb, Hp2. repeat split; try assumption; try lia.
Qed.

Lemma abs_scan regex s a : abs s a ->
  let '(t, s') := buf_scan ulower regex s in
  state_bad s' = false /\
  ((a_n a = O /\ abs s' (a_fresh t a)) \/ (exists m, a_n a = S m /\ t = a_nth a m /\ abs s' (a_set_n a m))).
Proof.
  intros (Hb & Hr & Hrb & Hi & Hn & Hn3 & H0 & H1 & H2). unfold buf_scan.
  destruct (Z.ltb_spec 0 (ps_n s)) as [Hpos|Hzero].
  - (* replay *)
    destruct (a_n a) as [|m] eqn:En; [lia|].
    assert (Em : ps_n s - 1 = Z.of_nat m) by lia.
    assert (Hi3 : ps_i s = 0 \/ ps_i s = 1 \/ ps_i s = 2) by lia.
    assert (Hm3 : m = 0%nat \/ m = 1%nat \/ m = 2%nat) by lia.
    unfold ps_curr, ps_curr_index. cbn [ps_i ps_n ps_b0 ps_b1 ps_b2 ps_get ps_rd ps_next ps_log ps_params ps_bad ps_maxn ps_steps].
    rewrite Em.
    set (idx := Z.rem (ps_i s - Z.of_nat m + 3) 3).
    assert (Hidx : 0 <= idx) by (subst idx; apply Z.rem_nonneg; lia).
    assert (Hsl : subst_slot (ps_params s) (ps_get s idx) = a_nth a m).
    { subst idx. destruct Hm3 as [-> | [-> | ->]]; cbn [a_nth].
      - replace (ps_i s - Z.of_nat 0 + 3) with (ps_i s + 3) by lia. exact H0.
      - replace (ps_i s - Z.of_nat 1 + 3) with (ps_i s + 2) by lia. exact H1.
      - replace (ps_i s - Z.of_nat 2 + 3) with (ps_i s + 1) by lia. exact H2. }
    unfold ps_get in *. unfold subst_slot in Hsl.
    cbn [ps_i ps_n ps_b0 ps_b1 ps_b2 ps_get ps_rd ps_next ps_log ps_params ps_bad ps_maxn ps_steps].
    destruct (if idx =? 0 then ps_b0 s else if idx =? 1 then ps_b1 s else ps_b2 s) as [[[tok p0] lit] ser] eqn:Esl.
    destruct (substitute (ps_params s) tok lit) as [tok' lit'] eqn:Esub.
    split.
    + unfold state_bad. cbn. rewrite Hb, Hrb. destruct (Z.ltb_spec idx 0); [lia|reflexivity].
    + right. exists m. split; [reflexivity|]. split; [exact Hsl|].
      unfold abs. cbn. rewrite Hb. destruct (Z.ltb_spec idx 0); [lia|].
      repeat split; try assumption; try lia.
  - (* a fresh scan *)
    destruct (a_n a) as [|m] eqn:En; [|lia].
    pose proof (Hscan (ps_rd s) Hr) as Hs1. pose proof (Hscan_regex (ps_rd s) Hr) as Hs2.
    destruct (if regex then scan_regex (ps_rd s) else scan ulower (ps_rd s)) as [[[tok p0] lit] rd'] eqn:Esc.
    assert (Hrd : Rinv rd' /\ r_bad rd' = false).
    { destruct regex; [rewrite Esc in Hs2|rewrite Esc in Hs1]; assumption. }
    destruct Hrd as [Hrd1 Hrd2].
    destruct (substitute (ps_params s) tok lit) as [tok' lit'] eqn:Esub.
    split.
    + unfold state_bad. cbn. rewrite Hb, Hrd2. reflexivity.
    + left. split; [reflexivity|]. unfold abs, a_fresh. cbn.
      assert (Hi3 : ps_i s = 0 \/ ps_i s = 1 \/ ps_i s = 2) by lia.
      unfold ps_get in *. cbn.
      destruct Hi3 as [Ei|[Ei|Ei]]; rewrite Ei in *; cbn in *; unfold subst_slot; rewrite ?Esub;
        repeat split; try assumption; try lia; try reflexivity.
Qed.

Theorem wp_sound {A} a (p : prog A) Q : wp a p Q -> forall s, abs s a -> good Q (run ulower p s).
Proof.
  induction 1 as [a x Q Hq|a e Q|a k Q H0 IH0 HS IHS|a k Q H0 IH0 HS IHS|a k Q Hn H IH|a k Q H IH]; intros s Ha; cbn [run].
  - exists a. split; assumption.
  - destruct e; exact I.
  - pose proof (abs_scan false s a Ha) as Hs. destruct (buf_scan ulower false s) as [t s'].
    destruct Hs as [Hbad [[En Ha']|(m & En & Et & Ha')]]; rewrite Hbad.
    + destruct (state_oof s'); [exact I|]. apply IH0; assumption.
    + destruct (state_oof s'); [exact I|]. subst t. apply (IHS m En); assumption.
  - pose proof (abs_scan true s a Ha) as Hs. destruct (buf_scan ulower true s) as [t s'].
    destruct Hs as [Hbad [[En Ha']|(m & En & Et & Ha')]]; rewrite Hbad.
    + destruct (state_oof s'); [exact I|]. apply IH0; assumption.
    + destruct (state_oof s'); [exact I|]. subst t. apply (IHS m En); assumption.
  - apply IH. apply abs_unscan; assumption.
  - pose proof (abs_peek s a Ha) as Hp. destruct (do_peek s) as [c s']. destruct Hp as [Ha' Hbad]. rewrite Hbad.
    apply IH. exact Ha'.
Qed.
End Sound.

(* ---- derived rules that never split on the pushback count ---- *)
Definition le_n (b : nat) (s : astate) : Prop := (a_n s <= b)%nat.
Definition last_is (t : tokinfo) (s : astate) : Prop := a_nth s (a_n s) = t /\ (a_n s <= 2)%nat.
Definition next_is (t : tokinfo) (s : astate) : Prop := exists m, a_n s = S m /\ a_nth s m = t.

Lemma le_n_mono b b' s : le_n b s -> (b <= b')%nat -> le_n b' s.
Proof. unfold le_n. lia. Qed.

Lemma r_scan_gen {A} (mk : (tokinfo -> prog A) -> prog A) b s (k : tokinfo -> prog A) Q :
  (forall s0 k0 Q0, (a_n s0 = O -> forall t, wp (a_fresh t s0) (k0 t) Q0) ->
                    (forall m, a_n s0 = S m -> wp (a_set_n s0 m) (k0 (a_nth s0 m)) Q0) -> wp s0 (mk k0) Q0) ->
  le_n b s -> (b <= 3)%nat ->
  (forall t s', le_n (pred b) s' -> last_is t s' -> wp s' (k t) Q) -> wp s (mk k) Q.
Proof.
  intros Hmk Hb Hb3 Hk. apply Hmk.
  - intros E t. apply Hk; [unfold le_n, a_fresh; cbn; lia|unfold last_is, a_fresh; cbn; split; [reflexivity|lia]].
  - intros m E. apply Hk.
    + unfold le_n, a_set_n in *. cbn. lia.
    + unfold last_is, a_set_n, le_n in *. cbn. split; [|lia].
      destruct m as [|[|m]]; reflexivity.
Qed.

Lemma r_scan {A} b s (k : tokinfo -> prog A) Q :
  le_n b s -> (b <= 3)%nat -> (forall t s', le_n (pred b) s' -> last_is t s' -> wp s' (k t) Q) -> wp s (DoScan k) Q.
Proof. apply (r_scan_gen DoScan). intros. apply wp_scan; assumption. Qed.
Lemma r_scan_regex {A} b s (k : tokinfo -> prog A) Q :
  le_n b s -> (b <= 3)%nat -> (forall t s', le_n (pred b) s' -> last_is t s' -> wp s' (k t) Q) -> wp s (DoScanRegex k) Q.
Proof. apply (r_scan_gen DoScanRegex). intros. apply wp_scan_regex; assumption. Qed.

Lemma r_scan_next {A} b s t (k : tokinfo -> prog A) Q :
  le_n b s -> (b <= 3)%nat -> next_is t s ->
  (forall s', le_n (pred b) s' -> last_is t s' -> wp s' (k t) Q) -> wp s (DoScan k) Q.
Proof.
  intros Hb Hb3 (m & Em & Et) Hk. apply wp_scan; [intros E; lia|]. intros m' E'. assert (m' = m) by lia. subst m'. rewrite Et.
  apply Hk.
  - unfold le_n, a_set_n in *. cbn. lia.
  - unfold last_is, a_set_n, le_n in *. cbn. split; [|lia]. rewrite <- Et. destruct m as [|[|m]]; reflexivity.
Qed.

Lemma r_unscan {A} b s (k : prog A) Q :
  le_n b s -> (b <= 2)%nat ->
  (forall s', le_n (S b) s' -> (forall t, last_is t s -> next_is t s') -> wp s' k Q) -> wp s (DoUnscan k) Q.
Proof.
  intros Hb Hb2 Hk. apply wp_unscan; [unfold le_n in Hb; lia|]. apply Hk.
  - unfold le_n, a_set_n in *. cbn. lia.
  - intros t [Ht Hn]. exists (a_n s). split; [reflexivity|]. unfold a_set_n. cbn.
    destruct (a_n s) as [|[|m]]; exact Ht.
Qed.

Lemma next_is_fun t t' s : next_is t s -> next_is t' s -> t = t'.
Proof. intros (m & E & H) (m' & E' & H'). assert (m = m') by lia. subst. reflexivity. Qed.
