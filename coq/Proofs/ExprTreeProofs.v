From InfluxQL Require Import Base.Prelude Lex.Token Ast.Ast Parse.ExprTree.

(* Grouped: at every chain-built node with operator o, a chain-built left
   child has precedence >= prec o and a chain-built right child has
   precedence > prec o; operands are leaves. *)
Inductive Grouped : ctree -> Prop :=
| G_leaf a : Grouped (Leaf a)
| G_node o l r :
    Grouped l -> Grouped r ->
    (forall p, root_prec l = Some p -> p >= prec o) ->
    (forall p, root_prec r = Some p -> p > prec o) ->
    Grouped (Node o l r).

Lemma root_prec_cinsert t o a :
  root_prec (cinsert t o a) = Some (prec o) \/
  (root_prec (cinsert t o a) = root_prec t /\ exists p, root_prec t = Some p /\ p < prec o).
Proof.
  destruct t as [b|o' l r]; cbn [cinsert].
  - left; reflexivity.
  - destruct (prec o' >=? prec o) eqn:E.
    + left; reflexivity.
    + right; split; [reflexivity|]. exists (prec o'); split; [reflexivity|]. lia.
Qed.

Lemma cinsert_grouped t o a : Grouped t -> Grouped (cinsert t o a).
Proof.
  induction 1 as [b|o' l r Hl IHl Hr IHr HL HR]; cbn [cinsert].
  - constructor; try constructor; cbn; intros p Hp; discriminate.
  - destruct (prec o' >=? prec o) eqn:E.
    + constructor; [constructor; assumption|constructor| |].
      * cbn; intros p Hp; inversion Hp; subst; lia.
      * cbn; intros p Hp; discriminate.
    + constructor; [assumption|assumption|assumption|].
      intros p Hp.
      destruct (root_prec_cinsert r o a) as [H1|[H1 _]].
      * rewrite H1 in Hp; inversion Hp; subst; lia.
      * rewrite H1 in Hp; apply HR; assumption.
Qed.

Lemma cparse_grouped_gen t rest :
  Grouped t -> Grouped (fold_left (fun t oa => cinsert t (fst oa) (snd oa)) rest t).
Proof.
  revert t; induction rest as [|[o a] rest IH]; intros t Ht; cbn [fold_left]; [assumption|].
  apply IH, cinsert_grouped, Ht.
Qed.

Lemma cparse_grouped a0 rest : Grouped (cparse a0 rest).
Proof. apply cparse_grouped_gen; constructor. Qed.

Lemma flat_cinsert t o a : flat (cinsert t o a) = flat t ++ [inl o; inr a].
Proof.
  induction t as [b|o' l IHl r IHr]; cbn [cinsert flat].
  - reflexivity.
  - destruct (prec o' >=? prec o); cbn [flat].
    + rewrite <- app_assoc; reflexivity.
    + rewrite IHr, <- app_assoc; reflexivity.
Qed.

Lemma cparse_flat_gen t rest :
  flat (fold_left (fun t oa => cinsert t (fst oa) (snd oa)) rest t)
  = flat t ++ flat_map (fun oa => [inl (fst oa); inr (snd oa)]) rest.
Proof.
  revert t; induction rest as [|[o a] rest IH]; intros t; cbn [fold_left flat_map].
  - rewrite app_nil_r; reflexivity.
  - rewrite IH, flat_cinsert, <- app_assoc; reflexivity.
Qed.

Lemma cparse_flat a0 rest : flat (cparse a0 rest) = chain_flat a0 rest.
Proof. unfold cparse, chain_flat; rewrite cparse_flat_gen; reflexivity. Qed.

(* ---- uniqueness of the grouped tree with a given yield ---- *)
Definition ops_ge (p : Z) (l : list (token + expr)) : Prop :=
  forall o, In (inl o) l -> prec o >= p.
Definition ops_gt (p : Z) (l : list (token + expr)) : Prop :=
  forall o, In (inl o) l -> prec o > p.

Lemma grouped_ops_ge t : Grouped t -> forall p, root_prec t = Some p -> ops_ge p (flat t).
Proof.
  induction 1 as [b|o l r Hl IHl Hr IHr HL HR]; intros p Hp; cbn in Hp; [discriminate|].
  inversion Hp; subst p; clear Hp.
  intros o' Hin; cbn [flat] in Hin. apply in_app_or in Hin. destruct Hin as [Hin|[Hin|Hin]].
  - destruct l as [b|ol ll lr]; cbn in Hin.
    + destruct Hin as [Hin|[]]; discriminate.
    + specialize (HL _ eq_refl). specialize (IHl _ eq_refl o' Hin). lia.
  - inversion Hin; subst; lia.
  - destruct r as [b|or_ rl rr]; cbn in Hin.
    + destruct Hin as [Hin|[]]; discriminate.
    + specialize (HR _ eq_refl). specialize (IHr _ eq_refl o' Hin). lia.
Qed.

Lemma grouped_left_ge o l r : Grouped (Node o l r) -> ops_ge (prec o) (flat l).
Proof.
  intros H; inversion H as [|? ? ? Hl Hr HL HR]; subst.
  destruct l as [b|ol ll lr].
  - intros o' [Hin|[]]; discriminate.
  - intros o' Hin. pose proof (grouped_ops_ge _ Hl _ eq_refl o' Hin). specialize (HL _ eq_refl). lia.
Qed.

Lemma grouped_right_gt o l r : Grouped (Node o l r) -> ops_gt (prec o) (flat r).
Proof.
  intros H; inversion H as [|? ? ? Hl Hr HL HR]; subst.
  destruct r as [b|or_ rl rr].
  - intros o' [Hin|[]]; discriminate.
  - intros o' Hin. pose proof (grouped_ops_ge _ Hr _ eq_refl o' Hin). specialize (HR _ eq_refl). lia.
Qed.

Lemma app_eq_split {X} (l1 r1 l2 r2 : list X) :
  l1 ++ r1 = l2 ++ r2 ->
  (exists m, l2 = l1 ++ m /\ r1 = m ++ r2) \/ (exists m, l1 = l2 ++ m /\ r2 = m ++ r1).
Proof.
  revert l2; induction l1 as [|x l1 IH]; intros l2 H.
  - left; exists l2; split; [reflexivity|exact H].
  - destruct l2 as [|y l2].
    + right; exists (x :: l1); split; [reflexivity|symmetry; exact H].
    + cbn in H; inversion H; subst y.
      destruct (IH l2 H2) as [[m [E1 E2]]|[m [E1 E2]]].
      * left; exists m; subst; split; reflexivity.
      * right; exists m; subst; split; reflexivity.
Qed.

(* the root operator is the last operator of minimal precedence *)
Lemma split_unique (l1 r1 l2 r2 : list (token + expr)) o1 o2 :
  l1 ++ inl o1 :: r1 = l2 ++ inl o2 :: r2 ->
  ops_ge (prec o1) l1 -> ops_gt (prec o1) r1 ->
  ops_ge (prec o2) l2 -> ops_gt (prec o2) r2 ->
  l1 = l2 /\ o1 = o2 /\ r1 = r2.
Proof.
  intros E G1 R1 G2 R2.
  destruct (app_eq_split _ _ _ _ E) as [[m [E1 E2]]|[m [E1 E2]]].
  - destruct m as [|x m].
    + rewrite app_nil_r in E1; cbn in E2; inversion E2; subst; auto.
    + cbn in E2; inversion E2; subst x r1.
      assert (prec o1 >= prec o2) by (apply G2; subst l2; apply in_or_app; right; left; reflexivity).
      assert (prec o2 > prec o1) by (apply R1; apply in_or_app; right; left; reflexivity).
      lia.
  - destruct m as [|x m].
    + rewrite app_nil_r in E1; cbn in E2; inversion E2; subst; auto.
    + cbn in E2; inversion E2; subst x r2.
      assert (prec o2 >= prec o1) by (apply G1; subst l1; apply in_or_app; right; left; reflexivity).
      assert (prec o1 > prec o2) by (apply R2; apply in_or_app; right; left; reflexivity).
      lia.
Qed.

Lemma flat_nonempty t : flat t <> [].
Proof. destruct t as [b|o l r]; cbn; [discriminate|]. destruct (flat l); discriminate. Qed.

Lemma flat_no_op_leaf t a : flat t = [inr a] -> t = Leaf a.
Proof.
  destruct t as [b|o l r]; cbn; intros H.
  - congruence.
  - exfalso. pose proof (flat_nonempty l) as Hne.
    destruct (flat l) as [|x xs]; [congruence|].
    cbn in H. inversion H as [[Hx Hxs]]. destruct xs; discriminate.
Qed.

Theorem grouped_unique t1 : forall t2,
  Grouped t1 -> Grouped t2 -> flat t1 = flat t2 -> t1 = t2.
Proof.
  induction t1 as [a|o1 l1 IHl r1 IHr]; intros t2 G1 G2 E.
  - cbn in E. symmetry in E. apply flat_no_op_leaf in E. congruence.
  - destruct t2 as [b|o2 l2 r2].
    + change (flat (Leaf b)) with [@inr token expr b] in E. apply flat_no_op_leaf in E. discriminate.
    + cbn [flat] in E.
      destruct (split_unique _ _ _ _ _ _ E
                  (grouped_left_ge _ _ _ G1) (grouped_right_gt _ _ _ G1)
                  (grouped_left_ge _ _ _ G2) (grouped_right_gt _ _ _ G2)) as [El [Eo Er]].
      inversion G1; inversion G2; subst.
      f_equal; [apply IHl|apply IHr]; assumption.
Qed.

(* ---- link with the function on real expressions ---- *)
Definition leaves_ok (t : ctree) : Prop :=
  forall a, In (inr a) (flat t) -> operand_ok a = true.

Lemma prec_le5 o : prec o <= 5.
Proof. destruct o; cbn; lia. Qed.

Lemma embed_cinsert t o a :
  leaves_ok t -> embed (cinsert t o a) = insert (embed t) o a.
Proof.
  induction t as [b|o' l IHl r IHr]; intros HL; cbn [cinsert embed].
  - assert (Hb : operand_ok b = true) by (apply HL; left; reflexivity).
    destruct b; cbn [insert]; try reflexivity.
    cbn in Hb. apply Z.eqb_eq in Hb. pose proof (prec_le5 o).
    destruct (prec op >=? prec o) eqn:E; [reflexivity|lia].
  - cbn [insert]. destruct (prec o' >=? prec o); cbn [embed]; [reflexivity|].
    rewrite IHr; [reflexivity|].
    intros x Hx; apply HL; cbn [flat]; apply in_or_app; right; right; exact Hx.
Qed.

Lemma leaves_ok_cinsert t o a : leaves_ok t -> operand_ok a = true -> leaves_ok (cinsert t o a).
Proof.
  intros HL Ha x Hx. rewrite flat_cinsert in Hx. apply in_app_or in Hx.
  destruct Hx as [Hx|[Hx|[Hx|[]]]]; [apply HL; assumption|discriminate|congruence].
Qed.

Lemma embed_cparse_gen t rest :
  leaves_ok t -> Forall (fun oa => operand_ok (snd oa) = true) rest ->
  embed (fold_left (fun t oa => cinsert t (fst oa) (snd oa)) rest t)
  = fold_left (fun t oa => insert t (fst oa) (snd oa)) rest (embed t).
Proof.
  revert t; induction rest as [|[o a] rest IH]; intros t HL HF; cbn [fold_left]; [reflexivity|].
  inversion HF; subst. cbn [fst snd] in *.
  rewrite IH; [|apply leaves_ok_cinsert; assumption|assumption].
  rewrite embed_cinsert by assumption. reflexivity.
Qed.

Theorem embed_cparse a0 rest :
  operand_ok a0 = true -> Forall (fun oa => operand_ok (snd oa) = true) rest ->
  embed (cparse a0 rest) = parse_chain a0 rest.
Proof.
  intros H0 HF. unfold cparse, parse_chain. rewrite embed_cparse_gen; [reflexivity| |assumption].
  intros x [Hx|[]]; congruence.
Qed.

(* ---- right spine bound ---- *)
Lemma grouped_spine_aux t : Grouped t ->
  forall p, (forall q, root_prec t = Some q -> q >= p) -> 1 <= p -> p <= 6 ->
  (forall o, In (inl o) (flat t) -> prec o >= 1) ->
  Z.of_nat (right_spine t) <= 6 - p.
Proof.
  induction 1 as [b|o l r Hl IHl Hr IHr HL HR]; intros p Hp H1 H6 Hops; cbn [right_spine].
  - lia.
  - specialize (Hp _ eq_refl). pose proof (prec_le5 o).
    assert (Hr' : Z.of_nat (right_spine r) <= 6 - (prec o + 1)).
    { apply IHr; try lia.
      - intros q Hq. specialize (HR _ Hq). lia.
      - intros o' Hin. apply Hops. cbn [flat]. apply in_or_app; right; right; exact Hin. }
    lia.
Qed.

Theorem grouped_spine t :
  Grouped t -> (forall o, In (inl o) (flat t) -> is_operator o = true) ->
  (right_spine t <= 5)%nat.
Proof.
  intros G Hops.
  assert (H : Z.of_nat (right_spine t) <= 6 - 1).
  { apply grouped_spine_aux; try lia; try assumption.
    - intros q Hq. destruct t as [|o l r]; [discriminate|]. cbn in Hq. inversion Hq; subst.
      assert (Ho : is_operator o = true) by (apply Hops; cbn [flat]; apply in_or_app; right; left; reflexivity).
      destruct o; cbn in Ho; try discriminate; cbn; lia.
    - intros o Hin. specialize (Hops o Hin). destruct o; cbn in Hops; try discriminate; cbn; lia. }
  lia.
Qed.

(* ---- the table: five levels, 18 operators ---- *)
Definition operators : list token :=
  [ADD; SUB; MUL; DIV; MOD; BITWISE_AND; BITWISE_OR; BITWISE_XOR; AND; OR;
   EQ; NEQ; EQREGEX; NEQREGEX; LT; LTE; GT; GTE].

Lemma is_operator_iff t : is_operator t = true <-> In t operators.
Proof.
  split.
  - destruct t; cbn; intros H; try discriminate; repeat (try (left; reflexivity); right).
  - cbn; intros H; repeat (destruct H as [H|H]; [subst; reflexivity|]); destruct H.
Qed.

Definition level (t : token) : Z :=
  if existsb (tok_eqb t) [MUL; DIV; MOD; BITWISE_AND] then 5
  else if existsb (tok_eqb t) [ADD; SUB; BITWISE_OR; BITWISE_XOR] then 4
  else if existsb (tok_eqb t) [EQ; NEQ; LT; LTE; GT; GTE; EQREGEX; NEQREGEX] then 3
  else if tok_eqb t AND then 2
  else if tok_eqb t OR then 1
  else 0.

Lemma prec_levels t : prec t = level t.
Proof. destruct t; reflexivity. Qed.

Lemma prec_pos_iff_operator t : prec t > 0 <-> is_operator t = true.
Proof. destruct t; cbn; split; intros; try lia; try discriminate; reflexivity. Qed.

Lemma cparse_spine a0 rest :
  Forall (fun oa => is_operator (fst oa) = true) rest ->
  (right_spine (cparse a0 rest) <= 5)%nat.
Proof.
  intros HF. apply grouped_spine; [apply cparse_grouped|].
  intros o Hin. rewrite cparse_flat in Hin. unfold chain_flat in Hin.
  destruct Hin as [Hin|Hin]; [discriminate|].
  apply in_flat_map in Hin. destruct Hin as [[o' a'] [Hin' Hin'']].
  rewrite Forall_forall in HF. specialize (HF _ Hin'). cbn [fst snd] in *.
  destruct Hin'' as [E|[E|[]]]; [inversion E; subst; assumption|discriminate].
Qed.
