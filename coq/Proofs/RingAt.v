(* The exact rune reader seen as a plain text: [at r t] says that what the reader will deliver from now on is the
   text [t] - the pushed-back runes followed by the CR-folded rest of the source, without a trailing end marker. *)
From InfluxQL Require Import Base.Prelude Lex.Token Lex.Reader Lex.Scanner Proofs.LexerSafety.
From InfluxQL Require Import Lex.StreamLex.

Fixpoint strip (x : text) : text := match x with [] => [] | c :: y => ucons c (strip y) end.

Definition sl (r : reader) (k : Z) : Z := fst (get_slot r (Z.rem (r_i r - k + 3) 3)).
(* the j-th rune behind the read cursor; j = 0 is the rune read last *)
Definition prev (r : reader) (j : Z) : Z := sl r (r_n r + j).
Definition pend (r : reader) : text :=
  if r_n r =? 0 then [] else if r_n r =? 1 then [sl r 0] else if r_n r =? 2 then [sl r 1; sl r 0] else [sl r 2; sl r 1; sl r 0].

Definition at_ (r : reader) (t : text) : Prop := rb 3 r /\ t = strip (pend r ++ fold_cr (r_src r)).

Lemma sread_ucons c t : sread (ucons c t) = (c, t).
Proof. destruct t as [|d t]; cbn; [destruct (Z.eqb_spec c 0) as [->|]; reflexivity|reflexivity]. Qed.

Lemma sread_strip x : sread (strip x) = (hd 0 x, strip (tl x)).
Proof. destruct x as [|c y]; [reflexivity|]. cbn [strip hd tl]. apply sread_ucons. Qed.

Lemma raw_read_fold s : hd 0 (fold_cr s) = fst (raw_read s) /\ tl (fold_cr s) = fold_cr (snd (raw_read s)).
Proof.
  destruct s as [|c s']; [split; reflexivity|]. cbn [fold_cr raw_read]. destruct (c =? 13); [|split; reflexivity].
  destruct s' as [|d s'']; [split; reflexivity|]. destruct (d =? 10); split; reflexivity.
Qed.

Lemma length_ucons c t : (length (ucons c t) <= S (length t))%nat.
Proof. destruct t; cbn; [destruct (c =? 0); cbn; lia|lia]. Qed.
Lemma length_strip x : (length (strip x) <= length x)%nat.
Proof. induction x as [|c y IH]; [cbn; lia|]. cbn [strip length]. pose proof (length_ucons c (strip y)). lia. Qed.
Lemma length_fold_cr_n n : forall s, (length s <= n)%nat -> (length (fold_cr s) <= length s)%nat.
Proof.
  induction n as [|n IH]; intros s Hs.
  - destruct s; [cbn; lia|cbn in Hs; lia].
  - destruct s as [|c s']; [cbn; lia|]. cbn [fold_cr]. cbn [length] in Hs. destruct (c =? 13).
    + destruct s' as [|d s'']; [cbn; lia|]. cbn [length] in Hs. destruct (d =? 10); cbn [length].
      * pose proof (IH s'' ltac:(lia)). lia.
      * pose proof (IH (d :: s'') ltac:(cbn; lia)). cbn [length] in *. lia.
    + cbn [length]. pose proof (IH s' ltac:(lia)). lia.
Qed.
Lemma length_fold_cr s : (length (fold_cr s) <= length s)%nat.
Proof. apply (length_fold_cr_n (length s)). lia. Qed.

Ltac cases_in r :=
  destruct r as [src i n p b0 b1 b2 e bad oof mx];
  unfold at_, rb, prev, sl, pend, unread, set_n, set_bad, curr, curr_index, curr_panics, get_slot in *;
  cbn [r_src r_i r_n r_pos r_b0 r_b1 r_b2 r_eof r_bad r_oof r_maxn] in *.

Lemma fuel_at r t : at_ r t -> (length t + 4 <= read_fuel r)%nat.
Proof.
  intros [(Hb & Hi & Hn) ->]. unfold read_fuel. pose proof (length_strip (pend r ++ fold_cr (r_src r))) as H.
  rewrite app_length in H. pose proof (length_fold_cr (r_src r)).
  assert (length (pend r) = Z.to_nat (r_n r)) as E.
  { unfold pend. assert (r_n r = 0 \/ r_n r = 1 \/ r_n r = 2 \/ r_n r = 3) as [->|[->|[->| ->]]] by lia; reflexivity. }
  lia.
Qed.
Lemma fuel_unread r : 0 <= r_n r -> read_fuel (unread r) = S (read_fuel r).
Proof. intros H. unfold read_fuel, unread, set_n. cbn. lia. Qed.

Lemma at_rb r t : at_ r t -> rb 3 r.
Proof. intros [H _]. exact H. Qed.

Lemma curr_prev r : fst (curr r) = prev r 0.
Proof. unfold curr, prev, sl, curr_index. rewrite Z.add_0_r. reflexivity. Qed.

Lemma check_at r t : at_ r t -> at_ (set_bad r (r_bad r || curr_panics r)) t.
Proof.
  intros [Hr ->]. split; [apply rb_check; [exact Hr|lia]|]. reflexivity.
Qed.
Lemma check_prev r j : prev (set_bad r (r_bad r || curr_panics r)) j = prev r j.
Proof. reflexivity. Qed.
Lemma check_n r : r_n (set_bad r (r_bad r || curr_panics r)) = r_n r.
Proof. reflexivity. Qed.

Lemma unread_at r t : at_ r t -> r_n r <= 2 -> at_ (unread r) (ucons (prev r 0) t).
Proof.
  intros [Hr ->] Hn. split.
  - destruct Hr as (Hb & Hi & Hn'). unfold rb, unread, set_n. cbn. repeat split; try assumption; lia.
  - destruct Hr as (Hb & Hi & Hn'). cases_in r.
    assert (n = 0 \/ n = 1 \/ n = 2) as [->|[->| ->]] by lia; cbn; rewrite ?Z.add_0_r; reflexivity.
Qed.

Lemma read_at r t c t1 : at_ r t -> sread t = (c, t1) ->
  exists p r', read r = ((c, p), r') /\ at_ r' t1 /\ r_n r' = Z.max (r_n r - 1) 0 /\ prev r' 0 = c /\ prev r' 1 = prev r 0.
Proof.
  intros [Hr ->] E. rewrite sread_strip in E. injection E as <- <-.
  destruct (Z.ltb_spec 0 (r_n r)) as [Hpos|Hz].
  - destruct Hr as (Hb & Hi & Hn). destruct r as [src i n p [c0 p0] [c1 p1] [c2 p2] e bad oof mx].
    cbn [r_src r_i r_n r_pos r_b0 r_b1 r_b2 r_eof r_bad r_oof r_maxn] in *. subst bad.
    assert (n = 1 \/ n = 2 \/ n = 3) as [->|[->| ->]] by lia;
      (assert (i = 0 \/ i = 1 \/ i = 2) as [->|[->| ->]] by lia);
      (eexists _, _; split; [reflexivity|]); (split; [split; [unfold rb; cbn; lia|reflexivity]|]); cbn; repeat split; reflexivity.
  - pose proof (rb_read 3 r Hr ltac:(lia)) as Hr'.
    destruct Hr as (Hb & Hi & Hn). unfold read in *.
    cbn [set_maxn r_n r_i r_bad r_src r_pos r_b0 r_b1 r_b2 r_eof r_oof r_maxn] in *.
    destruct (Z.ltb_spec 0 (r_n r)) as [Hpos|_]; [lia|].
    assert (r_n r = 0) as En by lia. pose proof (raw_read_fold (r_src r)) as [Eh Et].
    destruct (raw_read (r_src r)) as [ch src'] eqn:Er. cbn [fst snd] in *.
    eexists _, _. split; [f_equal; f_equal|].
    + unfold pend. rewrite En. cbn. symmetry. exact Eh.
    + split; [split; [eapply rb_mono; [exact Hr'|lia]|]|].
      * unfold pend. cbn [r_n r_src]. rewrite En. cbn [Z.eqb app]. rewrite Et. reflexivity.
      * cases_in r. subst n. assert (i = 0 \/ i = 1 \/ i = 2) as [->|[->| ->]] by lia; cbn; rewrite ?Eh; repeat split; reflexivity.
Qed.

(* reading, in the shape the refinement proofs use it *)
Lemma read_at' r t : at_ r t ->
  exists p r', read r = ((fst (sread t), p), r') /\ at_ r' (snd (sread t)) /\ r_n r' = Z.max (r_n r - 1) 0 /\
               prev r' 0 = fst (sread t) /\ prev r' 1 = prev r 0.
Proof. intros H. apply (read_at r t); [exact H|]. destruct (sread t); reflexivity. Qed.

Lemma unread_n r : r_n (unread r) = r_n r + 1.
Proof. reflexivity. Qed.
Lemma unread_prev r j : prev (unread r) j = prev r (j + 1).
Proof. unfold prev, unread, set_n, sl, get_slot. cbn. replace (r_n r + 1 + j) with (r_n r + (j + 1)) by lia. reflexivity. Qed.

Lemma at_new s : at_ (new_reader s) (strip (fold_cr s)).
Proof. split; [unfold rb, new_reader; cbn; lia|reflexivity]. Qed.
