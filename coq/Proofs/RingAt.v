(* The exact rune reader seen as a cursor into one CR-folded text T.  [cur T r k]: the reader stands in front of
   the k-th rune of T - its ring holds the runes it may still push back, with the positions they were read at, its
   source is what is left of T behind the runes already taken, and its line/column state is the state after those
   runes.  [at_ T r t]: what the reader will deliver from now on is the text t. *)
From InfluxQL Require Import Base.Prelude Lex.Token Lex.Reader Lex.Scanner Proofs.LexerSafety Lex.StreamLex.

Fixpoint strip (x : text) : text := match x with [] => [] | c :: y => ucons c (strip y) end.

(* the reader's line/column and eof flag after m runes have been taken from the source *)
Fixpoint pst (T : text) (m : nat) : pos * bool :=
  match m with
  | O => (pos0, false)
  | S m' =>
      let '(p, e) := pst T m' in
      let c := nth m' T 0 in
      (if c =? 10 then mkPos (p_line p + 1) 0 else if negb e then mkPos (p_line p) (p_char p + 1) else p, e || (c =? 0))
  end.
(* the m-th rune the source delivers, as the ring records it: end of text reads as 0 *)
Definition A (T : text) (m : nat) : slot := (nth m T 0, fst (pst T m)).

Definition slj (r : reader) (j : Z) : slot := get_slot r (Z.rem (r_i r - j + 3) 3).

Definition cur (T : text) (r : reader) (k : nat) : Prop :=
  exists m : nat,
    r_bad r = false /\ 0 <= r_i r <= 2 /\ 0 <= r_n r <= 3 /\ (Z.to_nat (r_n r) <= m)%nat /\ k = (m - Z.to_nat (r_n r))%nat /\
    fold_cr (r_src r) = skipn m T /\ r_pos r = fst (pst T m) /\ r_eof r = snd (pst T m) /\
    ((1 <= m)%nat -> slj r 0 = A T (m - 1)) /\ ((2 <= m)%nat -> slj r 1 = A T (m - 2)) /\ ((3 <= m)%nat -> slj r 2 = A T (m - 3)).

(* [atH T r h t]: the reader will deliver t, and the slots in h (most recent first) are the ones it read last *)
Definition atH (T : text) (r : reader) (h : list slot) (t : text) : Prop :=
  exists k, cur T r k /\ t = strip (skipn k T) /\ (length h <= k)%nat /\
            forall j, (j < length h)%nat -> nth j h slot0 = A T (k - 1 - j).
Definition at_ (T : text) (r : reader) (t : text) : Prop := atH T r [] t.
(* a slot that is the one in front of which the text t starts *)
Definition slot_at (T : text) (t : text) (a : slot) : Prop := exists k, t = strip (skipn k T) /\ a = A T k.

Lemma sread_ucons c t : sread (ucons c t) = (c, t).
Proof. destruct t as [|d t]; cbn; [destruct (Z.eqb_spec c 0) as [->|]; reflexivity|reflexivity]. Qed.
Lemma sread_strip x : sread (strip x) = (hd 0 x, strip (tl x)).
Proof. destruct x as [|c y]; [reflexivity|]. cbn [strip hd tl]. apply sread_ucons. Qed.
Lemma raw_read_fold s : hd 0 (fold_cr s) = fst (raw_read s) /\ tl (fold_cr s) = fold_cr (snd (raw_read s)).
Proof.
  destruct s as [|c s']; [split; reflexivity|]. cbn [fold_cr raw_read]. destruct (c =? 13); [|split; reflexivity].
  destruct s' as [|d s'']; [split; reflexivity|]. destruct (d =? 10); split; reflexivity.
Qed.
Lemma length_ucons c t : (length (ucons c t) <= S (length t))%nat.
Proof. destruct t; cbn; [destruct (c =? 0); cbn; lia|lia]. Qed.
Lemma length_strip x : (length (strip x) <= length x)%nat.
Proof. induction x as [|c y IH]; [cbn; lia|]. cbn [strip length]. pose proof (length_ucons c (strip y)). lia. Qed.
Lemma length_fold_cr_n n : forall s, (length s <= n)%nat -> (length (fold_cr s) <= length s)%nat.
Proof.
  induction n as [|n IH]; intros s Hs.
  - destruct s; [cbn; lia|cbn in Hs; lia].
  - destruct s as [|c s']; [cbn; lia|]. cbn [fold_cr]. cbn [length] in Hs. destruct (c =? 13).
    + destruct s' as [|d s'']; [cbn; lia|]. cbn [length] in Hs. destruct (d =? 10); cbn [length].
      * pose proof (IH s'' ltac:(lia)). lia.
      * pose proof (IH (d :: s'') ltac:(cbn; lia)). cbn [length] in *. lia.
    + cbn [length]. pose proof (IH s' ltac:(lia)). lia.
Qed.
Lemma length_fold_cr s : (length (fold_cr s) <= length s)%nat.
Proof. apply (length_fold_cr_n (length s)). lia. Qed.

Lemma hd_skipn (T : text) m : hd 0 (skipn m T) = nth m T 0.
Proof. revert T. induction m as [|m IH]; intros [|c T]; cbn; try reflexivity. apply IH. Qed.
Lemma tl_skipn (T : text) m : tl (skipn m T) = skipn (S m) T.
Proof. revert T. induction m as [|m IH]; intros [|c T]; try reflexivity. exact (IH T). Qed.
Lemma skipn_cons_nth (T : text) k : (k < length T)%nat -> skipn k T = nth k T 0 :: skipn (S k) T.
Proof. revert T. induction k as [|k IH]; intros [|c T] H; cbn in *; try lia; [reflexivity|]. apply IH. lia. Qed.
Lemma skipn_all2 (T : text) k : (length T <= k)%nat -> skipn k T = [].
Proof. apply skipn_all2. Qed.
Lemma nth_beyond (T : text) k : (length T <= k)%nat -> nth k T 0 = 0.
Proof. intros H. apply nth_overflow. exact H. Qed.

(* pushing the rune before the cursor back in front of the text behind the cursor *)
Lemma strip_back (T : text) k : strip (skipn k T) = ucons (nth k T 0) (strip (skipn (S k) T)).
Proof.
  destruct (Nat.lt_ge_cases k (length T)) as [H|H].
  - rewrite (skipn_cons_nth T k H). reflexivity.
  - rewrite (skipn_all2 T k H), (skipn_all2 T (S k)) by lia. rewrite (nth_beyond T k H). reflexivity.
Qed.

Lemma cur_rb T r k : cur T r k -> rb 3 r.
Proof. intros (m & Hb & Hi & Hn & _). unfold rb. repeat split; try assumption; lia. Qed.
Lemma atH_rb T r h t : atH T r h t -> rb 3 r.
Proof. intros (k & H & _). exact (cur_rb _ _ _ H). Qed.
Lemma at_rb T r t : at_ T r t -> rb 3 r.
Proof. apply atH_rb. Qed.
Lemma at_n T r t : at_ T r t -> 0 <= r_n r <= 3.
Proof. intros H. destruct (at_rb _ _ _ H) as (_ & _ & ?). assumption. Qed.

Lemma check_eq r : rb 3 r -> set_bad r (r_bad r || curr_panics r) = r.
Proof.
  intros Hr. pose proof (rb_check 3 r Hr ltac:(lia)) as (Hb & _). destruct Hr as (Hb0 & _).
  destruct r. cbn in *. unfold set_bad. cbn. rewrite Hb0 in *. cbn in Hb. rewrite Hb. reflexivity.
Qed.

Lemma pst_S T m : pst T (S m) =
  (if nth m T 0 =? 10 then mkPos (p_line (fst (pst T m)) + 1) 0
   else if negb (snd (pst T m)) then mkPos (p_line (fst (pst T m))) (p_char (fst (pst T m)) + 1) else fst (pst T m),
   snd (pst T m) || (nth m T 0 =? 0)).
Proof. cbn [pst]. destruct (pst T m) as [p e]. reflexivity. Qed.

Lemma cur_read T r k : cur T r k ->
  exists r', read r = (A T k, r') /\ cur T r' (S k) /\ r_n r' = Z.max (r_n r - 1) 0.
Proof.
  intros (m & Hb & Hi & Hn & Hnm & Hk & Hs & Hp & He & S0 & S1 & S2).
  destruct (Z.ltb_spec 0 (r_n r)) as [Hpos|Hz].
  - (* replay *)
    destruct r as [src i n p b0 b1 b2 e bad oof mx].
    cbn [r_src r_i r_n r_pos r_b0 r_b1 r_b2 r_eof r_bad r_oof r_maxn] in *. subst bad.
    unfold slj, get_slot in S0, S1, S2. cbn [r_i r_b0 r_b1 r_b2] in S0, S1, S2.
    assert (n = 1 \/ n = 2 \/ n = 3) as [->|[->| ->]] by lia;
      (assert (i = 0 \/ i = 1 \/ i = 2) as [->|[->| ->]] by lia);
      change (Z.to_nat 1) with 1%nat in *; change (Z.to_nat 2) with 2%nat in *; change (Z.to_nat 3) with 3%nat in *;
      cbn in S0, S1, S2; subst k;
      (eexists; split; [unfold read, set_maxn, set_n, curr, curr_index, get_slot, set_bad, curr_panics; cbn; f_equal;
                        first [rewrite <- S0 by lia; reflexivity | rewrite <- S1 by lia; reflexivity | rewrite <- S2 by lia; reflexivity]
                       |]);
      (split; [|reflexivity]); exists m; cbn [r_src r_i r_n r_pos r_b0 r_b1 r_b2 r_eof r_bad r_oof r_maxn];
      unfold slj, get_slot; cbn [r_i r_b0 r_b1 r_b2];
      change (Z.to_nat 0) with 0%nat; change (Z.to_nat 1) with 1%nat; change (Z.to_nat 2) with 2%nat;
      (repeat split; try assumption; try lia).
  - (* a fresh rune *)
    assert (En : r_n r = 0) by lia. rewrite En in *. cbn in Hnm, Hk. rewrite Nat.sub_0_r in Hk. subst k.
    pose proof (raw_read_fold (r_src r)) as [Eh Et]. rewrite Hs in Eh, Et. rewrite hd_skipn in Eh. rewrite tl_skipn in Et.
    destruct r as [src i n p b0 b1 b2 e bad oof mx].
    cbn [r_src r_i r_n r_pos r_b0 r_b1 r_b2 r_eof r_bad r_oof r_maxn] in *. subst bad n p e.
    unfold slj, get_slot in S0, S1, S2. cbn [r_i r_b0 r_b1 r_b2] in S0, S1, S2.
    unfold read, set_maxn. cbn [r_src r_i r_n r_pos r_b0 r_b1 r_b2 r_eof r_bad r_oof r_maxn Z.ltb Z.compare].
    destruct (raw_read src) as [ch src']. cbn [fst snd] in *. subst ch.
    eexists. split; [reflexivity|]. split; [|reflexivity]. exists (S m).
    cbn [r_src r_i r_n r_pos r_b0 r_b1 r_b2 r_eof r_bad r_oof r_maxn]. rewrite pst_S. cbn [fst snd].
    unfold slj, get_slot. cbn [r_i r_b0 r_b1 r_b2].
    assert (i = 0 \/ i = 1 \/ i = 2) as [->|[->| ->]] by lia; cbn in S0, S1, S2; cbn;
      (repeat split; try reflexivity; try lia; try (symmetry; exact Et);
       try (intros Hm; replace (m - 0)%nat with m by lia; reflexivity);
       try (intros Hm; first [exact (S0 ltac:(lia)) | exact (S1 ltac:(lia)) | exact (S2 ltac:(lia))])).
Qed.

Lemma cur_unread T r k : cur T r (S k) -> r_n r <= 2 -> cur T (unread r) k.
Proof.
  intros (m & Hb & Hi & Hn & Hnm & Hk & Hs & Hp & He & S0 & S1 & S2) Hn2. exists m.
  unfold unread, set_n, slj in *. cbn [r_src r_i r_n r_pos r_b0 r_b1 r_b2 r_eof r_bad r_oof r_maxn get_slot].
  replace (Z.to_nat (r_n r + 1)) with (S (Z.to_nat (r_n r))) by lia.
  repeat split; try assumption; try lia.
Qed.

(* the slot the reader calls current is the one before the cursor *)
Lemma cur_curr T r k : cur T r (S k) -> r_n r <= 2 -> curr r = A T k.
Proof.
  intros (m & Hb & Hi & Hn & Hnm & Hk & Hs & Hp & He & S0 & S1 & S2) Hn2.
  unfold curr, curr_index, slj in *.
  assert (r_n r = 0 \/ r_n r = 1 \/ r_n r = 2) as [E|[E|E]] by lia; rewrite E in *;
    change (Z.to_nat 0) with 0%nat in *; change (Z.to_nat 1) with 1%nat in *; change (Z.to_nat 2) with 2%nat in *.
  - rewrite S0 by lia. f_equal. lia.
  - rewrite S1 by lia. f_equal. lia.
  - rewrite S2 by lia. f_equal. lia.
Qed.

Lemma cur_check T r k : cur T r k -> cur T (set_bad r (r_bad r || curr_panics r)) k.
Proof. intros H. rewrite check_eq; [exact H|exact (cur_rb _ _ _ H)]. Qed.

Lemma cur_new s : cur (fold_cr s) (new_reader s) 0.
Proof.
  exists 0%nat. unfold new_reader, slj. cbn. repeat split; try reflexivity; try lia.
Qed.

(* the interface the refinement proofs use *)
Section I.
Variable T : text.

Lemma atH_weaken r h t : atH T r h t -> at_ T r t.
Proof. intros (k & H & E & _). exists k. split; [exact H|]. split; [exact E|]. split; [cbn; lia|]. cbn. intros j Hj. lia. Qed.

Lemma fuel_at r t : at_ T r t -> (length t + 4 <= read_fuel r)%nat.
Proof.
  intros (k & (m & Hb & Hi & Hn & Hnm & Hk & Hs & _) & -> & _). unfold read_fuel.
  pose proof (length_strip (skipn k T)) as H1. pose proof (length_fold_cr (r_src r)) as H2. rewrite Hs in H2.
  rewrite skipn_length in *. lia.
Qed.
Lemma fuel_unread r : 0 <= r_n r -> read_fuel (unread r) = S (read_fuel r).
Proof. intros H. unfold read_fuel, unread, set_n. cbn. lia. Qed.

Lemma check_atH r h t : atH T r h t -> atH T (set_bad r (r_bad r || curr_panics r)) h t.
Proof. intros H. rewrite check_eq; [exact H|exact (atH_rb _ _ _ _ H)]. Qed.
Lemma check_at r t : at_ T r t -> at_ T (set_bad r (r_bad r || curr_panics r)) t.
Proof. apply check_atH. Qed.
Lemma check_n r : r_n (set_bad r (r_bad r || curr_panics r)) = r_n r.
Proof. reflexivity. Qed.
Lemma unread_n r : r_n (unread r) = r_n r + 1.
Proof. reflexivity. Qed.

(* a read delivers the head of the text, with the position recorded for it, and remembers it *)
Lemma read_atH r h t : atH T r h t ->
  exists p r', read r = ((fst (sread t), p), r') /\ atH T r' ((fst (sread t), p) :: h) (snd (sread t)) /\
               r_n r' = Z.max (r_n r - 1) 0 /\ slot_at T t (fst (sread t), p).
Proof.
  intros (k & H & -> & Hl & Hh). destruct (cur_read T r k H) as (r' & E & H' & Hn).
  rewrite sread_strip, hd_skipn, tl_skipn. cbn [fst snd].
  exists (snd (A T k)), r'. split; [rewrite E; reflexivity|]. split; [|split; [exact Hn|exists k; split; reflexivity]].
  exists (S k). split; [exact H'|]. split; [reflexivity|]. split; [cbn [length]; lia|].
  intros j Hj. destruct j as [|j]; cbn [nth length] in *.
  - replace (S k - 1 - 0)%nat with k by lia. reflexivity.
  - rewrite (Hh j ltac:(lia)). f_equal. lia.
Qed.

(* pushing back the slot read last *)
Lemma unread_atH r a h t : atH T r (a :: h) t -> r_n r <= 2 -> atH T (unread r) h (ucons (fst a) t).
Proof.
  intros (k & H & -> & Hl & Hh) Hn. cbn [length] in Hl. destruct k as [|k]; [lia|].
  exists k. split; [apply cur_unread; assumption|]. split.
  - rewrite (strip_back T k). f_equal. pose proof (Hh 0%nat ltac:(cbn; lia)) as H0. cbn [nth] in H0.
    replace (S k - 1 - 0)%nat with k in H0 by lia. rewrite H0. reflexivity.
  - split; [lia|]. intros j Hj. pose proof (Hh (S j) ltac:(cbn; lia)) as Hj'. cbn [nth] in Hj'. rewrite Hj'. f_equal. lia.
Qed.

Lemma curr_atH r a h t : atH T r (a :: h) t -> r_n r <= 2 -> curr r = a.
Proof.
  intros (k & H & _ & Hl & Hh) Hn. cbn [length] in Hl. destruct k as [|k]; [lia|].
  rewrite (cur_curr T r k H Hn). pose proof (Hh 0%nat ltac:(cbn; lia)) as H0. cbn [nth] in H0. rewrite H0. f_equal. lia.
Qed.

(* reading again after pushing back returns the same slot *)
Lemma reread_atH r a h t : atH T r (a :: h) t -> r_n r <= 2 ->
  exists r', read (unread r) = (a, r') /\ atH T r' (a :: h) t /\ r_n r' = r_n r.
Proof.
  intros (k & H & -> & Hl & Hh) Hn. cbn [length] in Hl. destruct k as [|k]; [lia|].
  pose proof (cur_unread T r k H Hn) as Hu. destruct (cur_read T _ k Hu) as (r' & E & H' & Hn').
  exists r'. pose proof (Hh 0%nat ltac:(cbn; lia)) as H0. cbn [nth] in H0. replace (S k - 1 - 0)%nat with k in H0 by lia.
  split; [rewrite E, H0; reflexivity|]. split.
  - exists (S k). split; [exact H'|]. split; [reflexivity|]. split; [cbn; lia|exact Hh].
  - rewrite Hn', unread_n. destruct H as (m & _ & _ & Hn0 & _). lia.
Qed.

Lemma at_new s : at_ (fold_cr s) (new_reader s) (strip (fold_cr s)).
Proof. exists 0%nat. split; [apply cur_new|]. split; [reflexivity|]. split; [cbn; lia|]. cbn. intros j Hj. lia. Qed.
End I.
