(* The rune reader: reading from the source with nothing pushed back; position
   accounting; replay of pushed-back runes from the ring. *)
From InfluxQL Require Import Base.Prelude Lex.Reader.
From Coq Require Import ZifyBool.
Ltac Zify.zify_post_hook ::= Z.to_euclidean_division_equations.

(* a reader between tokens: ring index in range, nothing pushed back, no fault *)
Record wf (r : reader) : Prop := mkWf {
  wf_i : 0 <= r_i r < 3;
  wf_n : r_n r = 0;
  wf_bad : r_bad r = false;
  wf_oof : r_oof r = false
}.

Lemma wf_new s : wf (new_reader s).
Proof. constructor; cbn; try reflexivity; lia. Qed.

Definition advance (p : pos) (c : Z) : pos :=
  if c =? 10 then mkPos (p_line p + 1) 0 else mkPos (p_line p) (p_char p + 1).

(* read with nothing pushed back: takes the next folded rune from the source *)
Lemma read_src r :
  wf r ->
  let '(ch, src') := raw_read (r_src r) in
  exists r',
    read r = ((ch, r_pos r), r') /\ wf r' /\
    r_src r' = src' /\
    r_eof r' = (r_eof r || (ch =? 0)) /\
    r_pos r' = (if ch =? 10 then mkPos (p_line (r_pos r) + 1) 0
                else if negb (r_eof r) then mkPos (p_line (r_pos r)) (p_char (r_pos r) + 1) else r_pos r) /\
    curr r' = (ch, r_pos r) /\ r_maxn r' = Z.max (r_maxn r) 0.
Proof.
  intros [Hi Hn Hbad Hoof].
  destruct r as [src i n p b0 b1 b2 eof bad oof maxn]. cbn [r_n r_src r_pos r_i r_eof r_bad r_oof r_maxn] in *.
  subst n. unfold read, set_maxn. cbn [r_n r_src r_pos r_i r_eof r_bad r_oof r_maxn r_b0 r_b1 r_b2 Z.ltb Z.compare].
  destruct (raw_read src) as [ch src'].
  eexists; split; [reflexivity|].
  split; [constructor; cbn [r_src r_n r_i r_bad r_oof]; try assumption; try reflexivity; lia|].
  cbn [r_src r_n r_i r_bad r_oof r_eof r_pos r_maxn].
  repeat split.
  unfold curr, curr_index, get_slot. cbn [r_i r_n r_b0 r_b1 r_b2].
  set (i' := Z.rem (i + 1) 3).
  assert (H : Z.rem (i' - 0 + 3) 3 = i') by (subst i'; lia).
  rewrite H. destruct (i' =? 0) eqn:E0; [reflexivity|]. destruct (i' =? 1) eqn:E1; [reflexivity|].
  destruct (i' =? 2) eqn:E2; [reflexivity|]. exfalso. subst i'. lia.
Qed.

(* one rune pushed back: the next read replays it and leaves the reader as it was *)
Lemma read_unread r :
  wf r -> exists r', read (unread r) = (curr r, r') /\ wf r' /\
    r_src r' = r_src r /\ r_eof r' = r_eof r /\ r_pos r' = r_pos r /\ curr r' = curr r /\
    r_i r' = r_i r /\ r_b0 r' = r_b0 r /\ r_b1 r' = r_b1 r /\ r_b2 r' = r_b2 r.
Proof.
  intros [Hi Hn Hbad Hoof].
  destruct r as [src i n p b0 b1 b2 eof bad oof maxn]. cbn [r_n r_src r_pos r_i r_eof r_bad r_oof r_maxn] in *.
  subst n bad. unfold unread, read, set_n, set_maxn, set_bad.
  cbn [r_n r_src r_pos r_i r_eof r_bad r_oof r_maxn r_b0 r_b1 r_b2 Z.add Z.ltb Z.compare Pos.compare Z.sub Z.opp Z.pos_sub].
  eexists; split; [reflexivity|].
  assert (Hp : curr_panics {| r_src := src; r_i := i; r_n := 0; r_pos := p; r_b0 := b0; r_b1 := b1; r_b2 := b2;
                              r_eof := eof; r_bad := false; r_oof := oof; r_maxn := Z.max maxn 1 |} = false).
  { unfold curr_panics, curr_index. cbn [r_i r_n]. lia. }
  rewrite Hp. cbn [orb].
  split; [constructor; cbn [r_src r_n r_i r_bad r_oof]; try assumption; try reflexivity|].
  cbn [r_src r_eof r_pos r_i r_b0 r_b1 r_b2]. repeat split.
Qed.

(* position accounting over a whole NUL-free text: the k-th rune read is the k-th rune of
   the CR-folded text, recorded at its zero-based line and column *)
Fixpoint with_pos (p : pos) (s : text) : list slot :=
  match s with
  | [] => []
  | c :: s' => (c, p) :: with_pos (advance p c) s'
  end.

Fixpoint read_many (k : nat) (r : reader) : list slot * reader :=
  match k with
  | O => ([], r)
  | S k' => let '(sl, r1) := read r in let '(rest, r2) := read_many k' r1 in (sl :: rest, r2)
  end.

Definition nul_free (s : text) : bool := forallb (fun c => negb (c =? 0)) s.

Lemma nul_free_cons c s : nul_free (c :: s) = true <-> c <> 0 /\ nul_free s = true.
Proof. unfold nul_free; cbn [forallb]. rewrite andb_true_iff. split; intros [H1 H2]; split; try assumption; lia. Qed.

Lemma raw_read_fold s : s <> [] ->
  let '(ch, s') := raw_read s in fold_cr s = ch :: fold_cr s' /\ (length s' < length s)%nat /\
  (nul_free s = true -> ch <> 0 /\ nul_free s' = true).
Proof.
  destruct s as [|c s']; [congruence|]. intros _. cbn [raw_read fold_cr].
  destruct (c =? 13) eqn:E.
  - destruct s' as [|d s''].
    + cbn [length]. split; [reflexivity|]. split; [lia|]. intros _. split; [lia|reflexivity].
    + destruct (d =? 10) eqn:E2; cbn [length]; (split; [reflexivity|]); (split; [lia|]); intros Hn;
        apply nul_free_cons in Hn; destruct Hn as [_ Hn]; (split; [lia|]).
      * apply nul_free_cons in Hn; destruct Hn as [_ Hn]; assumption.
      * assumption.
  - cbn [length]. split; [reflexivity|]. split; [lia|]. intros Hn; apply nul_free_cons in Hn; destruct Hn as [Hc Hn].
    split; assumption.
Qed.

Lemma read_many_spec : forall k r,
  wf r -> r_eof r = false -> nul_free (r_src r) = true -> k = length (fold_cr (r_src r)) ->
  fst (read_many k r) = with_pos (r_pos r) (fold_cr (r_src r)).
Proof.
  induction k as [|k IH]; intros r Hwf Heof Hnf Hk.
  - destruct (fold_cr (r_src r)); [reflexivity|discriminate].
  - assert (Hne : r_src r <> []) by (intros E; rewrite E in Hk; discriminate).
    pose proof (read_src r Hwf) as Hr. pose proof (raw_read_fold (r_src r) Hne) as Hf.
    destruct (raw_read (r_src r)) as [ch src'].
    destruct Hr as [r' [Hread [Hwf' [Hsrc [Heof' [Hpos [_ _]]]]]]].
    destruct Hf as [Hfold [_ Hnul]]. destruct (Hnul Hnf) as [Hch Hnf'].
    cbn [read_many]. rewrite Hread.
    specialize (IH r' Hwf').
    destruct (read_many k r') as [rest r2] eqn:Erm. cbn [fst] in *.
    rewrite Hfold. cbn [with_pos]. f_equal.
    rewrite Hsrc in IH. rewrite IH.
    + f_equal. rewrite Hpos, Heof. unfold advance. cbn [negb]. reflexivity.
    + rewrite Heof', Heof. cbn [orb]. lia.
    + assumption.
    + rewrite Hfold in Hk. cbn [length] in Hk. lia.
Qed.

Theorem reader_positions s :
  nul_free s = true ->
  fst (read_many (length (fold_cr s)) (new_reader s)) = with_pos pos0 (fold_cr s).
Proof. intros H. apply (read_many_spec _ (new_reader s)); [apply wf_new|reflexivity|exact H|reflexivity]. Qed.
