(* C04/C05: the lexer never runs a loop out of its fuel.  Measure: runes left in the source plus runes pushed back;
   every read lowers it unless it returns the end marker, on which every loop stops. *)
From InfluxQL Require Import Base.Prelude Lex.Token Lex.Reader Lex.Scanner Proofs.LexerSafety.

Definition mz (r : reader) : Z := Z.of_nat (length (r_src r)) + r_n r.
Definition nf (r : reader) : Prop := r_oof r = false.

Lemma raw_read_len s : Z.of_nat (length (snd (raw_read s))) <= Z.of_nat (length s) /\
  (fst (raw_read s) <> 0 -> Z.of_nat (length (snd (raw_read s))) < Z.of_nat (length s)).
Proof.
  destruct s as [|c s']; cbn [raw_read]; [cbn; split; [lia|congruence]|].
  destruct (c =? 13); cbn [fst snd].
  - destruct s' as [|d s'']; cbn [length]; [split; lia|]. destruct (d =? 10); cbn [length]; split; lia.
  - cbn [length]. split; lia.
Qed.

(* one read: the oof flag is untouched; the measure does not grow, and drops unless the end marker was returned *)
Lemma read_measure0 b r : rb b r ->
  r_oof (snd (read r)) = r_oof r /\ mz (snd (read r)) <= mz r /\
  (fst (fst (read r)) <> 0 -> mz (snd (read r)) < mz r) /\ (0 < r_n r -> mz (snd (read r)) < mz r).
Proof.
  intros (Hb & Hi & Hn). unfold read. cbn [set_maxn r_n r_i r_bad r_src r_pos r_b0 r_b1 r_b2 r_eof r_oof r_maxn].
  destruct (Z.ltb_spec 0 (r_n r)) as [Hpos|Hz].
  - unfold mz. cbn. repeat split; lia.
  - pose proof (raw_read_len (r_src r)) as [H1 H2]. destruct (raw_read (r_src r)) as [c src']. cbn [fst snd] in *.
    unfold mz. cbn. repeat split; lia.
Qed.
Lemma read_measure b r ch p r1 : rb b r -> read r = ((ch, p), r1) ->
  r_oof r1 = r_oof r /\ mz r1 <= mz r /\ (ch <> 0 -> mz r1 < mz r) /\ (0 < r_n r -> mz r1 < mz r).
Proof. intros Hr E. pose proof (read_measure0 b r Hr) as H. rewrite E in H. exact H. Qed.

Lemma mz_unread r : mz (unread r) = mz r + 1.
Proof. unfold mz, unread, set_n. cbn. lia. Qed.
Lemma nf_unread r : nf r -> nf (unread r). Proof. exact (fun H => H). Qed.
Lemma nf_check r : nf r -> nf (set_bad r (r_bad r || curr_panics r)). Proof. exact (fun H => H). Qed.
Lemma mz_check r : mz (set_bad r (r_bad r || curr_panics r)) = mz r. Proof. reflexivity. Qed.

Definition fits (fuel : nat) (r : reader) : Prop := mz r < Z.of_nat fuel.

Section Lex.
Variable ulower : Z -> Z.

Lemma nf_scan_string_loop fuel : forall ending r acc b, rb b r -> b <= 4 -> nf r -> fits fuel r ->
  nf (snd (scan_string_loop fuel ending r acc)) /\ mz (snd (scan_string_loop fuel ending r acc)) <= mz r.
Proof.
  unfold nf, fits. induction fuel as [|f IH]; intros ending r acc b Hr Hb Hn Hf; cbn [scan_string_loop].
  { destruct Hr as (_ & _ & Hn0). unfold mz in Hf. lia. }
  pose proof (rb_nonneg _ _ Hr) as Hb0.
  destruct (read r) as [[ch0 p0] r1] eqn:E1. destruct (read_measure _ _ _ _ _ Hr E1) as (Ho1 & Hle1 & Hnz1 & _).
  pose proof (rb_read' _ _ _ _ _ E1 Hr Hb) as H1. assert (H1' : rb b r1) by (eapply rb_mono; [exact H1|lia]).
  destruct (ch0 =? ending); [cbn [snd]; split; [congruence|lia]|].
  destruct (Z.eqb_spec ch0 0) as [->|Hc0]; [cbn [orb snd]; split; [congruence|lia]|].
  destruct (ch0 =? 10); [cbn [orb snd]; split; [congruence|lia]|]. cbn [orb].
  assert (Hlt : mz r1 < mz r) by (apply Hnz1; exact Hc0).
  destruct (ch0 =? 92).
  - destruct (read r1) as [[ch1 p1] r2] eqn:E2. destruct (read_measure _ _ _ _ _ H1' E2) as (Ho2 & Hle2 & _ & _).
    pose proof (rb_read' _ _ _ _ _ E2 H1' Hb) as H2'. assert (H2'' : rb b r2) by (eapply rb_mono; [exact H2'|lia]).
    assert (Hrec : forall a, r_oof (snd (scan_string_loop f ending r2 a)) = false /\ mz (snd (scan_string_loop f ending r2 a)) <= mz r).
    { intros a. destruct (IH ending r2 a b H2'' Hb ltac:(congruence) ltac:(lia)) as [Ha Hb']. split; [exact Ha|lia]. }
    repeat match goal with |- context [if ?c then _ else _] => destruct c end; try apply Hrec.
    cbn [snd]. split; [congruence|lia].
  - destruct (IH ending r1 (ch0 :: acc) b H1' Hb ltac:(congruence) ltac:(lia)) as [Ha Hb']. split; [exact Ha|lia].
Qed.

Lemma nf_ScanString r b : rb b r -> b <= 4 -> nf r -> nf (snd (ScanString r)).
Proof.
  intros Hr Hb Hn. unfold ScanString. destruct (read r) as [[e p] r1] eqn:E1.
  destruct (read_measure _ _ _ _ _ Hr E1) as (Ho1 & Hle1 & _ & _).
  pose proof (rb_read' _ _ _ _ _ E1 Hr Hb) as H1. pose proof (rb_nonneg _ _ Hr) as Hb0.
  destruct (e =? 0); [cbn [snd]; unfold nf in *; congruence|].
  apply (nf_scan_string_loop (read_fuel r1) e r1 [] (Z.max (b - 1) 0) H1 ltac:(lia)); [unfold nf in *; congruence|].
  unfold fits, read_fuel, mz. destruct H1 as (_ & _ & Hn1). rewrite !Nat2Z.inj_add, Z2Nat.id by lia. lia.
Qed.

Lemma nf_scan_string r : rb 2 r -> nf r -> nf (snd (scan_string r)).
Proof.
  intros Hr Hn. unfold scan_string.
  assert (H1 : rb 3 (set_bad (unread r) (r_bad (unread r) || curr_panics (unread r)))) by (apply rb_check; [apply (rb_unread 2); exact Hr|lia]).
  pose proof (nf_ScanString _ 3 H1 ltac:(lia) Hn) as H2.
  destruct (ScanString _) as [[lit err] r2]. cbn [snd] in H2.
  destruct (err =? 1); [exact H2|]. destruct (err =? 2); exact H2.
Qed.

(* loops that stop on the end marker and otherwise consume what they read *)
Ltac loop_tac IH Hr Hf Hn :=
  match goal with |- context [read ?r] =>
    let E := fresh "E" in destruct (read r) as [[? ?] ?] eqn:E;
    let Ho := fresh "Ho" in let Hle := fresh "Hle" in let Hnz := fresh "Hnz" in
    destruct (read_measure _ _ _ _ _ Hr E) as (Ho & Hle & Hnz & _);
    let H1 := fresh "H1" in pose proof (rb_read' _ _ _ _ _ E Hr ltac:(lia)) as H1
  end.

Lemma nf_scan_bare_ident fuel : forall r acc b, rb b r -> b <= 3 -> nf r -> fits fuel r ->
  nf (snd (scan_bare_ident fuel r acc)) /\ mz (snd (scan_bare_ident fuel r acc)) <= mz r.
Proof.
  unfold nf, fits. induction fuel as [|f IH]; intros r acc b Hr Hb Hn Hf; cbn [scan_bare_ident].
  { destruct Hr as (_ & _ & Hn0). unfold mz in Hf. lia. }
  pose proof (rb_nonneg _ _ Hr) as Hb0. loop_tac IH Hr Hf Hn.
  destruct (Z.eqb_spec z 0) as [->|Hc0]; [cbn [snd]; split; [congruence|lia]|].
  specialize (Hnz Hc0).
  destruct (negb (is_ident_char z)); [cbn [snd]; rewrite mz_unread; split; [cbn; congruence|lia]|].
  destruct (IH r0 (z :: acc) (Z.max (b - 1) 0) H1 ltac:(lia) ltac:(congruence) ltac:(lia)) as [Ha Hb']. split; [exact Ha|lia].
Qed.

Lemma nf_scan_ws_loop fuel : forall r acc b, rb b r -> b <= 3 -> nf r -> fits fuel r -> nf (snd (scan_ws_loop fuel r acc)).
Proof.
  unfold nf, fits. induction fuel as [|f IH]; intros r acc b Hr Hb Hn Hf; cbn [scan_ws_loop].
  { destruct Hr as (_ & _ & Hn0). unfold mz in Hf. lia. }
  pose proof (rb_nonneg _ _ Hr) as Hb0. loop_tac IH Hr Hf Hn.
  destruct (Z.eqb_spec z 0) as [->|Hc0]; [cbn [snd]; congruence|]. specialize (Hnz Hc0).
  destruct (negb (is_whitespace z)); [cbn [snd]; cbn; congruence|].
  apply (IH r0 (z :: acc) (Z.max (b - 1) 0) H1 ltac:(lia) ltac:(congruence) ltac:(lia)).
Qed.

Lemma digit_nonzero z : is_digit z = true -> z <> 0.
Proof. unfold is_digit. lia. Qed.
Lemma dur_letter_nonzero z : is_dur_letter z = true -> z <> 0.
Proof. unfold is_dur_letter, is_letter. lia. Qed.

Lemma nf_scan_digits fuel : forall r acc b, rb b r -> b <= 3 -> nf r -> fits fuel r -> nf (snd (scan_digits fuel r acc)).
Proof.
  unfold nf, fits. induction fuel as [|f IH]; intros r acc b Hr Hb Hn Hf; cbn [scan_digits].
  { destruct Hr as (_ & _ & Hn0). unfold mz in Hf. lia. }
  pose proof (rb_nonneg _ _ Hr) as Hb0. loop_tac IH Hr Hf Hn.
  destruct (is_digit z) eqn:Ed; cbn [negb]; [|cbn [snd]; cbn; congruence].
  specialize (Hnz (digit_nonzero z Ed)).
  apply (IH r0 (z :: acc) (Z.max (b - 1) 0) H1 ltac:(lia) ltac:(congruence) ltac:(lia)).
Qed.

Lemma nf_scan_dur_letters fuel : forall r acc b, rb b r -> b <= 3 -> nf r -> fits fuel r -> nf (snd (scan_dur_letters fuel r acc)).
Proof.
  unfold nf, fits. induction fuel as [|f IH]; intros r acc b Hr Hb Hn Hf; cbn [scan_dur_letters].
  { destruct Hr as (_ & _ & Hn0). unfold mz in Hf. lia. }
  pose proof (rb_nonneg _ _ Hr) as Hb0. loop_tac IH Hr Hf Hn.
  destruct (is_dur_letter z) eqn:Ed; cbn [negb]; [|cbn [snd]; cbn; congruence].
  specialize (Hnz (dur_letter_nonzero z Ed)).
  apply (IH r0 (z :: acc) (Z.max (b - 1) 0) H1 ltac:(lia) ltac:(congruence) ltac:(lia)).
Qed.

Lemma nf_scan_dur_rest fuel : forall r acc b, rb b r -> b <= 3 -> nf r -> fits fuel r -> nf (snd (scan_dur_rest fuel r acc)).
Proof.
  unfold nf, fits. induction fuel as [|f IH]; intros r acc b Hr Hb Hn Hf; cbn [scan_dur_rest].
  { destruct Hr as (_ & _ & Hn0). unfold mz in Hf. lia. }
  pose proof (rb_nonneg _ _ Hr) as Hb0. loop_tac IH Hr Hf Hn.
  destruct (is_dur_letter z || is_digit z) eqn:Ed; [|cbn [snd]; cbn; congruence].
  assert (Hz : z <> 0) by (apply Bool.orb_true_iff in Ed; destruct Ed as [Ed|Ed]; [exact (dur_letter_nonzero z Ed)|exact (digit_nonzero z Ed)]).
  specialize (Hnz Hz).
  apply (IH r0 (z :: acc) (Z.max (b - 1) 0) H1 ltac:(lia) ltac:(congruence) ltac:(lia)).
Qed.

Lemma nf_skip_until_newline fuel : forall r b, rb b r -> b <= 3 -> nf r -> fits fuel r -> nf (skip_until_newline fuel r).
Proof.
  unfold nf, fits. induction fuel as [|f IH]; intros r b Hr Hb Hn Hf; cbn [skip_until_newline].
  { destruct Hr as (_ & _ & Hn0). unfold mz in Hf. lia. }
  pose proof (rb_nonneg _ _ Hr) as Hb0. loop_tac IH Hr Hf Hn.
  destruct (Z.eqb_spec z 0) as [->|Hc0]; [rewrite Bool.orb_true_r; congruence|]. specialize (Hnz Hc0).
  destruct (z =? 10); [cbn [orb]; congruence|]. cbn [orb].
  apply (IH r0 (Z.max (b - 1) 0) H1 ltac:(lia) ltac:(congruence) ltac:(lia)).
Qed.

Lemma nf_skip_until_end_comment fuel : forall star r b, rb b r -> b <= 3 -> nf r -> fits fuel r ->
  nf (snd (skip_until_end_comment fuel star r)).
Proof.
  unfold nf, fits. induction fuel as [|f IH]; intros star r b Hr Hb Hn Hf; cbn [skip_until_end_comment].
  { destruct Hr as (_ & _ & Hn0). unfold mz in Hf. lia. }
  pose proof (rb_nonneg _ _ Hr) as Hb0. loop_tac IH Hr Hf Hn.
  assert (Hrec : z <> 0 -> forall st, r_oof (snd (skip_until_end_comment f st r0)) = false).
  { intros Hz st. specialize (Hnz Hz). apply (IH st r0 (Z.max (b - 1) 0) H1 ltac:(lia) ltac:(congruence) ltac:(lia)). }
  destruct star.
  - destruct (z =? 47); [cbn [snd]; congruence|]. destruct (Z.eqb_spec z 42); [apply Hrec; lia|].
    destruct (Z.eqb_spec z 0); [cbn [snd]; congruence|apply Hrec; assumption].
  - destruct (Z.eqb_spec z 42); [apply Hrec; lia|]. destruct (Z.eqb_spec z 0); [cbn [snd]; congruence|apply Hrec; assumption].
Qed.

Lemma nf_scan_delimited_loop fuel : forall r acc, rb 1 r -> nf r -> fits fuel r -> nf (snd (scan_delimited_loop fuel r acc)).
Proof.
  unfold nf, fits. induction fuel as [|f IH]; intros r acc Hr Hn Hf; cbn [scan_delimited_loop].
  { destruct Hr as (_ & _ & Hn0). unfold mz in Hf. lia. }
  loop_tac IH Hr Hf Hn. cbn in H1.
  assert (H1' : rb 1 r0) by (eapply rb_mono; [exact H1|lia]).
  destruct (z =? 47); [cbn [snd]; congruence|]. destruct (Z.eqb_spec z 0) as [->|Hc0]; [cbn [snd]; congruence|].
  specialize (Hnz Hc0). destruct (z =? 10); [cbn [snd]; congruence|].
  destruct (z =? 92); [|apply (IH r0 _ H1' ltac:(congruence) ltac:(lia))].
  destruct (read r0) as [[ch1 p1] r2] eqn:E2. destruct (read_measure _ _ _ _ _ H1 E2) as (Ho2 & Hle2 & Hnz2 & _).
  pose proof (rb_read' _ _ _ _ _ E2 H1 ltac:(lia)) as H2. cbn in H2.
  destruct (Z.eqb_spec ch1 0) as [->|Hc1]; [cbn [snd]; congruence|]. specialize (Hnz2 Hc1).
  destruct (ch1 =? 47).
  - apply (IH r2 _ (rb_mono _ 1 _ H2 ltac:(lia)) ltac:(congruence) ltac:(lia)).
  - apply (IH (unread r2) _ (rb_unread _ _ H2)); [cbn; congruence|rewrite mz_unread; lia].
Qed.
End Lex.

(* a rune pushed back is the rune read again *)
Lemma read_replay b r s r1 : rb b r -> b <= 3 -> read r = (s, r1) ->
  exists r1', read (unread r1) = (s, r1') /\ mz r1' = mz r1 /\ r_oof r1' = r_oof r1 /\
              r_n r1' = r_n r1 /\ r_i r1' = r_i r1 /\ r_bad r1' = r_bad r1.
Proof.
  intros (Hb & Hi & Hn) Hb3 E.
  assert (Hrb1 : rb (Z.max (b - 1) 0) r1) by (pose proof (rb_read b r (conj Hb (conj Hi Hn)) ltac:(lia)) as H; rewrite E in H; exact H).
  destruct Hrb1 as (Hb1 & Hi1 & Hn1).
  assert (Hcurr : curr r1 = s).
  { unfold read in E. cbn [set_maxn r_n r_i r_bad r_src r_pos r_b0 r_b1 r_b2 r_eof r_oof r_maxn] in E.
    destruct (Z.ltb_spec 0 (r_n r)) as [Hpos|Hz].
    - inversion E; subst. reflexivity.
    - destruct (raw_read (r_src r)) as [ch src']. inversion E; subst. unfold curr, curr_index, get_slot. cbn.
      assert (Hi3 : r_i r = 0 \/ r_i r = 1 \/ r_i r = 2) by lia.
      destruct Hi3 as [Ei|[Ei|Ei]]; rewrite Ei; reflexivity. }
  unfold read, unread, set_n, set_maxn. cbn [r_n r_i r_bad r_src r_pos r_b0 r_b1 r_b2 r_eof r_oof r_maxn].
  destruct (Z.ltb_spec 0 (r_n r1 + 1)) as [_|Hc]; [|lia].
  eexists. split.
  - f_equal. rewrite <- Hcurr. unfold curr, curr_index, get_slot. cbn. replace (r_n r1 + 1 - 1) with (r_n r1) by lia. reflexivity.
  - unfold mz, curr_panics, curr_index. cbn. replace (r_n r1 + 1 - 1) with (r_n r1) by lia. rewrite Hb1. cbn.
    assert (Hidx : 0 <= Z.rem (r_i r1 - r_n r1 + 3) 3) by (apply Z.rem_nonneg; lia).
    destruct (Z.ltb_spec (Z.rem (r_i r1 - r_n r1 + 3) 3) 0); [lia|]. repeat split; reflexivity.
Qed.

Section Lex2.
Variable ulower : Z -> Z.

Lemma read_fuel_S r b : rb b r -> exists f, read_fuel r = S f /\ mz r + 2 < Z.of_nat f.
Proof.
  intros (_ & _ & Hn). unfold read_fuel, mz. exists (length (r_src r) + Z.to_nat (r_n r) + 3)%nat. split; [lia|].
  rewrite !Nat2Z.inj_add, Z2Nat.id by lia. lia.
Qed.

Lemma ident_char_nonzero z : is_ident_char z = true -> z <> 0.
Proof. unfold is_ident_char, is_letter, is_digit. lia. Qed.

Lemma nf_scan_ident_loop fuel : forall pos r acc, rb 2 r -> nf r -> fits fuel r ->
  nf (snd (scan_ident_loop fuel pos r acc)).
Proof.
  unfold nf, fits. induction fuel as [|f IH]; intros pos r acc Hr Hn Hf; cbn [scan_ident_loop].
  { destruct Hr as (_ & _ & Hn0). unfold mz in Hf. lia. }
  destruct (read r) as [[ch p] r1] eqn:E1. destruct (read_measure _ _ _ _ _ Hr E1) as (Ho1 & Hle1 & Hnz1 & _).
  pose proof (rb_read' _ _ _ _ _ E1 Hr ltac:(lia)) as H1. cbn in H1.
  destruct (Z.eqb_spec ch 0) as [->|Hc0]; [cbn [snd]; congruence|]. specialize (Hnz1 Hc0).
  destruct (ch =? 34).
  - pose proof (nf_scan_string r1 (rb_mono _ 2 _ H1 ltac:(lia)) ltac:(unfold nf; congruence)) as H2.
    destruct (scan_string r1) as [[[tok0 pos0'] lit0] r2]. cbn [snd] in H2. destruct tok0; exact H2.
  - destruct (is_ident_char ch) eqn:Eic; [|cbn [snd]; cbn; congruence].
    pose proof (rb_scan_bare_ident (read_fuel r1) (unread r1) [] 2 (rb_unread _ _ H1) ltac:(lia)) as Hrb2. unfold out1 in Hrb2. cbn in Hrb2.
    destruct (read_fuel_S r1 1 H1) as [f' [Ef' Hf']].
    destruct (read_replay 2 r (ch, p) r1 Hr ltac:(lia) E1) as [r1' (Er & Hmz' & Hoof' & Hn' & Hi' & Hbad')].
    assert (Hrb1' : rb 1 r1') by (destruct H1 as (A & B & C); unfold rb; rewrite Hbad', Hi', Hn'; repeat split; assumption || lia).
    assert (Hbare : nf (snd (scan_bare_ident (read_fuel r1) (unread r1) [])) /\ mz (snd (scan_bare_ident (read_fuel r1) (unread r1) [])) <= mz r1).
    { rewrite Ef'. cbn [scan_bare_ident]. rewrite Er. destruct (Z.eqb_spec ch 0); [contradiction|]. rewrite Eic. cbn [negb].
      destruct (nf_scan_bare_ident f' r1' [ch] 1 Hrb1' ltac:(lia) ltac:(unfold nf; congruence) ltac:(unfold fits; lia)) as [Ha Hb']. split; [exact Ha|lia]. }
    destruct Hbare as [Hnf2 Hmz2].
    destruct (scan_bare_ident (read_fuel r1) (unread r1) []) as [s0 r2]. cbn [snd] in *.
    apply IH; [exact Hrb2|exact Hnf2|lia].
Qed.

Lemma nf_scan_ident kw r : rb 2 r -> nf r -> nf (snd (scan_ident ulower kw r)).
Proof.
  intros Hr Hn. unfold scan_ident. destruct (read r) as [[c pos] r1] eqn:E1.
  destruct (read_measure _ _ _ _ _ Hr E1) as (Ho1 & _ & _ & _).
  pose proof (rb_read' _ _ _ _ _ E1 Hr ltac:(lia)) as H1. cbn in H1.
  pose proof (rb_unread _ _ H1) as Hu. cbn in Hu.
  pose proof (nf_scan_ident_loop (read_fuel (unread r1)) pos (unread r1) [] Hu ltac:(unfold nf in *; cbn; congruence)) as H2.
  assert (Hfit : fits (read_fuel (unread r1)) (unread r1)).
  { destruct (read_fuel_S (unread r1) 2 Hu) as [f [Ef Hf]]. unfold fits. rewrite Ef. lia. }
  specialize (H2 Hfit).
  destruct (scan_ident_loop (read_fuel (unread r1)) pos (unread r1) []) as [[early lit] r2]. cbn [snd] in H2.
  destruct early as [tr|]; [exact H2|]. destruct kw; [|exact H2]. destruct (lookup ulower lit); exact H2.
Qed.

Lemma fits_read_fuel r b : rb b r -> fits (read_fuel r) r.
Proof. intros Hr. destruct (read_fuel_S r b Hr) as [f [Ef Hf]]. unfold fits. rewrite Ef. lia. Qed.

Lemma nf_scan_whitespace r : rb 2 r -> nf r -> nf (snd (scan_whitespace r)).
Proof.
  intros Hr Hn. unfold scan_whitespace. destruct (curr r) as [ch pos].
  pose proof (rb_check 2 r Hr ltac:(lia)) as H1.
  pose proof (nf_scan_ws_loop (read_fuel (set_bad r (r_bad r || curr_panics r))) _ [ch] 2 H1 ltac:(lia) Hn (fits_read_fuel _ _ H1)) as H2.
  destruct (scan_ws_loop _ _ _) as [lit r1]. exact H2.
Qed.
End Lex2.

Section Lex3.
Variable ulower : Z -> Z.

Lemma nf_read b r ch p r1 : rb b r -> read r = ((ch, p), r1) -> nf r -> nf r1.
Proof. intros Hr E Hn. destruct (read_measure _ _ _ _ _ Hr E) as (Ho & _). unfold nf in *. congruence. Qed.

Lemma nf_scan_number r : rb 1 r -> nf r -> nf (snd (scan_number r)).
Proof.
  intros Hr Hn. unfold scan_number. destruct (curr r) as [ch pos].
  pose proof (rb_check 1 r Hr ltac:(lia)) as H0. set (r0 := set_bad r (r_bad r || curr_panics r)) in *.
  assert (Hn0 : nf r0) by exact Hn.
  assert (Hgo : forall rr, rb 2 rr -> nf rr ->
    nf (snd (let '(d1, r1) := scan_digits (read_fuel rr) rr [] in
             let '((ch0, _), r2) := read r1 in
             let '(is_decimal, buf, r3) :=
               if ch0 =? 46 then
                 let '((ch1, _), r3) := read r2 in
                 if is_digit ch1 then
                   let '(d2, r4) := scan_digits (read_fuel r3) r3 [] in (true, d1 ++ [ch0; ch1] ++ d2, r4)
                 else (true, d1, unread r3)
               else (false, d1, unread r2) in
             if negb is_decimal then
               let '((c0, _), r4) := read r3 in
               if is_dur_letter c0 then
                 let '(acc1, r5) := scan_dur_letters (read_fuel r4) r4 [c0] in
                 let '(acc2, r6) := scan_dur_rest (read_fuel r5) r5 acc1 in
                 ((DURATIONVAL, pos, buf ++ rev acc2), r6)
               else ((INTEGER, pos, buf), unread r4)
             else ((NUMBER, pos, buf), r3)))).
  { intros rr Hrr Hnr.
    pose proof (rb_scan_digits (read_fuel rr) rr [] 2 Hrr ltac:(lia)) as Hd. unfold out1 in Hd. cbn in Hd.
    pose proof (nf_scan_digits (read_fuel rr) rr [] 2 Hrr ltac:(lia) Hnr (fits_read_fuel _ _ Hrr)) as Hnd.
    destruct (scan_digits (read_fuel rr) rr []) as [d1 r1]. cbn [snd] in Hd, Hnd.
    destruct (read r1) as [[ch0 p0] r2] eqn:E2. pose proof (rb_read' _ _ _ _ _ E2 Hd ltac:(lia)) as H2. cbn in H2.
    pose proof (nf_read _ _ _ _ _ Hd E2 Hnd) as Hn2.
    destruct (ch0 =? 46).
    - destruct (read r2) as [[ch1 p1] r3] eqn:E3. pose proof (rb_read' _ _ _ _ _ E3 H2 ltac:(lia)) as H3. cbn in H3.
      pose proof (nf_read _ _ _ _ _ H2 E3 Hn2) as Hn3.
      destruct (is_digit ch1).
      + pose proof (nf_scan_digits (read_fuel r3) r3 [] 0 H3 ltac:(lia) Hn3 (fits_read_fuel _ _ H3)) as Hd2.
        destruct (scan_digits (read_fuel r3) r3 []) as [d2 r4]. cbn [snd negb] in *. exact Hd2.
      + cbn [negb snd]. exact Hn3.
    - cbn [negb]. pose proof (rb_unread _ _ H2) as H3. cbn in H3.
      destruct (read (unread r2)) as [[c0 pc] r4] eqn:E4. pose proof (rb_read' _ _ _ _ _ E4 H3 ltac:(lia)) as H4. cbn in H4.
      pose proof (nf_read _ _ _ _ _ H3 E4 Hn2) as Hn4.
      destruct (is_dur_letter c0).
      + pose proof (rb_scan_dur_letters (read_fuel r4) r4 [c0] 1 H4 ltac:(lia)) as H5. unfold out1 in H5. cbn in H5.
        pose proof (nf_scan_dur_letters (read_fuel r4) r4 [c0] 1 H4 ltac:(lia) Hn4 (fits_read_fuel _ _ H4)) as Hn5.
        destruct (scan_dur_letters (read_fuel r4) r4 [c0]) as [acc1 r5]. cbn [snd] in H5, Hn5.
        pose proof (nf_scan_dur_rest (read_fuel r5) r5 acc1 1 H5 ltac:(lia) Hn5 (fits_read_fuel _ _ H5)) as Hn6.
        destruct (scan_dur_rest (read_fuel r5) r5 acc1) as [acc2 r6]. exact Hn6.
      + cbn [snd]. exact Hn4. }
  destruct (ch =? 46).
  - destruct (read r0) as [[ch1 p1] r1] eqn:E1. pose proof (rb_read' _ _ _ _ _ E1 H0 ltac:(lia)) as H1. cbn in H1.
    pose proof (nf_read _ _ _ _ _ H0 E1 Hn0) as Hn1.
    destruct (negb (is_digit ch1)); [exact Hn1|].
    apply Hgo; [exact (rb_unread _ _ (rb_unread _ _ H1))|exact Hn1].
  - apply Hgo; [exact (rb_unread _ _ H0)|exact Hn0].
Qed.

Theorem nf_scan_regex r : rb 2 r -> nf r -> nf (snd (scan_regex r)).
Proof.
  intros Hr Hn. unfold scan_regex. pose proof (rb_check 2 r Hr ltac:(lia)) as H0.
  destruct (read _) as [[ch p] r1] eqn:E1. pose proof (rb_read' _ _ _ _ _ E1 H0 ltac:(lia)) as H1. cbn in H1.
  pose proof (nf_read _ _ _ _ _ H0 E1 Hn) as Hn1.
  destruct (ch =? 0); [exact Hn1|]. destruct (negb (ch =? 47)); [exact Hn1|].
  pose proof (nf_scan_delimited_loop (read_fuel r1) r1 [] H1 Hn1 (fits_read_fuel _ _ H1)) as H2.
  destruct (scan_delimited_loop (read_fuel r1) r1 []) as [res r2]. destruct res; exact H2.
Qed.

Ltac two :=
  match goal with H1 : rb 1 ?r1, Hn1 : nf ?r1 |- context [read ?r1] =>
    let E := fresh "E" in let H := fresh "H" in let Hn := fresh "Hn" in
    destruct (read r1) as [[? ?] ?] eqn:E; pose proof (rb_read' _ _ _ _ _ E H1 ltac:(lia)) as H; cbn in H;
    pose proof (nf_read _ _ _ _ _ H1 E Hn1) as Hn
  end.

(* Scan never runs a loop out of its fuel *)
Theorem nf_scan r : rb 2 r -> nf r -> nf (snd (scan ulower r)).
Proof.
  intros Hr Hn. unfold scan. destruct (read r) as [[ch0 pos] r1] eqn:E1.
  pose proof (rb_read' _ _ _ _ _ E1 Hr ltac:(lia)) as H1. cbn in H1.
  pose proof (nf_read _ _ _ _ _ Hr E1 Hn) as Hn1.
  assert (H1' : rb 2 r1) by (eapply rb_mono; [exact H1|lia]).
  destruct (is_whitespace ch0); [apply nf_scan_whitespace; assumption|].
  destruct (is_letter ch0 || (ch0 =? 95)); [apply nf_scan_ident; [exact (rb_unread _ _ H1)|exact Hn1]|].
  destruct (is_digit ch0); [apply nf_scan_number; assumption|].
  destruct (ch0 =? 0); [exact Hn1|].
  destruct (ch0 =? 34); [apply nf_scan_ident; [exact (rb_unread _ _ H1)|exact Hn1]|].
  destruct (ch0 =? 39); [apply nf_scan_string; assumption|].
  destruct (ch0 =? 46).
  { two. destruct (is_digit z); [apply nf_scan_number; [exact (rb_unread _ _ H)|exact Hn0]|exact Hn0]. }
  destruct (ch0 =? 36).
  { pose proof (nf_scan_ident ulower false r1 H1' Hn1) as H2. destruct (scan_ident ulower false r1) as [[[tok p0] lit] r2]. cbn [snd] in H2.
    destruct tok; exact H2. }
  destruct (ch0 =? 43); [exact Hn1|].
  destruct (ch0 =? 45).
  { two. destruct (z =? 45); [|exact Hn0].
    apply (nf_skip_until_newline (read_fuel r0) r0 0 H ltac:(lia) Hn0 (fits_read_fuel _ _ H)). }
  destruct (ch0 =? 42); [exact Hn1|].
  destruct (ch0 =? 47).
  { two. destruct (z =? 42); [|exact Hn0].
    pose proof (nf_skip_until_end_comment (read_fuel r0) false r0 0 H ltac:(lia) Hn0 (fits_read_fuel _ _ H)) as H3.
    destruct (skip_until_end_comment (read_fuel r0) false r0) as [err r3]. destruct err; exact H3. }
  repeat (match goal with |- context [if ?c then _ else _] => destruct c end; try exact Hn1;
          try (two; repeat match goal with |- context [if ?c then _ else _] => destruct c end; exact Hn0)).
Qed.
End Lex3.
