From Coq Require Import FinFun.
From InfluxQL Require Import Base.Prelude Lex.Token Ast.Ast Ast.ColumnNames Proofs.DecimalProofs.

Definition keys (m : names_t) : list text := map fst m.

Lemma lookup_none k m : lookup_name k m = None <-> ~ In k (keys m).
Proof.
  induction m as [|[k' v] m IH]; cbn; [tauto|].
  destruct (text_eqb_spec k k') as [->|Hne].
  - split; [discriminate|]. intros H. exfalso. apply H. left. reflexivity.
  - rewrite IH. split; [intros H [E|E]; [congruence|tauto]|tauto].
Qed.

Lemma lookup_some k m v : lookup_name k m = Some v -> In k (keys m).
Proof.
  intros H. destruct (in_dec (list_eq_dec Z.eq_dec) k (keys m)) as [Hi|Hn]; [exact Hi|].
  apply lookup_none in Hn. congruence.
Qed.

Lemma keys_set k v m x : In x (keys (set_name k v m)) <-> x = k \/ In x (keys m).
Proof.
  induction m as [|[k' v'] m IH]; cbn.
  - intuition congruence.
  - destruct (text_eqb_spec k k') as [->|Hne]; cbn.
    + intuition congruence.
    + rewrite IH. intuition congruence.
Qed.

Lemma keys_incr k m x : In x (keys (incr_name k m)) <-> x = k \/ In x (keys m).
Proof. unfold incr_name. apply keys_set. Qed.

Lemma set_name_length_le k v m : (length m <= length (set_name k v m))%nat.
Proof. induction m as [|[k' v'] m IH]; cbn; [lia|]. destruct (text_eqb k k'); cbn; lia. Qed.

Lemma resolve_fresh : forall fuel m name c r c', resolve fuel m name c = Some (r, c') -> ~ In r (keys m).
Proof.
  induction fuel as [|f IH]; intros m name c r c' H; [discriminate|]. cbn in H.
  destruct (lookup_name (suffixed name c) m) eqn:E.
  - eapply IH; eassumption.
  - inversion H; subst. apply lookup_none. exact E.
Qed.

Definition aliases (cols : list field) : list text :=
  flat_map (fun c => match f_alias c with [] => [] | a => [a] end) cols.

Lemma gen_pass_nodup : forall cols m out,
  gen_pass cols m = Ok out -> incl (aliases cols) (keys m) -> NoDup (aliases cols) ->
  NoDup out /\ Forall (fun x => In x (aliases cols) \/ ~ In x (keys m)) out.
Proof.
  induction cols as [|c cols IH]; intros m out H Hincl Hnd.
  - cbn in H. inversion H. split; constructor.
  - cbn [gen_pass] in H. destruct (f_alias c) as [|a0 a] eqn:Ea.
    + (* generated name *)
      assert (Hal : aliases (c :: cols) = aliases cols) by (unfold aliases; cbn [flat_map]; rewrite Ea; reflexivity).
      rewrite Hal in *.
      set (name := expr_name (f_expr c)) in *.
      destruct (lookup_name name m) as [count|] eqn:El.
      * destruct (resolve (S (length m)) m name count) as [[resolved count']|] eqn:Er; [|discriminate].
        destruct (gen_pass cols _) as [rest| | |] eqn:Eg; try discriminate. cbn in H. inversion H; subst out. clear H.
        pose proof (resolve_fresh _ _ _ _ _ _ Er) as Hfresh.
        specialize (IH _ _ Eg).
        assert (Hsup : forall x, In x (keys m) -> In x (keys (incr_name resolved (set_name name (count' + 1) m)))).
        { intros x Hx. apply keys_incr. right. apply keys_set. right. exact Hx. }
        destruct IH as [Hnd' Hall].
        { intros x Hx. apply Hsup. apply Hincl. exact Hx. }
        { exact Hnd. }
        split.
        -- constructor; [|exact Hnd']. intros Hin. rewrite Forall_forall in Hall. destruct (Hall _ Hin) as [Ha|Hn].
           ++ apply Hfresh. apply Hincl. exact Ha.
           ++ apply Hn. apply keys_incr. left. reflexivity.
        -- constructor; [right; exact Hfresh|]. rewrite Forall_forall in *. intros x Hx.
           destruct (Hall x Hx) as [Ha|Hn]; [left; exact Ha|right; intros Hk; apply Hn; apply Hsup; exact Hk].
      * destruct (gen_pass cols _) as [rest| | |] eqn:Eg; try discriminate. cbn in H. inversion H; subst out. clear H.
        apply lookup_none in El.
        specialize (IH _ _ Eg).
        assert (Hsup : forall x, In x (keys m) -> In x (keys (incr_name name m))).
        { intros x Hx. apply keys_incr. right. exact Hx. }
        destruct IH as [Hnd' Hall].
        { intros x Hx. apply Hsup. apply Hincl. exact Hx. }
        { exact Hnd. }
        split.
        -- constructor; [|exact Hnd']. intros Hin. rewrite Forall_forall in Hall. destruct (Hall _ Hin) as [Ha|Hn].
           ++ apply El. apply Hincl. exact Ha.
           ++ apply Hn. apply keys_incr. left. reflexivity.
        -- constructor; [right; exact El|]. rewrite Forall_forall in *. intros x Hx.
           destruct (Hall x Hx) as [Ha|Hn]; [left; exact Ha|right; intros Hk; apply Hn; apply Hsup; exact Hk].
    + (* aliased column *)
      assert (Hal : aliases (c :: cols) = (a0 :: a) :: aliases cols) by (unfold aliases; cbn [flat_map]; rewrite Ea; reflexivity).
      rewrite Hal in *.
      destruct (gen_pass cols m) as [rest| | |] eqn:Eg; try discriminate. cbn in H. inversion H; subst out. clear H.
      inversion Hnd as [|? ? Hnotin Hnd']; subst.
      specialize (IH _ _ Eg). destruct IH as [Hndr Hall].
      { intros x Hx. apply Hincl. right. exact Hx. }
      { exact Hnd'. }
      split.
      * constructor; [|exact Hndr]. intros Hin. rewrite Forall_forall in Hall. destruct (Hall _ Hin) as [Ha|Hn].
        -- apply Hnotin. exact Ha.
        -- apply Hn. apply Hincl. left. reflexivity.
      * constructor; [left; left; reflexivity|]. rewrite Forall_forall in *. intros x Hx.
        destruct (Hall x Hx) as [Ha|Hn]; [left; right; exact Ha|right; exact Hn].
Qed.

Lemma alias_pass_keys_gen : forall cols m0 x,
  (In x (keys m0) \/ In x (aliases cols)) ->
  In x (keys (fold_left (fun m c => match f_alias c with [] => m | a => set_name a 1 m end) cols m0)).
Proof.
  induction cols as [|c cols IH]; intros m0 x H; cbn [fold_left].
  - destruct H as [H|[]]. exact H.
  - apply IH. unfold aliases in H. cbn [flat_map] in H. destruct (f_alias c) as [|a0 a] eqn:Ea.
    + cbn in H. exact H.
    + destruct H as [H|H].
      * left. apply keys_set. right. exact H.
      * cbn in H. destruct H as [H|H]; [left; apply keys_set; left; congruence|right; exact H].
Qed.

Lemma alias_pass_keys cols : incl (aliases cols) (keys (alias_pass cols)).
Proof. intros x Hx. apply alias_pass_keys_gen. right. exact Hx. Qed.

(* the extra top()/bottom() tag columns carry no alias *)
Lemma aliases_var_ref_fields args : aliases (var_ref_fields args) = [].
Proof.
  induction args as [|a args IH]; [reflexivity|]. unfold var_ref_fields, aliases in *. cbn [flat_map].
  rewrite flat_map_app. rewrite IH. destruct a; reflexivity.
Qed.

Lemma aliases_app a b : aliases (a ++ b) = aliases a ++ aliases b.
Proof. unfold aliases. apply flat_map_app. Qed.

Lemma aliases_column_fields q : aliases (column_fields q) = aliases (s_fields q).
Proof.
  unfold column_fields. induction (s_fields q) as [|f fs IH]; [reflexivity|].
  cbn [flat_map]. rewrite aliases_app. rewrite IH.
  change (aliases (f :: fs)) with (aliases ([f] ++ fs)). rewrite (aliases_app [f] fs). f_equal.
  change (f :: ?l) with ([f] ++ l). rewrite aliases_app.
  assert (E : aliases (match f_expr f with
                       | Call n args => match s_target q with
                                        | None => if text_eqb n (ts "top") || text_eqb n (ts "bottom")
                                                  then match args with [] => [] | _ :: rest => var_ref_fields rest end else []
                                        | Some _ => [] end
                       | _ => [] end) = []).
  { destruct (f_expr f); try reflexivity. destruct (s_target q); [reflexivity|].
    destruct (text_eqb name (ts "top") || text_eqb name (ts "bottom")); [|reflexivity].
    destruct args; [reflexivity|apply aliases_var_ref_fields]. }
  rewrite E. rewrite app_nil_r. reflexivity.
Qed.

Theorem field_columns_nodup q out :
  NoDup (aliases (s_fields q)) -> field_columns q = Ok out -> NoDup out.
Proof.
  intros Hnd H. unfold field_columns in H.
  destruct (gen_pass_nodup _ _ _ H) as [Hn _].
  - apply alias_pass_keys.
  - rewrite aliases_column_fields. exact Hnd.
  - exact Hn.
Qed.

(* ---- the suffix search terminates within |names| + 1 steps ---- *)
Lemma dec_nonneg_inj a b : 0 <= a -> 0 <= b -> dec_nonneg a = dec_nonneg b -> a = b.
Proof. intros Ha Hb E. rewrite <- (dec_nonneg_val a Ha), <- (dec_nonneg_val b Hb), E. reflexivity. Qed.

Lemma dec_nonneg_first_digit z : 0 <= z -> exists c r, dec_nonneg z = c :: r /\ is_digit c = true.
Proof.
  intros Hz. pose proof (dec_nonneg_nonempty z) as Hne. pose proof (dec_nonneg_digits z Hz) as Hd.
  destruct (dec_nonneg z) as [|c r]; [congruence|]. exists c, r. split; [reflexivity|]. inversion Hd; assumption.
Qed.

Lemma dec_inj a b : dec a = dec b -> a = b.
Proof.
  unfold dec. destruct (a <? 0) eqn:Ea, (b <? 0) eqn:Eb; intros E.
  - inversion E as [E']. apply dec_nonneg_inj in E'; lia.
  - destruct (dec_nonneg_first_digit b ltac:(lia)) as [c [r [Er Hc]]]. rewrite Er in E. inversion E; subst c.
    unfold is_digit in Hc. cbn in Hc. discriminate.
  - destruct (dec_nonneg_first_digit a ltac:(lia)) as [c [r [Er Hc]]]. rewrite Er in E. inversion E; subst c.
    unfold is_digit in Hc. cbn in Hc. discriminate.
  - apply dec_nonneg_inj in E; lia.
Qed.

Lemma suffixed_inj name a b : suffixed name a = suffixed name b -> a = b.
Proof. unfold suffixed. intros E. apply app_inv_head in E. inversion E as [E']. apply dec_inj. exact E'. Qed.

Lemma resolve_none_all : forall fuel m name c,
  resolve fuel m name c = None -> forall i, (i < fuel)%nat -> In (suffixed name (c + Z.of_nat i)) (keys m).
Proof.
  induction fuel as [|f IH]; intros m name c H i Hi; [lia|]. cbn in H.
  destruct (lookup_name (suffixed name c) m) eqn:E; [|discriminate].
  destruct i as [|i].
  - rewrite Z.add_0_r. eapply lookup_some; eassumption.
  - replace (c + Z.of_nat (S i)) with ((c + 1) + Z.of_nat i) by lia. apply IH; [exact H|lia].
Qed.

Theorem resolve_terminates m name c : resolve (S (length m)) m name c <> None.
Proof.
  intros H. pose proof (resolve_none_all _ _ _ _ H) as Hall.
  set (cands := map (fun i => suffixed name (c + Z.of_nat i)) (seq 0 (S (length m)))).
  assert (Hnd : NoDup cands).
  { unfold cands. apply FinFun.Injective_map_NoDup; [|apply seq_NoDup].
    intros i j E. apply suffixed_inj in E. lia. }
  assert (Hincl : incl cands (keys m)).
  { intros x Hx. unfold cands in Hx. apply in_map_iff in Hx. destruct Hx as [i [<- Hi]].
    apply in_seq in Hi. apply Hall. lia. }
  pose proof (NoDup_incl_length Hnd Hincl) as Hlen.
  unfold cands, keys in Hlen. rewrite !map_length, seq_length in Hlen. lia.
Qed.

Theorem gen_pass_ok : forall cols m, exists out, gen_pass cols m = Ok out.
Proof.
  induction cols as [|c cols IH]; intros m; cbn [gen_pass]; [eexists; reflexivity|].
  destruct (f_alias c).
  - destruct (lookup_name _ m) as [count|].
    + pose proof (resolve_terminates m (expr_name (f_expr c)) count) as Ht.
      destruct (resolve _ _ _ _) as [[r c']|]; [|congruence].
      destruct (IH (incr_name r (set_name (expr_name (f_expr c)) (c' + 1) m))) as [rest E]. rewrite E. eexists; reflexivity.
    + destruct (IH (incr_name (expr_name (f_expr c)) m)) as [rest E]. rewrite E. eexists; reflexivity.
  - destruct (IH m) as [rest E]. rewrite E. eexists; reflexivity.
Qed.

(* shape: one name per column, in order; the time column first unless omitted *)
Lemma gen_pass_length : forall cols m out, gen_pass cols m = Ok out -> length out = length cols.
Proof.
  induction cols as [|c cols IH]; intros m out H; cbn [gen_pass] in H; [inversion H; reflexivity|].
  destruct (f_alias c).
  - destruct (lookup_name _ m).
    + destruct (resolve _ _ _ _) as [[r c']|]; [|discriminate].
      destruct (gen_pass cols _) eqn:E; try discriminate. cbn in H. inversion H. cbn. f_equal. eapply IH; eassumption.
    + destruct (gen_pass cols _) eqn:E; try discriminate. cbn in H. inversion H. cbn. f_equal. eapply IH; eassumption.
  - destruct (gen_pass cols m) eqn:E; try discriminate. cbn in H. inversion H. cbn. f_equal. eapply IH; eassumption.
Qed.

(* explicit aliases appear verbatim at their positions *)
Lemma gen_pass_alias : forall cols m out i c, gen_pass cols m = Ok out -> nth_error cols i = Some c -> f_alias c <> [] ->
  nth_error out i = Some (f_alias c).
Proof.
  induction cols as [|c0 cols IH]; intros m out i c H Hn Ha; [destruct i; discriminate|].
  cbn [gen_pass] in H. destruct i as [|i].
  - cbn in Hn. inversion Hn; subst c0. destruct (f_alias c) eqn:E; [congruence|].
    destruct (gen_pass cols m); try discriminate. cbn in H. inversion H. reflexivity.
  - cbn in Hn. destruct (f_alias c0).
    + destruct (lookup_name _ m).
      * destruct (resolve _ _ _ _) as [[r c']|]; [|discriminate].
        destruct (gen_pass cols _) eqn:E; try discriminate. cbn in H. inversion H. cbn. eapply IH; eassumption.
      * destruct (gen_pass cols _) eqn:E; try discriminate. cbn in H. inversion H. cbn. eapply IH; eassumption.
    + destruct (gen_pass cols m) eqn:E; try discriminate. cbn in H. inversion H. cbn. eapply IH; eassumption.
Qed.
