(* C12: RewriteFields.  Type precedence is a minimum under a rank, merging is order-independent, the sorted column
   lists are canonical, and therefore the whole rewrite does not depend on the order in which a FieldMapper's maps
   are iterated; the expansions are exactly the filtered schema columns. *)
From Coq Require Import Permutation Sorted.
From InfluxQL Require Import Base.Prelude Base.Oracles Lex.Token Ast.Ast Ast.ColumnNames Sem.Eval Sem.Reduce Sem.RewriteFields.

(* ---- precedence ---- *)
Definition rank (d : datatype) : Z :=
  match d with
  | DFloat => 10 | DInteger => 20 | DUnsigned => 25 | DString => 30 | DBoolean => 40 | DTime => 50 | DDuration => 60
  | DTag => 70 | DAnyField => 80 | DUnknown => 1000
  end.

Lemma less_than_rank d o : less_than d o = (dt_eqb d DUnknown || (rank o <? rank d)).
Proof. destruct d, o; reflexivity. Qed.

Lemma rank_inj a b : rank a = rank b -> a = b.
Proof. destruct a, b; cbn; intros H; try reflexivity; discriminate. Qed.

Definition unk (c : option datatype) : datatype := match c with Some t => t | None => DUnknown end.
Definition step (c : option datatype) (t : datatype) : option datatype := if less_than (unk c) t then Some t else c.

Lemma step_comm c a b : step (step c a) b = step (step c b) a.
Proof. destruct c as [[]|], a, b; reflexivity. Qed.

Lemma fold_step_perm l l' : Permutation l l' -> forall c, fold_left step l c = fold_left step l' c.
Proof.
  induction 1 as [|x l l' _ IH|x y l|l l' l'' _ IH1 _ IH2]; intros c; cbn [fold_left].
  - reflexivity.
  - apply IH.
  - rewrite step_comm. reflexivity.
  - rewrite IH1. apply IH2.
Qed.

(* the merged type is the best-ranked one *)
Lemma fold_step_best l : forall c t, fold_left step l c = Some t ->
  (c = Some t \/ In t l) /\ (forall t', In t' l -> t' <> DUnknown -> rank t <= rank t') /\ (forall t0, c = Some t0 -> t0 <> DUnknown -> rank t <= rank t0).
Proof.
  induction l as [|x l IH]; intros c t H; cbn [fold_left] in H.
  - subst c. repeat split; [left; reflexivity|intros ? []|]. intros t0 E _. inversion E; subst. apply Z.le_refl.
  - destruct (IH _ _ H) as (Hin & Hl & Hc). unfold step in Hin, Hc. rewrite less_than_rank in Hin, Hc. unfold dt_eqb in *.
    destruct (datatype_eqb (unk c) DUnknown || (rank x <? rank (unk c))) eqn:E.
    + repeat split.
      * destruct Hin as [Hin|Hin]; [right; left; congruence|right; right; exact Hin].
      * intros t' [->|Hin'] Hn; [apply (Hc t' eq_refl Hn)|apply Hl; assumption].
      * intros t0 -> Hn. cbn [unk] in E. destruct (datatype_eqb_spec t0 DUnknown) as [Ht0|Ht0]; [congruence|]. cbn [orb] in E.
        destruct (datatype_eqb_spec x DUnknown) as [->|Hx].
        -- destruct t0; cbn in E; discriminate || congruence.
        -- specialize (Hc x eq_refl Hx). lia.
    + apply Bool.orb_false_iff in E. destruct E as [E1 E2]. repeat split.
      * destruct Hin as [Hin|Hin]; [left; exact Hin|right; right; exact Hin].
      * intros t' [->|Hin'] Hn; [|apply Hl; assumption]. destruct c as [t0|]; [|discriminate]. cbn [unk] in *.
        destruct (datatype_eqb_spec t0 DUnknown) as [->|Hn0]; [discriminate|]. specialize (Hc t0 eq_refl Hn0). lia.
      * intros t0 E Hn. apply Hc; assumption.
Qed.

(* ---- the merge map, key by key ---- *)
Definition types_of (k : text) (l : list (text * datatype)) : list datatype :=
  map snd (filter (fun kt => text_eqb k (fst kt)) l).

Lemma assoc_set_dt k k' v m : assoc_text k (set_dt k' v m) = if text_eqb k k' then Some v else assoc_text k m.
Proof.
  induction m as [|[k0 v0] m IH]; cbn [set_dt assoc_text].
  - destruct (text_eqb k k'); reflexivity.
  - destruct (text_eqb_spec k' k0) as [->|Hne]; cbn [assoc_text].
    + destruct (text_eqb k k0); reflexivity.
    + destruct (text_eqb_spec k k0) as [->|Hne2].
      * destruct (text_eqb_spec k0 k'); [congruence|reflexivity].
      * exact IH.
Qed.

Lemma assoc_merge k k' t m :
  assoc_text k (merge_field m k' t) = if text_eqb k k' then step (assoc_text k m) t else assoc_text k m.
Proof.
  unfold merge_field, get_dt, step. destruct (text_eqb_spec k k') as [->|Hne].
  - replace (unk (assoc_text k' m)) with (match assoc_text k' m with Some t0 => t0 | None => DUnknown end) by reflexivity.
    destruct (less_than _ t); [rewrite assoc_set_dt, text_eqb_refl|]; reflexivity.
  - destruct (less_than _ t); [|reflexivity]. rewrite assoc_set_dt. destruct (text_eqb_spec k k'); [congruence|reflexivity].
Qed.

Definition merge_all (l : list (text * datatype)) (m : list (text * datatype)) :=
  fold_left (fun a kt => merge_field a (fst kt) (snd kt)) l m.

Lemma assoc_merge_all k l : forall m, assoc_text k (merge_all l m) = fold_left step (types_of k l) (assoc_text k m).
Proof.
  induction l as [|[k' t] l IH]; intros m; [reflexivity|]. unfold merge_all in *. cbn [fold_left fst snd].
  rewrite IH, assoc_merge. unfold types_of. cbn [filter fst]. destruct (text_eqb k k'); reflexivity.
Qed.

Lemma types_of_perm k l l' : Permutation l l' -> Permutation (types_of k l) (types_of k l').
Proof.
  intros H. unfold types_of. apply Permutation_map.
  induction H as [|x l l' _ IH|x y l|l l' l'' _ IH1 _ IH2]; cbn [filter].
  - constructor.
  - destruct (text_eqb k (fst x)); [constructor|]; exact IH.
  - destruct (text_eqb k (fst x)), (text_eqb k (fst y)); try apply Permutation_refl. apply perm_swap.
  - eapply Permutation_trans; eassumption.
Qed.

Definition keys (m : list (text * datatype)) : list text := map fst m.

Lemma keys_set_dt k v m : keys (set_dt k v m) = if existsb (text_eqb k) (keys m) then keys m else keys m ++ [k].
Proof.
  induction m as [|[k0 v0] m IH]; cbn [set_dt keys map existsb fst]; [reflexivity|].
  destruct (text_eqb_spec k k0) as [->|Hne]; cbn [map fst orb]; [reflexivity|].
  unfold keys in IH. rewrite IH. destruct (existsb _ _); reflexivity.
Qed.

Lemma existsb_text_In k l : existsb (text_eqb k) l = true <-> In k l.
Proof.
  rewrite existsb_exists. split.
  - intros (x & Hin & E). apply text_eqb_eq in E. subst; assumption.
  - intros Hin. exists k. split; [assumption|apply text_eqb_refl].
Qed.

Lemma nodup_add_end (k : text) l : NoDup l -> ~ In k l -> NoDup (l ++ [k]).
Proof.
  induction l as [|x l IH]; intros Hnd Hni; cbn [app]; [repeat constructor; intros []|].
  inversion Hnd as [|? ? Hx Hnd']; subst. constructor.
  - rewrite in_app_iff. cbn [In]. intros [H|[H|[]]]; [contradiction|]. apply Hni. left. symmetry. exact H.
  - apply IH; [assumption|]. intros H. apply Hni. right. exact H.
Qed.

Lemma keys_merge_nodup m k t : NoDup (keys m) -> NoDup (keys (merge_field m k t)).
Proof.
  intros Hnd. unfold merge_field. destruct (less_than _ _); [|assumption]. rewrite keys_set_dt.
  destruct (existsb (text_eqb k) (keys m)) eqn:E; [assumption|]. apply nodup_add_end; [assumption|].
  intros Hin. apply existsb_text_In in Hin. congruence.
Qed.

Lemma keys_merge_all_nodup l : forall m, NoDup (keys m) -> NoDup (keys (merge_all l m)).
Proof.
  induction l as [|[k t] l IH]; intros m Hnd; [assumption|]. unfold merge_all in *. cbn [fold_left].
  apply IH. apply keys_merge_nodup. assumption.
Qed.

Lemma assoc_In k v m : NoDup (keys m) -> (In (k, v) m <-> assoc_text k m = Some v).
Proof.
  induction m as [|[k0 v0] m IH]; intros Hnd; cbn [assoc_text In].
  - split; [intros []|discriminate].
  - inversion Hnd as [|? ? Hni Hnd']; subst. destruct (text_eqb_spec k k0) as [->|Hne].
    + split.
      * intros [E|Hin]; [congruence|]. exfalso. apply Hni. unfold keys. apply in_map_iff. exists (k0, v). split; [reflexivity|assumption].
      * intros E. left. congruence.
    + rewrite <- (IH Hnd'). split; [intros [E|Hin]; [congruence|assumption]|intros Hin; right; assumption].
Qed.

Lemma nodup_keys_nodup m : NoDup (keys m) -> NoDup m.
Proof.
  induction m as [|[k v] m IH]; intros Hnd; [constructor|]. inversion Hnd as [|? ? Hni Hnd']; subst.
  constructor; [|apply IH; assumption]. intros Hin. apply Hni. unfold keys. apply in_map_iff. exists (k, v). split; [reflexivity|assumption].
Qed.

Lemma keys_filter_nodup (p : text * datatype -> bool) m : NoDup (keys m) -> NoDup (keys (filter p m)).
Proof.
  induction m as [|[k v] m IH]; intros Hnd; cbn [filter]; [constructor|]. inversion Hnd as [|? ? Hni Hnd']; subst.
  destruct (p (k, v)); [|apply IH; assumption]. cbn [keys map fst]. constructor; [|apply IH; assumption].
  intros Hin. apply Hni. unfold keys in *. apply in_map_iff in Hin. destruct Hin as (x & E & Hin). apply filter_In in Hin.
  apply in_map_iff. exists x. split; [exact E|apply Hin].
Qed.

Lemma drop_grouped_keys_nodup has_dw dims fs : NoDup (keys fs) -> NoDup (keys (drop_grouped_tags has_dw dims fs)).
Proof. intros H. unfold drop_grouped_tags. destruct has_dw; [exact H|apply keys_filter_nodup; exact H]. Qed.

(* two association lists with distinct keys and the same lookups are permutations of one another *)
Lemma same_lookups_perm a b :
  NoDup (keys a) -> NoDup (keys b) -> (forall k, assoc_text k a = assoc_text k b) -> Permutation a b.
Proof.
  intros Ha Hb Heq. apply NoDup_Permutation; try (apply nodup_keys_nodup; assumption).
  intros [k v]. rewrite (assoc_In k v a Ha), (assoc_In k v b Hb), Heq. reflexivity.
Qed.

Lemma perm_same_lookups a b : NoDup (keys a) -> Permutation a b -> forall k, assoc_text k a = assoc_text k b.
Proof.
  intros Ha Hp k. assert (Hb : NoDup (keys b)) by (eapply Permutation_NoDup; [apply Permutation_map; exact Hp|exact Ha]).
  destruct (assoc_text k a) as [v|] eqn:E.
  - apply (assoc_In k v a Ha) in E. symmetry. apply (assoc_In k v b Hb). eapply Permutation_in; eassumption.
  - destruct (assoc_text k b) as [v|] eqn:E'; [|reflexivity].
    apply (assoc_In k v b Hb) in E'. apply Permutation_sym in Hp. apply (Permutation_in _ Hp) in E'.
    apply (assoc_In k v a Ha) in E'. congruence.
Qed.

(* merging is independent of the order of the pairs merged and of the order of the map merged into *)
Lemma merge_all_perm l l' m m' :
  Permutation l l' -> NoDup (keys m) -> Permutation m m' -> Permutation (merge_all l m) (merge_all l' m').
Proof.
  intros Hl Hm Hmm.
  assert (Hm' : NoDup (keys m')) by (eapply Permutation_NoDup; [apply Permutation_map; exact Hmm|exact Hm]).
  apply same_lookups_perm; try (apply keys_merge_all_nodup; assumption).
  intros k. rewrite !assoc_merge_all, (perm_same_lookups m m' Hm Hmm k). apply fold_step_perm. apply types_of_perm. exact Hl.
Qed.

(* ---- the tag set ---- *)
Definition add_tags (l : list text) (s : list text) : list text := fold_left (fun a k => add_tag k a) l s.

Lemma add_tag_nodup k s : NoDup s -> NoDup (add_tag k s).
Proof.
  intros H. unfold add_tag. destruct (existsb (text_eqb k) s) eqn:E; [assumption|]. apply nodup_add_end; [assumption|].
  intros Hin. apply existsb_text_In in Hin. congruence.
Qed.
Lemma add_tag_In k s x : In x (add_tag k s) <-> x = k \/ In x s.
Proof.
  unfold add_tag. destruct (existsb (text_eqb k) s) eqn:E.
  - apply existsb_text_In in E. split; [intros H; right; exact H|intros [->|H]; assumption].
  - rewrite in_app_iff. cbn [In]. split; [intros [H|[H|[]]]; [right; exact H|left; symmetry; exact H]|intros [->|H]; [right; left; reflexivity|left; exact H]].
Qed.
Lemma add_tags_nodup l : forall s, NoDup s -> NoDup (add_tags l s).
Proof. induction l as [|k l IH]; intros s H; [assumption|]. apply IH. apply add_tag_nodup. assumption. Qed.
Lemma add_tags_In l x : forall s, In x (add_tags l s) <-> In x l \/ In x s.
Proof.
  induction l as [|k l IH]; intros s; cbn [add_tags fold_left In]; [tauto|].
  unfold add_tags in IH. rewrite IH, add_tag_In. split; [intros [H|[H|H]]|intros [[H|H]|H]]; subst; tauto.
Qed.
Lemma add_tags_perm l l' s s' :
  Permutation l l' -> NoDup s -> Permutation s s' -> Permutation (add_tags l s) (add_tags l' s').
Proof.
  intros Hl Hs Hss. assert (Hs' : NoDup s') by (eapply Permutation_NoDup; eassumption).
  apply NoDup_Permutation; try (apply add_tags_nodup; assumption).
  intros x. rewrite !add_tags_In. split; intros [H|H].
  - left. eapply Permutation_in; eassumption.
  - right. eapply Permutation_in; eassumption.
  - left. eapply Permutation_in; [apply Permutation_sym|]; eassumption.
  - right. eapply Permutation_in; [apply Permutation_sym|]; eassumption.
Qed.

(* ---- sorting: the sorted list is a canonical form of the multiset ---- *)
Section Sorting.
Context {A : Type} (lt : A -> A -> bool).
Definition le (a b : A) : Prop := lt b a = false.
Hypothesis lt_asym : forall a b, lt a b = true -> lt b a = false.
Hypothesis le_trans : forall a b c, le a b -> le b c -> le a c.
Hypothesis le_antisym : forall a b, le a b -> le b a -> a = b.

Lemma insert_perm x l : Permutation (insert_by lt x l) (x :: l).
Proof.
  induction l as [|y l IH]; cbn [insert_by]; [apply Permutation_refl|].
  destruct (lt y x); [|apply Permutation_refl].
  eapply Permutation_trans; [apply perm_skip; exact IH|apply perm_swap].
Qed.
Lemma sort_perm l : Permutation (sort_by lt l) l.
Proof.
  induction l as [|x l IH]; cbn [sort_by fold_right]; [constructor|].
  eapply Permutation_trans; [apply insert_perm|apply perm_skip; exact IH].
Qed.

Lemma insert_sorted x l : StronglySorted le l -> StronglySorted le (insert_by lt x l).
Proof.
  induction l as [|y l IH]; intros Hs; cbn [insert_by]; [repeat constructor|].
  inversion Hs as [|? ? Hs' Hall]; subst. destruct (lt y x) eqn:E.
  - constructor; [apply IH; assumption|].
    apply (Permutation_Forall (Permutation_sym (insert_perm x l))). constructor; [apply lt_asym; exact E|exact Hall].
  - constructor; [exact Hs|]. constructor; [exact E|].
    eapply Forall_impl; [|exact Hall]. intros z Hz. eapply le_trans; [exact E|exact Hz].
Qed.
Lemma sort_sorted l : StronglySorted le (sort_by lt l).
Proof. induction l as [|x l IH]; cbn [sort_by fold_right]; [constructor|apply insert_sorted; exact IH]. Qed.

Lemma sorted_perm_eq l1 : forall l2, StronglySorted le l1 -> StronglySorted le l2 -> Permutation l1 l2 -> l1 = l2.
Proof.
  induction l1 as [|a l1 IH]; intros l2 H1 H2 Hp.
  - apply Permutation_nil in Hp. congruence.
  - destruct l2 as [|b l2]; [apply Permutation_sym, Permutation_nil in Hp; discriminate|].
    inversion H1 as [|? ? H1' Hall1]; subst. inversion H2 as [|? ? H2' Hall2]; subst.
    assert (Hab : a = b).
    { assert (Hin1 : In a (b :: l2)) by (eapply Permutation_in; [exact Hp|left; reflexivity]).
      assert (Hin2 : In b (a :: l1)) by (eapply Permutation_in; [apply Permutation_sym; exact Hp|left; reflexivity]).
      destruct Hin1 as [->|Hin1]; [reflexivity|]. destruct Hin2 as [->|Hin2]; [reflexivity|].
      rewrite Forall_forall in Hall1, Hall2. apply le_antisym; [apply Hall1; assumption|apply Hall2; assumption]. }
    subst b. f_equal. apply IH; try assumption. eapply Permutation_cons_inv; exact Hp.
Qed.

Lemma sort_by_perm l l' : Permutation l l' -> sort_by lt l = sort_by lt l'.
Proof.
  intros Hp. apply sorted_perm_eq; try apply sort_sorted.
  eapply Permutation_trans; [apply sort_perm|]. eapply Permutation_trans; [exact Hp|apply Permutation_sym, sort_perm].
Qed.
End Sorting.

(* the two orders used: texts by code point, references by (name, type code) *)
Lemma text_ltb_asym a : forall b, text_ltb a b = true -> text_ltb b a = false.
Proof.
  induction a as [|x a IH]; intros [|y b]; cbn [text_ltb]; try congruence.
  destruct (Z.ltb_spec x y), (Z.ltb_spec y x); try congruence; try lia. apply IH.
Qed.
Lemma text_le_antisym a : forall b, text_ltb b a = false -> text_ltb a b = false -> a = b.
Proof.
  induction a as [|x a IH]; intros [|y b]; cbn [text_ltb]; try congruence.
  destruct (Z.ltb_spec x y), (Z.ltb_spec y x); try congruence; try lia.
  intros H1 H2. assert (x = y) by lia. subst. f_equal. apply IH; assumption.
Qed.
Lemma text_le_trans a : forall b c, text_ltb b a = false -> text_ltb c b = false -> text_ltb c a = false.
Proof.
  induction a as [|x a IH]; intros [|y b] [|z c]; cbn [text_ltb]; try congruence.
  destruct (Z.ltb_spec y x), (Z.ltb_spec x y), (Z.ltb_spec z y), (Z.ltb_spec y z), (Z.ltb_spec z x), (Z.ltb_spec x z);
    try congruence; try lia. apply IH.
Qed.
Lemma text_ltb_irrefl a : text_ltb a a = false.
Proof. induction a as [|x a IH]; cbn [text_ltb]; [reflexivity|]. rewrite Z.ltb_irrefl. exact IH. Qed.

Lemma ref_ltb_asym a b : ref_ltb a b = true -> ref_ltb b a = false.
Proof.
  unfold ref_ltb. destruct (text_eqb_spec (fst a) (fst b)) as [E|Hne].
  - rewrite E, text_eqb_refl. lia.
  - destruct (text_eqb_spec (fst b) (fst a)); [congruence|]. apply text_ltb_asym.
Qed.
Lemma ref_le_antisym a b : ref_ltb b a = false -> ref_ltb a b = false -> a = b.
Proof.
  unfold ref_ltb. destruct a as [ka ta], b as [kb tb]. cbn [fst snd].
  destruct (text_eqb_spec kb ka) as [->|Hne].
  - rewrite text_eqb_refl. intros H1 H2. f_equal. unfold dt in *. destruct ta, tb; cbn in *; congruence.
  - destruct (text_eqb_spec ka kb); [congruence|]. intros H1 H2. exfalso. apply Hne. symmetry. apply text_le_antisym; assumption.
Qed.
Lemma ref_le_trans a b c : ref_ltb b a = false -> ref_ltb c b = false -> ref_ltb c a = false.
Proof.
  unfold ref_ltb. destruct a as [ka ta], b as [kb tb], c as [kc tc]. cbn [fst snd].
  destruct (text_eqb_spec kb ka) as [E1|Hba]; destruct (text_eqb_spec kc kb) as [E2|Hcb].
  - subst kb kc. rewrite text_eqb_refl. lia.
  - subst kb. destruct (text_eqb_spec kc ka); [congruence|]. intros _ H. exact H.
  - subst kc. destruct (text_eqb_spec kb ka); [congruence|]. intros H _. exact H.
  - intros H1 H2. destruct (text_eqb_spec kc ka) as [E3|Hca].
    + subst kc. exfalso. apply Hba. apply text_le_antisym; assumption.
    + eapply text_le_trans; eassumption.
Qed.

Lemma sort_refs_perm l l' : Permutation l l' -> sort_by ref_ltb l = sort_by ref_ltb l'.
Proof. apply sort_by_perm; [exact ref_ltb_asym|intros a b c; apply ref_le_trans|intros a b; apply ref_le_antisym]. Qed.
Lemma sort_texts_perm l l' : Permutation l l' -> sort_by text_ltb l = sort_by text_ltb l'.
Proof. apply sort_by_perm; [exact text_ltb_asym|intros a b c; apply text_le_trans|intros a b; apply text_le_antisym]. Qed.

(* ---- two FieldMappers that differ only in the order their maps are iterated ---- *)
Definition fd_equiv (a b : option (list (text * datatype) * list text)) : Prop :=
  match a, b with
  | Some (f, t), Some (f', t') => Permutation f f' /\ Permutation t t'
  | None, None => True
  | _, _ => False
  end.

Section Invariance.
Variable orc : oracles.
Variables mt mt' : measurement -> text -> datatype.
Variables fd fd' : measurement -> option (list (text * datatype) * list text).
Hypothesis Hmt : forall m f, mt m f = mt' m f.
Hypothesis Hfd : forall m, fd_equiv (fd m) (fd' m).

Lemma eval_type_with_ext r r' : (forall n, r n = r' n) -> forall e, eval_type_with orc r e = eval_type_with orc r' e.
Proof.
  intros Hr e. induction e using expr_ind'; cbn [eval_type_with]; try reflexivity.
  - rewrite IHe1, IHe2. reflexivity.
  - exact IHe.
  - rewrite Hr. reflexivity.
Qed.

Lemma ref_type_src_ext : forall s n t, ref_type_src orc mt s n t = ref_type_src orc mt' s n t.
Proof.
  fix IH 1. intros s n t. destruct s as [m|q]; cbn [ref_type_src].
  - rewrite Hmt. reflexivity.
  - assert (Hgo : forall n0 l acc,
              (fix go (l : list source) (acc : datatype) : res datatype :=
                 match l with [] => Ok acc | s' :: l' => acc' <-r ref_type_src orc mt s' n0 acc ;; go l' acc' end) l acc =
              (fix go (l : list source) (acc : datatype) : res datatype :=
                 match l with [] => Ok acc | s' :: l' => acc' <-r ref_type_src orc mt' s' n0 acc ;; go l' acc' end) l acc).
    { intros n0 l. induction l as [|x l IHl]; intros acc; [reflexivity|]. rewrite (IH x n0 acc).
      destruct (ref_type_src orc mt' x n0 acc); cbn; try reflexivity. apply IHl. }
    destruct (field_expr_by_name (s_fields q) n) as [e|]; [|reflexivity].
    rewrite (eval_type_with_ext _ _ (fun n0 => Hgo n0 (s_sources q) DUnknown) e). reflexivity.
Qed.

Lemma ref_type_ext sources n : ref_type orc mt sources n = ref_type orc mt' sources n.
Proof.
  unfold ref_type. generalize DUnknown. induction sources as [|s l IH]; intros acc; [reflexivity|].
  rewrite ref_type_src_ext. destruct (ref_type_src orc mt' s n acc); cbn; try reflexivity. apply IH.
Qed.

Lemma eval_type_ext sources e : eval_type orc mt sources e = eval_type orc mt' sources e.
Proof. unfold eval_type. rewrite (eval_type_with_ext _ _ (ref_type_ext sources) e). reflexivity. Qed.

Lemma retype_ext sources e : retype orc mt sources e = retype orc mt' sources e.
Proof.
  induction e using expr_ind'; cbn [retype]; try reflexivity.
  - rewrite IHe1, IHe2. reflexivity.
  - f_equal. induction H as [|x l Hx _ IHl]; [reflexivity|]. cbn [map]. rewrite Hx, IHl. reflexivity.
  - rewrite IHe. reflexivity.
  - rewrite eval_type_ext. reflexivity.
Qed.

(* FieldDimensions: the two mappers give the same maps up to the order of their entries *)
Definition fd_res_equiv (a b : option (list (text * datatype) * list text)) : Prop :=
  match a, b with
  | Some (f, t), Some (f', t') => Permutation f f' /\ NoDup (keys f) /\ Permutation t t' /\ NoDup t
  | None, None => True
  | _, _ => False
  end.

Lemma field_dimensions_equiv sources :
  fd_res_equiv (field_dimensions orc mt fd sources) (field_dimensions orc mt' fd' sources).
Proof.
  unfold field_dimensions.
  assert (H0 : fd_res_equiv (Some ([], [])) (Some ([], []))) by (cbn; repeat split; constructor).
  revert H0. generalize (Some (@nil (text * datatype), @nil text)) at 1 3. generalize (Some (@nil (text * datatype), @nil text)).
  induction sources as [|s l IH]; intros a b Hab; cbn [fold_left]; [exact Hab|].
  apply IH. destruct b as [[f t]|], a as [[f' t']|]; cbn [fd_res_equiv] in Hab |- *; try contradiction; [|exact I].
  destruct Hab as (Hf & Hnf & Ht & Hnt). destruct s as [m|q].
  - specialize (Hfd m). destruct (fd m) as [[mf mtg]|], (fd' m) as [[mf' mtg']|]; cbn [fd_equiv] in Hfd; try contradiction; [|exact I].
    destruct Hfd as [Hmf Hmt']. cbn [fd_res_equiv]. repeat split.
    + apply merge_all_perm; assumption.
    + apply keys_merge_all_nodup; assumption.
    + apply add_tags_perm; assumption.
    + apply add_tags_nodup; assumption.
  - cbn [fd_res_equiv]. repeat split.
    + assert (E : forall l0 a0 b0, Permutation a0 b0 -> NoDup (keys a0) ->
                Permutation (fold_left (fun a1 f0 => merge_field a1 (field_name f0) (eval_type orc mt (s_sources q) (f_expr f0))) l0 a0)
                            (fold_left (fun a1 f0 => merge_field a1 (field_name f0) (eval_type orc mt' (s_sources q) (f_expr f0))) l0 b0)).
      { intros l0 a0 b0 Hp Hn.
        replace (fold_left (fun a1 f0 => merge_field a1 (field_name f0) (eval_type orc mt (s_sources q) (f_expr f0))) l0 a0)
          with (merge_all (map (fun f0 => (field_name f0, eval_type orc mt' (s_sources q) (f_expr f0))) l0) a0).
        2:{ clear Hp Hn. revert a0. induction l0 as [|x l0 IHl]; intros a0; [reflexivity|]. unfold merge_all in *. cbn [map fold_left fst snd].
            rewrite IHl, eval_type_ext. reflexivity. }
        replace (fold_left (fun a1 f0 => merge_field a1 (field_name f0) (eval_type orc mt' (s_sources q) (f_expr f0))) l0 b0)
          with (merge_all (map (fun f0 => (field_name f0, eval_type orc mt' (s_sources q) (f_expr f0))) l0) b0).
        2:{ clear Hp Hn. revert b0. induction l0 as [|x l0 IHl]; intros b0; [reflexivity|]. unfold merge_all in *. cbn [map fold_left fst snd].
            rewrite IHl. reflexivity. }
        apply merge_all_perm; [apply Permutation_refl|assumption|assumption]. }
      apply E; assumption.
    + clear - Hnf. revert f Hnf. induction (s_fields q) as [|x l0 IHl]; intros f Hnf; [assumption|]. cbn [fold_left].
      apply IHl. apply keys_merge_nodup. assumption.
    + clear - Ht Hnt. revert t t' Ht Hnt. induction (s_dims q) as [|d l0 IHl]; intros t t' Ht Hnt; [assumption|]. cbn [fold_left].
      destruct d; try (apply IHl; assumption). apply IHl.
      * apply (add_tags_perm [v] [v] t t' (Permutation_refl _) Hnt Ht).
      * apply add_tag_nodup. assumption.
    + clear - Hnt. revert t Hnt. induction (s_dims q) as [|d l0 IHl]; intros t Hnt; [assumption|]. cbn [fold_left].
      destruct d; try (apply IHl; assumption). apply IHl. apply add_tag_nodup. assumption.
Qed.

Lemma perm_nil_iff {A} (a b : list A) : Permutation a b -> (a = [] <-> b = []).
Proof.
  intros H. split; intros ->; [apply Permutation_nil; exact H|apply Permutation_nil, Permutation_sym; exact H].
Qed.

Lemma filter_perm {A} (p : A -> bool) l l' : Permutation l l' -> Permutation (filter p l) (filter p l').
Proof.
  induction 1 as [|x l l' _ IH|x y l|l l' l'' _ IH1 _ IH2]; cbn [filter].
  - constructor.
  - destruct (p x); [constructor|]; exact IH.
  - destruct (p x), (p y); try apply Permutation_refl. apply perm_swap.
  - eapply Permutation_trans; eassumption.
Qed.

Lemma rewrite_body_ext q : rewrite_body orc mt fd q = rewrite_body orc mt' fd' q.
Proof.
  unfold rewrite_body.
  assert (Efs : map (fun f => mkField (retype orc mt (s_sources q) (f_expr f)) (f_alias f)) (s_fields q) =
                map (fun f => mkField (retype orc mt' (s_sources q) (f_expr f)) (f_alias f)) (s_fields q)).
  { apply map_ext. intros f. rewrite retype_ext. reflexivity. }
  rewrite Efs.
  assert (Ec : match s_cond q with Some c => Some (retype orc mt (s_sources q) c) | None => None end =
               match s_cond q with Some c => Some (retype orc mt' (s_sources q) c) | None => None end).
  { destruct (s_cond q); [rewrite retype_ext|]; reflexivity. }
  rewrite Ec. cbv zeta.
  destruct (negb _ && negb _); [reflexivity|].
  pose proof (field_dimensions_equiv (s_sources q)) as Hfdq.
  destruct (field_dimensions orc mt fd (s_sources q)) as [[f t]|], (field_dimensions orc mt' fd' (s_sources q)) as [[f' t']|];
    cbn [fd_res_equiv] in Hfdq; try contradiction; [|reflexivity].
  destruct Hfdq as (Hf & Hnf & Ht & Hnt).
  set (has_dw := existsb is_dim_wild (s_dims q)).
  assert (Hds : Permutation (ungrouped has_dw (s_dims q) t) (ungrouped has_dw (s_dims q) t'))
    by (unfold ungrouped; destruct has_dw; [assumption|apply filter_perm; assumption]).
  assert (Etag : forall k, is_tag_field f k = is_tag_field f' k).
  { intros k. unfold is_tag_field. rewrite (perm_same_lookups f f' Hnf Hf k). reflexivity. }
  assert (Efields : wild_columns has_dw (s_dims q) f t = wild_columns has_dw (s_dims q) f' t').
  { unfold wild_columns.
    assert (Hf0 : Permutation (drop_grouped_tags has_dw (s_dims q) f) (drop_grouped_tags has_dw (s_dims q) f'))
      by (unfold drop_grouped_tags; destruct has_dw; [assumption|apply filter_perm; assumption]).
    assert (Hnf0 : NoDup (keys (drop_grouped_tags has_dw (s_dims q) f))) by (apply drop_grouped_keys_nodup; assumption).
    assert (Etag0 : forall k, is_tag_field (drop_grouped_tags has_dw (s_dims q) f) k = is_tag_field (drop_grouped_tags has_dw (s_dims q) f') k).
    { intros k. unfold is_tag_field. rewrite (perm_same_lookups _ _ Hnf0 Hf0 k). reflexivity. }
    clear Etag Hf Hnf Hnf0. revert Hf0 Etag0. generalize (drop_grouped_tags has_dw (s_dims q) f) (drop_grouped_tags has_dw (s_dims q) f').
    clear f f'. intros f f' Hf Etag.
    unfold wild_columns0. pose proof (perm_nil_iff _ _ Hf) as Hnil. destruct f as [|x f], f' as [|x' f']; try reflexivity.
    - destruct Hnil as [Hn _]. specialize (Hn eq_refl). discriminate.
    - destruct Hnil as [_ Hn]. specialize (Hn eq_refl). discriminate.
    - apply sort_refs_perm. apply Permutation_app; [assumption|]. destruct has_dw; [constructor|]. apply Permutation_map.
      rewrite (filter_ext _ (fun k => negb (is_tag_field (x' :: f') k))) by (intros k; rewrite Etag; reflexivity).
      apply filter_perm; assumption. }
  rewrite Efields. unfold wild_dimensions. rewrite (sort_texts_perm _ _ Hds). reflexivity.
Qed.

Lemma rewrite_source_ext : forall s, rewrite_source orc mt fd s = rewrite_source orc mt' fd' s.
Proof.
  fix IH 1. intros s. destruct s as [m|q]; cbn [rewrite_source]; [reflexivity|].
  assert (Hgo : forall l,
            (fix go (l : list source) : res (list source) :=
               match l with [] => Ok [] | x :: l' => y <-r rewrite_source orc mt fd x ;; ys <-r go l' ;; Ok (y :: ys) end) l =
            (fix go (l : list source) : res (list source) :=
               match l with [] => Ok [] | x :: l' => y <-r rewrite_source orc mt' fd' x ;; ys <-r go l' ;; Ok (y :: ys) end) l).
  { induction l as [|x l IHl]; [reflexivity|]. rewrite (IH x), IHl. reflexivity. }
  rewrite Hgo. destruct ((fix go (l : list source) : res (list source) := _) (s_sources q)); cbn; try reflexivity.
  rewrite rewrite_body_ext. reflexivity.
Qed.

(* RewriteFields does not depend on the order in which the mapper's maps are enumerated *)
Theorem rewrite_fields_order_independent q : rewrite_fields orc mt fd q = rewrite_fields orc mt' fd' q.
Proof. unfold rewrite_fields. rewrite rewrite_source_ext. reflexivity. Qed.

End Invariance.

(* ---- the column list a wildcard stands for ---- *)
Definition ref_le := @le (text * datatype) ref_ltb.

Lemma wild_columns0_sorted has_dw dims fs ds : StronglySorted ref_le (wild_columns0 has_dw dims fs ds).
Proof.
  unfold wild_columns0. destruct fs; [constructor|].
  apply sort_sorted; [exact ref_ltb_asym|intros a b c; apply ref_le_trans].
Qed.

Lemma wild_columns0_in has_dw dims fs ds k t : fs <> [] ->
  (In (k, t) (wild_columns0 has_dw dims fs ds) <->
   In (k, t) fs \/ (has_dw = false /\ t = DTag /\ In k ds /\ existsb (is_varref_named k) dims = false /\ is_tag_field fs k = false)).
Proof.
  intros Hne. unfold wild_columns0. destruct fs as [|x fs]; [congruence|].
  set (l := _ ++ _). split.
  - intros Hin. apply (Permutation_in _ (sort_perm ref_ltb l)) in Hin. subst l. apply in_app_iff in Hin.
    destruct Hin as [Hin|Hin]; [left; exact Hin|right]. destruct has_dw; [destruct Hin|].
    apply in_map_iff in Hin. destruct Hin as (k' & E & Hin). inversion E; subst k' t. apply filter_In in Hin.
    destruct Hin as [Hin Htf]. unfold ungrouped in Hin. apply filter_In in Hin. destruct Hin as [Hin Hg].
    repeat split; try assumption; [destruct (existsb _ dims)|destruct (is_tag_field _ k)]; cbn in *; congruence.
  - intros H. apply (Permutation_in _ (Permutation_sym (sort_perm ref_ltb l))). subst l. apply in_app_iff.
    destruct H as [H|(-> & -> & Hin & Hg & Htf)]; [left; exact H|right].
    apply in_map_iff. exists k. split; [reflexivity|]. apply filter_In. split; [|rewrite Htf; reflexivity].
    unfold ungrouped. apply filter_In. split; [assumption|rewrite Hg; reflexivity].
Qed.

Lemma wild_columns0_nodup has_dw dims fs ds : NoDup (keys fs) -> NoDup ds -> NoDup (wild_columns0 has_dw dims fs ds).
Proof.
  intros Hfs Hds. unfold wild_columns0. destruct fs as [|x fs]; [constructor|]. set (f := x :: fs) in *.
  eapply Permutation_NoDup; [apply Permutation_sym, sort_perm|].
  assert (Hnd : NoDup f) by (apply nodup_keys_nodup; assumption).
  destruct has_dw; [rewrite app_nil_r; assumption|].
  assert (Hgen : forall l, NoDup l -> (forall k, In k l -> is_tag_field f k = false) -> NoDup (f ++ map (fun k => (k, DTag)) l)).
  { induction l as [|k l IHl]; intros Hl Hk; cbn [map]; [rewrite app_nil_r; assumption|].
    inversion Hl as [|? ? Hkl Hl']; subst. eapply Permutation_NoDup; [apply Permutation_middle|]. constructor.
    2:{ apply IHl; [assumption|intros k0 Hk0; apply Hk; right; assumption]. }
    rewrite in_app_iff. intros [Hin|Hin].
      + specialize (Hk k (or_introl eq_refl)). unfold is_tag_field in Hk. apply (assoc_In k DTag f Hfs) in Hin. rewrite Hin in Hk. discriminate.
      + apply in_map_iff in Hin. destruct Hin as (k' & E & Hin). inversion E; subst. contradiction. }
  apply Hgen.
  - apply NoDup_filter. unfold ungrouped. apply NoDup_filter. assumption.
  - intros k Hin. apply filter_In in Hin. destruct Hin as [_ H]. destruct (is_tag_field f k); cbn in H; congruence.
Qed.

Lemma drop_grouped_in has_dw dims fs k t :
  In (k, t) (drop_grouped_tags has_dw dims fs) <->
  In (k, t) fs /\ (has_dw = true \/ t <> DTag \/ existsb (is_varref_named k) dims = false).
Proof.
  unfold drop_grouped_tags. destruct has_dw.
  - split; [intros H; split; [exact H|left; reflexivity]|intros [H _]; exact H].
  - rewrite filter_In. cbn [fst snd]. split.
    + intros [H Hb]. split; [exact H|]. right. destruct (dt_eqb t DTag) eqn:Et; [|left; intros ->; discriminate Et].
      destruct (existsb (is_varref_named k) dims); [discriminate Hb|right; reflexivity].
    + intros [H [Hc|[Hc|Hc]]]; [discriminate Hc| |]; (split; [exact H|]).
      * destruct t; try reflexivity. contradiction Hc; reflexivity.
      * rewrite Hc, Bool.andb_false_r. reflexivity.
Qed.

Lemma wild_columns_sorted has_dw dims fs ds : StronglySorted ref_le (wild_columns has_dw dims fs ds).
Proof. apply wild_columns0_sorted. Qed.

Lemma wild_columns_in has_dw dims fs ds k t : drop_grouped_tags has_dw dims fs <> [] ->
  (In (k, t) (wild_columns has_dw dims fs ds) <->
   In (k, t) (drop_grouped_tags has_dw dims fs) \/
   (has_dw = false /\ t = DTag /\ In k ds /\ existsb (is_varref_named k) dims = false /\
    is_tag_field (drop_grouped_tags has_dw dims fs) k = false)).
Proof. apply wild_columns0_in. Qed.

Lemma wild_columns_nodup has_dw dims fs ds : NoDup (keys fs) -> NoDup ds -> NoDup (wild_columns has_dw dims fs ds).
Proof. intros Hfs Hds. apply wild_columns0_nodup; [apply drop_grouped_keys_nodup; exact Hfs|exact Hds]. Qed.

(* ---- what FieldDimensions computes over measurements: per name the best-ranked type, and the union of the tag keys ---- *)
Lemma field_dimensions_measurements orc mt fd (F : measurement -> list (text * datatype)) (T : measurement -> list text) ms :
  (forall m, In m ms -> fd m = Some (F m, T m)) ->
  exists f d, field_dimensions orc mt fd (map SMeasurement ms) = Some (f, d) /\ NoDup (keys f) /\ NoDup d /\
    (forall k, assoc_text k f = fold_left step (flat_map (fun m => types_of k (F m)) ms) None) /\
    (forall x, In x d <-> exists m, In m ms /\ In x (T m)).
Proof.
  unfold field_dimensions.
  assert (G : forall f0 d0, NoDup (keys f0) -> NoDup d0 -> (forall m, In m ms -> fd m = Some (F m, T m)) ->
    exists f d, fold_left (fun acc s => match acc with
                                        | None => None
                                        | Some (fs, ds) =>
                                            match s with
                                            | SMeasurement m =>
                                                match fd m with
                                                | None => None
                                                | Some (mf, mtags) =>
                                                    Some (fold_left (fun a kt => merge_field a (fst kt) (snd kt)) mf fs,
                                                          fold_left (fun a k => add_tag k a) mtags ds)
                                                end
                                            | SSubQuery q =>
                                                Some (fold_left (fun a f => merge_field a (field_name f) (eval_type orc mt (s_sources q) (f_expr f))) (s_fields q) fs,
                                                      fold_left (fun a d => match d with VarRef v _ => add_tag v a | _ => a end) (s_dims q) ds)
                                            end
                                        end) (map SMeasurement ms) (Some (f0, d0)) = Some (f, d) /\ NoDup (keys f) /\ NoDup d /\
      (forall k, assoc_text k f = fold_left step (flat_map (fun m => types_of k (F m)) ms) (assoc_text k f0)) /\
      (forall x, In x d <-> (exists m, In m ms /\ In x (T m)) \/ In x d0)).
  { induction ms as [|m ms IH]; intros f0 d0 Hf0 Hd0 Hfd; cbn [map fold_left flat_map].
    - exists f0, d0. repeat split; try assumption; [intros H; right; exact H|intros [(m & [] & _)|H]; exact H].
    - rewrite (Hfd m (or_introl eq_refl)).
      destruct (IH (merge_all (F m) f0) (add_tags (T m) d0)) as (f & d & E & Hnf & Hnd & Hk & Hx).
      + apply keys_merge_all_nodup; assumption.
      + apply add_tags_nodup; assumption.
      + intros m' Hm'. apply Hfd. right. exact Hm'.
      + exists f, d. repeat split; try assumption.
        * intros k. rewrite Hk, assoc_merge_all, fold_left_app. reflexivity.
        * intros H. apply Hx in H. destruct H as [(m' & Hm' & Hin)|H]; [left; exists m'; split; [right|]; assumption|].
          apply add_tags_In in H. destruct H as [H|H]; [left; exists m; split; [left; reflexivity|exact H]|right; exact H].
        * intros H. apply Hx. destruct H as [(m' & [->|Hm'] & Hin)|H].
          -- right. apply add_tags_In. left. exact Hin.
          -- left. exists m'. split; assumption.
          -- right. apply add_tags_In. right. exact H. }
  intros Hfd. destruct (G [] [] (NoDup_nil _) (NoDup_nil _) Hfd) as (f & d & E & Hnf & Hnd & Hk & Hx).
  exists f, d. repeat split; try assumption.
  - intros H. apply Hx in H. destruct H as [H|[]]. exact H.
  - intros H. apply Hx. left. exact H.
Qed.

Lemma in_types_of k t l : In t (types_of k l) <-> In (k, t) l.
Proof.
  unfold types_of. rewrite in_map_iff. split.
  - intros ([k' t'] & E & Hin). cbn in E. subst t'. apply filter_In in Hin. destruct Hin as [Hin Hk]. cbn in Hk.
    apply text_eqb_eq in Hk. subst. exact Hin.
  - intros Hin. exists (k, t). split; [reflexivity|]. apply filter_In. split; [exact Hin|apply text_eqb_refl].
Qed.

(* the type a merged column carries is one some source declares, and no source declares a better-ranked one *)
Lemma merged_type_best k t (F : measurement -> list (text * datatype)) ms :
  fold_left step (flat_map (fun m => types_of k (F m)) ms) None = Some t ->
  (exists m, In m ms /\ In (k, t) (F m)) /\
  (forall m t', In m ms -> In (k, t') (F m) -> t' <> DUnknown -> rank t <= rank t').
Proof.
  intros H. destruct (fold_step_best _ _ _ H) as ([Hc|Hin] & Hbest & _); [discriminate|]. split.
  - apply in_flat_map in Hin. destruct Hin as (m & Hm & Hin). exists m. split; [exact Hm|apply in_types_of; exact Hin].
  - intros m t' Hm Hin' Hn. apply Hbest; [|exact Hn]. apply in_flat_map. exists m. split; [exact Hm|apply in_types_of; exact Hin'].
Qed.

(* ---- the expansions are filters of the column list ---- *)
Definition wild_keep (wt : token) (r : text * datatype) : bool :=
  negb ((tok_eqb wt FIELD && dt_eqb (snd r) DTag) || (tok_eqb wt TAG && negb (dt_eqb (snd r) DTag))).
Definition col_field (r : text * datatype) : field := mkField (VarRef (fst r) (snd r)) [].

Lemma expand_wildcard orc cols wt al :
  expand_field orc cols (mkField (Wildcard wt) al) = Ok (map col_field (filter (wild_keep wt) cols)).
Proof. reflexivity. Qed.
Lemma expand_regex orc cols p al :
  expand_field orc cols (mkField (RegexLit p) al) = Ok (map col_field (filter (fun r => o_re_match orc p (fst r)) cols)).
Proof. reflexivity. Qed.

(* every other field stays in place, as it is *)
Definition plain_field (f : field) : bool :=
  match f_expr f with
  | Wildcard _ | RegexLit _ => false
  | Call cn args =>
      match snd (innermost (depth (f_expr f)) cn args) with
      | Wildcard _ :: _ | RegexLit _ :: _ => false
      | _ => true
      end
  | BinaryExpr _ _ _ => negb (has_kind true (f_expr f) || has_kind false (f_expr f))
  | _ => true
  end.
Lemma expand_plain orc cols f : plain_field f = true -> expand_field orc cols f = Ok [f].
Proof.
  unfold plain_field, expand_field. destruct (f_expr f) eqn:E; try reflexivity; try discriminate.
  - intros H. destruct (_ || _); [discriminate|reflexivity].
  - destruct (innermost _ _ _) as [iname iargs]. cbn [snd]. destruct iargs as [|a0 rest]; [reflexivity|].
    destruct a0; try reflexivity; discriminate.
Qed.

Lemma expand_fields_app orc cols fs : forall fs' a b,
  expand_fields orc cols fs = Ok a -> expand_fields orc cols fs' = Ok b -> expand_fields orc cols (fs ++ fs') = Ok (a ++ b).
Proof.
  induction fs as [|f fs IH]; intros fs' a b Ha Hb; cbn [expand_fields app] in *.
  - inversion Ha; subst. exact Hb.
  - destruct (expand_field orc cols f) as [x| | |]; cbn in Ha |- *; try discriminate.
    destruct (expand_fields orc cols fs) as [y| | |] eqn:Ey; cbn in Ha; try discriminate. inversion Ha; subst.
    rewrite (IH fs' y b eq_refl Hb). cbn. rewrite app_assoc. reflexivity.
Qed.

(* a function call over a wildcard: one call per non-tag column of a type the innermost function accepts, never a tag *)
Lemma expand_call orc cols f cn args iname wt rest :
  f_expr f = Call cn args -> innermost (depth (f_expr f)) cn args = (iname, Wildcard wt :: rest) -> tok_eqb wt TAG = false ->
  expand_field orc cols f =
    Ok (map (fun r => mkField (replace_innermost (depth (f_expr f)) (f_expr f) (VarRef (fst r) (snd r))) (field_name f ++ 95 :: fst r))
          (filter (fun r => negb (dt_eqb (snd r) DTag) && supported iname (snd r) && true) cols)).
Proof.
  intros E Hin Hw. unfold expand_field. rewrite E in *. rewrite Hin. rewrite Hw. reflexivity.
Qed.

Lemma filter_sorted {A} (R : A -> A -> Prop) p l : StronglySorted R l -> StronglySorted R (filter p l).
Proof.
  induction 1 as [|x l Hs IH Hall]; cbn [filter]; [constructor|]. destruct (p x); [|exact IH].
  constructor; [exact IH|]. rewrite Forall_forall in *. intros y Hy. apply filter_In in Hy. apply Hall. tauto.
Qed.

(* ---- the schema double: listing a measurement's fields and tags in another order changes nothing ---- *)
Definition ms_perm (a b : mschema) : Prop :=
  Permutation (ms_fields a) (ms_fields b) /\ NoDup (keys (ms_fields a)) /\ Permutation (ms_tags a) (ms_tags b) /\ ms_err a = ms_err b.
Definition sch_perm (s s' : schema) : Prop := Forall2 (fun a b => fst a = fst b /\ ms_perm (snd a) (snd b)) s s'.

Lemma ms_perm_refl_default : ms_perm (mkMS [] [] false) (mkMS [] [] false).
Proof. repeat split; constructor. Qed.

Lemma lookup_ms_perm s s' n : sch_perm s s' -> ms_perm (lookup_ms s n) (lookup_ms s' n).
Proof.
  unfold lookup_ms. induction 1 as [|[k a] [k' b] s s' [Hk Hab] _ IH]; cbn [assoc_text]; [apply ms_perm_refl_default|].
  cbn [fst snd] in Hk, Hab. subst k'. destruct (text_eqb n k); [exact Hab|exact IH].
Qed.

Lemma existsb_perm {A} (p : A -> bool) l l' : Permutation l l' -> existsb p l = existsb p l'.
Proof.
  induction 1 as [|x l l' _ IH|x y l|l l' l'' _ IH1 _ IH2]; cbn [existsb]; try congruence.
  destruct (p x), (p y); reflexivity.
Qed.

Theorem rewrite_fields_sch_perm orc s s' q : sch_perm s s' -> rewrite_fields_sch orc s q = rewrite_fields_sch orc s' q.
Proof.
  intros Hs. unfold rewrite_fields_sch. apply rewrite_fields_order_independent.
  - intros m f. unfold sch_map_type. destruct (lookup_ms_perm s s' (m_name m) Hs) as (Hf & Hnd & Ht & _).
    rewrite (perm_same_lookups _ _ Hnd Hf f), (existsb_perm _ _ _ Ht). reflexivity.
  - intros m. unfold sch_fd. destruct (lookup_ms_perm s s' (m_name m) Hs) as (Hf & Hnd & Ht & He).
    rewrite He. destruct (ms_err (lookup_ms s' (m_name m))); cbn [fd_equiv]; [exact I|split; assumption].
Qed.

Lemma wild_dimensions_spec dims ds :
  StronglySorted (@le text text_ltb) (wild_dimensions true dims ds) /\ (forall x, In x (wild_dimensions true dims ds) <-> In x ds).
Proof.
  unfold wild_dimensions, ungrouped. split.
  - apply sort_sorted; [exact text_ltb_asym|intros a b c; apply text_le_trans].
  - intros x. split; intros H; [eapply Permutation_in; [apply sort_perm|exact H]|eapply Permutation_in; [apply Permutation_sym, sort_perm|exact H]].
Qed.

(* an untyped reference over one measurement receives the mapper's type *)
Lemma retype_untyped_measurement orc mt m v :
  retype orc mt [SMeasurement m] (VarRef v DUnknown) = VarRef v (mt m v).
Proof.
  cbn [retype]. unfold eval_type, ref_type. cbn [dt_eqb datatype_eqb datatype_code Z.eqb negb andb eval_type_with ref_type_src].
  cbn. destruct (mt m v); reflexivity.
Qed.

(* ---- a subquery as a schema: its output fields (named by Field.Name, typed by EvalType over ITS sources) and the
   references among its dimensions; as a source it contributes exactly what a measurement with those fields and tag
   keys would ---- *)
Definition sub_fields orc mt (q : select) : list (text * datatype) :=
  map (fun f => (field_name f, eval_type orc mt (s_sources q) (f_expr f))) (s_fields q).
Definition sub_tags (q : select) : list text :=
  flat_map (fun d => match d with VarRef v _ => [v] | _ => [] end) (s_dims q).

Lemma field_dimensions_subquery orc mt fd q m pre post :
  fd m = Some (sub_fields orc mt q, sub_tags q) ->
  field_dimensions orc mt fd (pre ++ SSubQuery q :: post) = field_dimensions orc mt fd (pre ++ SMeasurement m :: post).
Proof.
  intros Hm. unfold field_dimensions. rewrite !fold_left_app. cbn [fold_left].
  destruct (fold_left _ pre (Some ([], []))) as [[fs ds]|]; [|reflexivity]. rewrite Hm. f_equal. f_equal. f_equal.
  - unfold sub_fields. generalize fs. induction (s_fields q) as [|f l IH]; intros a; cbn [fold_left map fst snd]; [reflexivity|apply IH].
  - unfold sub_tags. generalize ds. induction (s_dims q) as [|d l IH]; intros a; cbn [fold_left flat_map]; [reflexivity|].
    rewrite fold_left_app. destruct d; cbn [fold_left]; apply IH.
Qed.
(* a GROUP BY regular expression stands for exactly the matching tag keys, in the sorted order of the tag list, each
   once - whatever the regex spells out and in whatever order *)
Lemma expand_dims_regex orc dimensions p :
  expand_dims orc dimensions [RegexLit p] = map (fun n => VarRef n DUnknown) (filter (fun n => o_re_match orc p n) dimensions).
Proof. cbn [expand_dims flat_map]. rewrite app_nil_r. reflexivity. Qed.



Lemma regex_dimension_spec orc dims ds p :
  let tags := wild_dimensions true dims ds in
  let out := filter (fun n => o_re_match orc p n) tags in
  expand_dims orc tags [RegexLit p] = map (fun n => VarRef n DUnknown) out /\
  StronglySorted (@le text text_ltb) out /\
  (forall x, In x out <-> In x ds /\ o_re_match orc p x = true).
Proof.
  intros tags out. destruct (wild_dimensions_spec dims ds) as [Hs Hin]. split; [apply expand_dims_regex|]. split.
  - apply filter_sorted. exact Hs.
  - intros x. unfold out, tags. rewrite filter_In. specialize (Hin x). tauto.
Qed.
