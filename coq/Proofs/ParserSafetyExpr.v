(* C04: the expression parser's programs in the logic of ParserSafety.v. *)
From InfluxQL Require Import Base.Prelude Base.Oracles Lex.Token Ast.Ast Val.Duration Parse.Instr Parse.ExprTree Parse.ParseExpr
  Proofs.ParserSafety.

Local Arguments scan_iw : simpl never.
Local Arguments expect : simpl never.
Local Arguments parse_regex : simpl never.
Local Arguments parse_var_ref : simpl never.
Local Arguments consume_ws : simpl never.
Local Arguments fail_at : simpl never.
Local Arguments scan_p : simpl never.
Local Arguments unscan_p : simpl never.
Local Arguments peek_p : simpl never.
Local Arguments scan_regex_p : simpl never.

Section Expr.
Variable orc : oracles.

(* the specification every parser function meets: at most one token pushed back on entry, at most one on exit
   (the reference parser, entered after a double Unscan, accepts two) *)
Definition safe {A} (P : A -> Prop) (p : prog A) : Prop :=
  forall s, le_n 1 s -> wp s p (fun a s' => le_n 1 s' /\ P a).
Definition anyv {A} : A -> Prop := fun _ => True.

Ltac le2 := first [ eassumption | (eapply le_n_mono; [eassumption | cbn; lia]) ].

Lemma scan_iw_spec fuel : forall b s, le_n b s -> (b <= 3)%nat ->
  wp s (scan_iw fuel) (fun t s' => le_n (pred b) s' /\ last_is t s').
Proof.
  induction fuel as [|f IH]; intros b s Hb Hb3; cbn [scan_iw]; [apply wp_fail|].
  cbn [bind scan_p]. eapply r_scan; [exact Hb|exact Hb3|]. intros t s' H1 H2. cbn [bind].
  destruct (ti_tok t); try (apply wp_ret; split; assumption);
    (eapply wp_conseq; [apply (IH (pred b)); [exact H1|lia]|]; intros a s'' [Ha Hl]; split; [eapply le_n_mono; [exact Ha|lia]|exact Hl]).
Qed.

Lemma scan_iw_next f b s t : next_is t s -> le_n b s -> (b <= 3)%nat ->
  ti_tok t <> WS -> ti_tok t <> COMMENT ->
  wp s (scan_iw (S f)) (fun t' s' => t' = t /\ le_n (pred b) s' /\ last_is t s').
Proof.
  intros Hn Hb Hb3 Hw Hc. cbn [scan_iw bind scan_p]. eapply r_scan_next; [exact Hb|exact Hb3|exact Hn|]. intros s' H1 H2. cbn [bind].
  destruct (ti_tok t) eqn:E; try congruence; apply wp_ret; (split; [reflexivity|split; assumption]).
Qed.

(* one step of symbolic execution *)
Ltac wpstep :=
  match goal with
  | |- wp _ (Ret _) _ => apply wp_ret
  | |- wp _ (Fail _) _ => apply wp_fail
  | |- wp _ (bind (scan_iw _) _) _ =>
      eapply wp_bind; [eapply scan_iw_spec; [eassumption|cbn; lia]|]; intros ? ? [? ?]; cbn [Nat.pred] in *
  | |- wp _ (DoScan _) _ => eapply r_scan; [eassumption|cbn; lia|]; intros ? ? ? ?; cbn [Nat.pred bind] in *
  | |- wp _ (DoScanRegex _) _ => eapply r_scan_regex; [eassumption|cbn; lia|]; intros ? ? ? ?; cbn [Nat.pred bind] in *
  | |- wp _ (DoUnscan _) _ => eapply r_unscan; [eassumption|cbn; lia|]; intros ? ? ?; cbn [bind] in *
  | |- wp _ (DoPeek _) _ => apply wp_peek; intros ?; cbn [bind]
  | |- wp _ (match ti_tok ?t with _ => _ end) _ => destruct (ti_tok t)
  | |- wp _ (if ?c then _ else _) _ => destruct c
  | |- wp _ (match ?x with _ => _ end) _ => destruct x
  end.
Ltac fin := first [ (split; [le2 | first [exact I | reflexivity | assumption | (unfold anyv; exact I)]]) | le2 ].
Ltac norm := unfold scan_p, unscan_p, peek_p, scan_regex_p, fail_at in *; cbn [bind].
Ltac wpauto := norm; repeat (wpstep; norm); try fin.
Ltac call L := eapply wp_bind; [eapply L; le2|]; intros ? ? [? ?].

Lemma consume_ws_spec : safe anyv consume_ws.
Proof. intros s Hs. unfold consume_ws. wpauto. Qed.

Lemma expect_spec fuel k : safe anyv (expect fuel k).
Proof. intros s Hs. unfold expect. wpauto. Qed.

Lemma parse_tokens_spec fuel ks : safe anyv (parse_tokens fuel ks).
Proof.
  induction ks as [|k ks IH]; intros s Hs; cbn [parse_tokens]; [wpauto|].
  call expect_spec. apply IH. le2.
Qed.

Lemma parse_ident_spec fuel : safe anyv (parse_ident fuel).
Proof. intros s Hs. unfold parse_ident. wpauto. Qed.
Lemma parse_string_spec fuel : safe anyv (parse_string fuel).
Proof. intros s Hs. unfold parse_string. wpauto. Qed.
Lemma parse_int_spec fuel lo hi : safe anyv (parse_int fuel lo hi).
Proof. intros s Hs. unfold parse_int. wpauto. Qed.
Lemma parse_uint64_spec fuel : safe anyv (parse_uint64 fuel).
Proof. intros s Hs. unfold parse_uint64. wpauto. Qed.
Lemma parse_duration_p_spec fuel : safe anyv (parse_duration_p fuel).
Proof. intros s Hs. unfold parse_duration_p. wpauto. Qed.
Lemma opt_token_int_spec fuel k : safe anyv (opt_token_int fuel k).
Proof. intros s Hs. unfold opt_token_int. wpauto. Qed.

Lemma ident_list_loop_spec fuel : forall acc, safe anyv (ident_list_loop fuel acc).
Proof.
  induction fuel as [|f IH]; intros acc s Hs; cbn [ident_list_loop]; [apply wp_fail|].
  wpstep. norm. wpstep; try (wpauto; fail).
  call parse_ident_spec. apply IH. le2.
Qed.
Lemma parse_ident_list_spec fuel : safe anyv (parse_ident_list fuel).
Proof. intros s Hs. unfold parse_ident_list. call parse_ident_spec. apply ident_list_loop_spec. le2. Qed.

Lemma string_list_loop_spec fuel : forall acc, safe anyv (string_list_loop fuel acc).
Proof.
  induction fuel as [|f IH]; intros acc s Hs; cbn [string_list_loop]; [apply wp_fail|].
  wpstep. norm. wpstep; try (wpauto; fail).
  call parse_string_spec. apply IH. le2.
Qed.
Lemma parse_string_list_spec fuel : safe anyv (parse_string_list fuel).
Proof. intros s Hs. unfold parse_string_list. call parse_string_spec. apply string_list_loop_spec. le2. Qed.

Lemma segmented_loop_spec fuel : forall acc, safe anyv (segmented_loop fuel acc).
Proof.
  induction fuel as [|f IH]; intros acc s Hs; cbn [segmented_loop]; [apply wp_fail|].
  norm. wpstep. norm. wpstep; try (wpauto; fail).
  wpstep. destruct c; try (wpauto; fail); try (apply IH; le2).
  all: call parse_ident_spec; apply IH; le2.
Qed.
Lemma parse_segmented_idents_spec fuel : safe anyv (parse_segmented_idents fuel).
Proof.
  intros s Hs. unfold parse_segmented_idents. call parse_ident_spec. call segmented_loop_spec. wpauto.
Qed.

Lemma parse_regex_spec : safe anyv (parse_regex orc).
Proof.
  intros s Hs. unfold parse_regex. norm. wpstep.
  eapply wp_bind with (Q := fun _ s' => le_n 1 s').
  { match goal with c : rclass |- _ => destruct c end; try (apply wp_ret; le2). eapply wp_conseq; [apply consume_ws_spec; le2|]. intros a s' [H _]. exact H. }
  intros _ s1 H1. norm. wpstep. wpstep; wpauto.
Qed.

Definition safe2 {A} (P : A -> Prop) (p : prog A) : Prop :=
  forall s, le_n 2 s -> wp s p (fun a s' => le_n 1 s' /\ P a).
Lemma parse_ident_spec2 fuel : safe2 anyv (parse_ident fuel).
Proof. intros s Hs. unfold parse_ident. wpauto. Qed.
Lemma parse_segmented_idents_spec2 fuel : safe2 anyv (parse_segmented_idents fuel).
Proof.
  intros s Hs. unfold parse_segmented_idents. eapply wp_bind; [apply parse_ident_spec2; exact Hs|]. intros ? ? [? ?].
  call segmented_loop_spec. wpauto.
Qed.

Definition is_varref (e : expr) : Prop := match e with VarRef _ _ => True | _ => False end.
Lemma parse_var_ref_spec2 fuel : safe2 is_varref (parse_var_ref orc fuel).
Proof.
  intros s Hs. unfold parse_var_ref. eapply wp_bind; [apply parse_segmented_idents_spec2; exact Hs|]. intros ? ? [? ?]. norm. wpauto.
  all: split; [le2|exact I].
Qed.
Lemma parse_var_ref_spec fuel : safe is_varref (parse_var_ref orc fuel).
Proof. intros s Hs. apply parse_var_ref_spec2. le2. Qed.

(* ---- the mutually recursive expression parser ---- *)
Local Opaque scan_iw expect parse_regex parse_var_ref consume_ws.
Definition lit_shape (e : expr) : Prop :=
  match e with
  | NumberLit _ | IntegerLit _ | UnsignedLit _ | DurationLit _ | VarRef _ _ | Call _ _ | ParenExpr _ => True
  | _ => False
  end.
Definition is_call (e : expr) : Prop := match e with Call _ _ => True | _ => False end.
Definition sign_kind (k : token) : Prop :=
  match k with NUMBER | INTEGER | DURATIONVAL | LPAREN | IDENT => True | _ => False end.

Definition specs (f : nat) : Prop :=
  safe anyv (parse_expr orc f) /\
  (forall root, safe anyv (expr_loop orc f root)) /\
  safe anyv (parse_unary orc f) /\
  (forall s t, le_n 1 s -> next_is t s -> sign_kind (ti_tok t) ->
               wp s (parse_unary orc f) (fun e s' => le_n 1 s' /\ lit_shape e)) /\
  (forall name, safe is_call (parse_call orc f name)) /\
  (forall acc, safe anyv (call_args orc f acc)).

Lemma safe_weaken {A} (P P' : A -> Prop) p : safe P p -> (forall a, P a -> P' a) -> safe P' p.
Proof. intros H Hi s Hs. eapply wp_conseq; [apply H; exact Hs|]. intros a s' [H1 H2]. split; [exact H1|apply Hi; exact H2]. Qed.

Lemma pe0 : parse_expr orc 0 = Fail EFuel. Proof. reflexivity. Qed.
Lemma el0 root : expr_loop orc 0 root = Fail EFuel. Proof. reflexivity. Qed.
Lemma pu0 : parse_unary orc 0 = Fail EFuel. Proof. reflexivity. Qed.
Lemma pc0 name : parse_call orc 0 name = Fail EFuel. Proof. reflexivity. Qed.
Lemma ca0 acc : call_args orc 0 acc = Fail EFuel. Proof. reflexivity. Qed.

(* unfolding equations, transcribed from Parse/ParseExpr.v and checked by conversion *)
Lemma parse_expr_S f  : parse_expr orc (S f)  =
 e0 <- parse_unary orc f ;; expr_loop orc f e0.
Proof. reflexivity. Qed.

Lemma expr_loop_S f (root : expr) : expr_loop orc (S f) root =

      t <- scan_iw (S f) ;;
      if negb (is_operator (ti_tok t)) then unscan_p ;;; Ret root
      else if is_regex_op (ti_tok t) then
        re <- parse_regex orc ;;
        match re with
        | Some r => expr_loop orc f (insert root (ti_tok t) (RegexLit r))
        | None => t2 <- scan_iw (S f) ;; fail_at t2
        end
      else
        rhs <- parse_unary orc f ;; expr_loop orc f (insert root (ti_tok t) rhs).
Proof. reflexivity. Qed.

Lemma parse_unary_S f  : parse_unary orc (S f)  =

      t0 <- scan_iw (S f) ;;
      if is_tok t0 LPAREN then
          e <- parse_expr orc f ;;
          expect (S f) RPAREN ;;;
          Ret (ParenExpr e)
      else
          unscan_p ;;;
          t <- scan_iw (S f) ;;
          match ti_tok t with
          | IDENT =>
              t1 <- scan_p ;;
              match ti_tok t1 with
              | LPAREN => parse_call orc f (ti_lit t)
              | _ => unscan_p ;;; unscan_p ;;; parse_var_ref orc (S f)
              end
          | DISTINCT =>
              t1 <- scan_p ;;
              match ti_tok t1 with
              | LPAREN => parse_call orc f (ts "distinct")
              | WS =>
                  t2 <- scan_iw (S f) ;;
                  match ti_tok t2 with
                  | IDENT => Ret (Distinct (ti_lit t2))
                  | _ => fail_at t2
                  end
              | _ => fail_at t1
              end
          | STRING => Ret (StringLit (ti_lit t))
          | NUMBER =>
              match o_parse_float orc (ti_lit t) with
              | Some v => Ret (NumberLit (f_canon v))
              | None => fail_at t
              end
          | INTEGER =>
              match parse_i64 (ti_lit t) with
              | Some v => Ret (IntegerLit v)
              | None => match parse_u64 (ti_lit t) with
                        | Some u => Ret (UnsignedLit u)
                        | None => fail_at t
                        end
              end
          | TRUE => Ret (BooleanLit true)
          | FALSE => Ret (BooleanLit false)
          | DURATIONVAL =>
              match parse_duration (ti_lit t) with
              | Ok d => Ret (DurationLit d)
              | _ => Fail ENoPos
              end
          | MUL =>
              t1 <- scan_p ;;
              match ti_tok t1 with
              | DOUBLECOLON =>
                  t2 <- scan_p ;;
                  match ti_tok t2 with
                  | FIELD => Ret (Wildcard FIELD)
                  | TAG => Ret (Wildcard TAG)
                  | _ => fail_at t2
                  end
              | _ => unscan_p ;;; Ret (Wildcard ILLEGAL)
              end
          | REGEX => if o_re_ok orc (ti_lit t) then Ret (RegexLit (ti_lit t)) else fail_at t
          | BOUNDPARAM => Fail ENoPos
          | ADD | SUB =>
              let neg := is_tok t SUB in
              let mul := if neg then -1 else 1 in
              t1 <- scan_iw (S f) ;;
              match ti_tok t1 with
              | NUMBER | INTEGER | DURATIONVAL | LPAREN | IDENT =>
                  unscan_p ;;;
                  lit <- parse_unary orc f ;;
                  match lit with
                  | NumberLit v => Ret (NumberLit (if neg then f_neg v else f_canon v))
                  | IntegerLit v => Ret (IntegerLit (wrap64 (v * mul)))
                  | UnsignedLit u =>
                      if neg then (if u =? two63 then Ret (IntegerLit min_i64) else Fail ENoPos)
                      else Ret lit
                  | DurationLit d => Ret (DurationLit (wrap64 (d * mul)))
                  | VarRef _ _ | Call _ _ | ParenExpr _ => Ret (BinaryExpr MUL (IntegerLit mul) lit)
                  | _ => Panic panic_unexpected_literal
                  end
              | _ => fail_at t1
              end
          | _ => fail_at t
          end.
Proof. reflexivity. Qed.

Lemma parse_call_S f (name : text) : parse_call orc (S f) name =

      let name := to_lower (o_ulower orc) name in
      re <- parse_regex orc ;;
      first <-
        match re with
        | Some r => Ret (Some [RegexLit r])
        | None =>
            t <- scan_p ;;
            match ti_tok t with
            | RPAREN => Ret None
            | _ => unscan_p ;;; a <- parse_expr orc f ;; Ret (Some [a])
            end
        end ;;
      match first with
      | None => Ret (Call name [])
      | Some args0 =>
          args <- call_args orc f args0 ;;
          t <- scan_p ;;
          match ti_tok t with
          | RPAREN => Ret (Call name args)
          | _ => fail_at t
          end
      end.
Proof. reflexivity. Qed.

Lemma call_args_S f (acc : list expr) : call_args orc (S f) acc =

      t <- scan_iw (S f) ;;
      match ti_tok t with
      | COMMA =>
          re <- parse_regex orc ;;
          match re with
          | Some r => call_args orc f (acc ++ [RegexLit r])
          | None => a <- parse_expr orc f ;; call_args orc f (acc ++ [a])
          end
      | _ => unscan_p ;;; Ret acc
      end.
Proof. reflexivity. Qed.

Lemma specs_0 : specs 0.
Proof.
  unfold specs. split; [|split; [|split; [|split; [|split]]]].
  - intros s0 Hs0. rewrite pe0. apply wp_fail.
  - intros root s0 Hs0. rewrite el0. apply wp_fail.
  - intros s0 Hs0. rewrite pu0. apply wp_fail.
  - intros s0 t Hs0 Hn Hk. rewrite pu0. apply wp_fail.
  - intros name s0 Hs0. rewrite pc0. apply wp_fail.
  - intros acc s0 Hs0. rewrite ca0. apply wp_fail.
Qed.

Section Step.
Variable f : nat.
Hypothesis IHe : safe anyv (parse_expr orc f).
Hypothesis IHl : forall root, safe anyv (expr_loop orc f root).
Hypothesis IHu : safe anyv (parse_unary orc f).
Hypothesis IHu2 : forall s t, le_n 1 s -> next_is t s -> sign_kind (ti_tok t) ->
               wp s (parse_unary orc f) (fun e s' => le_n 1 s' /\ lit_shape e).
Hypothesis IHc : forall name, safe is_call (parse_call orc f name).
Hypothesis IHa : forall acc, safe anyv (call_args orc f acc).

Lemma step_expr : safe anyv (parse_expr orc (S f)).
Proof. intros s Hs. rewrite parse_expr_S. call IHu. apply IHl. le2. Qed.

Lemma step_loop : forall root, safe anyv (expr_loop orc (S f) root).
Proof.
  intros root s Hs. rewrite expr_loop_S. wpstep. wpstep; [wpauto|]. wpstep.
  - call parse_regex_spec. wpstep; [apply IHl; le2|wpauto].
  - call IHu. apply IHl. le2.
Qed.

Lemma step_call : forall name, safe is_call (parse_call orc (S f) name).
Proof.
  intros name s Hs. rewrite parse_call_S. cbv zeta. call parse_regex_spec.
  eapply wp_bind with (Q := fun _ s' => le_n 1 s').
  { wpstep; [apply wp_ret; le2|]. norm. wpstep. wpstep; try (wpstep; norm; call IHe; apply wp_ret; le2). apply wp_ret; le2. }
  intros first s1 H1. destruct first as [args0|]; [|apply wp_ret; split; [le2|exact I]].
  call IHa. norm. wpstep. wpstep; try (apply wp_fail). apply wp_ret. split; [le2|exact I].
Qed.

Lemma step_args : forall acc, safe anyv (call_args orc (S f) acc).
Proof.
  intros acc s Hs. rewrite call_args_S. wpstep. wpstep; try (wpauto; fail).
  call parse_regex_spec. wpstep; [apply IHa; le2|]. call IHe. apply IHa. le2.
Qed.

Ltac replay_tok t Hn Hs Hw Hcm :=
  eapply wp_bind; [apply (scan_iw_next f 1 _ t Hn Hs); [lia|exact Hw|exact Hcm]|].

Lemma sign_kind_cases k : sign_kind k -> k = IDENT \/ k = NUMBER \/ k = INTEGER \/ k = DURATIONVAL \/ k = LPAREN.
Proof. destruct k; cbn; intros H; try contradiction; tauto. Qed.

Ltac redtok E := unfold is_tok; rewrite ?E; cbn [tok_eqb tok_code Z.eqb Pos.eqb].

Lemma step_unary_sign : forall s t, le_n 1 s -> next_is t s -> sign_kind (ti_tok t) ->
  wp s (parse_unary orc (S f)) (fun e s' => le_n 1 s' /\ lit_shape e).
Proof.
  intros s t Hs Hn Hk. rewrite parse_unary_S.
  assert (Hw : ti_tok t <> WS) by (intros E; rewrite E in Hk; exact Hk).
  assert (Hcm : ti_tok t <> COMMENT) by (intros E; rewrite E in Hk; exact Hk).
  replay_tok t Hn Hs Hw Hcm. intros t0 s1 (E0 & H1 & Hl1). subst t0. cbn [Nat.pred] in H1.
  destruct (sign_kind_cases _ Hk) as [Ek|[Ek|[Ek|[Ek|Ek]]]]; redtok Ek.
  - (* IDENT *)
    norm. eapply r_unscan; [exact H1|lia|]. intros s2 H2 Hnx. specialize (Hnx t Hl1). norm.
    replay_tok t Hnx H2 Hw Hcm. intros t0 s3 (E0 & H3 & Hl3). subst t0. cbn [Nat.pred] in H3. redtok Ek. norm.
    wpstep. wpstep.
    all: match goal with
         | |- wp _ (parse_call _ _ _) _ =>
             eapply wp_conseq; [apply IHc; le2|]; intros a s9 [Ha1 Ha2]; split; [le2|destruct a; try contradiction; exact I]
         | |- wp _ (DoUnscan _) _ =>
             wpstep; norm; wpstep; norm; eapply wp_conseq; [apply parse_var_ref_spec2; le2|];
             intros a s9 [Ha1 Ha2]; split; [le2|destruct a; try contradiction; exact I]
         end.
  - (* NUMBER *)
    norm. eapply r_unscan; [exact H1|lia|]. intros s2 H2 Hnx. specialize (Hnx t Hl1). norm.
    replay_tok t Hnx H2 Hw Hcm. intros t0 s3 (E0 & H3 & Hl3). subst t0. cbn [Nat.pred] in H3. redtok Ek.
    destruct (o_parse_float orc (ti_lit t)); [apply wp_ret; split; [le2|exact I]|apply wp_fail].
  - (* INTEGER *)
    norm. eapply r_unscan; [exact H1|lia|]. intros s2 H2 Hnx. specialize (Hnx t Hl1). norm.
    replay_tok t Hnx H2 Hw Hcm. intros t0 s3 (E0 & H3 & Hl3). subst t0. cbn [Nat.pred] in H3. redtok Ek.
    destruct (parse_i64 (ti_lit t)); [apply wp_ret; split; [le2|exact I]|].
    destruct (parse_u64 (ti_lit t)); [apply wp_ret; split; [le2|exact I]|apply wp_fail].
  - (* DURATIONVAL *)
    norm. eapply r_unscan; [exact H1|lia|]. intros s2 H2 Hnx. specialize (Hnx t Hl1). norm.
    replay_tok t Hnx H2 Hw Hcm. intros t0 s3 (E0 & H3 & Hl3). subst t0. cbn [Nat.pred] in H3. redtok Ek.
    destruct (parse_duration (ti_lit t)); try apply wp_fail. apply wp_ret; split; [le2|exact I].
  - (* LPAREN *)
    call IHe. call expect_spec. apply wp_ret. split; [le2|exact I].
Qed.

Ltac retok := apply wp_ret; split; [le2|exact I].

Lemma step_unary : safe anyv (parse_unary orc (S f)).
Proof.
  intros s Hs. rewrite parse_unary_S. wpstep. wpstep.
  { call IHe. call expect_spec. retok. }
  norm. wpstep. norm. wpstep.
  match goal with |- wp _ (match ti_tok ?t with _ => _ end) _ => destruct (ti_tok t) eqn:Ek end.
  all: try (apply wp_fail).
  all: try retok.
  all: try (match goal with |- wp _ (match ?x with _ => _ end) _ => destruct x end; try retok; try apply wp_fail;
            try (match goal with |- wp _ (match ?x with _ => _ end) _ => destruct x end; try retok; try apply wp_fail)).
  all: try (match goal with |- wp _ (if ?c then _ else _) _ => destruct c end; try retok; try apply wp_fail).
  (* IDENT, DISTINCT, MUL, ADD, SUB: one more scan *)
  all: try (norm; wpstep; norm;
            match goal with |- wp _ (match ti_tok ?t with _ => _ end) _ => destruct (ti_tok t) eqn:? end;
            try apply wp_fail; try retok;
            try (eapply wp_conseq; [apply IHc; le2|]; intros ? ? [? _]; split; [le2|exact I]);
            try (norm; wpstep; norm; wpstep; norm; eapply wp_conseq; [apply parse_var_ref_spec2; le2|]; intros ? ? [? _]; split; [le2|exact I]);
            try (norm; wpstep; norm; retok);
            try (wpstep; norm; match goal with |- wp _ (match ti_tok ?t with _ => _ end) _ => destruct (ti_tok t) end; try apply wp_fail; try retok)).
  (* after a sign the operand is parsed again from the pushed-back token *)
  all: norm;
       match goal with Hl : last_is ?t1 ?s1, Hb : le_n _ ?s1, E : ti_tok ?t1 = _ |- wp ?s1 (DoUnscan _) _ =>
         eapply r_unscan; [exact Hb|cbn; lia|]; intros s9 H9 Hnx9; specialize (Hnx9 t1 Hl); norm;
         eapply wp_bind; [apply (IHu2 s9 t1); [le2|exact Hnx9|rewrite E; exact I]|];
         intros lit s10 [H10 Hshape]; destruct lit; try contradiction; try retok;
         repeat match goal with |- wp _ (if ?c then _ else _) _ => destruct c end; try retok; try apply wp_fail
       end.
Qed.

Lemma step_specs : specs (S f).
Proof.
  unfold specs. split; [exact step_expr|]. split; [exact step_loop|]. split; [exact step_unary|].
  split; [exact step_unary_sign|]. split; [exact step_call|exact step_args].
Qed.
End Step.

Theorem specs_all : forall f, specs f.
Proof.
  induction f as [|f (IHe & IHl & IHu & IHu2 & IHc & IHa)]; [exact specs_0|].
  apply step_specs; assumption.
Qed.
End Expr.
