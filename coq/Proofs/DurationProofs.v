From InfluxQL Require Import Base.Prelude Val.Duration.
From Coq Require Import ZifyBool.
Ltac Zify.zify_post_hook ::= Z.to_euclidean_division_equations.

(* ---- the specification: exact total of a spelling, in unbounded Z ---- *)
Fixpoint comps (fuel : nat) (s : text) : option Z :=
  match s with
  | [] => Some 0
  | _ =>
      match fuel with
      | O => None
      | S f =>
          let '(ds, r) := span_digits s in
          if is_nil ds then None
          else match take_unit r with
               | None => None
               | Some (u, r') => option_map (Z.add (digits_val ds * u)) (comps f r')
               end
      end
  end.

(* optional '-', then at least one <digits><unit> component *)
Definition exact_total (s : text) : option Z :=
  match s with
  | [] => None
  | c :: s' =>
      if c =? 45 then match s' with [] => None | _ => option_map Z.opp (comps (length s') s') end
      else comps (length s) s
  end.

(* ---- basic facts ---- *)
Lemma span_digits_app s : let '(d, r) := span_digits s in s = d ++ r.
Proof.
  induction s as [|c s IH]; cbn [span_digits]; [reflexivity|].
  destruct (is_digit c); [|reflexivity].
  destruct (span_digits s) as [d r]. cbn. congruence.
Qed.

Lemma span_digits_length s d r : span_digits s = (d, r) -> (length r <= length s)%nat.
Proof. intros H. pose proof (span_digits_app s) as E. rewrite H in E. subst s. rewrite app_length. lia. Qed.

Lemma take_unit_length r u r' : take_unit r = Some (u, r') -> (length r' < length r)%nat.
Proof.
  unfold take_unit. destruct r as [|c r]; [discriminate|].
  repeat match goal with
         | |- context [if ?b then _ else _] => destruct b
         | |- context [match ?l with [] => _ | _ :: _ => _ end] => destruct l
         end; intros H; inversion H; subst; cbn; lia.
Qed.

Lemma take_unit_pos r u r' : take_unit r = Some (u, r') -> 1 <= u.
Proof.
  unfold take_unit, ns_us, ns_ms, ns_s, ns_m, ns_h, ns_d, ns_w. destruct r as [|c r]; [discriminate|].
  repeat match goal with
         | |- context [if ?b then _ else _] => destruct b
         | |- context [match ?l with [] => _ | _ :: _ => _ end] => destruct l
         end; intros H; inversion H; subst; lia.
Qed.

Lemma digits_val_acc_nonneg s : forall a, 0 <= a -> Forall (fun c => is_digit c = true) s -> 0 <= digits_val_acc a s.
Proof.
  induction s as [|c s IH]; intros a Ha HF; cbn; [assumption|].
  inversion HF as [|? ? Hc HF']; subst. apply IH; [|assumption].
  unfold is_digit in Hc. lia.
Qed.

Lemma span_digits_digits s d r : span_digits s = (d, r) -> Forall (fun c => is_digit c = true) d.
Proof.
  revert d r; induction s as [|c s IH]; intros d r; cbn [span_digits].
  - intros H; inversion H; constructor.
  - destruct (is_digit c) eqn:E.
    + destruct (span_digits s) as [d' r'] eqn:E'. intros H; inversion H; subst. constructor; [assumption|eapply IH; reflexivity].
    + intros H; inversion H; constructor.
Qed.

Lemma digits_val_nonneg d : Forall (fun c => is_digit c = true) d -> 0 <= digits_val d.
Proof. intros; apply digits_val_acc_nonneg; [lia|assumption]. Qed.

Lemma comps_nonneg : forall fuel s t, comps fuel s = Some t -> 0 <= t.
Proof.
  induction fuel as [|f IH]; intros s t; destruct s as [|c s]; cbn [comps]; try (intros H; inversion H; lia); try discriminate.
  destruct (span_digits (c :: s)) as [ds r] eqn:E.
  destruct (is_nil ds); [discriminate|].
  destruct (take_unit r) as [[u r']|] eqn:Eu; [|discriminate].
  destruct (comps f r') as [t'|] eqn:Ec; cbn [option_map]; [|discriminate].
  intros H; inversion H; subst.
  pose proof (IH _ _ Ec). pose proof (take_unit_pos _ _ _ Eu).
  pose proof (digits_val_nonneg _ (span_digits_digits _ _ _ E)). nia.
Qed.

(* ---- the loop computes the exact total or fails ---- *)
Lemma pd_loop_spec : forall fuel s d, (length s <= fuel)%nat -> 0 <= d <= max_i64 ->
  match pd_loop fuel s d with
  | Ok v => comps fuel s = Some (v - d) /\ d <= v <= max_i64
  | Err _ => comps fuel s = None \/ exists t, comps fuel s = Some t /\ d + t > max_i64
  | _ => False
  end.
Proof.
  induction fuel as [|f IH]; intros s d Hlen Hd.
  - destruct s; [|cbn in Hlen; lia]. cbn. split; [f_equal; lia|lia].
  - destruct s as [|c s]; [cbn; split; [f_equal; lia|lia]|].
    cbn [pd_loop comps].
    destruct (span_digits (c :: s)) as [ds r] eqn:E.
    pose proof (span_digits_length _ _ _ E) as Hr.
    pose proof (digits_val_nonneg _ (span_digits_digits _ _ _ E)) as Hnn.
    destruct (is_nil ds) eqn:Eds; [left; reflexivity|].
    destruct (is_nil r) eqn:Er.
    { destruct r; [|discriminate]. left; reflexivity. }
    unfold parse_digits_i64. rewrite Eds. cbv zeta.
    destruct (take_unit r) as [[u r']|] eqn:Eu.
    2:{ destruct (digits_val ds <=? max_i64); left; reflexivity. }
    pose proof (take_unit_length _ _ _ Eu) as Hl. pose proof (take_unit_pos _ _ _ Eu) as Hu.
    assert (Hlen' : (length r' <= f)%nat) by lia.
    destruct (digits_val ds <=? max_i64) eqn:Emax.
    + destruct (d + digits_val ds * u <=? max_i64) eqn:Ed.
      * specialize (IH r' (d + digits_val ds * u) Hlen' ltac:(nia)).
        destruct (pd_loop f r' (d + digits_val ds * u)) as [v|e| |]; try contradiction.
        -- destruct IH as [IH1 IH2]. rewrite IH1. cbn [option_map]. split; [f_equal; lia|nia].
        -- destruct IH as [IH|[t' [IH1 IH2]]]; [left; rewrite IH; reflexivity|].
           right. rewrite IH1. cbn [option_map]. eexists; split; [reflexivity|lia].
      * destruct (comps f r') as [t'|] eqn:Ec; [|left; reflexivity].
        right. cbn [option_map]. eexists; split; [reflexivity|]. pose proof (comps_nonneg _ _ _ Ec). lia.
    + destruct (comps f r') as [t'|] eqn:Ec; [|left; reflexivity].
      right. cbn [option_map]. eexists; split; [reflexivity|]. pose proof (comps_nonneg _ _ _ Ec). nia.
Qed.

Lemma exact_total_single c : exact_total [c] = None.
Proof.
  unfold exact_total. destruct (c =? 45); [reflexivity|].
  cbn [length comps span_digits]. destruct (is_digit c); cbn [is_nil]; reflexivity.
Qed.

Lemma pd_loop_top s : 
  match pd_loop (length s) s 0 with
  | Ok v => comps (length s) s = Some v /\ 0 <= v <= max_i64
  | Err _ => comps (length s) s = None \/ exists t, comps (length s) s = Some t /\ t > max_i64
  | _ => False
  end.
Proof.
  pose proof (pd_loop_spec (length s) s 0 (le_n _) ltac:(unfold max_i64; lia)) as H.
  destruct (pd_loop (length s) s 0) as [v|e| |]; try contradiction.
  - destruct H as [H1 H2]. replace (v - 0) with v in H1 by lia. split; [assumption|lia].
  - destruct H as [H|[t [H1 H2]]]; [left; assumption|right; exists t; split; [assumption|lia]].
Qed.

Lemma exact_total_unfold c s' : s' <> [] ->
  exact_total (c :: s') =
  if c =? 45 then option_map Z.opp (comps (length s') s') else comps (length (c :: s')) (c :: s').
Proof. intros H. unfold exact_total. destruct s'; [congruence|reflexivity]. Qed.

Lemma parse_duration_unfold c s' : s' <> [] ->
  parse_duration (c :: s') =
  if c =? 45 then match pd_loop (length s') s' 0 with Ok d => Ok (- d) | r => r end
  else pd_loop (length (c :: s')) (c :: s') 0.
Proof. intros H. unfold parse_duration. destruct s'; [congruence|reflexivity]. Qed.

(* C08_exact *)
Theorem parse_duration_exact s d :
  parse_duration s = Ok d -> exact_total s = Some d /\ fits64 d = true.
Proof.
  destruct s as [|c s']; [discriminate|].
  destruct (is_nil s') eqn:En; [destruct s'; [discriminate|discriminate]|].
  assert (Hne : s' <> []) by (intros ->; discriminate).
  rewrite parse_duration_unfold, exact_total_unfold by assumption.
  destruct (c =? 45).
  - pose proof (pd_loop_top s') as H.
    destruct (pd_loop (length s') s' 0) as [v|e| |]; try discriminate.
    intros E; inversion E; subst d. destruct H as [H1 H2]. rewrite H1. split; [reflexivity|].
    unfold fits64, min_i64, max_i64 in *. lia.
  - pose proof (pd_loop_top (c :: s')) as H.
    destruct (pd_loop (length (c :: s')) (c :: s') 0) as [v|e| |]; try discriminate.
    intros E; inversion E; subst d. destruct H as [H1 H2]. split; [assumption|].
    unfold fits64, min_i64, max_i64 in *. lia.
Qed.

(* C08_rejects: malformed spellings and totals that do not fit are errors *)
Theorem parse_duration_rejects s :
  (exact_total s = None \/ exists t, exact_total s = Some t /\ fits64 t = false) ->
  exists e, parse_duration s = Err e.
Proof.
  destruct s as [|c s']; [eexists; reflexivity|].
  destruct (is_nil s') eqn:En; [destruct s'; [eexists; reflexivity|discriminate]|].
  assert (Hne : s' <> []) by (intros ->; discriminate).
  rewrite parse_duration_unfold, exact_total_unfold by assumption. intros Hx.
  destruct (c =? 45).
  - pose proof (pd_loop_top s') as H.
    destruct (pd_loop (length s') s' 0) as [v|e| |]; try contradiction; [|eexists; reflexivity].
    exfalso. destruct H as [H1 H2]. rewrite H1 in Hx. cbn [option_map] in Hx.
    destruct Hx as [Hx|[t [Hx1 Hx2]]]; [discriminate|]. inversion Hx1; subst t.
    unfold fits64, min_i64, max_i64 in *. lia.
  - pose proof (pd_loop_top (c :: s')) as H.
    destruct (pd_loop (length (c :: s')) (c :: s') 0) as [v|e| |]; try contradiction; [|eexists; reflexivity].
    exfalso. destruct H as [H1 H2]. rewrite H1 in Hx.
    destruct Hx as [Hx|[t [Hx1 Hx2]]]; [discriminate|]. inversion Hx1; subst t.
    unfold fits64, min_i64, max_i64 in *. lia.
Qed.

(* every well-formed spelling whose total fits (the most negative value excepted) is accepted with that total *)
Theorem parse_duration_complete s t :
  exact_total s = Some t -> - max_i64 <= t <= max_i64 -> parse_duration s = Ok t.
Proof.
  destruct s as [|c s']; [discriminate|].
  destruct (is_nil s') eqn:En; [destruct s'; [rewrite exact_total_single; discriminate|discriminate]|].
  assert (Hne : s' <> []) by (intros ->; discriminate).
  rewrite parse_duration_unfold, exact_total_unfold by assumption. intros Hx Ht.
  destruct (c =? 45).
  - pose proof (pd_loop_top s') as H.
    destruct (pd_loop (length s') s' 0) as [v|e| |]; try contradiction.
    + destruct H as [H1 H2]. rewrite H1 in Hx. cbn [option_map] in Hx. inversion Hx; reflexivity.
    + exfalso. destruct H as [H|[t' [H1 H2]]].
      * rewrite H in Hx. discriminate.
      * rewrite H1 in Hx. cbn [option_map] in Hx. inversion Hx; subst t. lia.
  - pose proof (pd_loop_top (c :: s')) as H.
    destruct (pd_loop (length (c :: s')) (c :: s') 0) as [v|e| |]; try contradiction.
    + destruct H as [H1 H2]. rewrite H1 in Hx. inversion Hx; reflexivity.
    + exfalso. destruct H as [H|[t' [H1 H2]]].
      * rewrite H in Hx. discriminate.
      * rewrite H1 in Hx. inversion Hx; subst t. lia.
Qed.

(* ---- formatting ---- *)
From InfluxQL Require Import Proofs.DecimalProofs.

Lemma span_digits_stop ds : forall c r,
  Forall (fun c => is_digit c = true) ds -> is_digit c = false ->
  span_digits (ds ++ c :: r) = (ds, c :: r).
Proof.
  induction ds as [|d ds IH]; intros c r HF Hc; cbn [app span_digits].
  - rewrite Hc. reflexivity.
  - inversion HF as [|? ? Hd HF']; subst. rewrite Hd. rewrite IH by assumption. reflexivity.
Qed.

(* one component: <digits of n><unit> *)
Lemma comps_one n (ut : text) u c ut' :
  0 <= n -> ut = c :: ut' -> is_digit c = false -> take_unit ut = Some (u, []) ->
  comps (length (dec_nonneg n ++ ut)) (dec_nonneg n ++ ut) = Some (n * u).
Proof.
  intros Hn -> Hc Hu.
  pose proof (dec_nonneg_nonempty n) as Hne.
  destruct (dec_nonneg n ++ c :: ut') as [|x xs] eqn:E.
  { destruct (dec_nonneg n); discriminate. }
  cbn [length comps]. rewrite <- E.
  rewrite span_digits_stop by (try apply dec_nonneg_digits; assumption).
  destruct (is_nil (dec_nonneg n)) eqn:En; [destruct (dec_nonneg n); [congruence|discriminate]|].
  rewrite Hu. destruct (length xs); cbn [comps option_map]; rewrite dec_nonneg_val by assumption; f_equal; lia.
Qed.

Lemma exact_total_dec q ut u c ut' :
  q <> 0 -> ut = c :: ut' -> is_digit c = false -> take_unit ut = Some (u, []) ->
  exact_total (dec q ++ ut) = Some (q * u).
Proof.
  intros Hq Hut Hc Hu. unfold dec. destruct (q <? 0) eqn:Eq.
  - cbn [app]. rewrite exact_total_unfold.
    2:{ pose proof (dec_nonneg_nonempty (- q)). destruct (dec_nonneg (- q)); [congruence|discriminate]. }
    replace (45 =? 45) with true by reflexivity.
    rewrite (comps_one (- q) ut u c ut') by (try assumption; lia). cbn [option_map]. f_equal. lia.
  - pose proof (dec_nonneg_nonempty q) as Hne. pose proof (dec_nonneg_digits q ltac:(lia)) as HF.
    destruct (dec_nonneg q) as [|x xs] eqn:E; [congruence|].
    cbn [app]. inversion HF as [|? ? Hx HF']; subst.
    unfold exact_total. assert (x =? 45 = false) as -> by (unfold is_digit in Hx; lia).
    change (x :: xs ++ c :: ut') with ((x :: xs) ++ c :: ut'). rewrite <- E.
    apply (comps_one q (c :: ut') u c ut'); try assumption; try reflexivity. lia.
Qed.

(* FormatDuration names the exact value, for every 64-bit (indeed every) d *)
Lemma format_case d u (ut : text) c ut' rest :
  d <> 0 -> 0 < u -> ut = c :: ut' -> is_digit c = false -> take_unit ut = Some (u, []) ->
  (Z.rem d u =? 0 = false -> exact_total rest = Some d) ->
  exact_total (if Z.rem d u =? 0 then dec (Z.quot d u) ++ ut else rest) = Some d.
Proof.
  intros Hd Hu Hut Hc Htu Hrest. destruct (Z.rem d u =? 0) eqn:E; [|apply Hrest; reflexivity].
  rewrite (exact_total_dec (Z.quot d u) ut u c ut'); try assumption; [f_equal; lia|lia].
Qed.

Theorem format_exact d : exact_total (format_duration d) = Some d.
Proof.
  unfold format_duration.
  destruct (d =? 0) eqn:E0; [assert (d = 0) by lia; subst; reflexivity|].
  assert (Hd : d <> 0) by lia.
  apply (format_case d ns_w (ts "w") 119 []); try reflexivity; try assumption; intros _.
  apply (format_case d ns_d (ts "d") 100 []); try reflexivity; try assumption; intros _.
  apply (format_case d ns_h (ts "h") 104 []); try reflexivity; try assumption; intros _.
  apply (format_case d ns_m (ts "m") 109 []); try reflexivity; try assumption; intros _.
  apply (format_case d ns_s (ts "s") 115 []); try reflexivity; try assumption; intros _.
  apply (format_case d ns_ms (ts "ms") 109 [115]); try reflexivity; try assumption; intros _.
  apply (format_case d ns_us (ts "u") 117 []); try reflexivity; try assumption; intros _.
  rewrite (exact_total_dec d (ts "ns") 1 110 [115]); try reflexivity; try assumption. f_equal; lia.
Qed.

(* C08_roundtrip *)
Theorem format_parse_roundtrip d :
  min_i64 < d <= max_i64 -> parse_duration (format_duration d) = Ok d.
Proof.
  intros Hd. apply parse_duration_complete; [apply format_exact|unfold min_i64, max_i64 in *; lia].
Qed.

(* the single excepted value really is rejected *)
Lemma format_parse_min : exists e, parse_duration (format_duration min_i64) = Err e.
Proof. vm_compute. eexists; reflexivity. Qed.

(* C08_largest_unit: FormatDuration writes d in the largest unit that divides it *)
Definition unit_table : list (Z * text) :=
  [(ns_w, ts "w"); (ns_d, ts "d"); (ns_h, ts "h"); (ns_m, ts "m"); (ns_s, ts "s"); (ns_ms, ts "ms"); (ns_us, ts "u"); (1, ts "ns")].

Fixpoint largest_dividing (d : Z) (tbl : list (Z * text)) : option (Z * text) :=
  match tbl with
  | [] => None
  | (u, n) :: tbl' => if Z.rem d u =? 0 then Some (u, n) else largest_dividing d tbl'
  end.

Theorem format_largest_unit d :
  d <> 0 ->
  exists u n, largest_dividing d unit_table = Some (u, n) /\ format_duration d = dec (Z.quot d u) ++ n.
Proof.
  intros Hd. unfold format_duration, unit_table. cbn [largest_dividing].
  assert (d =? 0 = false) as -> by lia.
  repeat match goal with
  | |- context [if Z.rem d ?u =? 0 then _ else _] => destruct (Z.rem d u =? 0); [do 2 eexists; split; reflexivity|]
  end.
  replace (Z.rem d 1 =? 0) with true by (symmetry; apply Z.eqb_eq; apply Z.rem_1_r).
  do 2 eexists; split; [reflexivity|]. rewrite Z.quot_1_r. reflexivity.
Qed.

Lemma format_zero : format_duration 0 = ts "0s".
Proof. reflexivity. Qed.
