(* C13: RewriteFields is total - for every statement, mapper and oracle it returns a statement or an error, never a
   crash and never a fuel exhaustion (the model has no fuel here: the recursion is structural in the nested sources). *)
From InfluxQL Require Import Base.Prelude Base.Oracles Lex.Token Ast.Ast Ast.ColumnNames Sem.Eval Sem.Reduce Sem.RewriteFields.

Definition settled {A} (r : res A) : Prop := match r with Ok _ | Err _ => True | _ => False end.

Lemma settled_bind {A B} (r : res A) (f : A -> res B) : settled r -> (forall a, settled (f a)) -> settled (rbind r f).
Proof. destruct r; cbn; intros H Hf; try contradiction; [apply Hf|exact I]. Qed.

Section T.
Variable orc : oracles.
Variable mt : measurement -> text -> datatype.
Variable fd : measurement -> option (list (text * datatype) * list text).

Lemma expand_field_settled cols f : settled (expand_field orc cols f).
Proof.
  unfold expand_field. destruct (f_expr f); try exact I.
  - destruct (_ || _); exact I.
  - destruct (innermost _ _ _) as [iname iargs]. destruct iargs as [|a0 rest]; [exact I|].
    destruct a0; try exact I. destruct (tok_eqb t TAG); exact I.
Qed.

Lemma expand_fields_settled cols fs : settled (expand_fields orc cols fs).
Proof.
  induction fs as [|f fs IH]; cbn [expand_fields]; [exact I|].
  apply settled_bind; [apply expand_field_settled|]. intros a. apply settled_bind; [exact IH|]. intros b. exact I.
Qed.

Lemma rewrite_body_settled q : settled (rewrite_body orc mt fd q).
Proof.
  unfold rewrite_body. cbv zeta. destruct (negb _ && negb _); [exact I|].
  destruct (field_dimensions orc mt fd (s_sources q)) as [[fs ds]|]; [|exact I].
  apply settled_bind; [|intros a; exact I]. destruct (existsb _ _); [apply expand_fields_settled|exact I].
Qed.

Lemma rewrite_source_settled : forall s, settled (rewrite_source orc mt fd s).
Proof.
  fix IH 1. intros s. destruct s as [m|q]; cbn [rewrite_source]; [exact I|].
  apply settled_bind.
  - induction (s_sources q) as [|x l IHl]; [exact I|]. apply settled_bind; [apply IH|]. intros y.
    apply settled_bind; [exact IHl|]. intros ys. exact I.
  - intros srcs. apply settled_bind; [apply rewrite_body_settled|]. intros q'. exact I.
Qed.

Theorem rewrite_fields_total q : settled (rewrite_fields orc mt fd q).
Proof.
  unfold rewrite_fields. pose proof (rewrite_source_settled (SSubQuery q)) as H.
  destruct (rewrite_source orc mt fd (SSubQuery q)) as [[m|q']| | |]; try exact I; contradiction.
Qed.
End T.
