(* The stream lexer consumes a prefix of its text: the rest it returns is a suffix of what it was given, and a
   proper one for every token but the final EOF. *)
From InfluxQL Require Import Base.Prelude Lex.Token Lex.Reader Lex.Scanner.
From InfluxQL Require Import Lex.StreamLex.
From InfluxQL Require Import Proofs.RingAt Proofs.RingRefine.

Definition canon (t : text) : Prop := strip t = t.
Definition suffix (t' t : text) : Prop := exists p, t = p ++ t'.

Lemma suffix_refl t : suffix t t.
Proof. exists []. reflexivity. Qed.
Lemma suffix_trans a b c : suffix a b -> suffix b c -> suffix a c.
Proof. intros [p ->] [q ->]. exists (q ++ p). rewrite app_assoc. reflexivity. Qed.
Lemma suffix_cons c t : suffix t (c :: t).
Proof. exists [c]. reflexivity. Qed.
Lemma suffix_len a b : suffix a b -> (length a <= length b)%nat.
Proof. intros [p ->]. rewrite app_length. lia. Qed.

Lemma canon_nil : canon [].
Proof. reflexivity. Qed.
Lemma canon_tail c t : canon (c :: t) -> canon t.
Proof.
  unfold canon. cbn [strip]. intros H. destruct (strip t) as [|d u] eqn:E.
  - cbn in H. destruct (c =? 0); [discriminate|]. injection H as <-. reflexivity.
  - cbn in H. injection H as <-. reflexivity.
Qed.
Lemma canon_suffix a b : suffix a b -> canon b -> canon a.
Proof. intros [p ->]. induction p as [|c p IH]; intros H; [exact H|]. apply IH. exact (canon_tail _ _ H). Qed.
Lemma strip_idem x : strip (strip x) = strip x.
Proof.
  induction x as [|c y IH]; [reflexivity|]. cbn [strip]. destruct (strip y) as [|d u] eqn:E.
  - cbn. destruct (c =? 0) eqn:Ec; cbn; [reflexivity|rewrite Ec; reflexivity].
  - change (ucons c (d :: u)) with (c :: d :: u). cbn [strip] in *. rewrite IH. reflexivity.
Qed.
Lemma canon_strip x : canon (strip x).
Proof. apply strip_idem. Qed.

(* on a text without a trailing end marker, pushing back the rune just read restores the text *)
Lemma canon_unread t : canon t -> ucons (fst (sread t)) (snd (sread t)) = t.
Proof.
  intros H. destruct t as [|c t1]; [reflexivity|]. cbn [sread fst snd]. pose proof (canon_tail _ _ H) as H1.
  unfold canon in *. cbn [strip] in H. rewrite H1 in H. exact H.
Qed.
Lemma canon_sread t : canon t -> canon (snd (sread t)).
Proof. destruct t as [|c t1]; [intros; exact canon_nil|]. apply canon_tail. Qed.
Lemma suffix_sread t : suffix (snd (sread t)) t.
Proof. destruct t as [|c t1]; [apply suffix_refl|apply suffix_cons]. Qed.

(* one step of a loop: read, and either stop in front of the rune, stop behind it, or go on *)
Ltac step H :=
  let H1 := fresh "H1" in let S1 := fresh "S1" in let U := fresh "U" in
  pose proof (canon_sread _ H) as H1; pose proof (suffix_sread _ : suffix (snd (sread _)) _) as S1;
  pose proof (canon_unread _ H) as U.

Section T.
Variable ulower : Z -> Z.

Lemma digits_suffix f : forall t acc, canon t -> suffix (snd (s_digits f t acc)) t.
Proof.
  induction f as [|f IH]; intros t acc H; cbn [s_digits]; [apply suffix_refl|].
  pose proof (canon_sread _ H) as H1. pose proof (suffix_sread t) as S1. pose proof (canon_unread _ H) as U.
  destruct (sread t) as [c t1]. cbn [fst snd] in *.
  destruct (negb (is_digit c)); [cbn; rewrite U; apply suffix_refl|]. eapply suffix_trans; [apply IH; exact H1|exact S1].
Qed.
Lemma dur_letters_suffix f : forall t acc, canon t -> suffix (snd (s_dur_letters f t acc)) t.
Proof.
  induction f as [|f IH]; intros t acc H; cbn [s_dur_letters]; [apply suffix_refl|].
  pose proof (canon_sread _ H) as H1. pose proof (suffix_sread t) as S1. pose proof (canon_unread _ H) as U.
  destruct (sread t) as [c t1]. cbn [fst snd] in *.
  destruct (negb (is_dur_letter c)); [cbn; rewrite U; apply suffix_refl|]. eapply suffix_trans; [apply IH; exact H1|exact S1].
Qed.
Lemma dur_rest_suffix f : forall t acc, canon t -> suffix (snd (s_dur_rest f t acc)) t.
Proof.
  induction f as [|f IH]; intros t acc H; cbn [s_dur_rest]; [apply suffix_refl|].
  pose proof (canon_sread _ H) as H1. pose proof (suffix_sread t) as S1. pose proof (canon_unread _ H) as U.
  destruct (sread t) as [c t1]. cbn [fst snd] in *.
  destruct (is_dur_letter c || is_digit c); [|cbn; rewrite U; apply suffix_refl]. eapply suffix_trans; [apply IH; exact H1|exact S1].
Qed.
Lemma ws_loop_suffix f : forall t acc, canon t -> suffix (snd (s_ws_loop f t acc)) t.
Proof.
  induction f as [|f IH]; intros t acc H; cbn [s_ws_loop]; [apply suffix_refl|].
  pose proof (canon_sread _ H) as H1. pose proof (suffix_sread t) as S1. pose proof (canon_unread _ H) as U.
  destruct (sread t) as [c t1]. cbn [fst snd] in *.
  destruct (c =? 0); [exact S1|].
  destruct (negb (is_whitespace c)); [cbn; rewrite U; apply suffix_refl|]. eapply suffix_trans; [apply IH; exact H1|exact S1].
Qed.
Lemma bare_ident_suffix f : forall t acc, canon t -> suffix (snd (s_bare_ident f t acc)) t.
Proof.
  induction f as [|f IH]; intros t acc H; cbn [s_bare_ident]; [apply suffix_refl|].
  pose proof (canon_sread _ H) as H1. pose proof (suffix_sread t) as S1. pose proof (canon_unread _ H) as U.
  destruct (sread t) as [c t1]. cbn [fst snd] in *.
  destruct (c =? 0); [exact S1|].
  destruct (negb (is_ident_char c)); [cbn; rewrite U; apply suffix_refl|]. eapply suffix_trans; [apply IH; exact H1|exact S1].
Qed.
Lemma skip_newline_suffix f : forall t, suffix (s_skip_newline f t) t.
Proof.
  induction f as [|f IH]; intros t; cbn [s_skip_newline]; [apply suffix_refl|].
  pose proof (suffix_sread t) as S1. destruct (sread t) as [c t1]. cbn [fst snd] in *.
  destruct ((c =? 10) || (c =? 0)); [exact S1|]. eapply suffix_trans; [apply IH|exact S1].
Qed.
Lemma skip_comment_suffix f : forall star t, suffix (snd (s_skip_comment f star t)) t.
Proof.
  induction f as [|f IH]; intros star t; cbn [s_skip_comment]; [apply suffix_refl|].
  pose proof (suffix_sread t) as S1. destruct (sread t) as [c t1]. cbn [fst snd] in *.
  assert (forall b, suffix (snd (s_skip_comment f b t1)) t) as IH' by (intros b; eapply suffix_trans; [apply IH|exact S1]).
  destruct star.
  - destruct (c =? 47); [exact S1|]. destruct (c =? 42); [apply IH'|]. destruct (c =? 0); [exact S1|apply IH'].
  - destruct (c =? 42); [apply IH'|]. destruct (c =? 0); [exact S1|apply IH'].
Qed.
Lemma string_loop_suffix f : forall e t acc, suffix (snd (s_string_loop f e t acc)) t.
Proof.
  induction f as [|f IH]; intros e t acc; cbn [s_string_loop]; [apply suffix_refl|].
  pose proof (suffix_sread t) as S1. destruct (sread t) as [c t1]. cbn [fst snd] in *.
  destruct (c =? e); [exact S1|]. destruct ((c =? 0) || (c =? 10)); [exact S1|].
  destruct (c =? 92); [|eapply suffix_trans; [apply IH|exact S1]].
  pose proof (suffix_sread t1) as S2. destruct (sread t1) as [c1 t2]. cbn [fst snd] in *.
  assert (S12 : suffix t2 t) by (eapply suffix_trans; [exact S2|exact S1]).
  assert (forall a, suffix (snd (s_string_loop f e t2 a)) t) as IH' by (intros a; eapply suffix_trans; [apply IH|exact S12]).
  destruct (c1 =? 110); [apply IH'|]. destruct (c1 =? 92); [apply IH'|]. destruct (c1 =? 34); [apply IH'|].
  destruct (c1 =? 39); [apply IH'|exact S12].
Qed.
(* scanString consumes at least the opening quote *)
Lemma scan_string_suffix t : suffix (snd (s_scan_string t)) (snd (sread t)).
Proof.
  unfold s_scan_string, s_ScanString. destruct (sread t) as [e t1]. cbn [snd].
  destruct (e =? 0); [cbn; apply suffix_refl|].
  pose proof (string_loop_suffix (sfuel t1) e t1 []) as S. destruct (s_string_loop (sfuel t1) e t1 []) as [[lit err] t2].
  cbn [snd] in *. destruct (err =? 1); [exact S|]. destruct (err =? 2); exact S.
Qed.

Lemma ident_loop_suffix f : forall t acc, canon t -> suffix (snd (s_ident_loop f t acc)) t.
Proof.
  induction f as [|f IH]; intros t acc H; cbn [s_ident_loop]; [apply suffix_refl|].
  pose proof (canon_sread _ H) as H1. pose proof (suffix_sread t) as S1. pose proof (canon_unread _ H) as U.
  pose proof (scan_string_suffix t) as SS. pose proof (bare_ident_suffix (sfuel t) t [] H) as SB.
  destruct (sread t) as [c t1]. cbn [fst snd] in *. rewrite U.
  destruct (c =? 0); [exact S1|].
  destruct (c =? 34).
  - destruct (s_scan_string t) as [[tok0 lit0] t2]. cbn [snd] in *.
    assert (suffix t2 t) by (eapply suffix_trans; [exact SS|exact S1]). destruct tok0; assumption.
  - destruct (is_ident_char c); [|cbn; apply suffix_refl].
    destruct (s_bare_ident (sfuel t) t []) as [s0 t2]. cbn [snd] in *.
    eapply suffix_trans; [apply IH; exact (canon_suffix _ _ SB H)|exact SB].
Qed.

Lemma ident_loop_strict f c t1 acc : canon (c :: t1) -> c <> 0 -> c = 34 \/ is_ident_char c = true ->
  suffix (snd (s_ident_loop (S f) (c :: t1) acc)) t1.
Proof.
  intros H Hc Hk. pose proof (canon_tail _ _ H) as H1. cbn [s_ident_loop sread]. rewrite (ucons_nz c t1 Hc).
  destruct (Z.eqb_spec c 0) as [|_]; [contradiction|].
  destruct (Z.eqb_spec c 34) as [E|E].
  - pose proof (scan_string_suffix (c :: t1)) as SS. cbn [sread snd] in SS.
    destruct (s_scan_string (c :: t1)) as [[tok0 lit0] t2]. cbn [snd] in *. destruct tok0; exact SS.
  - destruct Hk as [|Hk]; [contradiction|]. rewrite Hk.
    assert (SB : suffix (snd (s_bare_ident (sfuel (c :: t1)) (c :: t1) [])) t1).
    { unfold sfuel. cbn [length Nat.add s_bare_ident sread]. destruct (Z.eqb_spec c 0) as [|_]; [contradiction|].
      rewrite Hk. cbn [negb]. apply bare_ident_suffix. exact H1. }
    destruct (s_bare_ident (sfuel (c :: t1)) (c :: t1) []) as [s0 t2]. cbn [snd] in *.
    eapply suffix_trans; [apply ident_loop_suffix; exact (canon_suffix _ _ SB H1)|exact SB].
Qed.

Lemma scan_ident_suffix kw t : canon t -> suffix (snd (s_scan_ident ulower kw t)) t.
Proof.
  intros H. unfold s_scan_ident. pose proof (ident_loop_suffix (sfuel t) t [] H) as S.
  destruct (s_ident_loop (sfuel t) t []) as [[early lit] t2]. cbn [snd] in *.
  destruct early; [exact S|]. destruct kw; [|exact S]. destruct (lookup ulower lit); exact S.
Qed.
Lemma scan_ident_strict kw c t1 : canon (c :: t1) -> c <> 0 -> c = 34 \/ is_ident_char c = true ->
  suffix (snd (s_scan_ident ulower kw (c :: t1))) t1.
Proof.
  intros H Hc Hk. unfold s_scan_ident. unfold sfuel. cbn [length Nat.add].
  pose proof (ident_loop_strict (length t1 + 8)%nat c t1 [] H Hc Hk) as Sx.
  destruct (s_ident_loop (S (length t1 + 8)%nat) (c :: t1) []) as [[early lit] t2]. cbn [snd] in *.
  destruct early; [exact Sx|]. destruct kw; [|exact Sx]. destruct (lookup ulower lit); exact Sx.
Qed.

Lemma scan_whitespace_suffix c t : canon t -> suffix (snd (s_scan_whitespace c t)) t.
Proof.
  intros H. unfold s_scan_whitespace. pose proof (ws_loop_suffix (sfuel t) t [c] H) as S.
  destruct (s_ws_loop (sfuel t) t [c]) as [lit t1]. exact S.
Qed.

(* the part of scanNumber behind the first run of digits *)
Lemma number_go_tail t : canon t -> suffix (snd (s_number_go t)) (snd (s_digits (sfuel t) t [])).
Proof.
  intros H. unfold s_number_go. pose proof (digits_suffix (sfuel t) t [] H) as SD.
  destruct (s_digits (sfuel t) t []) as [d1 t1]. cbn [snd] in *. pose proof (canon_suffix _ _ SD H) as H1.
  pose proof (canon_sread _ H1) as H2. pose proof (suffix_sread t1) as S2. pose proof (canon_unread _ H1) as U1.
  destruct (sread t1) as [ch0 t2]. cbn [fst snd] in *.
  destruct (ch0 =? 46).
  - pose proof (canon_sread _ H2) as H3. pose proof (suffix_sread t2) as S3. pose proof (canon_unread _ H2) as U2.
    destruct (sread t2) as [ch1 t3]. cbn [fst snd] in *.
    destruct (is_digit ch1).
    + pose proof (digits_suffix (sfuel t3) t3 [] H3) as SD2. destruct (s_digits (sfuel t3) t3 []) as [d2 t4]. cbn [snd] in *.
      eapply suffix_trans; [exact SD2|]. eapply suffix_trans; [exact S3|exact S2].
    + cbn [snd]. rewrite U2. exact S2.
  - rewrite sread_ucons. destruct (is_dur_letter ch0).
    + pose proof (dur_letters_suffix (sfuel t2) t2 [ch0] H2) as S5. destruct (s_dur_letters (sfuel t2) t2 [ch0]) as [acc1 t5].
      cbn [snd] in *. pose proof (dur_rest_suffix (sfuel t5) t5 acc1 (canon_suffix _ _ S5 H2)) as S6.
      destruct (s_dur_rest (sfuel t5) t5 acc1) as [acc2 t6]. cbn [snd] in *.
      eapply suffix_trans; [exact S6|]. eapply suffix_trans; [exact S5|exact S2].
    + cbn [snd]. rewrite U1. apply suffix_refl.
Qed.

Lemma digit_not_dot c : is_digit c = true -> c <> 46 /\ c <> 0.
Proof. unfold is_digit. intros H. apply andb_prop in H. destruct H as [H1 H2]. apply Z.leb_le in H1, H2. lia. Qed.

Lemma scan_number_digit c t : canon t -> is_digit c = true -> suffix (snd (s_scan_number c t)) t.
Proof.
  intros H Hd. destruct (digit_not_dot c Hd) as [H46 H0]. unfold s_scan_number.
  destruct (Z.eqb_spec c 46) as [|_]; [contradiction|]. rewrite (ucons_nz c t H0).
  assert (Hc : canon (c :: t)).
  { unfold canon in *. cbn [strip]. rewrite H. apply ucons_nz. exact H0. }
  eapply suffix_trans; [apply number_go_tail; exact Hc|].
  unfold sfuel. cbn [length Nat.add s_digits sread]. rewrite Hd. cbn [negb]. apply digits_suffix. exact H.
Qed.

Lemma number_go_dot c1 t2 : canon t2 -> is_digit c1 = true -> suffix (snd (s_number_go (46 :: c1 :: t2))) t2.
Proof.
  intros H Hd. unfold s_number_go, sfuel. cbn [length Nat.add s_digits sread]. change (is_digit 46) with false.
  cbn [negb rev ucons sread]. change (46 =? 46) with true. cbn iota. rewrite Hd.
  pose proof (digits_suffix (length t2 + 8)%nat t2 [] H) as SD. destruct (s_digits (length t2 + 8)%nat t2 []) as [d2 t4].
  exact SD.
Qed.

Lemma scan_number_dot t : canon t -> suffix (snd (s_scan_number 46 t)) t.
Proof.
  intros H. unfold s_scan_number. cbn [Z.eqb Pos.eqb].
  pose proof (canon_sread _ H) as H1. pose proof (suffix_sread t) as S1. pose proof (canon_unread _ H) as U.
  destruct (sread t) as [ch1 t']. cbn [fst snd] in *. rewrite U.
  destruct (is_digit ch1) eqn:Hd; cbn [negb]; [|cbn [snd]; apply suffix_refl].
  destruct (digit_not_dot _ Hd) as [_ H0].
  assert (Et : t = ch1 :: t') by (rewrite <- U; apply ucons_nz; exact H0). clear U. subst t.
  rewrite (ucons_nz 46) by lia. eapply suffix_trans; [apply number_go_dot; assumption|exact S1].
Qed.

Lemma letter_ident c : is_letter c || (c =? 95) = true -> c <> 0 /\ is_ident_char c = true.
Proof.
  intros H. split.
  - intros ->. discriminate H.
  - unfold is_ident_char. destruct (is_letter c); [reflexivity|]. cbn in H. rewrite H. apply orb_true_r.
Qed.

(* every token consumes the rune it starts with: what is left is a suffix of the text behind that rune *)
Theorem s_scan_progress t : canon t -> suffix (snd (s_scan ulower t)) (snd (sread t)).
Proof.
  intros H. destruct t as [|c t1]; [cbn; apply suffix_refl|]. pose proof (canon_tail _ _ H) as H1.
  unfold s_scan. cbn [sread fst snd].
  pose proof (canon_sread _ H1) as H2. pose proof (suffix_sread t1) as S2. pose proof (canon_unread _ H1) as U1.
  destruct (sread t1) as [ch1 t2]. cbn [fst snd] in *. rewrite U1.
  destruct (is_whitespace c); [apply scan_whitespace_suffix; exact H1|].
  destruct (is_letter c || (c =? 95)) eqn:El.
  { destruct (letter_ident c El) as [Hc Hi]. rewrite (ucons_nz c t1 Hc). apply scan_ident_strict; [exact H|exact Hc|right; exact Hi]. }
  destruct (is_digit c) eqn:Ed; [apply scan_number_digit; assumption|].
  destruct (c =? 0); [apply suffix_refl|].
  destruct (Z.eqb_spec c 34) as [E|_].
  { subst c. change (ucons 34 t1) with (34 :: t1) || rewrite (ucons_nz 34 t1) by lia.
    apply scan_ident_strict; [exact H|lia|left; reflexivity]. }
  destruct (Z.eqb_spec c 39) as [E|_].
  { subst c. rewrite (ucons_nz 39 t1) by lia. exact (scan_string_suffix (39 :: t1)). }
  destruct (c =? 46).
  { destruct (is_digit ch1); [apply scan_number_dot; exact H1|apply suffix_refl]. }
  destruct (c =? 36).
  { pose proof (scan_ident_suffix false t1 H1) as Sx. destruct (s_scan_ident ulower false t1) as [[tok lit] t3].
    cbn [snd] in *. destruct tok; exact Sx. }
  destruct (c =? 43); [apply suffix_refl|].
  destruct (c =? 45).
  { destruct (ch1 =? 45); [|apply suffix_refl]. cbn [snd]. eapply suffix_trans; [apply skip_newline_suffix|exact S2]. }
  destruct (c =? 42); [apply suffix_refl|].
  destruct (c =? 47).
  { destruct (ch1 =? 42); [|apply suffix_refl]. pose proof (skip_comment_suffix (sfuel t2) false t2) as Sx.
    destruct (s_skip_comment (sfuel t2) false t2) as [err t3]. cbn [snd] in *.
    destruct err; cbn [snd]; (eapply suffix_trans; [exact Sx|exact S2]). }
  destruct (c =? 37); [apply suffix_refl|]. destruct (c =? 38); [apply suffix_refl|]. destruct (c =? 124); [apply suffix_refl|].
  destruct (c =? 94); [apply suffix_refl|].
  destruct (c =? 61); [destruct (ch1 =? 126); [exact S2|apply suffix_refl]|].
  destruct (c =? 33); [destruct (ch1 =? 61); [exact S2|destruct (ch1 =? 126); [exact S2|apply suffix_refl]]|].
  destruct (c =? 62); [destruct (ch1 =? 61); [exact S2|apply suffix_refl]|].
  destruct (c =? 60); [destruct (ch1 =? 61); [exact S2|destruct (ch1 =? 62); [exact S2|apply suffix_refl]]|].
  destruct (c =? 40); [apply suffix_refl|]. destruct (c =? 41); [apply suffix_refl|]. destruct (c =? 44); [apply suffix_refl|].
  destruct (c =? 59); [apply suffix_refl|].
  destruct (c =? 58); [destruct (ch1 =? 58); [exact S2|apply suffix_refl]|].
  apply suffix_refl.
Qed.
End T.
