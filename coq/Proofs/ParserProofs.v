(* Generic facts about parser programs and their interpreter: the monad law that makes
   reasoning compositional, the relational theorem (one proof for every parser function at
   every fuel), and the keyword table. *)
From InfluxQL Require Import Base.Prelude Lex.Token Lex.Reader Lex.Scanner Parse.Instr.

Section WithLower.
Variable ulower : Z -> Z.

(* run distributes over bind *)
Lemma run_bind {A B} (p : prog A) (f : A -> prog B) : forall s,
  run ulower (bind p f) s =
  match run ulower p s with
  | Ok (a, s') => run ulower (f a) s'
  | Err e => Err e
  | Crash c => Crash c
  | OutOfFuel => OutOfFuel
  end.
Proof.
  induction p as [a|e|site|k IH|k IH|k IH|k IH]; intros s; cbn [bind run].
  - reflexivity.
  - destruct e; reflexivity.
  - reflexivity.
  - destruct (buf_scan ulower false s) as [t s']. destruct (state_bad s'); [reflexivity|].
    destruct (state_oof s'); [reflexivity|]. apply IH.
  - destruct (buf_scan ulower true s) as [t s']. destruct (state_bad s'); [reflexivity|].
    destruct (state_oof s'); [reflexivity|]. apply IH.
  - apply IH.
  - destruct (do_peek s) as [c s']. destruct (state_bad s'); [reflexivity|]. apply IH.
Qed.

(* results related by R on the final state, equal on the value *)
Definition rel_res {A} (R : pstate -> pstate -> Prop) (r1 r2 : res (A * pstate)) : Prop :=
  match r1, r2 with
  | Ok (a1, s1), Ok (a2, s2) => a1 = a2 /\ R s1 s2
  | Err _, Err _ => True           (* both fail; positions may differ *)
  | Crash c1, Crash c2 => c1 = c2
  | OutOfFuel, OutOfFuel => True
  | _, _ => False
  end.

(* If a relation between interpreter states is preserved by each of the four instructions, with equal
   answers (token kind, literal and serial for scans; rune class for peeks) and equal fault flags, then
   EVERY program — hence every parser function at every fuel — computes equal values from related states. *)
Theorem run_rel (R : pstate -> pstate -> Prop)
  (R_scan : forall rx s1 s2, R s1 s2 ->
      fst (buf_scan ulower rx s1) = fst (buf_scan ulower rx s2) /\
      state_bad (snd (buf_scan ulower rx s1)) = state_bad (snd (buf_scan ulower rx s2)) /\
      state_oof (snd (buf_scan ulower rx s1)) = state_oof (snd (buf_scan ulower rx s2)) /\
      R (snd (buf_scan ulower rx s1)) (snd (buf_scan ulower rx s2)))
  (R_unscan : forall s1 s2, R s1 s2 -> R (do_unscan s1) (do_unscan s2))
  (R_peek : forall s1 s2, R s1 s2 ->
      fst (do_peek s1) = fst (do_peek s2) /\
      state_bad (snd (do_peek s1)) = state_bad (snd (do_peek s2)) /\
      R (snd (do_peek s1)) (snd (do_peek s2))) :
  forall A (p : prog A) s1 s2, R s1 s2 -> rel_res R (run ulower p s1) (run ulower p s2).
Proof.
  induction p as [a|e|site|k IH|k IH|k IH|k IH]; intros s1 s2 HR; cbn [run].
  - cbn. split; [reflexivity|assumption].
  - destruct e; cbn; exact I.
  - cbn. reflexivity.
  - destruct (R_scan false s1 s2 HR) as [E1 [E2 [E3 HR']]].
    destruct (buf_scan ulower false s1) as [t1 s1'], (buf_scan ulower false s2) as [t2 s2']. cbn [fst snd] in *. subst t2.
    rewrite <- E2, <- E3. destruct (state_bad s1'); [cbn; reflexivity|]. destruct (state_oof s1'); [cbn; exact I|].
    apply IH; assumption.
  - destruct (R_scan true s1 s2 HR) as [E1 [E2 [E3 HR']]].
    destruct (buf_scan ulower true s1) as [t1 s1'], (buf_scan ulower true s2) as [t2 s2']. cbn [fst snd] in *. subst t2.
    rewrite <- E2, <- E3. destruct (state_bad s1'); [cbn; reflexivity|]. destruct (state_oof s1'); [cbn; exact I|].
    apply IH; assumption.
  - apply IH. apply R_unscan; assumption.
  - destruct (R_peek s1 s2 HR) as [E1 [E2 HR']].
    destruct (do_peek s1) as [c1 s1'], (do_peek s2) as [c2 s2']. cbn [fst snd] in *. subst c2.
    rewrite <- E2. destruct (state_bad s1'); [cbn; reflexivity|]. apply IH; assumption.
Qed.

(* ---- the keyword table ---- *)
Definition kw_entry_ok (k : token) : bool :=
  match assoc_text (ascii_lower (tok_string k)) keywords with Some t => tok_eqb t k | None => false end.

Lemma keywords_all_ok : forallb kw_entry_ok (keyword_tokens ++ [AND; OR]) = true.
Proof. vm_compute. reflexivity. Qed.

(* whatever the spelling's letter case: a word whose lower-casing is a keyword's name is that keyword *)
Lemma lookup_keyword w k :
  In k (keyword_tokens ++ [AND; OR]) -> to_lower ulower w = ascii_lower (tok_string k) -> lookup ulower w = k.
Proof.
  intros Hin Hw. unfold lookup. rewrite Hw.
  pose proof keywords_all_ok as H. rewrite forallb_forall in H. specialize (H k Hin). unfold kw_entry_ok in H.
  destruct (assoc_text (ascii_lower (tok_string k)) keywords) as [t|]; [|discriminate].
  destruct (tok_eqb_spec t k); [assumption|discriminate].
Qed.

(* and a word that is no keyword (nor true/false) in lower case is an identifier *)
Lemma lookup_ident w : assoc_text (to_lower ulower w) keywords = None -> lookup ulower w = IDENT.
Proof. intros H. unfold lookup. rewrite H. reflexivity. Qed.

End WithLower.
