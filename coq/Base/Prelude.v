(* Common definitions: runes, texts, outcomes, 64-bit wrap-around. *)
From Coq Require Export String Ascii.
From Coq Require Export List ZArith Bool Lia.
Export ListNotations.
Open Scope Z_scope.

(* A rune is a Unicode code point as Go's int32; a text is a decoded string. *)
Definition rune := Z.
Definition text := list Z.

(* string literals of the model: ASCII only *)
Fixpoint t_of_string (s : string) : text :=
  match s with
  | EmptyString => []
  | String a s' => Z.of_N (N_of_ascii a) :: t_of_string s'
  end.



Fixpoint text_eqb (a b : text) : bool :=
  match a, b with
  | [], [] => true
  | x :: a', y :: b' => Z.eqb x y && text_eqb a' b'
  | _, _ => false
  end.

Lemma text_eqb_spec a b : reflect (a = b) (text_eqb a b).
Proof.
  revert b; induction a as [|x a IH]; intros [|y b]; simpl; try (constructor; congruence).
  destruct (Z.eqb_spec x y); simpl.
  - destruct (IH b); constructor; congruence.
  - constructor; congruence.
Qed.

Lemma text_eqb_refl a : text_eqb a a = true.
Proof. destruct (text_eqb_spec a a); congruence. Qed.

Lemma text_eqb_eq a b : text_eqb a b = true <-> a = b.
Proof. destruct (text_eqb_spec a b); split; congruence. Qed.

(* lexicographic order on texts by code point (Go compares bytes of valid
   UTF-8, which is the same order as code points) *)
Fixpoint text_ltb (a b : text) : bool :=
  match a, b with
  | [], [] => false
  | [], _ :: _ => true
  | _ :: _, [] => false
  | x :: a', y :: b' => if x <? y then true else if y <? x then false else text_ltb a' b'
  end.

(* Outcomes of model functions: every Go panic site is a [Crash]. *)
Inductive res (A : Type) : Type :=
| Ok (a : A)
| Err (e : text)
| Crash (site : Z)
| OutOfFuel.
Arguments Ok {A} a.
Arguments Err {A} e.
Arguments Crash {A} site.
Arguments OutOfFuel {A}.

Definition rbind {A B} (r : res A) (f : A -> res B) : res B :=
  match r with
  | Ok a => f a
  | Err e => Err e
  | Crash s => Crash s
  | OutOfFuel => OutOfFuel
  end.
Notation "x <-r e ;; f" := (rbind e (fun x => f)) (at level 61, e at next level, right associativity).

Definition is_crash {A} (r : res A) : bool := match r with Crash _ => true | _ => false end.
Definition is_ok {A} (r : res A) : bool := match r with Ok _ => true | _ => false end.

(* 64-bit integers are Z with the wrap written out. *)
Definition two63 : Z := 9223372036854775808.
Definition two64 : Z := 18446744073709551616.
Definition max_i64 : Z := 9223372036854775807.
Definition min_i64 : Z := -9223372036854775808.
Definition max_u64 : Z := 18446744073709551615.
Definition wrap64 (z : Z) : Z := (z + two63) mod two64 - two63.
Definition wrapu (z : Z) : Z := z mod two64.
Definition fits64 (z : Z) : bool := (min_i64 <=? z) && (z <=? max_i64).
Definition fitsu64 (z : Z) : bool := (0 <=? z) && (z <=? max_u64).

Lemma wrap64_id z : fits64 z = true -> wrap64 z = z.
Proof.
  unfold fits64, wrap64, min_i64, max_i64, two63, two64; intros H.
  apply andb_true_iff in H; destruct H as [H1 H2].
  apply Z.leb_le in H1; apply Z.leb_le in H2.
  rewrite Z.mod_small; lia.
Qed.

Lemma wrap64_fits z : fits64 (wrap64 z) = true.
Proof.
  unfold fits64, wrap64, min_i64, max_i64, two63, two64.
  pose proof (Z.mod_pos_bound (z + 9223372036854775808) 18446744073709551616 ltac:(lia)).
  apply andb_true_iff; split; apply Z.leb_le; lia.
Qed.

(* decimal rendering of integers (fmt %d / strconv.FormatInt) *)
Fixpoint dec_pos_fuel (fuel : nat) (z : Z) (acc : text) : text :=
  match fuel with
  | O => acc
  | S f => let acc' := (48 + z mod 10) :: acc in
           if z / 10 =? 0 then acc' else dec_pos_fuel f (z / 10) acc'
  end.
Definition dec_nonneg (z : Z) : text := dec_pos_fuel (S (Z.to_nat (Z.log2 z))) z [].
Definition dec (z : Z) : text :=
  if z <? 0 then 45 :: dec_nonneg (- z) else dec_nonneg z.

(* parsing a digit string (no sign) *)
Definition is_digit (c : Z) : bool := (48 <=? c) && (c <=? 57).
Fixpoint digits_val_acc (acc : Z) (s : text) : Z :=
  match s with
  | [] => acc
  | c :: s' => digits_val_acc (acc * 10 + (c - 48)) s'
  end.
Definition digits_val (s : text) : Z := digits_val_acc 0 s.

Definition is_nil {A} (l : list A) : bool := match l with [] => true | _ => false end.

Definition option_bind {A B} (o : option A) (f : A -> option B) : option B :=
  match o with Some a => f a | None => None end.

Definition ts (s : string) : text := t_of_string s.
Arguments ts s%string.
Definition rc (a : ascii) : Z := Z.of_N (N_of_ascii a).
Arguments rc a%char.
