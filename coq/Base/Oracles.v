(* External library behaviour the model does not re-implement is an explicit
   record argument, filled by the runner (never an Axiom). *)
From InfluxQL Require Import Base.Prelude.

Record oracles : Type := mkOracles {
  (* unicode.ToLower on non-ASCII runes *)
  o_ulower : Z -> Z;
  (* strconv.ParseFloat(s, 64): None on error; the value as IEEE bits *)
  o_parse_float : text -> option Z;
  (* strconv.FormatFloat(v, 'f', -1, 64) *)
  o_format_float : Z -> text;
  (* regexp.Compile(s) succeeds *)
  o_re_ok : text -> bool;
  (* time.LoadLocation(name): the location's String(), None on error *)
  o_load_loc : text -> option text
}.

(* for the in-Coq evaluation path: cases are restricted to inputs on which
   no oracle is consulted with a non-trivial answer *)
Definition default_oracles : oracles :=
  {| o_ulower := fun c => c; o_parse_float := fun _ => None; o_format_float := fun _ => [];
     o_re_ok := fun _ => true; o_load_loc := fun _ => None |}.

(* float64 values are IEEE-754 bit patterns; all NaNs are identified with one pattern *)
Definition nan_bits : Z := 9221120237041090561.           (* 0x7FF8000000000001 *)
Definition inf_exp : Z := 9218868437227405312.            (* 0x7FF0000000000000 *)
Definition f_is_nan (b : Z) : bool := inf_exp <? b mod two63.
Definition f_canon (b : Z) : Z := if f_is_nan b then nan_bits else b.
(* x * -1.0: exact sign flip *)
Definition f_neg (b : Z) : Z :=
  if f_is_nan b then nan_bits else if b <? two63 then b + two63 else b - two63.
