(* External library behaviour the model does not re-implement is an explicit
   record argument, filled by the runner (never an Axiom). *)
From InfluxQL Require Import Base.Prelude.

Record oracles : Type := mkOracles {
  (* unicode.ToLower on non-ASCII runes *)
  o_ulower : Z -> Z;
  (* strconv.ParseFloat(s, 64): None on error; the value as IEEE bits *)
  o_parse_float : text -> option Z;
  (* strconv.FormatFloat(v, 'f', -1, 64) *)
  o_format_float : Z -> text;
  (* regexp.Compile(s) succeeds *)
  o_re_ok : text -> bool;
  (* time.LoadLocation(name): the location's String(), None on error *)
  o_load_loc : text -> option text;
  (* IEEE-754 binary64 arithmetic as Go computes it, on bit patterns *)
  o_fadd : Z -> Z -> Z; o_fsub : Z -> Z -> Z; o_fmul : Z -> Z -> Z; o_fdiv : Z -> Z -> Z;
  o_fmod : Z -> Z -> Z;                      (* math.Mod *)
  o_feq : Z -> Z -> bool; o_flt : Z -> Z -> bool; o_fle : Z -> Z -> bool;
  o_int_to_float : Z -> Z;                   (* float64(int64) *)
  o_uint_to_float : Z -> Z;                  (* float64(uint64) *)
  o_float_to_int : Z -> Z;                   (* int64(float64), as the target computes it *)
  (* Regexp.MatchString: pattern, subject *)
  o_re_match : text -> text -> bool;
  (* time literal recognition of a string in UTC (IsTimeLiteral + ToTimeLiteral): instant in ns, None if not a time *)
  o_parse_time : text -> option Z
}.

Definition set_re_ok (o : oracles) (f : text -> bool) : oracles :=
  mkOracles (o_ulower o) (o_parse_float o) (o_format_float o) f (o_load_loc o)
    (o_fadd o) (o_fsub o) (o_fmul o) (o_fdiv o) (o_fmod o) (o_feq o) (o_flt o) (o_fle o)
    (o_int_to_float o) (o_uint_to_float o) (o_float_to_int o) (o_re_match o) (o_parse_time o).
Definition set_load_loc (o : oracles) (f : text -> option text) : oracles :=
  mkOracles (o_ulower o) (o_parse_float o) (o_format_float o) (o_re_ok o) f
    (o_fadd o) (o_fsub o) (o_fmul o) (o_fdiv o) (o_fmod o) (o_feq o) (o_flt o) (o_fle o)
    (o_int_to_float o) (o_uint_to_float o) (o_float_to_int o) (o_re_match o) (o_parse_time o).
Definition set_re_match (o : oracles) (f : text -> text -> bool) : oracles :=
  mkOracles (o_ulower o) (o_parse_float o) (o_format_float o) (o_re_ok o) (o_load_loc o)
    (o_fadd o) (o_fsub o) (o_fmul o) (o_fdiv o) (o_fmod o) (o_feq o) (o_flt o) (o_fle o)
    (o_int_to_float o) (o_uint_to_float o) (o_float_to_int o) f (o_parse_time o).
Definition set_parse_time (o : oracles) (f : text -> option Z) : oracles :=
  mkOracles (o_ulower o) (o_parse_float o) (o_format_float o) (o_re_ok o) (o_load_loc o)
    (o_fadd o) (o_fsub o) (o_fmul o) (o_fdiv o) (o_fmod o) (o_feq o) (o_flt o) (o_fle o)
    (o_int_to_float o) (o_uint_to_float o) (o_float_to_int o) (o_re_match o) f.

(* for the in-Coq evaluation path: cases are restricted to inputs on which
   no oracle is consulted with a non-trivial answer *)
Definition default_oracles : oracles :=
  {| o_ulower := fun c => c; o_parse_float := fun _ => None; o_format_float := fun _ => [];
     o_re_ok := fun _ => true; o_load_loc := fun _ => None;
     o_fadd := fun _ _ => 0; o_fsub := fun _ _ => 0; o_fmul := fun _ _ => 0; o_fdiv := fun _ _ => 0;
     o_fmod := fun _ _ => 0; o_feq := fun _ _ => false; o_flt := fun _ _ => false; o_fle := fun _ _ => false;
     o_int_to_float := fun _ => 0; o_uint_to_float := fun _ => 0; o_float_to_int := fun _ => 0;
     o_re_match := fun _ _ => false; o_parse_time := fun _ => None |}.

(* float64 values are IEEE-754 bit patterns; all NaNs are identified with one pattern *)
Definition nan_bits : Z := 9221120237041090561.           (* 0x7FF8000000000001 *)
Definition inf_exp : Z := 9218868437227405312.            (* 0x7FF0000000000000 *)
Definition f_is_nan (b : Z) : bool := inf_exp <? b mod two63.
Definition f_canon (b : Z) : Z := if f_is_nan b then nan_bits else b.
(* x * -1.0: exact sign flip *)
Definition f_neg (b : Z) : Z :=
  if f_is_nan b then nan_bits else if b <? two63 then b + two63 else b - two63.
