(* External library behaviour the model does not re-implement is an explicit
   record argument, filled by the runner (never an Axiom). *)
From InfluxQL Require Import Base.Prelude.

Record oracles : Type := mkOracles {
  (* unicode.ToLower on non-ASCII runes *)
  o_ulower : Z -> Z;
  (* strconv.ParseFloat(s, 64): None on error; the value as IEEE bits *)
  o_parse_float : text -> option Z;
  (* strconv.FormatFloat(v, 'f', -1, 64) *)
  o_format_float : Z -> text
}.

(* for the in-Coq evaluation path: cases are restricted to inputs on which
   no oracle is consulted with a non-trivial answer *)
Definition default_oracles : oracles :=
  {| o_ulower := fun c => c; o_parse_float := fun _ => None; o_format_float := fun _ => [] |}.
