(* One canonical S-expression syntax shared by the Go harness, the extracted
   runner and the in-Coq evaluation path.  Atoms are integers; a string is
   the list of its code points; constructors are numeric tags. *)
From InfluxQL Require Import Base.Prelude Lex.Token Ast.Ast.

Inductive sexp : Type := A (z : Z) | L (l : list sexp).

Fixpoint sexp_eqb (a b : sexp) : bool :=
  match a, b with
  | A x, A y => Z.eqb x y
  | L xs, L ys =>
      (fix go (xs ys : list sexp) : bool :=
         match xs, ys with
         | [], [] => true
         | x :: xs', y :: ys' => sexp_eqb x y && go xs' ys'
         | _, _ => false
         end) xs ys
  | _, _ => false
  end.

(* ---- encoders ---- *)
Definition se_text (t : text) : sexp := L (map A t).
Definition se_bool (b : bool) : sexp := A (if b then 1 else 0).
Definition se_opt {X} (f : X -> sexp) (o : option X) : sexp :=
  match o with None => L [A 0] | Some x => L [A 1; f x] end.
Definition se_list {X} (f : X -> sexp) (l : list X) : sexp := L (map f l).
Definition se_tok (t : token) : sexp := A (tok_code t).

Fixpoint se_expr (e : expr) : sexp :=
  match e with
  | BinaryExpr o l r => L [A 1; se_tok o; se_expr l; se_expr r]
  | BooleanLit b => L [A 2; se_bool b]
  | BoundParam n => L [A 3; se_text n]
  | Call n args => L [A 4; se_text n; L (map se_expr args)]
  | Distinct v => L [A 5; se_text v]
  | DurationLit d => L [A 6; A d]
  | IntegerLit i => L [A 7; A i]
  | UnsignedLit u => L [A 8; A u]
  | NilLit => L [A 9]
  | NumberLit f => L [A 10; A f]
  | ParenExpr e' => L [A 11; se_expr e']
  | RegexLit r => L [A 12; se_text r]
  | ListLit vs => L [A 13; se_list se_text vs]
  | StringLit s => L [A 14; se_text s]
  | TimeLit t => L [A 15; A t]
  | VarRef v t => L [A 16; se_text v; A (datatype_code t)]
  | Wildcard t => L [A 17; se_tok t]
  end.

Definition se_res {X} (f : X -> sexp) (r : res X) : sexp :=
  match r with
  | Ok x => L [A 0; f x]
  | Err _ => L [A 1]           (* error-ness only: message wording is not compared *)
  | Crash site => L [A 2; A site]
  | OutOfFuel => L [A 3]
  end.

(* ---- decoders ---- *)
Fixpoint sd_atoms (l : list sexp) : option text :=
  match l with
  | [] => Some []
  | A z :: l' => option_map (cons z) (sd_atoms l')
  | _ => None
  end.
Definition sd_text (s : sexp) : option text :=
  match s with L l => sd_atoms l | _ => None end.
Definition sd_bool (s : sexp) : option bool :=
  match s with A 0 => Some false | A 1 => Some true | _ => None end.
Definition sd_z (s : sexp) : option Z := match s with A z => Some z | _ => None end.
Definition sd_tok (s : sexp) : option token :=
  match s with A z => tok_of_code z | _ => None end.
Definition sd_datatype (s : sexp) : option datatype :=
  match s with A z => datatype_of_code z | _ => None end.

Fixpoint sd_all {X} (l : list (option X)) : option (list X) :=
  match l with
  | [] => Some []
  | Some x :: l' => option_map (cons x) (sd_all l')
  | None :: _ => None
  end.
Definition sd_list {X} (f : sexp -> option X) (s : sexp) : option (list X) :=
  match s with L l => sd_all (map f l) | _ => None end.
Definition sd_opt {X} (f : sexp -> option X) (s : sexp) : option (option X) :=
  match s with
  | L [A 0] => Some None
  | L [A 1; x] => option_map Some (f x)
  | _ => None
  end.

Notation "x <-o e ;; f" := (option_bind e (fun x => f)) (at level 61, e at next level, right associativity).

Fixpoint sd_expr (s : sexp) : option expr :=
  match s with
  | L (A tag :: args) =>
      match Z.to_nat tag, args with
      | 1%nat, [o; l; r] => o' <-o sd_tok o ;; l' <-o sd_expr l ;; r' <-o sd_expr r ;; Some (BinaryExpr o' l' r')
      | 2%nat, [b] => option_map BooleanLit (sd_bool b)
      | 3%nat, [n] => option_map BoundParam (sd_text n)
      | 4%nat, [n; L xs] =>
          n' <-o sd_text n ;;
          xs' <-o (fix go (l : list sexp) : option (list expr) :=
                     match l with
                     | [] => Some []
                     | x :: l' => x' <-o sd_expr x ;; r <-o go l' ;; Some (x' :: r)
                     end) xs ;;
          Some (Call n' xs')
      | 5%nat, [v] => option_map Distinct (sd_text v)
      | 6%nat, [A d] => Some (DurationLit d)
      | 7%nat, [A i] => Some (IntegerLit i)
      | 8%nat, [A u] => Some (UnsignedLit u)
      | 9%nat, [] => Some NilLit
      | 10%nat, [A f] => Some (NumberLit f)
      | 11%nat, [e] => option_map ParenExpr (sd_expr e)
      | 12%nat, [r] => option_map RegexLit (sd_text r)
      | 13%nat, [vs] => option_map ListLit (sd_list sd_text vs)
      | 14%nat, [t] => option_map StringLit (sd_text t)
      | 15%nat, [A t] => Some (TimeLit t)
      | 16%nat, [v; t] => v' <-o sd_text v ;; t' <-o sd_datatype t ;; Some (VarRef v' t')
      | 17%nat, [t] => option_map Wildcard (sd_tok t)
      | _, _ => None
      end
  | _ => None
  end.
