(* C17: an abstract shared-memory machine.  Threads are programs over Read / Write of locations; every location is
   either shared (nobody writes it: the package's tables built at init, and a shared AST) or owned by one thread (its
   parser, scanner, buffers, and whatever it allocates - a clone).  For every schedule, a thread that keeps to this
   discipline computes what it computes alone, and no two threads ever touch one location with a write among them. *)
From InfluxQL Require Import Base.Prelude.

Definition loc := Z.
Definition val := Z.
Definition heap := loc -> val.
Definition tid := nat.

Inductive prog : Type :=
| Ret (r : val)
| Read (l : loc) (k : val -> prog)
| Write (l : loc) (x : val) (k : prog).

Definition upd (h : heap) (l : loc) (x : val) : heap := fun l' => if l' =? l then x else h l'.

(* a program run on its own *)
Fixpoint run_alone (p : prog) (h : heap) : val :=
  match p with
  | Ret r => r
  | Read l k => run_alone (k (h l)) h
  | Write l x k => run_alone k (upd h l x)
  end.

(* who owns a location: None = shared *)
Definition ownership := loc -> option tid.

(* the discipline: read what is shared or yours, write only what is yours *)
Inductive disciplined (own : ownership) (i : tid) : prog -> Prop :=
| d_ret r : disciplined own i (Ret r)
| d_read l k : (own l = None \/ own l = Some i) -> (forall v, disciplined own i (k v)) -> disciplined own i (Read l k)
| d_write l x k : own l = Some i -> disciplined own i k -> disciplined own i (Write l x k).

(* one access of the trace *)
Inductive access : Type := ARead (i : tid) (l : loc) | AWrite (i : tid) (l : loc).

Definition state := (list prog * heap)%type.

Fixpoint set_nth {A} (n : nat) (x : A) (l : list A) : list A :=
  match n, l with
  | _, [] => []
  | O, _ :: l' => x :: l'
  | S n', y :: l' => y :: set_nth n' x l'
  end.

(* thread i takes one step (a finished or missing thread does nothing) *)
Definition step (i : tid) (s : state) : state * list access :=
  let '(ts, h) := s in
  match nth_error ts i with
  | Some (Read l k) => ((set_nth i (k (h l)) ts, h), [ARead i l])
  | Some (Write l x k) => ((set_nth i k ts, upd h l x), [AWrite i l])
  | _ => (s, [])
  end.

Fixpoint exec (sched : list tid) (s : state) : state * list access :=
  match sched with
  | [] => (s, [])
  | i :: sched' => let '(s1, a1) := step i s in let '(s2, a2) := exec sched' s1 in (s2, a1 ++ a2)
  end.

Definition all_disciplined (own : ownership) (ts : list prog) : Prop :=
  forall i p, nth_error ts i = Some p -> disciplined own i p.

(* the view of thread i: what it may read *)
Definition agree_on (own : ownership) (i : tid) (h h' : heap) : Prop :=
  forall l, (own l = None \/ own l = Some i) -> h l = h' l.

Lemma run_alone_agree own i p : disciplined own i p -> forall h h', agree_on own i h h' -> run_alone p h = run_alone p h'.
Proof.
  induction 1 as [r|l k Hl _ IH|l x k Hl _ IH]; intros h h' Ha; cbn [run_alone].
  - reflexivity.
  - rewrite (Ha l Hl). apply IH. exact Ha.
  - apply IH. intros l' Hl'. unfold upd. destruct (l' =? l); [reflexivity|apply Ha; exact Hl'].
Qed.

Lemma nth_error_set_nth_eq {A} (l : list A) : forall i x y, nth_error l i = Some y -> nth_error (set_nth i x l) i = Some x.
Proof. induction l as [|z l IH]; intros [|i] x y H; cbn in *; try discriminate; [reflexivity|eapply IH; exact H]. Qed.
Lemma nth_error_set_nth_neq {A} (l : list A) : forall i j x, i <> j -> nth_error (set_nth i x l) j = nth_error l j.
Proof.
  induction l as [|z l IH]; intros [|i] [|j] x H; cbn; try reflexivity; try congruence.
  apply IH. congruence.
Qed.

(* one step of any thread preserves, for every thread j, both the discipline and what j would compute alone *)
Lemma step_preserves own i ts h ts' h' acc :
  all_disciplined own ts -> step i (ts, h) = ((ts', h'), acc) ->
  all_disciplined own ts' /\
  (forall j p, nth_error ts j = Some p -> exists p', nth_error ts' j = Some p' /\ run_alone p' h' = run_alone p h) /\
  (forall a, In a acc -> match a with
                         | ARead i' l => i' = i /\ (own l = None \/ own l = Some i)
                         | AWrite i' l => i' = i /\ own l = Some i
                         end).
Proof.
  intros Hd Hs. unfold step in Hs. destruct (nth_error ts i) as [p|] eqn:Ei.
  2:{ inversion Hs; subst. repeat split; [exact Hd|intros j p Hj; exists p; split; [exact Hj|reflexivity]|intros a []]. }
  pose proof (Hd i p Ei) as Hp. destruct p as [r|l k|l x k].
  - inversion Hs; subst. repeat split; [exact Hd|intros j p Hj; exists p; split; [exact Hj|reflexivity]|intros a []].
  - inversion Hs; subst. inversion Hp as [|l0 k0 Hl Hk|]; subst. repeat split.
    + intros j p Hj. destruct (Nat.eq_dec i j) as [->|Hne].
      * rewrite (nth_error_set_nth_eq ts j _ _ Ei) in Hj. inversion Hj; subst. apply Hk.
      * rewrite (nth_error_set_nth_neq ts i j _ Hne) in Hj. apply Hd. exact Hj.
    + intros j p Hj. destruct (Nat.eq_dec i j) as [->|Hne].
      * rewrite Ei in Hj. inversion Hj; subst. eexists. split; [eapply nth_error_set_nth_eq; exact Ei|reflexivity].
      * exists p. split; [rewrite (nth_error_set_nth_neq ts i j _ Hne); exact Hj|reflexivity].
    + intros a [<-|[]]. split; [reflexivity|exact Hl].
  - inversion Hs; subst. inversion Hp as [| |l0 x0 k0 Hl Hk]; subst. repeat split.
    + intros j p Hj. destruct (Nat.eq_dec i j) as [->|Hne].
      * rewrite (nth_error_set_nth_eq ts j _ _ Ei) in Hj. inversion Hj; subst. exact Hk.
      * rewrite (nth_error_set_nth_neq ts i j _ Hne) in Hj. apply Hd. exact Hj.
    + intros j p Hj. destruct (Nat.eq_dec i j) as [->|Hne].
      * rewrite Ei in Hj. inversion Hj; subst. eexists. split; [eapply nth_error_set_nth_eq; exact Ei|reflexivity].
      * exists p. split; [rewrite (nth_error_set_nth_neq ts i j _ Hne); exact Hj|].
        apply (run_alone_agree own j p (Hd j p Hj)). intros l' Hl'. unfold upd.
        destruct (Z.eqb_spec l' l) as [->|_]; [|reflexivity]. destruct Hl' as [Hl'|Hl']; rewrite Hl in Hl'; [discriminate|]. congruence.
    + intros a [<-|[]]. split; [reflexivity|exact Hl].
Qed.

Definition access_ok (own : ownership) (a : access) : Prop :=
  match a with
  | ARead i l => own l = None \/ own l = Some i
  | AWrite i l => own l = Some i
  end.

(* every schedule *)
Theorem exec_preserves own sched : forall ts h ts' h' acc,
  all_disciplined own ts -> exec sched (ts, h) = ((ts', h'), acc) ->
  all_disciplined own ts' /\
  (forall j p, nth_error ts j = Some p -> exists p', nth_error ts' j = Some p' /\ run_alone p' h' = run_alone p h) /\
  Forall (access_ok own) acc.
Proof.
  induction sched as [|i sched IH]; intros ts h ts' h' acc Hd He; cbn [exec] in He.
  - inversion He; subst. repeat split; [exact Hd|intros j p Hj; exists p; split; [exact Hj|reflexivity]|constructor].
  - destruct (step i (ts, h)) as [[ts1 h1] a1] eqn:Es. destruct (exec sched (ts1, h1)) as [[ts2 h2] a2] eqn:Ee.
    inversion He; subst. destruct (step_preserves own i ts h ts1 h1 a1 Hd Es) as (Hd1 & Hr1 & Ha1).
    destruct (IH ts1 h1 ts' h' a2 Hd1 Ee) as (Hd2 & Hr2 & Ha2). repeat split.
    + exact Hd2.
    + intros j p Hj. destruct (Hr1 j p Hj) as (p1 & Hj1 & E1). destruct (Hr2 j p1 Hj1) as (p2 & Hj2 & E2).
      exists p2. split; [exact Hj2|congruence].
    + apply Forall_app. split; [|exact Ha2]. apply Forall_forall. intros a Hin. specialize (Ha1 a Hin).
      destruct a as [i0 l|i0 l]; cbn in *; destruct Ha1 as [E Hx]; subst; exact Hx.
Qed.

(* every result equals the result of the same call made alone *)
Theorem results_as_alone own sched ts h ts' h' acc j p r :
  all_disciplined own ts -> exec sched (ts, h) = ((ts', h'), acc) ->
  nth_error ts j = Some p -> nth_error ts' j = Some (Ret r) -> r = run_alone p h.
Proof.
  intros Hd He Hj Hr. destruct (exec_preserves own sched ts h ts' h' acc Hd He) as (_ & Hres & _).
  destruct (Hres j p Hj) as (p' & Hj' & E). rewrite Hr in Hj'. inversion Hj'; subst. exact E.
Qed.

(* no data race: two accesses to one location by different threads are both reads *)
Definition conflict (a b : access) : Prop :=
  match a, b with
  | AWrite i l, AWrite j l' | AWrite i l, ARead j l' | ARead i l, AWrite j l' => i <> j /\ l = l'
  | ARead _ _, ARead _ _ => False
  end.

Theorem no_conflicting_accesses own sched ts h ts' h' acc :
  all_disciplined own ts -> exec sched (ts, h) = ((ts', h'), acc) ->
  forall a b, In a acc -> In b acc -> ~ conflict a b.
Proof.
  intros Hd He a b Ha Hb. destruct (exec_preserves own sched ts h ts' h' acc Hd He) as (_ & _ & Hok).
  rewrite Forall_forall in Hok. pose proof (Hok a Ha) as Oa. pose proof (Hok b Hb) as Ob.
  destruct a as [i l|i l], b as [j l'|j l']; cbn in *; try tauto; intros [Hne ->].
  - destruct Oa as [Oa|Oa]; rewrite Ob in Oa; [discriminate|congruence].
  - destruct Ob as [Ob|Ob]; rewrite Oa in Ob; [discriminate|congruence].
  - congruence.
Qed.
