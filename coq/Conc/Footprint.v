(* C17: the footprint table of the package's entry points, and its link to the machine of Interleave.v.
   Each entry: the package-level variables the operation (transitively) reads and writes, and the parameters (receiver
   first) through which it writes memory it did not allocate - what the SSA analysis under /verif/footprint computes
   from /repo on every run and compares with this table. *)
From Coq Require Import String.
From InfluxQL Require Import Base.Prelude Base.Sexp Conc.Interleave.
Local Open Scope string_scope.

Inductive opkind : Set := Independent | SharedRead | Mutator.
Record opfp : Type := mkFp { fp_name : string; fp_kind : opkind; fp_reads : list string; fp_writes : list string; fp_params : list nat }.

Definition table : list opfp := [
  mkFp "ParseStatement" Independent ["ErrInvalidDuration"; "Language"; "keywords"; "qiReplacer"; "qsReplacer"; "tokens"; "zeroBoolean"; "zeroDuration"; "zeroFloat64"; "zeroInt64"; "zeroString"; "zeroTime"; "zeroUint64"] [] [];
  mkFp "ParseQuery" Independent ["ErrInvalidDuration"; "Language"; "keywords"; "qiReplacer"; "qsReplacer"; "tokens"; "zeroBoolean"; "zeroDuration"; "zeroFloat64"; "zeroInt64"; "zeroString"; "zeroTime"; "zeroUint64"] [] [];
  mkFp "ParseExpr" Independent ["ErrInvalidDuration"; "keywords"; "qiReplacer"; "tokens"] [] [];
  mkFp "ParseDuration" Independent ["ErrInvalidDuration"] [] [];
  mkFp "FormatDuration" Independent [] [] [];
  mkFp "QuoteIdent" Independent ["keywords"; "qiReplacer"] [] [];
  mkFp "QuoteString" Independent ["qsReplacer"] [] [];
  mkFp "IdentNeedsQuotes" Independent ["keywords"] [] [];
  mkFp "Sanitize" Independent ["sanitizePassword"] [] [];
  mkFp "Lookup" Independent ["keywords"] [] [];
  mkFp "BindValue" Independent [] [] [];
  mkFp "(*SelectStatement).String" SharedRead ["keywords"; "qiReplacer"; "qsReplacer"; "tokens"] [] [];
  mkFp "(*Query).String" SharedRead ["keywords"; "qiReplacer"; "qsReplacer"; "tokens"] [] [];
  mkFp "(*SelectStatement).Clone" SharedRead [] [] [];
  mkFp "CloneExpr" SharedRead [] [] [];
  mkFp "Walk" SharedRead ["zeroBoolean"; "zeroDuration"; "zeroFloat64"; "zeroInt64"; "zeroString"; "zeroTime"; "zeroUint64"] [] [];
  mkFp "WalkFunc" SharedRead ["zeroBoolean"; "zeroDuration"; "zeroFloat64"; "zeroInt64"; "zeroString"; "zeroTime"; "zeroUint64"] [] [];
  mkFp "Eval" SharedRead [] [] [];
  mkFp "EvalBool" SharedRead [] [] [];
  mkFp "(*ValuerEval).Eval" SharedRead [] [] [];
  mkFp "EvalType" SharedRead ["zeroBoolean"; "zeroDuration"; "zeroFloat64"; "zeroInt64"; "zeroString"; "zeroTime"; "zeroUint64"] [] [];
  mkFp "Reduce" SharedRead ["ErrInvalidTime"; "dateStringRegexp"; "dateTimeStringRegexp"] [] [];
  mkFp "(*SelectStatement).Reduce" SharedRead ["ErrInvalidTime"; "dateStringRegexp"; "dateTimeStringRegexp"] [] [];
  mkFp "(*SelectStatement).RewriteFields" SharedRead ["zeroBoolean"; "zeroDuration"; "zeroFloat64"; "zeroInt64"; "zeroString"; "zeroTime"; "zeroUint64"] [] [];
  mkFp "(*SelectStatement).ColumnNames" SharedRead ["zeroBoolean"; "zeroDuration"; "zeroFloat64"; "zeroInt64"; "zeroString"; "zeroTime"; "zeroUint64"] [] [];
  mkFp "(*SelectStatement).RequiredPrivileges" SharedRead [] [] [];
  mkFp "ConditionExpr" SharedRead ["ErrInvalidTime"; "dateStringRegexp"; "dateTimeStringRegexp"] [] [];
  mkFp "ExprNames" SharedRead [] [] [];
  mkFp "(*SelectStatement).HasWildcard" SharedRead ["zeroBoolean"; "zeroDuration"; "zeroFloat64"; "zeroInt64"; "zeroString"; "zeroTime"; "zeroUint64"] [] [];
  mkFp "(Sources).String" SharedRead ["keywords"; "qiReplacer"; "qsReplacer"; "tokens"] [] [];
  mkFp "(*SelectStatement).TimeAscending" SharedRead [] [] [];
  mkFp "(*SelectStatement).TimeFieldName" SharedRead [] [] [];
  mkFp "HasTimeExpr" SharedRead [] [] [];
  mkFp "FieldDimensions" SharedRead ["zeroBoolean"; "zeroDuration"; "zeroFloat64"; "zeroInt64"; "zeroString"; "zeroTime"; "zeroUint64"] [] [];
  mkFp "ContainsVarRef" SharedRead ["zeroBoolean"; "zeroDuration"; "zeroFloat64"; "zeroInt64"; "zeroString"; "zeroTime"; "zeroUint64"] [] [];
  mkFp "(*BinaryExpr).String" SharedRead ["keywords"; "qiReplacer"; "qsReplacer"; "tokens"] [] [];
  mkFp "(*SelectStatement).FieldExprByName" SharedRead ["zeroBoolean"; "zeroDuration"; "zeroFloat64"; "zeroInt64"; "zeroString"; "zeroTime"; "zeroUint64"] [] [];
  mkFp "(Statements).String" SharedRead ["keywords"; "qiReplacer"; "qsReplacer"; "tokens"] [] [];
  mkFp "(*SelectStatement).GroupByInterval" Mutator [] [] [0%nat];
  mkFp "(*SelectStatement).GroupByOffset" Mutator [] [] [0%nat];
  mkFp "(*SelectStatement).SetTimeRange" Mutator ["ErrInvalidTime"; "dateStringRegexp"; "dateTimeStringRegexp"] [] [0%nat];
  mkFp "(*SelectStatement).RewriteRegexConditions" Mutator [] [] [0%nat];
  mkFp "(*SelectStatement).RewriteTimeFields" Mutator [] [] [0%nat];
  mkFp "Rewrite" Mutator [] [] [1%nat];
  mkFp "RewriteFunc" Mutator [] [] [0%nat];
  mkFp "RewriteExpr" Mutator [] [] [0%nat]
].

(* an operation may run concurrently with any other, on private inputs and on a shared AST *)
Definition concurrent_safe (o : opfp) : bool :=
  match fp_writes o, fp_params o with [], [] => true | _, _ => false end.
Definition claimed_safe (o : opfp) : bool := match fp_kind o with Mutator => false | _ => true end.

(* the tables built once at init, shared replacers and patterns: the anchors of the property *)
Definition shared_state : list string :=
  ["Language"; "keywords"; "tokens"; "qsReplacer"; "qiReplacer"; "dateStringRegexp"; "dateTimeStringRegexp";
   "sanitizePassword"].

(* ---- link to the machine: a layout places every package-level variable and every node of a shared AST at shared
   locations, everything a call allocates at locations owned by the calling thread ---- *)
Section Layout.
Variable own : ownership.
Variable gloc : string -> list loc.      (* the locations of a package-level variable (its whole reachable structure) *)
Variable ast : loc -> bool.              (* the nodes of the shared ASTs *)
Hypothesis Hglobals_shared : forall g l, In l (gloc g) -> own l = None.
Hypothesis Hast_shared : forall l, ast l = true -> own l = None.

(* program p of thread i stays within the footprint o: it reads the variables o lists, the shared AST and its own
   memory; it writes its own memory, and - only if o says so - the variables o lists as written and the AST *)
Inductive within (o : opfp) (i : tid) : prog -> Prop :=
| w_ret r : within o i (Ret r)
| w_read l k :
    ((exists g, In g (fp_reads o) /\ In l (gloc g)) \/ ast l = true \/ own l = Some i) ->
    (forall v, within o i (k v)) -> within o i (Read l k)
| w_write l x k :
    (own l = Some i \/ (exists g, In g (fp_writes o) /\ In l (gloc g)) \/ (fp_params o <> [] /\ ast l = true)) ->
    within o i k -> within o i (Write l x k).

Theorem safe_within_disciplined o i p : concurrent_safe o = true -> within o i p -> disciplined own i p.
Proof.
  intros Hs. unfold concurrent_safe in Hs. destruct (fp_writes o) eqn:Ew; [|discriminate]. destruct (fp_params o) eqn:Ep; [|discriminate].
  induction 1 as [r|l k Hl _ IH|l x k Hl _ IH].
  - constructor.
  - constructor; [|exact IH]. destruct Hl as [(g & _ & Hg)|[Ha|Ho]].
    + left. eapply Hglobals_shared; exact Hg.
    + left. apply Hast_shared; exact Ha.
    + right. exact Ho.
  - constructor; [|exact IH]. destruct Hl as [Ho|[(g & Hg & _)|[Hn _]]]; [exact Ho|rewrite Ew in Hg; destruct Hg|congruence].
Qed.

(* any number of threads, each running (a program within the footprint of) a concurrent-safe operation, under any
   schedule: every result is the result of the same call made alone, and no two threads touch one location with a
   write among them *)
Theorem safe_ops_any_schedule (ts : list prog) (ops : list opfp) sched h ts' h' acc :
  (forall i p, nth_error ts i = Some p -> exists o, nth_error ops i = Some o /\ concurrent_safe o = true /\ within o i p) ->
  exec sched (ts, h) = ((ts', h'), acc) ->
  (forall j p r, nth_error ts j = Some p -> nth_error ts' j = Some (Ret r) -> r = run_alone p h) /\
  (forall a b, In a acc -> In b acc -> ~ conflict a b).
Proof.
  intros Hw He.
  assert (Hd : all_disciplined own ts).
  { intros i p Hi. destruct (Hw i p Hi) as (o & _ & Hs & Hin). eapply safe_within_disciplined; eassumption. }
  split.
  - intros j p r Hj Hr. eapply results_as_alone; eassumption.
  - eapply no_conflicting_accesses; eassumption.
Qed.
End Layout.

(* every entry of the table claimed safe (independent use, read-only use of a shared AST) is concurrent-safe, and
   every entry claimed a mutator is not *)
Lemma table_claims : forallb (fun o => Bool.eqb (concurrent_safe o) (claimed_safe o)) table = true.
Proof. vm_compute. reflexivity. Qed.

Lemma no_table_entry_writes_shared_state :
  forallb (fun o => forallb (fun g => negb (existsb (String.eqb g) (fp_writes o))) shared_state) table = true.
Proof. vm_compute. reflexivity. Qed.

(* the table for the correspondence check *)
Definition se_string (s : string) : sexp := se_text (ts s).
(* the same with the read sets restricted to the variables in ws - the ones something writes after initialisation
   according to the analysis of /repo: a variable nothing writes can be read by any number of goroutines, so reading one
   more or one fewer of those (a new lookup table, say) is not a difference between the code and this table *)
Definition se_table_on (ws : list text) : sexp :=
  L (map (fun o => L [se_string (fp_name o);
                      L (map se_string (filter (fun g => existsb (text_eqb (ts g)) ws) (fp_reads o)));
                      L (map se_string (fp_writes o));
                      L (map (fun n => A (Z.of_nat n)) (fp_params o))]) table).
Definition se_table : sexp :=
  L (map (fun o => L [se_string (fp_name o); L (map se_string (fp_reads o)); L (map se_string (fp_writes o));
                      L (map (fun n => A (Z.of_nat n)) (fp_params o))]) table).
