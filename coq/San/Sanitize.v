(* sanitize.go: Sanitize and its pattern, as direct matchers over runes.  One pattern with two clause heads and
   one captured literal (written here with DQ for the double quote and SQ for the single quote):
     sanitizePassword (?i)(?:HEAD1|HEAD2)(LIT)
     HEAD1 = password\s+for\s+(?:DQ(?:[^DQ\\\n]|\\.)*DQ|[^\s=DQSQ]+)+\s*=\s*       (SET PASSWORD FOR name =)
     HEAD2 = with\s+password\s*                                                    (CREATE USER ... WITH PASSWORD)
     LIT = SQ(?:[^SQ\\\n]|\\.)*SQ | DQ(?:[^DQ\\\n]|\\.)*DQ | [^\sDQSQ;]+
   The two heads start with different letters and each is deterministic (no alternative shares a first character
   with what may follow it), so the leftmost-first match at a position is computed by one left-to-right pass.
   The text is scanned ONCE (FindAllStringSubmatchIndex): a clause head that occurs inside a literal already
   consumed as a password is not seen. *)
From InfluxQL Require Import Base.Prelude.
Local Notation "x <-o e ;; f" := (option_bind e (fun x => f)) (at level 61, e at next level, right associativity).

Definition re_space (c : Z) : bool := (c =? 9) || (c =? 10) || (c =? 12) || (c =? 13) || (c =? 32).   (* \s *)

(* (?i) on an ASCII letter: the letter, its upper case, and for 's' also U+017F (simple case folding) *)
Definition ci (l c : Z) : bool := (c =? l) || (c =? l - 32) || ((l =? 115) && (c =? 383)).

Fixpoint match_word (w t : text) : option text :=
  match w with
  | [] => Some t
  | l :: w' => match t with
               | c :: t' => if ci l c then match_word w' t' else None
               | [] => None
               end
  end.

Fixpoint skip_space (t : text) : text :=
  match t with c :: t' => if re_space c then skip_space t' else t | [] => [] end.
Definition skip_space1 (t : text) : option text :=
  match t with c :: t' => if re_space c then Some (skip_space t') else None | [] => None end.

(* the body of a quoted literal after the opening quote q: the rest after the closing quote *)
Fixpoint quoted_rest (fuel : nat) (q : Z) (t : text) : option text :=
  match fuel with
  | O => None
  | S f =>
      match t with
      | [] => None
      | c :: t' =>
          if c =? q then Some t'
          else if c =? 92 then
            match t' with
            | d :: t'' => if d =? 10 then None else quoted_rest f q t''
            | [] => None
            end
          else if c =? 10 then None
          else quoted_rest f q t'
      end
  end.

Definition bare_char (c : Z) : bool := negb (re_space c || (c =? 34) || (c =? 39) || (c =? 59)).    (* the bare-word class *)
Fixpoint skip_bare (t : text) : text :=
  match t with c :: t' => if bare_char c then skip_bare t' else t | [] => [] end.

(* LIT at the head of t: the rest after it *)
Definition lit_rest (t : text) : option text :=
  match t with
  | c :: t' =>
      if c =? 39 then quoted_rest (S (length t')) 39 t'
      else if c =? 34 then quoted_rest (S (length t')) 34 t'
      else if bare_char c then Some (skip_bare t')
      else None
  | [] => None
  end.

Definition name_char (c : Z) : bool := negb (re_space c || (c =? 61) || (c =? 34) || (c =? 39)).    (* the bare-name class *)
Fixpoint skip_name (t : text) : text :=
  match t with c :: t' => if name_char c then skip_name t' else t | [] => [] end.
(* the user name: one or more bare and quoted parts written together (greedy; each part starts with a different
   character class, and what must follow - blanks or '=' - starts no part, so the longest run is the only match) *)
Fixpoint name_more (fuel : nat) (t : text) : text :=
  match fuel with
  | O => t
  | S f =>
      match t with
      | c :: t' =>
          if c =? 34 then match quoted_rest (S (length t')) 34 t' with Some r => name_more f r | None => t end
          else if name_char c then name_more f (skip_name t')
          else t
      | [] => []
      end
  end.
Definition name_rest (t : text) : option text :=
  match t with
  | c :: t' =>
      if c =? 34 then r <-o quoted_rest (S (length t')) 34 t' ;; Some (name_more (length r) r)
      else if name_char c then let r := skip_name t' in Some (name_more (length r) r)
      else None
  | [] => None
  end.

(* a match at the head of t: (the text up to the capture, the rest after the capture) *)
Definition prefix_of (t rest : text) : text := firstn (length t - length rest) t.

Definition match_create (t : text) : option (text * text) :=
  t1 <-o match_word (ts "with") t ;;
  t2 <-o skip_space1 t1 ;;
  t3 <-o match_word (ts "password") t2 ;;
  let t4 := skip_space t3 in
  rest <-o lit_rest t4 ;;
  Some (prefix_of t t4, rest).

Definition match_set (t : text) : option (text * text) :=
  t1 <-o match_word (ts "password") t ;;
  t2 <-o skip_space1 t1 ;;
  t3 <-o match_word (ts "for") t2 ;;
  t4 <-o skip_space1 t3 ;;
  t5 <-o name_rest t4 ;;
  match skip_space t5 with
  | c :: t6 =>
      if c =? 61 then
        let t7 := skip_space t6 in
        rest <-o lit_rest t7 ;;
        Some (prefix_of t t7, rest)
      else None
  | [] => None
  end.

Definition redacted : text := ts "[REDACTED]".

(* FindAllStringSubmatchIndex + the splice loop: leftmost match, continue right after it.  Structural in the
   text: after a match that consumed n runes the next n-1 positions are skipped. *)
Fixpoint redact_all (m : text -> option (text * text)) (skip : nat) (t : text) : text :=
  match t with
  | [] => []
  | c :: t' =>
      match skip with
      | S k => redact_all m k t'
      | O =>
          match m t with
          | Some (pre, rest) => pre ++ redacted ++ redact_all m (length t' - length rest) t'
          | None => c :: redact_all m 0 t'
          end
      end
  end.

(* the two heads of the one pattern *)
Definition match_any (t : text) : option (text * text) :=
  match match_set t with Some x => Some x | None => match_create t end.

Definition sanitize (t : text) : text := redact_all match_any 0 t.
