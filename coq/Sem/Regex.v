(* ast.go: RewriteRegexConditions, matchExactRegex, matchRegex — over the regexp/syntax tree that
   syntax.Parse(v, syntax.Perl).Simplify() delivers (dumped by the harness; an input of the model). *)
From InfluxQL Require Import Base.Prelude Base.Oracles Lex.Token Ast.Ast Sem.Eval.

Inductive resyn : Type :=
| RLit (fold : bool) (rs : text)                       (* OpLiteral; fold = Flags&FoldCase != 0 *)
| RClass (fold : bool) (ranges : list (Z * Z))          (* OpCharClass: lo, hi pairs *)
| RCapture (fold : bool) (r : resyn)
| RConcat (fold : bool) (rs : list resyn)
| RAlt (fold : bool) (rs : list resyn)
| RBeginText | REndText | RBeginLine | REndLine
| ROther (fold : bool) (op : Z).                        (* star, plus, quest, repeat, any char, word boundary, empty match, ... *)

Definition max_literals : nat := 100.

Definition r_fold (r : resyn) : bool :=
  match r with
  | RLit f _ | RClass f _ | RCapture f _ | RConcat f _ | RAlt f _ | ROther f _ => f
  | _ => false
  end.

Fixpoint range_list (fuel : nat) (lo : Z) : list text :=
  match fuel with O => [] | S f => [lo] :: range_list f (lo + 1) end.
Definition class_size (ranges : list (Z * Z)) : Z := fold_left (fun a p => a + (snd p - fst p + 1)) ranges 0.
Definition class_strings (ranges : list (Z * Z)) : list text :=
  flat_map (fun p => range_list (Z.to_nat (snd p - fst p + 1)) (fst p)) ranges.

(* the product step of the OpConcat case *)
Definition concat_step (names vals : list text) : option (list text) :=
  match vals, names with
  | [v], _ => Some (map (fun n => n ++ v) names)
  | _, [n] => Some (map (fun v => n ++ v) vals)
  | _, _ => if (max_literals <? length names * length vals)%nat then None
            else Some (flat_map (fun n => map (fun v => n ++ v) vals) names)
  end.

(* matchRegex: None = (nil, false) *)
(* utf8.ValidRune: a surrogate has no string form (string(rune) writes U+FFFD, which the regex does not match), so a
   regex that mentions one is left alone (fix: the surrogate guard in matchRegex) *)
Definition valid_rune (r : Z) : bool := ((0 <=? r) && (r <? 55296)) || ((57343 <? r) && (r <=? 1114111)).
Fixpoint match_regex (re : resyn) : option (list text) :=
  if r_fold re then None else
  match re with
  | RLit _ rs => if forallb valid_rune rs then Some [rs] else None
  | RCapture _ r => match_regex r
  | RConcat _ subs =>
      match subs with
      | [] => None                                      (* re.Sub[0] on an empty Sub: not produced by Simplify *)
      | s0 :: rest =>
          (fix go (names : option (list text)) (l : list resyn) : option (list text) :=
             match names with
             | None => None
             | Some ns =>
                 match l with
                 | [] => Some ns
                 | s :: l' => match match_regex s with
                              | Some vals => go (concat_step ns vals) l'
                              | None => None
                              end
                 end
             end) (match_regex s0) rest
      end
  | RClass _ ranges =>
      if Z.of_nat max_literals <? class_size ranges then None
      else if forallb (forallb valid_rune) (class_strings ranges) then Some (class_strings ranges) else None
  | RAlt _ subs =>
      match (fix go (l : list resyn) : option (list text) :=
               match l with
               | [] => Some []
               | s :: l' => match match_regex s, go l' with
                            | Some a, Some b => Some (a ++ b)
                            | _, _ => None
                            end
               end) subs with
      | Some names => if (max_literals <? length names)%nat then None else Some names
      | None => None
      end
  | _ => None
  end.

(* matchExactRegex (after fix ce5f831: text anchors only) *)
Definition strip_last {A} (l : list A) : list A := removelast l.
Definition match_exact (re : resyn) : option (list text) :=
  match re with
  | RConcat f subs =>
      if (length subs <? 2)%nat then None else
      match subs with
      | RBeginText :: rest =>
          match last rest RBeginText with
          | REndText =>
              match strip_last rest with
              | [] => Some [[]]                       (* /^$/ : exactly the empty value *)
              | body => match_regex (RConcat f body)
              end
          | _ => None
          end
      | _ => None
      end
  | _ => None
  end.

Section Rewrite.
Variable syn : text -> option resyn.        (* syntax.Parse(v, Perl).Simplify(); None = parse error *)

(* the replacement of  lhs =~ /re/  by equality tests *)
Definition build_eq (op : token) (lhs : expr) (vals : list text) : expr :=
  let op' := match op with EQREGEX => EQ | _ => NEQ end in
  let cop := match op with EQREGEX => OR | _ => AND end in
  match vals with
  | [] => BinaryExpr op' lhs (StringLit [])
  | [v] => BinaryExpr op' lhs (StringLit v)
  | v0 :: vs =>
      ParenExpr (fold_left (fun e v => BinaryExpr cop e (BinaryExpr op' lhs (StringLit v))) vs
                   (BinaryExpr op' lhs (StringLit v0)))
  end.

Definition rewrite_node (e : expr) : expr :=
  match e with
  | BinaryExpr op l r =>
      if is_regex_op op then
        match r with
        | RegexLit p =>
            match syn p with
            | Some re => match match_exact re with
                         | Some [] => e                 (* matches no value: left to the regex engine *)
                         | Some vals => build_eq op l vals
                         | None => e
                         end
            | None => e
            end
        | _ => e
        end
      else e
  | _ => e
  end.

(* RewriteExpr with that function: children first *)
Fixpoint rewrite_regex (e : expr) : expr :=
  match e with
  | BinaryExpr op l r => rewrite_node (BinaryExpr op (rewrite_regex l) (rewrite_regex r))
  | ParenExpr e' => ParenExpr (rewrite_regex e')
  | Call n args => Call n (map rewrite_regex args)
  | _ => e
  end.

(* SelectStatement.RewriteRegexConditions on the condition: unwrap a top-level ParenExpr *)
Definition rewrite_regex_conditions (c : expr) : expr :=
  match rewrite_regex c with ParenExpr e => e | e => e end.
End Rewrite.

(* ---- semantics: which strings a regex of the literal fragment matches, with its context ---- *)
Definition in_ranges (c : Z) (ranges : list (Z * Z)) : bool := existsb (fun p => (fst p <=? c) && (c <=? snd p)) ranges.
Definition last_is (c : Z) (s : text) : bool := match rev s with x :: _ => x =? c | [] => false end.

(* [mb re pre mid post]: re matches exactly mid, with pre before and post after it in the subject *)
Fixpoint splits (mid : text) : list (text * text) :=
  match mid with
  | [] => [([], [])]
  | c :: m' => ([], mid) :: map (fun p => (c :: fst p, snd p)) (splits m')
  end.

Fixpoint mb (re : resyn) (pre mid post : text) : bool :=
  match re with
  | RLit false rs => text_eqb mid rs
  | RClass false ranges => match mid with [c] => in_ranges c ranges | _ => false end
  | RCapture _ r => mb r pre mid post
  | RConcat _ subs =>
      (fix go (l : list resyn) (pre mid : text) : bool :=
         match l with
         | [] => is_nil mid
         | r :: l' => existsb (fun p => mb r pre (fst p) (snd p ++ post) && go l' (pre ++ fst p) (snd p)) (splits mid)
         end) subs pre mid
  | RAlt _ subs => existsb (fun r => mb r pre mid post) subs
  | RBeginText => is_nil mid && is_nil pre
  | REndText => is_nil mid && is_nil post
  | RBeginLine => is_nil mid && (is_nil pre || last_is 10 pre)
  | REndLine => is_nil mid && (is_nil post || match post with c :: _ => c =? 10 | [] => false end)
  | _ => false
  end.

(* regexp.MatchString: some substring matches *)
Definition match_string (re : resyn) (s : text) : bool :=
  existsb (fun p1 => existsb (fun p2 => mb re (fst p1) (fst p2) (snd p2)) (splits (snd p1))) (splits s).
