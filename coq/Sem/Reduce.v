(* ast.go: Reduce, reduce, reduceBinaryExpr and the eight reduceBinaryExpr*LHS functions,
   reduceCall, reduceParenExpr, reduceVarRef, asLiteral; NowValuer / MapValuer. *)
From InfluxQL Require Import Base.Prelude Base.Oracles Lex.Token Ast.Ast Sem.Eval.

(* a Valuer: a MapValuer's bindings and/or a NowValuer's clock (which is also a CallValuer); the zone is UTC *)
Record valuer : Type := mkValuer { vl_map : env; vl_now : option Z }.
Definition map_valuer (m : env) : valuer := mkValuer m None.
Definition now_valuer (t : Z) : valuer := mkValuer [] (Some t).

Definition valuer_value (v : valuer) (k : text) : option value :=
  match lookup_env k (vl_map v) with
  | Some x => Some x
  | None => match vl_now v with
            | Some t => if text_eqb k (ts "now()") then Some (VTime t) else None
            | None => None
            end
  end.

(* asLiteral *)
Definition as_literal (v : value) : expr :=
  match v with
  | VBool b => BooleanLit b
  | VDur d => DurationLit d
  | VFloat f => NumberLit f
  | VInt i => IntegerLit i
  | VUint u => UnsignedLit u
  | VString s => StringLit s
  | VTime t => TimeLit t
  | _ => NilLit
  end.

Definition is_true_lit (e : expr) : bool := match e with BooleanLit true => true | _ => false end.
Definition is_false_lit (e : expr) : bool := match e with BooleanLit false => true | _ => false end.
Definition is_binary (e : expr) : bool := match e with BinaryExpr _ _ _ => true | _ => false end.

Section Reduce.
Variable orc : oracles.

Definition sat_dur (z : Z) : Z := if z <? min_i64 then min_i64 else if max_i64 <? z then max_i64 else z.   (* Time.Sub saturates *)

(* reduceBinaryExprTimeLHS with a TimeLiteral / DurationLiteral on the right: None = "still a BinaryExpr" *)
Definition red_time_dur (op : token) (t d : Z) : option expr :=
  match op with
  | ADD => Some (TimeLit (t + d))
  | SUB => Some (TimeLit (t + wrap64 (- d)))
  | _ => None
  end.
Definition red_time_time (op : token) (t t' : Z) : option expr :=
  match op with
  | SUB => Some (DurationLit (sat_dur (t - t')))
  | EQ => Some (BooleanLit (t =? t'))
  | NEQ => Some (BooleanLit (negb (t =? t')))
  | GT => Some (BooleanLit (t' <? t))
  | GTE => Some (BooleanLit (t' <=? t))
  | LT => Some (BooleanLit (t <? t'))
  | LTE => Some (BooleanLit (t <=? t'))
  | _ => None
  end.
Definition red_time_lhs (op : token) (t : Z) (r : expr) : option expr :=
  match r with
  | DurationLit d => red_time_dur op t d
  | IntegerLit i => red_time_dur op t i
  | TimeLit t' => red_time_time op t t'
  | StringLit s => match o_parse_time orc s with Some t' => red_time_time op t t' | None => None end
  | NilLit => Some (BooleanLit false)
  | _ => None
  end.

(* reduceBinaryExprDurationLHS *)
Definition red_dur_time (op : token) (d t : Z) : option expr :=
  match op with ADD => Some (TimeLit (t + d)) | _ => None end.
Definition red_dur_lhs (op : token) (d : Z) (r : expr) : option expr :=
  match r with
  | DurationLit d' =>
      match op with
      | ADD => Some (DurationLit (wrap64 (d + d')))
      | SUB => Some (DurationLit (wrap64 (d - d')))
      | EQ => Some (BooleanLit (d =? d'))
      | NEQ => Some (BooleanLit (negb (d =? d')))
      | GT => Some (BooleanLit (d' <? d))
      | GTE => Some (BooleanLit (d' <=? d))
      | LT => Some (BooleanLit (d <? d'))
      | LTE => Some (BooleanLit (d <=? d'))
      | _ => None
      end
  | NumberLit f =>
      let k := o_float_to_int orc f in
      match op with
      | MUL => Some (DurationLit (wrap64 (d * k)))
      | DIV => if k =? 0 then Some (DurationLit 0) else Some (DurationLit (wrap64 (Z.quot d k)))
      | _ => None
      end
  | IntegerLit i =>
      match op with
      | MUL => Some (DurationLit (wrap64 (d * i)))
      | DIV => if i =? 0 then Some (DurationLit 0) else Some (DurationLit (wrap64 (Z.quot d i)))
      | _ => None
      end
  | TimeLit t => red_dur_time op d t
  | StringLit s => match o_parse_time orc s with Some t => red_dur_time op d t | None => None end
  | NilLit => Some (BooleanLit false)
  | _ => None
  end.

(* reduceBinaryExprNumberLHS: total — an unreduced result keeps the (possibly converted) operands *)
Definition lit_of_value (v : value) : expr := as_literal v.
Definition red_num_lhs (op : token) (a : Z) (r : expr) : expr :=
  let fold b :=
    match op with
    | ADD | SUB | MUL | DIV | MOD | EQ | NEQ | GT | GTE | LT | LTE => Some (lit_of_value (eval_ff orc op a b))
    | _ => None
    end in
  match r with
  | NumberLit b => match fold b with Some e => e | None => BinaryExpr op (NumberLit a) r end
  | IntegerLit i => match fold (o_int_to_float orc i) with Some e => e | None => BinaryExpr op (NumberLit a) r end
  | UnsignedLit u =>
      let b := o_uint_to_float orc u in
      match fold b with Some e => e | None => BinaryExpr op (NumberLit a) (NumberLit b) end
  | NilLit => BooleanLit false
  | _ => BinaryExpr op (NumberLit a) r
  end.

(* reduceBinaryExprUnsignedLHS *)
Definition red_uu (op : token) (a b : Z) : expr :=
  match op with
  | ADD | SUB | MUL | DIV | MOD | EQ | NEQ | GT | GTE | LT | LTE => lit_of_value (eval_uu op a b)
  | _ => BinaryExpr op (UnsignedLit a) (UnsignedLit b)
  end.
Definition red_uns_lhs (op : token) (a : Z) (r : expr) : expr :=
  match r with
  | NumberLit _ => red_num_lhs op (o_uint_to_float orc a) r
  | IntegerLit i =>
      if i <? 0 then
        match op with
        | LT | LTE => BooleanLit false
        | GT | GTE => BooleanLit true
        | _ => red_uu op a (wrapu i)
        end
      else red_uu op a (wrapu i)
  | UnsignedLit b => red_uu op a b
  | _ => BinaryExpr op (UnsignedLit a) r
  end.

(* reduceBinaryExprIntegerLHS *)
Definition red_int_lhs (op : token) (a : Z) (r : expr) : expr :=
  let keep := BinaryExpr op (IntegerLit a) r in
  match r with
  | NumberLit _ => red_num_lhs op (o_int_to_float orc a) r
  | IntegerLit b =>
      match op with
      | ADD | SUB | MUL | MOD | BITWISE_AND | BITWISE_OR | BITWISE_XOR | EQ | NEQ | GT | GTE | LT | LTE =>
          lit_of_value (eval_ii orc true op a b)
      | DIV => lit_of_value (eval_ii orc true DIV a b)
      | _ => keep
      end
  | UnsignedLit b =>
      if a <? 0 then
        match op with
        | LT | LTE => BooleanLit true
        | GT | GTE => BooleanLit false
        | _ => red_uns_lhs op (wrapu a) r
        end
      else red_uns_lhs op (wrapu a) r
  | DurationLit d =>
      match op with
      | ADD => TimeLit (a + d)
      | SUB => TimeLit (a + wrap64 (- d))
      | _ => keep
      end
  | TimeLit t => match red_dur_lhs op a r with Some e => e | None => keep end
  | StringLit s =>
      match o_parse_time orc s with
      | Some t => match red_dur_lhs op a (TimeLit t) with Some e => e | None => keep end
      | None => keep
      end
  | NilLit => BooleanLit false
  | _ => keep
  end.

(* reduceBinaryExprBooleanLHS *)
Definition red_bool_lhs (op : token) (a : bool) (r : expr) : expr :=
  match r with
  | BooleanLit b =>
      match op with
      | EQ | NEQ | AND | OR | BITWISE_AND | BITWISE_OR | BITWISE_XOR => lit_of_value (eval_bb op a b)
      | _ => BinaryExpr op (BooleanLit a) r
      end
  | NilLit => BooleanLit false
  | _ => BinaryExpr op (BooleanLit a) r
  end.

(* reduceBinaryExprStringLHS *)
Definition red_str_lhs (op : token) (a : text) (r : expr) : expr :=
  let keep := BinaryExpr op (StringLit a) r in
  let via_time := match o_parse_time orc a with
                  | Some t => match red_time_lhs op t r with Some e => e | None => keep end
                  | None => keep
                  end in
  match r with
  | StringLit b =>
      match op with
      | EQ | NEQ =>
          let plain := BooleanLit (if tok_eqb op EQ then text_eqb a b else negb (text_eqb a b)) in
          match o_parse_time orc a, o_parse_time orc b with
          | Some t, Some t' => match red_time_time op t t' with Some e => e | None => plain end
          | _, _ => plain
          end
      | ADD => StringLit (a ++ b)
      | _ => via_time
      end
  | DurationLit _ | TimeLit _ | IntegerLit _ => via_time
  | NilLit => match op with EQ | NEQ => BooleanLit false | _ => keep end
  | _ => keep
  end.

(* reduceBinaryExpr after both sides have been reduced *)
Definition reduce_bin (op : token) (l r : expr) : expr :=
  let keep := BinaryExpr op l r in
  let shortcut : option expr :=
    match op with
    | AND => if is_false_lit l || is_false_lit r then Some (BooleanLit false)
             else if is_true_lit l then Some r else if is_true_lit r then Some l else None
    | OR => if is_true_lit l || is_true_lit r then Some (BooleanLit true)
            else if is_false_lit l then Some r else if is_false_lit r then Some l else None
    | _ => None
    end in
  match shortcut with
  | Some e => e
  | None =>
      match l with
      | BooleanLit a => red_bool_lhs op a r
      | DurationLit d => match red_dur_lhs op d r with Some e => e | None => keep end
      | IntegerLit a => red_int_lhs op a r
      | UnsignedLit a => red_uns_lhs op a r
      | NilLit => match op with EQ | NEQ => BooleanLit false | _ => keep end
      | NumberLit a => red_num_lhs op a r
      | StringLit a => red_str_lhs op a r
      | TimeLit t => match red_time_lhs op t r with Some e => e | None => keep end
      | _ => keep
      end
  end.

Definition is_literal (e : expr) : bool :=
  match e with
  | BooleanLit _ | BoundParam _ | DurationLit _ | IntegerLit _ | UnsignedLit _ | NilLit | NumberLit _ | RegexLit _
  | ListLit _ | StringLit _ | TimeLit _ => true
  | _ => false
  end.

Variable v : valuer.

(* reduceCall: only NowValuer is a CallValuer, and it answers only now() *)
Definition reduce_call (name : text) (args : list expr) : expr :=
  match vl_now v with
  | Some t => if forallb is_literal args && text_eqb name (ts "now") && is_nil args then TimeLit t else Call name args
  | None => Call name args
  end.

Fixpoint reduce (e : expr) : expr :=
  match e with
  | BinaryExpr op l r => reduce_bin op (reduce l) (reduce r)
  | Call n args => reduce_call n (map reduce args)
  | ParenExpr e' => let s := reduce e' in if is_binary s then ParenExpr s else s
  | VarRef k t => match valuer_value v k with Some x => as_literal x | None => VarRef k t end
  | _ => e
  end.

(* Reduce: unwrap parens at top level *)
Definition Reduce (e : expr) : expr :=
  match reduce e with ParenExpr e' => e' | x => x end.

End Reduce.
