(* ast.go: SelectStatement.SetTimeRange, rewriteWithoutTimeDimensions (RewriteFunc, leaf to root), isTimeRef
   (after fix 88d1cc2: the new condition is built as a tree, not printed and parsed again). *)
From InfluxQL Require Import Base.Prelude Base.Oracles Lex.Token Ast.Ast Val.TimeVal Sem.Eval Sem.Reduce Sem.Condition.

Section STR.
Variable orc : oracles.

Fixpoint unparen (e : expr) : expr := match e with ParenExpr e' => unparen e' | _ => e end.
(* isTimeRef *)
Definition is_time_operand (e : expr) : bool := is_time_ref orc (unparen e).
Definition is_cmp (op : token) : bool := match op with EQ | NEQ | LT | LTE | GT | GTE => true | _ => false end.

(* rewriteWithoutTimeDimensions: children first, then the node *)
Fixpoint strip_time (e : expr) : expr :=
  match e with
  | BinaryExpr op l r =>
      let l' := strip_time l in
      let r' := strip_time r in
      if is_cmp op && (is_time_operand l' || is_time_operand r') then BooleanLit true else BinaryExpr op l' r'
  | ParenExpr e' => ParenExpr (strip_time e')
  | Call n args => Call n (map strip_time args)
  | _ => e
  end.

Definition time_ref : expr := VarRef (ts "time") DUnknown.
Definition window_ge (start : Z) : expr := BinaryExpr GTE time_ref (StringLit (format_rfc3339nano start)).
Definition window_lt (stop : Z) : expr := BinaryExpr LT time_ref (StringLit (format_rfc3339nano stop)).
Definition keep_grouping (rest : expr) : expr := match rest with BinaryExpr OR _ _ => ParenExpr rest | _ => rest end.

(* SetTimeRange: the statement's new condition *)
Definition set_time_range (c : option expr) (w : Z * Z) : expr :=
  let c1 := match c with
            | None => window_ge (fst w)
            | Some c0 => BinaryExpr AND (keep_grouping (strip_time c0)) (window_ge (fst w))
            end in
  Reduce orc nil_valuer (BinaryExpr AND c1 (window_lt (snd w))).

(* a continuous query's successive windows: the conditions after each call *)
Fixpoint set_time_ranges (c : option expr) (ws : list (Z * Z)) : list expr :=
  match ws with
  | [] => []
  | w :: ws' => let c' := set_time_range c w in c' :: set_time_ranges (Some c') ws'
  end.

End STR.
