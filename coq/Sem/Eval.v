(* ast.go: ValuerEval.Eval / evalBinaryExpr over MapValuer-style bindings. *)
From InfluxQL Require Import Base.Prelude Base.Oracles Lex.Token Ast.Ast.

(* interface{} values an evaluation yields or a Valuer supplies *)
Inductive value : Type :=
| VNil
| VBool (b : bool)
| VFloat (f : Z)       (* IEEE bits *)
| VInt (i : Z)         (* int64 *)
| VUint (u : Z)        (* uint64 *)
| VString (s : text)
| VRegex (r : text)    (* *regexp.Regexp by its source *)
| VTime (t : Z)        (* time.Time, ns since the epoch *)
| VDur (d : Z).        (* time.Duration *)

Definition env := list (text * value).
Fixpoint lookup_env (k : text) (m : env) : option value :=
  match m with
  | [] => None
  | (k', v) :: m' => if text_eqb k k' then Some v else lookup_env k m'
  end.

Definition is_cmp (op : token) : bool :=
  match op with EQ | NEQ | LT | LTE | GT | GTE => true | _ => false end.
(* "The types were not comparable": false for comparisons, nil otherwise *)
Definition fallthrough (op : token) : value := if is_cmp op then VBool false else VNil.

Section Eval.
Variable orc : oracles.
Variable ifd : bool.          (* ValuerEval.IntegerFloatDivision *)

Definition fzero : Z := 0.
Definition f_is_zero (f : Z) : bool := o_feq orc f fzero.     (* rhs == 0 (true for -0 as well) *)

(* float64 op float64 *)
Definition eval_ff (op : token) (a b : Z) : value :=
  match op with
  | EQ => VBool (o_feq orc a b)
  | NEQ => VBool (negb (o_feq orc a b))
  | LT => VBool (o_flt orc a b)
  | LTE => VBool (o_fle orc a b)
  | GT => VBool (o_flt orc b a)
  | GTE => VBool (o_fle orc b a)
  | ADD => VFloat (o_fadd orc a b)
  | SUB => VFloat (o_fsub orc a b)
  | MUL => VFloat (o_fmul orc a b)
  | DIV => if f_is_zero b then VFloat fzero else VFloat (o_fdiv orc a b)
  | MOD => VFloat (o_fmod orc a b)
  | _ => fallthrough op
  end.

Definition eval_ii (op : token) (a b : Z) : value :=
  match op with
  | EQ => VBool (a =? b)
  | NEQ => VBool (negb (a =? b))
  | LT => VBool (a <? b)
  | LTE => VBool (a <=? b)
  | GT => VBool (b <? a)
  | GTE => VBool (b <=? a)
  | ADD => VInt (wrap64 (a + b))
  | SUB => VInt (wrap64 (a - b))
  | MUL => VInt (wrap64 (a * b))
  | DIV =>
      if ifd then
        (if b =? 0 then VFloat fzero else VFloat (o_fdiv orc (o_int_to_float orc a) (o_int_to_float orc b)))
      else (if b =? 0 then VInt 0 else VInt (wrap64 (Z.quot a b)))
  | MOD => if b =? 0 then VInt 0 else VInt (wrap64 (Z.rem a b))
  | BITWISE_AND => VInt (Z.land a b)
  | BITWISE_OR => VInt (Z.lor a b)
  | BITWISE_XOR => VInt (Z.lxor a b)
  | _ => fallthrough op
  end.

(* uint64 op uint64 (both already in range) *)
Definition eval_uu (op : token) (a b : Z) : value :=
  match op with
  | EQ => VBool (a =? b)
  | NEQ => VBool (negb (a =? b))
  | LT => VBool (a <? b)
  | LTE => VBool (a <=? b)
  | GT => VBool (b <? a)
  | GTE => VBool (b <=? a)
  | ADD => VUint (wrapu (a + b))
  | SUB => VUint (wrapu (a - b))
  | MUL => VUint (wrapu (a * b))
  | DIV => if b =? 0 then VUint 0 else VUint (a / b)
  | MOD => if b =? 0 then VUint 0 else VUint (a mod b)
  | BITWISE_AND => VUint (Z.land a b)
  | BITWISE_OR => VUint (Z.lor a b)
  | BITWISE_XOR => VUint (Z.lxor a b)
  | _ => fallthrough op
  end.

(* int64 lhs, uint64 rhs: comparisons look at the sign first, everything else converts uint64(lhs) *)
Definition eval_iu (op : token) (a b : Z) : value :=
  match op with
  | LT | LTE => if a <? 0 then VBool true else eval_uu op (wrapu a) b
  | GT | GTE => if a <? 0 then VBool false else eval_uu op (wrapu a) b
  | _ => eval_uu op (wrapu a) b
  end.
Definition eval_ui (op : token) (a b : Z) : value :=
  match op with
  | LT | LTE => if b <? 0 then VBool false else eval_uu op a (wrapu b)
  | GT | GTE => if b <? 0 then VBool true else eval_uu op a (wrapu b)
  | _ => eval_uu op a (wrapu b)
  end.

Definition eval_bb (op : token) (a b : bool) : value :=
  match op with
  | AND | BITWISE_AND => VBool (a && b)
  | OR | BITWISE_OR => VBool (a || b)
  | BITWISE_XOR | NEQ => VBool (negb (Bool.eqb a b))
  | EQ => VBool (Bool.eqb a b)
  | _ => fallthrough op
  end.

Definition eval_bin (op : token) (l0 r0 : value) : value :=
  (* implicit cast of a nil operand to false when the other one is a boolean *)
  let l := match l0, r0 with VNil, VBool _ => VBool false | _, _ => l0 end in
  let r := match l0, r0 with VBool _, VNil => VBool false | _, _ => r0 end in
  match l with
  | VBool a =>
      match r with
      | VBool b => eval_bb op a b
      | _ => match op with
             | AND | OR | BITWISE_AND | BITWISE_OR | BITWISE_XOR | EQ | NEQ => VBool false     (* ok && ... *)
             | _ => fallthrough op
             end
      end
  | VFloat a =>
      match r with
      | VFloat b => eval_ff op a b
      | VInt b => eval_ff op a (o_int_to_float orc b)
      | VUint b => eval_ff op a (o_uint_to_float orc b)
      | _ => match op with
             | ADD | SUB | MUL | DIV | MOD => VNil
             | _ => fallthrough op
             end
      end
  | VInt a =>
      match r with
      | VFloat b => eval_ff op (o_int_to_float orc a) b
      | VInt b => eval_ii op a b
      | VUint b => eval_iu op a b
      | _ => fallthrough op
      end
  | VUint a =>
      match r with
      | VFloat b => eval_ff op (o_uint_to_float orc a) b
      | VInt b => eval_ui op a b
      | VUint b => eval_uu op a b
      | _ => fallthrough op
      end
  | VString a =>
      match op with
      | EQ => match r with VString b => VBool (text_eqb a b) | _ => VBool false end
      | NEQ => match r with VString b => VBool (negb (text_eqb a b)) | _ => VBool false end
      | EQREGEX => match r with VRegex p => VBool (o_re_match orc p a) | _ => VBool false end
      | NEQREGEX => match r with VRegex p => VBool (negb (o_re_match orc p a)) | _ => VBool false end
      | _ => fallthrough op
      end
  | _ => fallthrough op
  end.

(* Eval over a MapValuer (not a CallValuer: a Call evaluates to nil) *)
Fixpoint eval (m : env) (e : expr) : value :=
  match e with
  | BinaryExpr op l r => eval_bin op (eval m l) (eval m r)
  | BooleanLit b => VBool b
  | IntegerLit i => VInt i
  | NumberLit f => VFloat f
  | UnsignedLit u => VUint u
  | ParenExpr e' => eval m e'
  | RegexLit r => VRegex r
  | StringLit s => VString s
  | VarRef k _ => match lookup_env k m with Some v => v | None => VNil end
  | _ => VNil
  end.

Definition eval_bool (m : env) (e : expr) : bool := match eval m e with VBool true => true | _ => false end.

End Eval.
