(* ast.go: SelectStatement.RewriteFields, FieldDimensions, EvalType / TypeValuerEval (with a TypeMapper that is not a
   CallTypeMapper), FieldExprByName, DataType.LessThan / Zero, InspectDataType, VarRefs ordering, stringSetSlice.
   The schema stands for the FieldMapper: per measurement name, typed fields and tag keys, or an error. *)
From InfluxQL Require Import Base.Prelude Base.Oracles Lex.Token Ast.Ast Ast.ColumnNames Sem.Eval Sem.Reduce.

Record mschema : Type := mkMS { ms_fields : list (text * datatype); ms_tags : list text; ms_err : bool }.
Definition schema := list (text * mschema).

Definition dt (d : datatype) : Z := datatype_code d.
Definition dt_eqb := datatype_eqb.

(* DataType.LessThan *)
Definition less_than (d other : datatype) : bool :=
  if dt_eqb d DUnknown then true
  else if dt_eqb d DUnsigned then negb (dt_eqb other DUnknown) && (dt other <=? dt DInteger)
  else if dt_eqb other DUnsigned then dt DString <=? dt d
  else negb (dt_eqb other DUnknown) && (dt other <? dt d).

Definition zero_time : Z := -62135596800 * 1000000000.
(* DataType.Zero *)
Definition zero_value (d : datatype) : value :=
  match d with
  | DFloat => VFloat 0 | DInteger => VInt 0 | DUnsigned => VUint 0 | DString | DTag => VString []
  | DBoolean => VBool false | DTime => VTime zero_time | DDuration => VDur 0 | _ => VNil
  end.
(* InspectDataType *)
Definition inspect (v : value) : datatype :=
  match v with
  | VFloat _ => DFloat | VInt _ => DInteger | VString _ => DString | VBool _ => DBoolean | VUint _ => DUnsigned
  | VTime _ => DTime | VDur _ => DDuration | _ => DUnknown
  end.

Section RF.
Variable orc : oracles.
(* the FieldMapper: MapType, and FieldDimensions (None = its error); Go maps are lists of pairs in some order *)
Variable map_type : measurement -> text -> datatype.
Variable mapper_fd : measurement -> option (list (text * datatype) * list text).

(* SelectStatement.FieldExprByName: the expression only *)
Fixpoint field_expr_by_name (fs : list field) (name : text) : option expr :=
  match fs with
  | [] => None
  | f :: fs' =>
      if text_eqb (field_name f) name then Some (f_expr f)
      else
        match f_expr f with
        | Call cn args =>
            if (text_eqb cn (ts "top") || text_eqb cn (ts "bottom")) && (2 <? length args)%nat then
              match find (fun a => match a with VarRef v _ => text_eqb v name | _ => false end)
                         (removelast (tl args)) with
              | Some a => Some a
              | None => field_expr_by_name fs' name
              end
            else field_expr_by_name fs' name
        | _ => field_expr_by_name fs' name
        end
  end.

(* TypeValuerEval.EvalType given the type of a bare reference; Err = a TypeError *)
Fixpoint eval_type_with (reftype : text -> res datatype) (e : expr) : res datatype :=
  match e with
  | VarRef v t => if negb (dt_eqb t DUnknown) && negb (dt_eqb t DAnyField) then Ok t else reftype v
  | Call _ _ => Ok DUnknown                          (* the mapper is no CallTypeMapper *)
  | BinaryExpr op l r =>
      lhs <-r eval_type_with reftype l ;;
      rhs <-r eval_type_with reftype r ;;
      if dt_eqb lhs DUnsigned && dt_eqb rhs DInteger && (is_literal l || negb (is_literal r)) then Err []
      else if dt_eqb lhs DInteger && dt_eqb rhs DUnsigned && (is_literal r || negb (is_literal l)) then Err []
      else if dt_eqb lhs DUnknown then Ok rhs
      else if dt_eqb rhs DUnknown then Ok lhs
      else
        let t := inspect (eval_bin orc false op (zero_value lhs) (zero_value rhs)) in
        if dt_eqb t DUnknown then Err [] else Ok t
  | ParenExpr e' => eval_type_with reftype e'
  | NumberLit _ => Ok DFloat
  | IntegerLit _ => Ok DInteger
  | UnsignedLit _ => Ok DUnsigned
  | StringLit _ => Ok DString
  | BooleanLit _ => Ok DBoolean
  | _ => Ok DUnknown
  end.

Definition is_varref_named (name : text) (e : expr) : bool :=
  match e with VarRef v _ => text_eqb v name | _ => false end.

(* evalVarRefExprType for one source, folded over the sources: [typ] is the type found so far *)
Fixpoint ref_type_src (s : source) (name : text) (typ : datatype) : res datatype :=
  match s with
  | SMeasurement m => let t := map_type m name in Ok (if less_than typ t then t else typ)
  | SSubQuery q =>
      let sub_reftype (n : text) : res datatype :=
        (fix go (l : list source) (acc : datatype) : res datatype :=
           match l with
           | [] => Ok acc
           | s' :: l' => acc' <-r ref_type_src s' n acc ;; go l' acc'
           end) (s_sources q) DUnknown in
      typ1 <-r (match field_expr_by_name (s_fields q) name with
                | Some e => t <-r eval_type_with sub_reftype e ;; Ok (if less_than typ t then t else typ)
                | None => Ok typ
                end) ;;
      Ok (if dt_eqb typ1 DUnknown && existsb (is_varref_named name) (s_dims q) then DTag else typ1)
  end.
Definition ref_type (sources : list source) (name : text) : res datatype :=
  (fix go (l : list source) (acc : datatype) : res datatype :=
     match l with
     | [] => Ok acc
     | s :: l' => acc' <-r ref_type_src s name acc ;; go l' acc'
     end) sources DUnknown.

(* the package-level EvalType: errors are dropped *)
Definition eval_type (sources : list source) (e : expr) : datatype :=
  match eval_type_with (ref_type sources) e with Ok t => t | _ => DUnknown end.

(* the rewrite closure of RewriteFields, through Walk *)
Fixpoint retype (sources : list source) (e : expr) : expr :=
  match e with
  | VarRef v t =>
      if negb (dt_eqb t DUnknown) && negb (dt_eqb t DAnyField) then e
      else
        let typ := eval_type sources e in
        if dt_eqb typ DTag && dt_eqb t DAnyField then e else VarRef v typ
  | BinaryExpr op l r => BinaryExpr op (retype sources l) (retype sources r)
  | Call n args => Call n (map (retype sources) args)
  | ParenExpr e' => ParenExpr (retype sources e')
  | _ => e
  end.

(* ---- maps as association lists ---- *)
Fixpoint set_dt (k : text) (v : datatype) (m : list (text * datatype)) : list (text * datatype) :=
  match m with
  | [] => [(k, v)]
  | (k', v') :: m' => if text_eqb k k' then (k', v) :: m' else (k', v') :: set_dt k v m'
  end.
Definition get_dt (k : text) (m : list (text * datatype)) : datatype :=
  match assoc_text k m with Some t => t | None => DUnknown end.
Definition merge_field (m : list (text * datatype)) (k : text) (typ : datatype) : list (text * datatype) :=
  if less_than (get_dt k m) typ then set_dt k typ m else m.
Definition add_tag (k : text) (s : list text) : list text := if existsb (text_eqb k) s then s else s ++ [k].

(* FieldDimensions: None = the mapper's error *)
Definition field_dimensions (sources : list source) : option (list (text * datatype) * list text) :=
  fold_left (fun acc s =>
    match acc with
    | None => None
    | Some (fs, ds) =>
        match s with
        | SMeasurement m =>
            match mapper_fd m with
            | None => None
            | Some (mf, mtags) =>
                Some (fold_left (fun a kt => merge_field a (fst kt) (snd kt)) mf fs,
                      fold_left (fun a k => add_tag k a) mtags ds)
            end
        | SSubQuery q =>
            Some (fold_left (fun a f => merge_field a (field_name f) (eval_type (s_sources q) (f_expr f))) (s_fields q) fs,
                  fold_left (fun a d => match d with VarRef v _ => add_tag v a | _ => a end) (s_dims q) ds)
        end
    end) sources (Some ([], [])).

(* sort.Sort(VarRefs) / sort.Strings: insertion sort under the same total orders *)
Definition ref_ltb (a b : text * datatype) : bool :=
  if text_eqb (fst a) (fst b) then dt (snd a) <? dt (snd b) else text_ltb (fst a) (fst b).
Fixpoint insert_by {A} (lt : A -> A -> bool) (x : A) (l : list A) : list A :=
  match l with
  | [] => [x]
  | y :: l' => if lt y x then y :: insert_by lt x l' else x :: l
  end.
Definition sort_by {A} (lt : A -> A -> bool) (l : list A) : list A := fold_right (insert_by lt) [] l.

Fixpoint has_wild (e : expr) : bool :=      (* WalkFunc over a field: a Wildcard or RegexLiteral anywhere *)
  match e with
  | Wildcard _ | RegexLit _ => true
  | BinaryExpr _ l r => has_wild l || has_wild r
  | Call _ args => existsb has_wild args
  | ParenExpr e' => has_wild e'
  | _ => false
  end.
Fixpoint has_kind (wild : bool) (e : expr) : bool :=   (* a Wildcard (wild) / a RegexLiteral (not wild) anywhere *)
  match e with
  | Wildcard _ => wild
  | RegexLit _ => negb wild
  | BinaryExpr _ l r => has_kind wild l || has_kind wild r
  | Call _ args => existsb (has_kind wild) args
  | ParenExpr e' => has_kind wild e'
  | _ => false
  end.

(* the innermost call of the first-argument chain, and the template with that call's first argument replaced *)
Fixpoint innermost (fuel : nat) (name : text) (args : list expr) : text * list expr :=
  match fuel with
  | O => (name, args)
  | S f => match args with
           | Call n' args' :: _ => innermost f n' args'
           | _ => (name, args)
           end
  end.
Fixpoint replace_innermost (fuel : nat) (e : expr) (x : expr) : expr :=
  match fuel with
  | O => e
  | S f =>
      match e with
      | Call n (Call n' args' :: rest) => Call n (replace_innermost f (Call n' args') x :: rest)
      | Call n (_ :: rest) => Call n (x :: rest)
      | _ => e
      end
  end.
Fixpoint depth (e : expr) : nat :=
  match e with Call _ (a :: _) => S (depth a) | _ => 1%nat end.

Definition name_in (cname : text) (l : list text) : bool := existsb (text_eqb cname) l.
Definition supported (cname : text) (t : datatype) : bool :=
  let base := dt_eqb t DFloat || dt_eqb t DInteger || dt_eqb t DUnsigned in
  if name_in cname [ts "count"; ts "first"; ts "last"; ts "distinct"; ts "elapsed"; ts "mode"; ts "sample"]
  then base || dt_eqb t DString || dt_eqb t DBoolean
  else if name_in cname [ts "min"; ts "max"] then base || dt_eqb t DBoolean
  else if name_in cname [ts "holt_winters"; ts "holt_winters_with_fit"] then dt_eqb t DFloat || dt_eqb t DInteger
  else base.

Definition expand_field (fields : list (text * datatype)) (f : field) : res (list field) :=
  let vr (r : text * datatype) := VarRef (fst r) (snd r) in
  match f_expr f with
  | Wildcard wt =>
      Ok (map (fun r => mkField (vr r) [])
            (filter (fun r => negb ((tok_eqb wt FIELD && dt_eqb (snd r) DTag) || (tok_eqb wt TAG && negb (dt_eqb (snd r) DTag)))) fields))
  | RegexLit p => Ok (map (fun r => mkField (vr r) []) (filter (fun r => o_re_match orc p (fst r)) fields))
  | Call cn args =>
      let d := depth (f_expr f) in
      let '(iname, iargs) := innermost d cn args in
      match iargs with
      | [] => Ok [f]
      | a0 :: _ =>
          let go (re : option text) : res (list field) :=
            Ok (map (fun r => mkField (replace_innermost d (f_expr f) (vr r)) (field_name f ++ 95 :: fst r))
                  (filter (fun r => negb (dt_eqb (snd r) DTag) && supported iname (snd r)
                                    && match re with Some p => o_re_match orc p (fst r) | None => true end) fields)) in
          match a0 with
          | Wildcard wt => if tok_eqb wt TAG then Err [] else go None
          | RegexLit p => go (Some p)
          | _ => Ok [f]
          end
      end
  | BinaryExpr _ _ _ => if has_kind true (f_expr f) || has_kind false (f_expr f) then Err [] else Ok [f]
  | _ => Ok [f]
  end.

Fixpoint expand_fields (fields : list (text * datatype)) (fs : list field) : res (list field) :=
  match fs with
  | [] => Ok []
  | f :: fs' => a <-r expand_field fields f ;; b <-r expand_fields fields fs' ;; Ok (a ++ b)
  end.

Definition expand_dims (dimensions : list text) (ds : list expr) : list expr :=
  flat_map (fun d => match d with
                     | Wildcard _ => map (fun n => VarRef n DUnknown) dimensions
                     | RegexLit p => map (fun n => VarRef n DUnknown) (filter (fun n => o_re_match orc p n) dimensions)
                     | _ => [d]
                     end) ds.

Definition is_dim_wild (d : expr) : bool := match d with Wildcard _ | RegexLit _ => true | _ => false end.

Definition set_sources (q : select) (ss : list source) : select :=
  mkSelect (s_fields q) (s_target q) (s_dims q) ss (s_cond q) (s_sort q) (s_limit q) (s_offset q) (s_slimit q) (s_soffset q)
    (s_israw q) (s_fill q) (s_fillvalue q) (s_loc q) (s_timealias q) (s_omittime q) (s_stripname q) (s_emitname q) (s_dedupe q).
Definition set_fields_dims (q : select) (fs : list field) (ds : list expr) (c : option expr) : select :=
  mkSelect fs (s_target q) ds (s_sources q) c (s_sort q) (s_limit q) (s_offset q) (s_slimit q) (s_soffset q)
    (s_israw q) (s_fill q) (s_fillvalue q) (s_loc q) (s_timealias q) (s_omittime q) (s_stripname q) (s_emitname q) (s_dedupe q).

(* a subquery may select a tag it also groups by: it is listed once (fix c2f8fd4) *)
Definition is_tag_field (field_set : list (text * datatype)) (k : text) : bool :=
  match assoc_text k field_set with Some t => dt_eqb t DTag | None => false end.

(* the sorted column list a field wildcard stands for, and the sorted tag list a GROUP BY wildcard stands for *)
Definition ungrouped (has_dw : bool) (dims : list expr) (dim_set : list text) : list text :=
  if has_dw then dim_set else filter (fun k => negb (existsb (is_varref_named k) dims)) dim_set.
(* a tag that a subquery selects and the statement groups by is left out like any other grouped tag (fix: RewriteFields
   removes it from the field set together with the dimension) *)
Definition drop_grouped_tags (has_dw : bool) (dims : list expr) (field_set : list (text * datatype)) : list (text * datatype) :=
  if has_dw then field_set
  else filter (fun kt => negb (dt_eqb (snd kt) DTag && existsb (is_varref_named (fst kt)) dims)) field_set.
Definition wild_columns0 (has_dw : bool) (dims : list expr) (field_set : list (text * datatype)) (dim_set : list text)
  : list (text * datatype) :=
  match field_set with
  | [] => []
  | _ => sort_by ref_ltb (field_set ++ (if has_dw then []
                                         else map (fun k => (k, DTag))
                                                (filter (fun k => negb (is_tag_field field_set k)) (ungrouped has_dw dims dim_set))))
  end.
Definition wild_columns (has_dw : bool) (dims : list expr) (field_set : list (text * datatype)) (dim_set : list text)
  : list (text * datatype) := wild_columns0 has_dw dims (drop_grouped_tags has_dw dims field_set) dim_set.
Definition wild_dimensions (has_dw : bool) (dims : list expr) (dim_set : list text) : list text :=
  sort_by text_ltb (ungrouped has_dw dims dim_set).

(* RewriteFields on a statement whose subqueries have been rewritten already *)
Definition rewrite_body (q : select) : res select :=
  let srcs := s_sources q in
  let fs1 := map (fun f => mkField (retype srcs (f_expr f)) (f_alias f)) (s_fields q) in
  let c1 := match s_cond q with Some c => Some (retype srcs c) | None => None end in
  let has_fw := existsb (fun f => has_wild (f_expr f)) fs1 in
  let has_dw := existsb is_dim_wild (s_dims q) in
  if negb has_fw && negb has_dw then Ok (set_fields_dims q fs1 (s_dims q) c1)
  else
    match field_dimensions srcs with
    | None => Err []
    | Some (field_set, dim_set) =>
        let fields := wild_columns has_dw (s_dims q) field_set dim_set in
        let dimensions := wild_dimensions has_dw (s_dims q) dim_set in
        fs2 <-r (if has_fw then expand_fields fields fs1 else Ok fs1) ;;
        Ok (set_fields_dims q fs2 (if has_dw then expand_dims dimensions (s_dims q) else s_dims q) c1)
    end.

Fixpoint rewrite_source (s : source) : res source :=
  match s with
  | SMeasurement _ => Ok s
  | SSubQuery q =>
      srcs <-r (fix go (l : list source) : res (list source) :=
                  match l with
                  | [] => Ok []
                  | x :: l' => y <-r rewrite_source x ;; ys <-r go l' ;; Ok (y :: ys)
                  end) (s_sources q) ;;
      q' <-r rewrite_body (set_sources q srcs) ;;
      Ok (SSubQuery q')
  end.

Definition rewrite_fields (q : select) : res select :=
  match rewrite_source (SSubQuery q) with
  | Ok (SSubQuery q') => Ok q'
  | Ok _ => Ok q
  | Err e => Err e
  | Crash s => Crash s
  | OutOfFuel => OutOfFuel
  end.

End RF.

(* ---- the harness's FieldMapper double, built from a schema ---- *)
Definition lookup_ms (sch : schema) (name : text) : mschema :=
  match assoc_text name sch with Some ms => ms | None => mkMS [] [] false end.
(* MapType: the field's type, Tag for a tag key, Unknown otherwise *)
Definition sch_map_type (sch : schema) (m : measurement) (field : text) : datatype :=
  let ms := lookup_ms sch (m_name m) in
  match assoc_text field (ms_fields ms) with
  | Some t => t
  | None => if existsb (text_eqb field) (ms_tags ms) then DTag else DUnknown
  end.
Definition sch_fd (sch : schema) (m : measurement) : option (list (text * datatype) * list text) :=
  let ms := lookup_ms sch (m_name m) in
  if ms_err ms then None else Some (ms_fields ms, ms_tags ms).
Definition rewrite_fields_sch (orc : oracles) (sch : schema) (q : select) : res select :=
  rewrite_fields orc (sch_map_type sch) (sch_fd sch) q.
