(* ast.go: ConditionExpr, conditionExpr, getTimeRange, TimeRange. *)
From InfluxQL Require Import Base.Prelude Base.Oracles Lex.Token Ast.Ast Sem.Eval Sem.Reduce.

(* TimeRange: a zero time.Time means "unset" *)
Record timerange : Type := mkRange { tr_min : option Z; tr_max : option Z }.
Definition range0 : timerange := mkRange None None.

Definition MinTime : Z := min_i64 + 2.
Definition MaxTime : Z := max_i64 - 1.

(* TimeRange.Intersect *)
Definition intersect (t o : timerange) : timerange :=
  mkRange
    (match tr_min o with
     | Some om => match tr_min t with Some tm => if tm <? om then Some om else Some tm | None => Some om end
     | None => tr_min t end)
    (match tr_max o with
     | Some om => match tr_max t with Some tm => if om <? tm then Some om else Some tm | None => Some om end
     | None => tr_max t end).

(* MinTimeNano / MaxTimeNano (UnixNano wraps outside int64) *)
Definition min_time_nano (t : timerange) : Z := match tr_min t with Some m => wrap64 m | None => MinTime end.
Definition max_time_nano (t : timerange) : Z := match tr_max t with Some m => wrap64 m | None => MaxTime end.

Section Cond.
Variable orc : oracles.
Variable v : valuer.

Definition is_time_ref (e : expr) : bool :=
  match e with VarRef k _ => text_eqb (to_lower (o_ulower orc) k) (ts "time") | _ => false end.

(* getTimeRange: None = an error *)
Definition get_time_range (op : token) (rhs : expr) : option timerange :=
  let rhs1 : option expr :=
    match rhs with
    | StringLit s => match o_parse_time orc s with Some t => Some (TimeLit t) | None => None end   (* not a time: error below either way *)
    | _ => Some rhs
    end in
  match rhs1 with
  | None => None
  | Some r1 =>
      let value : option Z :=
        match Reduce orc v r1 with
        | TimeLit t => if MaxTime <? t then None else if t <? MinTime + 1 then None else Some t
        | DurationLit d => Some d
        | NumberLit f => Some (o_float_to_int orc f)
        | IntegerLit i => Some i
        | _ => None
        end in
      match value with
      | None => None
      | Some x =>
          match op with
          | GT => Some (mkRange (Some (x + 1)) None)
          | GTE => Some (mkRange (Some x) None)
          | LT => Some (mkRange None (Some (x - 1)))
          | LTE => Some (mkRange None (Some x))
          | EQ => Some (mkRange (Some x) (Some x))
          | _ => None
          end
      end
  end.

Definition swap_op (op : token) : token :=
  match op with GT => LT | LT => GT | GTE => LTE | LTE => GTE | o => o end.

Definition nil_valuer : valuer := map_valuer [].

(* conditionExpr: None = error; the residual is an optional expression *)
Fixpoint condition_expr (cond : expr) : option (option expr * timerange) :=
  match cond with
  | BinaryExpr op l r =>
      match op with
      | AND | OR =>
          match condition_expr l, condition_expr r with
          | Some (le, lt), Some (re, rt) =>
              let tr := intersect lt rt in
              match le, re with
              | _, None => Some (le, tr)
              | None, _ => Some (re, tr)
              | Some a, Some b => Some (Some (reduce orc nil_valuer (BinaryExpr op a b)), tr)
              end
          | _, _ => None
          end
      | _ =>
          if is_time_ref l then
            match get_time_range op r with Some tr => Some (None, tr) | None => None end
          else if is_time_ref r then
            match get_time_range (swap_op op) l with Some tr => Some (None, tr) | None => None end
          else Some (Some (reduce orc v cond), range0)
      end
  | ParenExpr e =>
      match condition_expr e with
      | Some (None, tr) => Some (None, tr)
      | Some (Some x, tr) => Some (Some (reduce orc nil_valuer (ParenExpr x)), tr)
      | None => None
      end
  | BooleanLit _ => Some (Some cond, range0)
  | _ => None
  end.

(* ConditionExpr *)
Definition ConditionExpr (cond : expr) : option (option expr * timerange) :=
  match condition_expr cond with
  | None => None
  | Some (e, tr) =>
      let e1 := match e with Some (ParenExpr x) => Some x | o => o end in
      let e2 := match e1 with Some (BooleanLit true) => None | o => o end in
      Some (e2, tr)
  end.

End Cond.
