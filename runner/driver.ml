(* Line-protocol driver around the extracted model: one S-expression request
   per input line, one S-expression response per output line.
   Trusted: this file (I/O, integer conversion, oracle construction). *)
module M = Model

(* ---- Coq Z (kept as the Coq datatype by extraction) <-> decimal strings, via zarith ---- *)
let rec pos_of_zar (n : Z.t) : M.positive =
  if Z.equal n Z.one then M.XH
  else if Z.is_even n then M.XO (pos_of_zar (Z.shift_right n 1))
  else M.XI (pos_of_zar (Z.shift_right n 1))
let z_of_zar (n : Z.t) : M.z =
  let c = Z.sign n in
  if c = 0 then M.Z0 else if c > 0 then M.Zpos (pos_of_zar n) else M.Zneg (pos_of_zar (Z.neg n))
let z_of_int (n : int) : M.z = z_of_zar (Z.of_int n)
let z_of_string (s : string) : M.z = z_of_zar (Z.of_string s)
let rec zar_of_pos (p : M.positive) : Z.t =
  match p with
  | M.XH -> Z.one
  | M.XO q -> Z.shift_left (zar_of_pos q) 1
  | M.XI q -> Z.succ (Z.shift_left (zar_of_pos q) 1)
let zar_of_z (x : M.z) : Z.t =
  match x with M.Z0 -> Z.zero | M.Zpos p -> zar_of_pos p | M.Zneg p -> Z.neg (zar_of_pos p)
let string_of_z (x : M.z) : string = Z.to_string (zar_of_z x)
let int_of_z (x : M.z) : int = Z.to_int (zar_of_z x)

(* ---- S-expression text syntax:  atoms are decimal integers ---- *)
let parse_sexp (s : string) : M.sexp =
  let n = String.length s in
  let pos = ref 0 in
  let rec skip () = if !pos < n && (s.[!pos] = ' ' || s.[!pos] = '\t') then (incr pos; skip ()) in
  let rec item () : M.sexp =
    skip ();
    if !pos >= n then failwith "sexp: eof"
    else if s.[!pos] = '(' then begin
      incr pos;
      let items = ref [] in
      let rec loop () =
        skip ();
        if !pos >= n then failwith "sexp: eof in list"
        else if s.[!pos] = ')' then incr pos
        else (items := item () :: !items; loop ())
      in
      loop (); M.L (List.rev !items)
    end else begin
      let st = !pos in
      while !pos < n && s.[!pos] <> ' ' && s.[!pos] <> ')' && s.[!pos] <> '(' do incr pos done;
      M.A (z_of_string (String.sub s st (!pos - st)))
    end
  in
  item ()

let print_sexp (b : Buffer.t) (x : M.sexp) : unit =
  let rec go x =
    match x with
    | M.A z -> Buffer.add_string b (string_of_z z)
    | M.L l ->
        Buffer.add_char b '(';
        let first = ref true in
        List.iter (fun y -> if not !first then Buffer.add_char b ' '; first := false; go y) l;
        Buffer.add_char b ')'
  in
  go x

(* ---- oracle tables supplied by the harness (dumped from the real Go libraries) ---- *)
let ulower_tbl : (int, int) Hashtbl.t = Hashtbl.create 2048
let load_tables (dir : string) =
  let f = Filename.concat dir "ulower.tbl" in
  if Sys.file_exists f then begin
    let ic = open_in f in
    (try while true do
       let line = input_line ic in
       Scanf.sscanf line "%d %d" (fun a b -> Hashtbl.replace ulower_tbl a b)
     done with End_of_file -> ());
    close_in ic
  end

(* texts are lists of code points; the float oracles only ever see ASCII *)
let string_of_text (t : M.z list) : string =
  String.concat "" (List.map (fun c -> let i = int_of_z c in if i < 128 then String.make 1 (Char.chr i) else "?") t)
let text_of_string (s : string) : M.z list =
  List.init (String.length s) (fun i -> z_of_int (Char.code s.[i]))
let bits_of_float (f : float) : M.z =
  z_of_zar (Z.logand (Z.of_int64 (Int64.bits_of_float f)) (Z.pred (Z.shift_left Z.one 64)))
let float_of_bits (b : M.z) : float = 
  let n = zar_of_z b in
  let n = if Z.geq n (Z.shift_left Z.one 63) then Z.sub n (Z.shift_left Z.one 64) else n in
  Int64.float_of_bits (Z.to_int64 n)

(* strconv.ParseFloat on the spellings the lexer or FormatFloat can produce:
   digits [. digits], NaN, +Inf, -Inf, optional sign.  C strtod is correctly rounded. *)
let parse_float (t : M.z list) : M.z option =
  let s = string_of_text t in
  let ok = ref (String.length s > 0) in
  String.iter (fun c -> if not ((c >= '0' && c <= '9') || c = '.' || c = '-' || c = '+' || c = 'e' || c = 'E') then ok := false) s;
  if s = "NaN" then Some (bits_of_float Float.nan)
  else if s = "+Inf" || s = "Inf" then Some (bits_of_float Float.infinity)
  else if s = "-Inf" then Some (bits_of_float Float.neg_infinity)
  else if not !ok then None
  else match float_of_string_opt s with
    | None -> None
    | Some f -> if Float.is_integer f || Float.abs f < Float.infinity then Some (bits_of_float f) else None

(* strconv.FormatFloat(v, 'f', -1, 64): shortest digits that round-trip, positional notation *)
let format_float (b : M.z) : M.z list =
  let f = float_of_bits b in
  let s =
    if Float.is_nan f then "NaN"
    else if f = Float.infinity then "+Inf"
    else if f = Float.neg_infinity then "-Inf"
    else begin
      (* shortest %.{p}e that round-trips *)
      let rec find p = let s = Printf.sprintf "%.*e" p f in
        if p >= 17 || float_of_string s = f then s else find (p + 1) in
      let e = find 0 in
      (* e looks like  [-]d[.ddd]e[+-]XX *)
      let neg = e.[0] = '-' in
      let e = if neg then String.sub e 1 (String.length e - 1) else e in
      let ei = String.index e 'e' in
      let mant = String.sub e 0 ei and ex = int_of_string (String.sub e (ei + 1) (String.length e - ei - 1)) in
      let digits = String.concat "" (String.split_on_char '.' mant) in
      (* strip trailing zeros of the digit string (keep at least one) *)
      let n = ref (String.length digits) in
      while !n > 1 && digits.[!n - 1] = '0' do decr n done;
      let digits = String.sub digits 0 !n in
      let nd = String.length digits in
      let pointpos = ex + 1 in  (* number of digits before the decimal point *)
      let body =
        if digits = "0" then "0"
        else if pointpos <= 0 then "0." ^ String.make (- pointpos) '0' ^ digits
        else if pointpos >= nd then digits ^ String.make (pointpos - nd) '0'
        else String.sub digits 0 pointpos ^ "." ^ String.sub digits pointpos (nd - pointpos) in
      (if neg then "-" else "") ^ body
    end in
  text_of_string s

let canon (f : float) : M.z = if Float.is_nan f then z_of_string "9221120237041090561" else bits_of_float f
let f2 (op : float -> float -> float) (a : M.z) (b : M.z) : M.z = canon (op (float_of_bits a) (float_of_bits b))
(* int64(f) on amd64 (CVTTSD2SI): NaN and out-of-range give the "integer indefinite" value MinInt64 *)
let float_to_int (b : M.z) : M.z =
  let f = float_of_bits b in
  if Float.is_nan f || f >= 9223372036854775808.0 || f < -9223372036854775808.0 then z_of_string "-9223372036854775808"
  else z_of_zar (Z.of_float f)

let oracles () : M.oracles =
  { M.o_ulower = (fun c -> let i = int_of_z c in
                   match Hashtbl.find_opt ulower_tbl i with Some j -> z_of_int j | None -> c);
    M.o_parse_float = parse_float;
    M.o_format_float = format_float;
    (* filled per case by the harness's table (dispatch op 0) *)
    M.o_re_ok = (fun _ -> true);
    M.o_load_loc = (fun _ -> None);
    M.o_fadd = f2 ( +. ); M.o_fsub = f2 ( -. ); M.o_fmul = f2 ( *. ); M.o_fdiv = f2 ( /. );
    M.o_fmod = f2 Float.rem;
    M.o_feq = (fun a b -> float_of_bits a = float_of_bits b);
    M.o_flt = (fun a b -> float_of_bits a < float_of_bits b);
    M.o_fle = (fun a b -> float_of_bits a <= float_of_bits b);
    M.o_int_to_float = (fun i -> bits_of_float (Z.to_float (zar_of_z i)));
    M.o_uint_to_float = (fun i -> bits_of_float (Z.to_float (zar_of_z i)));
    M.o_float_to_int = float_to_int;
    M.o_re_match = (fun _ _ -> false);
    M.o_parse_time = (fun _ -> None) }

let () =
  let dir = if Array.length Sys.argv > 1 then Sys.argv.(1) else "." in
  load_tables dir;
  let orc = oracles () in
  let b = Buffer.create 65536 in
  (try
     while true do
       let line = input_line stdin in
       Buffer.clear b;
       (try print_sexp b (M.dispatch orc (parse_sexp line))
        with Failure m -> Buffer.clear b; Buffer.add_string b ("(-2) ; " ^ m)
           | Stack_overflow -> Buffer.clear b; Buffer.add_string b "(-3)");
       Buffer.add_char b '\n';
       print_string (Buffer.contents b)
     done
   with End_of_file -> ());
  flush stdout
