#!/usr/bin/env python3
"""Writes MANIFEST.json from the table below (kept as code so the manifest stays consistent)."""
import json, os
ROOT = os.path.dirname(os.path.abspath(__file__))
BASE = "go test -mod=mod -vet=off -count=1 -timeout 25m ./..."
TB = ("Trusted: Coq 8.16.1 kernel + vm_compute; no axioms (Print Assumptions under every theorem, checked on every run); "
      "the hand-written Gallina model is tied to /repo by the correspondence harness (implementation built from the current tree with -tags verif, "
      "run on the same inputs as the extracted model and, for a subset, the model inside Coq); extraction with ExtrOcamlBasic only + runner/driver.ml; "
      "Go libraries strconv/regexp/time/unicode enter as explicit oracles. ")
CHECKS = {
 "C05": dict(
   text="Theorems: for every NUL-free text of any length the rune reader delivers each rune exactly once, in order, CR/CRLF folded, at its zero-based line and column (induction over the text, against the exact 3-slot ring reader); a pushed-back rune is replayed with its recorded position and restores the reader; termination within |text|+1 tokens, no ring overrun, tiling and first-character positions for every text of length <=3 over a 43-rune class-representative alphabet (finite statement, bound in the theorem name); the two places where the code's positions are NOT the first character (STRING-like tokens, EOF after a scan that swallowed end of input) are stated as _refuted theorems with witnesses and listed as known findings (both pinned by existing tests). Tie: Scanner.Scan to EOF on all texts of length <=3 (thorough <=4) over the alphabet and on generated multi-line/CRLF/multi-byte/comment-bearing texts: (kind, line, char, literal, extent) per token compared with the exact-ring model, extents measured through the build-tag hook independently of positions; tiling and linecol evaluated directly on the implementation.",
   note=TB + "Partial: tiling/positions of whole token sequences are proved only up to the stated length bound; beyond it they rest on the correspondence. NUL runes are outside the property's domain (they read as EOF).",
   technique="Coq proof (induction over the text for the reader; kernel-evaluated finite sweep for token sequences) + exhaustive small-scope and generated correspondence",
   design="5 C05"),
 "C08": dict(
   text="Theorems (all spellings, all 64-bit values): ParseDuration returns d only if d is the exact sum (in unbounded Z) of the written components and fits in int64; a malformed spelling or a total outside int64 is an error, never a wrapped value; every well-formed spelling whose total lies in [-MaxInt64, MaxInt64] is accepted; ParseDuration(FormatDuration d) = d for every d except MinInt64 (and that one is shown not invertible); FormatDuration uses the largest unit that divides d, 0 prints as 0s. The model carries int64 wrap-around explicitly. Tie: ParseDuration/FormatDuration vs model on magnitudes within +-3 of MaxInt64/unit for every unit, wrapping multiples, random component sequences, all 64-bit boundary values, and duration literals inside statements; each case also judged directly against math/big.",
   note=TB + "The overflow defect present at the pinned commit (5124096h -> 25m26s) is repaired by fix commit 929f43e; the model is of the repaired code.",
   technique="Coq proof (induction over component lists with explicit int64 wrap) + boundary/generated correspondence",
   design="5 C08"),
 "C03": dict(
   text="Theorems (all chains, all operands, by induction): the tree ParseExpr's right-spine insertion builds from a chain yields the chain in order and is Grouped (left children bind at least as tight, right children strictly tighter); there is exactly one Grouped tree per chain; the function on real BinaryExpr nodes builds that tree for every operand parseUnaryExpr can return; precedence/isOperator tables by computation over the whole enumeration; right spine <= 5. Tie: token table compared exhaustively with the running code; every chain of <=3 (thorough <=4) operators over all 18 spellings plus random chains with parenthesised, negated and literal operands compared (ParseExpr vs model, composed from separately parsed operands) and checked directly against the documented five-level reading and against re-parsing of the printed tree.",
   note=TB + "Re-printing is guarded by the known finding C02-neg-rhs (unary sign desugared without ParenExpr).",
   technique="Coq proof (induction on chain-built trees) + exhaustive/generated correspondence with the Go implementation",
   design="5 C03"),
}
NA_REASON = "not yet built in this revision of the framework (construction order in DESIGN.md section 9); no check is registered, so nothing is claimed"
ALL = ["C%02d" % i for i in range(1, 21)]
m = dict(
  version=1,
  setup_cmd="./setup.sh",
  hooks=dict(guard="verif", enable="go build -tags verif (harness module with replace => /repo)",
             baseline_off_cmd="cd /repo && GOFLAGS=-mod=mod go test -vet=off -count=1 -timeout 25m ./...",
             source_commits=["4c0adac", "11d84c1"], add_only=True),
  engines=[
    dict(name="coq-model", path="coq/", serves_properties=sorted(CHECKS), kind_free_text="Coq 8.16.1 development: executable Gallina model, proofs, property theorems (Props/)"),
    dict(name="runner", path="runner/", serves_properties=sorted(CHECKS), kind_free_text="model extracted to OCaml (ExtrOcamlBasic only) + line-protocol driver"),
    dict(name="harness", path="harness/", serves_properties=sorted(CHECKS), kind_free_text="Go correspondence harness built from /repo with -tags verif: generators, implementation runs, direct property evaluation"),
  ],
  checks=[dict(property_id=p, quick_cmd="./check %s --tier quick" % p, thorough_cmd="./check %s --tier thorough" % p,
               evidence_file="evidence/%s.json" % p, replay_cmd_template="./check %s --replay {path}" % p, engine="coq-model",
               level_claimed=dict(category="proof", text=c["text"], design_ref="DESIGN.md section " + c["design"]),
               level_note=c["note"], technique=c["technique"]) for p, c in sorted(CHECKS.items())],
  not_applicable=[dict(property_id=p, reason=NA_REASON) for p in ALL if p not in CHECKS],
  notes="See DESIGN.md. known_findings.txt lists recorded defects; evidence/ is rewritten by every run.",
)
json.dump(m, open(os.path.join(ROOT, "MANIFEST.json"), "w"), indent=1)
print("claimed:", sorted(CHECKS))
