#!/usr/bin/env python3
"""Writes MANIFEST.json from the table below (kept as code so the manifest stays consistent)."""
import json, os
ROOT = os.path.dirname(os.path.abspath(__file__))
BASE = "go test -mod=mod -vet=off -count=1 -timeout 25m ./..."
TB = ("Trusted: Coq 8.16.1 kernel + vm_compute; no axioms (Print Assumptions under every theorem, checked on every run); "
      "the hand-written Gallina model is tied to /repo by the correspondence harness (implementation built from the current tree with -tags verif, "
      "run on the same inputs as the extracted model and, for a subset, the model inside Coq); extraction with ExtrOcamlBasic only + runner/driver.ml; "
      "Go libraries strconv/regexp/time/unicode enter as explicit oracles. ")
CHECKS = {
 "C03": dict(
   text="Theorems (all chains, all operands, by induction): the tree ParseExpr's right-spine insertion builds from a chain yields the chain in order and is Grouped (left children bind at least as tight, right children strictly tighter); there is exactly one Grouped tree per chain; the function on real BinaryExpr nodes builds that tree for every operand parseUnaryExpr can return; precedence/isOperator tables by computation over the whole enumeration; right spine <= 5. Tie: token table compared exhaustively with the running code; every chain of <=3 (thorough <=4) operators over all 18 spellings plus random chains with parenthesised, negated and literal operands compared (ParseExpr vs model, composed from separately parsed operands) and checked directly against the documented five-level reading and against re-parsing of the printed tree.",
   note=TB + "Re-printing is guarded by the known finding C02-neg-rhs (unary sign desugared without ParenExpr).",
   technique="Coq proof (induction on chain-built trees) + exhaustive/generated correspondence with the Go implementation",
   design="5 C03"),
}
NA_REASON = "not yet built in this revision of the framework (construction order in DESIGN.md section 9); no check is registered, so nothing is claimed"
ALL = ["C%02d" % i for i in range(1, 21)]
m = dict(
  version=1,
  setup_cmd="./setup.sh",
  hooks=dict(guard="verif", enable="go build -tags verif (harness module with replace => /repo)",
             baseline_off_cmd="cd /repo && GOFLAGS=-mod=mod go test -vet=off -count=1 -timeout 25m ./...",
             source_commits=["4c0adac", "11d84c1"], add_only=True),
  engines=[
    dict(name="coq-model", path="coq/", serves_properties=sorted(CHECKS), kind_free_text="Coq 8.16.1 development: executable Gallina model, proofs, property theorems (Props/)"),
    dict(name="runner", path="runner/", serves_properties=sorted(CHECKS), kind_free_text="model extracted to OCaml (ExtrOcamlBasic only) + line-protocol driver"),
    dict(name="harness", path="harness/", serves_properties=sorted(CHECKS), kind_free_text="Go correspondence harness built from /repo with -tags verif: generators, implementation runs, direct property evaluation"),
  ],
  checks=[dict(property_id=p, quick_cmd="./check %s --tier quick" % p, thorough_cmd="./check %s --tier thorough" % p,
               evidence_file="evidence/%s.json" % p, replay_cmd_template="./check %s --replay {path}" % p, engine="coq-model",
               level_claimed=dict(category="proof", text=c["text"], design_ref="DESIGN.md section " + c["design"]),
               level_note=c["note"], technique=c["technique"]) for p, c in sorted(CHECKS.items())],
  not_applicable=[dict(property_id=p, reason=NA_REASON) for p in ALL if p not in CHECKS],
  notes="See DESIGN.md. known_findings.txt lists recorded defects; evidence/ is rewritten by every run.",
)
json.dump(m, open(os.path.join(ROOT, "MANIFEST.json"), "w"), indent=1)
print("claimed:", sorted(CHECKS))
