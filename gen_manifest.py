#!/usr/bin/env python3
"""Writes MANIFEST.json from the table below (kept as code so the manifest stays consistent)."""
import json, os
ROOT = os.path.dirname(os.path.abspath(__file__))
BASE = "go test -mod=mod -vet=off -count=1 -timeout 25m ./..."
TB = ("Trusted: Coq 8.16.1 kernel + vm_compute; no axioms (Print Assumptions under every theorem, checked on every run); "
      "the hand-written Gallina model is tied to /repo by the correspondence harness (implementation built from the current tree with -tags verif, "
      "run on the same inputs as the extracted model and, for a subset, the model inside Coq); extraction with ExtrOcamlBasic only + runner/driver.ml; "
      "Go libraries strconv/regexp/time/unicode enter as explicit oracles. ")
CHECKS = {
 "C05": dict(
   text="Theorems: for every NUL-free text of any length the rune reader delivers each rune exactly once, in order, CR/CRLF folded, at its zero-based line and column (induction over the text, against the exact 3-slot ring reader); a pushed-back rune is replayed with its recorded position and restores the reader; termination within |text|+1 tokens, no ring overrun, tiling and first-character positions for every text of length <=3 over a 43-rune class-representative alphabet (finite statement, bound in the theorem name); the two places where the code's positions are NOT the first character (STRING-like tokens, EOF after a scan that swallowed end of input) are stated as _refuted theorems with witnesses and listed as known findings (both pinned by existing tests). Tie: Scanner.Scan to EOF on all texts of length <=3 (thorough <=4) over the alphabet and on generated multi-line/CRLF/multi-byte/comment-bearing texts: (kind, line, char, literal, extent) per token compared with the exact-ring model, extents measured through the build-tag hook independently of positions; tiling and linecol evaluated directly on the implementation.",
   note=TB + "Partial: tiling/positions of whole token sequences are proved only up to the stated length bound; beyond it they rest on the correspondence. NUL runes are outside the property's domain (they read as EOF).",
   technique="Coq proof (induction over the text for the reader; kernel-evaluated finite sweep for token sequences) + exhaustive small-scope and generated correspondence",
   design="5 C05"),
 "C08": dict(
   text="Theorems (all spellings, all 64-bit values): ParseDuration returns d only if d is the exact sum (in unbounded Z) of the written components and fits in int64; a malformed spelling or a total outside int64 is an error, never a wrapped value; every well-formed spelling whose total lies in [-MaxInt64, MaxInt64] is accepted; ParseDuration(FormatDuration d) = d for every d except MinInt64 (and that one is shown not invertible); FormatDuration uses the largest unit that divides d, 0 prints as 0s. The model carries int64 wrap-around explicitly. Tie: ParseDuration/FormatDuration vs model on magnitudes within +-3 of MaxInt64/unit for every unit, wrapping multiples, random component sequences, all 64-bit boundary values, and duration literals inside statements; each case also judged directly against math/big.",
   note=TB + "The overflow defect present at the pinned commit (5124096h -> 25m26s) is repaired by fix commit 929f43e; the model is of the repaired code.",
   technique="Coq proof (induction over component lists with explicit int64 wrap) + boundary/generated correspondence",
   design="5 C08"),
 "C01": dict(
   text="Model: all of parser.go and parse_tree.go transliterated function by function into programs over the parser's four instructions (Scan, ScanRegex, Unscan, peekRune), run by an interpreter over the exact lexer (3-slot rings). Theorems (all inputs): any letter-case spelling of a keyword is that keyword and a non-keyword is an identifier; programs compose (run distributes over bind); the AST a program returns depends on the input only through instruction answers (relational theorem, proved once for every parser function at every fuel). PARTIAL at proof level: parse(render spelling ast) = ast is not proved for the whole grammar; it is evaluated directly on the implementation for 32 statement kinds x option subsets x random legal spellings (keyword case, optional quoting, any whitespace, literal forms) against ASTs the generator writes down independently of the parser, and the model parser is compared with the implementation (AST, error kind and position, pushback maxima) on the same texts and on the 502-statement corpus.",
   note=TB + "A cross-wired, dropped or defaulted clause in the Go parser shows as a direct failure (generator's AST) and as a correspondence mismatch (model). Fix c6f117f (whitespace after a regex GROUP BY dimension) was found by this check.",
   technique="Coq model of the whole parser + generic theorems; grammar-derived differential testing against independently built ASTs",
   design="5 C01"),
 "C02": dict(
   text="Model: every String() of ast.go (Printer.v, PrinterStmts.v) and the full parser. Theorems: password non-interference of the two password statements' printers (the exception the property grants); three _refuted theorems evaluated by the kernel through the model's own printer and text-level parser (negated right operand, CREATE DATABASE with a bare WITH, call names that need quotes) = the known findings. PARTIAL at proof level: parse(print s) = s is not proved for all statements; it is evaluated structurally (not by string comparison) on the implementation for every statement kind incl. names needing quotes, keywords as names, extreme/fractional numbers and durations, negated operands, regexes with slashes, nested subqueries; String() is compared with the model printer on every case.",
   note=TB + "Seven printer defects found by this check were repaired (fix commits 2c88f6c 3be6e58 3a7796b 81b60f0 9f484d6 fe228f2 0bd2e68); three narrow classes remain as known findings.",
   technique="Coq model of printer and parser + kernel-evaluated refutations; structural print/re-parse differential testing",
   design="5 C02"),
 "C04": dict(
   text="Model: every Go panic site is an explicit Crash outcome and fuel exhaustion an explicit OutOfFuel outcome of the interpreter; ring indices are computed as Go computes them (a negative index is a Crash). Theorems: reads and single pushbacks on the exact ring reader never fault and replay the recorded rune; Scan terminates within |text|+1 tokens without ring overrun or fuel exhaustion for every text of length <=3 over a 43-rune alphabet (finite statement). PARTIAL: crash-freedom and fuel adequacy of the whole parser are not theorems yet; they are checked per case: ParseStatement, ParseQuery and ParseExpr under recover and a time budget on mutated corpus/generated statements, random bytes, token soups, unterminated constructs, sign handling with every follower, nesting to 1000 (thorough 30000) and every bindable parameter kind, with outcome class, error position and maximum token/rune pushback depth (build-tag hooks) compared with the model.",
   note=TB + "Goroutine stack exhaustion at ~10^6 nested parentheses is runtime behaviour no Gallina model exhibits (DESIGN.md section 6 item 15); not exercised because it kills the process.",
   technique="Coq model with explicit crash/fuel outcomes + lexer theorems; mutation/boundary differential testing under recover with pushback hooks",
   design="5 C04"),
 "C07": dict(
   text="Model: BindValue/bindObjectValue/jsonNumberToValue over a model of the bindable Go/JSON kinds (Params.v) and Parser.scan's substitution inside the interpreter. Theorems (all values, all states): a binding is one typed token of nine kinds; string, identifier and regex values are bound verbatim; a placeholder is answered with exactly the bound (kind, literal) pair; unbound or empty-named placeholders stay BOUNDPARAM; non-placeholder tokens are untouched; the lexer state after any scan, unscan or peek is independent of the bound values (a value never reaches the lexer). PARTIAL: equality with the inlined text and structure-independence from string content are evaluated on the implementation over 46 templates x ~150 values (every kind, hostile strings) and generated statements; BindValue and the parser are compared with the model on the same cases.",
   note=TB + "Known finding C07-regex-param-after-dot.",
   technique="Coq proof (case analysis on values; instruction-level non-interference) + template x value differential testing",
   design="5 C07"),
 "C16": dict(
   text="Theorems: ParseQuery's result depends on the input only through instruction answers (relational theorem instantiated at parse_query); two _refuted theorems for the comment rule at raw-rune lookahead sites (known findings), evaluated by the kernel through the model parser. PARTIAL: that whitespace-for-whitespace substitution yields related lexer states is not proved; every whitespace gap of generated statements x 6 whitespace and 6 comment replacements, and joined queries (empty statements, trailing semicolons, comments after separators, missing separators) are evaluated on the implementation and compared with the model. Comment failures are classified by the raw-rune peek positions recorded through a build-tag hook on the comment-free text.",
   note=TB + "Fix c6f117f also belongs here (a blank before a comma changed the AST).",
   technique="Coq relational theorem over parser programs + gap-by-gap substitution testing with hook-based classification",
   design="5 C16"),
 "C19": dict(
   text="Theorems (all statements, all nesting depths, by structural induction over sources and subqueries): RequiredPrivileges of a SELECT contains a read privilege on the database of every measurement read at any depth and a write privilege on the INTO target's database; EXPLAIN requires exactly what the SELECT requires; every statement kind whose SELECTs/source lists have FROM clauses (the parser guarantees it) reports a non-empty list; each of the 23 administrative statement kinds the property names requires exactly [admin, all privileges]; source-derived entries are only non-admin reads and writes. Tie: RequiredPrivileges of every statement kind x option subsets (generated), the cardinality x EXACT x ON x FROM matrix, subquery depth to 6 with every target form, compared entry by entry with the model and judged directly by an independent walker over the Go AST.",
   note=TB + "Defect found and repaired (fix c7dc48f): five cardinality forms without FROM required nothing. The model is of the repaired code.",
   technique="Coq proof (structural induction over nested sources; case analysis over statement kinds) + exhaustive-over-kinds correspondence",
   design="5 C19"),
 "C20": dict(
   text="Theorems (all field lists): if the explicit aliases are pairwise distinct then all field column names ColumnNames returns are pairwise distinct (invariant: every generated name is absent from the names map when it is chosen, and the map already holds every alias); the suffix search terminates within |names|+1 steps (pigeonhole over the injective suffix spelling) so ColumnNames is total; one name per column in field order with top()/bottom() tag arguments as their own columns, the time column or its alias first unless omitted; aliases verbatim at their positions. Tie: ColumnNames vs model on every field list of length <=2 (thorough <=3) over a collision-dense pool with and without aliases (exhaustive) and random lists of up to 7 fields with aliases equal to generated names and suffixes, INTO, OmitTime and TimeAlias; shape, distinctness and purity judged directly.",
   note=TB + "Fix bdafb1d (ColumnNames sliced Args[1:] of top() without arguments) is assumed by the totality theorem; the model is of the repaired code.",
   technique="Coq proof (induction over the column list with a freshness invariant; pigeonhole for termination) + small-scope exhaustive correspondence",
   design="5 C20"),
 "C09": dict(
   text="Theorem C09_sound (all expressions, all assignments, all splits; induction over the expression with an exhaustive case analysis of operator x operand-literal-kind cells): for every expression well-typed in the property's discipline and every assignment giving each variable a value of its kind, evaluating Reduce(e, rho1) under rho2 equals evaluating e under rho1++rho2, with integer division as float division and division/modulo by zero as zero; int64/uint64 wrap-around is explicit, floats are bit patterns under opaque operations shared by both sides. Also: folding preserves types; the evaluator respects the typing; time arithmetic folds to the exact instant/duration/truth value; now() folds to the clock. _refuted theorem for date-like strings (known finding). Tie: Reduce and ValuerEval.Eval vs model on every well-typed operator x kind x kind cell with 8x8 boundary values, literal and bound (exhaustive over cells), random typed trees x assignments x splits, and time arithmetic checked against math/big; Eval(Reduce(e,rho1),rho2) = Eval(e,rho1 u rho2) and idempotence judged directly.",
   note=TB + "IEEE arithmetic, int<->float conversion, regexp matching and time-string parsing (UTC only) enter as oracle functions; idempotence is checked per case, not proved. Fixes d15000c (uint64 bindings) and aa5b77a (duration / fraction) were found here.",
   technique="Coq proof (structural induction + exhaustive operator x kind case analysis) + exhaustive-over-cells correspondence",
   design="5 C09"),
 "C10": dict(
   text="Theorem C10_split (all conditions of the class, all points; induction over the condition, using C09's soundness for the folded residual): for every condition built from time comparisons (time on either side of = < <= > >= against integer nanoseconds, durations, floats, RFC3339/date strings, now(), and now()/string +- duration), typed non-time predicates and boolean literals, joined by AND and parentheses and by OR among time-free conditions, whenever ConditionExpr succeeds the condition holds at a point exactly when its timestamp lies in the inclusive range and the residual holds (missing residual = true). Also: strict bounds move by exactly 1 ns and = gives a one-point range (getTimeRange vs the declared instants, incl. the operand swap for literal-OP-time); ranges intersect pointwise; residuals stay typed booleans. Tie: ConditionExpr (residual, Min, Max, MinTimeNano, MaxTimeNano, error-ness) vs model on generated conditions (0-8 bounds, every literal form, both sides, every case spelling of time) and out-of-class inputs; the equivalence itself evaluated on the implementation at and +-1 ns around every bound x all tag combinations with an independent reading of the condition.",
   note=TB + "Time strings are parsed by Go (oracle), UTC only. The evaluator in the theorem uses float integer division, as C09 does; generated predicates contain no division.",
   technique="Coq proof (induction over conditions, built on the C09 soundness theorem) + generated correspondence and boundary-point evaluation",
   design="5 C10"),
 "C14": dict(
   text="Model: Clone, cloneSource(s), Measurement.Clone, CloneExpr, CloneRegexLiteral over ASTs whose heap objects (node structs, slice backing arrays) carry addresses, in an allocator monad. Theorems (all statements/expressions, any nesting, structural induction): the clone erases to the same AST as the original (faithful, field by field); every mutable location of the clone was allocated by the call, so clone and original share no mutable node (the compiled regexps CloneExpr shares on purpose are tracked separately); any finite sequence of writes to locations outside an object graph leaves it exactly as it was (independence under every history of in-place changes). Tie: Clone/CloneExpr vs model on corpus + generated SELECTs: structural equality, and the sharing pattern node by node (pointer identity of every node and slice array of the clone against the original's address set; regexp sharing flags) compared with the model's; histories of in-place rewrites and field/slice mutations on either side with snapshots of the other; 11 derived operations snapshot-checked to leave the receiver unchanged.",
   note=TB + "Go's memory model (code can write only through pointers it holds) is the premise of the independence theorem. Fix b97d4a5 (IsTarget dropped by Clone) was found here; the model is of the repaired code.",
   technique="Coq proof (structural induction in an allocator monad; frame lemma over memories) + pointer-identity and mutation-history differential testing",
   design="5 C14"),
 "C03": dict(
   text="Theorems (all chains, all operands, by induction): the tree ParseExpr's right-spine insertion builds from a chain yields the chain in order and is Grouped (left children bind at least as tight, right children strictly tighter); there is exactly one Grouped tree per chain; the function on real BinaryExpr nodes builds that tree for every operand parseUnaryExpr can return; precedence/isOperator tables by computation over the whole enumeration; right spine <= 5. Tie: token table compared exhaustively with the running code; every chain of <=3 (thorough <=4) operators over all 18 spellings plus random chains with parenthesised, negated and literal operands compared (ParseExpr vs model, composed from separately parsed operands) and checked directly against the documented five-level reading and against re-parsing of the printed tree.",
   note=TB + "Re-printing is guarded by the known finding C02-neg-rhs (unary sign desugared without ParenExpr).",
   technique="Coq proof (induction on chain-built trees) + exhaustive/generated correspondence with the Go implementation",
   design="5 C03"),
}
NA_REASON = "not yet built in this revision of the framework (construction order in DESIGN.md section 9); no check is registered, so nothing is claimed"
ALL = ["C%02d" % i for i in range(1, 21)]
m = dict(
  version=1,
  setup_cmd="./setup.sh",
  hooks=dict(guard="verif", enable="go build -tags verif (harness module with replace => /repo)",
             baseline_off_cmd="cd /repo && GOFLAGS=-mod=mod go test -vet=off -count=1 -timeout 25m ./...",
             source_commits=["4c0adac", "11d84c1", "1d73255", "f2b6f90"], add_only=True),
  engines=[
    dict(name="coq-model", path="coq/", serves_properties=sorted(CHECKS), kind_free_text="Coq 8.16.1 development: executable Gallina model, proofs, property theorems (Props/)"),
    dict(name="runner", path="runner/", serves_properties=sorted(CHECKS), kind_free_text="model extracted to OCaml (ExtrOcamlBasic only) + line-protocol driver"),
    dict(name="harness", path="harness/", serves_properties=sorted(CHECKS), kind_free_text="Go correspondence harness built from /repo with -tags verif: generators, implementation runs, direct property evaluation"),
  ],
  checks=[dict(property_id=p, quick_cmd="./check %s --tier quick" % p, thorough_cmd="./check %s --tier thorough" % p,
               evidence_file="evidence/%s.json" % p, replay_cmd_template="./check %s --replay {path}" % p, engine="coq-model",
               level_claimed=dict(category="proof", text=c["text"], design_ref="DESIGN.md section " + c["design"]),
               level_note=c["note"], technique=c["technique"]) for p, c in sorted(CHECKS.items())],
  not_applicable=[dict(property_id=p, reason=NA_REASON) for p in ALL if p not in CHECKS],
  notes="See DESIGN.md. known_findings.txt lists recorded defects; evidence/ is rewritten by every run.",
)
json.dump(m, open(os.path.join(ROOT, "MANIFEST.json"), "w"), indent=1)
print("claimed:", sorted(CHECKS))
