package main

// Static footprint of the package's entry points, from SSA (golang.org/x/tools/go/ssa):
// for every function, the package-level variables it (transitively, over static calls and interface
// calls resolved by class-hierarchy analysis inside the package) reads and writes, and the parameters
// (receiver first) through which it writes memory it did not allocate.
//
// Approximations (stated in DESIGN.md): values are traced to a root through field/index/deref chains
// only - a value that went through a phi, a call result or an interface is "unknown" and a store
// through it is not attributed; parameter writes propagate over static calls only.

import (
	"encoding/json"
	"fmt"
	"go/token"
	"go/types"
	"os"
	"sort"
	"strings"

	"golang.org/x/tools/go/callgraph"
	"golang.org/x/tools/go/callgraph/cha"
	"golang.org/x/tools/go/packages"
	"golang.org/x/tools/go/ssa"
	"golang.org/x/tools/go/ssa/ssautil"
)

type effects struct {
	GlobalReads  map[string]bool
	GlobalWrites map[string]bool
	ParamWrites  map[int]bool
}

func newEffects() *effects {
	return &effects{map[string]bool{}, map[string]bool{}, map[int]bool{}}
}

type root struct {
	global string
	param  int // -1 if none
	fresh  bool
}

func traceRoot(v ssa.Value, fn *ssa.Function, depth int) root {
	if depth > 50 {
		return root{param: -1}
	}
	switch x := v.(type) {
	case *ssa.Global:
		if x.Pkg != fn.Pkg {
			return root{param: -1}
		}
		return root{global: x.Name(), param: -1}
	case *ssa.Parameter:
		for i, p := range fn.Params {
			if p == x {
				return root{param: i}
			}
		}
	case *ssa.FreeVar:
		return root{param: -1}
	case *ssa.Alloc, *ssa.MakeMap, *ssa.MakeSlice, *ssa.MakeChan, *ssa.MakeInterface, *ssa.MakeClosure:
		if mi, ok := v.(*ssa.MakeInterface); ok {
			return traceRoot(mi.X, fn, depth+1)
		}
		return root{param: -1, fresh: true}
	case *ssa.FieldAddr:
		return traceRoot(x.X, fn, depth+1)
	case *ssa.IndexAddr:
		return traceRoot(x.X, fn, depth+1)
	case *ssa.Field:
		return traceRoot(x.X, fn, depth+1)
	case *ssa.Index:
		return traceRoot(x.X, fn, depth+1)
	case *ssa.Lookup:
		return traceRoot(x.X, fn, depth+1)
	case *ssa.Slice:
		return traceRoot(x.X, fn, depth+1)
	case *ssa.UnOp:
		if x.Op == token.MUL {
			return traceRoot(x.X, fn, depth+1)
		}
	case *ssa.ChangeType:
		return traceRoot(x.X, fn, depth+1)
	case *ssa.Convert:
		return traceRoot(x.X, fn, depth+1)
	case *ssa.TypeAssert:
		return traceRoot(x.X, fn, depth+1)
	case *ssa.Phi:
		// a value chosen among several (one of three tables, say): a shared root among the choices is the root
		best := root{param: -1}
		for _, e := range x.Edges {
			if e == v {
				continue
			}
			r := traceRoot(e, fn, depth+10)
			if r.global != "" {
				return r
			}
			if r.param >= 0 && best.param < 0 {
				best = r
			}
		}
		return best
	case *ssa.Extract:
		if ta, ok := x.Tuple.(*ssa.TypeAssert); ok {
			return traceRoot(ta.X, fn, depth+1)
		}
		if lk, ok := x.Tuple.(*ssa.Lookup); ok {
			return traceRoot(lk.X, fn, depth+1)
		}
	}
	return root{param: -1}
}

func main() {
	dir := "/repo"
	if len(os.Args) > 1 {
		dir = os.Args[1]
	}
	var flags []string
	if len(os.Args) > 2 && os.Args[2] != "" {
		flags = []string{"-tags=" + os.Args[2]}
	}
	cfg := &packages.Config{Mode: packages.LoadAllSyntax, Dir: dir, BuildFlags: flags}
	pkgs, err := packages.Load(cfg, ".")
	if err != nil || packages.PrintErrors(pkgs) > 0 {
		fmt.Fprintln(os.Stderr, "load failed", err)
		os.Exit(2)
	}
	prog, spkgs := ssautil.AllPackages(pkgs, ssa.InstantiateGenerics)
	prog.Build()
	pkg := spkgs[0]
	inPkg := func(f *ssa.Function) bool { return f != nil && f.Package() == pkg }

	fns := map[*ssa.Function]bool{}
	for f := range ssautil.AllFunctions(prog) {
		if inPkg(f) {
			fns[f] = true
		}
	}
	direct := map[*ssa.Function]*effects{}
	type call struct {
		callee *ssa.Function
		args   []root
	}
	calls := map[*ssa.Function][]call{}
	cg := cha.CallGraph(prog)
	dyn := map[*ssa.Function]map[*ssa.Function]bool{}
	for f := range fns {
		if n := cg.Nodes[f]; n != nil {
			for _, e := range n.Out {
				if inPkg(e.Callee.Func) {
					if dyn[f] == nil {
						dyn[f] = map[*ssa.Function]bool{}
					}
					dyn[f][e.Callee.Func] = true
				}
			}
		}
	}
	_ = callgraph.GraphVisitEdges
	for f := range fns {
		e := newEffects()
		direct[f] = e
		for _, b := range f.Blocks {
			for _, ins := range b.Instrs {
				switch x := ins.(type) {
				case *ssa.Store:
					r := traceRoot(x.Addr, f, 0)
					if r.global != "" {
						e.GlobalWrites[r.global] = true
					} else if r.param >= 0 {
						e.ParamWrites[r.param] = true
					}
				case *ssa.MapUpdate:
					r := traceRoot(x.Map, f, 0)
					if r.global != "" {
						e.GlobalWrites[r.global] = true
					} else if r.param >= 0 {
						e.ParamWrites[r.param] = true
					}
				case *ssa.UnOp:
					if x.Op == token.MUL {
						if g, ok := x.X.(*ssa.Global); ok && g.Pkg == pkg {
							e.GlobalReads[g.Name()] = true
						}
					}
				case ssa.CallInstruction:
					cc := x.Common()
					// the builtins that write through their first argument
					if b, ok := cc.Value.(*ssa.Builtin); ok && len(cc.Args) > 0 {
						switch b.Name() {
						case "delete", "copy", "clear":
							r := traceRoot(cc.Args[0], f, 0)
							if r.global != "" {
								e.GlobalWrites[r.global] = true
							} else if r.param >= 0 {
								e.ParamWrites[r.param] = true
							}
						}
					}
					if callee := cc.StaticCallee(); inPkg(callee) {
						var args []root
						for _, a := range cc.Args {
							args = append(args, traceRoot(a, f, 0))
						}
						calls[f] = append(calls[f], call{callee, args})
					}
					// a global passed by address counts as read
					for _, a := range cc.Args {
						if r := traceRoot(a, f, 0); r.global != "" {
							e.GlobalReads[r.global] = true
						}
					}
				}
				// any operand that is a global address taken (e.g. &tokens[i]) counts as a read
				for _, op := range ins.Operands(nil) {
					if g, ok := (*op).(*ssa.Global); ok && g.Pkg == pkg {
						if _, isStore := ins.(*ssa.Store); !isStore || ins.(*ssa.Store).Addr != *op {
							e.GlobalReads[g.Name()] = true
						}
					}
				}
			}
		}
		// anonymous functions: their effects belong to the enclosing function too
	}
	// transitive closure
	total := map[*ssa.Function]*effects{}
	for f := range fns {
		t := newEffects()
		for k := range direct[f].GlobalReads {
			t.GlobalReads[k] = true
		}
		for k := range direct[f].GlobalWrites {
			t.GlobalWrites[k] = true
		}
		for k := range direct[f].ParamWrites {
			t.ParamWrites[k] = true
		}
		total[f] = t
	}
	for changed := true; changed; {
		changed = false
		for f := range fns {
			t := total[f]
			add := func(m map[string]bool, k string) {
				if !m[k] {
					m[k] = true
					changed = true
				}
			}
			merge := func(g *ssa.Function) {
				for k := range total[g].GlobalReads {
					add(t.GlobalReads, k)
				}
				for k := range total[g].GlobalWrites {
					add(t.GlobalWrites, k)
				}
			}
			for g := range dyn[f] {
				merge(g)
			}
			for _, an := range f.AnonFuncs {
				merge(an)
			}
			for _, c := range calls[f] {
				merge(c.callee)
				for i, a := range c.args {
					if total[c.callee].ParamWrites[i] {
						if a.global != "" {
							add(t.GlobalWrites, a.global)
						} else if a.param >= 0 && !t.ParamWrites[a.param] {
							t.ParamWrites[a.param] = true
							changed = true
						}
					}
				}
			}
		}
	}
	type entry struct {
		Name         string   `json:"name"`
		GlobalReads  []string `json:"global_reads"`
		GlobalWrites []string `json:"global_writes"`
		ParamWrites  []int    `json:"param_writes"`
		IsInit       bool     `json:"is_init"`
	}
	var out []entry
	keys := func(m map[string]bool) []string {
		r := []string{}
		for k := range m {
			r = append(r, k)
		}
		sort.Strings(r)
		return r
	}
	for f := range fns {
		if f.Parent() != nil {
			continue
		}
		name := f.RelString(pkg.Pkg)
		if f.Synthetic != "" && !strings.HasPrefix(name, "init") {
			continue
		}
		var pw []int
		for k := range total[f].ParamWrites {
			// only pointer-like parameters matter: writing a by-value struct parameter is local
			if k < len(f.Params) {
				switch f.Params[k].Type().Underlying().(type) {
				case *types.Pointer, *types.Slice, *types.Map, *types.Interface:
					pw = append(pw, k)
				}
			}
		}
		sort.Ints(pw)
		if pw == nil {
			pw = []int{}
		}
		out = append(out, entry{name, keys(total[f].GlobalReads), keys(total[f].GlobalWrites), pw, strings.HasPrefix(name, "init")})
	}
	sort.Slice(out, func(i, j int) bool { return out[i].Name < out[j].Name })
	enc := json.NewEncoder(os.Stdout)
	enc.SetIndent("", " ")
	enc.Encode(out)
}
