package main

// C17 workload: the package built as it ships (no verif tag), optionally with the race detector.
// Phase 1 computes every operation's result alone; phase 2 runs the same operations from many
// goroutines at once - on private inputs and on shared ASTs - and compares each result with its
// sequential twin; phase 3 checks that the shared ASTs are bit-for-bit what they were.

import (
	"bufio"
	"encoding/json"
	"errors"
	"flag"
	"fmt"
	"os"
	"reflect"
	"runtime"
	"sort"
	"strings"
	"sync"
	"time"

	"github.com/influxdata/influxql"
)

type rng struct{ s uint64 }

func (r *rng) next() uint64 {
	r.s += 0x9E3779B97F4A7C15
	z := r.s
	z = (z ^ (z >> 30)) * 0xBF58476D1CE4E5B9
	z = (z ^ (z >> 27)) * 0x94D049BB133111EB
	return z ^ (z >> 31)
}
func (r *rng) intn(n int) int { return int(r.next() % uint64(n)) }

type mapper struct{}

// the maps of a schema cache: handed out by reference, shared by every goroutine, never to be written by the library
var sharedFields = map[string]influxql.DataType{"value": influxql.Float, "v1": influxql.Integer, "usage": influxql.Unsigned, "s": influxql.String}
var sharedDims = map[string]struct{}{"host": {}, "region": {}}

type cachingMapper struct{ mapper }

func (cachingMapper) FieldDimensions(m *influxql.Measurement) (map[string]influxql.DataType, map[string]struct{}, error) {
	if m.Name == "bad" {
		return nil, nil, errors.New("no schema")
	}
	return sharedFields, sharedDims, nil
}

func (mapper) FieldDimensions(m *influxql.Measurement) (map[string]influxql.DataType, map[string]struct{}, error) {
	if m.Name == "bad" {
		return nil, nil, errors.New("no schema")
	}
	return map[string]influxql.DataType{"value": influxql.Float, "v1": influxql.Integer, "usage": influxql.Unsigned, "s": influxql.String},
		map[string]struct{}{"host": {}, "region": {}}, nil
}
func (mapper) MapType(m *influxql.Measurement, f string) influxql.DataType {
	switch f {
	case "value":
		return influxql.Float
	case "v1":
		return influxql.Integer
	case "usage":
		return influxql.Unsigned
	case "s":
		return influxql.String
	case "host", "region":
		return influxql.Tag
	}
	return influxql.Unknown
}

func safe(f func() string) (s string) {
	defer func() {
		if r := recover(); r != nil {
			s = fmt.Sprint("panic: ", r)
		}
	}()
	return f()
}

var now = time.Unix(1700000000, 0).UTC()
var env = map[string]interface{}{"host": "a", "region": "b", "value": 2.5, "v1": int64(3), "usage": uint64(4), "s": "x"}

// operations on a text (independent use)
var textOps = []struct {
	name string
	fn   func(s string) string
}{
	{"ParseQuery+String", func(s string) string {
		q, err := influxql.ParseQuery(s)
		if err != nil {
			return "error: " + err.Error()
		}
		return q.String()
	}},
	{"ParseStatement+String", func(s string) string {
		st, err := influxql.ParseStatement(s)
		if err != nil {
			return "error: " + err.Error()
		}
		return st.String()
	}},
	{"ParseExpr", func(s string) string {
		if i := strings.Index(s, " WHERE "); i >= 0 {
			s = s[i+7:]
		}
		e, err := influxql.ParseExpr(s)
		if err != nil {
			return "error: " + err.Error()
		}
		return e.String()
	}},
	{"Scanner", func(s string) string {
		sc := influxql.NewScanner(strings.NewReader(s))
		var b strings.Builder
		for i := 0; i < 10000; i++ {
			tok, pos, lit := sc.Scan()
			fmt.Fprintf(&b, "%d:%d:%d:%s|", tok, pos.Line, pos.Char, lit)
			if tok == influxql.EOF {
				break
			}
		}
		return b.String()
	}},
	{"QuoteIdent", func(s string) string { return influxql.QuoteIdent(strings.Fields(s + " x")...) }},
	// a list of segments that every goroutine passes on as it is: the callee only reads what it is handed
	{"QuoteIdent(shared list)", func(s string) string {
		segs := sharedSegments[len(s)%len(sharedSegments)]
		for _, g := range segs {
			if len(g) > 64 {
				return "the shared list has been written to: a segment is " + fmt.Sprint(len(g)) + " bytes long"
			}
		}
		return influxql.QuoteIdent(segs...) + " <- " + strings.Join(segs, "\x00")
	}},
	{"QuoteString", func(s string) string { return influxql.QuoteString(s) }},
	{"IdentNeedsQuotes", func(s string) string {
		var b strings.Builder
		for _, w := range strings.Fields(s) {
			fmt.Fprint(&b, influxql.IdentNeedsQuotes(w), influxql.Lookup(w), ",")
		}
		return b.String()
	}},
	{"Sanitize", func(s string) string { return influxql.Sanitize(s) }},
	{"Duration", func(s string) string {
		d := time.Duration(len(s)) * 1500 * time.Millisecond * time.Duration(1+len(s)%7)
		f := influxql.FormatDuration(d)
		back, err := influxql.ParseDuration(f)
		return fmt.Sprint(f, back, err)
	}},
}

var sharedSegments = [][]string{{"my db", "rp", "m x"}, {"select", "a\"b", ""}, {"plain"}, {"db", "", "cpu load"}, {"a", "b"}}

// read-only operations on a shared statement
var astOps = []struct {
	name string
	fn   func(q *influxql.SelectStatement) string
}{
	{"String", func(q *influxql.SelectStatement) string { return q.String() }},
	{"Clone", func(q *influxql.SelectStatement) string { return q.Clone().String() }},
	{"Walk", func(q *influxql.SelectStatement) string {
		var b strings.Builder
		influxql.WalkFunc(q, func(n influxql.Node) {
			switch n := n.(type) {
			case *influxql.VarRef:
				b.WriteString(n.Val + ",")
			case *influxql.Call:
				b.WriteString(n.Name + "(),")
			}
		})
		return b.String()
	}},
	{"Eval", func(q *influxql.SelectStatement) string {
		if q.Condition == nil {
			return "nil"
		}
		return fmt.Sprint(influxql.Eval(q.Condition, env), influxql.EvalBool(q.Condition, env))
	}},
	{"ReduceExpr", func(q *influxql.SelectStatement) string {
		if q.Condition == nil {
			return "nil"
		}
		return influxql.Reduce(q.Condition, &influxql.NowValuer{Now: now}).String()
	}},
	{"Statement.Reduce", func(q *influxql.SelectStatement) string {
		return q.Reduce(&influxql.NowValuer{Now: now}).String()
	}},
	{"RewriteFields(shared schema maps)", func(q *influxql.SelectStatement) string {
		r, err := q.RewriteFields(cachingMapper{})
		if err != nil {
			return "error:" + err.Error()
		}
		return r.String()
	}},
	{"RewriteFields", func(q *influxql.SelectStatement) string {
		r, err := q.RewriteFields(mapper{})
		if err != nil {
			return "error: " + err.Error()
		}
		return r.String()
	}},
	{"ColumnNames", func(q *influxql.SelectStatement) string { return strings.Join(q.ColumnNames(), ",") }},
	{"RequiredPrivileges", func(q *influxql.SelectStatement) string {
		p, err := q.RequiredPrivileges()
		return fmt.Sprint(p, err)
	}},
	{"ConditionExpr", func(q *influxql.SelectStatement) string {
		c, tr, err := influxql.ConditionExpr(q.Condition, &influxql.NowValuer{Now: now})
		return fmt.Sprint(c, tr.Min, tr.Max, err)
	}},
	{"Names", func(q *influxql.SelectStatement) string {
		return fmt.Sprint(influxql.ExprNames(q.Condition), q.HasWildcard(), q.TimeAscending(), q.TimeFieldName(), influxql.HasTimeExpr(q.Condition), q.Sources.String())
	}},
	{"EvalType", func(q *influxql.SelectStatement) string {
		var b strings.Builder
		for _, f := range q.Fields {
			fmt.Fprint(&b, influxql.EvalType(f.Expr, q.Sources, mapper{}), ",")
		}
		return b.String()
	}},
}

// snapshot: every node reachable from v with its address and scalar contents, unexported fields included
func snapshot(v interface{}) string {
	var b strings.Builder
	seen := map[uintptr]bool{}
	var walk func(v reflect.Value, depth int)
	walk = func(v reflect.Value, depth int) {
		if depth > 200 {
			return
		}
		switch v.Kind() {
		case reflect.Ptr:
			if v.IsNil() {
				b.WriteString("nil;")
				return
			}
			if v.Type().String() == "*regexp.Regexp" || v.Type().String() == "*time.Location" {
				fmt.Fprintf(&b, "%s@%x;", v.Type(), v.Pointer())
				return
			}
			fmt.Fprintf(&b, "%s@%x{", v.Type(), v.Pointer())
			if !seen[v.Pointer()] {
				seen[v.Pointer()] = true
				walk(v.Elem(), depth+1)
			}
			b.WriteString("}")
		case reflect.Interface:
			if v.IsNil() {
				b.WriteString("nil;")
				return
			}
			walk(v.Elem(), depth+1)
		case reflect.Struct:
			if v.Type().String() == "time.Time" {
				b.WriteString("time;")
				return
			}
			for i := 0; i < v.NumField(); i++ {
				b.WriteString(v.Type().Field(i).Name + "=")
				walk(v.Field(i), depth+1)
			}
		case reflect.Slice:
			if v.IsNil() {
				b.WriteString("nilslice;")
				return
			}
			fmt.Fprintf(&b, "[%d@%x:", v.Len(), v.Pointer())
			for i := 0; i < v.Len(); i++ {
				walk(v.Index(i), depth+1)
			}
			b.WriteString("]")
		case reflect.Map:
			fmt.Fprintf(&b, "map%d;", v.Len())
		case reflect.String:
			fmt.Fprintf(&b, "%q;", v.String())
		case reflect.Bool:
			fmt.Fprintf(&b, "%v;", v.Bool())
		case reflect.Int, reflect.Int8, reflect.Int16, reflect.Int32, reflect.Int64:
			fmt.Fprintf(&b, "%d;", v.Int())
		case reflect.Uint, reflect.Uint8, reflect.Uint16, reflect.Uint32, reflect.Uint64:
			fmt.Fprintf(&b, "%d;", v.Uint())
		case reflect.Float32, reflect.Float64:
			fmt.Fprintf(&b, "%v;", v.Float())
		default:
			fmt.Fprintf(&b, "%s;", v.Kind())
		}
	}
	walk(reflect.ValueOf(v), 0)
	return b.String()
}

// operations on a shared statement of any kind
var stmtOps = []struct {
	name string
	fn   func(st influxql.Statement) string
}{
	{"Statement.String", func(st influxql.Statement) string { return st.String() }},
	{"Statement.RequiredPrivileges", func(st influxql.Statement) string {
		ps, err := st.RequiredPrivileges()
		return fmt.Sprint(ps, err)
	}},
	{"WalkFunc(statement)", func(st influxql.Statement) string {
		n := 0
		influxql.WalkFunc(st, func(influxql.Node) { n++ })
		return fmt.Sprint(n)
	}},
}

type failure struct {
	Kind   string `json:"kind"`
	Op     string `json:"op"`
	Input  string `json:"input"`
	Alone  string `json:"alone"`
	Shared string `json:"concurrent"`
}

func main() {
	corpus := flag.String("corpus", "", "file with one statement per line")
	seed := flag.Uint64("seed", 1, "seed")
	goroutines := flag.Int("goroutines", 16, "goroutines")
	iters := flag.Int("iters", 300, "operations per goroutine")
	control := flag.Bool("control", false, "positive control: call SetTimeRange (a mutator) on the shared statements too")
	flag.Parse()
	// watchdog: a workload whose memory keeps growing (an input that is written to and grows with every call) is ended
	// with a report instead of taking the machine down
	go func() {
		var m runtime.MemStats
		for {
			time.Sleep(100 * time.Millisecond)
			runtime.ReadMemStats(&m)
			if m.HeapAlloc > 1<<30 {
				fmt.Fprintln(os.Stderr, "the workload's heap passed 1 GB: some result or shared input grows with every call")
				os.Exit(3)
			}
		}
	}()
	var texts []string
	f, err := os.Open(*corpus)
	if err != nil {
		fmt.Fprintln(os.Stderr, err)
		os.Exit(2)
	}
	sc := bufio.NewScanner(f)
	sc.Buffer(make([]byte, 1<<20), 1<<20)
	for sc.Scan() {
		if t := sc.Text(); t != "" {
			texts = append(texts, t)
		}
	}
	f.Close()
	// the shared ASTs
	var shared []*influxql.SelectStatement
	var sharedText []string
	for _, t := range texts {
		if st, err := influxql.ParseStatement(t); err == nil {
			if q, ok := st.(*influxql.SelectStatement); ok && len(shared) < 40 {
				shared = append(shared, q)
				sharedText = append(sharedText, t)
			}
		}
	}
	// shared statements of the other kinds
	var sharedStmts []influxql.Statement
	var sharedStmtText []string
	for _, t := range texts {
		if st, err := influxql.ParseStatement(t); err == nil {
			if _, ok := st.(*influxql.SelectStatement); !ok && len(sharedStmts) < 60 {
				sharedStmts = append(sharedStmts, st)
				sharedStmtText = append(sharedStmtText, t)
			}
		}
	}
	var fails []failure
	var mu sync.Mutex
	addFail := func(fl failure) {
		mu.Lock()
		if len(fails) < 20 {
			fails = append(fails, fl)
		}
		mu.Unlock()
	}
	// phase 1: alone; and read-only use leaves the AST as it was
	before := make([]string, len(shared))
	for i, q := range shared {
		before[i] = snapshot(q)
	}
	aloneText := make([][]string, len(textOps))
	for k, op := range textOps {
		aloneText[k] = make([]string, len(texts))
		for i, t := range texts {
			aloneText[k][i] = safe(func() string { return op.fn(t) })
		}
	}
	aloneAst := make([][]string, len(astOps))
	for k, op := range astOps {
		aloneAst[k] = make([]string, len(shared))
		for i, q := range shared {
			aloneAst[k][i] = safe(func() string { return op.fn(q) })
			if s := snapshot(q); s != before[i] {
				addFail(failure{Kind: "read-only operation changed the AST (alone)", Op: op.name, Input: sharedText[i]})
				before[i] = s
			}
		}
	}
	beforeStmt := make([]string, len(sharedStmts))
	for i, st := range sharedStmts {
		beforeStmt[i] = snapshot(st)
	}
	aloneStmt := make([][]string, len(stmtOps))
	for k, op := range stmtOps {
		aloneStmt[k] = make([]string, len(sharedStmts))
		for i, st := range sharedStmts {
			aloneStmt[k][i] = safe(func() string { return op.fn(st) })
			if s := snapshot(st); s != beforeStmt[i] {
				addFail(failure{Kind: "read-only operation changed the statement (alone)", Op: op.name, Input: sharedStmtText[i]})
				beforeStmt[i] = s
			}
		}
	}
	// phase 2: all at once
	total := 0
	rounds := []int{1, 2, runtime.NumCPU()}
	for _, procs := range rounds {
		runtime.GOMAXPROCS(procs)
		var wg sync.WaitGroup
		start := make(chan struct{})
		for g := 0; g < *goroutines; g++ {
			wg.Add(1)
			r := &rng{s: *seed*1000003 + uint64(g)*7919 + uint64(procs)}
			go func() {
				defer wg.Done()
				<-start
				for it := 0; it < *iters; it++ {
					if r.intn(6) == 0 && len(sharedStmts) > 0 {
						k, i := r.intn(len(stmtOps)), r.intn(len(sharedStmts))
						got := safe(func() string { return stmtOps[k].fn(sharedStmts[i]) })
						if got != aloneStmt[k][i] {
							addFail(failure{"result differs from the same call made alone", stmtOps[k].name, sharedStmtText[i], aloneStmt[k][i], got})
						}
					} else if r.intn(3) == 0 && len(shared) > 0 {
						k, i := r.intn(len(astOps)), r.intn(len(shared))
						got := safe(func() string { return astOps[k].fn(shared[i]) })
						if got != aloneAst[k][i] {
							addFail(failure{"result differs from the same call made alone", astOps[k].name, sharedText[i], aloneAst[k][i], got})
						}
						if *control && r.intn(4) == 0 {
							shared[i].SetTimeRange(now, now.Add(time.Duration(it)*time.Second))
						}
					} else {
						k, i := r.intn(len(textOps)), r.intn(len(texts))
						got := safe(func() string { return textOps[k].fn(texts[i]) })
						if got != aloneText[k][i] {
							addFail(failure{"result differs from the same call made alone", textOps[k].name, texts[i], aloneText[k][i], got})
						}
					}
					if r.intn(8) == 0 {
						runtime.Gosched()
					}
				}
			}()
		}
		close(start)
		wg.Wait()
		total += *goroutines * *iters
	}
	// phase 3: the shared ASTs are what they were
	if !*control {
		for i, st := range sharedStmts {
			if snapshot(st) != beforeStmt[i] {
				addFail(failure{Kind: "shared statement changed during concurrent read-only use", Input: sharedStmtText[i]})
			}
		}
		for i, q := range shared {
			if snapshot(q) != before[i] {
				addFail(failure{Kind: "shared AST changed during concurrent read-only use", Input: sharedText[i]})
			}
		}
	}
	sort.Slice(fails, func(i, j int) bool { return fails[i].Op+fails[i].Input < fails[j].Op+fails[j].Input })
	out := map[string]interface{}{"operations": total, "texts": len(texts), "shared_asts": len(shared), "text_ops": len(textOps), "ast_ops": len(astOps),
		"goroutines": *goroutines, "gomaxprocs_rounds": rounds, "failures": fails}
	json.NewEncoder(os.Stdout).Encode(out)
}
