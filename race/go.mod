module verifrace

go 1.21

require github.com/influxdata/influxql v0.0.0

require google.golang.org/protobuf v1.33.0 // indirect

replace github.com/influxdata/influxql => /repo
