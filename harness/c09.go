package main

import (
	"fmt"
	"math"
	"math/big"
	"regexp"
	"sort"
	"strings"
	"time"

	"github.com/influxdata/influxql"
)

// C09: constant folding never changes the value of an expression.

func valueSexp(v interface{}) string {
	var b sb
	switch v := v.(type) {
	case nil:
		b.WriteString("(0)")
	case bool:
		b.open(); b.atom(1); b.sp(); b.boolean(v); b.close()
	case float64:
		b.open(); b.atom(2); b.sp(); b.uatom(floatBits(v)); b.close()
	case int64:
		b.open(); b.atom(3); b.sp(); b.atom(v); b.close()
	case uint64:
		b.open(); b.atom(4); b.sp(); b.uatom(v); b.close()
	case string:
		b.open(); b.atom(5); b.sp(); b.text(v); b.close()
	case *regexp.Regexp:
		b.open(); b.atom(6); b.sp(); b.text(v.String()); b.close()
	case time.Time:
		b.open(); b.atom(7); b.sp(); b.WriteString(timeNanosString(v)); b.close()
	case time.Duration:
		b.open(); b.atom(8); b.sp(); b.atom(int64(v)); b.close()
	default:
		b.WriteString("(-9)")
	}
	return b.String()
}

func envSexp(m map[string]interface{}) string {
	keys := make([]string, 0, len(m))
	for k := range m {
		keys = append(keys, k)
	}
	sort.Strings(keys)
	var b sb
	b.open()
	for i, k := range keys {
		if i > 0 {
			b.sp()
		}
		b.open(); b.text(k); b.sp(); b.WriteString(valueSexp(m[k])); b.close()
	}
	b.close()
	return b.String()
}

// semOracles: the answers of time parsing and regexp matching for everything this case can consult
func semOracles(e influxql.Expr, envs ...map[string]interface{}) (tbl string, usesOracle bool) {
	strs := map[string]bool{}
	res := map[string]bool{}
	floats := false
	influxql.WalkFunc(e, func(n influxql.Node) {
		switch n := n.(type) {
		case *influxql.StringLiteral:
			strs[n.Val] = true
		case *influxql.RegexLiteral:
			res[n.Val.String()] = true
		case *influxql.NumberLiteral:
			floats = true
		case *influxql.BinaryExpr:
			if n.Op == influxql.DIV {
				floats = true
			}
		}
	})
	for _, m := range envs {
		for _, v := range m {
			switch v := v.(type) {
			case string:
				strs[v] = true
			case float64:
				floats = true
			}
		}
	}
	var b sb
	b.open()
	first := true
	ss := make([]string, 0, len(strs))
	for s := range strs {
		ss = append(ss, s)
	}
	sort.Strings(ss)
	for _, s := range ss {
		t, err := (&influxql.StringLiteral{Val: s}).ToTimeLiteral(time.UTC)
		if err == nil {
			if !first {
				b.sp()
			}
			first = false
			b.open(); b.atom(3); b.sp(); b.text(s); b.sp(); b.open(); b.atom(1); b.sp(); b.WriteString(timeNanosString(t.Val)); b.close(); b.close()
		}
		for p := range res {
			if regexp.MustCompile(p).MatchString(s) {
				if !first {
					b.sp()
				}
				first = false
				b.open(); b.atom(4); b.sp(); b.text(p); b.sp(); b.text(s); b.sp(); b.boolean(true); b.close()
			}
		}
	}
	b.close()
	return b.String(), floats || !first
}

func withSemOracles(req string, e influxql.Expr, envs ...map[string]interface{}) (string, bool) {
	t, uses := semOracles(e, envs...)
	if t == "()" {
		return req, uses
	}
	return "(0 " + t + " " + req + ")", true
}

func sameValue(a, b interface{}) bool { return valueSexp(a) == valueSexp(b) }

func evalIFD(e influxql.Expr, m map[string]interface{}) (v interface{}, pn interface{}) {
	defer func() { pn = recover() }()
	ev := influxql.ValuerEval{Valuer: influxql.MapValuer(m), IntegerFloatDivision: true}
	return ev.Eval(e), nil
}

func reduceWith(e influxql.Expr, m map[string]interface{}) (r influxql.Expr, pn interface{}) {
	defer func() { pn = recover() }()
	var v influxql.Valuer
	if m != nil {
		v = influxql.MapValuer(m)
	}
	return influxql.Reduce(e, v), nil
}

func isDateLike(s string) bool { return (&influxql.StringLiteral{Val: s}).IsTimeLiteral() }

// datelikeCompared: some =/!= whose operands are both strings (literal or bound) that look like dates
func datelikeCompared(e influxql.Expr, all map[string]interface{}) bool {
	found := false
	str := func(x influxql.Expr) (string, bool) {
		for {
			if p, ok := x.(*influxql.ParenExpr); ok {
				x = p.Expr
				continue
			}
			break
		}
		switch x := x.(type) {
		case *influxql.StringLiteral:
			return x.Val, true
		case *influxql.VarRef:
			if s, ok := all[x.Val].(string); ok {
				return s, true
			}
		}
		return "", false
	}
	influxql.WalkFunc(e, func(n influxql.Node) {
		if be, ok := n.(*influxql.BinaryExpr); ok && (be.Op == influxql.EQ || be.Op == influxql.NEQ) {
			a, ok1 := str(be.LHS)
			b, ok2 := str(be.RHS)
			if ok1 && ok2 && isDateLike(a) && isDateLike(b) {
				found = true
			}
		}
	})
	return found
}

// c09One: e under the split (rho1 for Reduce, rho2 for the evaluator)
func c09One(o *out, e influxql.Expr, rho1, rho2 map[string]interface{}, tag string) {
	o.count(tag)
	all := map[string]interface{}{}
	for k, v := range rho2 {
		all[k] = v
	}
	for k, v := range rho1 {
		all[k] = v
	}
	text := e.String()
	rp := map[string]interface{}{"op": "reduce_eval", "text": text, "rho1": fmt.Sprintf("%#v", rho1), "rho2": fmt.Sprintf("%#v", rho2), "expr": exprSexp(e)}
	before := exprSexp(e)
	r, pn := reduceWith(e, rho1)
	o.checked()
	if pn != nil {
		o.fail("", fmt.Sprintf("Reduce(%s, %v) panics: %v", text, rho1, pn), rp)
		return
	}
	req, uses := withSemOracles("(16 "+envSexp(rho1)+" (0) "+before+")", e, rho1)
	o.addCaseVM(req, exprSexp(r), "Reduce "+text, !uses)
	v2, pn2 := evalIFD(e, all)
	if pn2 != nil {
		o.fail("", fmt.Sprintf("Eval(%s) panics: %v", text, pn2), rp)
		return
	}
	req, uses = withSemOracles("(17 1 "+envSexp(all)+" "+before+")", e, all)
	o.addCaseVM(req, valueSexp(v2), "Eval "+text, !uses)
	v1, pn1 := evalIFD(r, rho2)
	if pn1 != nil {
		o.fail("", fmt.Sprintf("Eval(Reduce(%s)) panics: %v", text, pn1), rp)
		return
	}
	if exprSexp(e) != before {
		o.fail("", fmt.Sprintf("Reduce or Eval modified its argument %s", text), rp)
	}
	if !sameValue(v1, v2) {
		class := ""
		if datelikeCompared(e, all) {
			class = "C09-datelike-strings"
		}
		o.fail(class, fmt.Sprintf("Eval(Reduce(%s, %v), %v) = %v but Eval(%s, all) = %v", text, rho1, rho2, v1, text, v2), rp)
	}
	// the stated convention: division or modulo by zero is zero, for every numeric kind
	if b, ok := e.(*influxql.BinaryExpr); ok && (b.Op == influxql.DIV || b.Op == influxql.MOD) {
		num := func(x influxql.Expr) (float64, bool, bool) { // value, is float, known
			var v interface{}
			switch x := x.(type) {
			case *influxql.VarRef:
				v = all[x.Val]
			case *influxql.IntegerLiteral:
				v = x.Val
			case *influxql.UnsignedLiteral:
				v = x.Val
			case *influxql.NumberLiteral:
				v = x.Val
			}
			switch v := v.(type) {
			case int64:
				return float64(v), false, true
			case uint64:
				return float64(v), false, true
			case float64:
				return v, true, true
			}
			return 0, false, false
		}
		lv, lf, lok := num(b.LHS)
		rv, rf, rok := num(b.RHS)
		if lok && rok && rv == 0 && !math.IsNaN(lv) {
			isZero := func(v interface{}) bool {
				switch v := v.(type) {
				case int64:
					return v == 0
				case uint64:
					return v == 0
				case float64:
					return v == 0
				}
				return false
			}
			o.checked()
			if !isZero(v2) || !isZero(v1) {
				class := ""
				if b.Op == influxql.MOD && (lf || rf) {
					class = "C09-float-mod-zero"
				}
				o.fail(class, fmt.Sprintf("%s with a zero right operand evaluates to %v (after Reduce: %v), not to zero", text, v2, v1), rp)
			}
		}
	}
	// idempotence
	r2, pn3 := reduceWith(r, rho1)
	if pn3 != nil {
		o.fail("", fmt.Sprintf("Reduce(Reduce(%s)) panics: %v", text, pn3), rp)
	} else if exprSexp(r2) != exprSexp(r) {
		o.fail("", fmt.Sprintf("Reduce is not idempotent on %s: %s then %s", text, r.String(), r2.String()), rp)
	}
}

var c09Ops = []influxql.Token{influxql.ADD, influxql.SUB, influxql.MUL, influxql.DIV, influxql.MOD, influxql.BITWISE_AND, influxql.BITWISE_OR, influxql.BITWISE_XOR,
	influxql.AND, influxql.OR, influxql.EQ, influxql.NEQ, influxql.EQREGEX, influxql.NEQREGEX, influxql.LT, influxql.LTE, influxql.GT, influxql.GTE}

var c09Bools = []interface{}{true, false}
var c09Ints = []interface{}{int64(0), int64(1), int64(-1), int64(7), int64(-7), int64(math.MaxInt64), int64(math.MinInt64), int64(1) << 53}
var c09Uints = []interface{}{uint64(0), uint64(1), uint64(7), uint64(math.MaxInt64), uint64(1) << 63, uint64(math.MaxUint64), uint64(1)<<63 + 1, uint64(1) << 53}
var c09Floats = []interface{}{float64(0), math.Copysign(0, -1), float64(1.5), float64(-2.25), float64(7), math.Inf(1), math.NaN(), float64(1 << 63)}
var c09Strs = []interface{}{"a", "b", "", "2000-01-01", "2000-01-01 00:00:00", "2000-01-01T00:00:00Z", "x y", "2000-13-45"}

func litOf(v interface{}) influxql.Expr {
	switch v := v.(type) {
	case bool:
		return &influxql.BooleanLiteral{Val: v}
	case int64:
		return &influxql.IntegerLiteral{Val: v}
	case uint64:
		return &influxql.UnsignedLiteral{Val: v}
	case float64:
		return &influxql.NumberLiteral{Val: v}
	case string:
		return &influxql.StringLiteral{Val: v}
	}
	return &influxql.NilLiteral{}
}

type tkind int

const (
	tBool tkind = iota
	tNum
	tStr
)

func wellTypedCell(op influxql.Token, a, b interface{}) bool {
	kind := func(v interface{}) tkind {
		switch v.(type) {
		case bool:
			return tBool
		case string:
			return tStr
		}
		return tNum
	}
	ka, kb := kind(a), kind(b)
	switch op {
	case influxql.AND, influxql.OR:
		return ka == tBool && kb == tBool
	case influxql.ADD, influxql.SUB, influxql.MUL, influxql.DIV, influxql.MOD, influxql.LT, influxql.LTE, influxql.GT, influxql.GTE:
		return ka == tNum && kb == tNum
	case influxql.BITWISE_AND, influxql.BITWISE_OR, influxql.BITWISE_XOR:
		return ka == kb && ka != tStr
	case influxql.EQ, influxql.NEQ:
		return ka == kb
	}
	return false
}

// typed random trees
type c09gen struct {
	r    *rng
	vars map[string]interface{}
}

func (g *c09gen) leaf(k tkind) influxql.Expr {
	var pool []interface{}
	switch k {
	case tBool:
		pool = c09Bools
	case tStr:
		pool = c09Strs[:3]
		if g.r.chance(1, 8) {
			pool = c09Strs
		}
	default:
		pool = pick(g.r, [][]interface{}{c09Ints, c09Uints, c09Floats})
	}
	v := pick(g.r, pool)
	if g.r.chance(1, 2) {
		name := fmt.Sprintf("v%d", len(g.vars))
		g.vars[name] = v
		return &influxql.VarRef{Val: name}
	}
	return litOf(v)
}

func (g *c09gen) tree(k tkind, depth int) influxql.Expr {
	if depth == 0 || g.r.chance(1, 4) {
		return g.leaf(k)
	}
	var e influxql.Expr
	switch k {
	case tBool:
		switch g.r.intn(5) {
		case 0:
			e = &influxql.BinaryExpr{Op: pick(g.r, []influxql.Token{influxql.AND, influxql.OR, influxql.EQ, influxql.NEQ, influxql.BITWISE_AND, influxql.BITWISE_OR, influxql.BITWISE_XOR}), LHS: g.tree(tBool, depth-1), RHS: g.tree(tBool, depth-1)}
		case 1, 2:
			e = &influxql.BinaryExpr{Op: pick(g.r, []influxql.Token{influxql.EQ, influxql.NEQ, influxql.LT, influxql.LTE, influxql.GT, influxql.GTE}), LHS: g.tree(tNum, depth-1), RHS: g.tree(tNum, depth-1)}
		case 3:
			e = &influxql.BinaryExpr{Op: pick(g.r, []influxql.Token{influxql.EQ, influxql.NEQ}), LHS: g.tree(tStr, depth-1), RHS: g.tree(tStr, depth-1)}
		default:
			e = &influxql.BinaryExpr{Op: pick(g.r, []influxql.Token{influxql.EQREGEX, influxql.NEQREGEX}), LHS: g.tree(tStr, depth-1), RHS: &influxql.RegexLiteral{Val: regexp.MustCompile(pick(g.r, []string{"^a", "b$", "", "x|y", "^2000"}))}}
		}
	case tNum:
		e = &influxql.BinaryExpr{Op: pick(g.r, []influxql.Token{influxql.ADD, influxql.SUB, influxql.MUL, influxql.DIV, influxql.MOD, influxql.BITWISE_AND, influxql.BITWISE_OR, influxql.BITWISE_XOR}), LHS: g.tree(tNum, depth-1), RHS: g.tree(tNum, depth-1)}
	default:
		return g.leaf(tStr)
	}
	if g.r.chance(1, 4) {
		e = &influxql.ParenExpr{Expr: e}
	}
	return e
}

func bigNanos(t time.Time) *big.Int {
	x := new(big.Int).Mul(big.NewInt(t.Unix()), big.NewInt(1e9))
	return x.Add(x, big.NewInt(int64(t.Nanosecond())))
}

// time arithmetic folds to the exact instant, duration or truth value
// c09Zones: a time string without a zone means the wall-clock time in the valuer's zone - in the zone of THIS fold,
// whatever zones earlier folds of the same string ran under
func c09Zones(o *out) {
	zones := []*time.Location{time.UTC, time.FixedZone("m5", -5*3600), time.FixedZone("p9", 9*3600), nil, time.FixedZone("p530", 5*3600+1800), time.UTC, time.FixedZone("m5", -5*3600)}
	strs := []struct{ s, layout string }{{"2019-03-07 12:34:56", "2006-01-02 15:04:05"}, {"2019-03-08", "2006-01-02"}, {"2000-01-01 00:00:00.5", "2006-01-02 15:04:05.999999999"}, {"1999-12-31 23:59:59", "2006-01-02 15:04:05"}}
	for pass := 0; pass < 2; pass++ {
		for _, z := range zones {
			for _, st := range strs {
				loc := z
				if loc == nil {
					loc = time.UTC
				}
				wall, err := time.ParseInLocation(st.layout, st.s, loc)
				must(err)
				for _, text := range []string{"'" + st.s + "' + 1h", "'" + st.s + "' - 90m", "time > '" + st.s + "' - 0s"} {
					e, err := influxql.ParseExpr(text)
					must(err)
					var red influxql.Expr
					pn := safely(func() { red = influxql.Reduce(e, &influxql.NowValuer{Now: time.Unix(0, 0), Location: z}) })
					o.count("zone")
					o.checked()
					var got time.Time
					ok := false
					influxql.WalkFunc(red, func(n influxql.Node) {
						if t, isT := n.(*influxql.TimeLiteral); isT {
							got, ok = t.Val, true
						}
					})
					want := wall.Add(time.Hour)
					if strings.Contains(text, "90m") {
						want = wall.Add(-90 * time.Minute)
					} else if strings.Contains(text, "0s") {
						want = wall
					}
					if pn != nil || !ok || !got.Equal(want) {
						o.fail("", fmt.Sprintf("Reduce(%s) in zone %v gives %v (%v), the wall-clock reading in that zone is %s", text, z, red, pn, want.UTC().Format(time.RFC3339Nano)),
							map[string]interface{}{"op": "reduce_zone", "text": text})
					}
				}
			}
		}
	}
}

func c09Time(o *out, r *rng, n int) {
	now := time.Unix(1700000000, 123456789).UTC()
	times := []string{now.Format(time.RFC3339Nano), "2000-01-01T00:00:00Z", "2000-01-01 00:00:00", "2000-01-01", "2000-01-01T00:00:00+02:00", "2000-06-01T12:30:00.5-07:00", "1999-12-31T23:00:00-01:00", "1970-01-01T00:00:00.000000001Z", "2262-04-11T23:47:16.854775807Z", "1677-09-21T00:12:43.145224192Z", "2020-02-29 12:34:56.789", "9999-12-31T23:59:59Z"}
	durs := []time.Duration{0, 1, -1, time.Second, -time.Hour, 90 * time.Minute, math.MaxInt64, math.MinInt64, 7 * 24 * time.Hour}
	valuer := &influxql.NowValuer{Now: now.In(time.FixedZone("X", 3*3600))}
	instant := func(s string) *big.Int {
		t, err := (&influxql.StringLiteral{Val: s}).ToTimeLiteral(time.UTC)
		must(err)
		return bigNanos(t.Val)
	}
	check := func(text string, want string) {
		e, err := influxql.ParseExpr(text)
		if err != nil {
			return
		}
		o.count("time")
		o.checked()
		rp := map[string]interface{}{"op": "reduce_time", "text": text, "want": want}
		var red influxql.Expr
		var pn interface{}
		func() {
			defer func() { pn = recover() }()
			red = influxql.Reduce(e, valuer)
		}()
		if pn != nil {
			o.fail("", fmt.Sprintf("Reduce(%s) panics: %v", text, pn), rp)
			return
		}
		req, _ := withSemOracles("(16 () (1 "+bigNanos(now).String()+") "+exprSexp(e)+")", e)
		o.addCaseVM(req, exprSexp(red), "Reduce(now) "+text, false)
		got := ""
		switch x := red.(type) {
		case *influxql.TimeLiteral:
			got = "t:" + bigNanos(x.Val).String()
		case *influxql.DurationLiteral:
			got = fmt.Sprintf("d:%d", int64(x.Val))
		case *influxql.BooleanLiteral:
			got = fmt.Sprintf("b:%v", x.Val)
		default:
			got = "unreduced:" + red.String()
		}
		if got != want {
			o.fail("", fmt.Sprintf("Reduce(%s) = %s, exact value is %s", text, got, want), rp)
		}
	}
	fmtDur := func(d time.Duration) (string, bool) {
		if d < 0 {
			if d == math.MinInt64 {
				return "", false
			}
			return "-" + influxql.FormatDuration(-d), true
		}
		return influxql.FormatDuration(d), true
	}
	for _, ts := range times {
		ti := instant(ts)
		for _, d := range durs {
			ds, ok := fmtDur(d)
			if !ok {
				continue
			}
			plus := new(big.Int).Add(ti, big.NewInt(int64(d)))
			minus := new(big.Int).Sub(ti, big.NewInt(int64(d)))
			check(fmt.Sprintf("'%s' + %s", ts, ds), "t:"+plus.String())
			check(fmt.Sprintf("'%s' - %s", ts, ds), "t:"+minus.String())
			check(fmt.Sprintf("%s + '%s'", ds, ts), "t:"+plus.String())
			np := new(big.Int).Add(bigNanos(now), big.NewInt(int64(d)))
			nm := new(big.Int).Sub(bigNanos(now), big.NewInt(int64(d)))
			check(fmt.Sprintf("now() + %s", ds), "t:"+np.String())
			check(fmt.Sprintf("now() - %s", ds), "t:"+nm.String())
		}
		// the same instant reached another way (integer nanoseconds plus a duration: a time in the local zone)
		if ti.IsInt64() {
			for _, d := range []time.Duration{0, time.Second, -time.Hour} {
				base := new(big.Int).Sub(ti, big.NewInt(int64(d)))
				ds, _ := fmtDur(d)
				if !base.IsInt64() || base.Sign() < 0 {
					continue
				}
				lhs := fmt.Sprintf("(%s + %s)", base.String(), ds)
				if d < 0 {
					lhs = fmt.Sprintf("(%s - %s)", base.String(), influxql.FormatDuration(-d))
				}
				for _, op := range []string{"<=", ">=", "=", "!=", "<", ">"} {
					want := map[string]bool{"<=": true, ">=": true, "=": true, "!=": false, "<": false, ">": false}[op]
					check(fmt.Sprintf("%s %s '%s'", lhs, op, ts), fmt.Sprintf("b:%v", want))
					check(fmt.Sprintf("'%s' %s %s", ts, op, lhs), fmt.Sprintf("b:%v", want))
				}
			}
		}
		for _, ts2 := range times {
			t2 := instant(ts2)
			diff := new(big.Int).Sub(ti, t2)
			if diff.IsInt64() {
				check(fmt.Sprintf("'%s' - '%s'", ts, ts2), "d:"+diff.String())
			}
			c := ti.Cmp(t2)
			check(fmt.Sprintf("'%s' < '%s'", ts, ts2), fmt.Sprintf("b:%v", c < 0))
			check(fmt.Sprintf("'%s' <= '%s'", ts, ts2), fmt.Sprintf("b:%v", c <= 0))
			check(fmt.Sprintf("'%s' > '%s'", ts, ts2), fmt.Sprintf("b:%v", c > 0))
			check(fmt.Sprintf("'%s' >= '%s'", ts, ts2), fmt.Sprintf("b:%v", c >= 0))
			check(fmt.Sprintf("'%s' = '%s'", ts, ts2), fmt.Sprintf("b:%v", c == 0))
			check(fmt.Sprintf("'%s' != '%s'", ts, ts2), fmt.Sprintf("b:%v", c != 0))
			// now() carries its own zone (the valuer's Now is in +03:00): a zone-less string on the other side is still UTC
			if nd := new(big.Int).Sub(bigNanos(now), t2); nd.IsInt64() {
				check(fmt.Sprintf("now() - '%s'", ts2), "d:"+nd.String())
				check(fmt.Sprintf("(now() - 1h) - '%s'", ts2), "d:"+new(big.Int).Sub(nd, big.NewInt(int64(time.Hour))).String())
			}
			check(fmt.Sprintf("now() = '%s'", ts2), fmt.Sprintf("b:%v", bigNanos(now).Cmp(t2) == 0))
			check(fmt.Sprintf("now() > '%s'", ts2), fmt.Sprintf("b:%v", bigNanos(now).Cmp(t2) > 0))
			check(fmt.Sprintf("now() >= '%s'", ts2), fmt.Sprintf("b:%v", bigNanos(now).Cmp(t2) >= 0))
		}
	}
}

func propC09(o *out, r *rng, thorough bool) {
	// every operator x kind x kind cell with boundary values, both operands literal
	pools := [][]interface{}{c09Bools, c09Ints, c09Uints, c09Floats, c09Strs}
	for _, op := range c09Ops {
		for _, pa := range pools {
			for _, pb := range pools {
				for _, a := range pa {
					for _, b := range pb {
						if !wellTypedCell(op, a, b) {
							continue
						}
						e := &influxql.BinaryExpr{Op: op, LHS: litOf(a), RHS: litOf(b)}
						c09One(o, e, nil, nil, "cell")
						// the same cell with the operands bound: left to Reduce, right to the evaluator
						ev := &influxql.BinaryExpr{Op: op, LHS: &influxql.VarRef{Val: "l"}, RHS: &influxql.VarRef{Val: "r"}}
						c09One(o, ev, map[string]interface{}{"l": a}, map[string]interface{}{"r": b}, "cell-bound")
					}
				}
			}
		}
	}
	o.extra["cells_exhaustive"] = "18 operators x 5 kinds x 5 kinds x up to 8x8 boundary values (well-typed cells)"
	// regex cells
	for _, s := range c09Strs {
		for _, p := range []string{"^a", "", "b$", "^2000-01"} {
			for _, op := range []influxql.Token{influxql.EQREGEX, influxql.NEQREGEX} {
				e := &influxql.BinaryExpr{Op: op, LHS: &influxql.VarRef{Val: "s"}, RHS: &influxql.RegexLiteral{Val: regexp.MustCompile(p)}}
				c09One(o, e, map[string]interface{}{"s": s}, nil, "regex")
				c09One(o, e, nil, map[string]interface{}{"s": s}, "regex")
			}
		}
	}
	// chains of one operator with a variable at the head and constants behind it, in both groupings, folded while the
	// variable is unknown and evaluated with a value of every numeric kind: constants may only be combined where that
	// is the same arithmetic for every value the variable can take
	consts := []interface{}{int64(1), int64(3), int64(4), int64(-1), int64(4611686018427387904), int64(math.MaxInt64), int64(math.MinInt64), uint64(1) << 63, float64(0.1), float64(1e300), float64(3)}
	heads := []interface{}{int64(5), int64(math.MaxInt64), uint64(7), uint64(math.MaxUint64), float64(0.0025), float64(1.5), float64(1e300), float64(-0.1)}
	for _, op := range []influxql.Token{influxql.ADD, influxql.MUL, influxql.SUB, influxql.DIV, influxql.BITWISE_AND, influxql.BITWISE_OR} {
		for _, c1 := range consts {
			for _, c2 := range consts {
				for _, h := range heads {
					x := &influxql.VarRef{Val: "x"}
					left := &influxql.BinaryExpr{Op: op, LHS: &influxql.BinaryExpr{Op: op, LHS: x, RHS: litOf(c1)}, RHS: litOf(c2)}
					paren := &influxql.BinaryExpr{Op: op, LHS: &influxql.ParenExpr{Expr: &influxql.BinaryExpr{Op: op, LHS: x, RHS: litOf(c1)}}, RHS: litOf(c2)}
					right := &influxql.BinaryExpr{Op: op, LHS: litOf(c1), RHS: &influxql.BinaryExpr{Op: op, LHS: litOf(c2), RHS: x}}
					for _, e := range []influxql.Expr{left, paren, right} {
						if !wellTypedCell(op, h, c1) || !wellTypedCell(op, h, c2) || !wellTypedCell(op, c1, c2) {
							continue
						}
						c09One(o, e, nil, map[string]interface{}{"x": h}, "chain")
					}
				}
			}
		}
	}
	// one unknown operand and one constant, every operator and kind (a constant that is neutral for one kind of value is
	// not neutral for another: x / 1 is a float); literals in parentheses on either side
	for _, op := range c09Ops {
		for _, c := range consts {
			for _, h := range heads {
				if !wellTypedCell(op, h, c) {
					continue
				}
				x := &influxql.VarRef{Val: "x"}
				for _, e := range []influxql.Expr{&influxql.BinaryExpr{Op: op, LHS: x, RHS: litOf(c)}, &influxql.BinaryExpr{Op: op, LHS: litOf(c), RHS: x},
					&influxql.BinaryExpr{Op: op, LHS: &influxql.ParenExpr{Expr: litOf(h)}, RHS: litOf(c)}, &influxql.BinaryExpr{Op: op, LHS: litOf(h), RHS: &influxql.ParenExpr{Expr: &influxql.ParenExpr{Expr: litOf(c)}}},
					&influxql.BinaryExpr{Op: influxql.SUB, LHS: &influxql.BinaryExpr{Op: op, LHS: x, RHS: litOf(c)}, RHS: litOf(c)}} {
					if _, isBin := e.(*influxql.BinaryExpr).LHS.(*influxql.BinaryExpr); isBin && (!wellTypedCell(influxql.SUB, h, c) || op >= influxql.AND) {
						continue
					}
					c09One(o, e, nil, map[string]interface{}{"x": h}, "cell-unknown")
					c09One(o, e, map[string]interface{}{"x": h}, nil, "cell-unknown")
				}
			}
		}
	}
	n := 5000
	if thorough {
		n = 400000
	}
	for i := 0; i < n; i++ {
		g := &c09gen{r: r, vars: map[string]interface{}{}}
		e := g.tree(pick(r, []tkind{tBool, tBool, tNum}), 1+r.intn(4))
		rho1, rho2 := map[string]interface{}{}, map[string]interface{}{}
		for k, v := range g.vars {
			if r.chance(1, 2) {
				rho1[k] = v
			} else {
				rho2[k] = v
			}
		}
		c09One(o, e, rho1, rho2, "tree")
		o.nontrivial(e.String() + envSexp(rho1) + envSexp(rho2))
		if i < 6 {
			o.sample(fmt.Sprintf("%s  reduce-with %v  eval-with %v", e.String(), rho1, rho2))
		}
	}
	c09Time(o, r, n)
	c09Zones(o)
	_ = strings.ToLower
}

func init() {
	props["C09"] = propC09
	replayers["reduce_eval"] = func(o *out, rp map[string]interface{}) {
		fmt.Println("replay of", rpStr(rp, "text"), "with", rpStr(rp, "rho1"), "/", rpStr(rp, "rho2"), ": re-running the operator x kind cells and the tree sample")
		propC09(o, newRng(1), false)
	}
	replayers["reduce_time"] = func(o *out, rp map[string]interface{}) { c09Time(o, newRng(1), 0) }
}
