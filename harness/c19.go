package main

import (
	"strings"
	"fmt"

	"github.com/influxdata/influxql"
)

// C19: required privileges cover everything a statement touches.

func privsSexp(ps influxql.ExecutionPrivileges) string {
	var b sb
	b.open()
	for i, p := range ps {
		if i > 0 {
			b.sp()
		}
		b.open(); b.boolean(p.Admin); b.sp(); b.text(p.Name); b.sp(); b.atom(int64(p.Privilege)); b.close()
	}
	b.close()
	return b.String()
}

// measurementsRead: every measurement in a FROM clause at any depth (independent walker)
func measurementsRead(q *influxql.SelectStatement, depth int, out *[]*influxql.Measurement, maxDepth *int) {
	if depth > *maxDepth {
		*maxDepth = depth
	}
	for _, s := range q.Sources {
		switch s := s.(type) {
		case *influxql.Measurement:
			*out = append(*out, s)
		case *influxql.SubQuery:
			measurementsRead(s.Statement, depth+1, out, maxDepth)
		}
	}
}

func isAdminKind(s influxql.Statement) bool {
	switch s.(type) {
	case *influxql.CreateUserStatement, *influxql.DropUserStatement, *influxql.SetPasswordUserStatement, *influxql.GrantStatement, *influxql.GrantAdminStatement,
		*influxql.RevokeStatement, *influxql.RevokeAdminStatement, *influxql.CreateDatabaseStatement, *influxql.DropDatabaseStatement,
		*influxql.CreateRetentionPolicyStatement, *influxql.AlterRetentionPolicyStatement, *influxql.CreateSubscriptionStatement, *influxql.DropSubscriptionStatement,
		*influxql.ShowSubscriptionsStatement, *influxql.DropShardStatement, *influxql.DropMeasurementStatement, *influxql.KillQueryStatement, *influxql.ShowUsersStatement,
		*influxql.ShowGrantsForUserStatement, *influxql.ShowShardsStatement, *influxql.ShowShardGroupsStatement, *influxql.ShowStatsStatement, *influxql.ShowDiagnosticsStatement:
		return true
	}
	return false
}

func c19One(o *out, text string, kind string) {
	st, err := influxql.ParseStatement(text)
	if err != nil {
		return
	}
	o.count(kind)
	var ps influxql.ExecutionPrivileges
	var perr error
	var pn interface{}
	printedBefore := st.String()
	func() {
		defer func() { pn = recover() }()
		ps, perr = st.RequiredPrivileges()
	}()
	rp := map[string]interface{}{"op": "privileges", "text": text}
	// a query: the statement is what it was, and asking again gives the same answer
	o.checked()
	if pn == nil {
		if after := st.String(); after != printedBefore {
			o.fail("", fmt.Sprintf("RequiredPrivileges changed the statement %q into %q", printedBefore, after), rp)
		}
		if ps2, err2 := st.RequiredPrivileges(); privsSexp(ps2) != privsSexp(ps) || (err2 == nil) != (perr == nil) {
			o.fail("", fmt.Sprintf("RequiredPrivileges of %q gives %v the first time and %v the second", text, ps, ps2), rp)
		}
	}
	// ... and when the statement is changed (the NOTE on RequiredPrivileges asks callers to fill in default databases
	// first), the answer is the answer for the changed statement: asked before and after, or only after, it is the same
	if pn == nil {
		fill := func(st influxql.Statement) {
			influxql.WalkFunc(st, func(n influxql.Node) {
				if m, ok := n.(*influxql.Measurement); ok && m.Database == "" {
					m.Database = "filled_in"
				} else if ok {
					m.Database = m.Database + "_2"
				}
			})
		}
		if fresh, err := influxql.ParseStatement(text); err == nil {
			o.checked()
			var a, b influxql.ExecutionPrivileges
			var ea, eb error
			pn2 := safely(func() {
				fill(st)
				a, ea = st.RequiredPrivileges()
				fill(fresh)
				b, eb = fresh.RequiredPrivileges()
			})
			if pn2 == nil && (privsSexp(a) != privsSexp(b) || (ea == nil) != (eb == nil)) {
				o.fail("", fmt.Sprintf("after changing the databases of %q, a statement that was asked before answers %v, one that was not answers %v", text, a, b), rp)
			}
			if st2, err := influxql.ParseStatement(text); err == nil { // the checks below look at the statement as written
				st = st2
			}
		}
	}
	// the list that comes back belongs to the caller: overwriting it changes no later answer - of this statement or of
	// any other (lists are not shared between statements)
	if pn == nil {
		if st2, err := influxql.ParseStatement(text); err == nil {
			var first, second influxql.ExecutionPrivileges
			var other1, other2 influxql.ExecutionPrivileges
			probe, _ := influxql.ParseStatement("DROP DATABASE d")
			if pn3 := safely(func() {
				other1, _ = probe.RequiredPrivileges()
				want := privsSexp(other1)
				first, _ = st2.RequiredPrivileges()
				for i := range first {
					first[i] = influxql.ExecutionPrivilege{Admin: false, Name: "overwritten", Privilege: influxql.NoPrivileges}
				}
				second, _ = st2.RequiredPrivileges()
				fresh, _ := influxql.ParseStatement("CREATE DATABASE e")
				other2, _ = fresh.RequiredPrivileges()
				o.checked()
				probeAgain, _ := probe.RequiredPrivileges()
				if privsSexp(probeAgain) != want || len(other2) != 1 || !other2[0].Admin {
					o.fail("", fmt.Sprintf("after the list returned for %q was overwritten by its caller, DROP DATABASE requires %v and CREATE DATABASE %v", text, probeAgain, other2), rp)
				}
			}); pn3 == nil {
				ps0, _ := st.RequiredPrivileges()
				if privsSexp(second) != privsSexp(ps0) {
					o.fail("", fmt.Sprintf("after the list returned for %q was overwritten by its caller, the statement answers %v", text, second), rp)
				}
			}
		}
	}
	o.checked()
	if pn != nil {
		o.fail("", fmt.Sprintf("RequiredPrivileges of %q panics: %v", text, pn), rp)
		return
	}
	if perr != nil {
		o.fail("", fmt.Sprintf("RequiredPrivileges of %q returns an error: %v", text, perr), rp)
		return
	}
	o.addCase("(14 "+stmtSexp(st)+")", privsSexp(ps), "RequiredPrivileges of "+text)
	if len(ps) == 0 {
		o.fail("", fmt.Sprintf("%q requires no privilege at all", text), rp)
	}
	has := func(admin bool, name string, p influxql.Privilege) bool {
		for _, x := range ps {
			if x.Admin == admin && x.Name == name && x.Privilege == p {
				return true
			}
		}
		return false
	}
	var sel *influxql.SelectStatement
	switch s := st.(type) {
	case *influxql.SelectStatement:
		sel = s
	case *influxql.ExplainStatement:
		sel = s.Statement
	}
	if sel != nil {
		var ms []*influxql.Measurement
		depth := 0
		measurementsRead(sel, 0, &ms, &depth)
		o.count(fmt.Sprintf("select:depth=%d", depth))
		for _, m := range ms {
			if !has(false, m.Database, influxql.ReadPrivilege) {
				o.fail("", fmt.Sprintf("%q reads %s but no read privilege on database %q is required", text, m.String(), m.Database), rp)
			}
		}
		if sel.Target != nil && !has(false, sel.Target.Measurement.Database, influxql.WritePrivilege) {
			o.fail("", fmt.Sprintf("%q writes INTO %s but no write privilege on database %q is required", text, sel.Target.Measurement.String(), sel.Target.Measurement.Database), rp)
		}
		o.nontrivial(privsSexp(ps))
	}
	if isAdminKind(st) && !(len(ps) == 1 && ps[0].Admin && ps[0].Privilege == influxql.AllPrivileges) {
		o.fail("", fmt.Sprintf("administrative statement %q does not require admin: %v", text, ps), rp)
	}
}

func propC19(o *out, r *rng, thorough bool) {
	per := 60
	if thorough {
		per = 6000
	}
	for _, s := range loadCorpus("statements.json") {
		c19One(o, s, "corpus")
	}
	for _, kind := range stmtKinds {
		for i := 0; i < per; i++ {
			text, _, _ := genStatement(r, kind, true)
			c19One(o, text, kind)
			if i < 1 {
				o.sample(text)
			}
		}
	}
	// cardinality forms with and without FROM / ON / EXACT (the option subsets the defect lived in)
	for _, base := range []string{"SHOW TAG KEY %sCARDINALITY", "SHOW TAG VALUES %sCARDINALITY%s WITH KEY = k", "SHOW FIELD KEY %sCARDINALITY", "SHOW SERIES %sCARDINALITY", "SHOW MEASUREMENT %sCARDINALITY"} {
		for _, ex := range []string{"", "EXACT "} {
			for _, tail := range []string{"", " ON db", " FROM m", " ON db FROM m", " FROM db2.rp.m, n", " ON db FROM /re/"} {
				var text string
				if base == "SHOW TAG VALUES %sCARDINALITY%s WITH KEY = k" {
					text = fmt.Sprintf(base, ex, tail)
				} else {
					text = fmt.Sprintf(base, ex) + tail
				}
				c19One(o, text, "cardinality-matrix")
			}
		}
	}
	// every kind of measurement name as a source, alone, second, nested, explained, as a target: a name is just a name
	for _, n := range []string{"_series", "_fieldKeys", "_measurements", "_tagKeys", "_tagKey", "_tags", "_name", "_internal", "\"select\"", "\"my m\"", "\"\"", "m", "\"time\"", "\"_series\"", "\"日本\"", "\"a.b\""} {
		for _, form := range []string{"SELECT * FROM secret..%s", "SELECT * FROM db0..cpu, secret.autogen.%s", "SELECT v FROM (SELECT v FROM (SELECT v FROM secret.rp.%s))", "EXPLAIN SELECT v FROM secret..%s",
			"SELECT v INTO secret..%s FROM db0..cpu", "SELECT v FROM secret..%s, (SELECT v FROM other..%s)", "EXPLAIN ANALYZE SELECT v INTO t FROM a..%s",
			"SHOW TAG VALUES CARDINALITY ON db FROM %s WITH KEY = k", "SHOW SERIES EXACT CARDINALITY ON db FROM %s", "DELETE FROM %s", "SHOW FIELD KEYS ON db FROM %s", "DROP SERIES FROM %s"} {
			c19One(o, strings.Replace(form, "%s", n, -1), "name-matrix")
		}
	}
	// deep nesting, many sources, every target form
	for _, d := range []int{1, 2, 3, 4, 5, 6, 15, 16, 17, 18, 31, 32, 33, 64, 100, 257} {
		text := "SELECT v FROM "
		for i := 0; i < d; i++ {
			text += fmt.Sprintf("(SELECT v FROM db%d..a%d, ", i, i)
		}
		text += "inner_db.rp.m"
		for i := 0; i < d; i++ {
			text += ")"
		}
		c19One(o, text, "deep")
		c19One(o, "EXPLAIN ANALYZE "+text, "deep")
		c19One(o, "SELECT v INTO tdb.rp.t FROM (SELECT v INTO sub_t..x FROM m), "+text[len("SELECT v FROM "):], "deep")
	}
}

func init() {
	props["C19"] = propC19
	replayers["privileges"] = func(o *out, rp map[string]interface{}) { c19One(o, rpStr(rp, "text"), "replay") }
}
