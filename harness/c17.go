package main

import (
	"bytes"
	"encoding/json"
	"fmt"
	"os"
	"sort"
	"os/exec"
	"path/filepath"
	"strings"
)

// C17: independent parses and read-only use of a shared AST are safe under concurrency.
// Three observations of /repo: (1) the static footprint of every entry point (package-level state written only by
// init; no read-only operation writes memory it was handed) compared with the model's table; (2) the workload of
// /verif/race - the package as it ships - run with and without the race detector: race reports, results versus the
// same call made alone, shared ASTs unchanged; (3) a positive control showing the detector sees a real mutator.

var c17Independent = []string{"ParseStatement", "ParseQuery", "ParseExpr", "ParseDuration", "FormatDuration", "QuoteIdent", "QuoteString", "IdentNeedsQuotes", "Sanitize", "Lookup", "BindValue"}
var c17SharedRead = []string{"(*SelectStatement).String", "(*Query).String", "(*SelectStatement).Clone", "CloneExpr", "Walk", "WalkFunc", "Eval", "EvalBool", "(*ValuerEval).Eval", "EvalType", "Reduce", "(*SelectStatement).Reduce", "(*SelectStatement).RewriteFields", "(*SelectStatement).ColumnNames", "(*SelectStatement).RequiredPrivileges", "ConditionExpr", "ExprNames", "(*SelectStatement).HasWildcard", "(Sources).String", "(*SelectStatement).TimeAscending", "(*SelectStatement).TimeFieldName", "HasTimeExpr", "FieldDimensions", "ContainsVarRef", "(*BinaryExpr).String", "(*SelectStatement).FieldExprByName", "(Statements).String"}
var c17Mutators = []string{"(*SelectStatement).GroupByInterval", "(*SelectStatement).GroupByOffset", "(*SelectStatement).SetTimeRange", "(*SelectStatement).RewriteRegexConditions", "(*SelectStatement).RewriteTimeFields", "Rewrite", "RewriteFunc", "RewriteExpr"}

type c17Entry struct {
	Name         string   `json:"name"`
	GlobalReads  []string `json:"global_reads"`
	GlobalWrites []string `json:"global_writes"`
	ParamWrites  []int    `json:"param_writes"`
	IsInit       bool     `json:"is_init"`
}

func c17BuildDir() string {
	if d := os.Getenv("VERIF_BUILD_DIR"); d != "" {
		return d
	}
	return "/verif/.build"
}

func c17Footprints() ([]c17Entry, error) {
	cmd := exec.Command(filepath.Join(c17BuildDir(), "footprint"), "/repo")
	cmd.Dir = "/repo"
	var out, errb bytes.Buffer
	cmd.Stdout, cmd.Stderr = &out, &errb
	if err := cmd.Run(); err != nil {
		return nil, fmt.Errorf("footprint analysis failed: %v: %s", err, errb.String())
	}
	var es []c17Entry
	if err := json.Unmarshal(out.Bytes(), &es); err != nil {
		return nil, err
	}
	return es, nil
}

func c17Static(o *out) {
	es, err := c17Footprints()
	if err != nil {
		o.fail("", err.Error(), map[string]interface{}{"op": "footprint"})
		return
	}
	by := map[string]c17Entry{}
	for _, e := range es {
		by[e.Name] = e
		o.checked()
		// process-wide state is built once, at init
		if !e.IsInit && len(e.GlobalWrites) > 0 {
			o.fail("", fmt.Sprintf("%s writes the package-level variable(s) %v after initialisation: any two goroutines that reach it race", e.Name, e.GlobalWrites),
				map[string]interface{}{"op": "footprint", "func": e.Name})
		}
	}
	o.extra["functions_analysed"] = len(es)
	// read sets are compared on the variables something writes after initialisation; a variable nothing writes may be
	// read by any number of goroutines
	written := map[string]bool{}
	for _, e := range es {
		if !e.IsInit {
			for _, g := range e.GlobalWrites {
				written[g] = true
			}
		}
	}
	var ws []string
	for g := range written {
		ws = append(ws, g)
	}
	sort.Strings(ws)
	racyReads := func(gs []string) []string {
		out := []string{}
		for _, g := range gs {
			if written[g] {
				out = append(out, g)
			}
		}
		return out
	}
	var b sb
	b.open()
	first := true
	entry := func(n string) {
		e, ok := by[n]
		if !first {
			b.sp()
		}
		first = false
		b.open(); b.text(n); b.sp(); b.texts(racyReads(e.GlobalReads)); b.sp(); b.texts(e.GlobalWrites); b.sp(); b.open()
		for i, p := range e.ParamWrites {
			if i > 0 {
				b.sp()
			}
			b.atom(int64(p))
		}
		b.close(); b.close()
		o.checked()
		if !ok {
			o.fail("", "entry point "+n+" no longer exists", map[string]interface{}{"op": "footprint", "func": n})
		}
	}
	for _, n := range c17Independent {
		entry(n)
		o.count("independent entry point")
	}
	for _, n := range c17SharedRead {
		entry(n)
		o.count("read-only entry point")
		if e := by[n]; len(e.ParamWrites) > 0 {
			o.fail("", fmt.Sprintf("%s writes memory it was handed (parameter %v, receiver first): on a shared AST that is a race", n, e.ParamWrites), map[string]interface{}{"op": "footprint", "func": n})
		}
	}
	for _, n := range c17Mutators {
		entry(n)
		o.count("mutator (control)")
		if e := by[n]; len(e.ParamWrites) == 0 {
			o.fail("", fmt.Sprintf("the analysis no longer sees that %s writes its argument: the static check has gone blind", n), map[string]interface{}{"op": "footprint", "func": n})
		}
	}
	b.close()
	var wb sb
	wb.texts(ws)
	o.addCaseVM("(31 "+wb.String()+")", b.String(), "footprint table of the entry points", true)
}

type c17Report struct {
	Operations int `json:"operations"`
	Texts      int `json:"texts"`
	SharedASTs int `json:"shared_asts"`
	Failures   []struct {
		Kind, Op, Input, Alone, Concurrent string
	} `json:"failures"`
}

func c17Run(o *out, bin string, corpus string, seed uint64, goroutines, iters int, control bool, tag string) (races int, rep c17Report, firstRace string, crashed string) {
	logBase := filepath.Join(o.dir, "race-"+tag)
	args := []string{"-corpus", corpus, "-seed", fmt.Sprint(seed), "-goroutines", fmt.Sprint(goroutines), "-iters", fmt.Sprint(iters)}
	if control {
		args = append(args, "-control")
	}
	cmd := exec.Command(filepath.Join(c17BuildDir(), bin), args...)
	cmd.Env = append(os.Environ(), "GORACE=log_path="+logBase+" halt_on_error=0")
	var outb, errb bytes.Buffer
	cmd.Stdout, cmd.Stderr = &outb, &errb
	err := cmd.Run()
	logs, _ := filepath.Glob(logBase + ".*")
	for _, l := range logs {
		data, _ := os.ReadFile(l)
		races += strings.Count(string(data), "WARNING: DATA RACE")
		if firstRace == "" && len(data) > 0 {
			firstRace = string(data)
			if len(firstRace) > 2500 {
				firstRace = firstRace[:2500]
			}
		}
		os.Remove(l)
	}
	if jerr := json.Unmarshal(outb.Bytes(), &rep); jerr != nil {
		tail := errb.String()
		if len(tail) > 2000 {
			tail = tail[:2000]
		}
		crashed = fmt.Sprintf("%v: %s", err, tail)
	}
	return
}

func propC17(o *out, r *rng, thorough bool) {
	c17Static(o)
	// corpus: the hand-written statements plus generated ones of every kind
	var texts []string
	for _, t := range []string{"SELECT mean(value) FROM cpu WHERE host = 'a' AND time > now() - 1h GROUP BY time(5m), region fill(none)", "SELECT * FROM cpu, mem GROUP BY *",
		"SELECT (v1 + value) * 2 FROM m WHERE (v1 > 1.5 OR usage < 5) AND region =~ /^(a|b)$/", "SELECT max(*), /v/ FROM (SELECT value, v1 FROM cpu GROUP BY host) WHERE s = 'x' GROUP BY time(1m, 10s)",
		"SELECT top(value, host, 3), \"Default\" FROM \"sHoW\".\"rp\".cpu WHERE \"From\" = 1", "sHoW mEaSuReMeNtS", "CREATE USER \"Default\" WITH PASSWORD 'secret'", "SET PASSWORD FOR u = 'pw'",
		"SELECT count(DISTINCT v1) FROM cpu WHERE time >= '2000-01-01T00:00:00Z' AND time < '2000-01-02' TZ('UTC')",
		// wildcard expansion over one measurement with explicit tag dimensions (the schema's maps are shared by all goroutines)
		"SELECT time, value, usage FROM cpu", "SELECT time AS t, mean(value), max(usage) FROM cpu GROUP BY time(1m)", "SELECT value, time, usage FROM cpu WHERE host = 'a'",
		"SELECT * FROM cpu GROUP BY host", "SELECT *, value FROM cpu GROUP BY region, time(1m)", "SELECT mean(*) FROM cpu GROUP BY host, region", "SELECT /a/ FROM cpu GROUP BY *",
		// statements of other kinds whose sources or names a privilege or name query might be tempted to fill in
		"SHOW SERIES EXACT CARDINALITY ON db0 FROM cpu, rp1.mem", "SHOW TAG VALUES CARDINALITY ON db0 FROM cpu WITH KEY = host", "SHOW MEASUREMENT CARDINALITY ON db0 FROM /c/", "DELETE FROM cpu WHERE host = 'a'",
		"SHOW FIELD KEYS ON db0 FROM cpu, mem", "EXPLAIN ANALYZE SELECT mean(v) FROM (SELECT v FROM cpu WHERE time > now() - 1h)", "SELECT mean(v) FROM (SELECT v FROM cpu WHERE time > now() - 1h GROUP BY time(1m, now()))"} {
		texts = append(texts, t)
	}
	texts = append(texts, loadCorpus("statements.json")...)
	n := 150
	if thorough {
		n = 1500
	}
	for i := 0; i < n; i++ {
		t, _, _ := genStatement(r, pick(r, stmtKinds), r.chance(1, 2))
		if !strings.ContainsAny(t, "\n\r") {
			texts = append(texts, t)
		}
	}
	corpus := filepath.Join(o.dir, "corpus.txt")
	must(os.WriteFile(corpus, []byte(strings.Join(texts, "\n")+"\n"), 0o644))
	o.extra["corpus_statements"] = len(texts)
	for _, t := range texts[:20] {
		o.sample(t)
		o.nontrivial(t)
	}
	seeds := 2
	iters := 400
	if thorough {
		seeds, iters = 12, 3000
	}
	totalOps := 0
	for s := 0; s < seeds; s++ {
		seed := r.next() % 1000000
		for _, bin := range []string{"race_on", "race_off"} {
			goroutines := 16
			if s%2 == 1 {
				goroutines = 64
			}
			races, rep, firstRace, crashed := c17Run(o, bin, corpus, seed, goroutines, iters, false, bin)
			rp := map[string]interface{}{"op": "race", "binary": bin, "seed": fmt.Sprint(seed), "goroutines": goroutines, "iters": iters}
			o.checked()
			o.count("workload run: " + bin)
			if crashed != "" {
				o.fail("", "the concurrent workload crashed: "+crashed, rp)
				continue
			}
			totalOps += rep.Operations
			if races > 0 {
				rp["report"] = firstRace
				o.fail("", fmt.Sprintf("the race detector reports %d data race(s) in read-only / independent use; first: %s", races, oneLine(firstLines(firstRace, 12))), rp)
			}
			for _, f := range rep.Failures {
				rp2 := map[string]interface{}{"op": "race", "binary": bin, "seed": fmt.Sprint(seed), "goroutines": goroutines, "iters": iters, "text": f.Input}
				o.fail("", fmt.Sprintf("%s: %s on %q: alone %q, concurrently %q", f.Kind, f.Op, f.Input, f.Alone, f.Concurrent), rp2)
			}
		}
	}
	o.extra["concurrent_operations"] = totalOps
	// positive control: with a real mutator in the mix the detector must speak up
	races, rep, _, crashed := c17Run(o, "race_on", corpus, 7, 16, 200, true, "control")
	o.checked()
	o.extra["control_races_reported"] = races
	o.extra["control_result_differences"] = len(rep.Failures)
	if crashed == "" && races == 0 && len(rep.Failures) == 0 {
		o.fail("", "positive control: SetTimeRange on the shared statements produced neither a race report nor a differing result - the dynamic check has gone blind", map[string]interface{}{"op": "race-control"})
	}
}

func firstLines(s string, n int) string {
	ls := strings.Split(s, "\n")
	if len(ls) > n {
		ls = ls[:n]
	}
	return strings.Join(ls, " / ")
}

func init() {
	props["C17"] = propC17
	replayers["footprint"] = func(o *out, rp map[string]interface{}) { c17Static(o) }
	replayers["race"] = func(o *out, rp map[string]interface{}) {
		fmt.Println("replay: re-running the concurrent workload with the recorded seed (schedules are not reproducible; the static footprint check is re-run as well)")
		propC17(o, newRng(1), false)
	}
}
